package daemon

// C15 — ConfigMap / dynamic config / file configuration never panics the daemon or the
// controllers: MergeConfigAndUnmarshal, ConfigFromConfigMap, GetConfigFromFileWithMerge,
// Populate / Validate and the accessors every consumer calls.

import (
	"context"
	"encoding/json"
	"os"
	"testing"

	"github.com/go-playground/mold/v4/modifiers"
	"github.com/go-playground/validator/v10"
	corev1 "k8s.io/api/core/v1"
	metav1 "k8s.io/apimachinery/pkg/apis/meta/v1"
	"sigs.k8s.io/controller-runtime/pkg/client/fake"

	g "github.com/AliyunContainerService/terway/zz_verif/c15gen"
	"github.com/AliyunContainerService/terway/zz_verif/vt"
	"pgregory.net/rapid"
)

type vfC15CfgScenario struct {
	Kind string   `json:"kind"`
	Via  string   `json:"via"`  // merge | configmap | file
	Base *g.Bytes `json:"base"` // nil: eni_conf key absent / empty
	Top  *g.Bytes `json:"top"`  // nil: no dynamic config
}

// a dynamic (per node) config is a merge patch: a subset of keys, possibly null to delete
func vfC15ValidTop(t *rapid.T) []byte {
	var m map[string]any
	_ = json.Unmarshal(g.ENIConf(t), &m)
	out := map[string]any{}
	for _, k := range []string{"vswitches", "security_groups", "max_pool_size", "min_pool_size", "eni_tags", "ip_stack", "enable_eni_trunking", "eni_cap_ratio"} {
		switch rapid.IntRange(0, 3).Draw(t, "top_"+k) {
		case 0:
			if v, ok := m[k]; ok {
				out[k] = v
			}
		case 1:
			out[k] = nil
		}
	}
	return g.MustJSON(out)
}

func vfC15GenCfg(t *rapid.T) vfC15CfgScenario {
	s := vfC15CfgScenario{Kind: g.Kind(t)}
	s.Via = rapid.SampledFrom([]string{"merge", "merge", "merge", "merge", "configmap", "file"}).Draw(t, "via")
	hasTop := rapid.Bool().Draw(t, "hastop")
	hasBase := rapid.IntRange(0, 15).Draw(t, "hasbase") > 0
	// in the mutated kind exactly one of the two documents carries the mutation
	mutTop := hasTop && rapid.Bool().Draw(t, "muttop")
	kindOf := func(top bool) string {
		if s.Kind != g.KindMutated || top == mutTop || (!top && !hasTop) {
			return s.Kind
		}
		return g.KindValid
	}
	if hasBase {
		v := g.JSONField(t, kindOf(false), g.ENIConf, g.ENIConfHostile)
		s.Base = &v
	}
	if hasTop {
		v := g.JSONField(t, kindOf(true), vfC15ValidTop, g.ENIConfHostile)
		s.Top = &v
	}
	return s
}

func vfC15UseConfig(c g.Sink, cfg *Config) {
	cfg.Populate()
	verr := cfg.Validate()
	_ = cfg.GetSecurityGroups()
	_ = cfg.GetVSwitchIDs()
	_ = cfg.GetExtraRoutes()
	if cfg.EnablePatchPodIPs == nil {
		c.Fatalf("Populate left EnablePatchPodIPs nil")
	}
	_ = *cfg.EnablePatchPodIPs
	merr := modifiers.New().Struct(context.Background(), cfg)
	var serr error
	if merr == nil {
		serr = validator.New().Struct(cfg)
	}
	if verr == nil && merr == nil && serr == nil {
		c.Label("depth3-validated")
	} else {
		c.Label("depth2-unmarshalled-invalid")
	}
	// and it must still serialise (the daemon logs / traces its configuration)
	if _, err := json.Marshal(cfg); err != nil {
		c.Label("marshal-error")
	}
}

func vfC15RunCfg(c g.Sink, s vfC15CfgScenario) {
	c.Label("kind:" + s.Kind)
	c.Label("via:" + s.Via)
	var base, top []byte
	if s.Base != nil {
		base = *s.Base
	}
	if s.Top != nil {
		top = *s.Top
		c.Label("with-top")
	}
	if json.Valid(base) {
		c.NonTrivial()
	} else {
		c.Label("depth0-base-not-json")
	}

	var cfg *Config
	var err error
	switch s.Via {
	case "merge":
		cfg, err = MergeConfigAndUnmarshal(top, base)
	case "file":
		f, ferr := os.CreateTemp(".", "c15cfg")
		if ferr != nil {
			c.Inconclusive("tempfile")
		}
		_, _ = f.Write(base)
		_ = f.Close()
		defer os.Remove(f.Name())
		cfg, err = GetConfigFromFileWithMerge(f.Name(), top)
	case "configmap":
		cm := &corev1.ConfigMap{ObjectMeta: metav1.ObjectMeta{Name: "eni-config", Namespace: "kube-system"}, Data: map[string]string{}}
		if s.Base != nil {
			cm.Data["eni_conf"] = string(base)
		}
		cm.Data["10-terway.conf"] = "{}"
		node := &corev1.Node{ObjectMeta: metav1.ObjectMeta{Name: "node-1", Labels: map[string]string{}}}
		b := fake.NewClientBuilder().WithObjects(cm, node)
		if s.Top != nil {
			node.Labels["terway-config"] = "dyn"
			b = b.WithObjects(&corev1.ConfigMap{ObjectMeta: metav1.ObjectMeta{Name: "dyn", Namespace: "kube-system"}, Data: map[string]string{"eni_conf": string(top)}})
		}
		cfg, err = ConfigFromConfigMap(context.Background(), b.Build(), "node-1")
	}
	if err != nil {
		if json.Valid(base) {
			c.Label("depth1-rejected-after-json")
		}
		return
	}
	if cfg == nil {
		c.Fatalf("nil config without error")
	}
	vfC15UseConfig(c, cfg)
}

func TestVerifC15DaemonConfig(t *testing.T) { vt.Run(t, vfC15GenCfg, g.NoPanic(g.Adapt(vfC15RunCfg))) }
