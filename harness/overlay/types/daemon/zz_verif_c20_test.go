package daemon

// C20 (a): merging a node-specific dynamic configuration over the cluster configuration
// follows JSON merge-patch semantics (RFC 7396).
//
// Generated base/overlay documents over the Config key set are merged by the real
// MergeConfigAndUnmarshal and by a reference RFC 7396 implementation written here
// (c20RefMerge) followed by the same decoder; the decoded Configs must agree. The laws
// named in the property statement are checked directly as well:
//
//	L1 an empty overlay ("" or {}) changes nothing
//	L2 applying an overlay twice equals applying it once
//	L3 keys absent from the overlay keep the base value (top level and inside maps)
//	L4 null deletes
//
// Strict domain: base and overlay are JSON objects without duplicate member names
// (RFC 8259 leaves duplicates undefined; Go's decoder unions duplicate maps while the
// merge keeps the last one). Outside it (scalar/array/null documents, corrupted text)
// the code may reject, but must not panic and, if it answers, must answer as RFC 7396.

import (
	"bytes"
	stdjson "encoding/json"
	"fmt"
	"io"
	"reflect"
	"sort"
	"strings"
	"testing"

	k8sjson "k8s.io/apimachinery/pkg/util/json"
	"pgregory.net/rapid"

	"github.com/AliyunContainerService/terway/zz_verif/vt"
)

type c20MergeScenario struct {
	Mode    string `json:"mode"` // "gen" (documents by construction) or "raw" (byte edits applied)
	Base    string `json:"base"`
	Overlay string `json:"overlay"`
}

// ---------------------------------------------------------------- generator

type c20Kind int

const (
	c20KString c20Kind = iota
	c20KInt
	c20KFloat
	c20KBool
	c20KStrings      // []string
	c20KMapStrings   // map[string][]string
	c20KMapString    // map[string]string
	c20KMapInt       // map[string]int
	c20KMapBackoff   // map[string]wait.Backoff
	c20KRoutes       // []route.Route
	c20KUnknownDeep  // not a Config key: arbitrary nested value
	c20KUnknownPlain // not a Config key: scalar
)

type c20KeySpec struct {
	name string
	kind c20Kind
}

var c20Keys = []c20KeySpec{
	{"version", c20KString}, {"access_key", c20KString}, {"access_secret", c20KString},
	{"region_id", c20KString}, {"credential_path", c20KString}, {"service_cidr", c20KString},
	{"vswitches", c20KMapStrings}, {"eni_tags", c20KMapString},
	{"max_pool_size", c20KInt}, {"min_pool_size", c20KInt}, {"min_eni", c20KInt}, {"max_eni", c20KInt},
	{"prefix", c20KString}, {"security_group", c20KString}, {"security_groups", c20KStrings},
	{"eni_cap_ratio", c20KFloat}, {"eni_cap_shift", c20KInt},
	{"vswitch_selection_policy", c20KString}, {"eni_selection_policy", c20KString}, {"ip_stack", c20KString},
	{"enable_eni_trunking", c20KBool}, {"enable_erdma", c20KBool},
	{"custom_stateful_workload_kinds", c20KStrings}, {"ipam_type", c20KString},
	{"backoff_override", c20KMapBackoff}, {"extra_routes", c20KRoutes},
	{"disable_device_plugin", c20KBool}, {"eni_tag_filter", c20KMapString},
	{"kube_client_qps", c20KFloat}, {"kube_client_burst", c20KInt},
	{"resource_group_id", c20KString}, {"rate_limit", c20KMapInt}, {"enable_patch_pod_ips", c20KBool},
	// not Config keys
	{"zz_unknown", c20KUnknownDeep}, {"Version", c20KUnknownPlain}, {"", c20KUnknownPlain},
	{"eniTags", c20KUnknownDeep},
}

// the map-typed and nested keys are where "merge" differs from "replace"; they get
// extra weight when the key universe of a scenario is drawn.
var c20NestedIdx = func() []int {
	var out []int
	for i, k := range c20Keys {
		switch k.kind {
		case c20KMapStrings, c20KMapString, c20KMapInt, c20KMapBackoff, c20KUnknownDeep:
			out = append(out, i)
		}
	}
	return out
}()

var (
	c20Strs    = []string{"", "a", "b", "1", "vsw-1", "vsw-2", "sg-1", "cn-hangzhou-i", "ipv4", "dual", "ordered", "random", "crd", `q"uote`, `back\slash`, "<&>", "null", "true", "10.0.0.0/8"}
	c20SubKeys = []string{"cn-a", "cn-b", "cn-c", "k", "", "Duration"}
	c20Ints    = []string{"0", "1", "2", "5", "10", "-1", "-0", "255", "65536", "2147483648", "9223372036854775807"}
	c20Floats  = []string{"0", "1", "0.5", "1.0", "2.5", "-1.25", "1e2", "1E-2", "0.1", "3"}
)

func c20Q(s string) string {
	b, _ := stdjson.Marshal(s)
	return string(b)
}

// c20U draws from [0,n) close to uniformly: rapid's integer generators strongly favour
// small values and the bounds (a third of IntRange(0,99) draws are below 10), which would
// starve the common classes. Shrinks towards 0.
func c20U(t *rapid.T, n int, label string) int {
	bits := 3
	for (1 << bits) < n*8 {
		bits++
	}
	v := 0
	for i := 0; i < bits; i++ {
		if rapid.Bool().Draw(t, label) {
			v |= 1 << i
		}
	}
	return v % n
}

func c20Pick(t *rapid.T, pool []string, label string) string {
	return pool[c20U(t, len(pool), label)]
}

// c20Obj renders members in the given order; ws adds insignificant whitespace.
func c20Obj(members [][2]string, ws bool) string {
	var sb strings.Builder
	sb.WriteByte('{')
	for i, m := range members {
		if i > 0 {
			sb.WriteByte(',')
		}
		if ws {
			sb.WriteString("\n  ")
		}
		sb.WriteString(c20Q(m[0]))
		sb.WriteByte(':')
		if ws {
			sb.WriteByte(' ')
		}
		sb.WriteString(m[1])
	}
	if ws {
		sb.WriteString("\n")
	}
	sb.WriteByte('}')
	return sb.String()
}

func c20Arr(items []string) string { return "[" + strings.Join(items, ",") + "]" }

// c20SubSet draws a subset of the shared sub-key pool (distinct names, drawn order).
func c20SubSet(t *rapid.T, max int) []string {
	n := c20U(t, max+1, "nsub")
	perm := rapid.Permutation(c20SubKeys).Draw(t, "subperm")
	if n > len(perm) {
		n = len(perm)
	}
	return perm[:n]
}

func c20StrList(t *rapid.T, allowNull bool) string {
	n := c20U(t, 4, "nlist")
	items := make([]string, n)
	for i := range items {
		if allowNull && c20U(t, 10, "lnull") == 0 {
			items[i] = "null"
		} else {
			items[i] = c20Q(c20Pick(t, c20Strs, "ls"))
		}
	}
	return c20Arr(items)
}

func c20Deep(t *rapid.T, depth int, overlay bool) string {
	max := 6
	if depth <= 0 {
		max = 3
	}
	switch c20U(t, max+1, "deep") {
	case 0:
		return c20Q(c20Pick(t, c20Strs, "ds"))
	case 1:
		return c20Pick(t, c20Ints, "di")
	case 2:
		return "null"
	case 3:
		return "true"
	case 4:
		n := c20U(t, 3, "dn")
		items := make([]string, n)
		for i := range items {
			items[i] = c20Deep(t, depth-1, overlay)
		}
		return c20Arr(items)
	default:
		var ms [][2]string
		for _, k := range c20SubSet(t, 3) {
			ms = append(ms, [2]string{k, c20Deep(t, depth-1, overlay)})
		}
		return c20Obj(ms, false)
	}
}

// c20Mismatch returns a value of a JSON type the key does not accept.
func c20Mismatch(t *rapid.T, kind c20Kind) string {
	switch kind {
	case c20KString:
		return []string{"5", "true", `{"a":"b"}`, `["a"]`}[c20U(t, 4, "mm")]
	case c20KInt:
		return []string{`"5"`, "1.5", "true", `{}`, "1e30"}[c20U(t, 5, "mm")]
	case c20KFloat:
		return []string{`"1"`, "false", `[1]`, "1e999"}[c20U(t, 4, "mm")]
	case c20KBool:
		return []string{`"true"`, "1", `{}`}[c20U(t, 3, "mm")]
	case c20KStrings, c20KRoutes:
		return []string{`"a"`, `{"a":"b"}`, "7", `[1]`}[c20U(t, 4, "mm")]
	default: // maps
		return []string{`"a"`, `["a"]`, "7", `{"cn-a":{"x":1}}`, `{"cn-a":true}`}[c20U(t, 5, "mm")]
	}
}

// c20Value draws the JSON text of a value for key spec k. In overlays nulls are
// frequent (they are the delete instruction), in bases they are rare.
func c20Value(t *rapid.T, k c20KeySpec, overlay bool) string {
	r := c20U(t, 100, "flavour")
	nullBelow := 3
	if overlay {
		nullBelow = 14
	}
	if r < nullBelow {
		return "null"
	}
	if r < nullBelow+3 && k.kind != c20KUnknownDeep && k.kind != c20KUnknownPlain {
		return c20Mismatch(t, k.kind)
	}
	subNull := func() bool { return overlay && c20U(t, 4, "subnull") == 0 }
	switch k.kind {
	case c20KString, c20KUnknownPlain:
		return c20Q(c20Pick(t, c20Strs, "s"))
	case c20KInt:
		return c20Pick(t, c20Ints[:8], "i")
	case c20KFloat:
		return c20Pick(t, c20Floats, "f")
	case c20KBool:
		return []string{"true", "false"}[c20U(t, 2, "b")]
	case c20KStrings:
		return c20StrList(t, true)
	case c20KRoutes:
		n := c20U(t, 3, "nroutes")
		items := make([]string, n)
		for i := range items {
			switch c20U(t, 6, "route") {
			case 0:
				items[i] = `{"dst":null}`
			case 1:
				items[i] = `{"dst":"10.0.0.0/8","x":null}`
			default:
				items[i] = c20Obj([][2]string{{"dst", c20Q(c20Pick(t, c20Strs, "dst"))}}, false)
			}
		}
		return c20Arr(items)
	case c20KMapStrings:
		var ms [][2]string
		for _, sk := range c20SubSet(t, 4) {
			v := c20StrList(t, false)
			if subNull() {
				v = "null"
			}
			ms = append(ms, [2]string{sk, v})
		}
		return c20Obj(ms, false)
	case c20KMapString:
		var ms [][2]string
		for _, sk := range c20SubSet(t, 4) {
			v := c20Q(c20Pick(t, c20Strs, "ms"))
			if subNull() {
				v = "null"
			}
			ms = append(ms, [2]string{sk, v})
		}
		return c20Obj(ms, false)
	case c20KMapInt:
		var ms [][2]string
		for _, sk := range c20SubSet(t, 4) {
			v := c20Pick(t, c20Ints[:8], "mi")
			if subNull() {
				v = "null"
			}
			ms = append(ms, [2]string{sk, v})
		}
		return c20Obj(ms, false)
	case c20KMapBackoff:
		var ms [][2]string
		for _, sk := range c20SubSet(t, 3) {
			if subNull() {
				ms = append(ms, [2]string{sk, "null"})
				continue
			}
			var fs [][2]string
			fields := rapid.Permutation([]string{"Duration", "Factor", "Jitter", "Steps", "Cap", "steps"}).Draw(t, "bfields")
			for _, f := range fields[:c20U(t, 5, "nbf")] {
				var v string
				switch f {
				case "Factor", "Jitter":
					v = c20Pick(t, c20Floats, "bf")
				default:
					v = c20Pick(t, c20Ints[:8], "bi")
				}
				if subNull() {
					v = "null"
				}
				fs = append(fs, [2]string{f, v})
			}
			ms = append(ms, [2]string{sk, c20Obj(fs, false)})
		}
		return c20Obj(ms, false)
	default:
		return c20Deep(t, 3, overlay)
	}
}

func c20Doc(t *rapid.T, universe []int, pTake int, overlay bool) string {
	var ms [][2]string
	order := rapid.Permutation(universe).Draw(t, "order")
	for _, ki := range order {
		if c20U(t, 100, "take") >= pTake {
			continue
		}
		ms = append(ms, [2]string{c20Keys[ki].name, c20Value(t, c20Keys[ki], overlay)})
	}
	return c20Obj(ms, c20U(t, 5, "ws") == 0)
}

const c20EditAlphabet = `{}[]",:0123456789nulltrefas\ -.eE+` + "\n"

func c20Edit(t *rapid.T, s string) string {
	b := []byte(s)
	n := 1 + c20U(t, 3, "nedits")
	for i := 0; i < n; i++ {
		if len(b) == 0 {
			b = append(b, c20EditAlphabet[c20U(t, len(c20EditAlphabet), "ch")])
			continue
		}
		pos := c20U(t, len(b), "pos")
		switch c20U(t, 4, "edit") {
		case 0: // delete
			b = append(b[:pos], b[pos+1:]...)
		case 1: // truncate
			b = b[:pos]
		case 2: // replace
			b[pos] = c20EditAlphabet[c20U(t, len(c20EditAlphabet), "ch")]
		default: // insert
			ch := c20EditAlphabet[c20U(t, len(c20EditAlphabet), "ch")]
			b = append(b[:pos], append([]byte{ch}, b[pos:]...)...)
		}
	}
	return string(b)
}

func genC20Merge(t *rapid.T) c20MergeScenario { return c20GenDocs(t) }

// c20GenDocs draws a base/overlay pair; forced key indexes (into c20Keys) are always part
// of the scenario's key universe.
func c20GenDocs(t *rapid.T, forced ...int) c20MergeScenario {
	s := c20MergeScenario{Mode: "gen"}
	// key universe of this scenario: a few nested keys (always) plus some others, so that
	// base and overlay overlap on a good share of their keys.
	seen := map[int]bool{}
	var universe []int
	add := func(i int) {
		if !seen[i] {
			seen[i] = true
			universe = append(universe, i)
		}
	}
	for _, i := range forced {
		add(i)
	}
	for i, n := 0, 1+c20U(t, 3, "nnested"); i < n; i++ {
		add(c20NestedIdx[c20U(t, len(c20NestedIdx), "nested")])
	}
	for i, n := 0, 1+c20U(t, vt.Scale(7, 12), "nother"); i < n; i++ {
		add(c20U(t, len(c20Keys), "key"))
	}

	s.Base = c20Doc(t, universe, 75, false)
	switch k := c20U(t, 100, "ovkind"); {
	case k < 5:
		s.Overlay = ""
	case k < 10:
		s.Overlay = []string{"{}", "{ }", "{\n}"}[c20U(t, 3, "empty")]
	case k < 14:
		s.Overlay = []string{"null", "[]", `[{"version":"x"}]`, "5", `"x"`, "true", " ", `[null,{"a":null}]`}[c20U(t, 8, "nonobj")]
	default:
		s.Overlay = c20Doc(t, universe, 55, true)
	}
	switch k := c20U(t, 100, "basekind"); {
	case k < 3:
		s.Base = []string{"null", "[]", "7", `"s"`, "", `[{"version":"x"}]`}[c20U(t, 6, "nonobjbase")]
	case k < 9:
		s.Mode = "raw"
		if rapid.Bool().Draw(t, "editbase") {
			s.Base = c20Edit(t, s.Base)
		} else {
			s.Overlay = c20Edit(t, s.Overlay)
		}
	}
	return s
}

// ---------------------------------------------------------------- reference (RFC 7396)

// c20Parse parses one JSON document, keeping number literals verbatim, and rejects
// trailing data the way json.Unmarshal does.
func c20Parse(b []byte) (any, error) {
	dec := stdjson.NewDecoder(bytes.NewReader(b))
	dec.UseNumber()
	var v any
	if err := dec.Decode(&v); err != nil {
		return nil, err
	}
	if _, err := dec.Token(); err != io.EOF {
		return nil, fmt.Errorf("trailing data")
	}
	return v, nil
}

// c20HasDup reports whether any object in the (syntactically valid) document repeats a
// member name.
func c20HasDup(b []byte) bool {
	dec := stdjson.NewDecoder(bytes.NewReader(b))
	dec.UseNumber()
	type frame struct {
		obj   bool
		names map[string]bool
		isKey bool
	}
	var st []*frame
	for {
		tok, err := dec.Token()
		if err != nil {
			return false
		}
		top := func() *frame {
			if len(st) == 0 {
				return nil
			}
			return st[len(st)-1]
		}
		if d, ok := tok.(stdjson.Delim); ok {
			switch d {
			case '{':
				if f := top(); f != nil && f.obj {
					f.isKey = true
				}
				st = append(st, &frame{obj: true, names: map[string]bool{}, isKey: true})
			case '[':
				if f := top(); f != nil && f.obj {
					f.isKey = true
				}
				st = append(st, &frame{})
			default:
				st = st[:len(st)-1]
			}
			continue
		}
		f := top()
		if f == nil || !f.obj {
			continue
		}
		if f.isKey {
			name, _ := tok.(string)
			if f.names[name] {
				return true
			}
			f.names[name] = true
			f.isKey = false
		} else {
			f.isKey = true
		}
	}
}

// c20RefMerge is MergePatch(Target, Patch) of RFC 7396 section 2.
func c20RefMerge(target, patch any) any {
	pm, ok := patch.(map[string]any)
	if !ok {
		return patch
	}
	out := map[string]any{}
	if tm, ok := target.(map[string]any); ok {
		for k, v := range tm {
			out[k] = v
		}
	}
	for k, v := range pm {
		if v == nil {
			delete(out, k)
		} else {
			out[k] = c20RefMerge(out[k], v)
		}
	}
	return out
}

func c20Decode(b []byte) (*Config, error) {
	c := &Config{}
	err := k8sjson.Unmarshal(b, c)
	return c, err
}

// c20Fields: JSON member name -> struct field index of Config.
var c20Fields = func() map[string]int {
	m := map[string]int{}
	rt := reflect.TypeOf(Config{})
	for i := 0; i < rt.NumField(); i++ {
		name := strings.Split(rt.Field(i).Tag.Get("json"), ",")[0]
		if name != "" && name != "-" {
			m[name] = i
		}
	}
	return m
}()

func c20SortedKeys(m map[string]any) []string {
	out := make([]string, 0, len(m))
	for k := range m {
		out = append(out, k)
	}
	sort.Strings(out)
	return out
}

// c20Show prints a Config including the secrets (its own formatting masks them).
func c20Show(c *Config) string {
	if c == nil {
		return "<nil>"
	}
	type plain Config
	p := plain(*c)
	return fmt.Sprintf("%+v access_key=%q access_secret=%q", p, string(c.AccessID), string(c.AccessSecret))
}

// ---------------------------------------------------------------- execution + oracle

// c20Reporter is what the oracle needs from its driver: *vt.Ctx under rapid, a thin
// adapter over *testing.T under the native fuzzer (zz_verif_c20_fuzz_test.go).
type c20Reporter interface {
	Fatalf(format string, args ...any)
	Label(l string)
	NonTrivial()
	Trace(format string, args ...any)
}

func runC20Merge(c *vt.Ctx, s c20MergeScenario) { c20JudgeMerge(c, s) }

func c20JudgeMerge(c c20Reporter, s c20MergeScenario) {
	base, overlay := []byte(s.Base), []byte(s.Overlay)

	got, gotErr := MergeConfigAndUnmarshal(overlay, base)
	c.Trace("real: err=%v cfg=%s", gotErr, c20Show(got))

	baseV, baseParseErr := c20Parse(base)
	ovV, ovParseErr := c20Parse(overlay)
	baseObj, baseIsObj := baseV.(map[string]any)
	ovObj, ovIsObj := ovV.(map[string]any)
	emptyText := len(overlay) == 0

	strict := baseParseErr == nil && baseIsObj && !c20HasDup(base) &&
		(emptyText || (ovParseErr == nil && ovIsObj && !c20HasDup(overlay)))
	switch {
	case baseParseErr != nil:
		c.Label("base:syntax-error")
	case !baseIsObj:
		c.Label("base:not-an-object")
	}
	switch {
	case emptyText:
		c.Label("overlay:empty-text")
	case ovParseErr != nil:
		c.Label("overlay:syntax-error")
	case !ovIsObj:
		c.Label("overlay:not-an-object")
	case len(ovObj) == 0:
		c.Label("overlay:{}")
	}
	if strict {
		c.Label("domain:strict")
	} else {
		c.Label("domain:lenient")
	}

	// reference result
	var want *Config
	var wantErr error
	var refBytes []byte
	switch {
	case baseParseErr != nil:
		wantErr = baseParseErr
	case emptyText:
		want, wantErr = c20Decode(base)
	case ovParseErr != nil:
		wantErr = ovParseErr
	default:
		var target any = baseV
		refBytes, wantErr = stdjson.Marshal(c20RefMerge(target, ovV))
		if wantErr == nil {
			want, wantErr = c20Decode(refBytes)
		}
	}
	c.Trace("reference: err=%v merged=%s cfg=%s", wantErr, refBytes, c20Show(want))

	if !strict {
		// may be rejected; an answer must be the RFC 7396 answer
		if gotErr != nil {
			c.Label("lenient:rejected")
			return
		}
		if wantErr != nil {
			c.Fatalf("accepted although the reference rejects (%v): base=%q overlay=%q -> %s", wantErr, s.Base, s.Overlay, c20Show(got))
		}
		if !reflect.DeepEqual(got, want) {
			c.Fatalf("merge differs from RFC 7396 outside the strict domain: base=%q overlay=%q\n real=%s\n want=%s", s.Base, s.Overlay, c20Show(got), c20Show(want))
		}
		c.Label("lenient:answered")
		return
	}

	// differential
	if (gotErr != nil) != (wantErr != nil) {
		c.Fatalf("error mismatch with RFC 7396 reference: real err=%v, reference err=%v; base=%q overlay=%q", gotErr, wantErr, s.Base, s.Overlay)
	}
	if gotErr != nil {
		c.Label("both-reject(decode)")
		return
	}
	if !reflect.DeepEqual(got, want) {
		c.Fatalf("merged Config differs from RFC 7396 reference: base=%q overlay=%q\n real=%s\n want=%s", s.Base, s.Overlay, c20Show(got), c20Show(want))
	}

	baseCfg, baseErr := c20Decode(base)

	// L1: empty overlay changes nothing
	if emptyText || len(ovObj) == 0 {
		if baseErr != nil {
			c.Fatalf("L1: empty overlay %q made an undecodable base decodable: base=%q (%v)", s.Overlay, s.Base, baseErr)
		}
		if !reflect.DeepEqual(got, baseCfg) {
			c.Fatalf("L1: empty overlay %q changed the configuration: base=%q\n merged=%s\n base  =%s", s.Overlay, s.Base, c20Show(got), c20Show(baseCfg))
		}
		c.Label("law:L1-empty")
	}

	// L2: applying the overlay twice equals applying it once
	if !emptyText {
		again, againErr := MergeConfigAndUnmarshal(overlay, refBytes)
		if againErr != nil {
			c.Fatalf("L2: applying the overlay a second time fails (%v): once=%s overlay=%q", againErr, refBytes, s.Overlay)
		}
		if !reflect.DeepEqual(again, got) {
			c.Fatalf("L2: overlay is not idempotent: base=%q overlay=%q\n once =%s\n twice=%s", s.Base, s.Overlay, c20Show(got), c20Show(again))
		}
		c.Label("law:L2-idempotent")
	}

	gv := reflect.ValueOf(got).Elem()
	changed, kept := false, false

	// L4: null deletes
	for _, k := range c20SortedKeys(ovObj) {
		fi, isField := c20Fields[k]
		if !isField {
			continue
		}
		fv := gv.Field(fi)
		ov := ovObj[k]
		if ov == nil {
			if !fv.IsZero() {
				c.Fatalf("L4: overlay sets %q to null but the merged value is %v; base=%q overlay=%q", k, fv.Interface(), s.Base, s.Overlay)
			}
			c.Label("law:L4-null-top")
			continue
		}
		if sub, ok := ov.(map[string]any); ok && fv.Kind() == reflect.Map {
			for _, sk := range c20SortedKeys(sub) {
				if sub[sk] == nil && fv.MapIndex(reflect.ValueOf(sk)).IsValid() {
					c.Fatalf("L4: overlay sets %q.%q to null but the merged map still has it (%v); base=%q overlay=%q", k, sk, fv.Interface(), s.Base, s.Overlay)
				}
				if sub[sk] == nil {
					c.Label("law:L4-null-nested")
				}
			}
		}
	}

	// L3: keys absent from the overlay keep the base value
	if baseErr == nil {
		bv := reflect.ValueOf(baseCfg).Elem()
		for _, k := range c20SortedKeys(baseObj) {
			fi, isField := c20Fields[k]
			if !isField {
				continue
			}
			ov, inOverlay := ovObj[k]
			if !inOverlay {
				if !reflect.DeepEqual(gv.Field(fi).Interface(), bv.Field(fi).Interface()) {
					c.Fatalf("L3: key %q is absent from the overlay but changed: base %v -> merged %v; base=%q overlay=%q", k, bv.Field(fi).Interface(), gv.Field(fi).Interface(), s.Base, s.Overlay)
				}
				if !bv.Field(fi).IsZero() {
					kept = true
				}
				continue
			}
			sub, subIsObj := ov.(map[string]any)
			if _, baseSubIsObj := baseObj[k].(map[string]any); subIsObj && baseSubIsObj && bv.Field(fi).Kind() == reflect.Map {
				iter := bv.Field(fi).MapRange()
				for iter.Next() {
					sk := iter.Key().String()
					if _, touched := sub[sk]; touched {
						continue
					}
					mv := gv.Field(fi).MapIndex(iter.Key())
					if !mv.IsValid() || !reflect.DeepEqual(mv.Interface(), iter.Value().Interface()) {
						c.Fatalf("L3: %q.%q is absent from the overlay but was not kept: base %v -> merged %v; base=%q overlay=%q", k, sk, bv.Field(fi).Interface(), gv.Field(fi).Interface(), s.Base, s.Overlay)
					}
					kept = true
					c.Label("law:L3-kept-nested")
				}
			}
		}
		if kept {
			c.Label("law:L3-kept")
		}
		changed = !reflect.DeepEqual(got, baseCfg)
		if changed {
			c.Label("overlay-changes-config")
		}
	} else {
		c.Label("base-undecodable-alone")
	}

	if changed && kept {
		c.NonTrivial()
	}
}

func TestVerifC20Merge(t *testing.T) {
	vt.Run(t, genC20Merge, runC20Merge)
}
