package daemon

import (
	"testing"

	g "github.com/AliyunContainerService/terway/zz_verif/c15gen"
)

// FuzzVerifC15DaemonConfig: eni_conf (base) and dynamic config (merge patch) under the
// coverage-guided fuzzer: MergeConfigAndUnmarshal, Populate, Validate, mold/validator,
// accessors (oracle of TestVerifC15DaemonConfig, merge path).
func FuzzVerifC15DaemonConfig(f *testing.F) {
	base := `{"version": "1","max_pool_size": 5,"min_pool_size": 0,"credential_path": "/var/addon/token-config",
		"vswitches": {"cn-hangzhou-i":["vsw-10000"], "cn-hangzhou-g": ["vsw-20000"]},"service_cidr": "172.26.0.0/20",
		"security_group": "sg-10000","vswitch_selection_policy": "ordered"}`
	f.Add([]byte(base), []byte(`{"max_pool_size": 10,"min_pool_size": 5,"vswitches": {"cn-hangzhou-i":["vsw-11111", "vsw-22222"], "cn-hangzhou-g": null},"security_group": "sg-11111"}`))
	f.Add([]byte(base), []byte(``))
	f.Add([]byte(`{"security_groups": ["sg-1", "sg-2", "sg-3", "sg-4", "sg-5", "sg-6","sg-7","sg-8","sg-9","sg-10","sg-11"],"ip_stack":"dual","eni_cap_ratio":0.5,"backoff_override":{"default":{"Duration":1000000000,"Factor":1.5,"Steps":3}},"extra_routes":[{"dst":"10.0.0.0/8"}],"enable_patch_pod_ips":false,"rate_limit":{"x":1}}`), []byte(`{"ip_stack":null}`))
	for _, s := range append(g.FuzzHostile, g.ENIConfHostile...) {
		f.Add([]byte(s), []byte(s))
		f.Add([]byte(base), []byte(s))
	}
	f.Fuzz(func(t *testing.T, base, top []byte) {
		defer g.FuzzGuard(t, "FuzzVerifC15DaemonConfig", base, top)()
		b := g.Bytes(base)
		s := vfC15CfgScenario{Kind: "fuzz", Via: "merge", Base: &b}
		if len(top) > 0 {
			tp := g.Bytes(top)
			s.Top = &tp
		}
		vfC15RunCfg(g.FuzzSink{T: t}, s)
	})
}
