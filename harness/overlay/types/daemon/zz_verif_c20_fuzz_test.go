package daemon

import (
	"strings"
	"testing"
)

// FuzzVerifC20Merge: the oracle of TestVerifC20Merge (differential against the RFC 7396
// reference plus the four laws, strict judgement only on duplicate-free JSON objects,
// otherwise "no panic, and an answer must be the reference's answer") under Go's
// coverage-guided fuzzer on raw bytes (thorough tier).

type c20FuzzReporter struct{ t *testing.T }

func (r c20FuzzReporter) Fatalf(f string, a ...any) { r.t.Fatalf(f, a...) }
func (r c20FuzzReporter) Label(string)              {}
func (r c20FuzzReporter) NonTrivial()               {}
func (r c20FuzzReporter) Trace(string, ...any)      {}

func FuzzVerifC20Merge(f *testing.F) {
	// documents of the repository's own tests (types/daemon/config_test.go)
	base := `{
		"version": "1",
		"max_pool_size": 5,
		"min_pool_size": 0,
		"credential_path": "/var/addon/token-config",
		"vswitches": {"cn-hangzhou-i":["vsw-10000"], "cn-hangzhou-g": ["vsw-20000"]},
		"service_cidr": "172.26.0.0/20",
		"security_group": "sg-10000",
		"vswitch_selection_policy": "ordered"
	}`
	f.Add([]byte(base), []byte(`{
		"version": "1",
		"max_pool_size": 5,
		"vswitches": {"cn-hangzhou-i":["vsw-11111"], "cn-hangzhou-g": null},
		"security_group": "sg-11111",
		"vswitch_selection_policy": "ordered"
		}`))
	f.Add([]byte(base), []byte(`{
		"max_pool_size": 10,
		"min_pool_size": 5,
		"vswitches": {"cn-hangzhou-i":["vsw-11111", "vsw-22222"], "cn-hangzhou-g": null},
		"security_group": "sg-11111"
	}`))
	f.Add([]byte(base), []byte(``))
	// every Config key once, with nested maps on both sides
	full := `{"version":"1","access_key":"ak","access_secret":"sk","region_id":"r","credential_path":"/p","service_cidr":"10.0.0.0/8",` +
		`"vswitches":{"cn-a":["vsw-1"],"cn-b":["vsw-2","vsw-3"]},"eni_tags":{"k":"v","a":"b"},"max_pool_size":5,"min_pool_size":1,"min_eni":0,"max_eni":3,` +
		`"prefix":"p","security_group":"sg-1","security_groups":["sg-2"],"eni_cap_ratio":0.5,"eni_cap_shift":1,"vswitch_selection_policy":"ordered",` +
		`"eni_selection_policy":"least_ips","ip_stack":"dual","enable_eni_trunking":true,"enable_erdma":false,"custom_stateful_workload_kinds":["x"],` +
		`"ipam_type":"crd","backoff_override":{"cn-a":{"Duration":1000,"Factor":1.5,"Jitter":0.1,"Steps":3,"Cap":0}},"extra_routes":[{"dst":"10.0.0.0/8"}],` +
		`"disable_device_plugin":true,"eni_tag_filter":{"k":"v"},"kube_client_qps":2.5,"kube_client_burst":10,"resource_group_id":"rg","rate_limit":{"a":1,"b":2},` +
		`"enable_patch_pod_ips":false}`
	f.Add([]byte(full), []byte(`{"vswitches":{"cn-a":null,"cn-c":["vsw-9"]},"eni_tags":{"k":null},"backoff_override":{"cn-a":{"Steps":null,"Cap":7}},"rate_limit":{"b":null,"c":3},"enable_patch_pod_ips":null,"extra_routes":[{"dst":null}],"zz":{"a":{"b":null}}}`))
	f.Add([]byte(full), []byte(`{"max_pool_size":"5"}`))
	// hostile constants
	for _, b := range []string{"", "null", "{}", "[]", base} {
		for _, o := range []string{"", "null", "{}", "[]", " ", "5", `"x"`, "{", `[{"version":"x"}]`, `[null,{"a":null}]`} {
			f.Add([]byte(b), []byte(o))
		}
	}
	f.Add([]byte(`{"eni_tags":{"a":"1"},"eni_tags":{"b":"2"},"version":"1","version":"2"}`), []byte(`{}`))                                                                      // duplicate keys
	f.Add([]byte(`{"version":"1"}`), []byte(`{"eni_tags":{"a":"1","a":null},"version":null,"version":"3"}`))                                                                    // duplicate keys in the overlay
	f.Add([]byte(`{"zz":`+strings.Repeat(`{"a":`, 200)+`null`+strings.Repeat(`}`, 200)+`}`), []byte(`{"zz":`+strings.Repeat(`{"a":`, 200)+`null`+strings.Repeat(`}`, 200)+`}`)) // deep nesting
	f.Add([]byte(`{"zz":`+strings.Repeat(`[`, 12000)+strings.Repeat(`]`, 12000)+`}`), []byte(`{"zz":`+strings.Repeat(`[`, 12000)+strings.Repeat(`]`, 12000)+`}`))               // beyond encoding/json's depth limit
	f.Add([]byte("{\"version\":\"\xff\xfe\"}"), []byte("{\"version\":\"\\ud800\",\"prefix\":\"\xc3\x28\"}"))                                                                    // invalid UTF-8 / lone surrogate

	f.Fuzz(func(t *testing.T, base []byte, overlay []byte) {
		mode := "fuzz"
		c20JudgeMerge(c20FuzzReporter{t}, c20MergeScenario{Mode: mode, Base: string(base), Overlay: string(overlay)})
	})
}
