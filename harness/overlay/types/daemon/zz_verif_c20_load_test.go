package daemon

// C20 (a'), the layered load the daemon actually performs: GetConfigFromFileWithMerge
// reads the cluster configuration file, merges the node-specific overlay over it and then
// lays the addon secret (two files in a directory) over the result. The merge laws of the
// statement are judged on that composition:
//
//	the result is the RFC 7396 merge of overlay over base (reference in zz_verif_c20_test.go),
//	and the secret layer replaces access_key/access_secret only when it provides a complete
//	pair (both files exist and both are non-empty) - which is what the code documents
//	("return ak/sk from file, return nil if not present") and does. Hence, whenever the
//	secret directory does not hold a complete pair: an empty overlay changes nothing, keys
//	absent from the overlay keep the base value, keys present in the overlay win, and loading
//	the already merged document with the same overlay again gives the same Config; with a
//	complete pair the same holds for every key but the two credentials, which are the pair.
//
// Generated: base/overlay documents (credentials always in the key universe) x state of the
// secret directory {directory missing, no file, only one file, both files; each file empty,
// filled, or filled with a trailing newline}.

import (
	stdjson "encoding/json"
	"os"
	"path/filepath"
	"reflect"
	"testing"

	"pgregory.net/rapid"

	"github.com/AliyunContainerService/terway/types/secret"
	"github.com/AliyunContainerService/terway/zz_verif/vt"
)

type c20SecretFile struct {
	Present bool   `json:"present"`
	Content string `json:"content"`
}

type c20LoadScenario struct {
	Docs       c20MergeScenario `json:"docs"`
	DirMissing bool             `json:"secret_dir_missing"`
	KeyID      c20SecretFile    `json:"access_key_id_file"`
	KeySecret  c20SecretFile    `json:"access_key_secret_file"`
}

func c20KeyIndex(name string) int {
	for i, k := range c20Keys {
		if k.name == name {
			return i
		}
	}
	panic("no key " + name)
}

func genC20SecretFile(t *rapid.T, filled string) c20SecretFile {
	switch k := c20U(t, 100, "secretfile"); {
	case k < 40:
		return c20SecretFile{Present: true, Content: filled}
	case k < 70:
		return c20SecretFile{Present: true, Content: ""}
	case k < 78:
		return c20SecretFile{Present: true, Content: filled + "\n"}
	case k < 82:
		return c20SecretFile{Present: true, Content: "\n"}
	default:
		return c20SecretFile{}
	}
}

func genC20Load(t *rapid.T) c20LoadScenario {
	s := c20LoadScenario{}
	s.Docs = c20GenDocs(t, c20KeyIndex("access_key"), c20KeyIndex("access_secret"))
	if c20U(t, 100, "secretdir") < 8 {
		s.DirMissing = true
		return s
	}
	s.KeyID = genC20SecretFile(t, "addon-ak")
	s.KeySecret = genC20SecretFile(t, "addon-sk")
	return s
}

// c20LoadDir is the scratch directory of this test process (under the binary's working
// directory, removed when the test ends).
var c20LoadDir string

func c20WriteOrRemove(c *vt.Ctx, path string, f c20SecretFile) {
	if !f.Present {
		if err := os.Remove(path); err != nil && !os.IsNotExist(err) {
			c.Inconclusive("remove " + path + ": " + err.Error())
		}
		return
	}
	if err := os.WriteFile(path, []byte(f.Content), 0o600); err != nil {
		c.Inconclusive("write " + path + ": " + err.Error())
	}
}

func runC20Load(c *vt.Ctx, s c20LoadScenario) {
	base, overlay := []byte(s.Docs.Base), []byte(s.Docs.Overlay)
	secretDir := filepath.Join(c20LoadDir, "secret")
	baseFile := filepath.Join(c20LoadDir, "eni_conf.json")
	c20WriteOrRemove(c, filepath.Join(secretDir, addonSecretKeyID), s.KeyID)
	c20WriteOrRemove(c, filepath.Join(secretDir, addonSecretKeySecret), s.KeySecret)
	if err := os.WriteFile(baseFile, base, 0o600); err != nil {
		c.Inconclusive("write base file: " + err.Error())
	}
	old := addonSecretRootPath
	defer func() { addonSecretRootPath = old }()
	addonSecretRootPath = secretDir
	if s.DirMissing {
		addonSecretRootPath = filepath.Join(c20LoadDir, "no-such-dir")
	}

	complete := !s.DirMissing && s.KeyID.Present && s.KeySecret.Present && s.KeyID.Content != "" && s.KeySecret.Content != ""
	switch {
	case s.DirMissing:
		c.Label("secret:directory-missing")
	case !s.KeyID.Present && !s.KeySecret.Present:
		c.Label("secret:no-file")
	case !s.KeyID.Present || !s.KeySecret.Present:
		c.Label("secret:one-file-missing")
	case complete:
		c.Label("secret:complete-pair")
	case s.KeyID.Content == "" && s.KeySecret.Content == "":
		c.Label("secret:both-files-empty")
	default:
		c.Label("secret:one-file-empty")
	}

	got, gotErr := GetConfigFromFileWithMerge(baseFile, overlay)
	c.Trace("real: err=%v cfg=%s", gotErr, c20Show(got))

	// reference: RFC 7396 merge, same decoder
	baseV, baseParseErr := c20Parse(base)
	ovV, ovParseErr := c20Parse(overlay)
	baseObj, baseIsObj := baseV.(map[string]any)
	ovObj, ovIsObj := ovV.(map[string]any)
	emptyText := len(overlay) == 0
	strict := baseParseErr == nil && baseIsObj && !c20HasDup(base) &&
		(emptyText || (ovParseErr == nil && ovIsObj && !c20HasDup(overlay)))
	var merged *Config
	var wantErr error
	var refBytes []byte
	switch {
	case baseParseErr != nil:
		wantErr = baseParseErr
	case emptyText:
		refBytes = base
		merged, wantErr = c20Decode(base)
	case ovParseErr != nil:
		wantErr = ovParseErr
	default:
		refBytes, wantErr = stdjson.Marshal(c20RefMerge(baseV, ovV))
		if wantErr == nil {
			merged, wantErr = c20Decode(refBytes)
		}
	}
	layer := func(in *Config) *Config {
		out := *in
		if complete {
			out.AccessID, out.AccessSecret = secret.Secret(s.KeyID.Content), secret.Secret(s.KeySecret.Content)
		}
		return &out
	}
	c.Trace("reference: err=%v merged=%s complete-pair=%v", wantErr, refBytes, complete)

	if !strict {
		c.Label("domain:lenient")
		if gotErr != nil {
			return
		}
		if wantErr != nil {
			c.Fatalf("layered load accepted although the reference rejects (%v): base=%q overlay=%q -> %s", wantErr, s.Docs.Base, s.Docs.Overlay, c20Show(got))
		}
		if want := layer(merged); !reflect.DeepEqual(got, want) {
			c.Fatalf("layered load differs from merge + secret layer outside the strict domain: base=%q overlay=%q\n real=%s\n want=%s", s.Docs.Base, s.Docs.Overlay, c20Show(got), c20Show(want))
		}
		return
	}
	c.Label("domain:strict")
	if (gotErr != nil) != (wantErr != nil) {
		c.Fatalf("layered load: real err=%v, reference err=%v; base=%q overlay=%q", gotErr, wantErr, s.Docs.Base, s.Docs.Overlay)
	}
	if gotErr != nil {
		c.Label("both-reject(decode)")
		return
	}

	// the laws of the statement, on the credentials first (clearest message)
	type cred struct {
		key string
		got secret.Secret
		mrg secret.Secret
		add string
	}
	baseCfg, baseErr := c20Decode(base)
	for _, cr := range []cred{
		{"access_key", got.AccessID, merged.AccessID, s.KeyID.Content},
		{"access_secret", got.AccessSecret, merged.AccessSecret, s.KeySecret.Content},
	} {
		if complete {
			if string(cr.got) != cr.add {
				c.Fatalf("complete addon secret pair but %s is %q, want the secret's %q", cr.key, string(cr.got), cr.add)
			}
			continue
		}
		ov, inOverlay := ovObj[cr.key]
		switch {
		case !inOverlay && baseErr == nil:
			bv := baseCfg.AccessID
			if cr.key == "access_secret" {
				bv = baseCfg.AccessSecret
			}
			if cr.got != bv {
				c.Fatalf("%s is absent from the overlay (%q) and the addon secret is not a complete pair (id file %+v, secret file %+v), but the base value %q became %q; base=%q",
					cr.key, s.Docs.Overlay, s.KeyID, s.KeySecret, string(bv), string(cr.got), s.Docs.Base)
			}
			if bv != "" {
				c.Label("law:credential-kept-from-base")
			}
		case inOverlay:
			if sv, isStr := ov.(string); isStr && string(cr.got) != sv {
				c.Fatalf("%s is set to %q by the overlay and the addon secret is not a complete pair (id file %+v, secret file %+v), but the result is %q; base=%q overlay=%q",
					cr.key, sv, s.KeyID, s.KeySecret, string(cr.got), s.Docs.Base, s.Docs.Overlay)
			}
			if ov == nil && cr.got != "" {
				c.Fatalf("%s is deleted (null) by the overlay and the addon secret is not a complete pair, but the result is %q; base=%q overlay=%q", cr.key, string(cr.got), s.Docs.Base, s.Docs.Overlay)
			}
			c.Label("law:credential-from-overlay")
		}
	}

	// whole Config: merge + secret layer
	want := layer(merged)
	if !reflect.DeepEqual(got, want) {
		c.Fatalf("layered load differs from RFC 7396 merge + secret layer: base=%q overlay=%q id file %+v secret file %+v\n real=%s\n want=%s",
			s.Docs.Base, s.Docs.Overlay, s.KeyID, s.KeySecret, c20Show(got), c20Show(want))
	}

	// empty overlay changes nothing (relative to the base alone under the same secret state)
	if emptyText || len(ovObj) == 0 {
		alone, aloneErr := GetConfigFromFileWithMerge(baseFile, nil)
		if aloneErr != nil || !reflect.DeepEqual(alone, got) {
			c.Fatalf("empty overlay %q changes the layered load: base=%q\n with overlay=%s\n base alone  =%s (err=%v)", s.Docs.Overlay, s.Docs.Base, c20Show(got), c20Show(alone), aloneErr)
		}
		if baseErr == nil && !reflect.DeepEqual(got, layer(baseCfg)) {
			c.Fatalf("empty overlay %q: layered load is not the base document (+ secret layer): base=%q\n real=%s\n want=%s", s.Docs.Overlay, s.Docs.Base, c20Show(got), c20Show(layer(baseCfg)))
		}
		c.Label("law:L1-empty")
	}

	// applying the overlay twice equals once: load the merged document with the overlay again
	if !emptyText {
		onceFile := filepath.Join(c20LoadDir, "merged_once.json")
		if err := os.WriteFile(onceFile, refBytes, 0o600); err != nil {
			c.Inconclusive("write merged file: " + err.Error())
		}
		again, againErr := GetConfigFromFileWithMerge(onceFile, overlay)
		if againErr != nil || !reflect.DeepEqual(again, got) {
			c.Fatalf("layered load is not idempotent: base=%q overlay=%q\n once =%s\n twice=%s (err=%v)", s.Docs.Base, s.Docs.Overlay, c20Show(got), c20Show(again), againErr)
		}
		c.Label("law:L2-idempotent")
	}

	// keys absent from the overlay keep the base value (all non-credential keys; credentials above)
	if baseErr == nil {
		gv, bv := reflect.ValueOf(got).Elem(), reflect.ValueOf(baseCfg).Elem()
		for _, k := range c20SortedKeys(baseObj) {
			fi, isField := c20Fields[k]
			if _, inOverlay := ovObj[k]; !isField || inOverlay || k == "access_key" || k == "access_secret" {
				continue
			}
			if !reflect.DeepEqual(gv.Field(fi).Interface(), bv.Field(fi).Interface()) {
				c.Fatalf("key %q is absent from the overlay but changed in the layered load: base %v -> %v; base=%q overlay=%q", k, bv.Field(fi).Interface(), gv.Field(fi).Interface(), s.Docs.Base, s.Docs.Overlay)
			}
		}
		c.Label("law:L3-kept")
	}

	// non-trivial: the secret directory holds something, or the documents carry credentials
	someFile := !s.DirMissing && (s.KeyID.Present || s.KeySecret.Present)
	if someFile && (merged.AccessID != "" || merged.AccessSecret != "") {
		c.NonTrivial()
		if !complete {
			c.Label("nontrivial:incomplete-secret-over-document-credentials")
		} else {
			c.Label("nontrivial:complete-secret-over-document-credentials")
		}
	}
}

func TestVerifC20LayeredLoad(t *testing.T) {
	wd, err := os.Getwd()
	if err != nil {
		t.Fatal(err)
	}
	c20LoadDir, err = os.MkdirTemp(wd, "c20-load-")
	if err != nil {
		t.Fatal(err)
	}
	t.Cleanup(func() { _ = os.RemoveAll(c20LoadDir) })
	if err := os.Mkdir(filepath.Join(c20LoadDir, "secret"), 0o700); err != nil {
		t.Fatal(err)
	}
	vt.Run(t, genC20Load, runC20Load)
}
