package daemon

// C20 (a''), the control-plane entry point of the layered configuration:
// ConfigFromConfigMap reads the cluster configuration from ConfigMap kube-system/eni-config,
// the node-specific overlay from the ConfigMap named by the node label terway-config, merges
// them and post-processes the result (defaults, validation). The merge laws of the statement
// are judged through the loader itself, so the post-processing need not be modelled:
//
//	load(base, overlay) == load(RFC7396-reference-merge(base, overlay), no overlay)   (value and error-ness)
//
// and directly: an absent or empty overlay (node without the label, node object missing,
// overlay ConfigMap without eni_conf key, eni_conf "", eni_conf {}) gives exactly what loading
// the base alone gives - in particular no error where the base alone loads; loading the
// merged document with the same overlay again changes nothing; keys absent from the overlay
// keep the value the base alone gives them. A label that points to a ConfigMap that does not
// exist may be rejected (it is today); if it is answered it must be the base alone.

import (
	"context"
	stdjson "encoding/json"
	"reflect"
	"testing"

	corev1 "k8s.io/api/core/v1"
	metav1 "k8s.io/apimachinery/pkg/apis/meta/v1"
	"pgregory.net/rapid"
	"sigs.k8s.io/controller-runtime/pkg/client"
	"sigs.k8s.io/controller-runtime/pkg/client/fake"

	"github.com/AliyunContainerService/terway/zz_verif/vt"
)

const (
	c20CMUnlabelled   = "node-unlabelled"
	c20CMNodeMissing  = "node-object-missing"
	c20CMLabelDangles = "label-points-to-missing-configmap"
	c20CMNoKey        = "configmap-without-eni_conf"
	c20CMOtherKeys    = "configmap-with-other-keys-only"
	c20CMEmpty        = "configmap-eni_conf-empty"
	c20CMOverlay      = "configmap-with-overlay"
	c20CMBaseMissing  = "base-configmap-missing"
)

type c20CMScenario struct {
	Docs  c20MergeScenario `json:"docs"` // Docs.Overlay is the overlay ConfigMap's eni_conf in state configmap-with-overlay only
	State string           `json:"state"`
}

func genC20CM(t *rapid.T) c20CMScenario {
	s := c20CMScenario{Docs: c20GenDocs(t)}
	switch k := c20U(t, 100, "cmstate"); {
	case k < 52:
		s.State = c20CMOverlay
	case k < 62:
		s.State = c20CMNoKey
	case k < 72:
		s.State = c20CMEmpty
	case k < 77:
		s.State = c20CMOtherKeys
	case k < 85:
		s.State = c20CMUnlabelled
	case k < 89:
		s.State = c20CMNodeMissing
	case k < 97:
		s.State = c20CMLabelDangles
	default:
		s.State = c20CMBaseMissing
	}
	if s.State != c20CMOverlay {
		s.Docs.Overlay = ""
	}
	return s
}

const (
	c20CMNode    = "node-1"
	c20CMDynamic = "node-1-config"
)

func c20CMObj(name string, data map[string]string) *corev1.ConfigMap {
	return &corev1.ConfigMap{ObjectMeta: metav1.ObjectMeta{Name: name, Namespace: "kube-system"}, Data: data}
}

// c20CMWorld builds the API objects of one situation. overlayState "" = base alone
// (node present, no label).
func c20CMWorld(base string, hasBase bool, state, overlay string) client.Client {
	var objs []client.Object
	if hasBase {
		objs = append(objs, c20CMObj("eni-config", map[string]string{"eni_conf": base, "10-terway.conf": "{}"}))
	}
	node := &corev1.Node{ObjectMeta: metav1.ObjectMeta{Name: c20CMNode, Labels: map[string]string{"kubernetes.io/hostname": c20CMNode}}}
	switch state {
	case c20CMNodeMissing:
		node = nil
	case c20CMLabelDangles:
		node.Labels["terway-config"] = c20CMDynamic
	case c20CMNoKey:
		node.Labels["terway-config"] = c20CMDynamic
		objs = append(objs, c20CMObj(c20CMDynamic, nil))
	case c20CMOtherKeys:
		node.Labels["terway-config"] = c20CMDynamic
		objs = append(objs, c20CMObj(c20CMDynamic, map[string]string{"10-terway.conf": `{"type":"terway"}`, "eni_conf2": `{"version":"x"}`}))
	case c20CMEmpty:
		node.Labels["terway-config"] = c20CMDynamic
		objs = append(objs, c20CMObj(c20CMDynamic, map[string]string{"eni_conf": ""}))
	case c20CMOverlay:
		node.Labels["terway-config"] = c20CMDynamic
		objs = append(objs, c20CMObj(c20CMDynamic, map[string]string{"eni_conf": overlay}))
	}
	if node != nil {
		objs = append(objs, node)
	}
	return fake.NewClientBuilder().WithObjects(objs...).Build()
}

func c20CMLoad(base string, hasBase bool, state, overlay string) (*Config, error) {
	return ConfigFromConfigMap(context.Background(), c20CMWorld(base, hasBase, state, overlay), c20CMNode)
}

func runC20CM(c *vt.Ctx, s c20CMScenario) {
	c.Label("state:" + s.State)
	hasBase := s.State != c20CMBaseMissing
	got, gotErr := c20CMLoad(s.Docs.Base, hasBase, s.State, s.Docs.Overlay)
	c.Trace("real: err=%v cfg=%s", gotErr, c20Show(got))

	if !hasBase {
		// nothing to compose; the code rejects today, the statement does not say
		if gotErr != nil {
			c.Label("rejected:no-base")
		}
		return
	}
	alone, aloneErr := c20CMLoad(s.Docs.Base, true, c20CMUnlabelled, "")
	c.Trace("base alone: err=%v cfg=%s", aloneErr, c20Show(alone))

	base, overlay := []byte(s.Docs.Base), []byte(s.Docs.Overlay)
	baseV, baseParseErr := c20Parse(base)
	ovV, ovParseErr := c20Parse(overlay)
	baseObj, baseIsObj := baseV.(map[string]any)
	ovObj, ovIsObj := ovV.(map[string]any)
	emptyText := len(overlay) == 0
	emptyOverlay := emptyText || (ovParseErr == nil && ovIsObj && len(ovObj) == 0 && !c20HasDup(overlay))
	baseStrict := baseParseErr == nil && baseIsObj && !c20HasDup(base)

	if s.State == c20CMLabelDangles {
		if gotErr != nil {
			c.Label("rejected:overlay-configmap-missing")
			return
		}
		c.Label("answered:overlay-configmap-missing")
	}

	// an absent or empty overlay changes nothing
	if emptyOverlay {
		switch {
		case !baseStrict && gotErr != nil:
			// a base that is not a plain JSON object may be rejected
			c.Label("lenient:rejected")
			return
		case (gotErr != nil) != (aloneErr != nil) && (baseStrict || emptyText):
			c.Fatalf("state %s (overlay %q): the overlay is absent/empty but loading fails differently from the base alone: with overlay err=%v, base alone err=%v; base=%q", s.State, s.Docs.Overlay, gotErr, aloneErr, s.Docs.Base)
		case gotErr == nil && aloneErr == nil && !reflect.DeepEqual(got, alone):
			c.Fatalf("state %s (overlay %q): the overlay is absent/empty but changes the configuration: base=%q\n with overlay=%s\n base alone  =%s", s.State, s.Docs.Overlay, s.Docs.Base, c20Show(got), c20Show(alone))
		}
		c.Label("law:L1-empty")
		if gotErr == nil && s.State != c20CMUnlabelled && s.State != c20CMNodeMissing {
			c.NonTrivial()
		}
		if gotErr != nil {
			c.Label("both-reject")
		}
		return
	}

	// a real overlay text (state configmap-with-overlay)
	strict := baseStrict && ovParseErr == nil && ovIsObj && !c20HasDup(overlay)
	var refBytes []byte
	var refErr error
	switch {
	case baseParseErr != nil:
		refErr = baseParseErr
	case ovParseErr != nil:
		refErr = ovParseErr
	default:
		refBytes, refErr = stdjson.Marshal(c20RefMerge(baseV, ovV))
	}
	var want *Config
	wantErr := refErr
	if refErr == nil {
		want, wantErr = c20CMLoad(string(refBytes), true, c20CMUnlabelled, "")
	}
	c.Trace("reference: merged=%s load err=%v cfg=%s", refBytes, wantErr, c20Show(want))

	if !strict {
		c.Label("domain:lenient")
		if gotErr != nil {
			return
		}
		if wantErr != nil || !reflect.DeepEqual(got, want) {
			c.Fatalf("outside the strict domain the load answered, but not as the RFC 7396 merge loaded alone: base=%q overlay=%q\n real=%s\n want=%s (err=%v)", s.Docs.Base, s.Docs.Overlay, c20Show(got), c20Show(want), wantErr)
		}
		return
	}
	c.Label("domain:strict")
	if (gotErr != nil) != (wantErr != nil) {
		c.Fatalf("load of base+overlay: err=%v, but the RFC 7396 merge %s loaded alone: err=%v; base=%q overlay=%q", gotErr, refBytes, wantErr, s.Docs.Base, s.Docs.Overlay)
	}
	if gotErr != nil {
		c.Label("both-reject")
		return
	}
	if !reflect.DeepEqual(got, want) {
		c.Fatalf("load of base+overlay differs from the RFC 7396 merge loaded alone: base=%q overlay=%q merged=%s\n real=%s\n want=%s", s.Docs.Base, s.Docs.Overlay, refBytes, c20Show(got), c20Show(want))
	}

	// applying the overlay twice equals once
	again, againErr := c20CMLoad(string(refBytes), true, c20CMOverlay, s.Docs.Overlay)
	if againErr != nil || !reflect.DeepEqual(again, got) {
		c.Fatalf("overlay is not idempotent through ConfigFromConfigMap: base=%q overlay=%q\n once =%s\n twice=%s (err=%v)", s.Docs.Base, s.Docs.Overlay, c20Show(got), c20Show(again), againErr)
	}
	c.Label("law:L2-idempotent")

	// keys absent from the overlay keep the value the base alone gives them
	changed, kept := false, false
	if aloneErr == nil {
		gv, av := reflect.ValueOf(got).Elem(), reflect.ValueOf(alone).Elem()
		for _, k := range c20SortedKeys(baseObj) {
			fi, isField := c20Fields[k]
			if _, inOverlay := ovObj[k]; !isField || inOverlay {
				continue
			}
			if !reflect.DeepEqual(gv.Field(fi).Interface(), av.Field(fi).Interface()) {
				c.Fatalf("key %q is absent from the overlay but changed: base alone %v -> with overlay %v; base=%q overlay=%q", k, av.Field(fi).Interface(), gv.Field(fi).Interface(), s.Docs.Base, s.Docs.Overlay)
			}
			if !av.Field(fi).IsZero() {
				kept = true
			}
		}
		c.Label("law:L3-kept")
		changed = !reflect.DeepEqual(got, alone)
	}
	if changed && kept {
		c.NonTrivial()
	}
}

func TestVerifC20ConfigMapLoad(t *testing.T) {
	vt.Run(t, genC20CM, runC20CM)
}
