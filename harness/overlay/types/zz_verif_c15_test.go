package types

// C15 — address / CIDR strings coming from the daemon reply, the CNI configuration, pod
// status and annotations never panic the helpers that every component uses to parse them.

import (
	"net"
	"testing"

	corev1 "k8s.io/api/core/v1"

	"github.com/AliyunContainerService/terway/rpc"
	g "github.com/AliyunContainerService/terway/zz_verif/c15gen"
	"github.com/AliyunContainerService/terway/zz_verif/vt"
	"pgregory.net/rapid"
)

type vfC15IPScenario struct {
	Kind     string   `json:"kind"`
	IP       *vfC15IP `json:"ip"`     // nil: message field absent
	Subnet   *vfC15IP `json:"subnet"` // nil: message field absent
	PodENI   *g.Bytes `json:"pod_eni"`
	NodeMode *g.Bytes `json:"node_mode"`
}

type vfC15IP struct {
	V4 g.Bytes `json:"v4"`
	V6 g.Bytes `json:"v6"`
}

func vfC15GenIPs(t *rapid.T) vfC15IPScenario {
	s := vfC15IPScenario{Kind: g.Kind(t)}
	// exactly one of the four strings is mutated in the mutated kind
	mut := rapid.IntRange(0, 3).Draw(t, "mut")
	field := func(i int, valid func(*rapid.T) string) g.Bytes {
		k := s.Kind
		if k == g.KindMutated && i != mut {
			k = g.KindValid
		}
		if k == g.KindValid && rapid.IntRange(0, 4).Draw(t, "empty") == 0 {
			return g.Bytes("")
		}
		return g.TextField(t, k, valid, g.IPAlphabet, []string{"1.2.3.4", "1.2.3.4/24", "::", "::/0", "::ffff:1.2.3.4", "::ffff:1.2.3.4/120",
			"fe80::1%eth0", "1.2.3.4/33", "::/129", "01.2.3.4", "1.2.3", "1.2.3.4.5", "/24", "1.2.3.4/", "1.2.3.4/-1", "1.2.3.4/08", "[::1]", "0x1.2.3.4"})
	}
	if rapid.IntRange(0, 7).Draw(t, "hasip") > 0 {
		s.IP = &vfC15IP{V4: field(0, g.IPv4), V6: field(1, g.IPv6)}
	}
	if rapid.IntRange(0, 7).Draw(t, "hassub") > 0 {
		s.Subnet = &vfC15IP{V4: field(2, g.CIDRv4), V6: field(3, g.CIDRv6)}
	}
	if rapid.Bool().Draw(t, "haspodeni") {
		v := g.TextField(t, s.Kind, func(t *rapid.T) string { return rapid.SampledFrom([]string{"true", "false", "1", "t"}).Draw(t, "b") }, "", nil)
		s.PodENI = &v
	}
	if rapid.Bool().Draw(t, "hasmode") {
		v := g.TextField(t, s.Kind, func(t *rapid.T) string {
			return rapid.SampledFrom([]string{"eniOnly", "default", "ENIONLY"}).Draw(t, "m")
		}, "", nil)
		s.NodeMode = &v
	}
	return s
}

func vfC15RunIPs(c *vt.Ctx, s vfC15IPScenario) {
	c.Label("kind:" + s.Kind)
	var ip, sub *rpc.IPSet
	if s.IP != nil {
		ip = &rpc.IPSet{IPv4: string(s.IP.V4), IPv6: string(s.IP.V6)}
	}
	if s.Subnet != nil {
		sub = &rpc.IPSet{IPv4: string(s.Subnet.V4), IPv6: string(s.Subnet.V6)}
	}
	use := func(n *IPNetSet) {
		if n == nil {
			return
		}
		_ = n.String()
		_ = n.ToRPC()
		for _, x := range []*net.IPNet{n.IPv4, n.IPv6} {
			if x != nil {
				_ = x.Contains(net.IPv4(10, 0, 0, 1))
				_, _ = x.Mask.Size()
			}
		}
	}
	depth := 0
	if ip != nil || sub != nil {
		depth = 1
	}
	n, err := BuildIPNet(ip, sub)
	if err == nil {
		if n == nil {
			c.Fatalf("BuildIPNet returned nil, nil")
		}
		if n.IPv4 != nil || n.IPv6 != nil {
			depth = 2
			c.Label("BuildIPNet:built")
		}
		use(n)
	}
	for _, x := range []*rpc.IPSet{ip, sub} {
		set, err := ToIPSet(x)
		if err == nil {
			if set == nil {
				c.Fatalf("ToIPSet returned nil, nil")
			}
			if set.IPv4 != nil || set.IPv6 != nil {
				depth = 2
				c.Label("ToIPSet:parsed")
			}
			_ = set.String()
			_ = set.ToRPC()
			_, _ = set.GetIPv4(), set.GetIPv6()
		}
		ns, err := ToIPNetSet(x)
		if err == nil {
			if ns == nil {
				c.Fatalf("ToIPNetSet returned nil, nil")
			}
			if ns.IPv4 != nil || ns.IPv6 != nil {
				depth = 2
				c.Label("ToIPNetSet:parsed")
			}
			use(ns)
		}
		if x != nil {
			a := (&IPSet{}).SetIP(x.IPv4).SetIP(x.IPv6)
			_ = a.String()
			_ = a.ToRPC()
			b := (&IPNetSet{}).SetIPNet(x.IPv4).SetIPNet(x.IPv6)
			use(b)
		}
	}
	var nilSet *IPNetSet
	_ = nilSet.String()
	c.Labelf("depth:%d", depth)
	if depth >= 2 {
		c.NonTrivial()
	}

	pod := &corev1.Pod{}
	labels := map[string]string{}
	if s.PodENI != nil {
		pod.Annotations = map[string]string{PodENI: string(*s.PodENI)}
	}
	if s.NodeMode != nil {
		labels[ExclusiveENIModeLabel] = string(*s.NodeMode)
		labels[IgnoreByTerway] = string(*s.NodeMode)
	}
	_ = PodUseENI(pod)
	_ = NodeExclusiveENIMode(labels)
	_ = IgnoredByTerway(labels)
}

func TestVerifC15IPHelpers(t *testing.T) { vt.Run(t, vfC15GenIPs, g.NoPanic(vfC15RunIPs)) }
