package controlplane

import (
	"testing"

	g "github.com/AliyunContainerService/terway/zz_verif/c15gen"
)

// FuzzVerifC15PodNetworks: pod-networks / pod-networks-request annotation values under
// the coverage-guided fuzzer (oracle of TestVerifC15PodNetworksAnnotation).
func FuzzVerifC15PodNetworks(f *testing.F) {
	f.Add([]byte(`{ "podNetworks": [{"vSwitchOptions": ["vsw-a","vsw-b","vsw-c"], "interface": "eth0", "securityGroupIDs": ["sg-1"]}]}`),
		[]byte(`[{"interfaceName":"eth0","network":"pn-a","defaultRoute":true,"routes":[{"dst":"10.0.0.0/8"}]}]`))
	f.Add([]byte(`{"podNetworks":[{"interface":"eth1","allocationType":{"type":"Fixed","releaseStrategy":"TTL","releaseAfter":"5m0s"},"eniOptions":{"eniType":"Trunk"},"vSwitchSelectOptions":{"vSwitchSelectionPolicy":"most"},"extraRoutes":[{"dst":"::/0"}]}]}`),
		[]byte(`[null]`))
	for _, s := range g.FuzzHostile {
		f.Add([]byte(s), []byte(s))
	}
	f.Fuzz(func(t *testing.T, networks, request []byte) {
		defer g.FuzzGuard(t, "FuzzVerifC15PodNetworks", networks, request)()
		n, r := g.Bytes(networks), g.Bytes(request)
		vfC15RunAnno(g.FuzzSink{T: t}, vfC15AnnoScenario{Kind: "fuzz", Networks: &n, Request: &r})
	})
}
