package controlplane

// C15 — pod-networks / pod-networks-request annotation parsers never panic.

import (
	"encoding/json"
	"testing"

	corev1 "k8s.io/api/core/v1"

	"github.com/AliyunContainerService/terway/pkg/apis/network.alibabacloud.com/v1beta1"
	terwayTypes "github.com/AliyunContainerService/terway/types"
	"github.com/AliyunContainerService/terway/types/route"
	g "github.com/AliyunContainerService/terway/zz_verif/c15gen"
	"github.com/AliyunContainerService/terway/zz_verif/vt"
	"pgregory.net/rapid"
)

type vfC15AnnoScenario struct {
	Kind     string   `json:"kind"`
	Networks *g.Bytes `json:"pod_networks"`         // nil: annotation absent
	Request  *g.Bytes `json:"pod_networks_request"` // nil: annotation absent
}

func vfC15Routes(t *rapid.T) []route.Route {
	var out []route.Route
	for i, n := 0, rapid.IntRange(0, 2).Draw(t, "nroutes"); i < n; i++ {
		out = append(out, route.Route{Dst: rapid.SampledFrom([]string{g.CIDRv4(t), g.CIDRv6(t), "0.0.0.0/0"}).Draw(t, "dst")})
	}
	return out
}

// VfC15ValidPodNetworks builds a well-formed pod-networks annotation value.
func vfC15ValidPodNetworks(t *rapid.T) []byte {
	var a PodNetworksAnnotation
	for i, n := 0, rapid.IntRange(0, 3).Draw(t, "nnet"); i < n; i++ {
		pn := PodNetworks{
			VSwitchOptions:   rapid.SliceOfN(rapid.SampledFrom([]string{"vsw-1", "vsw-2", "vsw-3"}), 0, 3).Draw(t, "vsw"),
			SecurityGroupIDs: rapid.SliceOfN(rapid.SampledFrom([]string{"sg-1", "sg-2"}), 0, 3).Draw(t, "sg"),
			Interface:        rapid.SampledFrom([]string{"", "eth0", "eth1", "net1"}).Draw(t, "if"),
			ExtraRoutes:      vfC15Routes(t),
			ENIOptions: v1beta1.ENIOptions{ENIAttachType: v1beta1.ENIAttachType(
				rapid.SampledFrom([]string{"", "Default", "ENI", "Trunk"}).Draw(t, "enitype"))},
			VSwitchSelectOptions: v1beta1.VSwitchSelectOptions{VSwitchSelectionPolicy: v1beta1.SelectionPolicy(
				rapid.SampledFrom([]string{"", "ordered", "random", "most"}).Draw(t, "policy"))},
			ResourceGroupID:             rapid.SampledFrom([]string{"", "rg-1"}).Draw(t, "rg"),
			NetworkInterfaceTrafficMode: rapid.SampledFrom([]string{"", "Standard", "HighPerformance"}).Draw(t, "mode"),
			DefaultRoute:                rapid.Bool().Draw(t, "dr"),
		}
		if rapid.Bool().Draw(t, "hasalloc") {
			pn.AllocationType = &v1beta1.AllocationType{
				Type:            v1beta1.IPAllocType(rapid.SampledFrom([]string{"Elastic", "Fixed", ""}).Draw(t, "at")),
				ReleaseStrategy: v1beta1.ReleaseStrategy(rapid.SampledFrom([]string{"TTL", "Never", ""}).Draw(t, "rs")),
				ReleaseAfter:    rapid.SampledFrom([]string{"", "5m0s", "1h", "-1s", "10"}).Draw(t, "ra"),
			}
		}
		a.PodNetworks = append(a.PodNetworks, pn)
	}
	return g.MustJSON(a)
}

func vfC15ValidRequest(t *rapid.T) []byte {
	var refs []PodNetworkRef
	for i, n := 0, rapid.IntRange(0, 3).Draw(t, "nref"); i < n; i++ {
		refs = append(refs, PodNetworkRef{
			InterfaceName: rapid.SampledFrom([]string{"", "eth0", "eth1"}).Draw(t, "if"),
			Network:       rapid.SampledFrom([]string{"", "pn-a", "pn-b"}).Draw(t, "net"),
			DefaultRoute:  rapid.Bool().Draw(t, "dr"),
			Routes:        vfC15Routes(t),
		})
	}
	if refs == nil {
		refs = []PodNetworkRef{}
	}
	return g.MustJSON(refs)
}

func vfC15GenAnno(t *rapid.T) vfC15AnnoScenario {
	s := vfC15AnnoScenario{Kind: g.Kind(t)}
	which := rapid.IntRange(0, 6).Draw(t, "which") // 0 neither, 1-2 networks, 3-4 request, 5-6 both
	if which == 1 || which == 2 || which >= 5 {
		v := g.JSONField(t, s.Kind, vfC15ValidPodNetworks, []string{`{"podNetworks":null}`, `{"podNetworks":[null]}`, `{"podNetworks":{}}`, `{"podNetworks":[{"allocationType":null}]}`, `{"PODNETWORKS":[{}]}`})
		s.Networks = &v
	}
	if which >= 3 {
		v := g.JSONField(t, s.Kind, vfC15ValidRequest, []string{`[null]`, `[{}]`, `[[]]`, `[{"routes":null}]`, `[{"routes":[null]}]`})
		s.Request = &v
	}
	return s
}

func vfC15RunAnno(c g.Sink, s vfC15AnnoScenario) {
	c.Label("kind:" + s.Kind)
	anno := map[string]string{}
	if s.Networks != nil {
		anno[terwayTypes.PodNetworks] = string(*s.Networks)
	}
	if s.Request != nil {
		anno[terwayTypes.PodNetworksRequest] = string(*s.Request)
	}
	pod := &corev1.Pod{}
	if len(anno) > 0 || s.Kind == g.KindValid {
		pod.Annotations = anno
	}

	depth := func(name string, raw *g.Bytes, err error) {
		switch {
		case raw == nil:
			c.Label(name + ":depth0-absent")
		case !json.Valid(*raw):
			c.Label(name + ":depth1-not-json")
			if err == nil {
				c.Fatalf("%s: %q is not JSON but was accepted", name, string(*raw))
			}
		case err != nil:
			c.Label(name + ":depth2-json-wrong-shape")
			c.NonTrivial()
		default:
			c.Label(name + ":depth3-decoded")
			c.NonTrivial()
		}
	}

	pn, err := ParsePodNetworksFromAnnotation(pod)
	depth("pod-networks", s.Networks, err)
	if err == nil {
		if pn == nil {
			c.Fatalf("ParsePodNetworksFromAnnotation returned nil, nil")
		}
		// what every caller does with the result
		for _, n := range pn.PodNetworks {
			_ = n.Interface
			_ = len(n.VSwitchOptions) + len(n.SecurityGroupIDs)
			for _, r := range n.ExtraRoutes {
				_ = r.Dst
			}
			if n.AllocationType != nil {
				_ = *n.AllocationType
			}
		}
	}
	refs, err := ParsePodNetworksFromRequest(pod.Annotations)
	depth("pod-networks-request", s.Request, err)
	if err == nil {
		for _, r := range refs {
			_ = r.Network + r.InterfaceName
			for _, rr := range r.Routes {
				_ = rr.Dst
			}
		}
	}
}

func TestVerifC15PodNetworksAnnotation(t *testing.T) {
	vt.Run(t, vfC15GenAnno, g.NoPanic(g.Adapt(vfC15RunAnno)))
}
