package main

// C12 — every ADD yields a complete, self-consistent network configuration.
//
// (A) daemon side: the real networkService.AllocIP (through the export shim in package
//     daemon) runs over the real eni.Manager wired with the real allocators the builder
//     would wire (eni.Local pools, eni.Trunk, eni.CRDV2 over a fake API server); the
//     reply is checked against ground truth the scenario carries.
// (B) plugin side: the reply crosses a protobuf marshal/unmarshal (as on the gRPC
//     socket) and every NetConf is fed to the real parseSetupConf; the SetupConfig is
//     compared with what the daemon sent. A second test generates NetConf messages
//     directly (wider shapes than the worlds produce) for the parser and getDatePath.

import (
	"context"
	"encoding/json"
	"fmt"
	"math/big"
	"net"
	"net/netip"
	"os"
	"strings"
	"sync"
	"testing"
	"time"

	"github.com/containernetworking/cni/pkg/skel"
	"github.com/go-logr/logr"
	"github.com/vishvananda/netlink"
	"google.golang.org/protobuf/proto"
	corev1 "k8s.io/api/core/v1"
	metav1 "k8s.io/apimachinery/pkg/apis/meta/v1"
	"k8s.io/apimachinery/pkg/util/wait"
	"pgregory.net/rapid"
	"sigs.k8s.io/controller-runtime/pkg/client"
	"sigs.k8s.io/controller-runtime/pkg/client/fake"
	logf "sigs.k8s.io/controller-runtime/pkg/log"

	terwaydaemon "github.com/AliyunContainerService/terway/daemon"
	networkv1beta1 "github.com/AliyunContainerService/terway/pkg/apis/network.alibabacloud.com/v1beta1"
	"github.com/AliyunContainerService/terway/pkg/backoff"
	"github.com/AliyunContainerService/terway/pkg/eni"
	"github.com/AliyunContainerService/terway/pkg/k8s"
	"github.com/AliyunContainerService/terway/pkg/storage"
	"github.com/AliyunContainerService/terway/plugin/driver/types"
	"github.com/AliyunContainerService/terway/rpc"
	terwayTypes "github.com/AliyunContainerService/terway/types"
	"github.com/AliyunContainerService/terway/types/daemon"
	"github.com/AliyunContainerService/terway/zz_verif/vt"
)

func init() {
	logf.SetLogger(logr.Discard())
	// Every allocator lookup in the worlds succeeds at the first attempt; a single step
	// keeps error paths (which the oracle expects for some scenarios) free of real sleeps.
	// no cloud-call rate limit, 300 ms batching delay of the pool's factory worker -> 1 ms
	eni.VerifFastPool(300)
	backoff.OverrideBackoff(map[string]wait.Backoff{
		backoff.WaitPodENIStatus: {Duration: time.Millisecond, Factor: 1, Steps: 1},
	})
}

// ---------------------------------------------------------------- reference arithmetic

func c12Prefix(c *vt.Ctx, cidr string) netip.Prefix {
	p, err := netip.ParsePrefix(cidr)
	if err != nil {
		c.Fatalf("harness: bad cidr %q: %v", cidr, err)
	}
	return p.Masked()
}

// c12AddrAt: network+off for off >= 0, (network+size)+off for off < 0; big-integer.
func c12AddrAt(p netip.Prefix, off int64) netip.Addr {
	p = p.Masked()
	raw := p.Addr().AsSlice()
	bits := len(raw) * 8
	v := new(big.Int).SetBytes(raw)
	if off < 0 {
		size := new(big.Int).Lsh(big.NewInt(1), uint(bits-p.Bits()))
		v.Add(v, size)
	}
	v.Add(v, big.NewInt(off))
	out := make([]byte, len(raw))
	v.FillBytes(out)
	a, _ := netip.AddrFromSlice(out)
	return a
}

func c12ParseAddr(s string) (netip.Addr, bool) {
	a, err := netip.ParseAddr(s)
	if err != nil {
		return netip.Addr{}, false
	}
	return a.Unmap(), true
}

func c12SameAddr(a, b string) bool {
	x, ok1 := c12ParseAddr(a)
	y, ok2 := c12ParseAddr(b)
	return ok1 && ok2 && x == y
}

func c12IPEq(ip net.IP, want string) bool {
	if ip == nil {
		return want == ""
	}
	a, ok := netip.AddrFromSlice(ip)
	if !ok || want == "" {
		return false
	}
	w, ok := c12ParseAddr(want)
	return ok && a.Unmap() == w
}

// documented datapath table (plugin/terway/cni.go getDatePath; docs: exclusive ENI,
// ipvlan/veth shared ENI, vlan sub-interface for trunk members).
func c12RefDP(ipType rpc.IPType, trunk bool, vlan string) types.DataPath {
	switch ipType {
	case rpc.IPType_TypeVPCIP:
		return types.VPCRoute
	case rpc.IPType_TypeVPCENI:
		if trunk {
			return types.Vlan
		}
		return types.ExclusiveENI
	default:
		if trunk && vlan == "vlan" {
			return types.Vlan
		}
		return types.IPVlan
	}
}

// tc class handles 1:1 / 1:2 / 1:3; unset priority is burstable.
func c12RefPrio(p string) (uint32, bool) {
	switch p {
	case "guaranteed":
		return 1<<16 | 1, true
	case "burstable", "":
		return 1<<16 | 2, true
	case "best-effort":
		return 1<<16 | 3, true
	}
	return 0, false
}

// ---------------------------------------------------------------- scenario

type c12ENI struct {
	ID    string   `json:"id"`
	MAC   string   `json:"mac"`
	CIDR4 string   `json:"cidr4"`
	CIDR6 string   `json:"cidr6,omitempty"`
	GW4   string   `json:"gw4"` // what instance metadata reports (local pools only)
	GW6   string   `json:"gw6,omitempty"`
	Prim4 string   `json:"prim4"`
	V4    []string `json:"v4"` // slot i = (V4[i], V6[i])
	V6    []string `json:"v6,omitempty"`
	Busy  []bool   `json:"busy"` // slot held by another pod
	// crd worlds: slot still recorded (Valid) for an earlier incarnation of the SAME
	// namespace/name with another UID — the pod was recreated and the controller has not
	// reclaimed the old record yet. The daemon must pick the record of the current UID.
	Stale []bool `json:"stale,omitempty"`
	// crd worlds: what is wrong with the vSwitch subnet recorded for this ENI in the Node CR
	// ("": nothing): cidr4-empty | cidr6-empty (e.g. ENI recorded before its vSwitch got
	// IPv6, or by an older controller) | cidr4-malformed | cidr6-malformed | cidr4-31 |
	// cidr4-32 | cidr6-127 | cidr6-128 (too small for the reserved gateway)
	BadCR string `json:"bad_cr,omitempty"`
	ERdma bool     `json:"erdma,omitempty"`
}

type c12Alloc struct {
	IfName  string   `json:"if"`
	ENIID   string   `json:"eni"`
	MAC     string   `json:"mac"`
	V4      string   `json:"v4"`
	V6      string   `json:"v6,omitempty"`
	CIDR4   string   `json:"cidr4"`
	CIDR6   string   `json:"cidr6,omitempty"`
	Default bool     `json:"default,omitempty"`
	Routes  []string `json:"routes,omitempty"`
	Vid     int      `json:"vid,omitempty"`
}

type c12CNI struct {
	IfName        string   `json:"ifname"`
	MTU           int      `json:"mtu"`
	VlanStrip     string   `json:"vlan_strip"`
	VirtualType   string   `json:"virtual_type"`
	BandwidthMode string   `json:"bandwidth_mode"`
	HostStack     []string `json:"host_stack,omitempty"`
	RtIngress     int      `json:"rt_ingress"` // bits per second, 0 = not set by the runtime
	RtEgress      int      `json:"rt_egress"`
	NoHostPeer    bool     `json:"no_host_peer,omitempty"`
	EnablePrio    bool     `json:"enable_prio,omitempty"`
}

type c12Pod struct {
	NS      string `json:"ns"`
	Name    string `json:"name"`
	UID     string `json:"uid"`
	Ingress uint64 `json:"ingress"`
	Egress  uint64 `json:"egress"`
	Prio    string `json:"prio"`
	ERdma   bool   `json:"erdma,omitempty"`
}

// kinds
const (
	c12KLocal   = "local"      // legacy daemon, shared-ENI pools (eni.Local)
	c12KLocalEO = "local-eo"   // legacy daemon, exclusive ENI mode (eni.Local, one address)
	c12KTrunk   = "trunk"      // legacy daemon, PodENI over eni.Trunk (shared-ENI mode)
	c12KTrunkEO = "trunk-eo"   // legacy daemon, PodENI over eni.Trunk (exclusive ENI mode)
	c12KCRD     = "crd"        // CRDV2, address bound in the Node CR
	c12KCRDPod  = "crd-podeni" // CRDV2, PodENI; trunk iff Trunk >= 0
)

type c12World struct {
	Kind   string     `json:"kind"`
	Stack  string     `json:"stack"` // ipv4 | dual | ipv6
	ENIs   []c12ENI   `json:"enis,omitempty"`
	Trunk  int        `json:"trunk"` // index into ENIs of the trunk ENI, -1 none
	Bind   [2]int     `json:"bind"`  // crd: ENI index, slot index bound to the pod
	Allocs []c12Alloc `json:"allocs,omitempty"`
	Pod    c12Pod     `json:"pod"`
	Svc4   string     `json:"svc4"`
	Svc6   string     `json:"svc6,omitempty"`
	Patch  bool       `json:"patch,omitempty"`
	Repeat bool       `json:"repeat,omitempty"`
	CNI    c12CNI     `json:"cni"`
}

func (w *c12World) v4() bool { return w.Stack != "ipv6" }
func (w *c12World) v6() bool { return w.Stack != "ipv4" }
func (w *c12World) podENI() bool {
	return w.Kind == c12KTrunk || w.Kind == c12KTrunkEO || w.Kind == c12KCRDPod
}

// ---------------------------------------------------------------- generators

func c12GenSubnet(t *rapid.T, v6 bool) netip.Prefix {
	if !v6 {
		var b [4]byte
		b[0] = rapid.SampledFrom([]byte{10, 172, 192, 100, 47, 1, 223}).Draw(t, "net4")
		for i := 1; i < 4; i++ {
			b[i] = rapid.Byte().Draw(t, "b4")
		}
		bits := rapid.IntRange(8, 29).Draw(t, "prefix4")
		return netip.PrefixFrom(netip.AddrFrom4(b), bits).Masked()
	}
	var b [16]byte
	b[0] = rapid.SampledFrom([]byte{0xfd, 0x20, 0x24, 0xfc}).Draw(t, "net6")
	for i := 1; i < 16; i++ {
		switch rapid.IntRange(0, 2).Draw(t, "cls6") {
		case 0:
			b[i] = 0
		case 1:
			b[i] = 0xff
		default:
			b[i] = rapid.Byte().Draw(t, "b6")
		}
	}
	bits := rapid.OneOf(rapid.Just(64), rapid.Just(64), rapid.IntRange(32, 120)).Draw(t, "prefix6")
	return netip.PrefixFrom(netip.AddrFrom16(b), bits).Masked()
}

// usable host offsets: never the network address, the gateway (third from last) or the
// last two addresses — the rule the cloud follows.
func c12MaxOff(p netip.Prefix) int {
	host := p.Addr().BitLen() - p.Bits()
	if host >= 20 {
		return 1<<20 - 4
	}
	return 1<<host - 4
}

func c12GenOffsets(t *rapid.T, p netip.Prefix, n int) []int {
	mx := c12MaxOff(p)
	if n > mx {
		n = mx
	}
	g := rapid.OneOf(rapid.IntRange(1, mx), rapid.Just(1), rapid.Just(mx), rapid.IntRange(max(1, mx-3), mx))
	return rapid.SliceOfNDistinct(g, n, n, func(i int) int { return i }).Draw(t, "offs")
}

func c12GenRoutes(t *rapid.T, fam4, fam6 bool) []string {
	n := rapid.IntRange(0, 3).Draw(t, "nroutes")
	var out []string
	for i := 0; i < n; i++ {
		use6 := fam6 && (!fam4 || rapid.Bool().Draw(t, "r6"))
		if rapid.IntRange(0, 9).Draw(t, "rother") == 9 {
			use6 = !use6
		}
		p := c12GenSubnet(t, use6)
		if rapid.IntRange(0, 9).Draw(t, "rhost") == 9 {
			// host bits set in the textual form
			a := c12AddrAt(p, int64(1))
			out = append(out, netip.PrefixFrom(a, p.Bits()).String())
		} else {
			out = append(out, p.String())
		}
	}
	return out
}

// c12MACDev is the scenario's placeholder for "the MAC address of an ENI the kernel
// knows": it is resolved at run time to the address of a physical device of this
// machine (see c12Device), so that link.GetDeviceNumber finds it and the ENI index
// becomes part of the round trip. "" skips the lookup (a MAC no device carries would make
// parseSetupConf retry for 10 s; netlink reports no address for the loopback device).
const c12MACDev = "dev"

func c12GenMAC(t *rapid.T) string {
	return rapid.SampledFrom([]string{"", c12MACDev}).Draw(t, "mac")
}

var (
	c12DevOnce  sync.Once
	c12DevMAC   string
	c12DevIndex int
)

// c12Device finds a physical network device of the machine without terway code: sysfs
// says it is backed by a bus device, the standard library gives address and index, and
// the netlink library must classify it as a plain device (what GetDeviceNumber accepts).
func c12Device() (string, int) {
	c12DevOnce.Do(func() {
		ifs, _ := net.Interfaces()
		for _, ifc := range ifs {
			if len(ifc.HardwareAddr) != 6 {
				continue
			}
			if _, err := os.Stat("/sys/class/net/" + ifc.Name + "/device"); err != nil {
				continue
			}
			l, err := netlink.LinkByName(ifc.Name)
			if err != nil {
				continue
			}
			if _, ok := l.(*netlink.Device); !ok {
				continue
			}
			c12DevMAC, c12DevIndex = ifc.HardwareAddr.String(), ifc.Index
			return
		}
	})
	return c12DevMAC, c12DevIndex
}

func c12MAC(s string) string {
	if s == c12MACDev {
		m, _ := c12Device()
		return m
	}
	return s
}

// c12WantIndex is the ENI index the plugin must recover for a MAC the daemon sent.
func c12WantIndex(mac string) int {
	if m, idx := c12Device(); mac != "" && mac == m {
		return idx
	}
	return 0
}

func c12GenCNI(t *rapid.T) c12CNI {
	c := c12CNI{IfName: "eth0"}
	c.MTU = rapid.SampledFrom([]int{0, 1500, 1400, 8500, 9000}).Draw(t, "mtu")
	c.VlanStrip = rapid.SampledFrom([]string{"", "filter", "vlan", "vlan", "Vlan"}).Draw(t, "vlanstrip")
	c.VirtualType = rapid.SampledFrom([]string{"", "veth", "ipvlan", "IPVlan"}).Draw(t, "virt")
	c.BandwidthMode = rapid.SampledFrom([]string{"", "edt", "tc"}).Draw(t, "bwmode")
	nh := rapid.IntRange(0, 2).Draw(t, "nhost")
	for i := 0; i < nh; i++ {
		c.HostStack = append(c.HostStack, c12GenSubnet(t, rapid.Bool().Draw(t, "h6")).String())
	}
	rate := rapid.OneOf(rapid.Just(0), rapid.Just(0), rapid.IntRange(1, 7), rapid.IntRange(8, 1<<20), rapid.IntRange(1<<20, 1<<40))
	c.RtIngress = rate.Draw(t, "rt_in")
	c.RtEgress = rate.Draw(t, "rt_eg")
	c.NoHostPeer = rapid.Bool().Draw(t, "nohostpeer")
	c.EnablePrio = rapid.Bool().Draw(t, "enprio")
	return c
}

func c12GenPod(t *rapid.T) c12Pod {
	bw := rapid.OneOf(rapid.Just(uint64(0)), rapid.Uint64Range(1, 1<<20), rapid.Uint64Range(1<<20, 1<<44))
	return c12Pod{
		NS:      rapid.SampledFrom([]string{"default", "kube-system", "ns-1"}).Draw(t, "ns"),
		Name:    rapid.SampledFrom([]string{"pod-0", "web-1", "a"}).Draw(t, "pod"),
		UID:     rapid.SampledFrom([]string{"uid-1", "7f9e3b1c-aaaa-bbbb-cccc-000000000001"}).Draw(t, "uid"),
		Ingress: bw.Draw(t, "ingress"),
		Egress:  bw.Draw(t, "egress"),
		Prio:    rapid.SampledFrom([]string{"", "guaranteed", "burstable", "best-effort"}).Draw(t, "prio"),
	}
}

// vSwitches of one VPC never overlap and an address is unique in the VPC; several ENIs
// may sit in the same vSwitch. The i-th vSwitch gets its own leading byte(s).
type c12Vsw struct {
	p4, p6       netip.Prefix
	gw4, gw6     string
	used4, used6 map[int]bool
}

type c12VswReg struct{ list []*c12Vsw }

var c12Lead4 = []byte{10, 172, 192, 100, 47, 1, 223, 11}

func (r *c12VswReg) add(t *rapid.T, v6 bool) *c12Vsw {
	i := len(r.list)
	v := &c12Vsw{used4: map[int]bool{}, used6: map[int]bool{}}
	p := c12GenSubnet(t, false)
	b := p.Addr().As4()
	b[0] = c12Lead4[i%len(c12Lead4)]
	v.p4 = netip.PrefixFrom(netip.AddrFrom4(b), p.Bits()).Masked()
	v.gw4 = c12AddrAt(v.p4, rapid.SampledFrom([]int64{-3, -3, -3, -2}).Draw(t, "gwoff4")).String()
	if v6 {
		p := c12GenSubnet(t, true)
		b := p.Addr().As16()
		b[1] = byte(i)
		v.p6 = netip.PrefixFrom(netip.AddrFrom16(b), p.Bits()).Masked()
		v.gw6 = c12AddrAt(v.p6, rapid.SampledFrom([]int64{-3, -3, -3, -2}).Draw(t, "gwoff6")).String()
	}
	r.list = append(r.list, v)
	return v
}

func (v *c12Vsw) free(v6 bool) int {
	n := c12MaxOff(v.p4) - len(v.used4)
	if v6 {
		n = min(n, c12MaxOff(v.p6)-len(v.used6))
	}
	return n
}

func c12Probe(used map[int]bool, want, mx int) int {
	o := want
	for used[o] {
		o = o%mx + 1
	}
	used[o] = true
	return o
}

func c12GenENI(t *rapid.T, idx int, w *c12World, slots int, reg *c12VswReg) c12ENI {
	e := c12ENI{ID: fmt.Sprintf("eni-%d", idx), MAC: c12GenMAC(t)}
	own := reg.add(t, w.v6())
	vsw := reg.list[rapid.IntRange(0, idx).Draw(t, "vsw")]
	if vsw.free(w.v6()) < 1 {
		vsw = own
	}
	if vsw != own {
		e.ID += "-shared"
	}
	slots = min(slots, vsw.free(w.v6()))
	e.CIDR4, e.GW4 = vsw.p4.String(), vsw.gw4
	for _, o := range c12GenOffsets(t, vsw.p4, slots) {
		e.V4 = append(e.V4, c12AddrAt(vsw.p4, int64(c12Probe(vsw.used4, o, c12MaxOff(vsw.p4)))).String())
	}
	e.Prim4 = e.V4[0]
	if w.v6() {
		e.CIDR6, e.GW6 = vsw.p6.String(), vsw.gw6
		for _, o := range c12GenOffsets(t, vsw.p6, slots) {
			e.V6 = append(e.V6, c12AddrAt(vsw.p6, int64(c12Probe(vsw.used6, o, c12MaxOff(vsw.p6)))).String())
		}
	}
	e.Busy = make([]bool, slots)
	for i := range e.Busy {
		e.Busy[i] = rapid.Bool().Draw(t, "busy")
	}
	return e
}

var (
	// Generated kinds. The too-small kinds (cidr4-31/-32, cidr6-127/-128) are understood by
	// c12RecordedCIDRs (for replay files) but NOT generated: a vSwitch is at least a /29 and
	// its IPv6 block a /64, the controller copies the subnet from the cloud, so a Node CR
	// cannot carry one; on such a record the unchanged daemon answers with address and
	// subnet but no gateway (DeriveGatewayIP has no third-from-last address to give).
	c12BadCR4 = []string{"cidr4-empty", "cidr4-malformed"}
	c12BadCR6 = []string{"cidr6-empty", "cidr6-malformed"}
)

var c12IfNames = []string{"eth1", "eth2", "net1", "net2", "eth0x"}

func c12GenAllocs(t *rapid.T, w *c12World, trunk bool) []c12Alloc {
	n := rapid.IntRange(1, vt.Scale(4, 6)).Draw(t, "nalloc")
	// interface names: distinct; usually exactly one primary ("eth0", or "" as written by
	// the controller's fall-back path), sometimes none (the daemon must then refuse).
	primaryAt := rapid.IntRange(0, n-1).Draw(t, "primary_at")
	noPrimary := rapid.IntRange(0, 11).Draw(t, "no_primary") == 11
	names := rapid.Permutation(c12IfNames).Draw(t, "names")
	// default-route flags: mostly none (what the controller writes), sometimes one,
	// sometimes several (the daemon must refuse duplicates).
	mode := rapid.SampledFrom([]string{"none", "none", "one", "one", "many"}).Draw(t, "default_mode")
	oneAt := rapid.IntRange(0, n-1).Draw(t, "default_at")
	var out []c12Alloc
	var vsws []*c12Vsw
	podVsws := &c12VswReg{}
	for i := 0; i < n; i++ {
		a := c12Alloc{ENIID: fmt.Sprintf("eni-m%d", i), MAC: c12GenMAC(t), IfName: names[i%len(names)]}
		if i >= len(names) {
			a.IfName = fmt.Sprintf("%s-%d", a.IfName, i)
		}
		if i == primaryAt && !noPrimary {
			a.IfName = rapid.SampledFrom([]string{"eth0", "eth0", ""}).Draw(t, "primary_name")
		}
		// member ENIs of one pod often sit in the same vSwitch (identical CIDR strings,
		// different addresses)
		dual := w.v6()
		var vsw *c12Vsw
		if i > 0 && rapid.Bool().Draw(t, "share_vsw") {
			vsw = vsws[rapid.IntRange(0, len(vsws)-1).Draw(t, "vsw")]
			if vsw.free(dual) < 1 {
				vsw = nil
			}
		}
		if vsw == nil {
			// vSwitches of one VPC do not overlap (an address is unique in the VPC)
			vsw = podVsws.add(t, dual)
			vsws = podVsws.list
		}
		a.CIDR4 = vsw.p4.String()
		a.V4 = c12AddrAt(vsw.p4, int64(c12Probe(vsw.used4, c12GenOffsets(t, vsw.p4, 1)[0], c12MaxOff(vsw.p4)))).String()
		// on a dual-stack node the allocations of one pod need not have the same families:
		// a member ENI may have been given no IPv6 address (its vSwitch may still have an
		// IPv6 block, which the controller records all the same)
		has6 := dual && rapid.IntRange(0, 2).Draw(t, "v4only") != 2
		if has6 {
			a.CIDR6 = vsw.p6.String()
			a.V6 = c12AddrAt(vsw.p6, int64(c12Probe(vsw.used6, c12GenOffsets(t, vsw.p6, 1)[0], c12MaxOff(vsw.p6)))).String()
		} else if dual && rapid.Bool().Draw(t, "keep_cidr6") {
			a.CIDR6 = vsw.p6.String()
		}
		switch mode {
		case "one":
			a.Default = i == oneAt
		case "many":
			a.Default = i == oneAt || rapid.Bool().Draw(t, "default")
		}
		a.Routes = c12GenRoutes(t, true, has6)
		if trunk {
			a.Vid = rapid.IntRange(1, 4094).Draw(t, "vid")
		}
		out = append(out, a)
	}
	// Incomplete records: an allocation whose subnet is missing (record kept from an older
	// controller) or too small to hold the reserved gateway (/31, /32, /127, /128). The
	// daemon hands out no configuration for such a PodENI; what it must never do is return
	// an address without its subnet and gateway.
	if rapid.IntRange(0, 7).Draw(t, "incomplete") == 7 {
		a := &out[rapid.IntRange(0, n-1).Draw(t, "incomplete_at")]
		kinds := []string{"cidr4-empty", "cidr4-31", "cidr4-32"}
		if a.V6 != "" {
			kinds = []string{"cidr6-empty", "cidr6-127", "cidr6-128", "cidr6-empty", "cidr6-127", "cidr4-empty", "cidr4-31", "cidr4-32"}
		}
		switch rapid.SampledFrom(kinds).Draw(t, "incomplete_kind") {
		case "cidr4-empty":
			a.CIDR4 = ""
		case "cidr4-31":
			a.CIDR4 = netip.PrefixFrom(netip.MustParseAddr(a.V4), 31).Masked().String()
		case "cidr4-32":
			a.CIDR4 = netip.PrefixFrom(netip.MustParseAddr(a.V4), 32).String()
		case "cidr6-empty":
			a.CIDR6 = ""
		case "cidr6-127":
			a.CIDR6 = netip.PrefixFrom(netip.MustParseAddr(a.V6), 127).Masked().String()
		case "cidr6-128":
			a.CIDR6 = netip.PrefixFrom(netip.MustParseAddr(a.V6), 128).String()
		}
	}
	return out
}

// c12Usable: the subnet exists and has a third-from-last address (>= 2 host bits).
func c12Usable(cidr string) bool {
	p, err := netip.ParsePrefix(cidr)
	return err == nil && p.Addr().BitLen()-p.Bits() >= 2
}

func (a *c12Alloc) incomplete() bool {
	return (a.V4 != "" && !c12Usable(a.CIDR4)) || (a.V6 != "" && !c12Usable(a.CIDR6))
}

func c12GenWorld(t *rapid.T) c12World {
	w := c12World{Trunk: -1}
	w.Kind = rapid.SampledFrom([]string{c12KLocal, c12KLocal, c12KLocalEO, c12KTrunk, c12KTrunk, c12KTrunkEO,
		c12KCRD, c12KCRD, c12KCRDPod, c12KCRDPod}).Draw(t, "kind")
	if w.podENI() {
		// member ENIs always carry a primary IPv4 address
		w.Stack = rapid.SampledFrom([]string{"ipv4", "dual"}).Draw(t, "stack")
	} else {
		w.Stack = rapid.SampledFrom([]string{"ipv4", "dual", "dual", "ipv6"}).Draw(t, "stack")
	}
	w.Pod = c12GenPod(t)
	w.CNI = c12GenCNI(t)
	w.Svc4 = c12GenSubnet(t, false).String()
	if w.v6() {
		w.Svc6 = c12GenSubnet(t, true).String()
	}
	w.Patch = rapid.Bool().Draw(t, "patch")
	w.Repeat = rapid.IntRange(0, 3).Draw(t, "repeat") == 3

	nENI := rapid.IntRange(1, vt.Scale(3, 5)).Draw(t, "nenis")
	reg := &c12VswReg{}
	switch w.Kind {
	case c12KLocal, c12KCRD:
		w.Pod.ERdma = w.Kind == c12KLocal && rapid.IntRange(0, 5).Draw(t, "pod_erdma") == 5
		for i := 0; i < nENI; i++ {
			e := c12GenENI(t, i, &w, rapid.IntRange(1, 4).Draw(t, "slots"), reg)
			e.ERdma = rapid.IntRange(0, 3).Draw(t, "eni_erdma") == 3
			w.ENIs = append(w.ENIs, e)
		}
		if w.Kind == c12KLocal {
			// one ENI of the right kind has a free slot: the request is served from the pool
			k := rapid.IntRange(0, nENI-1).Draw(t, "serving")
			w.ENIs[k].ERdma = w.Pod.ERdma
			w.ENIs[k].Busy[rapid.IntRange(0, len(w.ENIs[k].Busy)-1).Draw(t, "free_slot")] = false
			if !w.Pod.ERdma && rapid.IntRange(0, 3).Draw(t, "with_trunk") == 3 {
				w.Trunk = rapid.IntRange(0, nENI-1).Draw(t, "trunk_idx")
				w.ENIs[w.Trunk].ERdma = false
			}
		} else {
			k := rapid.IntRange(0, nENI-1).Draw(t, "bind_eni")
			s := rapid.IntRange(0, len(w.ENIs[k].Busy)-1).Draw(t, "bind_slot")
			w.Bind = [2]int{k, s}
			w.ENIs[k].Busy[s] = false
			// incomplete ENI record in the Node CR (usually the one the pod is bound to)
			if rapid.IntRange(0, 5).Draw(t, "bad_cr") == 5 {
				j := k
				if rapid.IntRange(0, 3).Draw(t, "bad_cr_other") == 3 {
					j = rapid.IntRange(0, nENI-1).Draw(t, "bad_cr_eni")
				}
				var kinds []string
				if w.v4() {
					kinds = append(kinds, c12BadCR4...)
				}
				if w.v6() {
					kinds = append(kinds, c12BadCR6...)
					kinds = append(kinds, c12BadCR6...)
				}
				w.ENIs[j].BadCR = rapid.SampledFrom(kinds).Draw(t, "bad_cr_kind")
			}
			if rapid.IntRange(0, 2).Draw(t, "with_stale") > 0 {
				for i := range w.ENIs {
					w.ENIs[i].Stale = make([]bool, len(w.ENIs[i].Busy))
					for j := range w.ENIs[i].Stale {
						if [2]int{i, j} != w.Bind {
							w.ENIs[i].Stale[j] = rapid.IntRange(0, 2).Draw(t, "stale") == 2
						}
					}
				}
			}
		}
	case c12KLocalEO:
		for i := 0; i < nENI; i++ {
			e := c12GenENI(t, i, &w, 1, reg)
			w.ENIs = append(w.ENIs, e)
		}
		w.ENIs[rapid.IntRange(0, nENI-1).Draw(t, "serving")].Busy[0] = false
	case c12KTrunk, c12KTrunkEO:
		for i := 0; i < nENI; i++ {
			w.ENIs = append(w.ENIs, c12GenENI(t, i, &w, rapid.IntRange(1, 2).Draw(t, "slots"), reg))
		}
		w.Trunk = rapid.IntRange(0, nENI-1).Draw(t, "trunk_idx")
		w.Allocs = c12GenAllocs(t, &w, true)
	case c12KCRDPod:
		for i := 0; i < nENI; i++ {
			w.ENIs = append(w.ENIs, c12GenENI(t, i, &w, rapid.IntRange(1, 2).Draw(t, "slots"), reg))
		}
		if rapid.Bool().Draw(t, "crd_trunk") {
			w.Trunk = rapid.IntRange(0, nENI-1).Draw(t, "trunk_idx")
		}
		w.Allocs = c12GenAllocs(t, &w, w.Trunk >= 0)
	}
	return w
}

// ---------------------------------------------------------------- world construction

type c12K8s struct {
	k8s.Kubernetes // unimplemented methods are not reached by AllocIP
	pod            *daemon.PodInfo
	pods           map[string]*daemon.PodInfo // history worlds: several pods
	svc            *terwayTypes.IPNetSet
	cl             client.Client
	mu             sync.Mutex
	patched        []string
}

func (k *c12K8s) GetPod(ctx context.Context, namespace, name string, cache bool) (*daemon.PodInfo, error) {
	if p, ok := k.pods[namespace+"/"+name]; ok {
		cp := *p
		return &cp, nil
	}
	if k.pod == nil || namespace != k.pod.Namespace || name != k.pod.Name {
		return nil, fmt.Errorf("pod %s/%s not found", namespace, name)
	}
	cp := *k.pod
	return &cp, nil
}
func (k *c12K8s) GetServiceCIDR() *terwayTypes.IPNetSet { return k.svc }
func (k *c12K8s) PatchPodIPInfo(info *daemon.PodInfo, ips string) error {
	k.mu.Lock()
	k.patched = append(k.patched, ips)
	k.mu.Unlock()
	return nil
}
func (k *c12K8s) PatchNodeIPResCondition(status corev1.ConditionStatus, reason, message string) error {
	return nil
}
func (k *c12K8s) GetClient() client.Client { return k.cl }
func (k *c12K8s) NodeName() string         { return "node-1" }

type c12Factory struct {
	mu    sync.Mutex
	v4    []netip.Addr
	v6    []netip.Addr
	other int
}

func (f *c12Factory) LoadNetworkInterface(mac string) ([]netip.Addr, []netip.Addr, error) {
	return f.v4, f.v6, nil
}
func (f *c12Factory) unexpected() error {
	f.mu.Lock()
	f.other++
	f.mu.Unlock()
	return fmt.Errorf("c12: the pool is static in this harness")
}
func (f *c12Factory) CreateNetworkInterface(ipv4, ipv6 int, eniType string) (*daemon.ENI, []netip.Addr, []netip.Addr, error) {
	return nil, nil, nil, f.unexpected()
}
func (f *c12Factory) AssignNIPv4(eniID string, count int, mac string) ([]netip.Addr, error) {
	return nil, f.unexpected()
}
func (f *c12Factory) AssignNIPv6(eniID string, count int, mac string) ([]netip.Addr, error) {
	return nil, f.unexpected()
}
func (f *c12Factory) UnAssignNIPv4(eniID string, ips []netip.Addr, mac string) error {
	return f.unexpected()
}
func (f *c12Factory) UnAssignNIPv6(eniID string, ips []netip.Addr, mac string) error {
	return f.unexpected()
}
func (f *c12Factory) DeleteNetworkInterface(eniID string) error { return f.unexpected() }
func (f *c12Factory) GetAttachedNetworkInterface(preferTrunkID string) ([]*daemon.ENI, error) {
	return nil, f.unexpected()
}

func c12ParseIPNet(c *vt.Ctx, s string) *net.IPNet {
	if s == "" {
		return nil
	}
	_, n, err := net.ParseCIDR(s)
	if err != nil {
		c.Fatalf("harness: bad cidr %q", s)
	}
	return n
}

// c12DaemonENI is what pkg/aliyun/eni builds from instance metadata for an attached ENI.
func c12DaemonENI(c *vt.Ctx, w *c12World, e *c12ENI, trunk bool) *daemon.ENI {
	d := &daemon.ENI{ID: e.ID, MAC: c12MAC(e.MAC), Trunk: trunk, ERdma: e.ERdma, VSwitchID: "vsw-" + e.ID}
	d.PrimaryIP.IPv4 = net.ParseIP(e.Prim4)
	d.GatewayIP.IPv4 = net.ParseIP(e.GW4)
	d.VSwitchCIDR.IPv4 = c12ParseIPNet(c, e.CIDR4)
	if w.v6() {
		d.GatewayIP.IPv6 = net.ParseIP(e.GW6)
		d.VSwitchCIDR.IPv6 = c12ParseIPNet(c, e.CIDR6)
	}
	return d
}

func c12Addrs(ss []string) []netip.Addr {
	var out []netip.Addr
	for _, s := range ss {
		out = append(out, netip.MustParseAddr(s))
	}
	return out
}

type c12Live struct {
	svc       *terwaydaemon.C12Service
	k         *c12K8s
	factories []*c12Factory
	locals    []*eni.Local
	cancel    context.CancelFunc
	wg        *sync.WaitGroup
}

func (l *c12Live) stop(c *vt.Ctx) {
	l.cancel()
	c12StopPools(c, l.locals, l.wg)
}

// c12StopPools waits for the pool workers after the case context was cancelled.
// Local.notify broadcasts without holding the lock, so a worker that has just checked
// ctx.Done() can miss the wake-up; keep waking the condition until they are gone.
func c12StopPools(c *vt.Ctx, locals []*eni.Local, wg *sync.WaitGroup) {
	done := make(chan struct{})
	go func() { wg.Wait(); close(done) }()
	for i := 0; i < 2000; i++ {
		for _, lo := range locals {
			eni.VerifWake(lo)
		}
		select {
		case <-done:
			return
		case <-time.After(time.Millisecond):
		}
	}
	c.Label("pool-worker-parked")
}

func c12PodENIObject(w *c12World) *networkv1beta1.PodENI {
	pe := &networkv1beta1.PodENI{
		ObjectMeta: metav1.ObjectMeta{Namespace: w.Pod.NS, Name: w.Pod.Name,
			Annotations: map[string]string{terwayTypes.PodUID: w.Pod.UID}},
		Spec: networkv1beta1.PodENISpec{Zone: "zone-a"},
		Status: networkv1beta1.PodENIStatus{Phase: networkv1beta1.ENIPhaseBind, InstanceID: "i-1",
			ENIInfos: map[string]networkv1beta1.ENIInfo{}},
	}
	if w.Trunk >= 0 {
		pe.Status.TrunkENIID = w.ENIs[w.Trunk].ID
	}
	for _, a := range w.Allocs {
		al := networkv1beta1.Allocation{
			ENI:          networkv1beta1.ENI{ID: a.ENIID, MAC: c12MAC(a.MAC), Zone: "zone-a", VSwitchID: "vsw-" + a.ENIID},
			IPv4:         a.V4,
			IPv6:         a.V6,
			IPv4CIDR:     a.CIDR4,
			IPv6CIDR:     a.CIDR6,
			Interface:    a.IfName,
			DefaultRoute: a.Default,
		}
		for _, r := range a.Routes {
			al.ExtraRoutes = append(al.ExtraRoutes, networkv1beta1.Route{Dst: r})
		}
		pe.Spec.Allocations = append(pe.Spec.Allocations, al)
		info := networkv1beta1.ENIInfo{ID: a.ENIID, Status: networkv1beta1.ENIStatusBind}
		if w.Trunk >= 0 {
			info.Type = networkv1beta1.ENITypeMember
			info.Vid = a.Vid
		} else {
			info.Type = networkv1beta1.ENITypeSecondary
		}
		pe.Status.ENIInfos[a.ENIID] = info
	}
	return pe
}

// c12RecordedCIDRs is what the Node CR says about the ENI's vSwitch subnets.
func c12RecordedCIDRs(e *c12ENI) (string, string) {
	c4, c6 := e.CIDR4, e.CIDR6
	tiny := func(addr string, bits int) string {
		return netip.PrefixFrom(netip.MustParseAddr(addr), bits).Masked().String()
	}
	switch e.BadCR {
	case "cidr4-empty":
		c4 = ""
	case "cidr4-malformed":
		c4 = strings.SplitN(c4, "/", 2)[0] // mask lost
	case "cidr4-31":
		c4 = tiny(e.V4[0], 31)
	case "cidr4-32":
		c4 = tiny(e.V4[0], 32)
	case "cidr6-empty":
		c6 = ""
	case "cidr6-malformed":
		c6 = strings.SplitN(c6, "/", 2)[0] + "/200"
	case "cidr6-127":
		c6 = tiny(e.V6[0], 127)
	case "cidr6-128":
		c6 = tiny(e.V6[0], 128)
	}
	return c4, c6
}

func c12NodeCR(w *c12World) *networkv1beta1.Node {
	n := &networkv1beta1.Node{ObjectMeta: metav1.ObjectMeta{Name: "node-1"}}
	n.Spec.ENISpec = &networkv1beta1.ENISpec{
		EnableIPv4: w.v4(), EnableIPv6: w.v6(), EnableTrunk: w.Trunk >= 0, EnableERDMA: true,
		VSwitchOptions: []string{"vsw-1"}, SecurityGroupIDs: []string{"sg-1"},
	}
	n.Status.NetworkInterfaces = map[string]*networkv1beta1.NetworkInterface{}
	podID := w.Pod.NS + "/" + w.Pod.Name
	for i := range w.ENIs {
		e := &w.ENIs[i]
		rec4, rec6 := c12RecordedCIDRs(e)
		ni := &networkv1beta1.NetworkInterface{
			ID: e.ID, Status: "InUse", MacAddress: c12MAC(e.MAC), VSwitchID: "vsw-" + e.ID,
			PrimaryIPAddress: e.Prim4, IPv4CIDR: rec4, IPv6CIDR: rec6,
			NetworkInterfaceType:        networkv1beta1.ENITypeSecondary,
			NetworkInterfaceTrafficMode: networkv1beta1.NetworkInterfaceTrafficModeStandard,
			IPv4:                        map[string]*networkv1beta1.IP{}, IPv6: map[string]*networkv1beta1.IP{},
		}
		if e.ERdma {
			ni.NetworkInterfaceTrafficMode = networkv1beta1.NetworkInterfaceTrafficModeHighPerformance
		}
		if i == w.Trunk {
			ni.NetworkInterfaceType = networkv1beta1.ENITypeTrunk
		}
		for s := range e.Busy {
			owner, uid := "", ""
			if e.Busy[s] {
				owner, uid = fmt.Sprintf("other/p-%d-%d", i, s), fmt.Sprintf("uid-o-%d-%d", i, s)
			}
			if w.Kind == c12KCRD && s < len(e.Stale) && e.Stale[s] {
				owner, uid = podID, fmt.Sprintf("%s-old-%d-%d", w.Pod.UID, i, s)
			}
			if w.Kind == c12KCRD && w.Bind == [2]int{i, s} {
				owner, uid = podID, w.Pod.UID
			}
			if w.v4() {
				ni.IPv4[e.V4[s]] = &networkv1beta1.IP{IP: e.V4[s], Primary: s == 0, Status: networkv1beta1.IPStatusValid, PodID: owner, PodUID: uid}
			}
			if w.v6() {
				ni.IPv6[e.V6[s]] = &networkv1beta1.IP{IP: e.V6[s], Status: networkv1beta1.IPStatusValid, PodID: owner, PodUID: uid}
			}
		}
		if !w.v4() {
			// the primary IPv4 address exists on every ENI even on an IPv6-only node
			ni.IPv4[e.Prim4] = &networkv1beta1.IP{IP: e.Prim4, Primary: true, Status: networkv1beta1.IPStatusValid}
		}
		n.Status.NetworkInterfaces[e.ID] = ni
	}
	return n
}

func c12Build(c *vt.Ctx, w *c12World) *c12Live {
	ctx, cancel := context.WithCancel(context.Background())
	live := &c12Live{cancel: cancel, wg: &sync.WaitGroup{}}

	podInfo := &daemon.PodInfo{
		Name: w.Pod.Name, Namespace: w.Pod.NS, PodUID: w.Pod.UID,
		TcIngress: w.Pod.Ingress, TcEgress: w.Pod.Egress, NetworkPriority: w.Pod.Prio,
		PodENI: w.podENI(), ERdma: w.Pod.ERdma,
	}
	mode := daemon.ModeENIMultiIP
	podInfo.PodNetworkType = daemon.PodNetworkTypeENIMultiIP
	if w.Kind == c12KLocalEO || w.Kind == c12KTrunkEO {
		mode = daemon.ModeENIOnly
		podInfo.PodNetworkType = daemon.PodNetworkTypeVPCENI
	}

	var objs []client.Object
	if w.podENI() {
		objs = append(objs, c12PodENIObject(w))
	}
	if w.Kind == c12KCRD || w.Kind == c12KCRDPod {
		objs = append(objs, c12NodeCR(w))
		kn := &corev1.Node{ObjectMeta: metav1.ObjectMeta{Name: "node-1", Annotations: map[string]string{}}}
		if w.Trunk >= 0 {
			kn.Annotations[terwayTypes.TrunkOn] = w.ENIs[w.Trunk].ID
		}
		objs = append(objs, kn)
	}
	cl := fake.NewClientBuilder().WithScheme(terwayTypes.Scheme).WithObjects(objs...).Build()

	svcCIDR := &terwayTypes.IPNetSet{IPv4: c12ParseIPNet(c, w.Svc4), IPv6: c12ParseIPNet(c, w.Svc6)}
	live.k = &c12K8s{pod: podInfo, svc: svcCIDR, cl: cl}

	var nis []eni.NetworkInterface
	ipam := terwayTypes.IPAMType(terwayTypes.IPAMTypeDefault)
	switch w.Kind {
	case c12KCRD, c12KCRDPod:
		ipam = terwayTypes.IPAMTypeCRD
		nis = append(nis, eni.C12NewCRDV2(cl, "node-1"))
	default:
		for i := range w.ENIs {
			e := &w.ENIs[i]
			f := &c12Factory{}
			if w.v4() {
				f.v4 = c12Addrs(e.V4)
			}
			if w.v6() {
				f.v6 = c12Addrs(e.V6)
			}
			live.factories = append(live.factories, f)
			pc := &daemon.PoolConfig{EnableIPv4: w.v4(), EnableIPv6: w.v6(), MaxIPPerENI: len(e.Busy), BatchSize: 1,
				Capacity: 64, MaxENI: len(w.ENIs)}
			typ := "secondary"
			if e.ERdma {
				typ = "erdma"
			}
			var ni eni.NetworkInterface
			if i == w.Trunk {
				lo := eni.NewLocal(c12DaemonENI(c, w, e, true), "trunk", f, pc)
				live.locals = append(live.locals, lo)
				ni = eni.NewTrunk(cl, lo)
			} else {
				lo := eni.NewLocal(c12DaemonENI(c, w, e, false), typ, f, pc)
				live.locals = append(live.locals, lo)
				ni = lo
			}
			// what the daemon's store remembers of the other pods
			var prev []daemon.PodResources
			for s, busy := range e.Busy {
				if !busy {
					continue
				}
				it := daemon.ResourceItem{Type: daemon.ResourceTypeENIIP, ENIID: e.ID, ENIMAC: c12MAC(e.MAC)}
				if w.v4() {
					it.IPv4 = e.V4[s]
				}
				if w.v6() {
					it.IPv6 = e.V6[s]
				}
				prev = append(prev, daemon.PodResources{
					PodInfo:   &daemon.PodInfo{Namespace: "other", Name: fmt.Sprintf("p-%d-%d", i, s)},
					Resources: []daemon.ResourceItem{it},
				})
			}
			if err := ni.Run(ctx, prev, live.wg); err != nil {
				cancel()
				c.Fatalf("harness: start pool for %s: %v", e.ID, err)
			}
			nis = append(nis, ni)
		}
	}
	mgr := eni.NewManager(0, 0, 64, 0, nis, daemon.EniSelectionPolicyMostIPs, live.k)
	live.svc = terwaydaemon.C12NewService(terwaydaemon.C12Options{
		DaemonMode: mode, IPAMType: ipam, EnableIPv4: w.v4(), EnableIPv6: w.v6(), EnablePatchPodIPs: w.Patch,
		K8s: live.k, DB: storage.NewMemoryStorage(), Mgr: mgr,
	})
	return live
}

// ---------------------------------------------------------------- oracle (A)

type c12Want struct { // ground truth for one NetConf
	v4, v6       string
	cidr4, cidr6 string
	gw4, gw6     string // "" = derived: third from last
	derived      bool
	trunk        bool
	vid          int
	routes       []string
	ifName       string
	deflt        *bool // nil: not fixed by the world
}

func c12CheckFamily(c *vt.Ctx, what, ip, cidr, gw string, want *c12Want, wantIP, wantCIDR, wantGW string) {
	if !c12SameAddr(ip, wantIP) {
		c.Fatalf("%s: pod address %q, the allocation holds %q", what, ip, wantIP)
	}
	if cidr == "" {
		c.Fatalf("%s: address %s reported without a subnet", what, ip)
	}
	p, err := netip.ParsePrefix(cidr)
	if err != nil {
		c.Fatalf("%s: subnet %q does not parse: %v", what, cidr, err)
	}
	// (an incomplete record has no usable vSwitch subnet to compare with; whatever subnet
	// the reply reports must still satisfy the clauses below)
	if c12Usable(wantCIDR) && p.Masked() != c12Prefix(c, wantCIDR) {
		c.Fatalf("%s: subnet %q, the allocation's vSwitch is %q", what, cidr, wantCIDR)
	}
	a, _ := c12ParseAddr(ip)
	if !p.Masked().Contains(a) {
		c.Fatalf("%s: pod address %s outside the reported subnet %s", what, ip, cidr)
	}
	g, ok := c12ParseAddr(gw)
	if !ok {
		c.Fatalf("%s: gateway %q missing or malformed for subnet %s", what, gw, cidr)
	}
	if !p.Masked().Contains(g) {
		c.Fatalf("%s: gateway %s outside the reported subnet %s", what, gw, cidr)
	}
	if g == a {
		c.Fatalf("%s: gateway %s equals the pod address", what, gw)
	}
	if want.derived {
		if ref := c12AddrAt(p, -3); g != ref {
			c.Fatalf("%s: gateway %s, the reserved gateway (third from last) of %s is %s", what, gw, cidr, ref)
		}
	} else if !c12SameAddr(gw, wantGW) {
		c.Fatalf("%s: gateway %s, the ENI's gateway is %s", what, gw, wantGW)
	}
}

// c12LocalWant finds the pool slot the daemon handed out and returns its ground truth.
func c12LocalWant(c *vt.Ctx, w *c12World, nc *rpc.NetConf) *c12Want {
	ip := nc.GetBasicInfo().GetPodIP()
	for i := range w.ENIs {
		e := &w.ENIs[i]
		if e.ERdma != w.Pod.ERdma {
			continue
		}
		hit4, hit6 := -1, -1
		for s := range e.Busy {
			if e.Busy[s] {
				continue
			}
			if w.v4() && c12SameAddr(ip.GetIPv4(), e.V4[s]) {
				hit4 = s
			}
			if w.v6() && c12SameAddr(ip.GetIPv6(), e.V6[s]) {
				hit6 = s
			}
		}
		if (w.v4() && hit4 < 0) || (w.v6() && hit6 < 0) {
			continue
		}
		want := &c12Want{cidr4: e.CIDR4, cidr6: e.CIDR6, gw4: e.GW4, gw6: e.GW6}
		if w.v4() {
			want.v4 = e.V4[hit4]
		}
		if w.v6() {
			want.v6 = e.V6[hit6]
		}
		c.Trace("served by %s slot v4=%d v6=%d", e.ID, hit4, hit6)
		return want
	}
	c.Fatalf("reply address %v is not a free address of one matching ENI of the pool", ip)
	return nil
}

// c12AnyReply is the part AllocIPReply and GetInfoReply have in common.
type c12AnyReply interface {
	GetSuccess() bool
	GetIPType() rpc.IPType
	GetNetConfs() []*rpc.NetConf
}

// c12CheckReply is the daemon-side oracle; it is applied to every configuration the
// daemon returns for the pod: the ADD reply and the GetIPInfo reply (CHECK / DEL).
func c12CheckReply(c *vt.Ctx, w *c12World, rpcName string, reply c12AnyReply) {
	if !reply.GetSuccess() {
		c.Fatalf("%s returned no error and Success=false", rpcName)
	}
	ncs := reply.GetNetConfs()
	if len(ncs) == 0 {
		c.Fatalf("successful %s reply carries no network configuration", rpcName)
	}
	wantType := rpc.IPType_TypeENIMultiIP
	if w.Kind == c12KLocalEO || w.Kind == c12KTrunkEO {
		wantType = rpc.IPType_TypeVPCENI
	}
	if reply.GetIPType() != wantType {
		c.Fatalf("%s reply IPType %s, daemon mode implies %s", rpcName, reply.GetIPType(), wantType)
	}
	defaults, primaries := 0, 0
	for _, nc := range ncs {
		if nc.GetDefaultRoute() {
			defaults++
		}
		if nc.GetIfName() == "" || nc.GetIfName() == "eth0" {
			primaries++
		}
	}
	if defaults != 1 {
		c.Fatalf("%s reply names %d default-route interfaces, want exactly 1: %v", rpcName, defaults, ncs)
	}
	if primaries < 1 {
		c.Fatalf("%s reply does not include the primary interface: %v", rpcName, ncs)
	}
	for _, nc := range ncs {
		if nc.GetDefaultRoute() && rpcName == "AllocIP" {
			if nc.GetIfName() == "" || nc.GetIfName() == "eth0" {
				c.Label("default-on-primary")
			} else {
				c.Label("default-on-secondary")
			}
		}
	}

	// self-consistency of one reply: an address stands for one interface
	seenAddr := map[netip.Addr]string{}
	for _, nc := range ncs {
		for _, s := range []string{nc.GetBasicInfo().GetPodIP().GetIPv4(), nc.GetBasicInfo().GetPodIP().GetIPv6()} {
			if a, ok := c12ParseAddr(s); ok {
				if other, dup := seenAddr[a]; dup {
					c.Fatalf("%s reply carries address %s on two interfaces (%q and %q)", rpcName, a, other, nc.GetIfName())
				}
				seenAddr[a] = nc.GetIfName()
			}
		}
	}

	var wants []*c12Want
	switch {
	case w.podENI():
		if len(ncs) != len(w.Allocs) {
			c.Fatalf("PodENI has %d allocations, %s reply has %d configurations", len(w.Allocs), rpcName, len(ncs))
		}
		byName := map[string]*c12Alloc{}
		for i := range w.Allocs {
			byName[w.Allocs[i].IfName] = &w.Allocs[i]
		}
		for _, nc := range ncs {
			a := byName[nc.GetIfName()]
			if a == nil {
				c.Fatalf("reply configuration for interface %q matches no allocation", nc.GetIfName())
			}
			delete(byName, nc.GetIfName())
			wn := &c12Want{v4: a.V4, v6: a.V6, cidr4: a.CIDR4, cidr6: a.CIDR6, derived: true,
				trunk: w.Trunk >= 0, vid: a.Vid, routes: a.Routes, ifName: a.IfName}
			nDefault := 0
			for _, x := range w.Allocs {
				if x.Default {
					nDefault++
				}
			}
			if nDefault == 1 {
				d := a.Default
				wn.deflt = &d
			}
			wants = append(wants, wn)
		}
	case w.Kind == c12KCRD:
		if len(ncs) != 1 {
			c.Fatalf("one bound address pair, reply has %d configurations", len(ncs))
		}
		e := &w.ENIs[w.Bind[0]]
		rec4, rec6 := c12RecordedCIDRs(e)
		wn := &c12Want{cidr4: rec4, cidr6: rec6, derived: true}
		if w.v4() {
			wn.v4 = e.V4[w.Bind[1]]
		}
		if w.v6() {
			wn.v6 = e.V6[w.Bind[1]]
		}
		wants = append(wants, wn)
	default:
		if len(ncs) != 1 {
			c.Fatalf("one pool address pair, reply has %d configurations", len(ncs))
		}
		wants = append(wants, c12LocalWant(c, w, ncs[0]))
	}

	for i, nc := range ncs {
		wn := wants[i]
		what := fmt.Sprintf("%s NetConf[%d] if=%q", rpcName, i, nc.GetIfName())
		bi := nc.GetBasicInfo()
		if bi == nil || bi.GetPodIP() == nil {
			c.Fatalf("%s: no address information", what)
		}
		ip, cidr, gw := bi.GetPodIP(), bi.GetPodCIDR(), bi.GetGatewayIP()
		// a family whose subnet is unusable in the record may be left out of the reply; a
		// family the reply carries must come with subnet and gateway
		miss4 := ip.GetIPv4() == "" && wn.v4 != "" && !c12Usable(wn.cidr4)
		miss6 := ip.GetIPv6() == "" && wn.v6 != "" && !c12Usable(wn.cidr6)
		if ((ip.GetIPv4() != "") != (wn.v4 != "") && !miss4) || ((ip.GetIPv6() != "") != (wn.v6 != "") && !miss6) ||
			(ip.GetIPv4() == "" && ip.GetIPv6() == "") {
			c.Fatalf("%s: families of pod address %v differ from the allocation (v4=%q v6=%q)", what, ip, wn.v4, wn.v6)
		}
		if wn.v4 != "" && !miss4 {
			c12CheckFamily(c, what+" ipv4", ip.GetIPv4(), cidr.GetIPv4(), gw.GetIPv4(), wn, wn.v4, wn.cidr4, wn.gw4)
		}
		if wn.v6 != "" && !miss6 {
			c12CheckFamily(c, what+" ipv6", ip.GetIPv6(), cidr.GetIPv6(), gw.GetIPv6(), wn, wn.v6, wn.cidr6, wn.gw6)
		}
		if wn.deflt != nil && nc.GetDefaultRoute() != *wn.deflt {
			c.Fatalf("%s: default-route flag %v, the allocation says %v", what, nc.GetDefaultRoute(), *wn.deflt)
		}
		if w.podENI() {
			if nc.GetENIInfo().GetTrunk() != wn.trunk {
				c.Fatalf("%s: trunk flag %v, node trunking is %v", what, nc.GetENIInfo().GetTrunk(), wn.trunk)
			}
			if wn.trunk && int(nc.GetENIInfo().GetVid()) != wn.vid {
				c.Fatalf("%s: vlan id %d, the member ENI has %d", what, nc.GetENIInfo().GetVid(), wn.vid)
			}
			if wn.trunk {
				// a trunk member is reached through the trunk ENI: the configuration must
				// name that ENI's gateway for every family the pod has an address in — the
				// reserved gateway (third from last) of the trunk ENI's own subnet of THAT
				// family on the CRD path, the gateway instance metadata reports for the
				// trunk ENI on the legacy path
				te := &w.ENIs[w.Trunk]
				eg := nc.GetENIInfo().GetGatewayIP()
				for _, f := range []struct {
					fam, podIP, got, cidr, metaGW string
				}{
					{"ipv4", ip.GetIPv4(), eg.GetIPv4(), te.CIDR4, te.GW4},
					{"ipv6", ip.GetIPv6(), eg.GetIPv6(), te.CIDR6, te.GW6},
				} {
					if f.podIP == "" {
						continue
					}
					g, ok := c12ParseAddr(f.got)
					if !ok {
						c.Fatalf("%s %s: pod address %s but no gateway of the trunk ENI for that family (ENIInfo gateway %v)", what, f.fam, f.podIP, eg)
					}
					var want netip.Addr
					if w.Kind == c12KCRDPod {
						want = c12AddrAt(c12Prefix(c, f.cidr), -3)
					} else {
						want, _ = c12ParseAddr(f.metaGW)
					}
					if g != want {
						c.Fatalf("%s %s: trunk ENI gateway %s, the trunk ENI (subnet %s) has %s", what, f.fam, f.got, f.cidr, want)
					}
				}
			}
			var got []string
			for _, r := range nc.GetExtraRoutes() {
				got = append(got, r.GetDst())
			}
			if strings.Join(got, ",") != strings.Join(wn.routes, ",") {
				c.Fatalf("%s: extra routes %v, the allocation has %v", what, got, wn.routes)
			}
		} else if nc.GetENIInfo().GetTrunk() {
			c.Fatalf("%s: pool address reported as trunk member", what)
		}
		if nc.GetPod().GetIngress() != w.Pod.Ingress || nc.GetPod().GetEgress() != w.Pod.Egress ||
			nc.GetPod().GetNetworkPriority() != w.Pod.Prio {
			c.Fatalf("%s: pod limits %v, the pod asks ingress=%d egress=%d prio=%q", what, nc.GetPod(), w.Pod.Ingress, w.Pod.Egress, w.Pod.Prio)
		}
	}
}

// ---------------------------------------------------------------- oracle (B)

func c12CNIConf(c *vt.Ctx, s *c12CNI) *types.CNIConf {
	raw := map[string]any{
		"cniVersion": "0.4.0", "name": "terway", "type": "terway",
		"mtu": s.MTU, "vlan_strip_type": s.VlanStrip, "eniip_virtual_type": s.VirtualType,
		"bandwidth_mode": s.BandwidthMode, "host_stack_cidrs": s.HostStack,
		"disable_host_peer": s.NoHostPeer, "enable_network_priority": s.EnablePrio,
	}
	bw := map[string]any{}
	if s.RtIngress > 0 {
		bw["ingressRate"], bw["ingressBurst"] = s.RtIngress, 2147483647
	}
	if s.RtEgress > 0 {
		bw["egressRate"], bw["egressBurst"] = s.RtEgress, 2147483647
	}
	if len(bw) > 0 {
		raw["runtimeConfig"] = map[string]any{"bandwidth": bw}
	}
	b, _ := json.Marshal(raw)
	// the two steps getCmdArgs performs on stdin
	var conf types.CNIConf
	if err := json.Unmarshal(b, &conf); err != nil {
		c.Fatalf("harness: cni conf: %v", err)
	}
	if conf.MTU == 0 {
		conf.MTU = defaultMTU
	}
	return &conf
}

func c12CheckIPNet(c *vt.Ctx, what string, got *net.IPNet, ip, cidr string) {
	if ip == "" {
		if got != nil {
			c.Fatalf("%s: parser produced %v, the daemon sent no address of that family", what, got)
		}
		return
	}
	if got == nil {
		c.Fatalf("%s: parser dropped address %s (subnet %q) the daemon sent", what, ip, cidr)
	}
	if cidr == "" {
		c.Fatalf("%s: parser produced %v for address %s sent without a subnet", what, got, ip)
	}
	if !c12IPEq(got.IP, ip) {
		c.Fatalf("%s: parser address %s, the daemon sent %s", what, got.IP, ip)
	}
	p := netip.MustParsePrefix(cidr)
	ones, bits := got.Mask.Size()
	if ones != p.Bits() || bits != p.Addr().BitLen() {
		c.Fatalf("%s: parser prefix length /%d (of %d), the daemon sent %s", what, ones, bits, cidr)
	}
}

func c12CheckSubnet(c *vt.Ctx, what string, got *net.IPNet, cidr string) {
	if cidr == "" {
		if got != nil {
			c.Fatalf("%s: parser produced %v, none was sent", what, got)
		}
		return
	}
	p := netip.MustParsePrefix(cidr).Masked()
	if got == nil {
		c.Fatalf("%s: parser dropped %s", what, cidr)
	}
	ones, _ := got.Mask.Size()
	if !c12IPEq(got.IP, p.Addr().String()) || ones != p.Bits() {
		c.Fatalf("%s: parser produced %v, sent %s", what, got, cidr)
	}
}

// c12CheckParsed compares the plugin's SetupConfig with the NetConf it was parsed from.
func c12CheckParsed(c *vt.Ctx, what string, cfg *types.SetupConfig, nc *rpc.NetConf, conf *types.CNIConf, cs *c12CNI, ipType rpc.IPType, argsIf string) {
	bi := nc.GetBasicInfo()
	if cfg.ContainerIPNet == nil {
		c.Fatalf("%s: no container addresses", what)
	}
	c12CheckIPNet(c, what+" ipv4", cfg.ContainerIPNet.IPv4, bi.GetPodIP().GetIPv4(), bi.GetPodCIDR().GetIPv4())
	c12CheckIPNet(c, what+" ipv6", cfg.ContainerIPNet.IPv6, bi.GetPodIP().GetIPv6(), bi.GetPodCIDR().GetIPv6())
	if cfg.GatewayIP == nil {
		c.Fatalf("%s: no gateway", what)
	}
	if !c12IPEq(cfg.GatewayIP.IPv4, bi.GetGatewayIP().GetIPv4()) || !c12IPEq(cfg.GatewayIP.IPv6, bi.GetGatewayIP().GetIPv6()) {
		c.Fatalf("%s: parser gateway %v, the daemon sent %v", what, cfg.GatewayIP, bi.GetGatewayIP())
	}
	if cfg.ServiceCIDR == nil {
		c.Fatalf("%s: no service cidr", what)
	}
	c12CheckSubnet(c, what+" service cidr v4", cfg.ServiceCIDR.IPv4, bi.GetServiceCIDR().GetIPv4())
	c12CheckSubnet(c, what+" service cidr v6", cfg.ServiceCIDR.IPv6, bi.GetServiceCIDR().GetIPv6())

	// extra routes: destination as sent, next hop = the gateway of the route's family
	if len(cfg.ExtraRoutes) != len(nc.GetExtraRoutes()) {
		c.Fatalf("%s: %d extra routes parsed, %d sent", what, len(cfg.ExtraRoutes), len(nc.GetExtraRoutes()))
	}
	for i, r := range nc.GetExtraRoutes() {
		p := netip.MustParsePrefix(r.GetDst()).Masked()
		got := cfg.ExtraRoutes[i]
		ones, _ := got.Dst.Mask.Size()
		if !c12IPEq(got.Dst.IP, p.Addr().String()) || ones != p.Bits() {
			c.Fatalf("%s: extra route %d parsed as %s, sent %s", what, i, got.Dst.String(), r.GetDst())
		}
		wantGW := bi.GetGatewayIP().GetIPv4()
		if p.Addr().Is6() {
			wantGW = bi.GetGatewayIP().GetIPv6()
		}
		if !c12IPEq(got.GW, wantGW) {
			c.Fatalf("%s: extra route %s via %v, the gateway of that family is %q", what, r.GetDst(), got.GW, wantGW)
		}
	}

	// limits: the runtime's bandwidth (bits/s) overrides the annotation (bytes/s)
	wantIn, wantEg := nc.GetPod().GetIngress(), nc.GetPod().GetEgress()
	if cs.RtIngress > 0 {
		wantIn = uint64(cs.RtIngress / 8)
	}
	if cs.RtEgress > 0 {
		wantEg = uint64(cs.RtEgress / 8)
	}
	if cfg.Ingress != wantIn || cfg.Egress != wantEg {
		c.Fatalf("%s: limits ingress=%d egress=%d, want %d/%d (annotation %d/%d, runtime %d/%d bit/s)", what,
			cfg.Ingress, cfg.Egress, wantIn, wantEg, nc.GetPod().GetIngress(), nc.GetPod().GetEgress(), cs.RtIngress, cs.RtEgress)
	}
	if nc.GetPod() != nil {
		if p, ok := c12RefPrio(nc.GetPod().GetNetworkPriority()); ok && cfg.NetworkPriority != p {
			c.Fatalf("%s: priority class %#x for %q, want %#x", what, cfg.NetworkPriority, nc.GetPod().GetNetworkPriority(), p)
		}
	}

	if cfg.Vid != int(nc.GetENIInfo().GetVid()) {
		c.Fatalf("%s: vlan id %d, sent %d", what, cfg.Vid, nc.GetENIInfo().GetVid())
	}
	if cfg.StripVlan != nc.GetENIInfo().GetTrunk() {
		c.Fatalf("%s: StripVlan %v, trunk sent %v", what, cfg.StripVlan, nc.GetENIInfo().GetTrunk())
	}
	if cfg.ERDMA != nc.GetENIInfo().GetERDMA() {
		c.Fatalf("%s: ERDMA %v, sent %v", what, cfg.ERDMA, nc.GetENIInfo().GetERDMA())
	}
	if g := nc.GetENIInfo().GetGatewayIP(); g != nil {
		if cfg.ENIGatewayIP == nil || !c12IPEq(cfg.ENIGatewayIP.IPv4, g.GetIPv4()) || !c12IPEq(cfg.ENIGatewayIP.IPv6, g.GetIPv6()) {
			c.Fatalf("%s: ENI gateway %v, sent %v", what, cfg.ENIGatewayIP, g)
		}
	} else if cfg.ENIGatewayIP != nil {
		c.Fatalf("%s: ENI gateway %v, none sent", what, cfg.ENIGatewayIP)
	}
	if cfg.DefaultRoute != nc.GetDefaultRoute() {
		c.Fatalf("%s: default-route flag %v, sent %v", what, cfg.DefaultRoute, nc.GetDefaultRoute())
	}
	if want := c12WantIndex(nc.GetENIInfo().GetMAC()); cfg.ENIIndex != want {
		c.Fatalf("%s: ENI index %d for MAC %q, the device has index %d", what, cfg.ENIIndex, nc.GetENIInfo().GetMAC(), want)
	}
	if nc.GetENIInfo().GetMAC() != "" {
		c.Label("eni-index-from-mac")
	}
	wantName := nc.GetIfName()
	if wantName == "" {
		wantName = argsIf
	}
	if cfg.ContainerIfName != wantName {
		c.Fatalf("%s: interface name %q, want %q", what, cfg.ContainerIfName, wantName)
	}
	if cfg.MTU != conf.MTU {
		c.Fatalf("%s: mtu %d, conf %d", what, cfg.MTU, conf.MTU)
	}
	if want := c12RefDP(ipType, nc.GetENIInfo().GetTrunk(), cs.VlanStrip); cfg.DP != want {
		c.Fatalf("%s: datapath %d for (ipType=%s trunk=%v vlan=%q), the table says %d", what, cfg.DP, ipType,
			nc.GetENIInfo().GetTrunk(), cs.VlanStrip, want)
	}
}

// c12CheckDelCheck feeds one NetConf of a GetIPInfo reply (what CNI DEL and CNI CHECK
// receive) to the real parseTearDownConf and parseCheckConf and compares with what the
// daemon sent and with what parseSetupConf made of the same configuration at ADD time.
//
// Parsing (c12ParseDelCheck) and judging (c12CheckDelCheck) are separate steps: the
// plugin parses every interface of a reply before it uses any of the results, so the
// assertions must look at the results after ALL interfaces have been parsed.
type c12DelCheck struct {
	td *types.TeardownCfg
	ck *types.CheckConfig
}

func c12ParseDelCheck(c *vt.Ctx, what string, nc *rpc.NetConf, conf *types.CNIConf, ipType rpc.IPType, args *skel.CmdArgs) c12DelCheck {
	td, err := parseTearDownConf(nc, conf, ipType)
	if err != nil {
		c.Fatalf("%s: DEL parser rejects %v: %v", what, nc, err)
	}
	ck, err := parseCheckConf(args, nc, conf, ipType)
	if err != nil {
		c.Fatalf("%s: CHECK parser rejects %v: %v", what, nc, err)
	}
	return c12DelCheck{td: td, ck: ck}
}

func c12CheckDelCheck(c *vt.Ctx, what string, nc *rpc.NetConf, parsed c12DelCheck, setup *types.SetupConfig, conf *types.CNIConf, cs *c12CNI,
	ipType rpc.IPType) {
	bi := nc.GetBasicInfo()
	trunk := nc.GetENIInfo().GetTrunk()
	wantDP := c12RefDP(ipType, trunk, cs.VlanStrip)
	wantIdx := c12WantIndex(nc.GetENIInfo().GetMAC())
	td, ck := parsed.td, parsed.ck
	// Teardown does not distinguish trunk members: parseTearDownConf evaluates the table
	// without trunking (a literal `false`, on purpose — doCmdDel only has teardown branches
	// for the ipvlan and policy-route datapaths, everything else is removed by
	// GenericTearDown, and for trunk members the policy-route teardown is the cleanup that
	// exists). That is still a mapping determined by IP type, trunking and VLAN mode, which
	// is all the statement demands; it does not demand DEL == ADD. So DEL is judged against
	// T(ipType, trunk=false, vlanMode).
	wantDelDP := c12RefDP(ipType, false, cs.VlanStrip)
	if td.DP != wantDelDP {
		c.Fatalf("%s: DEL maps the configuration to datapath %d, the table without trunking says %d for (ipType=%s vlan=%q)",
			what, td.DP, wantDelDP, ipType, cs.VlanStrip)
	}
	if trunk && wantDelDP != wantDP {
		c.Label("del-datapath-differs-from-add(trunk)")
	}
	if td.ContainerIPNet == nil {
		c.Fatalf("%s: DEL parser lost the container addresses", what)
	}
	c12CheckIPNet(c, what+" DEL ipv4", td.ContainerIPNet.IPv4, bi.GetPodIP().GetIPv4(), bi.GetPodCIDR().GetIPv4())
	c12CheckIPNet(c, what+" DEL ipv6", td.ContainerIPNet.IPv6, bi.GetPodIP().GetIPv6(), bi.GetPodCIDR().GetIPv6())
	if td.ServiceCIDR == nil {
		c.Fatalf("%s: DEL parser lost the service cidr", what)
	}
	c12CheckSubnet(c, what+" DEL service cidr v4", td.ServiceCIDR.IPv4, bi.GetServiceCIDR().GetIPv4())
	c12CheckSubnet(c, what+" DEL service cidr v6", td.ServiceCIDR.IPv6, bi.GetServiceCIDR().GetIPv6())
	if td.ENIIndex != wantIdx || td.ENIIndex != setup.ENIIndex {
		c.Fatalf("%s: DEL ENI index %d, ADD recovered %d, the device of MAC %q has %d", what, td.ENIIndex, setup.ENIIndex, nc.GetENIInfo().GetMAC(), wantIdx)
	}
	if td.EnableNetworkPriority != conf.EnableNetworkPriority {
		c.Fatalf("%s: DEL network-priority switch %v, conf %v", what, td.EnableNetworkPriority, conf.EnableNetworkPriority)
	}

	if ck.DP != wantDP || ck.DP != setup.DP {
		c.Fatalf("%s: CHECK maps the configuration to datapath %d, ADD chose %d and the table says %d for (ipType=%s trunk=%v vlan=%q)",
			what, ck.DP, setup.DP, wantDP, ipType, trunk, cs.VlanStrip)
	}
	if ck.ContainerIPNet == nil {
		c.Fatalf("%s: CHECK parser lost the container addresses", what)
	}
	c12CheckIPNet(c, what+" CHECK ipv4", ck.ContainerIPNet.IPv4, bi.GetPodIP().GetIPv4(), bi.GetPodCIDR().GetIPv4())
	c12CheckIPNet(c, what+" CHECK ipv6", ck.ContainerIPNet.IPv6, bi.GetPodIP().GetIPv6(), bi.GetPodCIDR().GetIPv6())
	if ck.GatewayIP == nil || !c12IPEq(ck.GatewayIP.IPv4, bi.GetGatewayIP().GetIPv4()) || !c12IPEq(ck.GatewayIP.IPv6, bi.GetGatewayIP().GetIPv6()) {
		c.Fatalf("%s: CHECK gateway %v, the daemon sent %v", what, ck.GatewayIP, bi.GetGatewayIP())
	}
	if ck.ContainerIfName != setup.ContainerIfName {
		c.Fatalf("%s: CHECK interface name %q, ADD used %q", what, ck.ContainerIfName, setup.ContainerIfName)
	}
	if int(ck.ENIIndex) != wantIdx || int(ck.ENIIndex) != setup.ENIIndex {
		c.Fatalf("%s: CHECK ENI index %d, ADD recovered %d, the device of MAC %q has %d", what, ck.ENIIndex, setup.ENIIndex, nc.GetENIInfo().GetMAC(), wantIdx)
	}
	if ck.TrunkENI != trunk {
		c.Fatalf("%s: CHECK trunk flag %v, sent %v", what, ck.TrunkENI, trunk)
	}
	if ck.DefaultRoute != nc.GetDefaultRoute() || ck.DefaultRoute != setup.DefaultRoute {
		c.Fatalf("%s: CHECK default-route flag %v, sent %v", what, ck.DefaultRoute, nc.GetDefaultRoute())
	}
	if ck.MTU != conf.MTU {
		c.Fatalf("%s: CHECK mtu %d, conf %d", what, ck.MTU, conf.MTU)
	}
}

func c12Args(w *c12CNI) *skel.CmdArgs {
	return &skel.CmdArgs{ContainerID: "sandbox-1", Netns: "/proc/self/ns/net", IfName: w.IfName}
}

// ---------------------------------------------------------------- the world property

func c12RunWorld(c *vt.Ctx, w c12World) {
	c.Label("kind:" + w.Kind)
	c.Label("stack:" + w.Stack)
	live := c12Build(c, &w)
	defer live.stop(c)

	nDefault, nPrimary := 0, 0
	for _, a := range w.Allocs {
		if a.Default {
			nDefault++
		}
		if a.IfName == "" || a.IfName == "eth0" {
			nPrimary++
		}
	}
	malformed := w.podENI() && (nDefault > 1 || nPrimary == 0)
	incomplete := false
	for i := range w.Allocs {
		incomplete = incomplete || w.Allocs[i].incomplete()
	}
	if incomplete {
		c.Label("podeni-incomplete-record")
	}
	if w.Kind == c12KCRD {
		rec4, rec6 := c12RecordedCIDRs(&w.ENIs[w.Bind[0]])
		if (w.v4() && !c12Usable(rec4)) || (w.v6() && !c12Usable(rec6)) {
			incomplete = true
			c.Label("crd-incomplete-eni-record:" + w.ENIs[w.Bind[0]].BadCR)
		}
		for i := range w.ENIs {
			if i != w.Bind[0] && w.ENIs[i].BadCR != "" {
				c.Label("crd-incomplete-record-on-other-eni")
			}
		}
	}
	if w.podENI() {
		seen := map[string]bool{}
		for _, a := range w.Allocs {
			if a.CIDR4 != "" && seen[a.CIDR4] {
				c.Label("podeni-shared-vswitch")
			}
			if w.v6() && a.V6 == "" {
				c.Label("podeni-mixed-families")
			}
			seen[a.CIDR4] = true
		}
		c.Labelf("podeni-defaults:%d", min(nDefault, 2))
		if nPrimary == 0 {
			c.Label("podeni-no-primary")
		}
		if w.Trunk >= 0 {
			c.Label("podeni-trunk")
		}
	}
	if len(w.Allocs) >= 2 || w.Stack == "dual" || w.CNI.RtIngress > 0 || w.CNI.RtEgress > 0 {
		c.NonTrivial()
	}
	if w.CNI.RtIngress > 0 || w.CNI.RtEgress > 0 {
		c.Label("runtime-bandwidth")
	}

	conf := c12CNIConf(c, &w.CNI)
	args := c12Args(&w.CNI)
	rounds := 1
	nStale, staleENIs := 0, 0
	for i := range w.ENIs {
		k := 0
		for _, st := range w.ENIs[i].Stale {
			if st {
				k++
			}
		}
		nStale += k
		if k > 0 && i != w.Bind[0] {
			staleENIs++
		}
	}
	if w.Kind == c12KCRD && nStale > 0 {
		// the daemon ranges over maps of ENIs and of address records: repeat the request
		// so that several iteration orders are seen in one world
		rounds = 6
		c.Labelf("crd-stale-records:%d", min(nStale, 3))
		if staleENIs > 0 {
			c.Label("crd-stale-on-other-eni")
		}
		c.NonTrivial()
	} else if w.Repeat {
		rounds = 2
		c.Label("repeated-add")
	}
	var first *rpc.AllocIPReply
	for round := 0; round < rounds; round++ {
		ctx, cancel := context.WithTimeout(context.Background(), 20*time.Second)
		reply, err := live.svc.AllocIP(ctx, &rpc.AllocIPRequest{
			Netns: args.Netns, K8SPodName: w.Pod.Name, K8SPodNamespace: w.Pod.NS,
			K8SPodInfraContainerId: args.ContainerID, IfName: args.IfName,
		})
		timedOut := ctx.Err() != nil
		cancel()
		c.Trace("round %d: AllocIP -> %v err=%v", round, reply, err)
		for _, f := range live.factories {
			if f.other > 0 {
				c.Inconclusive("pool went to the cloud although a cached address was free")
			}
		}
		if err != nil {
			if timedOut {
				c.Inconclusive("AllocIP deadline")
			}
			if malformed {
				c.Label("refused-malformed")
				return
			}
			if incomplete {
				c.Label("refused-incomplete")
				return
			}
			c.Fatalf("AllocIP failed on a well-formed allocation: %v", err)
		}
		if incomplete && len(reply.GetNetConfs()) == 0 {
			// no configuration is handed out for an incomplete record (the plugin then
			// fails the ADD with "eth0 config is missing" and rolls back)
			c.Label("no-configuration-for-incomplete")
			return
		}
		if malformed {
			// a success is acceptable only if the reply is repaired; the checks below decide
			c.Label("accepted-malformed")
		}
		c12CheckReply(c, &w, "AllocIP", reply)
		c.Labelf("netconfs:%d", min(len(reply.NetConfs), 4))

		// what the daemon answers for the same pod and sandbox from now on (CNI CHECK and
		// DEL ask GetIPInfo): a configuration returned for the pod like the ADD reply, so
		// the same oracle applies, and it must be the configuration the ADD answered
		gctx, gcancel := context.WithTimeout(context.Background(), 20*time.Second)
		info, gerr := live.svc.GetIPInfo(gctx, &rpc.GetInfoRequest{
			K8SPodName: w.Pod.Name, K8SPodNamespace: w.Pod.NS, K8SPodInfraContainerId: args.ContainerID,
		})
		gTimedOut := gctx.Err() != nil
		gcancel()
		c.Trace("round %d: GetIPInfo -> %v err=%v", round, info, gerr)
		if gerr != nil {
			if gTimedOut {
				c.Inconclusive("GetIPInfo deadline")
			}
			c.Fatalf("GetIPInfo failed right after a successful ADD of the same sandbox: %v", gerr)
		}
		c12CheckReply(c, &w, "GetIPInfo", info)
		if len(info.GetNetConfs()) != len(reply.GetNetConfs()) {
			c.Fatalf("GetIPInfo returns %d configurations, the ADD answered %d", len(info.GetNetConfs()), len(reply.GetNetConfs()))
		}
		for i := range reply.GetNetConfs() {
			if !proto.Equal(info.GetNetConfs()[i], reply.GetNetConfs()[i]) {
				c.Fatalf("GetIPInfo NetConf[%d] = %v, the ADD answered %v", i, info.GetNetConfs()[i], reply.GetNetConfs()[i])
			}
		}

		// the wire
		b, err := proto.Marshal(reply)
		if err != nil {
			c.Fatalf("marshal reply: %v", err)
		}
		wire := &rpc.AllocIPReply{}
		if err := proto.Unmarshal(b, wire); err != nil {
			c.Fatalf("unmarshal reply: %v", err)
		}
		// as doCmdAdd: every interface of the reply is parsed first, the configurations
		// are used afterwards — so they are judged after the whole reply has been parsed
		var setups []*types.SetupConfig
		for i, nc := range wire.GetNetConfs() {
			cfg, err := parseSetupConf(args, nc, conf, wire.GetIPType())
			if err != nil {
				c.Fatalf("plugin rejects NetConf[%d] %v of a successful reply: %v", i, nc, err)
			}
			setups = append(setups, cfg)
		}
		for i, nc := range wire.GetNetConfs() {
			c12CheckParsed(c, fmt.Sprintf("plugin NetConf[%d] if=%q", i, nc.GetIfName()), setups[i], nc, conf, &w.CNI, wire.GetIPType(), args.IfName)
			c.Labelf("dp:%d", setups[i].DP)
		}
		// CNI DEL and CHECK parse the GetIPInfo reply (equal to the ADD reply, checked above)
		b, err = proto.Marshal(info)
		if err != nil {
			c.Fatalf("marshal GetIPInfo reply: %v", err)
		}
		infoWire := &rpc.GetInfoReply{}
		if err := proto.Unmarshal(b, infoWire); err != nil {
			c.Fatalf("unmarshal GetIPInfo reply: %v", err)
		}
		var dcs []c12DelCheck
		for i, nc := range infoWire.GetNetConfs() {
			dcs = append(dcs, c12ParseDelCheck(c, fmt.Sprintf("plugin GetIPInfo NetConf[%d] if=%q", i, nc.GetIfName()), nc, conf, infoWire.GetIPType(), args))
		}
		for i, nc := range infoWire.GetNetConfs() {
			c12CheckDelCheck(c, fmt.Sprintf("plugin GetIPInfo NetConf[%d] if=%q", i, nc.GetIfName()), nc, dcs[i], setups[i], conf, &w.CNI,
				infoWire.GetIPType())
		}
		if round == 0 {
			first = reply
		} else if w.podENI() || w.Kind == c12KCRD {
			if !proto.Equal(first, reply) {
				c.Fatalf("repeated ADD changed the configuration: %v then %v", first, reply)
			}
		}
	}
}

func TestVerifC12World(t *testing.T) { vt.Run(t, c12GenWorld, c12RunWorld) }

// ---------------------------------------------------------------- pool history (legacy shared-ENI pool)
//
// One ADD per world never recycles an ENI slot. Here a legacy pool of empty slots
// (eni.NewLocal(nil, ...), as daemon/builder.go creates them) lives through a generated
// history of ADD / DEL / balancer passes over a small cloud whose new ENIs land in
// different vSwitches; every successful ADD reply is put under the address clause:
// each address inside the reported subnet, the subnet is the vSwitch of the ENI that
// owns the IPv4 address, the gateway is that ENI's.

type c12HVsw struct {
	CIDR4 string `json:"cidr4"`
	CIDR6 string `json:"cidr6,omitempty"`
	GW4   string `json:"gw4"`
	GW6   string `json:"gw6,omitempty"`
}

type c12HOp struct {
	K   string `json:"k"` // add | del | shrink
	Pod int    `json:"pod,omitempty"`
}

type c12Hist struct {
	Stack  string    `json:"stack"` // ipv4 | dual
	Vsw    []c12HVsw `json:"vsw"`
	VswSeq []int     `json:"vsw_seq"` // vSwitch of the n-th ENI the cloud creates
	Slots  int       `json:"slots"`
	Cap    int       `json:"cap"`   // addresses per ENI
	Batch  int       `json:"batch"` // pool batch size
	Ops    []c12HOp  `json:"ops"`
	CNI    c12CNI    `json:"cni"`
}

func c12GenHist(t *rapid.T) c12Hist {
	h := c12Hist{Stack: rapid.SampledFrom([]string{"dual", "dual", "dual", "ipv4"}).Draw(t, "stack")}
	nv := rapid.IntRange(2, 3).Draw(t, "nvsw")
	for i := 0; i < nv; i++ {
		var b [4]byte
		b[0], b[1], b[2] = c12Lead4[i], rapid.Byte().Draw(t, "b"), rapid.Byte().Draw(t, "b")
		p4 := netip.PrefixFrom(netip.AddrFrom4(b), rapid.IntRange(16, 25).Draw(t, "prefix4")).Masked()
		v := c12HVsw{CIDR4: p4.String(), GW4: c12AddrAt(p4, -3).String()}
		if h.Stack == "dual" {
			p6 := c12GenSubnet(t, true)
			a := p6.Addr().As16()
			a[1] = byte(i)
			p6 = netip.PrefixFrom(netip.AddrFrom16(a), 64).Masked()
			v.CIDR6, v.GW6 = p6.String(), c12AddrAt(p6, -3).String()
		}
		h.Vsw = append(h.Vsw, v)
	}
	h.VswSeq = rapid.SliceOfN(rapid.IntRange(0, nv-1), 4, 4).Draw(t, "vsw_seq")
	h.Slots = rapid.IntRange(1, 2).Draw(t, "slots")
	h.Cap = rapid.IntRange(1, 3).Draw(t, "cap")
	h.Batch = rapid.IntRange(1, 2).Draw(t, "batch")
	op := rapid.Custom(func(t *rapid.T) c12HOp {
		k := rapid.SampledFrom([]string{"add", "add", "add", "del", "del", "shrink", "shrink"}).Draw(t, "k")
		o := c12HOp{K: k}
		if k != "shrink" {
			o.Pod = rapid.IntRange(0, 2).Draw(t, "pod")
		}
		return o
	})
	// chunks: single operations, or "pod comes and goes, balancer gives the ENI back" —
	// the sequence after which a slot is recycled by the next ADD
	chunk := rapid.Custom(func(t *rapid.T) []c12HOp {
		if rapid.IntRange(0, 3).Draw(t, "cycle") == 3 {
			p := rapid.IntRange(0, 2).Draw(t, "pod")
			return []c12HOp{{K: "add", Pod: p}, {K: "del", Pod: p}, {K: "shrink"}}
		}
		return []c12HOp{op.Draw(t, "op")}
	})
	for _, ch := range rapid.SliceOfN(chunk, 2, vt.Scale(8, 12)).Draw(t, "chunks") {
		h.Ops = append(h.Ops, ch...)
	}
	h.CNI = c12GenCNI(t)
	return h
}

type c12CloudENI struct {
	id     string
	vsw    int
	v4, v6 map[netip.Addr]bool
}

// c12Cloud is the factory of the history worlds: it keeps the ground truth of which
// address is assigned to which live ENI. Addresses are never reused.
type c12Cloud struct {
	mu      sync.Mutex
	h       *c12Hist
	enis    map[string]*c12CloudENI
	created int
	next4   []int64
	next6   []int64
	deleted int
}

func (cl *c12Cloud) addr(vsw int, v6 bool) netip.Addr {
	if v6 {
		cl.next6[vsw]++
		return c12AddrAt(netip.MustParsePrefix(cl.h.Vsw[vsw].CIDR6), cl.next6[vsw])
	}
	cl.next4[vsw]++
	return c12AddrAt(netip.MustParsePrefix(cl.h.Vsw[vsw].CIDR4), cl.next4[vsw])
}

func (cl *c12Cloud) CreateNetworkInterface(ipv4, ipv6 int, eniType string) (*daemon.ENI, []netip.Addr, []netip.Addr, error) {
	cl.mu.Lock()
	defer cl.mu.Unlock()
	vsw := cl.h.VswSeq[cl.created%len(cl.h.VswSeq)]
	cl.created++
	e := &c12CloudENI{id: fmt.Sprintf("eni-%d", cl.created), vsw: vsw, v4: map[netip.Addr]bool{}, v6: map[netip.Addr]bool{}}
	cl.enis[e.id] = e
	var v4s, v6s []netip.Addr
	for i := 0; i < max(ipv4, 1); i++ {
		a := cl.addr(vsw, false)
		e.v4[a] = true
		v4s = append(v4s, a)
	}
	for i := 0; i < ipv6; i++ {
		a := cl.addr(vsw, true)
		e.v6[a] = true
		v6s = append(v6s, a)
	}
	v := cl.h.Vsw[vsw]
	d := &daemon.ENI{ID: e.id, VSwitchID: fmt.Sprintf("vsw-%d", vsw)}
	d.PrimaryIP.IPv4 = net.ParseIP(v4s[0].String())
	d.GatewayIP.IPv4 = net.ParseIP(v.GW4)
	_, d.VSwitchCIDR.IPv4, _ = net.ParseCIDR(v.CIDR4)
	if cl.h.Stack == "dual" {
		d.GatewayIP.IPv6 = net.ParseIP(v.GW6)
		_, d.VSwitchCIDR.IPv6, _ = net.ParseCIDR(v.CIDR6)
	}
	return d, v4s, v6s, nil
}

func (cl *c12Cloud) assign(eniID string, count int, v6 bool) ([]netip.Addr, error) {
	cl.mu.Lock()
	defer cl.mu.Unlock()
	e := cl.enis[eniID]
	if e == nil {
		return nil, fmt.Errorf("InvalidEniId.NotFound %s", eniID)
	}
	var out []netip.Addr
	for i := 0; i < count; i++ {
		a := cl.addr(e.vsw, v6)
		if v6 {
			e.v6[a] = true
		} else {
			e.v4[a] = true
		}
		out = append(out, a)
	}
	return out, nil
}
func (cl *c12Cloud) AssignNIPv4(eniID string, count int, mac string) ([]netip.Addr, error) {
	return cl.assign(eniID, count, false)
}
func (cl *c12Cloud) AssignNIPv6(eniID string, count int, mac string) ([]netip.Addr, error) {
	return cl.assign(eniID, count, true)
}
func (cl *c12Cloud) unassign(eniID string, ips []netip.Addr) error {
	cl.mu.Lock()
	defer cl.mu.Unlock()
	if e := cl.enis[eniID]; e != nil {
		for _, a := range ips {
			delete(e.v4, a)
			delete(e.v6, a)
		}
	}
	return nil
}
func (cl *c12Cloud) UnAssignNIPv4(eniID string, ips []netip.Addr, mac string) error {
	return cl.unassign(eniID, ips)
}
func (cl *c12Cloud) UnAssignNIPv6(eniID string, ips []netip.Addr, mac string) error {
	return cl.unassign(eniID, ips)
}
func (cl *c12Cloud) DeleteNetworkInterface(eniID string) error {
	cl.mu.Lock()
	defer cl.mu.Unlock()
	if _, ok := cl.enis[eniID]; ok {
		delete(cl.enis, eniID)
		cl.deleted++
	}
	return nil
}
func (cl *c12Cloud) LoadNetworkInterface(mac string) ([]netip.Addr, []netip.Addr, error) {
	return nil, nil, fmt.Errorf("c12: not used, the slots start empty")
}
func (cl *c12Cloud) GetAttachedNetworkInterface(preferTrunkID string) ([]*daemon.ENI, error) {
	return nil, nil
}

// owner returns the live ENI an IPv4 address is assigned to.
func (cl *c12Cloud) owner(a netip.Addr) *c12CloudENI {
	cl.mu.Lock()
	defer cl.mu.Unlock()
	for _, e := range cl.enis {
		if e.v4[a] {
			return e
		}
	}
	return nil
}

func c12RunHist(c *vt.Ctx, h c12Hist) {
	c.Label("stack:" + h.Stack)
	dual := h.Stack == "dual"
	ctx, cancel := context.WithCancel(context.Background())
	wg := &sync.WaitGroup{}
	cloud := &c12Cloud{h: &h, enis: map[string]*c12CloudENI{}, next4: make([]int64, len(h.Vsw)), next6: make([]int64, len(h.Vsw))}
	pc := &daemon.PoolConfig{EnableIPv4: true, EnableIPv6: dual, MaxIPPerENI: h.Cap, BatchSize: h.Batch,
		Capacity: h.Slots * h.Cap, MaxENI: h.Slots}
	var locals []*eni.Local
	var nis []eni.NetworkInterface
	for i := 0; i < h.Slots; i++ {
		lo := eni.NewLocal(nil, "secondary", cloud, pc)
		if err := lo.Run(ctx, nil, wg); err != nil {
			cancel()
			c.Fatalf("harness: start slot: %v", err)
		}
		locals = append(locals, lo)
		nis = append(nis, lo)
	}
	defer func() {
		cancel()
		c12StopPools(c, locals, wg)
	}()

	k := &c12K8s{pods: map[string]*daemon.PodInfo{}, cl: fake.NewClientBuilder().WithScheme(terwayTypes.Scheme).Build()}
	k.svc = &terwayTypes.IPNetSet{IPv4: c12ParseIPNet(c, "172.16.0.0/16")}
	if dual {
		k.svc.IPv6 = c12ParseIPNet(c, "fd5c::/112")
	}
	for i := 0; i < 3; i++ {
		name := fmt.Sprintf("p%d", i)
		k.pods["default/"+name] = &daemon.PodInfo{Name: name, Namespace: "default", PodUID: "uid-" + name,
			PodNetworkType: daemon.PodNetworkTypeENIMultiIP}
	}
	// the balancer keeps no idle address: every pass gives back what is not in use
	mgr := eni.NewManager(0, 0, h.Slots*h.Cap, 0, nis, daemon.EniSelectionPolicyMostIPs, k)
	svc := terwaydaemon.C12NewService(terwaydaemon.C12Options{
		DaemonMode: daemon.ModeENIMultiIP, EnableIPv4: true, EnableIPv6: dual, K8s: k, DB: storage.NewMemoryStorage(), Mgr: mgr,
	})
	conf := c12CNIConf(c, &h.CNI)
	args := c12Args(&h.CNI)

	settle := func() {
		deadline := time.Now().Add(10 * time.Second)
		for {
			busy := false
			for _, lo := range locals {
				eni.VerifWake(lo)
				if in := eni.VerifInspect(lo); in.Status == "Deleting" || in.Deleting > 0 {
					busy = true
				}
			}
			if !busy {
				return
			}
			if time.Now().After(deadline) {
				c.Inconclusive("pool did not settle after a balancer pass")
			}
			time.Sleep(time.Millisecond)
		}
	}

	added := map[int]bool{}
	adds, recycled := 0, false
	for i, op := range h.Ops {
		name := fmt.Sprintf("p%d", op.Pod)
		switch op.K {
		case "add":
			actx, acancel := context.WithTimeout(context.Background(), 10*time.Second)
			reply, err := svc.AllocIP(actx, &rpc.AllocIPRequest{Netns: args.Netns, K8SPodName: name, K8SPodNamespace: "default",
				K8SPodInfraContainerId: "sandbox-" + name, IfName: args.IfName})
			timedOut := actx.Err() != nil
			acancel()
			c.Trace("op %d add %s -> %v err=%v", i, name, reply, err)
			if err != nil {
				if timedOut {
					c.Inconclusive("AllocIP deadline")
				}
				// a full pool refuses; capacity is another property's business
				c.Label("add-refused")
				continue
			}
			added[op.Pod] = true
			adds++
			if cloud.deleted > 0 {
				recycled = true
			}
			ncs := reply.GetNetConfs()
			if len(ncs) != 1 {
				c.Fatalf("op %d: pool ADD answered %d configurations", i, len(ncs))
			}
			nc := ncs[0]
			what := fmt.Sprintf("op %d add %s", i, name)
			ip, cidr, gw := nc.GetBasicInfo().GetPodIP(), nc.GetBasicInfo().GetPodCIDR(), nc.GetBasicInfo().GetGatewayIP()
			if ip.GetIPv4() == "" || (ip.GetIPv6() != "") != dual {
				c.Fatalf("%s: families of pod address %v differ from the pool's (%s)", what, ip, h.Stack)
			}
			a4, _ := c12ParseAddr(ip.GetIPv4())
			own := cloud.owner(a4)
			if own == nil {
				// handing out an address the cloud does not know is not the address clause
				// of C12; without an owner there is no ground truth for the subnet
				c.Label("ipv4-without-live-eni")
				continue
			}
			v := h.Vsw[own.vsw]
			wn := &c12Want{}
			c12CheckFamily(c, what+" ipv4", ip.GetIPv4(), cidr.GetIPv4(), gw.GetIPv4(), wn, ip.GetIPv4(), v.CIDR4, v.GW4)
			if dual {
				c12CheckFamily(c, what+" ipv6", ip.GetIPv6(), cidr.GetIPv6(), gw.GetIPv6(), wn, ip.GetIPv6(), v.CIDR6, v.GW6)
				a6, _ := c12ParseAddr(ip.GetIPv6())
				if !own.v6[a6] {
					c.Label("ipv6-not-on-the-ipv4-eni")
				}
			}
			if nc.GetDefaultRoute() != true || (nc.GetIfName() != "" && nc.GetIfName() != "eth0") {
				c.Fatalf("%s: pool configuration is not the primary default-route interface: %v", what, nc)
			}
			b, err := proto.Marshal(nc)
			if err != nil {
				c.Fatalf("marshal: %v", err)
			}
			wire := &rpc.NetConf{}
			if err := proto.Unmarshal(b, wire); err != nil {
				c.Fatalf("unmarshal: %v", err)
			}
			cfg, err := parseSetupConf(args, wire, conf, reply.GetIPType())
			if err != nil {
				c.Fatalf("%s: plugin rejects %v: %v", what, wire, err)
			}
			c12CheckParsed(c, what+" plugin", cfg, wire, conf, &h.CNI, reply.GetIPType(), args.IfName)
		case "del":
			if !added[op.Pod] {
				continue
			}
			dctx, dcancel := context.WithTimeout(context.Background(), 10*time.Second)
			_, err := svc.ReleaseIP(dctx, &rpc.ReleaseIPRequest{K8SPodName: name, K8SPodNamespace: "default",
				K8SPodInfraContainerId: "sandbox-" + name})
			dcancel()
			c.Trace("op %d del %s err=%v", i, name, err)
			if err == nil {
				delete(added, op.Pod)
			}
		case "shrink":
			sctx, scancel := context.WithTimeout(context.Background(), 10*time.Second)
			eni.VerifSyncPool(sctx, mgr)
			scancel()
			settle()
			c.Trace("op %d shrink: cloud has %d ENIs, %d deleted so far", i, len(cloud.enis), cloud.deleted)
		}
	}
	c.Labelf("adds:%d", min(adds, 4))
	if recycled {
		c.Label("add-after-eni-disposed")
		c.NonTrivial()
	}
	if dual {
		c.NonTrivial()
	}
}

func TestVerifC12PoolHistory(t *testing.T) { vt.Run(t, c12GenHist, c12RunHist) }

// ---------------------------------------------------------------- parser on generated NetConfs

type c12NC struct {
	IfName    string   `json:"if"`
	V4        string   `json:"v4,omitempty"`
	V6        string   `json:"v6,omitempty"`
	CIDR4     string   `json:"cidr4,omitempty"`
	CIDR6     string   `json:"cidr6,omitempty"`
	GW4       string   `json:"gw4,omitempty"`
	GW6       string   `json:"gw6,omitempty"`
	Svc4      string   `json:"svc4,omitempty"`
	Svc6      string   `json:"svc6,omitempty"`
	HasENI    bool     `json:"has_eni"`
	MAC       string   `json:"mac"`
	Trunk     bool     `json:"trunk"`
	Vid       uint32   `json:"vid"`
	ERDMA     bool     `json:"erdma"`
	ENIGW4    string   `json:"enigw4,omitempty"`
	ENIGW6    string   `json:"enigw6,omitempty"`
	HasENIGW  bool     `json:"has_enigw"`
	HasPod    bool     `json:"has_pod"`
	Ingress   uint64   `json:"ingress"`
	Egress    uint64   `json:"egress"`
	Prio      string   `json:"prio"`
	Routes    []string `json:"routes,omitempty"`
	Default   bool     `json:"default"`
	ArgIfName string   `json:"arg_ifname"`
}

type c12ParseScenario struct {
	IPType int32  `json:"ip_type"`
	Trunk  bool   `json:"trunk"`
	Vlan   string `json:"vlan"`
	A      c12NC  `json:"a"`
	ACNI   c12CNI `json:"a_cni"`
	B      c12NC  `json:"b"` // everything else varied, (IPType, Trunk, Vlan) kept
	BCNI   c12CNI `json:"b_cni"`
}

func c12GenNC(t *rapid.T, trunk bool) c12NC {
	n := c12NC{Trunk: trunk}
	n.IfName = rapid.SampledFrom([]string{"", "eth0", "eth1", "net1"}).Draw(t, "if")
	n.ArgIfName = rapid.SampledFrom([]string{"eth0", "eth0", "net0"}).Draw(t, "argif")
	fam := rapid.SampledFrom([]string{"4", "46", "46", "6"}).Draw(t, "fam")
	if strings.Contains(fam, "4") {
		p := c12GenSubnet(t, false)
		n.CIDR4 = p.String()
		n.V4 = c12AddrAt(p, int64(c12GenOffsets(t, p, 1)[0])).String()
		n.GW4 = c12AddrAt(p, -3).String()
		n.Svc4 = c12GenSubnet(t, false).String()
	}
	if strings.Contains(fam, "6") {
		p := c12GenSubnet(t, true)
		n.CIDR6 = p.String()
		n.V6 = c12AddrAt(p, int64(c12GenOffsets(t, p, 1)[0])).String()
		n.GW6 = c12AddrAt(p, -3).String()
		n.Svc6 = c12GenSubnet(t, true).String()
	}
	n.HasENI = trunk || rapid.IntRange(0, 4).Draw(t, "has_eni") > 0
	n.MAC = c12GenMAC(t)
	if trunk {
		n.Vid = rapid.Uint32Range(1, 4094).Draw(t, "vid")
	}
	n.ERDMA = rapid.Bool().Draw(t, "erdma")
	n.HasENIGW = rapid.Bool().Draw(t, "has_enigw")
	if n.HasENIGW {
		if n.V4 != "" {
			n.ENIGW4 = c12AddrAt(c12GenSubnet(t, false), -3).String()
		}
		if n.V6 != "" {
			n.ENIGW6 = c12AddrAt(c12GenSubnet(t, true), -3).String()
		}
	}
	n.HasPod = rapid.IntRange(0, 4).Draw(t, "has_pod") > 0
	p := c12GenPod(t)
	n.Ingress, n.Egress, n.Prio = p.Ingress, p.Egress, p.Prio
	n.Routes = c12GenRoutes(t, n.V4 != "", n.V6 != "")
	n.Default = rapid.Bool().Draw(t, "default")
	return n
}

func (n *c12NC) toRPC() *rpc.NetConf {
	nc := &rpc.NetConf{IfName: n.IfName, DefaultRoute: n.Default}
	nc.BasicInfo = &rpc.BasicInfo{
		PodIP:       &rpc.IPSet{IPv4: n.V4, IPv6: n.V6},
		PodCIDR:     &rpc.IPSet{IPv4: n.CIDR4, IPv6: n.CIDR6},
		GatewayIP:   &rpc.IPSet{IPv4: n.GW4, IPv6: n.GW6},
		ServiceCIDR: &rpc.IPSet{IPv4: n.Svc4, IPv6: n.Svc6},
	}
	if n.HasENI {
		nc.ENIInfo = &rpc.ENIInfo{MAC: c12MAC(n.MAC), Trunk: n.Trunk, Vid: n.Vid, ERDMA: n.ERDMA}
		if n.HasENIGW {
			nc.ENIInfo.GatewayIP = &rpc.IPSet{IPv4: n.ENIGW4, IPv6: n.ENIGW6}
		}
	}
	if n.HasPod {
		nc.Pod = &rpc.Pod{Ingress: n.Ingress, Egress: n.Egress, NetworkPriority: n.Prio}
	}
	for _, r := range n.Routes {
		nc.ExtraRoutes = append(nc.ExtraRoutes, &rpc.Route{Dst: r})
	}
	return nc
}

func c12GenParse(t *rapid.T) c12ParseScenario {
	s := c12ParseScenario{}
	// the daemon emits TypeVPCENI and TypeENIMultiIP (TypeVPCIP, the retired VPC-route
	// mode, is covered by TestVerifC12DatapathTable)
	s.IPType = rapid.SampledFrom([]int32{1, 2, 2}).Draw(t, "ip_type")
	s.Trunk = rapid.Bool().Draw(t, "trunk")
	s.Vlan = rapid.SampledFrom([]string{"", "filter", "vlan", "vlan", "Vlan", "VLAN", "strip"}).Draw(t, "vlan")
	s.A = c12GenNC(t, s.Trunk)
	s.ACNI = c12GenCNI(t)
	s.ACNI.VlanStrip = s.Vlan
	s.B = c12GenNC(t, s.Trunk)
	s.BCNI = c12GenCNI(t)
	s.BCNI.VlanStrip = s.Vlan
	// the two configurations often sit in the same vSwitch (identical CIDR strings,
	// different addresses)
	if rapid.Bool().Draw(t, "share_vsw") {
		other := func(p netip.Prefix, taken string) string {
			o := c12GenOffsets(t, p, 1)[0]
			if c12AddrAt(p, int64(o)).String() == taken {
				o = o%c12MaxOff(p) + 1
			}
			return c12AddrAt(p, int64(o)).String()
		}
		if s.A.V4 != "" && s.B.V4 != "" {
			s.B.CIDR4, s.B.GW4 = s.A.CIDR4, s.A.GW4
			s.B.V4 = other(netip.MustParsePrefix(s.A.CIDR4), s.A.V4)
		}
		if s.A.V6 != "" && s.B.V6 != "" {
			s.B.CIDR6, s.B.GW6 = s.A.CIDR6, s.A.GW6
			s.B.V6 = other(netip.MustParsePrefix(s.A.CIDR6), s.A.V6)
		}
	}
	return s
}

func c12RunParse(c *vt.Ctx, s c12ParseScenario) {
	ipType := rpc.IPType(s.IPType)
	type variant struct {
		n    *c12NC
		cs   *c12CNI
		conf *types.CNIConf
		wire *rpc.NetConf
		args *skel.CmdArgs
		cfg  *types.SetupConfig
		dc   c12DelCheck
	}
	vs := []*variant{{n: &s.A, cs: &s.ACNI}, {n: &s.B, cs: &s.BCNI}}
	// phase 1: everything is parsed (ADD parser for both, then DEL/CHECK parsers for both) ...
	for i, v := range vs {
		v.conf = c12CNIConf(c, v.cs)
		b, err := proto.Marshal(v.n.toRPC())
		if err != nil {
			c.Fatalf("marshal: %v", err)
		}
		v.wire = &rpc.NetConf{}
		if err := proto.Unmarshal(b, v.wire); err != nil {
			c.Fatalf("unmarshal: %v", err)
		}
		v.args = &skel.CmdArgs{ContainerID: "sandbox-1", Netns: "/proc/self/ns/net", IfName: v.n.ArgIfName}
		v.cfg, err = parseSetupConf(v.args, v.wire, v.conf, ipType)
		if err != nil {
			c.Fatalf("variant %d: parser rejects a well-formed NetConf %v: %v", i, v.wire, err)
		}
	}
	// ... phase 2: the ADD results are judged only now, as the plugin uses them only after
	// the whole reply was parsed
	var dps []types.DataPath
	for i, v := range vs {
		c12CheckParsed(c, fmt.Sprintf("variant %d", i), v.cfg, v.wire, v.conf, v.cs, ipType, v.n.ArgIfName)
	}
	// the same configurations as CNI DEL and CNI CHECK would receive them from GetIPInfo
	for i, v := range vs {
		v.dc = c12ParseDelCheck(c, fmt.Sprintf("variant %d", i), v.wire, v.conf, ipType, v.args)
	}
	for i, v := range vs {
		n, cs := v.n, v.cs
		c12CheckDelCheck(c, fmt.Sprintf("variant %d", i), v.wire, v.dc, v.cfg, v.conf, cs, ipType)
		dps = append(dps, v.cfg.DP)
		if cs.RtIngress > 0 || cs.RtEgress > 0 {
			c.Label("runtime-bandwidth")
			c.NonTrivial()
		}
		if n.V4 != "" && n.V6 != "" {
			c.Label("dual")
			c.NonTrivial()
		}
		if len(n.Routes) > 0 {
			c.Label("extra-routes")
		}
		if !n.HasENI {
			c.Label("no-eni-info")
		}
		if !n.HasPod {
			c.Label("no-pod-info")
		}
	}
	if (s.A.CIDR4 != "" && s.A.CIDR4 == s.B.CIDR4) || (s.A.CIDR6 != "" && s.A.CIDR6 == s.B.CIDR6) {
		c.Label("shared-vswitch")
	}
	// metamorphic: only (IP type, trunk, VLAN mode) were kept between the two variants
	if dps[0] != dps[1] {
		c.Fatalf("datapath changed from %d to %d although IP type, trunking and VLAN mode are equal", dps[0], dps[1])
	}
	c.Labelf("dp:%d", dps[0])
}

func TestVerifC12Parse(t *testing.T) { vt.Run(t, c12GenParse, c12RunParse) }

// ---------------------------------------------------------------- getDatePath table

type c12DPScenario struct {
	IPType int32  `json:"ip_type"`
	Trunk  bool   `json:"trunk"`
	Vlan   string `json:"vlan"`
}

func c12GenDP(t *rapid.T) c12DPScenario {
	return c12DPScenario{
		IPType: rapid.Int32Range(0, 2).Draw(t, "ip_type"),
		Trunk:  rapid.Bool().Draw(t, "trunk"),
		Vlan: rapid.OneOf(rapid.SampledFrom([]string{"", "filter", "vlan", "Vlan", "vlan ", "strip"}),
			rapid.StringMatching(`[a-z]{0,6}`)).Draw(t, "vlan"),
	}
}

func c12RunDP(c *vt.Ctx, s c12DPScenario) {
	got := getDatePath(rpc.IPType(s.IPType), types.VlanStripType(s.Vlan), s.Trunk)
	want := c12RefDP(rpc.IPType(s.IPType), s.Trunk, s.Vlan)
	c.Labelf("dp:%d", got)
	if s.Trunk {
		c.NonTrivial()
	}
	if got != want {
		c.Fatalf("getDatePath(%s, %q, trunk=%v) = %d, the table says %d", rpc.IPType(s.IPType), s.Vlan, s.Trunk, got, want)
	}
}

func TestVerifC12DatapathTable(t *testing.T) { vt.Run(t, c12GenDP, c12RunDP) }

// ---------------------------------------------------------------- defaultForNetConf on arbitrary lists

type c12DefEntry struct {
	IfName  string `json:"if"`
	Default bool   `json:"default"`
}

type c12DefScenario struct {
	Entries []c12DefEntry `json:"entries"`
}

func c12GenDef(t *rapid.T) c12DefScenario {
	e := rapid.Custom(func(t *rapid.T) c12DefEntry {
		return c12DefEntry{
			IfName:  rapid.SampledFrom([]string{"", "eth0", "eth0", "eth1", "eth2", "net1", "ETH0", "eth00"}).Draw(t, "if"),
			Default: rapid.IntRange(0, 2).Draw(t, "default") == 2,
		}
	})
	return c12DefScenario{Entries: rapid.SliceOfN(e, 1, vt.Scale(6, 10)).Draw(t, "entries")}
}

func c12RunDef(c *vt.Ctx, s c12DefScenario) {
	var in []*rpc.NetConf
	nDefault, nPrimary := 0, 0
	for _, e := range s.Entries {
		in = append(in, &rpc.NetConf{IfName: e.IfName, DefaultRoute: e.Default,
			BasicInfo: &rpc.BasicInfo{PodIP: &rpc.IPSet{IPv4: "10.0.0.9"}}})
		if e.Default {
			nDefault++
		}
		if e.IfName == "" || e.IfName == "eth0" {
			nPrimary++
		}
	}
	wellFormed := nDefault <= 1 && nPrimary >= 1
	c.Labelf("defaults:%d", min(nDefault, 2))
	c.Labelf("primaries:%d", min(nPrimary, 2))
	if len(in) >= 2 {
		c.NonTrivial()
	}
	err := terwaydaemon.C12DefaultForNetConf(in)
	if err != nil {
		c.Label("refused")
		if wellFormed {
			c.Fatalf("well-formed list refused: %v", err)
		}
		return
	}
	c.Label("accepted")
	got := 0
	for i, nc := range in {
		if nc.GetIfName() != s.Entries[i].IfName {
			c.Fatalf("interface name of entry %d rewritten to %q", i, nc.GetIfName())
		}
		if nc.GetDefaultRoute() {
			got++
		}
		if nDefault == 1 && nc.GetDefaultRoute() != s.Entries[i].Default {
			c.Fatalf("entry %d: default-route flag changed to %v although the allocation names exactly one default", i, nc.GetDefaultRoute())
		}
	}
	if got != 1 {
		c.Fatalf("accepted list names %d default-route interfaces: %v", got, in)
	}
	if nDefault == 0 {
		// not demanded by the property statement (any single default satisfies it);
		// recorded so that a change of the defaulting rule is visible in the evidence
		for _, nc := range in {
			if nc.GetDefaultRoute() {
				if nc.GetIfName() == "" || nc.GetIfName() == "eth0" {
					c.Label("defaulted-on-primary")
				} else {
					c.Label("defaulted-on-secondary")
				}
			}
		}
	}
	if nPrimary == 0 {
		c.Fatalf("accepted list without the primary interface: %v", in)
	}
}

func TestVerifC12DefaultRoute(t *testing.T) { vt.Run(t, c12GenDef, c12RunDef) }

