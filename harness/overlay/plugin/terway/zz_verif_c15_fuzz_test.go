//go:build linux

package main

import (
	"testing"

	g "github.com/AliyunContainerService/terway/zz_verif/c15gen"
)

// FuzzVerifC15CNIConf: CNI stdin document, CNI_ARGS and the textual fields of one daemon
// reply under the coverage-guided fuzzer: getCmdArgs, parseSetupConf, parseTearDownConf,
// parseCheckConf (oracle of TestVerifC15CNIPlugin; the MAC handed to parseSetupConf stays
// empty, see there).
func FuzzVerifC15CNIConf(f *testing.F) {
	args := "K8S_POD_NAME=p;K8S_POD_NAMESPACE=ns;K8S_POD_INFRA_CONTAINER_ID=abc;IgnoreUnknown=1"
	f.Add([]byte(`{"cniVersion":"0.4.0","name":"terway","type":"terway","capabilities":{"bandwidth":true},"host_stack_cidrs":["169.254.20.10/32"],"eniip_virtual_type":"IPVlan","mtu":1500,"runtimeConfig":{"bandwidth":{"ingressRate":1000000,"egressRate":8}}}`),
		args, "172.16.0.0/16", "10.0.0.2", "10.0.0.0/24", "10.0.0.253", "192.168.0.0/16", "00:16:3e:01:02:03", "eth0", uint8(2))
	f.Add([]byte(`{"type":"terway","vlan_strip_type":"vlan","disable_host_peer":true}`), args, "fd01::/108", "fd00::2", "fd00::/64", "fd00::fffd", "::/0", "", "", uint8(1))
	// IPVlan host-stack redirect: host_stack_cidrs entries incl. IPv4-mapped IPv6 notation
	for _, hs := range g.HostStackHostile {
		f.Add([]byte(`{"type":"terway","eniip_virtual_type":"IPVlan","host_stack_cidrs":["169.254.20.10/32","`+hs+`"]}`),
			args, "172.16.0.0/16", "10.0.0.2", "10.0.0.0/24", "10.0.0.253", "192.168.0.0/16", "", "eth0", uint8(1))
	}
	for _, s := range append(g.FuzzHostile, g.CNIConfHostile...) {
		f.Add([]byte(s), s, s, s, s, s, s, s, s, uint8(2))
		f.Add([]byte(`{"type":"terway"}`), args, s, s, s, s, s, s, s, uint8(1))
	}
	f.Fuzz(func(t *testing.T, stdin []byte, args, svc, podIP, podCIDR, gw, route, mac, ifName string, ipType uint8) {
		defer g.FuzzGuard(t, "FuzzVerifC15CNIConf", stdin, args, svc, podIP, podCIDR, gw, route, mac, ifName, ipType)()
		v6 := func(s string) g.Bytes { // the same text offered as the IPv6 member for odd types
			if ipType&4 != 0 {
				return g.Bytes(s)
			}
			return nil
		}
		pair := func(s string) *vfC15IPPair { return &vfC15IPPair{V4: g.Bytes(s), V6: v6(s)} }
		nc := vfC15NetConf{HasBasic: true, PodIP: pair(podIP), PodCIDR: pair(podCIDR), GatewayIP: pair(gw), ServiceCIDR: pair(svc),
			HasENI: true, MAC: g.Bytes(mac), Trunk: ipType&8 != 0, Vid: uint32(ipType), ENIGateway: pair(gw),
			HasPod: true, Ingress: uint64(ipType), Prio: g.Bytes(ifName), IfName: g.Bytes(ifName), Routes: []g.Bytes{g.Bytes(route)}}
		vfC15RunCNI(g.FuzzSink{T: t}, vfC15CNIScenario{Kind: "fuzz", Stdin: g.Bytes(stdin), Args: g.Bytes(args), IfName: g.Bytes("eth0"),
			IPType: int32(ipType%2) + 1, NetConfs: []vfC15NetConf{nc}})
	})
}
