//go:build linux

package main

// C15 — the CNI plugin never panics on its configuration (stdin JSON, CNI_ARGS) or on the
// daemon's reply: getCmdArgs (json -> CNIConf, LoadArgs), parseSetupConf,
// parseTearDownConf, parseCheckConf. The reply's IP type is restricted to the values
// the daemon can send (TypeVPCENI, TypeENIMultiIP); NetConf messages are built as structs
// (as gRPC would deliver them: absent sub-messages are nil, repeated fields hold no nil).

import (
	"context"
	"encoding/json"
	"fmt"
	"net"
	"sync"
	"testing"

	"github.com/containernetworking/cni/pkg/skel"
	"github.com/vishvananda/netlink"

	"github.com/AliyunContainerService/terway/pkg/link"
	"github.com/AliyunContainerService/terway/plugin/datapath"
	"github.com/AliyunContainerService/terway/plugin/driver/types"
	"github.com/AliyunContainerService/terway/plugin/driver/utils"
	"github.com/AliyunContainerService/terway/rpc"
	g "github.com/AliyunContainerService/terway/zz_verif/c15gen"
	"github.com/AliyunContainerService/terway/zz_verif/vt"
	"pgregory.net/rapid"
)

type vfC15IPPair struct {
	V4 g.Bytes `json:"v4"`
	V6 g.Bytes `json:"v6"`
}

type vfC15NetConf struct {
	HasBasic    bool         `json:"has_basic"`
	PodIP       *vfC15IPPair `json:"pod_ip"`
	PodCIDR     *vfC15IPPair `json:"pod_cidr"`
	GatewayIP   *vfC15IPPair `json:"gateway_ip"`
	ServiceCIDR *vfC15IPPair `json:"service_cidr"`
	HasENI      bool         `json:"has_eni"`
	MAC         g.Bytes      `json:"mac"`
	LoMAC       bool         `json:"lo_mac"` // use the MAC of an existing device instead of MAC
	Trunk       bool         `json:"trunk"`
	Vid         uint32       `json:"vid"`
	ERDMA       bool         `json:"erdma"`
	ENIGateway  *vfC15IPPair `json:"eni_gateway"`
	HasPod      bool         `json:"has_pod"`
	Ingress     uint64       `json:"ingress"`
	Egress      uint64       `json:"egress"`
	Prio        g.Bytes      `json:"prio"`
	IfName      g.Bytes      `json:"if_name"`
	Routes      []g.Bytes    `json:"routes"`
	DefRoute    bool         `json:"default_route"`
}

type vfC15CNIScenario struct {
	Kind     string         `json:"kind"`
	Stdin    g.Bytes        `json:"stdin"`
	Args     g.Bytes        `json:"args"`
	IfName   g.Bytes        `json:"if_name"`
	IPType   int32          `json:"ip_type"` // 1 VPCENI, 2 ENIMultiIP
	NetConfs []vfC15NetConf `json:"net_confs"`
}

// vfC15ValidStdin: a well-formed CNI configuration; one in three is an IPVlan
// configuration with 1..3 host_stack_cidrs entries (dotted IPv4, IPv6, IPv4-mapped IPv6
// notation), the input of the host-stack redirect path.
func vfC15ValidStdin(t *rapid.T) []byte {
	m := g.CNIConf(t)
	if rapid.IntRange(0, 2).Draw(t, "hoststack") == 0 {
		m["eniip_virtual_type"] = rapid.SampledFrom([]string{"IPVlan", "ipvlan", "IPVLAN"}).Draw(t, "ipvlan")
		hs := []any{}
		for i, n := 0, rapid.IntRange(1, 3).Draw(t, "nhs"); i < n; i++ {
			switch rapid.IntRange(0, 4).Draw(t, "hsform") {
			case 0, 1:
				hs = append(hs, g.CIDRv4(t))
			case 2, 3:
				hs = append(hs, g.MappedCIDR(t))
			default:
				hs = append(hs, g.CIDRv6(t))
			}
		}
		m["host_stack_cidrs"] = hs
	}
	return g.MustJSON(m)
}

func vfC15GenCNI(t *rapid.T) vfC15CNIScenario {
	s := vfC15CNIScenario{Kind: g.Kind(t)}
	s.IPType = int32(rapid.SampledFrom([]int{1, 2, 2}).Draw(t, "iptype")) // ENIMultiIP (the IPVlan datapath) twice as likely
	s.Stdin = g.Bytes(vfC15ValidStdin(t))
	s.Args = g.Bytes(rapid.SampledFrom([]string{
		"K8S_POD_NAME=p;K8S_POD_NAMESPACE=ns;K8S_POD_INFRA_CONTAINER_ID=abc;IgnoreUnknown=1",
		"IgnoreUnknown=true;K8S_POD_NAMESPACE=ns;K8S_POD_NAME=p;K8S_POD_INFRA_CONTAINER_ID=abc;K8S_POD_UID=u",
		"K8S_POD_NAME=p;IP=10.0.0.1", "",
	}).Draw(t, "args"))
	s.IfName = g.Bytes(rapid.SampledFrom([]string{"eth0", "eth1", ""}).Draw(t, "ifname"))

	var texts []*g.Bytes // every textual field of the reply, for the mutated / raw kinds
	pair := func(v4 func(*rapid.T) string, v6 func(*rapid.T) string, label string) *vfC15IPPair {
		if rapid.IntRange(0, 9).Draw(t, label+"_absent") == 0 {
			return nil
		}
		p := &vfC15IPPair{}
		stack := rapid.IntRange(0, 3).Draw(t, label+"_stack") // 0 v4, 1 v6, 2-3 dual
		if stack != 1 {
			p.V4 = g.Bytes(v4(t))
		}
		if stack != 0 {
			p.V6 = g.Bytes(v6(t))
		}
		return p
	}
	n := rapid.IntRange(0, 3).Draw(t, "nconf")
	s.NetConfs = make([]vfC15NetConf, n)
	for i := range s.NetConfs {
		nc := &s.NetConfs[i]
		nc.HasBasic = rapid.IntRange(0, 9).Draw(t, "hasbasic") > 0
		if nc.HasBasic {
			nc.PodIP = pair(g.IPv4, g.IPv6, "podip")
			nc.PodCIDR = pair(g.CIDRv4, g.CIDRv6, "podcidr")
			nc.GatewayIP = pair(g.IPv4, g.IPv6, "gw")
			nc.ServiceCIDR = pair(g.CIDRv4, g.CIDRv6, "svc")
		}
		nc.HasENI = rapid.IntRange(0, 4).Draw(t, "haseni") > 0
		if nc.HasENI {
			nc.LoMAC = rapid.Bool().Draw(t, "lomac")
			nc.MAC = g.Bytes(rapid.SampledFrom([]string{"", "00:16:3e:01:02:03", "00:00:00:00:00:00"}).Draw(t, "mac"))
			nc.Trunk = rapid.Bool().Draw(t, "trunk")
			nc.Vid = rapid.SampledFrom([]uint32{0, 1, 100, 4095, 4096, 1 << 31}).Draw(t, "vid")
			nc.ERDMA = rapid.Bool().Draw(t, "erdma")
			nc.ENIGateway = pair(g.IPv4, g.IPv6, "enigw")
		}
		nc.HasPod = rapid.Bool().Draw(t, "haspod")
		if nc.HasPod {
			nc.Ingress = rapid.SampledFrom([]uint64{0, 1, 1 << 20, 1<<64 - 1}).Draw(t, "ing")
			nc.Egress = rapid.SampledFrom([]uint64{0, 1, 1 << 20, 1<<64 - 1}).Draw(t, "eg")
			nc.Prio = g.Bytes(rapid.SampledFrom([]string{"", "best-effort", "burstable", "guaranteed", "x"}).Draw(t, "prio"))
		}
		nc.IfName = g.Bytes(rapid.SampledFrom([]string{"", "eth0", "eth1"}).Draw(t, "ncif"))
		for j, m := 0, rapid.IntRange(0, 2).Draw(t, "nroutes"); j < m; j++ {
			nc.Routes = append(nc.Routes, g.Bytes(rapid.SampledFrom([]string{g.CIDRv4(t), g.CIDRv6(t), "0.0.0.0/0", "::/0"}).Draw(t, "route")))
		}
		nc.DefRoute = rapid.Bool().Draw(t, "defroute")

		for _, p := range []*vfC15IPPair{nc.PodIP, nc.PodCIDR, nc.GatewayIP, nc.ServiceCIDR, nc.ENIGateway} {
			if p != nil {
				texts = append(texts, &p.V4, &p.V6)
			}
		}
		texts = append(texts, &nc.MAC, &nc.Prio, &nc.IfName)
		for j := range nc.Routes {
			texts = append(texts, &nc.Routes[j])
		}
	}
	texts = append(texts, &s.Args, &s.IfName)

	switch s.Kind {
	case g.KindMutated:
		// exactly one mutation: in the stdin document or in one textual field of the reply
		k := rapid.IntRange(-len(texts)/2-1, len(texts)-1).Draw(t, "mutidx")
		if k < 0 {
			s.Stdin = g.MutateJSON(t, s.Stdin)
		} else {
			*texts[k] = g.MutateText(t, string(*texts[k]))
		}
	case g.KindRaw:
		switch rapid.IntRange(0, 3).Draw(t, "rawstdin") {
		case 0:
			s.Stdin = g.Raw(t, g.JSONAlphabet, g.CNIConfHostile)
		case 1: // raw strings in the host_stack_cidrs list of an otherwise well-formed IPVlan configuration
			hs := []any{}
			for i, n := 0, rapid.IntRange(1, 3).Draw(t, "nrawhs"); i < n; i++ {
				hs = append(hs, string(g.Raw(t, g.IPAlphabet, g.HostStackHostile)))
			}
			s.Stdin = g.Bytes(g.MustJSON(map[string]any{"type": "terway", "eniip_virtual_type": "IPVlan", "host_stack_cidrs": hs}))
		}
		for _, p := range texts {
			if rapid.IntRange(0, 2).Draw(t, "rawtext") == 0 {
				*p = g.Raw(t, g.IPAlphabet, nil)
			}
		}
	}
	return s
}

var (
	vfC15LoOnce sync.Once
	vfC15LoMAC  string // MAC of a device that exists here ("" if none can be found)
)

// a non-empty MAC that does not exist makes parseSetupConf wait 10 x 1 s; the harness
// therefore only hands it MACs that are empty or resolve immediately. (In this sandbox
// nothing resolves: the only device is loopback and the netlink library reports its
// all-zero address as empty, so parseSetupConf only ever sees an empty MAC here, while
// parseTearDownConf / parseCheckConf, which do not wait, get every generated MAC.)
func vfC15ExistingMAC() string {
	vfC15LoOnce.Do(func() {
		if _, err := link.GetDeviceNumber("00:00:00:00:00:00"); err == nil {
			vfC15LoMAC = "00:00:00:00:00:00"
		}
	})
	return vfC15LoMAC
}

func vfC15IPSet(p *vfC15IPPair) *rpc.IPSet {
	if p == nil {
		return nil
	}
	return &rpc.IPSet{IPv4: string(p.V4), IPv6: string(p.V6)}
}

func vfC15BuildNetConf(nc vfC15NetConf, forSetup bool) *rpc.NetConf {
	out := &rpc.NetConf{IfName: string(nc.IfName), DefaultRoute: nc.DefRoute}
	if nc.HasBasic {
		out.BasicInfo = &rpc.BasicInfo{PodIP: vfC15IPSet(nc.PodIP), PodCIDR: vfC15IPSet(nc.PodCIDR),
			GatewayIP: vfC15IPSet(nc.GatewayIP), ServiceCIDR: vfC15IPSet(nc.ServiceCIDR)}
	}
	if nc.HasENI {
		mac := string(nc.MAC)
		if nc.LoMAC {
			mac = vfC15ExistingMAC()
		}
		if forSetup && mac != "" && mac != vfC15ExistingMAC() {
			mac = ""
		}
		out.ENIInfo = &rpc.ENIInfo{MAC: mac, Trunk: nc.Trunk, Vid: nc.Vid, ERDMA: nc.ERDMA, GatewayIP: vfC15IPSet(nc.ENIGateway)}
	}
	if nc.HasPod {
		out.Pod = &rpc.Pod{Ingress: nc.Ingress, Egress: nc.Egress, NetworkPriority: string(nc.Prio)}
	}
	for _, r := range nc.Routes {
		out.ExtraRoutes = append(out.ExtraRoutes, &rpc.Route{Dst: string(r)})
	}
	return out
}

func vfC15RunCNI(c g.Sink, s vfC15CNIScenario) {
	c.Label("kind:" + s.Kind)
	args := &skel.CmdArgs{ContainerID: "abc", Netns: "/proc/self/ns/net", IfName: string(s.IfName),
		Args: string(s.Args), Path: "/opt/cni/bin", StdinData: s.Stdin}
	cmdArgs, err := getCmdArgs(args)
	if err != nil {
		if json.Valid(s.Stdin) {
			c.Label("depth1-json-rejected")
		} else {
			c.Label("depth0-not-json")
		}
		// nil-receiver accessors are part of the contract
		var nilArgs *cniCmdArgs
		_, _, _ = nilArgs.GetCNIConf(), nilArgs.GetK8SConfig(), nilArgs.GetInputArgs()
		_ = nilArgs.GetNetNSPath()
		_ = nilArgs.Close()
		return
	}
	defer cmdArgs.Close()
	c.NonTrivial()
	conf, k8sConfig := cmdArgs.GetCNIConf(), cmdArgs.GetK8SConfig()
	if conf == nil || k8sConfig == nil {
		c.Fatalf("getCmdArgs returned nil conf/k8s args without error")
	}
	_ = conf.IPVlan()
	_ = cmdArgs.GetNetNSPath()
	_ = fmt.Sprintf("%v %v %v", k8sConfig.K8S_POD_NAME, k8sConfig.K8S_POD_NAMESPACE, k8sConfig.K8S_POD_INFRA_CONTAINER_ID)

	ipType := rpc.IPType(s.IPType)
	okSetup, okTear, okCheck := 0, 0, 0
	for _, nc := range s.NetConfs {
		setup, err := parseSetupConf(args, vfC15BuildNetConf(nc, true), conf, ipType)
		if err == nil {
			if setup == nil {
				c.Fatalf("parseSetupConf returned nil, nil")
			}
			okSetup++
			vfC15HostStack(c, conf, setup)
			// what doCmdAdd / cmdAdd do with it before the datapath is programmed
			setup.HostVETHName, _ = link.VethNameForPod(string(k8sConfig.K8S_POD_NAME), string(k8sConfig.K8S_POD_NAMESPACE), string(nc.IfName), defaultVethPrefix)
			_ = fmt.Sprintf("%v", setup)
			_ = setup.ContainerIPNet.String()
			if setup.ContainerIfName == args.IfName && setup.ContainerIPNet != nil && setup.GatewayIP != nil {
				_ = setup.ContainerIPNet.IPv4 != nil && setup.GatewayIP.IPv4 != nil
				_ = setup.ContainerIPNet.IPv6 != nil && setup.GatewayIP.IPv6 != nil
			}
		}
		full := vfC15BuildNetConf(nc, false)
		if td, err := parseTearDownConf(full, conf, ipType); err == nil {
			if td == nil {
				c.Fatalf("parseTearDownConf returned nil, nil")
			}
			okTear++
		}
		if ck, err := parseCheckConf(args, full, conf, ipType); err == nil {
			if ck == nil {
				c.Fatalf("parseCheckConf returned nil, nil")
			}
			okCheck++
		}
	}
	switch {
	case okSetup > 0:
		c.Label("depth3-setup-parsed")
	case len(s.NetConfs) > 0:
		c.Label("depth2-conf-decoded-reply-rejected")
	default:
		c.Label("depth2-conf-decoded-no-reply")
	}
	if okTear > 0 {
		c.Label("teardown-parsed")
	}
	if okCheck > 0 {
		c.Label("check-parsed")
	}
}

func TestVerifC15CNIPlugin(t *testing.T) { vt.Run(t, vfC15GenCNI, g.NoPanic(g.Adapt(vfC15RunCNI))) }

// ---------------------------------------------------------------------------------
// IPVlan datapath, host-stack redirect: what IPvlanDriver.Setup does with the parsed
// `host_stack_cidrs` (setupInitNamespace: redirectCIDRs = HostStackCIDRs + IPv4 service
// CIDR -> setupFilters -> dstIPRule per CIDR -> tc u32 filters on the parent device).
// The ipvlan slave cannot be created in this sandbox, so the harness enters at
// setupFilters, on the loopback device, and only when the process runs in a network
// namespace of its own (nothing but `lo`); otherwise only dstIPRule is called.

var (
	vfC15PrivOnce sync.Once
	vfC15PrivLo   netlink.Link
)

func vfC15PrivateLo() netlink.Link {
	vfC15PrivOnce.Do(func() {
		links, err := netlink.LinkList()
		if err != nil || len(links) != 1 || links[0].Attrs().Name != "lo" {
			return
		}
		vfC15PrivLo = links[0]
	})
	return vfC15PrivLo
}

func vfC15HostStack(c g.Sink, conf *types.CNIConf, setup *types.SetupConfig) {
	if setup.DP != types.IPVlan || !conf.IPVlan() {
		return
	}
	if setup.ServiceCIDR == nil || setup.ServiceCIDR.IPv4 == nil {
		// the daemon always reports an IPv4 service CIDR (k8s.setSvcCIDR); a reply without
		// one is outside what the plugin can receive
		c.Label("hoststack:no-v4-service-cidr(not judged)")
		return
	}
	c.Label("hoststack:reached")
	redirect := append(append([]*net.IPNet{}, setup.HostStackCIDRs...), setup.ServiceCIDR.IPv4)
	for _, cidr := range setup.HostStackCIDRs {
		switch {
		case len(cidr.IP) == net.IPv6len && cidr.IP.To4() != nil:
			c.Label("hoststack:v4-mapped")
		case cidr.IP.To4() == nil:
			c.Label("hoststack:v6")
		default:
			c.Label("hoststack:v4")
		}
	}
	rejected := false
	for _, cidr := range redirect {
		if err := datapath.VerifC15DstIPRule(1, cidr, 2); err != nil {
			rejected = true
		}
	}
	if rejected {
		c.Label("hoststack:rule-rejected")
	}
	lo := vfC15PrivateLo()
	if lo == nil {
		c.Label("hoststack:no-private-netns(rule only)")
		return
	}
	ctx := context.Background()
	if err := utils.EnsureClsActQdsic(ctx, lo); err != nil {
		c.Label("hoststack:no-clsact")
	}
	if err := datapath.VerifC15SetupFilters(ctx, lo, redirect, lo.Attrs().Index); err != nil {
		c.Label("hoststack:filters-error")
		if !rejected {
			c.Label("hoststack:kernel-refused-filter")
		}
	} else {
		if rejected {
			c.Fatalf("setupFilters succeeded although a redirect CIDR was rejected by dstIPRule")
		}
		c.Label("hoststack:filters-programmed")
	}
	// leave no filter behind for the next case
	parent := uint32(netlink.HANDLE_CLSACT&0xffff0000 | netlink.HANDLE_MIN_EGRESS&0x0000ffff)
	if fs, err := netlink.FilterList(lo, parent); err == nil {
		for _, f := range fs {
			_ = netlink.FilterDel(f)
		}
	}
}
