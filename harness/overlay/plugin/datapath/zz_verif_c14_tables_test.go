//go:build linux

package datapath

import (
	"fmt"
	"net"
	"testing"

	"github.com/AliyunContainerService/terway/plugin/driver/types"
	"github.com/AliyunContainerService/terway/plugin/driver/utils"
	terwayTypes "github.com/AliyunContainerService/terway/types"
	"github.com/AliyunContainerService/terway/zz_verif/vt"
	cniTypes "github.com/containernetworking/cni/pkg/types"
	"github.com/vishvananda/netlink"
	"golang.org/x/sys/unix"
	"pgregory.net/rapid"
)

// C14 (c), at the place where the number is used: "the routing-table number is unique
// per interface".  GetRouteTableID is checked on its own in plugin/driver/utils; here the
// datapath config generators that build the per-interface policy routing of a pod
// (ipvlan, exclusive ENI, veth/policy route, vlan) are run for every interface of a
// generated pod (fake links, no netlink), and
//
//   - every policy rule they emit, and every route they put into a table other than
//     main, names exactly GetRouteTableID(index of that interface's link);
//   - in multi-network mode every address family of the interface has its source rule and
//     its default route in that table (so "its table" is never 0 / main / absent);
//   - two interfaces of the pod (different link indexes) never name the same table.
//
// The host side of the veth datapath (ENI + host peer, which receive the table of the ENI
// as an argument) is held to the same rule per ENI.

type vfC14TabIf struct {
	Driver    int  `json:"driver"`     // 0 ipvlan, 1 exclusive ENI, 2 veth+policy route, 3 vlan
	Index     int  `json:"index"`      // link index inside the pod's namespace
	ENIIndex  int  `json:"eni_index"`  // host-side index of the ENI (driver 2)
	PeerIndex int  `json:"peer_index"` // host-side index of the veth peer (driver 2)
	Fam       int  `json:"fam"`        // 1 IPv4 only, 2 IPv6 only, 3 dual stack
	Seed      int  `json:"seed"`       // varies the addresses
	StripVlan bool `json:"strip_vlan"`
	Extra     int  `json:"extra"` // extra routes: 0 none, 1 on-link, 2 via gateway, 3 both
}

type vfC14TabScenario struct {
	Multi   bool         `json:"multi_network"`
	Default int          `json:"default"` // interface (mod n) that carries the pod's default route
	Ifs     []vfC14TabIf `json:"ifs"`
}

var vfC14DriverName = []string{"ipvlan", "exclusive-eni", "veth-policy", "vlan"}

func vfC14GenTab(t *rapid.T) vfC14TabScenario {
	s := vfC14TabScenario{Multi: rapid.IntRange(0, 3).Draw(t, "multi") != 0}
	n := rapid.IntRange(1, 4).Draw(t, "n")
	// distinct link indexes by construction: strictly increasing, with steps that collide
	// under +-1000, 8- and 16-bit truncation
	idx := rapid.OneOf(rapid.IntRange(1, 16), rapid.IntRange(1, 70000), rapid.IntRange(1, 1<<30)).Draw(t, "base")
	for i := 0; i < n; i++ {
		f := vfC14TabIf{
			Driver:    rapid.IntRange(0, 3).Draw(t, "driver"),
			Index:     idx,
			ENIIndex:  rapid.IntRange(2, 6).Draw(t, "eni"),
			PeerIndex: rapid.IntRange(7, 4000).Draw(t, "peer"),
			Fam:       rapid.SampledFrom([]int{1, 2, 2, 3}).Draw(t, "fam"),
			Seed:      rapid.IntRange(0, 199).Draw(t, "seed"),
			StripVlan: rapid.Bool().Draw(t, "strip"),
			Extra:     rapid.IntRange(0, 3).Draw(t, "extra"),
		}
		s.Ifs = append(s.Ifs, f)
		idx += rapid.SampledFrom([]int{1, 1, 2, 256, 1000, 65536}).Draw(t, "step")
	}
	s.Default = rapid.IntRange(0, n-1).Draw(t, "default")
	return s
}

func vfC14TabCfg(s vfC14TabScenario, i int) *types.SetupConfig {
	f := s.Ifs[i]
	cfg := &types.SetupConfig{
		ContainerIfName: fmt.Sprintf("eth%d", i),
		ContainerIPNet:  &terwayTypes.IPNetSet{},
		GatewayIP:       &terwayTypes.IPSet{},
		ENIGatewayIP:    &terwayTypes.IPSet{},
		HostIPSet:       &terwayTypes.IPNetSet{},
		MTU:             1500,
		ENIIndex:        f.ENIIndex,
		StripVlan:       f.StripVlan,
		Vid:             100 + i,
		MultiNetwork:    s.Multi,
		DefaultRoute:    i == s.Default%len(s.Ifs),
	}
	b := byte(f.Seed)
	if f.Fam&1 != 0 {
		cfg.ContainerIPNet.IPv4 = &net.IPNet{IP: net.IPv4(10, byte(i), b, 10).To4(), Mask: net.CIDRMask(24, 32)}
		cfg.GatewayIP.IPv4 = net.IPv4(10, byte(i), b, 253)
		cfg.ENIGatewayIP.IPv4 = net.IPv4(10, byte(i), 255, 253)
		cfg.HostIPSet.IPv4 = &net.IPNet{IP: net.IPv4(172, 16, 0, 1).To4(), Mask: net.CIDRMask(32, 32)}
	}
	if f.Fam&2 != 0 {
		ip := net.ParseIP(fmt.Sprintf("fd00:%x:%x::10", i, f.Seed))
		cfg.ContainerIPNet.IPv6 = &net.IPNet{IP: ip, Mask: net.CIDRMask(64, 128)}
		cfg.GatewayIP.IPv6 = net.ParseIP(fmt.Sprintf("fd00:%x:%x::fffd", i, f.Seed))
		cfg.ENIGatewayIP.IPv6 = net.ParseIP(fmt.Sprintf("fd00:%x:ffff::fffd", i))
		cfg.HostIPSet.IPv6 = &net.IPNet{IP: net.ParseIP("fd01::1"), Mask: net.CIDRMask(128, 128)}
	}
	if f.Extra&1 != 0 {
		cfg.ExtraRoutes = append(cfg.ExtraRoutes, cniTypes.Route{Dst: net.IPNet{IP: net.IPv4(192, 168, byte(i), 0).To4(), Mask: net.CIDRMask(24, 32)}})
	}
	if f.Extra&2 != 0 {
		cfg.ExtraRoutes = append(cfg.ExtraRoutes, cniTypes.Route{
			Dst: net.IPNet{IP: net.IPv4(100, 64, byte(i), 0).To4(), Mask: net.CIDRMask(24, 32)}, GW: net.IPv4(169, 254, 1, 1)})
	}
	return cfg
}

func vfC14Link(name string, index int) netlink.Link {
	return &netlink.Dummy{LinkAttrs: netlink.LinkAttrs{Name: name, Index: index,
		HardwareAddr: net.HardwareAddr{0x02, 0, 0, byte(index >> 16), byte(index >> 8), byte(index)}}}
}

func vfC14RuleStr(r *netlink.Rule) string {
	switch {
	case r.Src != nil:
		return fmt.Sprintf("rule from %s lookup %d", r.Src, r.Table)
	case r.Dst != nil:
		return fmt.Sprintf("rule to %s lookup %d", r.Dst, r.Table)
	case r.OifName != "":
		return fmt.Sprintf("rule oif %s lookup %d", r.OifName, r.Table)
	}
	return fmt.Sprintf("rule lookup %d", r.Table)
}

func vfC14IsDefault(r *netlink.Route, v6 bool) bool {
	if r.Dst == nil || r.Gw == nil {
		return false
	}
	ones, bits := r.Dst.Mask.Size()
	return ones == 0 && ((bits == 128) == v6)
}

type vfC14HostConf struct {
	what   string
	rules  []*netlink.Rule
	routes []*netlink.Route
}

func vfC14MainTable(t int) bool { return t == unix.RT_TABLE_UNSPEC || t == unix.RT_TABLE_MAIN }

func vfC14RunTab(c *vt.Ctx, s vfC14TabScenario) {
	if len(s.Ifs) == 0 || len(s.Ifs) > 4 {
		c.Inconclusive("scenario outside the generated domain")
	}
	seenIdx := map[int]bool{}
	for _, f := range s.Ifs {
		if seenIdx[f.Index] || f.Index <= 0 || f.Driver < 0 || f.Driver > 3 || f.Fam < 1 || f.Fam > 3 {
			c.Inconclusive("scenario outside the generated domain")
		}
		seenIdx[f.Index] = true
	}

	owner := map[int]int{}    // table -> interface (container side)
	eniOwner := map[int]int{} // table -> ENI index (host side)
	for i, f := range s.Ifs {
		cfg := vfC14TabCfg(s, i)
		name := fmt.Sprintf("%s eth%d (link index %d)", vfC14DriverName[f.Driver], i, f.Index)
		link := vfC14Link(cfg.ContainerIfName, f.Index)
		want := utils.GetRouteTableID(f.Index)

		var rules []*netlink.Rule
		var routes []*netlink.Route
		switch f.Driver {
		case 0:
			conf := generateContCfgForIPVlan(cfg, link)
			rules, routes = conf.Rules, conf.Routes
		case 1:
			conf := generateContCfgForExclusiveENI(cfg, link)
			rules, routes = conf.Rules, conf.Routes
		case 2:
			conf := generateContCfgForPolicy(cfg, link, net.HardwareAddr{0x02, 0, 0, 0, 0, 0xfe})
			rules, routes = conf.Rules, conf.Routes
		default:
			conf := generateContCfgForVlan(cfg, link)
			rules, routes = conf.Rules, conf.Routes
		}
		c.Labelf("driver=%s", vfC14DriverName[f.Driver])
		c.Labelf("multi=%v fam=%d", s.Multi, f.Fam)

		used := map[int]string{}
		for _, r := range rules {
			c.Trace("%s: %s", name, vfC14RuleStr(r))
			if r.Table != want {
				c.Fatalf("%s: %s, but the interface's routing table is %d", name, vfC14RuleStr(r), want)
			}
			used[r.Table] = vfC14RuleStr(r)
		}
		for _, r := range routes {
			c.Trace("%s: route %s", name, r)
			if r.LinkIndex != f.Index {
				continue // not a route of this interface
			}
			if vfC14MainTable(r.Table) {
				continue
			}
			if r.Table != want {
				c.Fatalf("%s: route %s sits in table %d, but the interface's routing table is %d", name, r, r.Table, want)
			}
			used[r.Table] = "route " + r.String()
		}
		if s.Multi {
			// each family of the interface is routed through the interface's own table
			for _, v6 := range []bool{false, true} {
				ipn := cfg.ContainerIPNet.IPv4
				fam := "IPv4"
				if v6 {
					ipn, fam = cfg.ContainerIPNet.IPv6, "IPv6"
				}
				if ipn == nil {
					continue
				}
				haveRule, haveRoute := false, false
				for _, r := range rules {
					if r.Src != nil && r.Src.IP.Equal(ipn.IP) && r.Table == want {
						haveRule = true
					}
				}
				for _, r := range routes {
					if vfC14IsDefault(r, v6) && r.LinkIndex == f.Index && r.Table == want {
						haveRoute = true
					}
				}
				if !haveRule {
					c.Fatalf("%s, multi-network: no rule sends traffic from its %s address %s to its routing table %d", name, fam, ipn.IP, want)
				}
				if !haveRoute {
					c.Fatalf("%s, multi-network: its routing table %d holds no %s default route (routes: %v)", name, want, fam, routes)
				}
			}
		} else if len(rules) != 0 {
			c.Label("single-network-with-rules")
		}
		for tb, what := range used {
			if prev, ok := owner[tb]; ok && prev != i {
				c.Fatalf("interfaces eth%d (link index %d) and eth%d (link index %d) of one pod share routing table %d (%s)",
					prev, s.Ifs[prev].Index, i, f.Index, tb, what)
			}
			owner[tb] = i
		}

		if f.Driver != 2 {
			continue
		}
		// host side of the veth datapath: the table of the ENI that carries the pod's traffic
		table := utils.GetRouteTableID(f.ENIIndex)
		eni := vfC14Link(fmt.Sprintf("eni%d", f.ENIIndex), f.ENIIndex)
		peer := vfC14Link(fmt.Sprintf("cali%d", f.PeerIndex), f.PeerIndex)
		eniConf := GenerateENICfgForPolicy(cfg, eni, table)
		peerConf := GenerateHostPeerCfgForPolicy(cfg, peer, table)
		for _, hc := range []vfC14HostConf{
			{"ENI config", eniConf.Rules, eniConf.Routes},
			{"host peer config", peerConf.Rules, peerConf.Routes},
		} {
			for _, r := range hc.rules {
				c.Trace("%s host %s: %s", name, hc.what, vfC14RuleStr(r))
				if !vfC14MainTable(r.Table) && r.Table != table {
					c.Fatalf("%s, %s for ENI index %d: %s, but the ENI's routing table is %d", name, hc.what, f.ENIIndex, vfC14RuleStr(r), table)
				}
			}
			for _, r := range hc.routes {
				c.Trace("%s host %s: route %s", name, hc.what, r)
				if !vfC14MainTable(r.Table) && r.Table != table {
					c.Fatalf("%s, %s for ENI index %d: route %s sits in table %d, but the ENI's routing table is %d", name, hc.what, f.ENIIndex, r, r.Table, table)
				}
			}
		}
		for _, v6 := range []bool{false, true} {
			ipn, fam := cfg.ContainerIPNet.IPv4, "IPv4"
			if v6 {
				ipn, fam = cfg.ContainerIPNet.IPv6, "IPv6"
			}
			if ipn == nil {
				continue
			}
			haveRule, haveRoute := false, false
			for _, r := range peerConf.Rules {
				if r.Src != nil && r.Src.IP.Equal(ipn.IP) && r.Table == table {
					haveRule = true
				}
			}
			for _, r := range eniConf.Routes {
				if vfC14IsDefault(r, v6) && r.LinkIndex == f.ENIIndex && r.Table == table {
					haveRoute = true
				}
			}
			if !haveRule {
				c.Fatalf("%s, host side: no rule sends traffic from the pod's %s address %s to the table %d of its ENI (index %d)", name, fam, ipn.IP, table, f.ENIIndex)
			}
			if !haveRoute {
				c.Fatalf("%s, host side: table %d of ENI index %d holds no %s default route", name, table, f.ENIIndex, fam)
			}
		}
		if prev, ok := eniOwner[table]; ok && prev != f.ENIIndex {
			c.Fatalf("ENIs with link indexes %d and %d share routing table %d", prev, f.ENIIndex, table)
		}
		eniOwner[table] = f.ENIIndex
	}

	c.Labelf("interfaces=%d", len(s.Ifs))
	v6only := false
	for _, f := range s.Ifs {
		if f.Fam == 2 {
			v6only = true
		}
	}
	if s.Multi && v6only {
		c.Label("multi-network+ipv6-only-interface")
	}
	if s.Multi && (len(s.Ifs) >= 2 || v6only) {
		c.NonTrivial()
	}
}

func TestVerifC14IfaceTables(t *testing.T) {
	vt.Run(t, vfC14GenTab, vfC14RunTab)
}
