//go:build linux

package datapath

// C13 tier B: the policy-route (veth) and exclusive-ENI datapaths are run for real in
// private network namespaces (a veth pair stands in for the ENI): Setup / Check /
// Teardown for sequences of 1..3 pods sharing one ENI, in drawn order, including
// teardown twice and teardown without setup.  The kernel's own route lookup answers the
// routing-intent questions; rule/route/link dumps of the host namespace taken around
// every teardown show that everything of the pod is gone and nothing else changed.
//
// Needs: root, a private network + mount namespace (unit option unshare=True).

import (
	"context"
	"fmt"
	"net"
	"os"
	"runtime"
	"sort"
	"strings"
	"testing"
	"time"

	cniTypes "github.com/containernetworking/cni/pkg/types"
	"github.com/containernetworking/plugins/pkg/ns"
	"github.com/containernetworking/plugins/pkg/testutils"
	"github.com/vishvananda/netlink"
	"golang.org/x/sys/unix"
	"pgregory.net/rapid"

	"github.com/AliyunContainerService/terway/plugin/driver/nic"
	"github.com/AliyunContainerService/terway/plugin/driver/types"
	"github.com/AliyunContainerService/terway/plugin/driver/utils"
	terwayTypes "github.com/AliyunContainerService/terway/types"
	"github.com/AliyunContainerService/terway/zz_verif/vt"
)

const (
	c13kSetup = iota
	c13kCheck
	c13kTeardown
	c13kEniGone // policy-route: the shared ENI disappears (detached behind terway's back)
)

var c13kOpNames = []string{"setup", "check", "teardown", "eni-gone"}

// how TeardownCfg names the ENI
const (
	c13kIdxReal  = iota // the index of the ENI (stale once the ENI is gone)
	c13kIdxZero         // 0: the CNI could not resolve the ENI's MAC any more
	c13kIdxStale        // a positive index no link has (ENI re-attached under a new index)
)

type c13kPod struct {
	IP4     string     `json:"ip4"`
	Prefix4 int        `json:"prefix4"`
	IP6     string     `json:"ip6"`
	Prefix6 int        `json:"prefix6"`
	PodGW4  string     `json:"pod_gw4"`
	PodGW6  string     `json:"pod_gw6"`
	Extra   []c13Extra `json:"extra"`
	NoPeer  bool       `json:"no_peer"`
	Wide16  bool       `json:"wide16"`
	// policy-route only: before Setup the host namespace still holds rules for this very
	// address that point into another interface's table (a pod that lost its teardown, an
	// ENI that came back under a new index)
	Stale bool `json:"stale_rules"`
	// policy-route only: the IPv4 address was used before and the previous owner's host veth and
	// host route `A/32 dev <that veth>` are still there (its DEL was lost)
	PrevOwner bool `json:"prev_owner_route"`
	// policy-route only: before Setup the host namespace holds the legacy-format rule pair
	// (see LegacyUnrelated) for this very address
	LegacyOwn bool `json:"legacy_rules_own"`
	// bandwidth limits in bytes/s (0 = none), as pod annotations / runtime config give them
	Ingress uint64 `json:"ingress"`
	Egress  uint64 `json:"egress"`
	// exclusive ENI with eth1 only: the ENI of eth1 has, in the host namespace, the ifindex eth0
	// has inside the pod, so the kernel renumbers it when it is moved in
	Collide bool `json:"eth1_index_collides"`
	// exclusive ENI only: a second interface eth1 on its own ENI (MultiNetwork)
	Multi    bool   `json:"multi"`
	IP4b     string `json:"ip4_eth1"`
	IP6b     string `json:"ip6_eth1"`
	DefaultB bool   `json:"default_on_eth1"`
}

type c13kOp struct {
	Kind int `json:"kind"`
	Pod  int `json:"pod"`
	// teardown of a pod that is up: which of the pod's own host-namespace objects are already
	// gone when the DEL runs (an earlier DEL that was interrupted half way, an operator's
	// clean-up), bit mask of c13kGone*
	Partial int `json:"partial"`
}

const (
	c13kGoneFrom4  = 1 << iota // rule 2048 from A4
	c13kGoneTo4                // rule 512 to A4
	c13kGoneFrom6              // rule 2048 from A6
	c13kGoneTo6                // rule 512 to A6
	c13kGoneRoute4             // host route A4/32
	c13kGoneRoute6             // host route A6/128
	c13kGoneLink               // the host-side veth (with it, the container side)
)

var c13kGoneNames = []string{"from4", "to4", "from6", "to6", "route4", "route6", "hostlink"}

type c13kScenario struct {
	DP           int       `json:"dp"` // c13DPPolicy or c13DPExclusive
	V4           bool      `json:"v4"`
	V6           bool      `json:"v6"`
	MTU          int       `json:"mtu"`
	GW4          string    `json:"gw4"`
	GW6          string    `json:"gw6"`
	HostIP4      string    `json:"host_ip4"`
	HostIP6      string    `json:"host_ip6"`
	Svc4         string    `json:"svc4"`
	Svc6         string    `json:"svc6"`
	HostStack    []string  `json:"host_stack"`
	Pods         []c13kPod `json:"pods"`
	Ops          []c13kOp  `json:"ops"`
	Decoys       bool      `json:"decoys"`         // wider-prefix rules at the same priorities, installed before any pod
	NameInDel    bool      `json:"name_in_del"`    // TeardownCfg carries the host veth name (the CNI leaves it empty)
	EniIndexMode int       `json:"eni_index_mode"` // c13kIdx*
	// rules in the format older releases wrote, left by a pod that is long gone: `from U iif <veth
	// that no longer exists> lookup T` (prio 2048) plus the plain `to U lookup main` (prio 512),
	// U being nobody's address in this case; present before any pod is set up
	LegacyUnrelated bool   `json:"legacy_rules_unrelated"`
	BWMode          string `json:"bandwidth_mode"` // CNI conf: "", "tc" or "edt"
}

// the address of the long-gone pod of LegacyUnrelated (last byte 90: never a pod, gateway or node address)
var (
	c13kLegacy4 = net.IPv4(11, 250, 250, 90).To4()
	c13kLegacy6 = net.ParseIP("2400:fa::5a")
)

func c13kGen(t *rapid.T) c13kScenario {
	s := c13kScenario{}
	s.DP = rapid.SampledFrom([]int{c13DPPolicy, c13DPPolicy, c13DPPolicy, c13DPExclusive, c13DPExclusive, c13DPIPVlan, c13DPIPVlan}).Draw(t, "dp")
	switch rapid.IntRange(0, 3).Draw(t, "family") {
	case 0:
		s.V4 = true
	case 1:
		s.V6 = true
	default:
		s.V4, s.V6 = true, true
	}
	s.MTU = rapid.SampledFrom([]int{1280, 1500, 8500}).Draw(t, "mtu")
	s.GW4 = c13GenV4(t, c13PodB0, 200, "gw4")
	s.GW6 = c13GenV6(t, c13PodB06, 200, "gw6")
	if rapid.Bool().Draw(t, "gw6ll") {
		s.GW6 = "fe80::c8"
	}
	s.HostIP4 = c13GenV4(t, c13PodB0, byte(rapid.IntRange(100, 150).Draw(t, "h4")), "host4")
	s.HostIP6 = c13GenV6(t, c13PodB06, byte(rapid.IntRange(100, 150).Draw(t, "h6")), "host6")
	if rapid.Bool().Draw(t, "svc4") {
		_, n, _ := net.ParseCIDR(fmt.Sprintf("172.%d.0.0/%d", rapid.IntRange(16, 31).Draw(t, "svc4b"), rapid.IntRange(12, 24).Draw(t, "svc4p")))
		s.Svc4 = n.String()
	}
	if rapid.Bool().Draw(t, "svc6") {
		_, n, _ := net.ParseCIDR(fmt.Sprintf("fc00:%x::/%d", rapid.IntRange(0, 0xffff).Draw(t, "svc6b"), rapid.IntRange(32, 112).Draw(t, "svc6p")))
		s.Svc6 = n.String()
	}
	nHS := rapid.IntRange(0, 2).Draw(t, "hoststack")
	for i := 0; i < nHS; i++ {
		v6 := rapid.Bool().Draw(t, "hs6")
		if (v6 && !s.V6) || (!v6 && !s.V4) {
			v6 = !v6
		}
		if v6 {
			_, n, _ := net.ParseCIDR(fmt.Sprintf("fc01:%x::/%d", rapid.IntRange(0, 0xffff).Draw(t, "hs6b"), rapid.IntRange(32, 128).Draw(t, "hs6p")))
			s.HostStack = append(s.HostStack, n.String())
		} else {
			_, n, _ := net.ParseCIDR(fmt.Sprintf("100.100.%d.%d/%d", rapid.IntRange(0, 255).Draw(t, "hs4b"), rapid.IntRange(0, 255).Draw(t, "hs4c"), rapid.IntRange(24, 32).Draw(t, "hs4p")))
			s.HostStack = append(s.HostStack, n.String())
		}
	}
	nPods := rapid.IntRange(1, 3).Draw(t, "pods")
	base4 := [3]byte{rapid.SampledFrom(c13PodB0).Draw(t, "b4"), rapid.Byte().Draw(t, "b4"), rapid.Byte().Draw(t, "b4")}
	base6 := net.ParseIP(c13GenV6(t, c13PodB06, 0, "b6"))
	extraNo := 0
	for k := 0; k < nPods; k++ {
		var p c13kPod
		last := byte(2 + 2*k + rapid.IntRange(0, 1).Draw(t, "bit"))
		if rapid.IntRange(0, 3).Draw(t, "own4") == 0 {
			p.IP4 = c13GenV4(t, c13PodB0, last, "ip4")
		} else {
			p.IP4 = net.IPv4(base4[0], base4[1], base4[2], last).String()
		}
		p.Prefix4 = rapid.OneOf(rapid.IntRange(16, 28), rapid.IntRange(8, 32)).Draw(t, "p4")
		if rapid.IntRange(0, 3).Draw(t, "own6") == 0 {
			p.IP6 = c13GenV6(t, c13PodB06, last, "ip6")
		} else {
			ip := append(net.IP{}, base6...)
			ip[15] = last
			p.IP6 = ip.String()
		}
		p.Prefix6 = rapid.OneOf(rapid.IntRange(56, 120), rapid.IntRange(8, 128)).Draw(t, "p6")
		p.NoPeer = rapid.IntRange(0, 4).Draw(t, "nopeer") == 0
		p.Wide16 = rapid.Bool().Draw(t, "wide16")
		p.Stale = s.DP == c13DPPolicy && rapid.IntRange(0, 2).Draw(t, "stale") == 0
		p.PrevOwner = s.DP == c13DPPolicy && rapid.IntRange(0, 2).Draw(t, "prevowner") == 0
		p.LegacyOwn = s.DP == c13DPPolicy && rapid.IntRange(0, 3).Draw(t, "legacyown") == 0
		p.Ingress = rapid.SampledFrom(c13Rates).Draw(t, "ingress")
		p.Egress = rapid.SampledFrom(c13Rates).Draw(t, "egress")
		if s.DP == c13DPExclusive && rapid.IntRange(0, 2).Draw(t, "multi") == 0 {
			p.Multi = true
			p.NoPeer = rapid.Bool().Draw(t, "nopeer-multi")
			lastB := byte(2 + 2*(k+3) + rapid.IntRange(0, 1).Draw(t, "bitb"))
			p.IP4b = net.IPv4(base4[0], base4[1], rapid.Byte().Draw(t, "ip4b"), lastB).String()
			ip := append(net.IP{}, base6...)
			ip[7] ^= rapid.Byte().Draw(t, "ip6b")
			ip[15] = lastB
			p.IP6b = ip.String()
			p.DefaultB = rapid.Bool().Draw(t, "defaultb")
			p.Collide = rapid.Bool().Draw(t, "collide")
		}
		nExtra := rapid.SampledFrom([]int{0, 0, 1, 2}).Draw(t, "extras")
		for j := 0; j < nExtra; j++ {
			v6 := rapid.Bool().Draw(t, "x6")
			if (v6 && !s.V6) || (!v6 && !s.V4) {
				v6 = !v6
			}
			var x c13Extra
			if v6 {
				x.Dst = fmt.Sprintf("fd00:%x::/48", extraNo)
				if rapid.Bool().Draw(t, "xgw") {
					x.GW = c13GenV6(t, c13PodB06, byte(180+extraNo), "xgw6")
				}
			} else {
				x.Dst = fmt.Sprintf("100.%d.%d.0/24", 64+extraNo, rapid.IntRange(0, 255).Draw(t, "x4c"))
				if rapid.Bool().Draw(t, "xgw") {
					x.GW = c13GenV4(t, c13PodB0, byte(180+extraNo), "xgw4")
				}
			}
			extraNo++
			p.Extra = append(p.Extra, x)
		}
		s.Pods = append(s.Pods, p)
	}
	s.Ops = rapid.SliceOfN(rapid.Custom(func(t *rapid.T) c13kOp {
		return c13kOp{
			Kind: rapid.SampledFrom([]int{c13kSetup, c13kSetup, c13kSetup, c13kSetup, c13kCheck, c13kTeardown, c13kTeardown, c13kTeardown, c13kTeardown, c13kEniGone}).Draw(t, "kind"),
			Pod:  rapid.IntRange(0, 2).Draw(t, "pod"),
		}
	}), 2, 9).Draw(t, "ops")
	s.Ops[0].Kind = c13kSetup
	for i := range s.Ops {
		if s.Ops[i].Kind == c13kTeardown && rapid.IntRange(0, 1).Draw(t, "partial?") == 0 {
			s.Ops[i].Partial = rapid.OneOf(
				rapid.SampledFrom([]int{c13kGoneFrom4, c13kGoneTo4, c13kGoneFrom6, c13kGoneTo6, c13kGoneRoute4, c13kGoneRoute6, c13kGoneLink}),
				rapid.IntRange(1, 127),
			).Draw(t, "partial")
		}
	}
	for i := range s.Ops {
		// mostly address pods that exist, so that teardown usually meets a live pod
		if s.Ops[i].Pod >= nPods && rapid.IntRange(0, 3).Draw(t, "fold") != 0 {
			s.Ops[i].Pod %= nPods
		}
	}
	s.Decoys = rapid.IntRange(0, 3).Draw(t, "decoys") != 0
	s.NameInDel = rapid.Bool().Draw(t, "nameindel")
	s.LegacyUnrelated = rapid.IntRange(0, 2).Draw(t, "legacyunrelated") == 0
	s.BWMode = rapid.SampledFrom([]string{"", types.BandwidthModeTC, types.BandwidthModeTC, types.BandwidthModeEDT}).Draw(t, "bwmode")
	s.EniIndexMode = rapid.SampledFrom([]int{c13kIdxReal, c13kIdxReal, c13kIdxReal, c13kIdxZero, c13kIdxStale}).Draw(t, "eniindexmode")
	return s
}

// ---- dumps -----------------------------------------------------------------------------

type c13kItem struct {
	Kind string // rule | route | link
	Key  string
	Iif  string // rules
	Src  string // rules: selector prefixes
	Dst  string // rules, routes
	Oif  int
	Name string
}

type c13kDump map[string]c13kItem

var (
	_, c13kLL, _    = net.ParseCIDR("fe80::/10")
	_, c13kMcast, _ = net.ParseCIDR("ff00::/8")
)

// c13kSnapshot dumps rules, routes (all tables) and links of the current namespace.
// Kernel-generated IPv6 link-local / multicast entries appear asynchronously (DAD) and
// are left out.
func c13kSnapshot() (c13kDump, error) {
	d := c13kDump{}
	links, err := netlink.LinkList()
	if err != nil {
		return nil, err
	}
	names := map[int]string{}
	for _, l := range links {
		names[l.Attrs().Index] = l.Attrs().Name
		it := c13kItem{Kind: "link", Name: l.Attrs().Name, Oif: l.Attrs().Index}
		it.Key = fmt.Sprintf("link %s type %s", it.Name, l.Type())
		d[it.Key] = it
	}
	for _, fam := range []int{netlink.FAMILY_V4, netlink.FAMILY_V6} {
		rules, err := netlink.RuleList(fam)
		if err != nil {
			return nil, err
		}
		for _, r := range rules {
			it := c13kItem{Kind: "rule", Src: c13NetStr(r.Src), Dst: c13NetStr(r.Dst), Iif: r.IifName}
			it.Key = fmt.Sprintf("rule v%d %d: from %q to %q iif %q oif %q lookup %d", fam, r.Priority, it.Src, it.Dst, r.IifName, r.OifName, r.Table)
			d[it.Key] = it
		}
		routes, err := netlink.RouteListFiltered(fam, &netlink.Route{Table: unix.RT_TABLE_UNSPEC}, netlink.RT_FILTER_TABLE)
		if err != nil {
			return nil, err
		}
		for _, r := range routes {
			if r.Dst != nil && fam == netlink.FAMILY_V6 && (c13kLL.Contains(r.Dst.IP) || c13kMcast.Contains(r.Dst.IP)) {
				continue
			}
			dst := "default"
			if r.Dst != nil {
				dst = r.Dst.String()
			}
			it := c13kItem{Kind: "route", Dst: dst, Oif: r.LinkIndex}
			gw := ""
			if r.Gw != nil {
				gw = r.Gw.String()
			}
			it.Key = fmt.Sprintf("route v%d table %d %s dev %s(#%d) via %q type %d scope %d", fam, r.Table, dst, names[r.LinkIndex], r.LinkIndex, gw, r.Type, r.Scope)
			d[it.Key] = it
		}
	}
	return d, nil
}

func (d c13kDump) keys() []string {
	out := make([]string, 0, len(d))
	for k := range d {
		out = append(out, k)
	}
	sort.Strings(out)
	return out
}

// ---- environment of one case -------------------------------------------------------------

type c13kLive struct {
	ns       ns.NetNS
	hostLink int // index of the host-side veth while set up (0: none)
	eniName  string
}

type c13kEnv struct {
	c      *vt.Ctx
	s      *c13kScenario
	ctx    context.Context
	host   ns.NetNS
	allNS  []ns.NetNS
	eni    netlink.Link // shared ENI stand-in (policy)
	live   map[int]*c13kLive
	everUp map[int]bool
	// known finding C13-exclusive-eth1-host-peer: run multi-network pods with eth0 only
	dropSecond bool
	noGuard    bool
	eniGone    bool
	staleTable int    // table of "another interface" that stale rules point into
	raDone     bool   // a router advertisement was already sent in this case
	slaveName  string // ipvlan: name of the host-side slave ipvl_<eni index> (a veth stands in)
}

func (e *c13kEnv) scaffold(err error, what string) {
	if err != nil {
		e.c.Inconclusive("scaffold: " + what + ": " + err.Error())
	}
}

func (e *c13kEnv) newNS() ns.NetNS {
	n, err := testutils.NewNS()
	e.scaffold(err, "new netns")
	e.allNS = append(e.allNS, n)
	return n
}

func c13kVeth(name, peer string) error {
	if err := netlink.LinkAdd(&netlink.Veth{LinkAttrs: netlink.LinkAttrs{Name: name}, PeerName: peer}); err != nil {
		return err
	}
	for _, n := range []string{name, peer} {
		l, err := netlink.LinkByName(n)
		if err != nil {
			return err
		}
		if err := netlink.LinkSetUp(l); err != nil {
			return err
		}
	}
	return nil
}

func (s *c13kScenario) podOf(k int) int { return ((k % len(s.Pods)) + len(s.Pods)) % len(s.Pods) }

func c13kHostVeth(p int) string { return fmt.Sprintf("cali%08d", p) }
func c13kEniName(p int) string  { return fmt.Sprintf("eni%d", p) }

// names of interface i (0: eth0, 1: eth1) of pod p
func c13kIfName(i int) string { return fmt.Sprintf("eth%d", i) }
func c13kIfHostVeth(p, i int) string {
	if i == 0 {
		return c13kHostVeth(p)
	}
	return fmt.Sprintf("cali%07db", p) // link.VethNameForPod hashes the interface name in
}
func c13kIfEni(p, i int) string {
	if i == 0 {
		return c13kEniName(p)
	}
	return c13kEniName(p) + "b"
}

// ifaces: how many interfaces pod p has in this run
func (e *c13kEnv) ifaces(p int) int {
	if e.s.Pods[p].Multi && !e.dropSecond {
		return 2
	}
	return 1
}

func (e *c13kEnv) ifAddr(p, i int, v6 bool) net.IP {
	pod := &e.s.Pods[p]
	switch {
	case i == 0 && !v6:
		return net.ParseIP(pod.IP4).To4()
	case i == 0:
		return net.ParseIP(pod.IP6)
	case !v6:
		return net.ParseIP(pod.IP4b).To4()
	}
	return net.ParseIP(pod.IP6b)
}

func (e *c13kEnv) setupConfig(p int, eniIndex int) *types.SetupConfig {
	return e.setupConfigIf(p, 0, eniIndex)
}

func (e *c13kEnv) setupConfigIf(p, i int, eniIndex int) *types.SetupConfig {
	s := e.s
	pod := &s.Pods[p]
	cfg := &types.SetupConfig{
		HostVETHName:      c13kIfHostVeth(p, i),
		ContainerIfName:   c13kIfName(i),
		ContainerIPNet:    &terwayTypes.IPNetSet{},
		GatewayIP:         &terwayTypes.IPSet{},
		ENIGatewayIP:      &terwayTypes.IPSet{},
		HostIPSet:         &terwayTypes.IPNetSet{},
		ServiceCIDR:       &terwayTypes.IPNetSet{IPv4: c13CIDR(s.Svc4), IPv6: c13CIDR(s.Svc6)},
		MTU:               s.MTU,
		ENIIndex:          eniIndex,
		DefaultRoute:      true,
		DisableCreatePeer: pod.NoPeer,
		BandwidthMode:     s.BWMode,
	}
	cfg.Ingress, cfg.Egress = e.bandwidth(p)
	if e.ifaces(p) > 1 {
		cfg.MultiNetwork = true
		cfg.DefaultRoute = (i == 1) == pod.DefaultB
	}
	if s.DP == c13DPPolicy || s.DP == c13DPIPVlan {
		cfg.DP = types.IPVlan
	} else {
		cfg.DP = types.ExclusiveENI
	}
	if s.DP == c13DPIPVlan {
		cfg.ExtraRoutes = nil
	}
	if s.V4 {
		cfg.ContainerIPNet.IPv4 = &net.IPNet{IP: c13IP(e.ifAddr(p, i, false).String(), pod.Wide16), Mask: net.CIDRMask(pod.Prefix4, 32)}
		cfg.GatewayIP.IPv4 = c13IP(s.GW4, pod.Wide16)
		cfg.ENIGatewayIP.IPv4 = c13IP(s.GW4, pod.Wide16)
		cfg.HostIPSet.IPv4 = &net.IPNet{IP: c13IP(s.HostIP4, pod.Wide16), Mask: net.CIDRMask(32, 32)}
	}
	if s.V6 {
		cfg.ContainerIPNet.IPv6 = &net.IPNet{IP: e.ifAddr(p, i, true), Mask: net.CIDRMask(pod.Prefix6, 128)}
		cfg.GatewayIP.IPv6 = net.ParseIP(s.GW6)
		cfg.ENIGatewayIP.IPv6 = net.ParseIP(s.GW6)
		cfg.HostIPSet.IPv6 = &net.IPNet{IP: net.ParseIP(s.HostIP6), Mask: net.CIDRMask(128, 128)}
	}
	for _, h := range s.HostStack {
		if s.DP == c13DPIPVlan && c13IsV6(c13CIDR(h).IP) {
			// the ipvlan redirect filters are IPv4 only: setupFilters rejects an IPv6 CIDR
			// ("only support ipv4"), which is the tc part this tier cannot judge anyway
			continue
		}
		cfg.HostStackCIDRs = append(cfg.HostStackCIDRs, c13CIDR(h))
	}
	for _, x := range pod.Extra {
		if i != 0 {
			break // extra routes belong to eth0 in this harness
		}
		r := cniTypes.Route{Dst: *c13CIDR(x.Dst)}
		if x.GW != "" {
			r.GW = c13IP(x.GW, pod.Wide16)
		}
		cfg.ExtraRoutes = append(cfg.ExtraRoutes, r)
	}
	return cfg
}

// podAddrs: the addresses of eth0 (the only interface with a host-side link)
func (e *c13kEnv) podAddrs(p int) []net.IP {
	var out []net.IP
	if e.s.V4 {
		out = append(out, e.ifAddr(p, 0, false))
	}
	if e.s.V6 {
		out = append(out, e.ifAddr(p, 0, true))
	}
	return out
}

// allAddrs: addresses of every interface the scenario may give the pod
func (e *c13kEnv) allAddrs(p int) []net.IP {
	out := e.podAddrs(p)
	if e.s.Pods[p].Multi {
		if e.s.V4 {
			out = append(out, e.ifAddr(p, 1, false))
		}
		if e.s.V6 {
			out = append(out, e.ifAddr(p, 1, true))
		}
	}
	return out
}

func c13kHostPrefix(ip net.IP) string {
	if ip4 := ip.To4(); ip4 != nil {
		return (&net.IPNet{IP: ip4, Mask: net.CIDRMask(32, 32)}).String()
	}
	return (&net.IPNet{IP: ip, Mask: net.CIDRMask(128, 128)}).String()
}

// podSpecific: does a dumped item belong to pod p (its address as a host prefix, its
// host-side link, routes through that link)?
func (e *c13kEnv) podSpecific(p int, hostLink int, it c13kItem) bool {
	switch it.Kind {
	case "link":
		if it.Name == c13kIfHostVeth(p, 0) || it.Name == c13kIfHostVeth(p, 1) {
			return true
		}
		if e.s.DP == c13DPExclusive {
			for i := 0; i < 2; i++ {
				if it.Name == c13kIfEni(p, i) || it.Name == c13kIfEni(p, i)+"p" {
					return true
				}
			}
		}
		return false
	case "rule":
		for _, a := range e.allAddrs(p) {
			if it.Src == c13kHostPrefix(a) || it.Dst == c13kHostPrefix(a) {
				return true
			}
		}
	case "route":
		if hostLink != 0 && it.Oif == hostLink {
			return true
		}
		for _, a := range e.allAddrs(p) {
			if it.Dst == c13kHostPrefix(a) {
				return true
			}
		}
	}
	return false
}

func (e *c13kEnv) fatal(f string, a ...any) {
	if d, err := c13kSnapshot(); err == nil {
		for _, k := range d.keys() {
			e.c.Trace("host: %s", k)
		}
	}
	e.c.Fatalf(f, a...)
}

// ---- kernel lookups -------------------------------------------------------------------------

func c13kRouteGet(dst net.IP, opt *netlink.RouteGetOptions) (netlink.Route, error) {
	rs, err := netlink.RouteGetWithOptions(dst, opt)
	if err != nil {
		return netlink.Route{}, err
	}
	if len(rs) != 1 {
		return netlink.Route{}, fmt.Errorf("route get returned %d routes", len(rs))
	}
	return rs[0], nil
}

func c13kDescribe(r netlink.Route) string {
	name := fmt.Sprintf("#%d", r.LinkIndex)
	if l, err := netlink.LinkByIndex(r.LinkIndex); err == nil {
		name = l.Attrs().Name
	}
	s := fmt.Sprintf("dev %s table %d type %d", name, r.Table, r.Type)
	if r.Gw != nil {
		s += " via " + r.Gw.String()
	}
	return s
}

func c13kOutside(v6 bool) net.IP {
	if v6 {
		return c13Outside6
	}
	return c13Outside4
}

// verifyLive checks the routing intent for one pod that is set up.
func (e *c13kEnv) verifyLive(p int, when string) {
	s := e.s
	lv := e.live[p]
	pod := &s.Pods[p]
	tag := fmt.Sprintf("%s: pod%d", when, p)
	hostSideName := c13kHostVeth(p)
	if s.DP == c13DPIPVlan {
		hostSideName = e.slaveName
	}
	hostVeth, herr := netlink.LinkByName(hostSideName)
	wantPeer := s.DP == c13DPPolicy || s.DP == c13DPIPVlan || !pod.NoPeer
	if wantPeer && herr != nil {
		e.fatal("%s: host-side link %s is missing: %v", tag, hostSideName, herr)
	}
	for _, a := range e.podAddrs(p) {
		v6 := a.To4() == nil
		if wantPeer {
			// to the pod, from the node itself and forwarded from the primary interface
			for _, opt := range []*netlink.RouteGetOptions{nil, {Iif: "eth0", SrcAddr: c13kOutside(v6)}} {
				r, err := c13kRouteGet(a, opt)
				if err != nil {
					e.fatal("%s: route get %s (%+v): %v", tag, a, opt, err)
				}
				if r.LinkIndex != hostVeth.Attrs().Index || r.Gw != nil {
					e.fatal("%s: traffic to %s (%+v) goes %s, want dev %s directly", tag, a, opt, c13kDescribe(r), hostSideName)
				}
			}
			// from another live pod
			for q, lq := range e.live {
				if q == p || lq == nil || s.DP != c13DPPolicy {
					continue
				}
				for _, b := range e.podAddrs(q) {
					if (b.To4() == nil) != v6 {
						continue
					}
					r, err := c13kRouteGet(a, &netlink.RouteGetOptions{Iif: c13kHostVeth(q), SrcAddr: b})
					if err != nil {
						e.fatal("%s: route get %s from %s iif %s: %v", tag, a, b, c13kHostVeth(q), err)
					}
					if r.LinkIndex != hostVeth.Attrs().Index || r.Gw != nil {
						e.fatal("%s: traffic from pod%d (%s) to %s goes %s, want dev %s directly", tag, q, b, a, c13kDescribe(r), c13kHostVeth(p))
					}
				}
			}
		}
		if s.DP == c13DPPolicy && !e.eniGone {
			gw := net.ParseIP(s.GW4)
			if v6 {
				gw = net.ParseIP(s.GW6)
			}
			r, err := c13kRouteGet(c13kOutside(v6), &netlink.RouteGetOptions{Iif: c13kHostVeth(p), SrcAddr: a})
			if err != nil {
				e.fatal("%s: route get outside from %s iif %s: %v", tag, a, c13kHostVeth(p), err)
			}
			if r.LinkIndex != e.eni.Attrs().Index || r.Gw == nil || !r.Gw.Equal(gw) || r.Table != 1000+e.eni.Attrs().Index {
				e.fatal("%s: traffic from %s to outside goes %s, want dev %s via %s in table %d", tag, a, c13kDescribe(r), e.eni.Attrs().Name, gw, 1000+e.eni.Attrs().Index)
			}
		}
	}

	// inside the container
	err := lv.ns.Do(func(ns.NetNS) error {
		eth0, err := netlink.LinkByName("eth0")
		if err != nil {
			return fmt.Errorf("no eth0 in the container: %v", err)
		}
		if eth0.Attrs().Flags&net.FlagUp == 0 {
			return fmt.Errorf("eth0 is down")
		}
		if eth0.Attrs().MTU != s.MTU {
			return fmt.Errorf("eth0 mtu %d, want %d", eth0.Attrs().MTU, s.MTU)
		}
		for _, v6 := range []bool{false, true} {
			fam, famName := netlink.FAMILY_V4, "IPv4"
			if v6 {
				fam, famName = netlink.FAMILY_V6, "IPv6"
			}
			enabled := (v6 && s.V6) || (!v6 && s.V4)
			defs, err := netlink.RouteListFiltered(fam, &netlink.Route{Dst: nil, Table: unix.RT_TABLE_UNSPEC}, netlink.RT_FILTER_DST|netlink.RT_FILTER_TABLE)
			if err != nil {
				return err
			}
			var mainDefs []netlink.Route
			for _, d := range defs {
				if d.Table == unix.RT_TABLE_MAIN && d.Type == unix.RTN_UNICAST {
					mainDefs = append(mainDefs, d)
				}
			}
			rules, err := netlink.RuleList(fam)
			if err != nil {
				return err
			}
			links, err := netlink.LinkList()
			if err != nil {
				return err
			}
			var globals []string
			for _, l := range links {
				as, err := netlink.AddrList(l, fam)
				if err != nil {
					return err
				}
				for _, a := range as {
					if a.IP.IsGlobalUnicast() {
						globals = append(globals, a.IPNet.String()+" on "+l.Attrs().Name)
					}
				}
			}
			if !enabled {
				if len(mainDefs) != 0 {
					return fmt.Errorf("%s is disabled but the container has default routes %v", famName, mainDefs)
				}
				if len(globals) != 0 {
					return fmt.Errorf("%s is disabled but the container has addresses %v", famName, globals)
				}
				base := 3
				if v6 {
					base = 2
				}
				if !v6 && e.ifaces(p) > 1 && !e.noGuard && vt.Known(c13KnownOifRule) {
					// known finding: the per-interface oif rule is installed as an IPv4 rule
					kept := rules[:0]
					for _, r := range rules {
						if r.OifName == "" {
							kept = append(kept, r)
						}
					}
					rules = kept
				}
				if len(rules) != base {
					return fmt.Errorf("%s is disabled but the container has rules %v", famName, rules)
				}
				routes, err := netlink.RouteListFiltered(fam, &netlink.Route{Table: unix.RT_TABLE_UNSPEC}, netlink.RT_FILTER_TABLE)
				if err != nil {
					return err
				}
				for _, r := range routes {
					if r.Dst != nil && v6 && (c13kLL.Contains(r.Dst.IP) || c13kMcast.Contains(r.Dst.IP) || r.Dst.IP.IsLoopback()) {
						continue
					}
					if r.Dst != nil && !v6 && r.Dst.IP.IsLoopback() {
						continue
					}
					if !v6 && r.Table == unix.RT_TABLE_LOCAL && r.Dst != nil && r.Dst.IP[0] == 127 {
						continue
					}
					return fmt.Errorf("%s is disabled but the container has route %s", famName, r)
				}
				continue
			}
			if len(mainDefs) != 1 {
				return fmt.Errorf("want exactly one %s default route, have %d: %v", famName, len(mainDefs), mainDefs)
			}
			wantGW := net.ParseIP(s.GW4)
			if v6 {
				wantGW = net.ParseIP(s.GW6)
			}
			if s.DP == c13DPPolicy {
				wantGW = net.IPv4(169, 254, 1, 1)
				if v6 {
					wantGW = net.ParseIP("fe80::1")
				}
			}
			defIf := 0
			if e.ifaces(p) > 1 && pod.DefaultB {
				defIf = 1
			}
			defLink, err := netlink.LinkByName(c13kIfName(defIf))
			if err != nil {
				return fmt.Errorf("no %s in the container: %v", c13kIfName(defIf), err)
			}
			r, err := c13kRouteGet(c13kOutside(v6), nil)
			if err != nil {
				return fmt.Errorf("route get outside (%s): %v", famName, err)
			}
			if r.LinkIndex != defLink.Attrs().Index || r.Gw == nil || !r.Gw.Equal(wantGW) {
				return fmt.Errorf("%s traffic to outside goes %s, want dev %s via %s", famName, c13kDescribe(r), c13kIfName(defIf), wantGW)
			}
			for i := 0; i < e.ifaces(p); i++ {
				l, err := netlink.LinkByName(c13kIfName(i))
				if err != nil {
					return fmt.Errorf("no %s in the container: %v", c13kIfName(i), err)
				}
				ip := e.ifAddr(p, i, v6)
				found := false
				as, err := netlink.AddrList(l, fam)
				if err != nil {
					return err
				}
				for _, a := range as {
					if a.IP.Equal(ip) {
						found = true
					}
				}
				if !found {
					return fmt.Errorf("address %s is not on %s (%v)", ip, c13kIfName(i), as)
				}
				if e.ifaces(p) > 1 {
					// traffic sourced from the interface's address leaves through it, from its own table
					r, err := c13kRouteGet(c13kOutside(v6), &netlink.RouteGetOptions{SrcAddr: ip})
					if err != nil {
						return fmt.Errorf("route get outside from %s: %v", ip, err)
					}
					if r.LinkIndex != l.Attrs().Index || r.Gw == nil || !r.Gw.Equal(wantGW) || r.Table != 1000+l.Attrs().Index {
						return fmt.Errorf("traffic from %s to outside goes %s, want dev %s via %s in table %d", ip, c13kDescribe(r), c13kIfName(i), wantGW, 1000+l.Attrs().Index)
					}
					if !v6 {
						r, err := c13kRouteGet(c13kOutside(v6), &netlink.RouteGetOptions{Oif: c13kIfName(i)})
						if err != nil {
							return fmt.Errorf("route get outside oif %s: %v", c13kIfName(i), err)
						}
						if r.LinkIndex != l.Attrs().Index || r.Table != 1000+l.Attrs().Index {
							return fmt.Errorf("traffic bound to %s goes %s, want table %d", c13kIfName(i), c13kDescribe(r), 1000+l.Attrs().Index)
						}
					}
				}
			}
			for _, x := range pod.Extra {
				dst := c13CIDR(x.Dst)
				if c13IsV6(dst.IP) != v6 || s.DP == c13DPIPVlan {
					continue
				}
				probe := append(net.IP{}, dst.IP...)
				probe[len(probe)-1] |= 9
				r, err := c13kRouteGet(probe, nil)
				if err != nil {
					return fmt.Errorf("route get %s (extra route %s): %v", probe, x.Dst, err)
				}
				okGW := (x.GW == "" && r.Gw == nil) || (x.GW != "" && r.Gw != nil && r.Gw.Equal(net.ParseIP(x.GW)))
				if r.LinkIndex != eth0.Attrs().Index || !okGW {
					return fmt.Errorf("extra route %s via %q: traffic to %s goes %s", x.Dst, x.GW, probe, c13kDescribe(r))
				}
			}
			if s.DP == c13DPExclusive && !pod.NoPeer {
				veth1, err := netlink.LinkByName("veth1")
				if err != nil {
					return fmt.Errorf("no veth1 in the container: %v", err)
				}
				peer := net.IPv4(169, 254, 1, 1)
				hip, svc := net.ParseIP(s.HostIP4), s.Svc4
				if v6 {
					peer, hip, svc = net.ParseIP("fe80::1"), net.ParseIP(s.HostIP6), s.Svc6
				}
				probes := map[string]net.IP{"the node address": hip}
				if svc != "" {
					n := c13CIDR(svc)
					pr := append(net.IP{}, n.IP...)
					pr[len(pr)-1] |= 10
					probes["service CIDR "+svc] = pr
				}
				for _, h := range s.HostStack {
					n := c13CIDR(h)
					if c13IsV6(n.IP) == v6 {
						probes["host-stack CIDR "+h] = n.IP
					}
				}
				for what, pr := range probes {
					r, err := c13kRouteGet(pr, nil)
					if err != nil {
						return fmt.Errorf("route get %s (%s): %v", pr, what, err)
					}
					if r.LinkIndex != veth1.Attrs().Index || r.Gw == nil || !r.Gw.Equal(peer) {
						return fmt.Errorf("%s: traffic to %s goes %s, want dev veth1 via %s", what, pr, c13kDescribe(r), peer)
					}
				}
			}
		}
		return nil
	})
	if err != nil {
		e.fatal("%s: container: %v", tag, err)
	}
}

// verifyGone: nothing of pod p is left in the host namespace.
func (e *c13kEnv) verifyGone(p int, hostLink int, post c13kDump, when string) {
	for _, k := range post.keys() {
		if e.podSpecific(p, hostLink, post[k]) {
			e.fatal("%s: pod%d is torn down but the host namespace still has: %s", when, p, k)
		}
	}
}

func (e *c13kEnv) doSetup(p int, when string) {
	s := e.s
	cont := e.newNS()
	eni := e.eni
	// the CNI makes the host namespace forward before any datapath runs (doCmdAdd)
	if err := utils.EnsureHostNsConfig(s.V4, s.V6); err != nil {
		e.fatal("%s: EnsureHostNsConfig: %v", when, err)
	}
	if s.DP == c13DPPolicy && s.Pods[p].Stale {
		for _, a := range e.podAddrs(p) {
			_, hp, _ := net.ParseCIDR(c13kHostPrefix(a))
			to := netlink.NewRule()
			to.Priority, to.Table, to.Dst = toContainerPriority, e.staleTable, hp
			from := netlink.NewRule()
			from.Priority, from.Table, from.Src = fromContainerPriority, e.staleTable, hp
			for _, r := range []*netlink.Rule{to, from} {
				if err := netlink.RuleAdd(r); err != nil && !os.IsExist(err) {
					e.scaffold(err, "stale rule")
				}
			}
		}
		e.c.Label("stale-rules-before-setup")
	}
	if s.DP == c13DPPolicy && s.Pods[p].LegacyOwn {
		for _, a := range e.podAddrs(p) {
			e.legacyPair(a, fmt.Sprintf("gone%d", p))
		}
		e.c.Label("legacy-rules-own-before-setup")
	}
	if s.DP == c13DPPolicy && s.Pods[p].PrevOwner && s.V4 {
		prev := fmt.Sprintf("prev%d", p)
		if _, err := netlink.LinkByName(prev); err != nil {
			e.scaffold(c13kVeth(prev, prev+"p"), "previous owner's veth")
		}
		l, err := netlink.LinkByName(prev)
		e.scaffold(err, "previous owner's veth")
		_, hp, _ := net.ParseCIDR(c13kHostPrefix(e.ifAddr(p, 0, false)))
		e.scaffold(netlink.RouteReplace(&netlink.Route{LinkIndex: l.Attrs().Index, Scope: netlink.SCOPE_LINK, Dst: hp}), "previous owner's host route")
		e.c.Label("prev-owner-route-before-setup")
	}
	for i := 0; i < e.ifaces(p); i++ {
		if s.DP == c13DPExclusive {
			made := false
			if i == 1 && s.Pods[p].Collide {
				// give the ENI of eth1 the host ifindex that eth0 already occupies inside the pod
				idx := 0
				_ = cont.Do(func(ns.NetNS) error {
					if l, err := netlink.LinkByName(c13kIfName(0)); err == nil {
						idx = l.Attrs().Index
					}
					return nil
				})
				if idx > 0 {
					name := c13kIfEni(p, i)
					if err := netlink.LinkAdd(&netlink.Veth{LinkAttrs: netlink.LinkAttrs{Name: name, Index: idx}, PeerName: name + "p"}); err == nil {
						for _, n := range []string{name, name + "p"} {
							l, err := netlink.LinkByName(n)
							e.scaffold(err, "ENI stand-in")
							e.scaffold(netlink.LinkSetUp(l), "ENI stand-in up")
						}
						made = true
						e.c.Label("eth1-eni-index-collides")
					}
				}
			}
			if !made {
				e.scaffold(c13kVeth(c13kIfEni(p, i), c13kIfEni(p, i)+"p"), "ENI stand-in")
			}
			l, err := netlink.LinkByName(c13kIfEni(p, i))
			e.scaffold(err, "ENI stand-in")
			eni = l
		}
		cfg := e.setupConfigIf(p, i, eni.Attrs().Index)
		var err error
		switch s.DP {
		case c13DPPolicy:
			err = NewPolicyRoute().Setup(e.ctx, cfg, cont)
		case c13DPIPVlan:
			err = e.ipvlanSetup(cfg, cont)
		default:
			err = NewExclusiveENIDriver().Setup(e.ctx, cfg, cont)
		}
		if err != nil {
			e.fatal("%s: Setup(pod%d/%s) failed: %v", when, p, c13kIfName(i), err)
		}
	}
	lv := &c13kLive{ns: cont, eniName: eni.Attrs().Name}
	if l, err := netlink.LinkByName(c13kHostVeth(p)); err == nil {
		lv.hostLink = l.Attrs().Index
	}
	e.live[p] = lv
	e.everUp[p] = true
	if s.V6 && (s.DP == c13DPExclusive || s.DP == c13DPIPVlan) {
		e.raProbe(p, when)
	}
}

// ---- router advertisements ---------------------------------------------------------------
//
// "Exactly one default route per enabled family" has to survive the segment the pod sits on: a
// VPC segment carries router advertisements, and an interface that accepts them grows a second
// `default via fe80::… proto ra`.  The pod-side interfaces that face the ENI segment (exclusive
// ENI, ipvlan) must therefore have accept_ra=0 after Setup; where the kernel lets the harness
// send a real advertisement from the far end, the single default route is checked afterwards
// (by verifyLive, which runs after every operation).

// c13kRACount: router advertisements received so far in the namespace of the calling thread.
func c13kRACount() (int, error) {
	b, err := os.ReadFile("/proc/thread-self/net/snmp6")
	if err != nil {
		return 0, err
	}
	for _, line := range strings.Split(string(b), "\n") {
		f := strings.Fields(line)
		if len(f) == 2 && f[0] == "Icmp6InRouterAdvertisements" {
			n := 0
			_, err := fmt.Sscanf(f[1], "%d", &n)
			return n, err
		}
	}
	return 0, fmt.Errorf("no Icmp6InRouterAdvertisements counter")
}

// c13kSendRA emits one unsolicited router advertisement (router lifetime 1800 s) on link `name`
// of the calling thread's namespace, from a link-local address added for that purpose.
func c13kSendRA(name string) error {
	l, err := netlink.LinkByName(name)
	if err != nil {
		return err
	}
	src := net.ParseIP("fe80::13:ee")
	err = netlink.AddrAdd(l, &netlink.Addr{IPNet: &net.IPNet{IP: src, Mask: net.CIDRMask(64, 128)}, Flags: unix.IFA_F_NODAD})
	if err != nil && !os.IsExist(err) {
		return err
	}
	fd, err := unix.Socket(unix.AF_INET6, unix.SOCK_RAW|unix.SOCK_CLOEXEC, unix.IPPROTO_ICMPV6)
	if err != nil {
		return err
	}
	defer unix.Close(fd)
	idx := l.Attrs().Index
	if err := unix.SetsockoptInt(fd, unix.IPPROTO_IPV6, unix.IPV6_MULTICAST_HOPS, 255); err != nil {
		return err
	}
	if err := unix.SetsockoptInt(fd, unix.IPPROTO_IPV6, unix.IPV6_MULTICAST_IF, idx); err != nil {
		return err
	}
	var sa unix.SockaddrInet6
	copy(sa.Addr[:], src.To16())
	sa.ZoneId = uint32(idx)
	if err := unix.Bind(fd, &sa); err != nil {
		return err
	}
	msg := []byte{
		134, 0, 0, 0, // type router advertisement, code 0, checksum (filled in by the kernel)
		64, 0, // cur hop limit, flags
		0x07, 0x08, // router lifetime 1800 s
		0, 0, 0, 0, 0, 0, 0, 0, // reachable time, retrans timer
		1, 1, // option: source link-layer address
	}
	mac := l.Attrs().HardwareAddr
	if len(mac) != 6 {
		return fmt.Errorf("link %s has no ethernet address", name)
	}
	msg = append(msg, mac...)
	var dst unix.SockaddrInet6
	copy(dst.Addr[:], net.ParseIP("ff02::1").To16())
	dst.ZoneId = uint32(idx)
	return unix.Sendto(fd, msg, 0, &dst)
}

func (e *c13kEnv) raProbe(p int, when string) {
	lv := e.live[p]
	for i := 0; i < e.ifaces(p); i++ {
		ifName := c13kIfName(i)
		val, before := "", 0
		err := lv.ns.Do(func(ns.NetNS) error {
			b, err := os.ReadFile("/proc/sys/net/ipv6/conf/" + ifName + "/accept_ra")
			if err != nil {
				return err
			}
			val = strings.TrimSpace(string(b))
			before, err = c13kRACount()
			return err
		})
		if err != nil {
			e.fatal("%s: pod%d/%s: reading accept_ra: %v", when, p, ifName, err)
		}
		if val != "0" {
			e.fatal("%s: pod%d/%s faces the ENI segment with accept_ra=%s: a router advertisement adds a second IPv6 default route (want 0)", when, p, ifName, val)
		}
		// a real advertisement from the far end of the interface (once per case: the interface
		// may take up to a second to start listening, see below)
		if e.raDone {
			continue
		}
		e.raDone = true
		send := func() error {
			if e.s.DP == c13DPExclusive {
				return c13kSendRA(c13kIfEni(p, i) + "p")
			}
			return lv.ns.Do(func(ns.NetNS) error { return c13kSendRA("ipv0p") })
		}
		err = send()
		if err != nil {
			e.c.Trace("%s: pod%d/%s: cannot send a router advertisement: %v", when, p, ifName, err)
			e.c.Label("ra:cannot-send")
			continue
		}
		delivered := false
		for try := 0; try < 300 && !delivered; try++ {
			if try > 0 && try%20 == 0 {
				// the interface only listens once the kernel's link watch has seen its carrier
				// (rate limited to one event per second): keep advertising, as a router does
				_ = send()
			}
			_ = lv.ns.Do(func(ns.NetNS) error {
				if n, err := c13kRACount(); err == nil && n > before {
					delivered = true
				}
				return nil
			})
			if !delivered {
				time.Sleep(5 * time.Millisecond)
			}
		}
		if !delivered {
			e.c.Labelf("ra:not-delivered:%s/%s", c13DPNames[e.s.DP], ifName)
			continue
		}
		time.Sleep(20 * time.Millisecond) // let the receive path finish before the routes are read
		e.c.Labelf("ra:delivered:%s/%s", c13DPNames[e.s.DP], ifName)
	}
}

// bandwidth returns the limits pod p is set up with.  The sandbox kernel has sch_tbf and mq but
// no sch_fq, so the combinations whose shaper the unchanged code cannot install here are not
// run (Setup returns the qdisc error before or after the routing state, which says nothing
// about routing); what was dropped is labelled.
func (e *c13kEnv) bandwidth(p int) (ingress, egress uint64) {
	s := e.s
	ingress, egress = s.Pods[p].Ingress, s.Pods[p].Egress
	edt := s.BWMode == types.BandwidthModeEDT
	switch s.DP {
	case c13DPPolicy:
		if edt && egress > 0 {
			egress = 0 // ensureMQFQ needs sch_fq
			e.c.Label("bw:dropped:policy-edt-egress(no sch_fq)")
		}
	case c13DPIPVlan:
		if edt && (ingress > 0 || egress > 0) {
			ingress, egress = 0, 0 // ensureFQ needs sch_fq
			e.c.Label("bw:dropped:ipvlan-edt(no sch_fq)")
		} else if egress == 0 && ingress > 0 {
			ingress = 0 // IPvlanDriver.Setup calls SetupTC(link, 0): "invalid rate 0"
			e.c.Label("bw:dropped:ipvlan-tc-ingress-only(invalid rate 0)")
		}
	}
	switch {
	case ingress == 0 && egress == 0:
		e.c.Label("bw:none")
	case edt:
		e.c.Label("bw:edt")
	default:
		if ingress > 0 {
			e.c.Label("bw:tc-ingress")
		}
		if egress > 0 {
			e.c.Label("bw:tc-egress")
		}
	}
	return ingress, egress
}

// legacyPair installs the rule pair of an older release for address a whose veth is gone.
func (e *c13kEnv) legacyPair(a net.IP, goneLink string) {
	_, hp, _ := net.ParseCIDR(c13kHostPrefix(a))
	table := e.staleTable
	if table == 0 {
		table = 1999
	}
	from := netlink.NewRule()
	from.Priority, from.Table, from.Src, from.IifName = fromContainerPriority, table, hp, goneLink
	to := netlink.NewRule()
	to.Priority, to.Table, to.Dst = toContainerPriority, unix.RT_TABLE_MAIN, hp
	for _, r := range []*netlink.Rule{to, from} {
		if err := netlink.RuleAdd(r); err != nil && !os.IsExist(err) {
			e.scaffold(err, "legacy rule")
		}
	}
}

// legacyOwned: rules of the long-gone unrelated pod; nobody's, so a teardown may clean them up
// (utils.CleanIPRules exists for that) without touching "another pod".
func (e *c13kEnv) legacyOwned(it c13kItem) bool {
	if it.Kind != "rule" || !e.s.LegacyUnrelated {
		return false
	}
	for _, a := range []net.IP{c13kLegacy4, c13kLegacy6} {
		if it.Src == c13kHostPrefix(a) || it.Dst == c13kHostPrefix(a) {
			return true
		}
	}
	return false
}

// ipvlanSetup is IPvlanDriver.Setup as far as this kernel can run it: there is no ipvlan link
// type, so ipvlan.Setup (creation of the pod's link) is replaced by a veth pair inside the pod
// namespace, the host-side slave ipvl_<eni index> is a pre-created veth of that name (found by
// createSlaveIfNotExist), and the tc redirect filters of setupFilters may be refused by the
// kernel.  Everything that programs addresses, routes, neighbours and sysctls is the real code.
func (e *c13kEnv) ipvlanSetup(cfg *types.SetupConfig, cont ns.NetNS) error {
	d := NewIPVlanDriver()
	parent, err := netlink.LinkByIndex(cfg.ENIIndex)
	if err != nil {
		return err
	}
	if err := nic.Setup(e.ctx, parent, generateENICfgForIPVlan(cfg, parent)); err != nil {
		return fmt.Errorf("eni config: %w", err)
	}
	err = cont.Do(func(ns.NetNS) error {
		if _, err := netlink.LinkByName(cfg.ContainerIfName); err != nil {
			if err := netlink.LinkAdd(&netlink.Veth{LinkAttrs: netlink.LinkAttrs{Name: "ipv0"}, PeerName: "ipv0p"}); err != nil {
				e.scaffold(err, "pod link stand-in")
			}
			if l, err := netlink.LinkByName("ipv0p"); err == nil {
				_ = netlink.LinkSetUp(l)
			}
		}
		contLink, err := netlink.LinkByName("ipv0")
		if err != nil {
			return err
		}
		if err := nic.Setup(e.ctx, contLink, generateContCfgForIPVlan(cfg, contLink)); err != nil {
			return err
		}
		// the shaping steps of IPvlanDriver.Setup, verbatim
		if cfg.Egress == 0 && cfg.Ingress == 0 {
			return nil
		}
		if cfg.BandwidthMode == types.BandwidthModeEDT {
			return ensureFQ(e.ctx, contLink)
		}
		return utils.SetupTC(contLink, cfg.Egress)
	})
	if err != nil {
		return fmt.Errorf("container config: %w", err)
	}
	if cfg.ServiceCIDR != nil && cfg.ServiceCIDR.IPv4 != nil {
		err = d.setupInitNamespace(e.ctx, parent, cfg)
		if err == nil || !strings.Contains(err.Error(), "filter") {
			return err
		}
		// slave link, addresses and routes are programmed before the tc steps
		e.c.Trace("setupInitNamespace: tc step refused by this kernel: %v", err)
		e.c.Label("ipvlan:tc-filters-refused")
		return nil
	}
	// without an IPv4 service CIDR setupFilters cannot run at all; the steps before it
	slave, err := d.createSlaveIfNotExist(e.ctx, parent, d.initSlaveName(parent.Attrs().Index), cfg.MTU)
	if err != nil {
		return err
	}
	if slave.Attrs().Flags&unix.IFF_NOARP == 0 {
		if err := netlink.LinkSetARPOff(slave); err != nil {
			return err
		}
	}
	if err := nic.Setup(e.ctx, slave, generateSlaveLinkCfgForIPVlan(cfg, slave)); err != nil {
		return err
	}
	e.c.Label("ipvlan:init-namespace-mirrored")
	return utils.EnsureClsActQdsic(e.ctx, parent)
}

func (e *c13kEnv) doCheck(p int, when string) {
	lv := e.live[p]
	if e.s.DP == c13DPIPVlan {
		return // IPvlanDriver.Check needs the parent index of a real ipvlan link
	}
	var events []string
	cc := &types.CheckConfig{
		RecordPodEvent:  func(msg string) { events = append(events, msg) },
		NetNS:           lv.ns,
		HostVETHName:    c13kHostVeth(p),
		ContainerIfName: "eth0",
		MTU:             e.s.MTU,
		DefaultRoute:    true,
	}
	var err error
	if e.s.DP == c13DPPolicy {
		cc.DP = types.IPVlan
		cc.ENIIndex = int32(e.eni.Attrs().Index)
		err = NewPolicyRoute().Check(e.ctx, cc)
	} else {
		cc.DP = types.ExclusiveENI
		err = NewExclusiveENIDriver().Check(e.ctx, cc)
	}
	if err != nil {
		e.fatal("%s: Check(pod%d) failed on an intact pod: %v", when, p, err)
	}
	if len(events) != 0 {
		e.fatal("%s: Check(pod%d) had to repair an intact pod: %v", when, p, events)
	}
}

// doTeardown mirrors doCmdDel: GenericTearDown on the pod's namespace, then the datapath's
// own Teardown (the CNI has one for the policy-route datapath only).
// partialBefore removes the drawn subset of pod p's own host-namespace objects, the way an
// interrupted earlier DEL (or an operator) would have left things.
func (e *c13kEnv) partialBefore(p int, mask int, when string) {
	s := e.s
	delRules := func(v6 bool, from bool) {
		fam := netlink.FAMILY_V4
		if v6 {
			fam = netlink.FAMILY_V6
		}
		want := c13kHostPrefix(e.ifAddr(p, 0, v6))
		rules, err := netlink.RuleList(fam)
		e.scaffold(err, "rule list")
		for i := range rules {
			r := rules[i]
			if (from && r.Priority == fromContainerPriority && c13NetStr(r.Src) == want) ||
				(!from && r.Priority == toContainerPriority && c13NetStr(r.Dst) == want) {
				e.scaffold(netlink.RuleDel(&r), "partial: rule del")
			}
		}
	}
	delRoute := func(v6 bool) {
		fam := netlink.FAMILY_V4
		if v6 {
			fam = netlink.FAMILY_V6
		}
		_, hp, _ := net.ParseCIDR(c13kHostPrefix(e.ifAddr(p, 0, v6)))
		routes, err := netlink.RouteListFiltered(fam, &netlink.Route{Dst: hp}, netlink.RT_FILTER_DST)
		e.scaffold(err, "route list")
		for i := range routes {
			e.scaffold(netlink.RouteDel(&routes[i]), "partial: route del")
		}
	}
	var done []string
	for bit, name := range c13kGoneNames {
		if mask&(1<<bit) == 0 {
			continue
		}
		v6 := bit == 2 || bit == 3 || bit == 5
		if bit < 6 && ((v6 && !s.V6) || (!v6 && !s.V4)) {
			continue
		}
		switch {
		case bit <= 3:
			if s.DP != c13DPPolicy {
				continue
			}
			delRules(v6, bit == 0 || bit == 2)
		case bit <= 5:
			delRoute(v6)
		default:
			if l, err := netlink.LinkByName(c13kHostVeth(p)); err == nil {
				e.scaffold(netlink.LinkDel(l), "partial: link del")
			} else {
				continue
			}
		}
		done = append(done, name)
	}
	if len(done) > 0 {
		e.c.Trace("%s: already gone before the DEL: %v", when, done)
		e.c.Label("teardown-live-partial")
		for _, d := range done {
			e.c.Label("partial:" + d)
		}
	}
}

func (e *c13kEnv) doTeardown(p int, partial int, when string) {
	s := e.s
	lv := e.live[p]
	var cont ns.NetNS
	hostLink := 0
	if lv != nil {
		cont, hostLink = lv.ns, lv.hostLink
		if partial != 0 {
			e.partialBefore(p, partial, when)
		}
	} else {
		cont = e.newNS() // sandbox whose ADD never happened / already deleted
	}
	pre, err := c13kSnapshot()
	e.scaffold(err, "dump")
	if err := utils.GenericTearDown(e.ctx, cont); err != nil {
		e.c.Trace("%s: GenericTearDown: %v (the CNI swallows it)", when, err)
	}
	if s.DP == c13DPPolicy {
		tc := &types.TeardownCfg{
			DP:              types.IPVlan,
			ContainerIfName: "eth0",
			ContainerIPNet:  e.setupConfig(p, 0).ContainerIPNet,
			ServiceCIDR:     &terwayTypes.IPNetSet{IPv4: c13CIDR(s.Svc4), IPv6: c13CIDR(s.Svc6)},
			ENIIndex:        e.eni.Attrs().Index,
		}
		if s.NameInDel {
			tc.HostVETHName = c13kHostVeth(p)
		}
		switch s.EniIndexMode {
		case c13kIdxZero:
			tc.ENIIndex = 0
		case c13kIdxStale:
			tc.ENIIndex = e.eni.Attrs().Index + 4000
		}
		if err := NewPolicyRoute().Teardown(e.ctx, tc, cont); err != nil {
			e.fatal("%s: Teardown(pod%d) failed: %v", when, p, err)
		}
	}
	if s.DP == c13DPIPVlan {
		// parseTearDownConf leaves the host veth name empty
		tc := &types.TeardownCfg{
			DP:              types.IPVlan,
			ContainerIfName: "eth0",
			ContainerIPNet:  e.setupConfig(p, 0).ContainerIPNet,
			ServiceCIDR:     &terwayTypes.IPNetSet{IPv4: c13CIDR(s.Svc4), IPv6: c13CIDR(s.Svc6)},
			ENIIndex:        e.eni.Attrs().Index,
		}
		switch s.EniIndexMode {
		case c13kIdxZero:
			tc.ENIIndex = 0
		case c13kIdxStale:
			tc.ENIIndex = e.eni.Attrs().Index + 4000
		}
		if err := NewIPVlanDriver().Teardown(e.ctx, tc, cont); err != nil {
			e.fatal("%s: IPvlanDriver.Teardown(pod%d) failed: %v", when, p, err)
		}
	}
	delete(e.live, p)
	post, err := c13kSnapshot()
	e.scaffold(err, "dump")
	e.verifyGone(p, hostLink, post, when)
	for _, k := range pre.keys() {
		if e.podSpecific(p, hostLink, pre[k]) || e.legacyOwned(pre[k]) {
			continue
		}
		if _, ok := post[k]; !ok {
			e.fatal("%s: teardown of pod%d removed something that is not the pod's: %s", when, p, k)
		}
	}
}

func c13kRun(c *vt.Ctx, s c13kScenario) { c13kRunOpt(c, s, false) }

func c13kRunOpt(c *vt.Ctx, s c13kScenario, noGuard bool) {
	if os.Geteuid() != 0 {
		c.Inconclusive("needs root")
	}
	if len(s.Pods) == 0 || (!s.V4 && !s.V6) {
		c.Inconclusive("empty scenario")
	}
	c.Label("dp:" + c13DPNames[s.DP])
	fam := "v4"
	if s.V4 && s.V6 {
		fam = "dual"
	} else if s.V6 {
		fam = "v6"
	}
	c.Label("family:" + fam)

	runtime.LockOSThread()
	orig, err := ns.GetCurrentNS()
	if err != nil {
		runtime.UnlockOSThread()
		c.Inconclusive("scaffold: current netns: " + err.Error())
	}
	e := &c13kEnv{c: c, s: &s, ctx: context.Background(), live: map[int]*c13kLive{}, everUp: map[int]bool{}, noGuard: noGuard}
	for _, p := range s.Pods {
		if p.Multi {
			c.Label("multi-network")
			if !p.NoPeer {
				c.Label("multi-network-with-host-peer")
				if !noGuard && vt.Known(c13KnownEth1Peer) {
					// ExclusiveENI.Setup looks up a host-side peer it never created for eth1
					e.dropSecond = true
					c.Label("known:" + c13KnownEth1Peer)
				}
			}
		}
	}
	defer func() {
		if err := orig.Set(); err != nil {
			// the thread cannot be handed back; never unlock it
			panic(fmt.Sprintf("cannot return to the original netns: %v", err))
		}
		_ = orig.Close()
		runtime.UnlockOSThread()
		for _, n := range e.allNS {
			_ = n.Close()
			_ = testutils.UnmountNS(n)
		}
	}()
	e.host = e.newNS()
	e.scaffold(e.host.Set(), "enter host netns")

	// host namespace: loopback, the node's primary interface with its default routes
	lo, err := netlink.LinkByName("lo")
	e.scaffold(err, "lo")
	e.scaffold(netlink.LinkSetUp(lo), "lo up")
	e.scaffold(c13kVeth("eth0", "eth0p"), "primary interface")
	eth0, err := netlink.LinkByName("eth0")
	e.scaffold(err, "primary interface")
	e.scaffold(netlink.AddrAdd(eth0, &netlink.Addr{IPNet: &net.IPNet{IP: net.IPv4(9, 9, 9, 9), Mask: net.CIDRMask(24, 32)}}), "primary address")
	e.scaffold(netlink.RouteAdd(&netlink.Route{LinkIndex: eth0.Attrs().Index, Dst: c13CIDR("0.0.0.0/0"), Gw: c13HostGW4}), "primary default route")
	e.scaffold(netlink.AddrAdd(eth0, &netlink.Addr{IPNet: &net.IPNet{IP: net.ParseIP("2001:db8:9::9"), Mask: net.CIDRMask(64, 128)}, Flags: unix.IFA_F_NODAD}), "primary address v6")
	e.scaffold(netlink.RouteAdd(&netlink.Route{LinkIndex: eth0.Attrs().Index, Dst: c13CIDR("::/0"), Gw: c13HostGW6}), "primary default route v6")
	if s.DP == c13DPPolicy || s.DP == c13DPIPVlan {
		e.scaffold(c13kVeth("eni0", "eni0p"), "ENI stand-in")
		e.eni, err = netlink.LinkByName("eni0")
		e.scaffold(err, "ENI stand-in")
	}
	if s.DP == c13DPIPVlan {
		e.slaveName = NewIPVlanDriver().initSlaveName(e.eni.Attrs().Index)
		e.scaffold(c13kVeth(e.slaveName, "ipvlslavep"), "ipvlan slave stand-in")
	}
	if s.DP == c13DPPolicy {
		// the table of "another interface": whatever is looked up there leaves through eth0
		e.staleTable = 1000 + eth0.Attrs().Index
		e.scaffold(netlink.RouteAdd(&netlink.Route{LinkIndex: eth0.Attrs().Index, Dst: c13CIDR("0.0.0.0/0"), Gw: c13HostGW4, Table: e.staleTable}), "stale table v4")
		e.scaffold(netlink.RouteAdd(&netlink.Route{LinkIndex: eth0.Attrs().Index, Dst: c13CIDR("::/0"), Gw: c13HostGW6, Table: e.staleTable}), "stale table v6")
	}
	if s.Decoys && s.DP == c13DPPolicy {
		// somebody else's rules: same priorities, prefixes that contain pod addresses but are wider
		table := 1000 + e.eni.Attrs().Index
		for p := range s.Pods {
			if s.V4 {
				w := &net.IPNet{IP: net.ParseIP(s.Pods[p].IP4).To4(), Mask: net.CIDRMask(24, 32)}
				to := netlink.NewRule()
				to.Priority, to.Table, to.Dst = toContainerPriority, unix.RT_TABLE_MAIN, w
				from := netlink.NewRule()
				from.Priority, from.Table, from.Src = fromContainerPriority, table, w
				for _, r := range []*netlink.Rule{to, from} {
					if err := netlink.RuleAdd(r); err != nil && !os.IsExist(err) {
						e.scaffold(err, "decoy rule")
					}
				}
			}
			if s.V6 {
				w := &net.IPNet{IP: net.ParseIP(s.Pods[p].IP6), Mask: net.CIDRMask(120, 128)}
				to := netlink.NewRule()
				to.Priority, to.Table, to.Dst = toContainerPriority, unix.RT_TABLE_MAIN, w
				from := netlink.NewRule()
				from.Priority, from.Table, from.Src = fromContainerPriority, table, w
				for _, r := range []*netlink.Rule{to, from} {
					if err := netlink.RuleAdd(r); err != nil && !os.IsExist(err) {
						e.scaffold(err, "decoy rule")
					}
				}
			}
		}
		c.Label("decoys")
	}
	if s.LegacyUnrelated {
		if s.V4 {
			e.legacyPair(c13kLegacy4, "calilonggone")
		}
		if s.V6 {
			e.legacyPair(c13kLegacy6, "calilonggone")
		}
		c.Label("legacy-rules-unrelated")
	}

	nSetup, nTeardownLive, nTeardownDead, maxLive := 0, 0, 0, 0
	for i, op := range s.Ops {
		p := s.podOf(op.Pod)
		kind := op.Kind
		if kind == c13kSetup && e.live[p] != nil {
			kind = c13kCheck
		}
		if kind == c13kCheck && e.live[p] == nil {
			continue
		}
		if kind == c13kEniGone && (s.DP != c13DPPolicy || e.eniGone) {
			continue
		}
		if kind == c13kSetup && e.eniGone {
			continue // nothing to attach pods to any more
		}
		when := fmt.Sprintf("op %d (%s pod%d)", i, c13kOpNames[kind], p)
		c.Trace("%s", when)
		switch kind {
		case c13kSetup:
			e.doSetup(p, when)
			nSetup++
		case c13kCheck:
			e.doCheck(p, when)
		case c13kEniGone:
			// e.eni keeps the old attributes: later teardowns are handed the stale index
			e.scaffold(netlink.LinkDel(e.eni), "delete ENI stand-in")
			e.eniGone = true
			c.Label("eni-gone")
		case c13kTeardown:
			if e.eniGone && e.live[p] != nil {
				c.Label("teardown-live-after-eni-gone")
			}
			if e.live[p] != nil && s.EniIndexMode == c13kIdxStale {
				c.Label("teardown-live-stale-eni-index")
			}
			if e.live[p] != nil {
				nTeardownLive++
			} else {
				nTeardownDead++
				if e.everUp[p] {
					c.Label("teardown-twice")
				} else {
					c.Label("teardown-without-setup")
				}
			}
			e.doTeardown(p, op.Partial, when)
		}
		if len(e.live) > maxLive {
			maxLive = len(e.live)
		}
		// after every step, every pod that is up must still be served
		ps := make([]int, 0, len(e.live))
		for q := range e.live {
			ps = append(ps, q)
		}
		sort.Ints(ps)
		for _, q := range ps {
			e.verifyLive(q, "after "+when)
		}
	}
	nExtra := 0
	for _, p := range s.Pods {
		nExtra += len(p.Extra)
	}
	multi := false
	for _, p := range s.Pods {
		multi = multi || p.Multi
	}
	if nSetup > 0 && ((s.V4 && s.V6) || maxLive >= 2 || nExtra > 0 || multi) {
		c.NonTrivial()
	}
	if maxLive >= 2 {
		c.Label("shared-eni")
	}
	if nTeardownLive > 0 {
		c.Label("teardown-live")
	}
	if nSetup == 0 {
		c.Label("no-setup")
	}
	_ = strings.Join
	_ = nTeardownDead
}

func TestVerifC13Kernel(t *testing.T) {
	vt.Run(t, c13kGen, c13kRun)
}

// Deterministic witness of C13-exclusive-eth1-host-peer.
func TestVerifC13KnownExclusiveEth1(t *testing.T) {
	s := c13kScenario{DP: c13DPExclusive, V4: true, MTU: 1500, GW4: "10.0.0.200", GW6: "fe80::c8",
		HostIP4: "10.0.0.100", HostIP6: "2400::64",
		Pods: []c13kPod{{IP4: "10.0.0.2", Prefix4: 24, IP6: "2400::2", Prefix6: 64, Multi: true, IP4b: "10.0.1.8", IP6b: "2400:0:0:1::8"}},
		Ops:  []c13kOp{{Kind: c13kSetup, Pod: 0}},
	}
	vt.Witness(t, "C13", c13KnownEth1Peer,
		"exclusive-ENI datapath, pod with two interfaces and host peer enabled: Setup for eth1 fails with `error get host veth ..., Link not found` (the peer is created for eth0 only but looked up for every interface)",
		s, func(c *vt.Ctx, s c13kScenario) { c13kRunOpt(c, s, true) })
}
