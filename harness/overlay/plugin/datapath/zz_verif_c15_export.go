//go:build linux

package datapath

import (
	"context"
	"net"

	"github.com/vishvananda/netlink"
)

// Export shim for the C15 harness in plugin/terway: the part of the IPVlan datapath that
// consumes SetupConfig.HostStackCIDRs (user-written `host_stack_cidrs` of the CNI
// configuration) without the ipvlan slave device this sandbox cannot create.

// VerifC15DstIPRule runs dstIPRule as IPvlanDriver.setupFilters does for one CIDR.
func VerifC15DstIPRule(index int, cidr *net.IPNet, dstIndex int) error {
	_, err := dstIPRule(index, cidr, dstIndex, netlink.TCA_INGRESS_REDIR)
	return err
}

// VerifC15SetupFilters is IPvlanDriver.setupFilters.
func VerifC15SetupFilters(ctx context.Context, link netlink.Link, cidrs []*net.IPNet, dstIndex int) error {
	return NewIPVlanDriver().setupFilters(ctx, link, cidrs, dstIndex)
}
