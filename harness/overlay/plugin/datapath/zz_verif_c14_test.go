//go:build linux

package datapath

import (
	"testing"

	"github.com/AliyunContainerService/terway/zz_verif/c14ref"
	"github.com/AliyunContainerService/terway/zz_verif/vt"
	"github.com/vishvananda/netlink"
	"pgregory.net/rapid"
)

// C14 (a), destination side: the redirect rule the ipvlan datapath builds for a CIDR
// (service CIDR, host-stack CIDRs) matches a packet exactly when its destination
// address lies in the CIDR.  IPv4 only; for an IPv6 CIDR an error is the contract.

type vfC14DstScenario struct {
	C        c14ref.Scenario `json:"cidr"`
	Index    int             `json:"index"`
	DstIndex int             `json:"dst_index"`
}

func vfC14GenDst(t *rapid.T) vfC14DstScenario {
	fam := 4
	if rapid.IntRange(0, 9).Draw(t, "fam") == 0 {
		fam = 6
	}
	return vfC14DstScenario{
		C:        c14ref.Gen(t, fam),
		Index:    rapid.IntRange(1, 1<<20).Draw(t, "index"),
		DstIndex: rapid.IntRange(1, 1<<20).Draw(t, "dstindex"),
	}
}

func vfC14RunDst(c *vt.Ctx, s vfC14DstScenario) {
	if !s.C.Valid() {
		c.Inconclusive("scenario outside the generated domain")
	}
	r := c14ref.Describe(s.C)
	rule, err := dstIPRule(s.Index, s.C.IPNet(), s.DstIndex, netlink.TCA_INGRESS_REDIR)
	if s.C.V6 {
		c.Label("v6:error-expected")
		if err == nil {
			c.Fatalf("dstIPRule(%s) accepted an IPv6 CIDR: %+v", s.C.IPNet(), rule)
		}
		return
	}
	if err != nil || rule == nil {
		c.Fatalf("dstIPRule(%s) = %v, %v for an IPv4 CIDR", s.C.IPNet(), rule, err)
	}
	// the rule as stored …
	c14ref.Check(r, s.C, c14ref.Dst, "dstIPRule", []c14ref.Key{{Off: rule.offset, Val: rule.value, Mask: rule.mask}})
	// … and as handed to the kernel
	f := rule.toU32Filter()
	if r.Violation == "" {
		switch {
		case f == nil || f.Sel == nil:
			r.Violation = "toU32Filter: no selector"
		case int(f.Sel.Nkeys) != len(f.Sel.Keys):
			r.Violation = "toU32Filter: Nkeys does not equal the number of keys"
		default:
			ks := make([]c14ref.Key, 0, len(f.Sel.Keys))
			for _, k := range f.Sel.Keys {
				ks = append(ks, c14ref.Key{Off: k.Off, OffMask: k.OffMask, Val: k.Val, Mask: k.Mask})
			}
			c14ref.Check(r, s.C, c14ref.Dst, "dstIPRule.toU32Filter", ks)
		}
	}
	for _, l := range r.Labels {
		c.Label(l)
	}
	for _, l := range r.Trace {
		c.Trace("%s", l)
	}
	if r.NonTrivial {
		c.NonTrivial()
	}
	if r.Violation != "" {
		c.Fatalf("%s", r.Violation)
	}
}

func TestVerifC14DstIPRule(t *testing.T) {
	vt.Run(t, vfC14GenDst, vfC14RunDst)
}
