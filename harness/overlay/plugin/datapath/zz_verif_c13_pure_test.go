//go:build linux

package datapath

// C13 tier A: the per-link configurations produced by the datapath generators for 1..4
// pods are loaded into the reference FIB (zz_verif_c13_fib_test.go) and the routing
// intent of every datapath is checked by lookups: host namespace delivers to the pod's
// host-side link, pod-sourced traffic leaves through the ENI that owns the address via
// that ENI's gateway in table 1000+ifindex, the container namespace has exactly one
// default route per enabled family and nothing for a disabled family.

import (
	"fmt"
	"net"
	"sort"
	"strings"
	"testing"

	cniTypes "github.com/containernetworking/cni/pkg/types"
	"github.com/vishvananda/netlink"
	"pgregory.net/rapid"

	"github.com/AliyunContainerService/terway/plugin/driver/nic"
	"github.com/AliyunContainerService/terway/plugin/driver/types"
	"github.com/AliyunContainerService/terway/plugin/driver/utils"
	terwayTypes "github.com/AliyunContainerService/terway/types"
	"github.com/AliyunContainerService/terway/zz_verif/vt"
)

const (
	c13DPPolicy = iota
	c13DPIPVlan
	c13DPExclusive
	c13DPVlan
)

var c13DPNames = []string{"policy", "ipvlan", "exclusive", "vlan"}

// address plan (by construction, so that shrinking never makes two roles collide):
//
//	pod addresses      last byte 2+2*k+bit (k = global interface number), first byte from c13PodB0 / c13PodB06
//	gateways           last byte 200..250
//	host address       last byte 100..150
//	service CIDR       172.16.0.0/12 sub-block,  fc00::/16 sub-block
//	host-stack CIDRs   100.100.x.0/24..32,       fc01:x::/..
//	extra routes       100.(64+j).x.0/24,         fd00:j::/48
//	"outside"          8.8.8.8, 2001:4860:4860::8888 (covered by none of the above)
var (
	c13PodB0     = []byte{10, 11, 33, 192, 198}
	c13PodB06    = []byte{0x24, 0x26, 0x2a, 0x2c}
	c13Outside4  = net.IPv4(8, 8, 8, 8).To4()
	c13Outside6  = net.ParseIP("2001:4860:4860::8888")
	c13HostGW4   = net.IPv4(9, 9, 9, 254).To4()
	c13HostGW6   = net.ParseIP("2001:db8:9::fe")
	c13PrimaryIx = 2 // the node's primary interface in the host namespace model
)

type c13ENI struct {
	Index  int    `json:"index"`
	Slave  int    `json:"slave"` // index of ipvl_<index> (ipvlan datapath)
	GW4    string `json:"gw4"`
	GW6    string `json:"gw6"`
	Trunk4 string `json:"trunk_gw4"` // the ENI's own gateway (ENIGatewayIP)
	Trunk6 string `json:"trunk_gw6"`
}

type c13Extra struct {
	Dst string `json:"dst"`
	GW  string `json:"gw"` // "" = on-link
}

type c13Iface struct {
	ENI      int        `json:"eni"` // index into ENIs (mod len)
	IP4      string     `json:"ip4"`
	Prefix4  int        `json:"prefix4"`
	IP6      string     `json:"ip6"`
	Prefix6  int        `json:"prefix6"`
	PodGW4   string     `json:"pod_gw4"` // the pod's own vSwitch gateway when the ENI is a trunk
	PodGW6   string     `json:"pod_gw6"`
	HostLink int        `json:"host_link"` // index of the host-side veth (policy, exclusive)
	ContLink int        `json:"cont_link"` // index of the interface inside the container
	Veth1    int        `json:"veth1"`     // index of veth1 inside the container (exclusive)
	Extra    []c13Extra `json:"extra"`
	NoPeer   bool       `json:"no_peer"` // exclusive: DisableCreatePeer
	Wide16   bool       `json:"wide16"`  // IPv4 values in 16-byte form (as net.ParseIP yields)
}

// bandwidth limits (bytes/s, 0 = none) as the pod annotations / runtime config give them
var c13Rates = []uint64{0, 0, 125000, 1250000, 125000000}

type c13Pod struct {
	Ifaces  []c13Iface `json:"ifaces"`
	Default int        `json:"default"` // interface carrying the default route (mod len)
	Ingress uint64     `json:"ingress"`
	Egress  uint64     `json:"egress"`
}

type c13Scenario struct {
	DP        int      `json:"dp"`
	V4        bool     `json:"v4"`
	V6        bool     `json:"v6"`
	Trunk     bool     `json:"trunk"`
	BWMode    string   `json:"bandwidth_mode"` // CNI conf: "", "tc" or "edt"
	NoENIGW   bool     `json:"no_eni_gw"`      // not a trunk and the daemon sent no ENI gateway: ENIGatewayIP is nil
	Vid       int      `json:"vid"`
	MTU       int      `json:"mtu"`
	ENIs      []c13ENI `json:"enis"`
	HostIP4   string   `json:"host_ip4"`
	HostIP6   string   `json:"host_ip6"`
	Svc4      string   `json:"svc4"`
	Svc6      string   `json:"svc6"`
	HostStack []string `json:"host_stack"`
	Pods      []c13Pod `json:"pods"`
}

// ---- generator -------------------------------------------------------------------

func c13GenIndexes(t *rapid.T, start, n int, label string) []int {
	out := make([]int, n)
	cur := start
	for i := range out {
		step := rapid.OneOf(rapid.IntRange(1, 3), rapid.IntRange(1, 300), rapid.IntRange(1, 70000)).Draw(t, label)
		cur += step
		out[i] = cur
	}
	return out
}

func c13GenV4(t *rapid.T, b0 []byte, last byte, label string) string {
	ip := net.IPv4(rapid.SampledFrom(b0).Draw(t, label+"0"), rapid.Byte().Draw(t, label+"1"), rapid.Byte().Draw(t, label+"2"), last)
	return ip.String()
}

func c13GenV6(t *rapid.T, b0 []byte, last byte, label string) string {
	ip := make(net.IP, 16)
	ip[0] = rapid.SampledFrom(b0).Draw(t, label+"0")
	for i := 1; i < 15; i++ {
		if rapid.IntRange(0, 2).Draw(t, label+"z") == 0 {
			ip[i] = rapid.Byte().Draw(t, label+"b")
		}
	}
	ip[15] = last
	return ip.String()
}

func c13Gen(t *rapid.T) c13Scenario {
	s := c13Scenario{}
	s.DP = rapid.IntRange(0, 3).Draw(t, "dp")
	switch rapid.IntRange(0, 3).Draw(t, "family") {
	case 0:
		s.V4 = true
	case 1:
		s.V6 = true
	default:
		s.V4, s.V6 = true, true
	}
	s.Trunk = rapid.Bool().Draw(t, "trunk")
	s.NoENIGW = !s.Trunk && rapid.Bool().Draw(t, "noenigw")
	s.BWMode = rapid.SampledFrom([]string{"", types.BandwidthModeTC, types.BandwidthModeEDT}).Draw(t, "bwmode")
	s.Vid = rapid.IntRange(1, 4094).Draw(t, "vid")
	s.MTU = rapid.SampledFrom([]int{1280, 1500, 8500, 9001}).Draw(t, "mtu")

	nPods := rapid.IntRange(1, 4).Draw(t, "pods")
	type slot struct{ pod, iface int }
	var slots []slot
	s.Pods = make([]c13Pod, nPods)
	for p := range s.Pods {
		nIf := 1
		if rapid.IntRange(0, 2).Draw(t, "multi") == 0 {
			nIf = 2
		}
		s.Pods[p].Ifaces = make([]c13Iface, nIf)
		s.Pods[p].Default = rapid.IntRange(0, nIf-1).Draw(t, "default")
		s.Pods[p].Ingress = rapid.SampledFrom(c13Rates).Draw(t, "ingress")
		s.Pods[p].Egress = rapid.SampledFrom(c13Rates).Draw(t, "egress")
		for i := 0; i < nIf; i++ {
			slots = append(slots, slot{p, i})
		}
	}

	nENI := rapid.IntRange(1, 2).Draw(t, "enis")
	if s.DP == c13DPExclusive {
		nENI = len(slots) // every interface owns its ENI
	}
	// host namespace link indexes: ENIs, slaves, host-side veths - all distinct
	hostIdx := c13GenIndexes(t, c13PrimaryIx, 2*nENI+len(slots), "hidx")
	s.ENIs = make([]c13ENI, nENI)
	sharedGW := rapid.Bool().Draw(t, "sharedgw")
	for e := range s.ENIs {
		en := &s.ENIs[e]
		en.Index = hostIdx[2*e]
		en.Slave = hostIdx[2*e+1]
		en.GW4 = c13GenV4(t, c13PodB0, byte(200+e), "gw4")
		en.GW6 = c13GenV6(t, append([]byte{0xfe}, c13PodB06...), byte(200+e), "gw6")
		if strings.HasPrefix(en.GW6, "fe") {
			en.GW6 = fmt.Sprintf("fe80::%x", 200+e)
		}
		en.Trunk4 = c13GenV4(t, c13PodB0, byte(220+e), "tgw4")
		en.Trunk6 = c13GenV6(t, c13PodB06, byte(220+e), "tgw6")
		if sharedGW && e > 0 {
			// two ENIs in one vSwitch: same gateway, different tables
			en.GW4, en.GW6 = s.ENIs[0].GW4, s.ENIs[0].GW6
		}
	}
	s.HostIP4 = c13GenV4(t, c13PodB0, byte(rapid.IntRange(100, 150).Draw(t, "h4")), "host4")
	s.HostIP6 = c13GenV6(t, c13PodB06, byte(rapid.IntRange(100, 150).Draw(t, "h6")), "host6")
	if rapid.Bool().Draw(t, "svc4") {
		s.Svc4 = fmt.Sprintf("172.%d.%d.0/%d", rapid.IntRange(16, 31).Draw(t, "svc4b"), rapid.IntRange(0, 255).Draw(t, "svc4c")&0xf0, rapid.IntRange(12, 24).Draw(t, "svc4p"))
		_, n, _ := net.ParseCIDR(s.Svc4)
		s.Svc4 = n.String()
	}
	if rapid.Bool().Draw(t, "svc6") {
		s.Svc6 = fmt.Sprintf("fc00:%x::/%d", rapid.IntRange(0, 0xffff).Draw(t, "svc6b"), rapid.IntRange(32, 112).Draw(t, "svc6p"))
		_, n, _ := net.ParseCIDR(s.Svc6)
		s.Svc6 = n.String()
	}
	nHS := rapid.IntRange(0, 3).Draw(t, "hoststack")
	for i := 0; i < nHS; i++ {
		v6 := rapid.Bool().Draw(t, "hs6")
		if (v6 && !s.V6) || (!v6 && !s.V4) {
			v6 = !v6 // host-stack CIDRs follow the cluster's IP stack
		}
		if v6 {
			_, n, _ := net.ParseCIDR(fmt.Sprintf("fc01:%x::/%d", rapid.IntRange(0, 0xffff).Draw(t, "hs6b"), rapid.IntRange(32, 128).Draw(t, "hs6p")))
			s.HostStack = append(s.HostStack, n.String())
		} else {
			_, n, _ := net.ParseCIDR(fmt.Sprintf("100.100.%d.%d/%d", rapid.IntRange(0, 255).Draw(t, "hs4b"), rapid.IntRange(0, 255).Draw(t, "hs4c"), rapid.IntRange(24, 32).Draw(t, "hs4p")))
			s.HostStack = append(s.HostStack, n.String())
		}
	}

	// shared subnet prefix so that several pods are neighbours inside one subnet
	base4 := [3]byte{rapid.SampledFrom(c13PodB0).Draw(t, "b4"), rapid.Byte().Draw(t, "b4"), rapid.Byte().Draw(t, "b4")}
	base6 := net.ParseIP(c13GenV6(t, c13PodB06, 0, "b6"))
	extraNo := 0
	for k, sl := range slots {
		f := &s.Pods[sl.pod].Ifaces[sl.iface]
		f.ENI = rapid.IntRange(0, nENI-1).Draw(t, "eni")
		if s.DP == c13DPExclusive {
			f.ENI = k
		}
		last := byte(2 + 2*k + rapid.IntRange(0, 1).Draw(t, "bit"))
		if rapid.IntRange(0, 3).Draw(t, "own4") == 0 {
			f.IP4 = c13GenV4(t, c13PodB0, last, "ip4")
		} else {
			f.IP4 = net.IPv4(base4[0], base4[1], base4[2], last).String()
		}
		f.Prefix4 = rapid.OneOf(rapid.IntRange(16, 28), rapid.IntRange(8, 32)).Draw(t, "p4")
		if rapid.IntRange(0, 3).Draw(t, "own6") == 0 {
			f.IP6 = c13GenV6(t, c13PodB06, last, "ip6")
		} else {
			ip := append(net.IP{}, base6...)
			ip[15] = last
			f.IP6 = ip.String()
		}
		f.Prefix6 = rapid.OneOf(rapid.IntRange(56, 120), rapid.IntRange(8, 128)).Draw(t, "p6")
		f.PodGW4 = c13GenV4(t, c13PodB0, byte(230+k), "pgw4")
		f.PodGW6 = c13GenV6(t, c13PodB06, byte(230+k), "pgw6")
		f.HostLink = hostIdx[2*nENI+k]
		f.NoPeer = rapid.IntRange(0, 4).Draw(t, "nopeer") == 0
		f.Wide16 = rapid.Bool().Draw(t, "wide16")
		nExtra := rapid.SampledFrom([]int{0, 0, 1, 2, 3}).Draw(t, "extras")
		if s.DP == c13DPIPVlan {
			// the ipvlan generator has no notion of extra routes, and the only producer of
			// ipvlan configurations (pkg/eni/local.go) never sets any
			nExtra = 0
		}
		for j := 0; j < nExtra; j++ {
			v6 := rapid.Bool().Draw(t, "x6")
			if (v6 && !s.V6) || (!v6 && !s.V4) {
				v6 = !v6
			}
			var x c13Extra
			if v6 {
				x.Dst = fmt.Sprintf("fd00:%x::/48", extraNo)
				if rapid.Bool().Draw(t, "xgw") {
					x.GW = c13GenV6(t, c13PodB06, byte(180+extraNo), "xgw6")
				}
			} else {
				x.Dst = fmt.Sprintf("100.%d.%d.0/24", 64+extraNo, rapid.IntRange(0, 255).Draw(t, "x4c"))
				if rapid.Bool().Draw(t, "xgw") {
					x.GW = c13GenV4(t, c13PodB0, byte(180+extraNo), "xgw4")
				}
			}
			extraNo++
			f.Extra = append(f.Extra, x)
		}
	}
	// container-side indexes: distinct inside each pod
	for p := range s.Pods {
		ci := c13GenIndexes(t, 1, 2*len(s.Pods[p].Ifaces), "cidx")
		for i := range s.Pods[p].Ifaces {
			s.Pods[p].Ifaces[i].ContLink = ci[2*i]
			s.Pods[p].Ifaces[i].Veth1 = ci[2*i+1]
		}
	}
	return s
}

// ---- building the real inputs ------------------------------------------------------

func c13IP(s string, wide bool) net.IP {
	if s == "" {
		return nil
	}
	ip := net.ParseIP(s)
	if ip4 := ip.To4(); ip4 != nil && !wide {
		return ip4
	}
	return ip
}

func c13CIDR(s string) *net.IPNet {
	if s == "" {
		return nil
	}
	_, n, err := net.ParseCIDR(s)
	if err != nil {
		panic(err)
	}
	return n
}

func c13IfName(i int) string { return fmt.Sprintf("eth%d", i) }

func c13HostVethName(p, i int) string { return fmt.Sprintf("cali%02dx%02d", p, i) }

func c13MAC(n int) net.HardwareAddr {
	return net.HardwareAddr{0x02, 0x13, 0, byte(n >> 16), byte(n >> 8), byte(n)}
}

type c13Expect struct {
	gw4, gw6       net.IP // gateway the ENI-table / container default must use
	eniGW4, eniGW6 net.IP
}

func (s *c13Scenario) eniOf(f *c13Iface) *c13ENI {
	return &s.ENIs[((f.ENI%len(s.ENIs))+len(s.ENIs))%len(s.ENIs)]
}

// gateways as the daemon would hand them over: GatewayIP is the gateway of the vSwitch the
// pod address lives in; ENIGatewayIP is the gateway of the ENI itself (differs on trunks).
func (s *c13Scenario) gateways(f *c13Iface) (gw4, gw6, eni4, eni6 net.IP) {
	e := s.eniOf(f)
	gw4, gw6 = net.ParseIP(e.GW4), net.ParseIP(e.GW6)
	if s.Trunk {
		gw4, gw6 = net.ParseIP(f.PodGW4), net.ParseIP(f.PodGW6)
	}
	return gw4, gw6, net.ParseIP(e.Trunk4), net.ParseIP(e.Trunk6)
}

func (s *c13Scenario) setupConfig(p, i int) *types.SetupConfig {
	pod := &s.Pods[p]
	f := &pod.Ifaces[i]
	e := s.eniOf(f)
	gw4, gw6, eni4, eni6 := s.gateways(f)
	cfg := &types.SetupConfig{
		HostVETHName:      c13HostVethName(p, i),
		ContainerIfName:   c13IfName(i),
		ContainerIPNet:    &terwayTypes.IPNetSet{},
		GatewayIP:         &terwayTypes.IPSet{},
		ENIGatewayIP:      &terwayTypes.IPSet{},
		HostIPSet:         &terwayTypes.IPNetSet{},
		ServiceCIDR:       &terwayTypes.IPNetSet{IPv4: c13CIDR(s.Svc4), IPv6: c13CIDR(s.Svc6)},
		MTU:               s.MTU,
		ENIIndex:          e.Index,
		StripVlan:         s.Trunk,
		Vid:               s.Vid,
		DefaultRoute:      ((pod.Default%len(pod.Ifaces))+len(pod.Ifaces))%len(pod.Ifaces) == i,
		MultiNetwork:      len(pod.Ifaces) > 1,
		DisableCreatePeer: f.NoPeer,
		BandwidthMode:     s.BWMode,
		Ingress:           pod.Ingress,
		Egress:            pod.Egress,
	}
	switch s.DP {
	case c13DPPolicy:
		cfg.DP = types.IPVlan // the CNI falls through from IPVlan to the policy-route driver
	case c13DPIPVlan:
		cfg.DP = types.IPVlan
	case c13DPExclusive:
		cfg.DP = types.ExclusiveENI
	case c13DPVlan:
		cfg.DP = types.Vlan
	}
	if s.V4 {
		cfg.ContainerIPNet.IPv4 = &net.IPNet{IP: c13IP(f.IP4, f.Wide16), Mask: net.CIDRMask(f.Prefix4, 32)}
		cfg.GatewayIP.IPv4 = c13IP(gw4.String(), f.Wide16)
		cfg.ENIGatewayIP.IPv4 = c13IP(eni4.String(), f.Wide16)
		cfg.HostIPSet.IPv4 = &net.IPNet{IP: c13IP(s.HostIP4, f.Wide16), Mask: net.CIDRMask(32, 32)}
	}
	if s.V6 {
		cfg.ContainerIPNet.IPv6 = &net.IPNet{IP: net.ParseIP(f.IP6), Mask: net.CIDRMask(f.Prefix6, 128)}
		cfg.GatewayIP.IPv6 = gw6
		cfg.ENIGatewayIP.IPv6 = eni6
		cfg.HostIPSet.IPv6 = &net.IPNet{IP: net.ParseIP(s.HostIP6), Mask: net.CIDRMask(128, 128)}
	}
	if s.NoENIGW && !s.Trunk {
		cfg.ENIGatewayIP = nil
	}
	for _, h := range s.HostStack {
		cfg.HostStackCIDRs = append(cfg.HostStackCIDRs, c13CIDR(h))
	}
	for _, x := range f.Extra {
		r := cniTypes.Route{Dst: *c13CIDR(x.Dst)}
		if x.GW != "" {
			r.GW = c13IP(x.GW, f.Wide16)
		}
		cfg.ExtraRoutes = append(cfg.ExtraRoutes, r)
	}
	return cfg
}

func c13Stub(idx int, name string, mac net.HardwareAddr) netlink.Link {
	return &netlink.Device{LinkAttrs: netlink.LinkAttrs{Index: idx, Name: name, HardwareAddr: mac}}
}

// ---- oracle helpers -----------------------------------------------------------------

type c13Check struct {
	c *vt.Ctx
	s *c13Scenario
}

func (k *c13Check) fail(ns *c13NS, f string, a ...any) {
	k.c.Trace("%s", ns.dump())
	k.c.Fatalf("[%s/%s] "+f, append([]any{c13DPNames[k.s.DP], ns.Name}, a...)...)
}

func (k *c13Check) load(ns *c13NS, idx int, what string, conf *nic.Conf) {
	if conf == nil {
		k.c.Fatalf("%s: generator returned nil", what)
	}
	if err := ns.loadConf(idx, conf); err != nil {
		k.fail(ns, "%s cannot be applied: %v", what, err)
	}
}

// expectUnicast: the lookup must leave through link oif via gw (nil: directly), and, when
// table > 0, be answered from that table.
func (k *c13Check) expectUnicast(ns *c13NS, fl c13Flow, oif int, gw net.IP, table int, why string) {
	r := ns.lookup(fl)
	ok := r.Found && !r.Local && r.Oif == oif && ((gw == nil && r.Gw == nil) || (gw != nil && r.Gw != nil && r.Gw.Equal(gw)))
	if ok && table > 0 && r.Table != table {
		ok = false
	}
	if !ok {
		want := fmt.Sprintf("dev #%d(%s)", oif, ns.Links[oif])
		if gw != nil {
			want += " via " + gw.String()
		}
		if table > 0 {
			want += fmt.Sprintf(" in table %d", table)
		}
		k.fail(ns, "%s: lookup(%s) = %s, want %s", why, fl, r, want)
	}
}

func (k *c13Check) expectSame(ns, base *c13NS, fl c13Flow, why string) {
	got, want := ns.lookup(fl), base.lookup(fl)
	if got.String() != want.String() {
		k.fail(ns, "%s: lookup(%s) = %s, but without the pods it is %s", why, fl, got, want)
	}
}

// family-specific artefacts present in a conf (for the "nothing for a disabled family" rule)
type c13Artefact struct {
	desc    string
	oifRule bool // a rule that selects by output interface only
}

func c13FamilyArtefacts(conf *nic.Conf, v6 bool) []c13Artefact {
	var out []c13Artefact
	add := func(f string, a ...any) { out = append(out, c13Artefact{desc: fmt.Sprintf(f, a...)}) }
	isFam := func(ip net.IP) bool { return ip != nil && c13IsV6(ip) == v6 }
	for _, a := range conf.Addrs {
		if a != nil && a.IPNet != nil && isFam(a.IP) {
			add("address %s", a.IPNet)
		}
	}
	for _, r := range conf.Routes {
		if r == nil {
			continue
		}
		if (r.Dst != nil && isFam(r.Dst.IP)) || isFam(r.Gw) {
			add("route %s", r)
		}
	}
	for _, r := range conf.Rules {
		if r == nil {
			continue
		}
		switch {
		case r.Src != nil && r.Src.IP != nil:
			if isFam(r.Src.IP) {
				add("rule %s", r)
			}
		case r.Dst != nil && r.Dst.IP != nil:
			if isFam(r.Dst.IP) {
				add("rule %s", r)
			}
		default:
			// no selector address: the rule is installed in the family named by
			// Rule.Family, IPv4 when that is unset (netlink.RuleAdd)
			if (r.Family == netlink.FAMILY_V6) == v6 {
				out = append(out, c13Artefact{desc: fmt.Sprintf("rule %s oif %q (family %d)", r, r.OifName, r.Family), oifRule: r.OifName != ""})
			}
		}
	}
	for _, g := range conf.Neighs {
		if isFam(g.IP) {
			add("neighbour %s", g.IP)
		}
	}
	keys := make([]string, 0, len(conf.SysCtl))
	for key := range conf.SysCtl {
		keys = append(keys, key)
	}
	sort.Strings(keys)
	for _, key := range keys {
		p := key
		if kv := conf.SysCtl[key]; len(kv) == 2 {
			p = kv[0]
		}
		if v6 && strings.Contains(p, "/ipv6/") || !v6 && strings.Contains(p, "/ipv4/") {
			add("sysctl %s", p)
		}
	}
	return out
}

func c13OnlyOifRules(arts []c13Artefact) bool {
	for _, a := range arts {
		if !a.oifRule {
			return false
		}
	}
	return len(arts) > 0
}

func c13Flip(ip net.IP) net.IP {
	out := append(net.IP{}, ip...)
	out[len(out)-1] ^= 1
	return out
}

// ---- the property ---------------------------------------------------------------------

type c13Loaded struct {
	what string
	conf *nic.Conf
}

func c13Run(c *vt.Ctx, s c13Scenario) { c13RunOpt(c, s, false) }

// c13RunOpt: noGuard runs the oracle without the known-finding exclusions (witness tests).
func c13RunOpt(c *vt.Ctx, s c13Scenario, noGuard bool) {
	k := &c13Check{c: c, s: &s}
	c.Label("dp:" + c13DPNames[s.DP])
	fam := "v4"
	if s.V4 && s.V6 {
		fam = "dual"
	} else if s.V6 {
		fam = "v6"
	}
	c.Label("family:" + fam)
	if s.Trunk {
		c.Label("trunk")
	}
	for _, p := range s.Pods {
		if p.Ingress > 0 || p.Egress > 0 {
			c.Label("bandwidth-limit")
			break
		}
	}

	// host namespace model: primary interface with the node's default routes, then the ENIs
	newHost := func() *c13NS {
		h := c13NewNS("host")
		_ = h.addLink(c13PrimaryIx, "eth0")
		h.putRoute(c13Route{Table: c13TableMain, Dst: c13CIDR("0.0.0.0/0"), Oif: c13PrimaryIx, Gw: c13HostGW4, Onlink: true})
		h.putRoute(c13Route{Table: c13TableMain, V6: true, Dst: c13CIDR("::/0"), Oif: c13PrimaryIx, Gw: c13HostGW6, Onlink: true})
		if s.DP != c13DPExclusive {
			for _, e := range s.ENIs {
				if err := h.addLink(e.Index, fmt.Sprintf("eni%d", e.Index)); err != nil {
					c.Fatalf("scenario: %v", err)
				}
			}
		}
		return h
	}
	host, base := newHost(), newHost()

	perENI := map[int]int{}
	nExtra, nMulti := 0, 0
	conts := make([]*c13NS, len(s.Pods))
	var allConfs []c13Loaded

	for p := range s.Pods {
		pod := &s.Pods[p]
		cont := c13NewNS(fmt.Sprintf("pod%d", p))
		conts[p] = cont
		if len(pod.Ifaces) > 1 {
			nMulti++
		}
		for i := range pod.Ifaces {
			f := &pod.Ifaces[i]
			e := s.eniOf(f)
			cfg := s.setupConfig(p, i)
			nExtra += len(f.Extra)
			tag := fmt.Sprintf("pod%d/%s", p, cfg.ContainerIfName)
			note := func(ns *c13NS, idx int, what string, conf *nic.Conf, inCont bool) {
				k.load(ns, idx, tag+" "+what, conf)
				allConfs = append(allConfs, c13Loaded{tag + " " + what, conf})
				_ = inCont
			}
			switch s.DP {
			case c13DPPolicy:
				perENI[e.Index]++
				hostMAC := c13MAC(f.HostLink)
				if err := host.addLink(f.HostLink, cfg.HostVETHName); err != nil {
					c.Fatalf("scenario: %v", err)
				}
				if err := cont.addLink(f.ContLink, "tmp"+cfg.ContainerIfName); err != nil {
					c.Fatalf("scenario: %v", err)
				}
				// mirror PolicyRoute.Setup
				contLink := c13Stub(f.ContLink, "tmp"+cfg.ContainerIfName, c13MAC(f.ContLink+1<<20))
				note(cont, f.ContLink, "container", generateContCfgForPolicy(cfg, contLink, hostMAC), true)
				eni := c13Stub(e.Index, host.Links[e.Index], c13MAC(e.Index))
				table := utils.GetRouteTableID(eni.Attrs().Index)
				note(host, e.Index, "eni", GenerateENICfgForPolicy(cfg, eni, table), false)
				hostVETH := c13Stub(f.HostLink, cfg.HostVETHName, hostMAC)
				note(host, f.HostLink, "host-veth", GenerateHostPeerCfgForPolicy(cfg, hostVETH, table), false)
			case c13DPIPVlan:
				perENI[e.Index]++
				parent := c13Stub(e.Index, host.Links[e.Index], c13MAC(e.Index))
				note(host, e.Index, "eni", generateENICfgForIPVlan(cfg, parent), false)
				if err := cont.addLink(f.ContLink, "tmp"+cfg.ContainerIfName); err != nil {
					c.Fatalf("scenario: %v", err)
				}
				contLink := c13Stub(f.ContLink, "tmp"+cfg.ContainerIfName, c13MAC(f.ContLink+1<<20))
				note(cont, f.ContLink, "container", generateContCfgForIPVlan(cfg, contLink), true)
				slaveName := (&IPvlanDriver{}).initSlaveName(e.Index)
				if _, ok := host.Links[e.Slave]; !ok {
					if err := host.addLink(e.Slave, slaveName); err != nil {
						c.Fatalf("scenario: %v", err)
					}
				}
				slave := c13Stub(e.Slave, slaveName, c13MAC(e.Slave))
				note(host, e.Slave, "slave", generateSlaveLinkCfgForIPVlan(cfg, slave), false)
			case c13DPExclusive:
				// the ENI itself is moved into the container and keeps being called by its old name
				if err := cont.addLink(f.ContLink, fmt.Sprintf("eni%d", e.Index)); err != nil {
					c.Fatalf("scenario: %v", err)
				}
				contLink := c13Stub(f.ContLink, fmt.Sprintf("eni%d", e.Index), c13MAC(e.Index))
				note(cont, f.ContLink, "container", generateContCfgForExclusiveENI(cfg, contLink), true)
				if !cfg.DisableCreatePeer && cfg.ContainerIfName == "eth0" {
					if err := host.addLink(f.HostLink, "tmp"+cfg.HostVETHName); err != nil {
						c.Fatalf("scenario: %v", err)
					}
					if err := cont.addLink(f.Veth1, "tmpveth1"); err != nil {
						c.Fatalf("scenario: %v", err)
					}
					veth1 := c13Stub(f.Veth1, "tmpveth1", c13MAC(f.Veth1+2<<20))
					note(cont, f.Veth1, "veth1", generateVeth1Cfg(cfg, veth1, c13MAC(f.HostLink)), true)
					hostPeer := c13Stub(f.HostLink, "tmp"+cfg.HostVETHName, c13MAC(f.HostLink))
					note(host, f.HostLink, "host-peer", generateHostSlaveCfg(cfg, hostPeer), false)
				}
			case c13DPVlan:
				perENI[e.Index]++
				note(host, e.Index, "eni", generateENICfgForVlan(cfg), false)
				if err := cont.addLink(f.ContLink, "tmp"+cfg.ContainerIfName); err != nil {
					c.Fatalf("scenario: %v", err)
				}
				contLink := c13Stub(f.ContLink, "tmp"+cfg.ContainerIfName, c13MAC(f.ContLink+1<<20))
				note(cont, f.ContLink, "container", generateContCfgForVlan(cfg, contLink), true)
			}
		}
	}

	shared := false
	for _, n := range perENI {
		if n >= 2 {
			shared = true
		}
	}
	if shared {
		c.Label("shared-eni")
	}
	if nExtra > 0 {
		c.Label("extra-routes")
	}
	if nMulti > 0 {
		c.Label("multi-network")
	}
	if (s.V4 && s.V6) || nMulti > 0 || shared || nExtra > 0 {
		c.NonTrivial()
	}

	// ---- nothing for a disabled family --------------------------------------------
	for _, lc := range allConfs {
		for _, v6 := range []bool{false, true} {
			if (v6 && s.V6) || (!v6 && s.V4) {
				continue
			}
			arts := c13FamilyArtefacts(lc.conf, v6)
			if len(arts) == 0 {
				continue
			}
			if !v6 && c13OnlyOifRules(arts) && !noGuard && vt.Known(c13KnownOifRule) {
				c.Label("known:" + c13KnownOifRule)
				continue
			}
			famName := map[bool]string{false: "IPv4", true: "IPv6"}[v6]
			var ds []string
			for _, a := range arts {
				ds = append(ds, a.desc)
			}
			c.Fatalf("[%s] %s: %s is disabled for the pod but the configuration carries %s", c13DPNames[s.DP], lc.what, famName, strings.Join(ds, "; "))
		}
	}

	// ---- host namespace ---------------------------------------------------------------
	type owned struct {
		ip   net.IP
		v6   bool
		p, i int
		eni  *c13ENI
		f    *c13Iface
	}
	var addrs []owned
	isPodAddr := map[string]bool{}
	for p := range s.Pods {
		for i := range s.Pods[p].Ifaces {
			f := &s.Pods[p].Ifaces[i]
			if s.V4 {
				addrs = append(addrs, owned{ip: net.ParseIP(f.IP4).To4(), p: p, i: i, f: f, eni: s.eniOf(f)})
				isPodAddr[net.ParseIP(f.IP4).String()] = true
			}
			if s.V6 {
				addrs = append(addrs, owned{ip: net.ParseIP(f.IP6), v6: true, p: p, i: i, f: f, eni: s.eniOf(f)})
				isPodAddr[net.ParseIP(f.IP6).String()] = true
			}
		}
	}
	outside := func(v6 bool) net.IP {
		if v6 {
			return c13Outside6
		}
		return c13Outside4
	}
	for _, a := range addrs {
		tag := fmt.Sprintf("pod%d/%s %s", a.p, c13IfName(a.i), a.ip)
		// which host link must receive traffic for a.ip?
		hostSide := 0
		switch s.DP {
		case c13DPPolicy:
			hostSide = a.f.HostLink
		case c13DPIPVlan:
			hostSide = a.eni.Slave
		case c13DPExclusive:
			if !a.f.NoPeer && a.i == 0 {
				hostSide = a.f.HostLink
			}
		}
		if hostSide != 0 {
			srcs := []net.IP{nil, outside(a.v6)}
			for _, b := range addrs {
				if b.v6 == a.v6 && !b.ip.Equal(a.ip) {
					srcs = append(srcs, b.ip)
				}
			}
			for _, src := range srcs {
				k.expectUnicast(host, c13Flow{V6: a.v6, Src: src, Dst: a.ip}, hostSide, nil, 0, tag+": traffic to the pod must be delivered to its host-side link")
			}
		}
		if s.DP == c13DPPolicy {
			gw4, gw6, eni4, eni6 := s.gateways(a.f)
			want := gw4
			if a.v6 {
				want = gw6
			}
			if s.Trunk {
				want = eni4
				if a.v6 {
					want = eni6
				}
			}
			k.expectUnicast(host, c13Flow{V6: a.v6, Src: a.ip, Dst: outside(a.v6), Iif: c13HostVethName(a.p, a.i)}, a.eni.Index, want, 1000+a.eni.Index,
				tag+": pod-sourced traffic must leave via the ENI that owns the address, through that ENI's gateway, in table 1000+ifindex")
		}
		// neighbours of the pod address that are not pod addresses are nobody's business
		nb := c13Flip(a.ip)
		if !isPodAddr[nb.String()] {
			k.expectSame(host, base, c13Flow{V6: a.v6, Src: nb, Dst: outside(a.v6)}, tag+": rules must not capture traffic of the neighbouring address "+nb.String())
			k.expectSame(host, base, c13Flow{V6: a.v6, Src: outside(a.v6), Dst: nb}, tag+": routes/rules must not capture traffic to the neighbouring address "+nb.String())
		}
	}
	// the node's own traffic is untouched
	for _, v6 := range []bool{false, true} {
		k.expectSame(host, base, c13Flow{V6: v6, Dst: outside(v6)}, "node-originated traffic")
	}

	// ---- container namespaces -----------------------------------------------------------
	for p := range s.Pods {
		pod := &s.Pods[p]
		cont := conts[p]
		def := ((pod.Default % len(pod.Ifaces)) + len(pod.Ifaces)) % len(pod.Ifaces)
		multi := len(pod.Ifaces) > 1
		for _, v6 := range []bool{false, true} {
			enabled := (v6 && s.V6) || (!v6 && s.V4)
			famName := map[bool]string{false: "IPv4", true: "IPv6"}[v6]
			dr := cont.defaults(c13TableMain, v6)
			if !enabled {
				if len(dr) != 0 {
					k.fail(cont, "pod%d: %s disabled but the container has default route(s) %v", p, famName, dr)
				}
				continue
			}
			if len(dr) != 1 {
				k.fail(cont, "pod%d: want exactly one %s default route in the container, have %d: %v", p, famName, len(dr), dr)
			}
			df := &pod.Ifaces[def]
			gw4, gw6, _, _ := s.gateways(df)
			wantGW := gw4
			if v6 {
				wantGW = gw6
			}
			if s.DP == c13DPPolicy {
				wantGW = net.IPv4(169, 254, 1, 1).To4()
				if v6 {
					wantGW = net.ParseIP("fe80::1")
				}
			}
			k.expectUnicast(cont, c13Flow{V6: v6, Dst: outside(v6)}, df.ContLink, wantGW, c13TableMain,
				fmt.Sprintf("pod%d: %s default route must point out of %s via its gateway", p, famName, c13IfName(def)))
			if s.DP == c13DPPolicy {
				// the link-local peer is nobody's address: the gateway must be pinned to the host veth's MAC
				found := false
				for _, g := range cont.Neighs {
					if g.Link == df.ContLink && g.IP.Equal(wantGW) && g.MAC == c13MAC(df.HostLink).String() {
						found = true
					}
				}
				if !found {
					k.fail(cont, "pod%d: no permanent neighbour for the %s gateway %s -> %s on %s", p, famName, wantGW, c13MAC(df.HostLink), c13IfName(def))
				}
			}

			for i := range pod.Ifaces {
				f := &pod.Ifaces[i]
				ip := net.ParseIP(f.IP4).To4()
				if v6 {
					ip = net.ParseIP(f.IP6)
				}
				// the address is on the interface
				r := cont.lookup(c13Flow{V6: v6, Dst: ip, Src: outside(v6)})
				if !r.Found || !r.Local {
					k.fail(cont, "pod%d/%s: address %s is not local to the container: %s", p, c13IfName(i), ip, r)
				}
				onIf := false
				for _, a := range cont.Addrs {
					if a.Link == f.ContLink && a.Net.IP.Equal(ip) {
						onIf = true
					}
				}
				if !onIf {
					k.fail(cont, "pod%d/%s: address %s is not configured on the interface", p, c13IfName(i), ip)
				}
				if cont.Links[f.ContLink] != c13IfName(i) {
					k.fail(cont, "pod%d: interface #%d is named %q, want %s", p, f.ContLink, cont.Links[f.ContLink], c13IfName(i))
				}
				g4, g6, _, _ := s.gateways(f)
				ifGW := g4
				if v6 {
					ifGW = g6
				}
				if multi {
					// source-based: traffic from this interface's address leaves through this interface
					fl := c13Flow{V6: v6, Src: ip, Dst: outside(v6)}
					if s.DP == c13DPPolicy {
						// veth: which next hop the per-interface table names is not part of the stated intent
						got := cont.lookup(fl)
						if !got.Found || got.Local || got.Oif != f.ContLink || got.Table != 1000+f.ContLink {
							k.fail(cont, "pod%d/%s: traffic from %s must leave via %s in table %d, got %s", p, c13IfName(i), ip, c13IfName(i), 1000+f.ContLink, got)
						}
					} else {
						k.expectUnicast(cont, fl, f.ContLink, ifGW, 1000+f.ContLink,
							fmt.Sprintf("pod%d/%s: traffic sourced from the interface's address must leave through it via its gateway", p, c13IfName(i)))
					}
				} else {
					got := cont.lookup(c13Flow{V6: v6, Src: ip, Dst: outside(v6)})
					if !got.Found || got.Oif != f.ContLink || got.Local {
						k.fail(cont, "pod%d: traffic from %s to outside: %s, want dev %s", p, ip, got, c13IfName(i))
					}
				}
				// extra routes
				for _, x := range f.Extra {
					dst := c13CIDR(x.Dst)
					if c13IsV6(dst.IP) != v6 {
						continue
					}
					probe := append(net.IP{}, dst.IP...)
					if !v6 {
						probe = probe.To4()
					}
					probe[len(probe)-1] |= 9
					var xgw net.IP
					if x.GW != "" {
						xgw = net.ParseIP(x.GW)
					}
					k.expectUnicast(cont, c13Flow{V6: v6, Dst: probe}, f.ContLink, xgw, c13TableMain,
						fmt.Sprintf("pod%d/%s: extra route %s", p, c13IfName(i), x.Dst))
				}
				// datapath-specific reachability of the node
				switch s.DP {
				case c13DPIPVlan:
					hip := net.ParseIP(s.HostIP4).To4()
					if v6 {
						hip = net.ParseIP(s.HostIP6)
					}
					if !multi {
						k.expectUnicast(cont, c13Flow{V6: v6, Dst: hip}, f.ContLink, nil, c13TableMain, fmt.Sprintf("pod%d: the node address must be reachable directly on %s", p, c13IfName(i)))
					} else if got := cont.lookup(c13Flow{V6: v6, Dst: hip}); !got.Found || got.Local || got.Gw != nil || got.Prefix != (&net.IPNet{IP: hip, Mask: net.CIDRMask(len(hip)*8, len(hip)*8)}).String() {
						k.fail(cont, "pod%d: the node address %s must be reachable directly on an interface of the pod, got %s", p, hip, got)
					}
				case c13DPExclusive:
					if f.NoPeer || i != 0 {
						break
					}
					peer := net.IPv4(169, 254, 1, 1).To4()
					hip := net.ParseIP(s.HostIP4).To4()
					svc := s.Svc4
					if v6 {
						peer, hip, svc = net.ParseIP("fe80::1"), net.ParseIP(s.HostIP6), s.Svc6
					}
					k.expectUnicast(cont, c13Flow{V6: v6, Dst: hip}, f.Veth1, peer, c13TableMain, fmt.Sprintf("pod%d: the node address must be reached over veth1", p))
					if svc != "" {
						n := c13CIDR(svc)
						probe := append(net.IP{}, n.IP...)
						probe[len(probe)-1] |= 10
						k.expectUnicast(cont, c13Flow{V6: v6, Dst: probe}, f.Veth1, peer, c13TableMain, fmt.Sprintf("pod%d: service CIDR %s must be reached over veth1", p, svc))
					}
					for _, h := range s.HostStack {
						n := c13CIDR(h)
						if c13IsV6(n.IP) != v6 {
							continue
						}
						k.expectUnicast(cont, c13Flow{V6: v6, Dst: n.IP}, f.Veth1, peer, c13TableMain, fmt.Sprintf("pod%d: host-stack CIDR %s must be reached over veth1", p, h))
					}
					if cont.Links[f.Veth1] != "veth1" {
						k.fail(cont, "pod%d: link #%d is named %q, want veth1", p, f.Veth1, cont.Links[f.Veth1])
					}
				}
			}
		}
		// "Exactly one default route per enabled family" must survive the segment the pod sits on:
		// a VPC segment carries router advertisements, and an interface with accept_ra=1 grows a
		// second `default via fe80::… proto ra` as soon as one arrives.  Every pod-side interface
		// that faces the ENI segment (exclusive ENI, ipvlan, vlan) must therefore be configured
		// with accept_ra=0 when the pod has IPv6.
		if s.V6 && s.DP != c13DPPolicy {
			for i := range pod.Ifaces {
				key := "/proc/sys/net/ipv6/conf/" + c13IfName(i) + "/accept_ra"
				if v, ok := cont.Sysctl[key]; !ok || v != "0" {
					k.fail(cont, "pod%d/%s: IPv6 pod interface on the ENI segment is not configured with accept_ra=0 (%s = %q, set: %v): a router advertisement would add a second default route", p, c13IfName(i), key, v, ok)
				}
			}
		}
		// with several interfaces, IPv4 traffic bound to an interface uses that interface
		if multi && s.V4 {
			for i := range pod.Ifaces {
				f := &pod.Ifaces[i]
				got := cont.lookup(c13Flow{Dst: c13Outside4, Oif: c13IfName(i)})
				if !got.Found || got.Oif != f.ContLink || got.Table != 1000+f.ContLink {
					k.fail(cont, "pod%d/%s: traffic bound to the interface must be answered from table %d via the interface, got %s", p, c13IfName(i), 1000+f.ContLink, got)
				}
			}
		}
	}
}

func TestVerifC13Routing(t *testing.T) {
	vt.Run(t, c13Gen, c13Run)
}

// known-finding ids (consulted only while listed as open in known_findings.json)
const (
	// with MultiNetwork every generator emits `oif <ifname> lookup 1000+ifindex` without a
	// family; netlink installs it as an IPv4 rule, also for a pod that has no IPv4
	c13KnownOifRule = "C13-oif-rule-ipv4-only"
	// ExclusiveENI.Setup creates the host-side veth for eth0 only but afterwards looks it
	// up for every interface, so eth1 of a multi-network pod cannot be set up
	c13KnownEth1Peer = "C13-exclusive-eth1-host-peer"
)

// Deterministic witness of C13-oif-rule-ipv4-only.
func TestVerifC13KnownOifRule(t *testing.T) {
	s := c13Scenario{DP: c13DPExclusive, V6: true, MTU: 1500, Vid: 1,
		ENIs: []c13ENI{
			{Index: 3, Slave: 4, GW4: "10.0.0.200", GW6: "fe80::c8", Trunk4: "10.0.0.220", Trunk6: "2400::dc"},
			{Index: 5, Slave: 6, GW4: "10.0.0.201", GW6: "fe80::c9", Trunk4: "10.0.0.221", Trunk6: "2400::dd"},
		},
		HostIP4: "10.0.0.100", HostIP6: "2400::64",
		Pods: []c13Pod{{Default: 0, Ifaces: []c13Iface{
			{ENI: 0, IP4: "10.0.0.2", Prefix4: 24, IP6: "2400::2", Prefix6: 64, PodGW4: "10.0.0.230", PodGW6: "2400::e6", HostLink: 7, ContLink: 2, Veth1: 3},
			{ENI: 1, IP4: "10.0.0.4", Prefix4: 24, IP6: "2400::4", Prefix6: 64, PodGW4: "10.0.0.231", PodGW6: "2400::e7", HostLink: 8, ContLink: 4, Veth1: 5},
		}}},
	}
	vt.Witness(t, "C13", c13KnownOifRule,
		"an IPv6-only pod with two interfaces (MultiNetwork) gets the per-interface rule `oif ethN lookup 1000+ifindex` as an IPv4 rule: something is created for the disabled family (all four container generators)",
		s, func(c *vt.Ctx, s c13Scenario) { c13RunOpt(c, s, true) })
}
