//go:build linux

package datapath

import (
	"fmt"
	"net"
	"testing"

	"github.com/AliyunContainerService/terway/zz_verif/c14ref"
	"github.com/AliyunContainerService/terway/zz_verif/vt"
	"github.com/vishvananda/netlink"
	"pgregory.net/rapid"
)

// C14 (a), destination side, at the reuse decision: IPvlanDriver.setupFilters does not
// install the classifier of a redirect CIDR when redirectRule.isMatch accepts a filter
// that is already on the ENI.  The key that then classifies "destination in CIDR" is the
// installed one, so isMatch may accept the filter built for CIDR A as the classifier of
// CIDR B only if A's keys match a packet exactly when its destination lies in B (same
// packet-level oracle as TestVerifC14DstIPRule); and it must recognise the filter the
// datapath itself builds for B.  The kernel list/add calls are not involved: the
// installed filter is the real toU32Filter() output.

type vfC14ReuseScenario struct {
	Wanted    c14ref.Scenario `json:"wanted"`    // CIDR B with probes
	Installed c14ref.Scenario `json:"installed"` // CIDR A whose filter is already there
	Rel       int             `json:"rel"`
	Index     int             `json:"index"`
	DstIndex  int             `json:"dst_index"`
}

func vfC14GenReuse(t *rapid.T) vfC14ReuseScenario {
	b := c14ref.Gen(t, 4)
	a, rel := c14ref.GenRelated(t, b)
	return vfC14ReuseScenario{Wanted: b, Installed: a, Rel: rel,
		Index:    rapid.IntRange(1, 1<<20).Draw(t, "index"),
		DstIndex: rapid.IntRange(1, 1<<20).Draw(t, "dstindex")}
}

func vfC14FilterKeys(f *netlink.U32) []c14ref.Key {
	var ks []c14ref.Key
	n := len(f.Sel.Keys)
	if int(f.Sel.Nkeys) < n {
		n = int(f.Sel.Nkeys)
	}
	for _, k := range f.Sel.Keys[:n] {
		ks = append(ks, c14ref.Key{Off: k.Off, OffMask: k.OffMask, Val: k.Val, Mask: k.Mask})
	}
	return ks
}

func vfC14RunReuse(c *vt.Ctx, s vfC14ReuseScenario) {
	a, b := s.Installed, s.Wanted
	a.Noise = b.Noise
	if !b.Valid() || !a.Valid() || a.V6 || b.V6 || s.Rel < 0 || s.Rel > c14ref.RelIndependent {
		c.Inconclusive("scenario outside the generated domain")
	}
	cidr := func(x c14ref.Scenario) string { return fmt.Sprintf("%s/%d", net.IP(x.Addr), x.Prefix) }
	ruleA, errA := dstIPRule(s.Index, a.IPNet(), s.DstIndex, netlink.TCA_INGRESS_REDIR)
	ruleB, errB := dstIPRule(s.Index, b.IPNet(), s.DstIndex, netlink.TCA_INGRESS_REDIR)
	if errA != nil || errB != nil {
		c.Fatalf("dstIPRule failed for an IPv4 CIDR: %v / %v", errA, errB)
	}
	fA, fB := ruleA.toU32Filter(), ruleB.toU32Filter()

	same := c14ref.SameCIDR(a, b)
	c.Labelf("relation=%s", c14ref.RelName(s.Rel))
	if s.Rel != c14ref.RelIndependent {
		c.NonTrivial()
	}

	// the datapath recognises its own classifier of B
	if !ruleB.isMatch(fB) {
		c.Fatalf("the filter built for %s is not recognised as the classifier of %s (keys %s)", cidr(b), cidr(b), c14ref.FmtKeys(vfC14FilterKeys(fB)))
	}

	yes := ruleB.isMatch(fA)
	c.Trace("installed %s keys %s; wanted %s keys %s; isMatch=%v", cidr(a), c14ref.FmtKeys(vfC14FilterKeys(fA)), cidr(b), c14ref.FmtKeys(vfC14FilterKeys(fB)), yes)
	switch {
	case yes:
		c.Label("accepted")
		r := &c14ref.Result{}
		c14ref.Check(r, c14ref.WithBoundaryProbes(b, a), c14ref.Dst,
			fmt.Sprintf("isMatch accepts the filter installed for %s as the classifier of %s; that filter, taken as classifier", cidr(a), cidr(b)),
			vfC14FilterKeys(fA))
		for _, l := range r.Trace {
			c.Trace("%s", l)
		}
		if r.Violation != "" {
			c.Fatalf("%s", r.Violation)
		}
	case same:
		c.Fatalf("the filter installed for %s (form %d) is not recognised as the classifier of the same CIDR written %s (form %d)",
			a.IPNet(), a.Form, b.IPNet(), b.Form)
	default:
		c.Label("rejected")
	}
}

func TestVerifC14DstRuleReuse(t *testing.T) {
	vt.Run(t, vfC14GenReuse, vfC14RunReuse)
}
