//go:build linux

package datapath

// C13 reference FIB: a small, independent model of Linux policy routing, written for the
// harness.  A namespace holds links, addresses, rules, routes, neighbours and sysctls;
// nic.Conf values are loaded into it with the semantics of nic.Setup (ensure-style:
// one global address per family and link, `ip route replace`, rule added once);
// lookups walk the rules by priority, then the rule's table by longest prefix.

import (
	"bytes"
	"fmt"
	"net"
	"sort"
	"strings"

	"github.com/vishvananda/netlink"

	"github.com/AliyunContainerService/terway/plugin/driver/nic"
)

const (
	c13TableLocal   = 255
	c13TableMain    = 254
	c13TableDefault = 253
)

type c13Route struct {
	Table  int
	V6     bool
	Dst    *net.IPNet // canonical: masked network, mask of family width
	Oif    int
	Gw     net.IP
	Local  bool // entry of the local table (address owned by this namespace)
	Onlink bool
	seq    int
}

func (r c13Route) String() string {
	s := fmt.Sprintf("table %d %s dev #%d", r.Table, r.Dst, r.Oif)
	if r.Gw != nil {
		s += " via " + r.Gw.String()
	}
	if r.Local {
		s += " local"
	}
	return s
}

type c13Rule struct {
	Prio  int
	V6    bool
	Src   *net.IPNet
	Dst   *net.IPNet
	Oif   string
	Iif   string
	Table int
	seq   int
}

func (r c13Rule) String() string {
	s := fmt.Sprintf("%d:", r.Prio)
	if r.Src != nil {
		s += " from " + r.Src.String()
	} else {
		s += " from all"
	}
	if r.Dst != nil {
		s += " to " + r.Dst.String()
	}
	if r.Iif != "" {
		s += " iif " + r.Iif
	}
	if r.Oif != "" {
		s += " oif " + r.Oif
	}
	return s + fmt.Sprintf(" lookup %d (v6=%v)", r.Table, r.V6)
}

type c13Neigh struct {
	Link int
	IP   net.IP
	MAC  string
}

type c13Addr struct {
	Link int
	Net  *net.IPNet // address with its prefix length (not masked)
}

type c13NS struct {
	Name   string
	Links  map[int]string
	Rules  []c13Rule
	Routes []c13Route
	Addrs  []c13Addr
	Neighs []c13Neigh
	Sysctl map[string]string
	seq    int
}

func c13NewNS(name string) *c13NS {
	n := &c13NS{Name: name, Links: map[int]string{1: "lo"}, Sysctl: map[string]string{}}
	for _, v6 := range []bool{false, true} {
		n.Rules = append(n.Rules,
			c13Rule{Prio: 0, V6: v6, Table: c13TableLocal},
			c13Rule{Prio: 32766, V6: v6, Table: c13TableMain})
		if !v6 {
			n.Rules = append(n.Rules, c13Rule{Prio: 32767, V6: v6, Table: c13TableDefault})
		}
	}
	for i := range n.Rules {
		n.seq++
		n.Rules[i].seq = n.seq
	}
	return n
}

func c13IsV6(ip net.IP) bool { return ip.To4() == nil }

// c13Canon returns the masked network with a mask of the family's width, or an error
// for an IPNet the kernel interface could not carry.
func c13Canon(n *net.IPNet) (*net.IPNet, bool, error) {
	if n == nil || n.IP == nil {
		return nil, false, fmt.Errorf("nil prefix")
	}
	ones, bits := n.Mask.Size()
	if bits == 0 {
		return nil, false, fmt.Errorf("non-canonical mask %v", n.Mask)
	}
	if ip4 := n.IP.To4(); ip4 != nil {
		if bits == 128 {
			// 16-byte mask on an IPv4 address: only meaningful if it covers the mapped prefix
			if ones < 96 {
				return nil, false, fmt.Errorf("IPv4 address %s with IPv6 mask /%d", n.IP, ones)
			}
			ones -= 96
		}
		m := net.CIDRMask(ones, 32)
		return &net.IPNet{IP: ip4.Mask(m), Mask: m}, false, nil
	}
	if len(n.IP) != net.IPv6len {
		return nil, false, fmt.Errorf("bad address length %d", len(n.IP))
	}
	if bits != 128 {
		return nil, false, fmt.Errorf("IPv6 address %s with IPv4 mask", n.IP)
	}
	m := net.CIDRMask(ones, 128)
	return &net.IPNet{IP: n.IP.Mask(m), Mask: m}, true, nil
}

func c13PrefixLen(n *net.IPNet) int { o, _ := n.Mask.Size(); return o }

func c13Contains(n *net.IPNet, ip net.IP) bool {
	if n == nil {
		return true
	}
	if ip == nil {
		// unspecified address: only a /0 prefix matches
		return c13PrefixLen(n) == 0
	}
	if c13IsV6(n.IP) != c13IsV6(ip) {
		return false
	}
	return n.Contains(ip)
}

// ---- loading -------------------------------------------------------------------

func (n *c13NS) addLink(idx int, name string) error {
	if old, ok := n.Links[idx]; ok && old != name {
		return fmt.Errorf("%s: link index %d already named %s (want %s)", n.Name, idx, old, name)
	}
	for i, nm := range n.Links {
		if nm == name && i != idx {
			return fmt.Errorf("%s: link name %s already used by #%d", n.Name, name, i)
		}
	}
	n.Links[idx] = name
	return nil
}

func (n *c13NS) linkByName(name string) int {
	for i, nm := range n.Links {
		if nm == name {
			return i
		}
	}
	return 0
}

func (n *c13NS) putRoute(r c13Route) {
	for i := range n.Routes {
		o := &n.Routes[i]
		if o.Table == r.Table && o.V6 == r.V6 && o.Local == r.Local && o.Dst.String() == r.Dst.String() {
			r.seq = o.seq
			*o = r // ip route replace
			return
		}
	}
	n.seq++
	r.seq = n.seq
	n.Routes = append(n.Routes, r)
}

// gatewayResolvable: a gateway without the onlink flag must be reachable through a
// directly connected (gateway-less) route on the same device, as the kernel demands at
// insertion time; IPv6 link-local gateways are always acceptable with a device.
func (n *c13NS) gatewayResolvable(r c13Route) bool {
	if r.V6 && r.Gw.IsLinkLocalUnicast() {
		return true
	}
	for _, o := range n.Routes {
		if o.V6 == r.V6 && o.Gw == nil && !o.Local && o.Oif == r.Oif && (o.Table == c13TableMain || o.Table == r.Table) && o.Dst.Contains(r.Gw) {
			return true
		}
	}
	return false
}

// loadConf applies a nic.Conf to link idx the way nic.Setup would.
func (n *c13NS) loadConf(idx int, conf *nic.Conf) error {
	if _, ok := n.Links[idx]; !ok {
		return fmt.Errorf("%s: no link #%d", n.Name, idx)
	}
	if conf.IfName != "" {
		for i, nm := range n.Links {
			if nm == conf.IfName && i != idx {
				return fmt.Errorf("%s: cannot rename #%d to %s: name taken by #%d", n.Name, idx, conf.IfName, i)
			}
		}
		n.Links[idx] = conf.IfName
	}
	keys := make([]string, 0, len(conf.SysCtl))
	for k := range conf.SysCtl {
		keys = append(keys, k)
	}
	sort.Strings(keys)
	for _, k := range keys {
		v := conf.SysCtl[k]
		if len(v) != 2 {
			return fmt.Errorf("%s: sysctl entry %q malformed: %v", n.Name, k, v)
		}
		n.Sysctl[v[0]] = v[1]
	}
	for _, a := range conf.Addrs {
		if a == nil || a.IPNet == nil {
			return fmt.Errorf("%s: nil address in conf", n.Name)
		}
		if err := n.addAddr(idx, a.IPNet); err != nil {
			return err
		}
	}
	for _, ng := range conf.Neighs {
		if ng.IP == nil {
			return fmt.Errorf("%s: neighbour without address", n.Name)
		}
		if ng.LinkIndex != idx {
			return fmt.Errorf("%s: neighbour %s programmed on #%d while configuring #%d", n.Name, ng.IP, ng.LinkIndex, idx)
		}
		n.Neighs = append(n.Neighs, c13Neigh{Link: ng.LinkIndex, IP: ng.IP, MAC: ng.HardwareAddr.String()})
	}
	for _, rt := range conf.Routes {
		if err := n.addRoute(rt); err != nil {
			return err
		}
	}
	for _, ru := range conf.Rules {
		if err := n.addRule(ru); err != nil {
			return err
		}
	}
	return nil
}

func (n *c13NS) addAddr(idx int, ipn *net.IPNet) error {
	canon, v6, err := c13Canon(ipn)
	if err != nil {
		return fmt.Errorf("%s: address %v: %v", n.Name, ipn, err)
	}
	ip := ipn.IP
	if !v6 {
		ip = ip.To4()
	}
	// EnsureAddr: only one global unicast address per family stays on the link
	if ip.IsGlobalUnicast() {
		kept := n.Addrs[:0]
		for _, a := range n.Addrs {
			if a.Link == idx && c13IsV6(a.Net.IP) == v6 && a.Net.IP.IsGlobalUnicast() && a.Net.String() != (&net.IPNet{IP: ip, Mask: canon.Mask}).String() {
				n.dropAddrRoutes(a)
				continue
			}
			kept = append(kept, a)
		}
		n.Addrs = kept
	}
	for _, a := range n.Addrs {
		if a.Link == idx && a.Net.IP.Equal(ip) && bytes.Equal(a.Net.Mask, canon.Mask) {
			return nil
		}
	}
	n.Addrs = append(n.Addrs, c13Addr{Link: idx, Net: &net.IPNet{IP: ip, Mask: canon.Mask}})
	full := net.CIDRMask(len(ip)*8, len(ip)*8)
	n.putRoute(c13Route{Table: c13TableLocal, V6: v6, Dst: &net.IPNet{IP: ip, Mask: full}, Oif: idx, Local: true})
	if c13PrefixLen(canon) < len(ip)*8 {
		n.putRoute(c13Route{Table: c13TableMain, V6: v6, Dst: canon, Oif: idx})
	}
	return nil
}

func (n *c13NS) dropAddrRoutes(a c13Addr) {
	kept := n.Routes[:0]
	for _, r := range n.Routes {
		if r.Oif == a.Link && r.Local && r.Dst.IP.Equal(a.Net.IP) {
			continue
		}
		kept = append(kept, r)
	}
	n.Routes = kept
}

func (n *c13NS) addRoute(rt *netlink.Route) error {
	if rt == nil || rt.Dst == nil {
		return fmt.Errorf("%s: route without destination: %v", n.Name, rt)
	}
	canon, v6, err := c13Canon(rt.Dst)
	if err != nil {
		return fmt.Errorf("%s: route %v: %v", n.Name, rt, err)
	}
	if rt.Gw != nil && c13IsV6(rt.Gw) != v6 {
		return fmt.Errorf("%s: route to %s has a gateway of the other family: %s", n.Name, canon, rt.Gw)
	}
	if _, ok := n.Links[rt.LinkIndex]; !ok {
		return fmt.Errorf("%s: route %v names unknown link #%d", n.Name, rt, rt.LinkIndex)
	}
	table := rt.Table
	if table == 0 {
		table = c13TableMain
	}
	r := c13Route{Table: table, V6: v6, Dst: canon, Oif: rt.LinkIndex, Onlink: rt.Flags&int(netlink.FLAG_ONLINK) != 0}
	if rt.Gw != nil {
		r.Gw = rt.Gw
		if !v6 {
			r.Gw = rt.Gw.To4()
		}
		if !r.Onlink && !n.gatewayResolvable(r) {
			return fmt.Errorf("%s: route %s: gateway %s is not on-link on #%d and the route lacks the onlink flag (the kernel rejects it)", n.Name, canon, r.Gw, r.Oif)
		}
	}
	n.putRoute(r)
	return nil
}

func (n *c13NS) addRule(ru *netlink.Rule) error {
	r := c13Rule{Prio: ru.Priority, Table: ru.Table, Oif: ru.OifName, Iif: ru.IifName}
	famSet := false
	if ru.Family == netlink.FAMILY_V6 {
		r.V6, famSet = true, true
	}
	if ru.Dst != nil && ru.Dst.IP != nil {
		c, v6, err := c13Canon(ru.Dst)
		if err != nil {
			return fmt.Errorf("%s: rule %v: %v", n.Name, ru, err)
		}
		// the kernel keeps the address as given; the harness only loads host prefixes and
		// masked prefixes, so the canonical form is equivalent for matching
		r.Dst, r.V6, famSet = c, v6, true
	}
	if ru.Src != nil && ru.Src.IP != nil {
		c, v6, err := c13Canon(ru.Src)
		if err != nil {
			return fmt.Errorf("%s: rule %v: %v", n.Name, ru, err)
		}
		if famSet && r.Dst != nil && v6 != r.V6 {
			return fmt.Errorf("%s: rule %v mixes families", n.Name, ru)
		}
		r.Src, r.V6 = c, v6
	}
	if r.Prio < 0 {
		return fmt.Errorf("%s: rule %v without priority", n.Name, ru)
	}
	if r.Table <= 0 {
		return fmt.Errorf("%s: rule %v without table", n.Name, ru)
	}
	// EnsureIPRule: same selector + priority present -> nothing to do
	for i := range n.Rules {
		o := &n.Rules[i]
		if o.V6 == r.V6 && o.Prio == r.Prio && c13NetStr(o.Src) == c13NetStr(r.Src) && c13NetStr(o.Dst) == c13NetStr(r.Dst) && o.Oif == r.Oif {
			if o.Table == r.Table && o.Iif == r.Iif {
				return nil
			}
			// differing table: EnsureIPRule deletes and re-adds
			n.Rules = append(n.Rules[:i], n.Rules[i+1:]...)
			break
		}
	}
	n.seq++
	r.seq = n.seq
	n.Rules = append(n.Rules, r)
	return nil
}

func c13NetStr(n *net.IPNet) string {
	if n == nil {
		return ""
	}
	return n.String()
}

// ---- lookup --------------------------------------------------------------------

type c13Flow struct {
	V6  bool
	Src net.IP // nil = unspecified
	Dst net.IP
	Iif string
	Oif string
}

func (f c13Flow) String() string {
	s := "to " + f.Dst.String()
	if f.Src != nil {
		s += " from " + f.Src.String()
	}
	if f.Iif != "" {
		s += " iif " + f.Iif
	}
	if f.Oif != "" {
		s += " oif " + f.Oif
	}
	return s
}

type c13Result struct {
	Found    bool
	Local    bool
	Table    int
	Oif      int
	Gw       net.IP
	Prefix   string
	RulePrio int
}

func (r c13Result) String() string {
	if !r.Found {
		return "unreachable"
	}
	s := fmt.Sprintf("rule %d -> table %d: %s dev #%d", r.RulePrio, r.Table, r.Prefix, r.Oif)
	if r.Gw != nil {
		s += " via " + r.Gw.String()
	}
	if r.Local {
		s += " (local)"
	}
	return s
}

func (n *c13NS) lookup(f c13Flow) c13Result {
	rules := make([]c13Rule, 0, len(n.Rules))
	for _, r := range n.Rules {
		if r.V6 == f.V6 {
			rules = append(rules, r)
		}
	}
	sort.SliceStable(rules, func(i, j int) bool {
		if rules[i].Prio != rules[j].Prio {
			return rules[i].Prio < rules[j].Prio
		}
		return rules[i].seq < rules[j].seq
	})
	oif := 0
	if f.Oif != "" {
		oif = n.linkByName(f.Oif)
	}
	for _, r := range rules {
		if !c13Contains(r.Src, f.Src) || !c13Contains(r.Dst, f.Dst) {
			continue
		}
		if r.Iif != "" && r.Iif != f.Iif {
			continue
		}
		if r.Oif != "" && r.Oif != f.Oif {
			continue
		}
		var best *c13Route
		for i := range n.Routes {
			rt := &n.Routes[i]
			if rt.Table != r.Table || rt.V6 != f.V6 || !rt.Dst.Contains(f.Dst) {
				continue
			}
			if oif != 0 && !rt.Local && rt.Oif != oif {
				continue
			}
			if best == nil || c13PrefixLen(rt.Dst) > c13PrefixLen(best.Dst) ||
				(c13PrefixLen(rt.Dst) == c13PrefixLen(best.Dst) && rt.seq < best.seq) {
				best = rt
			}
		}
		if best != nil {
			return c13Result{Found: true, Local: best.Local, Table: best.Table, Oif: best.Oif, Gw: best.Gw, Prefix: best.Dst.String(), RulePrio: r.Prio}
		}
	}
	return c13Result{}
}

// defaults returns the default routes (prefix length 0) of a family in a table.
func (n *c13NS) defaults(table int, v6 bool) []c13Route {
	var out []c13Route
	for _, r := range n.Routes {
		if r.Table == table && r.V6 == v6 && c13PrefixLen(r.Dst) == 0 {
			out = append(out, r)
		}
	}
	return out
}

func (n *c13NS) dump() string {
	var b strings.Builder
	fmt.Fprintf(&b, "[%s]", n.Name)
	idx := make([]int, 0, len(n.Links))
	for i := range n.Links {
		idx = append(idx, i)
	}
	sort.Ints(idx)
	for _, i := range idx {
		fmt.Fprintf(&b, " #%d=%s", i, n.Links[i])
	}
	for _, a := range n.Addrs {
		fmt.Fprintf(&b, "\n  addr %s dev #%d", a.Net, a.Link)
	}
	for _, r := range n.Rules {
		fmt.Fprintf(&b, "\n  rule %s", r)
	}
	for _, r := range n.Routes {
		fmt.Fprintf(&b, "\n  route %s", r)
	}
	for _, g := range n.Neighs {
		fmt.Fprintf(&b, "\n  neigh %s dev #%d lladdr %s", g.IP, g.Link, g.MAC)
	}
	return b.String()
}
