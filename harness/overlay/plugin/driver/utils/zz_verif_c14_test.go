//go:build linux

package utils

import (
	"testing"

	"github.com/AliyunContainerService/terway/zz_verif/vt"
	"pgregory.net/rapid"
)

// C14 (c): the routing-table number of an interface is 1000 + its link index, hence
// unique per interface.

type vfC14TableScenario struct {
	Indexes []int `json:"indexes"`
}

func vfC14GenTable(t *rapid.T) vfC14TableScenario {
	// link indexes are positive 31-bit numbers; small ones, neighbours, values that
	// collide under 8/16-bit truncation and the top of the range are all drawn
	base := rapid.OneOf(
		rapid.IntRange(0, 64),
		rapid.IntRange(0, 70000),
		rapid.IntRange(0, 1<<31-1),
	).Draw(t, "base")
	idx := []int{base}
	n := rapid.IntRange(0, 7).Draw(t, "n")
	for i := 0; i < n; i++ {
		var v int
		switch rapid.IntRange(0, 4).Draw(t, "how") {
		case 0:
			v = base + rapid.IntRange(1, 4).Draw(t, "d")
		case 1:
			v = base + 256*rapid.IntRange(1, 300).Draw(t, "k8")
		case 2:
			v = base + 65536*rapid.IntRange(1, 300).Draw(t, "k16")
		case 3:
			v = base + 1000*rapid.IntRange(1, 3).Draw(t, "k1000")
		default:
			v = rapid.IntRange(0, 1<<31-1).Draw(t, "any")
		}
		if v > 1<<31-1 {
			v = 1<<31 - 1 - i
		}
		idx = append(idx, v)
	}
	return vfC14TableScenario{Indexes: idx}
}

func vfC14RunTable(c *vt.Ctx, s vfC14TableScenario) {
	seen := map[int]int{} // table -> link index
	distinct := map[int]bool{}
	for _, i := range s.Indexes {
		if i < 0 || i > 1<<31-1 {
			c.Inconclusive("scenario outside the generated domain")
		}
		distinct[i] = true
		got := GetRouteTableID(i)
		if got != 1000+i {
			c.Fatalf("GetRouteTableID(%d) = %d, want %d", i, got, 1000+i)
		}
		if again := GetRouteTableID(i); again != got {
			c.Fatalf("GetRouteTableID(%d) = %d, then %d", i, got, again)
		}
		if prev, ok := seen[got]; ok && prev != i {
			c.Fatalf("GetRouteTableID(%d) == GetRouteTableID(%d) == %d: two interfaces share a routing table", prev, i, got)
		}
		seen[got] = i
	}
	c.Labelf("distinct-indexes=%d", len(distinct))
	if len(distinct) >= 2 {
		c.NonTrivial()
	}
}

func TestVerifC14RouteTableID(t *testing.T) {
	vt.Run(t, vfC14GenTable, vfC14RunTable)
}
