package daemon

// C04 - stale, duplicate and concurrent CNI requests are harmless.
// Generated request histories (ADD/DEL/GET with current/older/never-used sandbox ids,
// pod recreation) with controlled overlap steps (request A parked at a drawn gate while
// request B is issued) and cancel steps (A's context cancelled at a drawn gate) against
// the real networkService; a per-pod model of the latest acknowledged ADD is the oracle.

import (
	"context"
	"runtime"
	"encoding/json"
	"fmt"
	"os"
	"sort"
	"sync"
	"sync/atomic"
	"testing"
	"time"

	"pgregory.net/rapid"

	"github.com/AliyunContainerService/terway/pkg/storage"
	"github.com/AliyunContainerService/terway/rpc"
	"github.com/AliyunContainerService/terway/zz_verif/cloudsim"
	"github.com/AliyunContainerService/terway/zz_verif/vt"
)

type c04Req struct {
	Kind string `json:"kind"` // add | del | get
	Pod  int    `json:"pod"`
	Cid  int    `json:"cid"` // 0 current, 1 older, 2 never used
}

type c04Op struct {
	Kind string  `json:"kind"` // req | overlap | cancel | recreate
	A    c04Req  `json:"a"`
	B    *c04Req `json:"b,omitempty"`
	Gate int     `json:"gate,omitempty"`
	// timedcancel: A's context is cancelled CancelUS microseconds after it was issued,
	// without parking (reaches the windows between two pool-internal steps)
	CancelUS int `json:"cancel_us,omitempty"`
	// FailPut (req, kind add): the record write of this ADD fails (database write error)
	FailPut bool `json:"fail_put,omitempty"`
	// FailDisk (with FailPut): the write fails inside the disk store (bolt database closed for
	// the duration of the request) instead of in front of it
	FailDisk bool `json:"fail_disk,omitempty"`
	// FailPatch (req, kind add): the pod-ips annotation patch of this ADD is refused by the
	// api server (the unchanged daemon ignores that error)
	FailPatch bool `json:"fail_patch,omitempty"`
}

type c04Scenario struct {
	Cfg vsPoolCfg `json:"cfg"`
	// ErdmaMask: pods (bit i = pod i) that ask for an ERDMA address (only with Cfg.Erdma > 0)
	ErdmaMask int `json:"erdma_mask,omitempty"`
	Ops []c04Op   `json:"ops"`
}

const c04Pods = 5

func c04GenReq(t *rapid.T, label string) c04Req {
	return c04Req{
		Kind: rapid.SampledFrom([]string{"add", "add", "add", "del", "del", "get"}).Draw(t, label+"kind"),
		Pod:  rapid.IntRange(0, c04Pods-1).Draw(t, label+"pod"),
		Cid:  rapid.SampledFrom([]int{0, 0, 0, 1, 2}).Draw(t, label+"cid"),
	}
}

func vsGenCfg(t *rapid.T) vsPoolCfg {
	c := vsPoolCfg{}
	c.V6 = rapid.IntRange(0, 2).Draw(t, "v6") == 0
	c.Cap = rapid.IntRange(1, 4).Draw(t, "cap")
	c.Batch = rapid.IntRange(1, 4).Draw(t, "batch")
	c.MaxIdle = rapid.IntRange(0, 4).Draw(t, "maxidle")
	c.MinIdle = rapid.IntRange(0, c.MaxIdle).Draw(t, "minidle")
	c.Slots = rapid.IntRange(0, 2).Draw(t, "slots")
	npre := rapid.IntRange(0, 2).Draw(t, "npre")
	if c.Slots == 0 && npre == 0 {
		npre = 1
	}
	for i := 0; i < npre; i++ {
		c.PreENIs = append(c.PreENIs, rapid.IntRange(1, c.Cap).Draw(t, "pre4"))
	}
	c.Policy = rapid.SampledFrom([]string{"", "most_ips"}).Draw(t, "policy")
	c.Trunk = npre > 0 && rapid.IntRange(0, 3).Draw(t, "trunk") == 0
	return c
}

func c04Gen(t *rapid.T) c04Scenario {
	s := c04Scenario{Cfg: vsGenCfg(t)}
	if s.Cfg.V6 && rapid.Bool().Draw(t, "v6only") {
		s.Cfg.NoV4 = true
	}
	if rapid.IntRange(0, 5).Draw(t, "enionly") == 0 {
		// exclusive-ENI node: one address per interface, no trunk, several interfaces
		s.Cfg.ENIOnly, s.Cfg.Cap, s.Cfg.Batch, s.Cfg.Trunk = true, 1, 1, false
		for i := range s.Cfg.PreENIs {
			s.Cfg.PreENIs[i] = 1
		}
		s.Cfg.Slots += rapid.IntRange(1, 3).Draw(t, "moreslots")
	}
	if !s.Cfg.Trunk && !s.Cfg.ENIOnly && rapid.IntRange(0, 3).Draw(t, "erdma") == 0 {
		// enable_erdma (the daemon switches it off on a trunk node)
		s.Cfg.Erdma = 1
		s.ErdmaMask = rapid.IntRange(1, 1<<c04Pods-1).Draw(t, "erdmapods")
	}
	n := rapid.IntRange(1, vt.Scale(15, 40)).Draw(t, "nops")
	for i := 0; i < n; i++ {
		o := c04Op{Kind: rapid.SampledFrom([]string{"req", "req", "req", "req", "overlap", "overlap", "cancel", "cancel", "timedcancel", "timedcancel", "recreate", "race"}).Draw(t, "opkind")}
		o.A = c04GenReq(t, "a")
		if o.Kind == "req" && o.A.Kind == "add" && rapid.IntRange(0, 7).Draw(t, "failput") == 0 {
			o.FailPut = true
			o.FailDisk = rapid.Bool().Draw(t, "faildisk")
		}
		if o.Kind == "req" && o.A.Kind == "add" && !o.FailPut && rapid.IntRange(0, 7).Draw(t, "failpatch") == 0 {
			o.FailPatch = true
		}
		switch o.Kind {
		case "overlap":
			b := c04GenReq(t, "b")
			if rapid.Bool().Draw(t, "samepod") {
				b.Pod = o.A.Pod
			}
			o.B = &b
			o.Gate = rapid.IntRange(1, 6).Draw(t, "gate")
		case "cancel":
			o.Gate = rapid.IntRange(1, 6).Draw(t, "gate")
		case "timedcancel":
			o.A.Kind = "add"
			o.CancelUS = rapid.IntRange(1, 1500).Draw(t, "cancelus")
		case "race":
			// two status queries for one pod released from a spin barrier, repeated Gate*10 times
			o.A.Kind = "get"
			o.Gate = rapid.IntRange(2, 6).Draw(t, "rounds")
		}
		s.Ops = append(s.Ops, o)
	}
	return s
}

// ------------------------------------------------------------------ gates

type c04Gate struct {
	mu      sync.Mutex
	active  bool
	target  int
	count   int
	parked  chan struct{}
	release chan struct{}
	where   string
}

func (g *c04Gate) arm(target int) {
	g.mu.Lock()
	defer g.mu.Unlock()
	g.active, g.target, g.count = true, target, 0
	g.parked = make(chan struct{})
	g.release = make(chan struct{})
	g.where = ""
}

func (g *c04Gate) disarm() {
	g.mu.Lock()
	g.active = false
	g.mu.Unlock()
}

func (g *c04Gate) point(name string) {
	g.mu.Lock()
	if !g.active {
		g.mu.Unlock()
		return
	}
	g.count++
	if g.count != g.target {
		g.mu.Unlock()
		return
	}
	g.active = false
	g.where = name
	parked, rel := g.parked, g.release
	g.mu.Unlock()
	close(parked)
	select {
	case <-rel:
	case <-time.After(30 * time.Second): // a harness bug must not wedge the shard
	}
}

// ------------------------------------------------------------------ model

type c04Alloc struct {
	cid       string
	v4, v6    string
	uncertain bool // a repeat of this acknowledged ADD failed: the statement pins neither outcome
}

type c04PodModel struct {
	uidSeq int
	cids   []string
	cur    *c04Alloc
	nextID int
	// tainted: a repeat of an acknowledged ADD failed; until the pod's DEL is acknowledged
	// the pool may asynchronously drop the pod's ownership mark (known finding
	// C04-cancelled-repeat-add-releases-held), so ownership is not compared for this pod.
	tainted bool
}

type c04World struct {
	c      *vt.Ctx
	w      *vsWorld
	gate   *c04Gate
	pods   [c04Pods]*c04PodModel
	labels map[string]bool
	noGuard bool
}

func c04PodName(i int) string { return fmt.Sprintf("p%d", i) }

func (x *c04World) cidFor(r c04Req) string {
	m := x.pods[r.Pod]
	switch r.Cid {
	case 0:
		if m.cur != nil {
			return m.cur.cid
		}
		if len(m.cids) > 0 {
			return m.cids[len(m.cids)-1]
		}
	case 1:
		if m.cur != nil {
			for i := len(m.cids) - 1; i >= 0; i-- {
				if m.cids[i] != m.cur.cid {
					return m.cids[i]
				}
			}
		} else if len(m.cids) > 1 {
			return m.cids[len(m.cids)-2]
		}
	}
	m.nextID++
	return fmt.Sprintf("cid-%d-%d", r.Pod, m.nextID)
}

type c04Result struct {
	confs []*rpc.NetConf
	err   error
	// what the store held for the pod at the instant the reply was returned (before the
	// harness waits for goroutines the request left behind): an acknowledged ADD/DEL must
	// already be reflected then
	recAtReply    bool
	recCidAtReply string
}

// drain waits until the goroutines a request left behind (the pool's per-request commit /
// allocWorker goroutines keep running after a cancelled request has returned) are gone.
// Without this barrier such a late goroutine can re-mark and release an address that has
// meanwhile been given to another pod (part of known finding
// C04-cancelled-repeat-add-releases-held); the harness excludes that schedule by
// construction so that every other ownership assertion stays exact.
func (x *c04World) drain(baseline int) {
	for i := 0; i < 4000; i++ {
		if runtime.NumGoroutine() <= baseline {
			return
		}
		time.Sleep(250 * time.Microsecond)
	}
}

func (x *c04World) issue(ctx context.Context, r c04Req, cid string) c04Result {
	base := runtime.NumGoroutine()
	defer x.drain(base)
	res := x.issue0(ctx, r, cid)
	if rec, ok := x.w.record(c04PodName(r.Pod)); ok {
		res.recAtReply = true
		if rec.ContainerID != nil {
			res.recCidAtReply = *rec.ContainerID
		}
	}
	return res
}

func (x *c04World) issue0(ctx context.Context, r c04Req, cid string) c04Result {
	pod := c04PodName(r.Pod)
	switch r.Kind {
	case "add":
		rep, err := x.w.svc.AllocIP(ctx, vsAddReq(pod, cid))
		if err != nil {
			return c04Result{err: err}
		}
		return c04Result{confs: rep.NetConfs}
	case "del":
		_, err := x.w.svc.ReleaseIP(ctx, vsDelReq(pod, cid))
		return c04Result{err: err}
	default:
		rep, err := x.w.svc.GetIPInfo(ctx, vsGetReq(pod, cid))
		if err != nil {
			return c04Result{err: err}
		}
		return c04Result{confs: rep.NetConfs}
	}
}

// podView: everything the daemon holds for one pod (store record + pool ownership).
// While the pod's model is 'uncertain' (a repeat of its acknowledged ADD failed or was
// cancelled) the pool may drop the ownership mark asynchronously at any later moment
// (known finding C04-cancelled-repeat-add-releases-held), so ownership is not part of
// the view then.
func (x *c04World) podView(pod int) string {
	name := c04PodName(pod)
	rec, ok := x.w.record(name)
	var owned []string
	if m := x.pods[pod]; m.tainted {
		owned = []string{"?"}
	} else {
		owned = x.ownedBy(pod)
	}
	b, _ := json.Marshal(struct {
		Has   bool
		Rec   interface{}
		Owned []string
	}{ok, rec, owned})
	return string(b)
}

func (x *c04World) ownedBy(pod int) []string {
	var owned []string
	for a, p := range x.w.owners() {
		if p == vsKey("ns", c04PodName(pod)) {
			owned = append(owned, a)
		}
	}
	sort.Strings(owned)
	return owned
}

// judge applies the oracle for one completed request. viewBefore is the pod's view taken
// before the request started.
func (x *c04World) judge(r c04Req, cid string, res c04Result, viewBefore string, cancelled bool) {
	c := x.c
	m := x.pods[r.Pod]
	name := c04PodName(r.Pod)
	stale := m.cur != nil && cid != m.cur.cid
	c.Trace("%s %s cid=%s -> err=%v addrs=%v stale=%v cancelled=%v", r.Kind, name, cid, res.err, fmtAddrs(res.confs), stale, cancelled)
	switch r.Kind {
	case "add":
		seen := false
		for _, k := range m.cids {
			if k == cid {
				seen = true
			}
		}
		if !seen {
			m.cids = append(m.cids, cid)
		}
		if res.err == nil {
			v4, v6 := vsReplyAddrs(res.confs)
			if v4 == "" && !x.w.cfg.NoV4 {
				c.Fatalf("ADD for %s succeeded without an IPv4 address", name)
			}
			if v6 == "" && x.w.cfg.V6 {
				c.Fatalf("ADD for %s succeeded without an IPv6 address", name)
			}
			key := v4
			if key == "" {
				key = v6
			}
			if m.cur != nil {
				x.labels["repeat-add"] = true
				if m.cur.v4 != v4 || m.cur.v6 != v6 {
					if (m.cur.uncertain || m.tainted) && !x.noGuard && vt.Known("C04-cancelled-repeat-add-releases-held") {
						c.Label("known:C04-cancelled-repeat-add-releases-held")
					} else {
						c.Fatalf("repeated ADD for %s returned %s/%s but its completed ADD returned %s/%s (uncertain=%v)", name, v4, v6, m.cur.v4, m.cur.v6, m.cur.uncertain)
					}
				}
			}
			m.cur = &c04Alloc{cid: cid, v4: v4, v6: v6}
			if !res.recAtReply || res.recCidAtReply != cid {
				c.Fatalf("ADD for %s (sandbox %s) was acknowledged before its record was in the store (at the reply: record present=%v, sandbox %q)", name, cid, res.recAtReply, res.recCidAtReply)
			}
			rec, ok := x.w.record(name)
			if !ok || rec.ContainerID == nil || *rec.ContainerID != cid {
				c.Fatalf("acknowledged ADD for %s (sandbox %s) is not recorded in the store", name, cid)
			}
			owners := x.w.owners()
			if owners[key] != vsKey("ns", name) && !m.tainted {
				c.Fatalf("acknowledged ADD for %s returned %s but the pool shows owner %q", name, key, owners[key])
			}
			return
		}
		// failed ADD
		if vsIsProcessing(res.err) {
			c.Fatalf("ADD for %s rejected as 'processing' although no request for that pod was in flight", name)
		}
		if m.cur != nil {
			x.labels["failed-repeat-add"] = true
			if !cancelled && cid == m.cur.cid && !m.cur.uncertain && !m.tainted {
				// nothing was in flight, nothing was cancelled and nothing was made to fail
				c.Fatalf("repeating the completed ADD of %s (sandbox %s, holds %s/%s) failed: %v", name, cid, m.cur.v4, m.cur.v6, res.err)
			}
			if !x.noGuard && vt.Known("C04-cancelled-repeat-add-releases-held") {
				m.cur.uncertain = true
				m.tainted = true
				return
			}
			// a failed repeat of an acknowledged ADD takes nothing away: the record and the
			// pool ownership are as before (the request "has no effect")
			for i := 0; i < 2000; i++ {
				if x.podView(r.Pod) == viewBefore {
					break
				}
				time.Sleep(500 * time.Microsecond)
			}
			if v := x.podView(r.Pod); v != viewBefore {
				c.Fatalf("failed repeat of the acknowledged ADD for %s (%v) changed the pod's allocation:\nbefore %s\nafter  %s", name, res.err, viewBefore, v)
			}
			return
		}
		// no acknowledged allocation: everything the request took must be handed back
		x.labels["failed-add"] = true
		if !x.w.waitQuiescent(2 * time.Second) {
			c.Inconclusive("pool not quiescent after failed ADD")
		}
		var o []string
		for i := 0; i < 2000; i++ { // the pool's commit goroutine hands the address back asynchronously
			if o = x.ownedBy(r.Pod); len(o) == 0 {
				break
			}
			time.Sleep(500 * time.Microsecond)
		}
		if len(o) > 0 {
			c.Fatalf("ADD for %s failed (%v) but the pool still marks %v as owned by it", name, res.err, o)
		}
		if _, ok := x.w.record(name); ok {
			c.Fatalf("ADD for %s failed (%v) but a record was stored", name, res.err)
		}
	case "del":
		if vsIsProcessing(res.err) {
			c.Fatalf("DEL for %s rejected as 'processing' although no request for that pod was in flight", name)
		}
		if stale {
			x.labels["stale-del"] = true
			if v := x.podView(r.Pod); v != viewBefore {
				c.Fatalf("DEL for %s with sandbox id %s (current is %s) changed the pod's allocation:\nbefore %s\nafter  %s", name, cid, m.cur.cid, viewBefore, v)
			}
			return
		}
		if m.cur == nil {
			x.labels["repeat-del"] = true
			if v := x.podView(r.Pod); v != viewBefore {
				c.Fatalf("repeated DEL for %s was not a no-op:\nbefore %s\nafter  %s", name, viewBefore, v)
			}
			return
		}
		if res.err != nil {
			// a failed (e.g. cancelled) DEL may or may not have released; the runtime retries
			if _, ok := x.w.record(name); !ok {
				m.cur = nil
			}
			return
		}
		if res.recAtReply {
			c.Fatalf("DEL for %s (sandbox %s) was acknowledged while its record was still in the store", name, cid)
		}
		if _, ok := x.w.record(name); ok {
			c.Fatalf("acknowledged DEL for %s (sandbox %s) left its record in the store", name, cid)
		}
		if o := x.ownedBy(r.Pod); len(o) > 0 {
			c.Fatalf("acknowledged DEL for %s left %v owned by it in the pool", name, o)
		}
		m.cur = nil
		m.tainted = false
	case "get":
		if vsIsProcessing(res.err) {
			c.Fatalf("GET for %s rejected as 'processing' although no request for that pod was in flight", name)
		}
		if v := x.podView(r.Pod); v != viewBefore {
			c.Fatalf("GET for %s changed the pod's allocation:\nbefore %s\nafter  %s", name, viewBefore, v)
		}
		if res.err != nil {
			return
		}
		v4, v6 := vsReplyAddrs(res.confs)
		if stale {
			x.labels["stale-get"] = true
			if len(res.confs) > 0 {
				c.Fatalf("GET for %s with sandbox id %s (current is %s) returned the current allocation %s/%s", name, cid, m.cur.cid, v4, v6)
			}
			return
		}
		if m.cur != nil && !m.cur.uncertain && (v4 != m.cur.v4 || v6 != m.cur.v6) {
			c.Fatalf("GET for %s returned %s/%s, the acknowledged ADD returned %s/%s", name, v4, v6, m.cur.v4, m.cur.v6)
		}
		if m.cur == nil && len(res.confs) > 0 {
			c.Fatalf("GET for %s returned %s/%s although the pod holds nothing", name, v4, v6)
		}
	}
}

func fmtAddrs(confs []*rpc.NetConf) string {
	v4, v6 := vsReplyAddrs(confs)
	return v4 + "/" + v6
}

const c04ReqTimeout = 400 * time.Millisecond

// stepRace: "while one request for a pod is in flight, any concurrent request for the same
// pod is rejected". Two status queries (no side effects) for one pod start at the same
// instant from a spin barrier; every request that gets into the service is held at its pod
// lookup until both have either arrived there or returned. At no time may two of them be
// inside. Repeated, because only an exact interleaving shows a non-atomic in-flight mark.
func (x *c04World) stepRace(o c04Op, k *vsK8s) {
	c := x.c
	name := c04PodName(o.A.Pod)
	key := vsKey("ns", name)
	cid := x.cidFor(o.A)
	oldGate := k.gate
	defer func() { k.gate = oldGate }()
	x.labels["race"] = true
	for round := 0; round < o.Gate*10; round++ {
		var inside, maxInside atomic.Int32
		release := make(chan struct{})
		k.gate = func(gk string) {
			if gk != key {
				return
			}
			n := inside.Add(1)
			for {
				m := maxInside.Load()
				if n <= m || maxInside.CompareAndSwap(m, n) {
					break
				}
			}
			<-release
			inside.Add(-1)
		}
		var start atomic.Bool
		var wg sync.WaitGroup
		errs := make([]error, 2)
		for g := 0; g < 2; g++ {
			wg.Add(1)
			go func(g int) {
				defer wg.Done()
				for !start.Load() {
				}
				ctx, cancel := context.WithTimeout(context.Background(), c04ReqTimeout)
				_, errs[g] = x.w.svc.GetIPInfo(ctx, vsGetReq(name, cid))
				cancel()
			}(g)
		}
		time.Sleep(20 * time.Microsecond)
		start.Store(true)
		time.Sleep(150 * time.Microsecond)
		close(release)
		wg.Wait()
		if maxInside.Load() > 1 {
			c.Fatalf("round %d: two concurrent status queries for %s were both admitted into the service at the same time (errors: %v / %v); one of them must be rejected as 'processing'", round, name, errs[0], errs[1])
		}
	}
}

func c04Run(c *vt.Ctx, s c04Scenario) { c04RunOpt(c, s, false) }

func c04RunOpt(c *vt.Ctx, s c04Scenario, noGuard bool) {
	cloud := cloudsim.New()
	vsAddPreENIs(cloud, s.Cfg)
	k := vsNewK8s()
	dir := vsScratchDir()
	w, err := vsStart(s.Cfg, cloud, k, dir, dir+"/pod.db")
	if err != nil {
		_ = os.RemoveAll(dir)
		c.Fatalf("service start failed: %v", err)
	}
	defer w.cleanup()
	x := &c04World{c: c, w: w, gate: &c04Gate{}, labels: map[string]bool{}, noGuard: noGuard}
	for i := range x.pods {
		x.pods[i] = &c04PodModel{}
		k.setPodOpt(c04PodName(i), fmt.Sprintf("uid-%d-0", i), false, s.Cfg.Erdma > 0 && s.ErdmaMask&(1<<i) != 0)
	}
	if s.Cfg.Erdma > 0 {
		x.labels["erdma-pods"] = true
	}
	k.gate = func(key string) { x.gate.point("k8s:" + key) }
	cloud.Gate = func(call *cloudsim.Call) {
		if call.Kind != cloudsim.KLoad {
			x.gate.point("cloud:" + call.Kind)
		}
	}
	w.store.hook = func(op, key, phase string) {
		if phase == "before" {
			x.gate.point("store:" + op)
		}
	}
	if !w.waitQuiescent(2 * time.Second) {
		c.Inconclusive("pool not quiescent after start")
	}

	for i, o := range s.Ops {
		c.Trace("--- op %d %s", i, o.Kind)
		switch o.Kind {
		case "recreate":
			m := x.pods[o.A.Pod]
			m.uidSeq++
			k.setPodOpt(c04PodName(o.A.Pod), fmt.Sprintf("uid-%d-%d", o.A.Pod, m.uidSeq), false, s.Cfg.Erdma > 0 && s.ErdmaMask&(1<<o.A.Pod) != 0)
			x.labels["recreate"] = true
		case "req":
			cid := x.cidFor(o.A)
			before := x.podView(o.A.Pod)
			var repair func() error
			if o.FailPut {
				// "an ADD that fails hands back every address it took": here it fails at its very
				// last step, the record write (outside the statement's quantifier, which is about
				// request interleavings and cancellation; explored as extra coverage)
				if o.FailDisk {
					repair = storage.VerifBreak(x.w.db)
					x.labels["record-write-fails-at-the-disk"] = true
				} else {
					x.w.store.failPut = vsKey("ns", c04PodName(o.A.Pod))
					x.labels["record-write-fails"] = true
				}
			}
			if o.FailPatch {
				k.failPatch.Store(1)
				x.labels["pod-ips-patch-fails"] = true
			}
			ctx, cancel := context.WithTimeout(context.Background(), c04ReqTimeout)
			res := x.issue(ctx, o.A, cid)
			cancel()
			x.w.store.failPut = ""
			k.failPatch.Store(0)
			if repair != nil {
				if err := repair(); err != nil {
					c.Inconclusive("could not re-open the database: " + err.Error())
				}
			}
			x.judge(o.A, cid, res, before, res.err != nil && (o.FailPut || o.FailPatch))
		case "overlap", "cancel":
			x.stepParked(o)
		case "race":
			x.stepRace(o, k)
		case "timedcancel":
			cid := x.cidFor(o.A)
			before := x.podView(o.A.Pod)
			ctx, cancel := context.WithTimeout(context.Background(), c04ReqTimeout)
			tm := time.AfterFunc(time.Duration(o.CancelUS)*time.Microsecond, cancel)
			res := x.issue(ctx, o.A, cid)
			tm.Stop()
			cancel()
			x.labels["timed-cancel"] = true
			x.judge(o.A, cid, res, before, res.err != nil)
		}
	}
	for l := range x.labels {
		c.Label(l)
	}
	if x.labels["overlap-parked"] || x.labels["cancel-parked"] || x.labels["timed-cancel"] || x.labels["stale-del"] || x.labels["stale-get"] {
		c.NonTrivial()
	}
}

func (x *c04World) stepParked(o c04Op) {
	c := x.c
	cidA := x.cidFor(o.A)
	beforeA := x.podView(o.A.Pod)
	x.gate.arm(o.Gate)
	ctxA, cancelA := context.WithTimeout(context.Background(), 3*time.Second)
	defer cancelA()
	doneA := make(chan c04Result, 1)
	go func() { doneA <- x.issue(ctxA, o.A, cidA) }()

	var resA c04Result
	parked := false
	select {
	case <-x.gate.parked:
		parked = true
	case resA = <-doneA:
	case <-time.After(3 * time.Second):
		x.gate.disarm()
		c.Inconclusive("request neither parked nor finished")
	}
	x.gate.disarm()
	if !parked {
		// A finished before reaching the drawn gate: an ordinary sequential request
		x.judge(o.A, cidA, resA, beforeA, false)
		return
	}
	c.Trace("A parked at %s", x.gate.where)

	if o.Kind == "cancel" {
		x.labels["cancel-parked"] = true
		cancelA()
		close(x.gate.release)
		select {
		case resA = <-doneA:
		case <-time.After(3 * time.Second):
			c.Inconclusive("cancelled request did not return")
		}
		x.judge(o.A, cidA, resA, beforeA, true)
		return
	}

	x.labels["overlap-parked"] = true
	b := *o.B
	cidB := x.cidFor(b)
	same := b.Pod == o.A.Pod
	beforeB := x.podView(b.Pod)
	midStore := x.w.storeDump()
	ctxB, cancelB := context.WithTimeout(context.Background(), 10*time.Second)
	defer cancelB()
	doneB := make(chan c04Result, 1)
	go func() { doneB <- x.issue(ctxB, b, cidB) }()
	var resB c04Result
	gotB := false
	// a request for ANOTHER pod may legitimately have to wait for A (it may need the pool
	// worker A is parked in); a request for the SAME pod is rejected at once - give it a
	// generous real-time bound so that a loaded machine cannot turn slowness into an alarm
	waitB := 150 * time.Millisecond
	if same {
		waitB = 8 * time.Second
	}
	select {
	case resB = <-doneB:
		gotB = true
	case <-time.After(waitB):
	}
	if same {
		x.labels["overlap-same-pod"] = true
		if !gotB {
			close(x.gate.release)
			c.Fatalf("concurrent %s for %s did not return promptly while a request for the pod was in flight", b.Kind, c04PodName(b.Pod))
		}
		if !vsIsProcessing(resB.err) {
			close(x.gate.release)
			c.Fatalf("concurrent %s for %s while its %s was in flight (parked at %s) was not rejected as 'processing': err=%v addrs=%s", b.Kind, c04PodName(b.Pod), o.A.Kind, x.gate.where, resB.err, fmtAddrs(resB.confs))
		}
		// "has no effect": the store is untouched and nothing the daemon holds for the pod moved
		// (the whole pool status is not compared: workers of earlier cancelled requests may still
		// be assigning or handing back addresses in the background)
		if st := x.w.storeDump(); st != midStore {
			close(x.gate.release)
			c.Fatalf("rejected concurrent %s for %s changed the store:\nbefore %s\nafter  %s", b.Kind, c04PodName(b.Pod), midStore, st)
		}
		if v := x.podView(b.Pod); v != beforeB {
			close(x.gate.release)
			c.Fatalf("rejected concurrent %s for %s had an effect on the pod's allocation:\nbefore %s\nafter  %s", b.Kind, c04PodName(b.Pod), beforeB, v)
		}
		// the rejected request must not have cleared the way for a third one: while A is still
		// in flight every further request for the pod is rejected as well
		for _, k3 := range []string{"get", b.Kind} {
			r3 := c04Req{Kind: k3, Pod: b.Pod}
			ctx3, cancel3 := context.WithTimeout(context.Background(), 10*time.Second)
			done3 := make(chan c04Result, 1)
			go func() { done3 <- x.issue0(ctx3, r3, cidB) }()
			var res3 c04Result
			select {
			case res3 = <-done3:
			case <-time.After(8 * time.Second):
				cancel3()
				close(x.gate.release)
				c.Fatalf("third concurrent %s for %s did not return promptly while a request for the pod was in flight", k3, c04PodName(b.Pod))
			}
			cancel3()
			if !vsIsProcessing(res3.err) {
				close(x.gate.release)
				c.Fatalf("after a rejected %s, a further %s for %s was admitted although the pod's %s is still in flight (parked at %s): err=%v addrs=%s", b.Kind, k3, c04PodName(b.Pod), o.A.Kind, x.gate.where, res3.err, fmtAddrs(res3.confs))
			}
		}
		if st := x.w.storeDump(); st != midStore {
			close(x.gate.release)
			c.Fatalf("rejected concurrent requests for %s changed the store:\nbefore %s\nafter  %s", c04PodName(b.Pod), midStore, st)
		}
		close(x.gate.release)
		resA = <-doneA
		x.judge(o.A, cidA, resA, beforeA, false)
		return
	}
	x.labels["overlap-other-pod"] = true
	close(x.gate.release)
	select {
	case resA = <-doneA:
	case <-time.After(3 * time.Second):
		c.Inconclusive("parked request did not return after release")
	}
	if !gotB {
		select {
		case resB = <-doneB:
		case <-time.After(3 * time.Second):
			c.Inconclusive("overlapping request did not return")
		}
	}
	if vsIsProcessing(resB.err) {
		c.Fatalf("%s for %s was rejected as 'processing' while only a request for another pod (%s) was in flight", b.Kind, c04PodName(b.Pod), c04PodName(o.A.Pod))
	}
	x.judge(o.A, cidA, resA, beforeA, false)
	x.judge(b, cidB, resB, beforeB, false)
}

func TestVerifC04Requests(t *testing.T) { vt.Run(t, c04Gen, c04Run) }

// Witness of known finding C04-cancelled-repeat-add-releases-held: a repeat of an
// acknowledged ADD that is cancelled makes Local.commit release the address the pod
// already holds (the store keeps the record); the next repeat may then return a different
// address although the completed ADD returned another one.
func TestVerifC04KnownCancelledRepeat(t *testing.T) {
	s := c04Scenario{Cfg: vsPoolCfg{Cap: 4, Batch: 2, MaxIdle: 4, PreENIs: []int{4}}}
	s.Ops = append(s.Ops, c04Op{Kind: "req", A: c04Req{Kind: "add", Pod: 0}})
	for i := 0; i < 12; i++ {
		s.Ops = append(s.Ops, c04Op{Kind: "cancel", A: c04Req{Kind: "add", Pod: 0}, Gate: 1})
		s.Ops = append(s.Ops, c04Op{Kind: "req", A: c04Req{Kind: "add", Pod: 0}})
	}
	vt.Witness(t, "C04", "C04-cancelled-repeat-add-releases-held",
		"ADD acknowledged with address X; a repeat of that ADD cancelled before the pool call makes the pool release X while the store keeps the record; a further repeat returns a different address",
		s, func(c *vt.Ctx, s c04Scenario) { c04RunOpt(c, s, true) })
}
