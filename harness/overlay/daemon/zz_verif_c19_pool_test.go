package daemon

import (
	"context"
	"encoding/json"
	"errors"
	"fmt"
	"net/netip"
	"testing"

	"github.com/aliyun/alibaba-cloud-sdk-go/services/ecs"
	corev1 "k8s.io/api/core/v1"
	metav1 "k8s.io/apimachinery/pkg/apis/meta/v1"
	"pgregory.net/rapid"

	"github.com/AliyunContainerService/terway/pkg/aliyun/instance"
	"github.com/AliyunContainerService/terway/pkg/k8s"
	"github.com/AliyunContainerService/terway/pkg/utils/nodecap"
	terwayTypes "github.com/AliyunContainerService/terway/types"
	"github.com/AliyunContainerService/terway/types/daemon"
	"github.com/AliyunContainerService/terway/zz_verif/vt"
)

// C19 (daemon part): pool sizing and feature gating of the legacy (non-CRD) node daemon,
// driven through the real NetworkServiceBuilder steps in the order newLegacyService
// runs them:
//
//	NewNetworkServiceBuilder.WithDaemonMode(ENIMultiIP).InitService()
//	configuration decoded from eni_conf JSON, Populate + Validate   (LoadDynamicConfig)
//	the two node-label statements of InitK8S, replayed on a stub k8s.Kubernetes whose
//	  Node() carries the drawn labels (exclusive-ENI mode) and the instance-type
//	  annotation (k8s.NewK8S itself needs an API server)
//	b.initInstanceLimit()   (real ECS limit provider, annotation path; real checkInstance)
//	getPoolConfig(b.config, b.daemonMode, b.limit)                  (setupENIManager)
//	initTrunk(b.config, poolConfig, k8s, factory) when trunking is still enabled
//	  (setupENIManager), over an in-memory factory that holds a drawn population of
//	  attached interfaces (secondary / ERDMA / trunk; node full or with free slots)
//
// so that the mode each step sees is the one the daemon hands it, not one the harness
// chose.
//
// Oracle, from the raw instance-type vector (slots = EniQuantity-1):
//
//	default ratio/shift:  0 <= MaxENI <= slots;  0 <= Capacity <= MaxENI*v4;
//	                      0 <= MinPoolSize <= MaxPoolSize <= Capacity;
//	                      MaxIPPerENI <= v4;  MaxMemberENI <= member limit;
//	                      ERdmaCapacity <= min(eri, slots)*v4
//	ratio <= 1, shift <= 0: every one of these outputs <= its default-ratio value
//	features:  IPv6 off when v6 = 0, and whenever the pool that is actually computed
//	           puts more addresses on an interface than the type has IPv6 addresses
//	           (MaxIPPerENI > v6: every pod needs one of each family);
//	           trunking off when the member limit is 0;  ERDMA off (and capacity 0)
//	           when the type has no ERI
//	trunk:     interfaces attached before + created by initTrunk <= slots; when every
//	           slot is taken and none of them is a trunk, trunking (member capacity) ends
//	           up disabled
type c19PoolScenario struct {
	// instance type (values an instance-type description can carry: >= 1 interface,
	// >= 1 IPv4 address per interface)
	EniQuantity      int  `json:"eni_quantity"`
	EniTotalQuantity int  `json:"eni_total_quantity"`
	V4               int  `json:"v4_per_eni"`
	V6               int  `json:"v6_per_eni"`
	Eri              int  `json:"eri_quantity"`
	Trunk            bool `json:"trunk_supported"`

	// eni_conf
	MaxENI      int    `json:"max_eni"`
	MinENI      int    `json:"min_eni"`
	MaxPoolSize int    `json:"max_pool_size"`
	MinPoolSize int    `json:"min_pool_size"`
	RatioPct    int    `json:"eni_cap_ratio_pct"` // 0 = key absent (Populate -> 1); else ratio = pct/100
	Shift       int    `json:"eni_cap_shift"`     // <= 0
	IPStack     string `json:"ip_stack"`          // "" = key absent
	Trunking    bool   `json:"enable_eni_trunking"`
	ERDMA       bool   `json:"enable_erdma"`
	IPAMCRD     bool   `json:"ipam_crd"`

	OSERDMA   bool   `json:"os_erdma"`        // node capability "erdma" present
	Exclusive string `json:"exclusive_label"` // exclusive-ENI label on the k8s node ("" = absent)

	// interfaces already attached when the daemon starts (never more than the type can
	// attach): 0 secondary, 1 ERDMA, 2 trunk
	Attached   []int `json:"attached"`
	PreferENI  int   `json:"prefer_eni"`  // trunk-on annotation names eni-<n> (-1 = no annotation; may dangle)
	CreateFail int   `json:"create_fail"` // CreateNetworkInterface: 0 ok, 1 fails without effect, 2 fails after the interface exists
}

func c19GenPool(t *rapid.T) c19PoolScenario {
	s := c19PoolScenario{}
	s.EniQuantity = rapid.OneOf(rapid.IntRange(1, 4), rapid.IntRange(1, vt.Scale(32, 64)), rapid.IntRange(7, 9)).Draw(t, "eniQuantity")
	if rapid.IntRange(0, 3).Draw(t, "hasMembers") == 0 {
		s.EniTotalQuantity = s.EniQuantity
	} else {
		s.EniTotalQuantity = s.EniQuantity + rapid.IntRange(1, 120).Draw(t, "members")
	}
	s.V4 = rapid.IntRange(1, 50).Draw(t, "v4")
	switch rapid.IntRange(0, 9).Draw(t, "v6Class") {
	case 0, 1, 2:
		s.V6 = 0
	case 3, 4, 5, 6:
		s.V6 = s.V4
	default:
		s.V6 = rapid.IntRange(1, 50).Draw(t, "v6")
	}
	s.Eri = rapid.IntRange(0, 4).Draw(t, "eri")
	s.Trunk = rapid.IntRange(0, 3).Draw(t, "trunk") > 0

	slots := s.EniQuantity - 1
	capa := slots * s.V4
	// configured bounds around the instance limits: 0 (unset), below, at, above
	around := func(label string, limit int) int {
		switch rapid.IntRange(0, 4).Draw(t, label+"Class") {
		case 0:
			return 0
		case 1:
			return rapid.IntRange(0, limit).Draw(t, label)
		case 2:
			return limit
		case 3:
			return limit + rapid.IntRange(1, 3).Draw(t, label+"Over")
		default:
			return rapid.IntRange(0, 2*limit+10).Draw(t, label)
		}
	}
	s.MaxENI = around("maxENI", slots)
	s.MinENI = around("minENI", slots)
	s.MaxPoolSize = around("maxPool", capa)
	s.MinPoolSize = around("minPool", capa)
	switch rapid.IntRange(0, 5).Draw(t, "ratioClass") {
	case 0:
		s.RatioPct = 0
	case 1, 2:
		s.RatioPct = 100
	default:
		s.RatioPct = rapid.IntRange(1, 100).Draw(t, "ratioPct")
	}
	if rapid.IntRange(0, 2).Draw(t, "shiftClass") == 2 {
		s.Shift = -rapid.IntRange(1, 4).Draw(t, "shift")
	}
	s.IPStack = rapid.SampledFrom([]string{"", "ipv4", "dual", "dual", "dual", "ipv6"}).Draw(t, "stack")
	s.Trunking = rapid.Bool().Draw(t, "trunking")
	s.ERDMA = rapid.Bool().Draw(t, "erdma")
	s.IPAMCRD = rapid.IntRange(0, 4).Draw(t, "crd") == 4
	s.OSERDMA = rapid.IntRange(0, 3).Draw(t, "osERDMA") > 0
	s.Exclusive = rapid.SampledFrom([]string{"", "", "default", "eniOnly", "eniOnly", "ENIONLY"}).Draw(t, "exclusive")

	// attached population: empty, full, one slot free, or anything in between
	n := 0
	switch rapid.IntRange(0, 3).Draw(t, "attachedClass") {
	case 1:
		n = slots
	case 2:
		n = slots - 1
	case 3:
		n = rapid.IntRange(0, slots).Draw(t, "attachedN")
	}
	if n < 0 {
		n = 0
	}
	for i := 0; i < n; i++ {
		s.Attached = append(s.Attached, rapid.SampledFrom([]int{0, 0, 1}).Draw(t, "eniKind"))
	}
	if n > 0 && rapid.SampledFrom([]bool{false, false, false, true}).Draw(t, "hasTrunk") {
		s.Attached[rapid.IntRange(0, n-1).Draw(t, "trunkAt")] = 2
	}
	s.PreferENI = rapid.SampledFrom([]int{-1, -1, 0, 1, 40}).Draw(t, "preferENI")
	s.CreateFail = rapid.SampledFrom([]int{0, 0, 0, 0, 1, 2}).Draw(t, "createFail")
	return s
}

const c19TypeID = "ecs.c19.large"

// node is the k8s node the daemon runs on: exclusive-ENI label as drawn, instance-type
// description in the annotation initInstanceLimit reads.
func (s c19PoolScenario) node(c *vt.Ctx) *corev1.Node {
	it := ecs.InstanceType{
		InstanceTypeId:              c19TypeID,
		EniQuantity:                 s.EniQuantity,
		EniTotalQuantity:            s.EniTotalQuantity,
		EniPrivateIpAddressQuantity: s.V4,
		EniIpv6AddressQuantity:      s.V6,
		EriQuantity:                 s.Eri,
		EniTrunkSupported:           s.Trunk,
	}
	raw, err := json.Marshal(it)
	if err != nil {
		c.Fatalf("marshal instance type: %v", err)
	}
	n := &corev1.Node{ObjectMeta: metav1.ObjectMeta{
		Name:        "node-c19",
		Labels:      map[string]string{},
		Annotations: map[string]string{"alibabacloud.com/instance-type-info": string(raw)},
	}}
	if s.Exclusive != "" {
		n.Labels[terwayTypes.ExclusiveENIModeLabel] = s.Exclusive
	}
	if s.PreferENI >= 0 {
		n.Annotations[terwayTypes.TrunkOn] = fmt.Sprintf("eni-%d", s.PreferENI)
	}
	return n
}

// c19K8s answers Node() and GetTrunkID() only; any other call of the k8s.Kubernetes interface would be a
// harness bug (nil embedded interface -> panic -> reported).
type c19K8s struct {
	k8s.Kubernetes
	node *corev1.Node
}

func (k *c19K8s) Node() *corev1.Node { return k.node }

func (k *c19K8s) GetTrunkID() string { return k.node.Annotations[terwayTypes.TrunkOn] }

// c19Factory is an in-memory factory.Factory: it only remembers which interfaces are
// attached. Address calls would be a harness bug here and fail loudly.
type c19Factory struct {
	attached   []*daemon.ENI
	created    []string
	deleted    []string
	createFail int
}

func (f *c19Factory) CreateNetworkInterface(_, _ int, eniType string) (*daemon.ENI, []netip.Addr, []netip.Addr, error) {
	if f.createFail == 1 {
		return nil, nil, nil, errors.New("c19: create refused")
	}
	ni := &daemon.ENI{ID: fmt.Sprintf("eni-new-%d", len(f.created)), Trunk: eniType == "trunk", ERdma: eniType == "erdma"}
	f.attached = append(f.attached, ni)
	f.created = append(f.created, eniType)
	if f.createFail == 2 {
		return ni, nil, nil, errors.New("c19: create failed after the interface was attached")
	}
	return ni, nil, nil, nil
}

func (f *c19Factory) DeleteNetworkInterface(id string) error {
	for i, ni := range f.attached {
		if ni.ID == id {
			f.attached = append(f.attached[:i:i], f.attached[i+1:]...)
			f.deleted = append(f.deleted, id)
			return nil
		}
	}
	return fmt.Errorf("c19: no interface %s", id)
}

func (f *c19Factory) GetAttachedNetworkInterface(string) ([]*daemon.ENI, error) {
	return append([]*daemon.ENI(nil), f.attached...), nil
}

func (f *c19Factory) AssignNIPv4(string, int, string) ([]netip.Addr, error) {
	panic("c19: unexpected AssignNIPv4")
}
func (f *c19Factory) AssignNIPv6(string, int, string) ([]netip.Addr, error) {
	panic("c19: unexpected AssignNIPv6")
}
func (f *c19Factory) UnAssignNIPv4(string, []netip.Addr, string) error {
	panic("c19: unexpected UnAssignNIPv4")
}
func (f *c19Factory) UnAssignNIPv6(string, []netip.Addr, string) error {
	panic("c19: unexpected UnAssignNIPv6")
}
func (f *c19Factory) LoadNetworkInterface(string) ([]netip.Addr, []netip.Addr, error) {
	panic("c19: unexpected LoadNetworkInterface")
}

// c19Meta is the instance metadata service.
type c19Meta struct{}

func (c19Meta) GetRegionID() (string, error)     { return "cn-hangzhou", nil }
func (c19Meta) GetZoneID() (string, error)       { return "cn-hangzhou-k", nil }
func (c19Meta) GetVSwitchID() (string, error)    { return "vsw-c19", nil }
func (c19Meta) GetPrimaryMAC() (string, error)   { return "00:16:3e:00:00:19", nil }
func (c19Meta) GetInstanceID() (string, error)   { return "i-c19", nil }
func (c19Meta) GetInstanceType() (string, error) { return c19TypeID, nil }

// config decodes the eni_conf the scenario describes exactly as the daemon does.
// defaultRatio forces eni_cap_ratio / eni_cap_shift to their defaults (keys absent).
func (s c19PoolScenario) config(c *vt.Ctx, defaultRatio bool) *daemon.Config {
	m := map[string]any{
		"version":             "1",
		"max_pool_size":       s.MaxPoolSize,
		"min_pool_size":       s.MinPoolSize,
		"enable_eni_trunking": s.Trunking,
		"enable_erdma":        s.ERDMA,
	}
	if s.MaxENI != 0 {
		m["max_eni"] = s.MaxENI
	}
	if s.MinENI != 0 {
		m["min_eni"] = s.MinENI
	}
	if !defaultRatio {
		if s.RatioPct != 0 {
			m["eni_cap_ratio"] = float64(s.RatioPct) / 100
		}
		if s.Shift != 0 {
			m["eni_cap_shift"] = s.Shift
		}
	}
	if s.IPStack != "" {
		m["ip_stack"] = s.IPStack
	}
	if s.IPAMCRD {
		m["ipam_type"] = "crd"
	}
	raw, err := json.Marshal(m)
	if err != nil {
		c.Fatalf("marshal eni_conf: %v", err)
	}
	cfg, err := daemon.MergeConfigAndUnmarshal(nil, raw)
	if err != nil {
		c.Fatalf("eni_conf %s rejected: %v", raw, err)
	}
	cfg.Populate()
	return cfg
}

type c19PoolOut struct {
	V4On, V6On, Trunking, ERDMA bool
	Pool                        daemon.PoolConfig

	// initTrunk (only run when trunking survived checkInstance)
	TrunkRan     bool
	TrunkID      string
	TrunkErr     string
	Held         int      // interfaces attached after initTrunk
	Created      []string // interface types initTrunk created
	TrunkPresent bool     // a trunk interface was attached before the daemon started
}

func (s c19PoolScenario) compute(c *vt.Ctx, defaultRatio bool) c19PoolOut {
	b := NewNetworkServiceBuilder(context.Background()).
		WithDaemonMode(daemon.ModeENIMultiIP).
		InitService()
	if b.err != nil {
		c.Fatalf("InitService: %v", b.err)
	}
	// LoadDynamicConfig
	b.config = s.config(c, defaultRatio)

	// InitK8S: its statements about the node, verbatim
	b.service.k8s = &c19K8s{node: s.node(c)}
	if terwayTypes.NodeExclusiveENIMode(b.service.k8s.Node().Labels) == terwayTypes.ExclusiveENIOnly {
		b.service.daemonMode = daemon.ModeENIOnly
	}

	// PostInitForLegacyMode: initInstanceLimit, then the pool config of setupENIManager
	if err := b.initInstanceLimit(); err != nil {
		c.Fatalf("initInstanceLimit: %v", err)
	}
	if b.limit == nil || b.limit.InstanceTypeID != c19TypeID {
		c.Fatalf("initInstanceLimit left limits %+v", b.limit)
	}
	pc, err := getPoolConfig(b.config, b.daemonMode, b.limit)
	if err != nil || pc == nil {
		c.Fatalf("getPoolConfig = %v, %v", pc, err)
	}
	pc.EnableIPv4 = b.service.enableIPv4
	pc.EnableIPv6 = b.service.enableIPv6

	out := c19PoolOut{}
	out.V4On, out.V6On = b.service.enableIPv4, b.service.enableIPv6
	out.Pool = *pc

	// setupENIManager: make sure the trunk interface exists
	f := &c19Factory{createFail: s.CreateFail}
	for i, kind := range s.Attached {
		ni := &daemon.ENI{ID: fmt.Sprintf("eni-%d", i), ERdma: kind == 1, Trunk: kind == 2}
		out.TrunkPresent = out.TrunkPresent || ni.Trunk
		f.attached = append(f.attached, ni)
	}
	if b.config.EnableENITrunking {
		out.TrunkRan = true
		id, err := initTrunk(b.config, pc, b.service.k8s, f)
		out.TrunkID = id
		if err != nil {
			// the daemon refuses to start; nothing is advertised
			out.TrunkErr = err.Error()
		}
	}
	out.Held, out.Created = len(f.attached), f.created
	out.Trunking, out.ERDMA = b.config.EnableENITrunking, b.config.EnableERDMA
	return out
}

func c19RunPool(c *vt.Ctx, s c19PoolScenario) {
	// package-level state: the node capability store is process wide
	if s.OSERDMA {
		nodecap.SetNodeCapabilities(nodecap.NodeCapabilityERDMA, "true")
	} else {
		nodecap.SetNodeCapabilities(nodecap.NodeCapabilityERDMA, "")
	}
	defer nodecap.SetNodeCapabilities(nodecap.NodeCapabilityERDMA, "")
	// package-level state: the instance metadata client
	instance.Init(c19Meta{})

	if s.IPStack == "ipv6" {
		// LoadDynamicConfig refuses this stack (Validate); checkInstance is still
		// exercised with it, the oracle is the same
		if err := s.config(c, false).Validate(); err == nil {
			c.Label("stack:ipv6-accepted")
		} else {
			c.Label("stack:ipv6-validate-rejects")
		}
	} else if err := s.config(c, false).Validate(); err != nil {
		c.Fatalf("Validate rejected a supported configuration: %v", err)
	}

	slots := s.EniQuantity - 1
	memberRef := 0
	if s.Trunk {
		memberRef = s.EniTotalQuantity - s.EniQuantity
	}
	eriSlots := s.Eri
	if slots < eriSlots {
		eriSlots = slots
	}
	defaultRatio := (s.RatioPct == 0 || s.RatioPct == 100) && s.Shift == 0

	base := s.compute(c, true)
	got := base
	if !defaultRatio {
		got = s.compute(c, false)
	}
	c.Trace("default-ratio: %+v", base)
	c.Trace("as configured: %+v", got)

	// ---- classification
	nt := false
	wantV6 := s.IPStack == "dual" || s.IPStack == "ipv6"
	if wantV6 && s.V6 == 0 {
		c.Label("ask-ipv6:unsupported")
		nt = true
	} else if wantV6 && s.V6 != s.V4 {
		c.Label("ask-ipv6:unequal")
		nt = true
	} else if wantV6 {
		c.Label("ask-ipv6:ok")
	}
	if s.Trunking && memberRef == 0 {
		c.Label("ask-trunk:unsupported")
		nt = true
	} else if s.Trunking {
		c.Label("ask-trunk:ok")
	}
	if s.ERDMA && (s.Eri == 0 || s.EniQuantity <= 2) {
		c.Label("ask-erdma:unsupported")
		nt = true
	} else if s.ERDMA && !s.OSERDMA {
		c.Label("ask-erdma:os-lacks")
	} else if s.ERDMA {
		c.Label("ask-erdma:ok")
	}
	if s.MaxENI > slots {
		c.Label("max_eni>limit")
		nt = true
	} else if s.MaxENI > 0 && s.MaxENI < slots {
		c.Label("max_eni<limit")
	}
	if s.MaxPoolSize > slots*s.V4 {
		c.Label("max_pool>limit")
		nt = true
	}
	if s.MinENI > slots || s.MinPoolSize > slots*s.V4 {
		c.Label("min>limit")
		nt = true
	}
	if s.MinPoolSize > s.MaxPoolSize {
		c.Label("min>max")
		nt = true
	}
	if s.EniQuantity == 1 {
		c.Label("primary-only")
	}
	if s.IPAMCRD {
		c.Label("ipam:crd")
	}
	exclusive := terwayTypes.NodeExclusiveENIMode(map[string]string{terwayTypes.ExclusiveENIModeLabel: s.Exclusive}) == terwayTypes.ExclusiveENIOnly
	if exclusive {
		c.Label("node:exclusive-eni")
		if wantV6 && s.V6 > 0 && s.V6 != s.V4 {
			c.Label("node:exclusive-eni+ipv6-unequal")
		}
	}
	if defaultRatio {
		c.Label("ratio:default")
	} else {
		c.Label("ratio:reduced")
	}
	switch {
	case len(s.Attached) >= slots:
		c.Label("attached:full")
	case len(s.Attached) == 0:
		c.Label("attached:none")
	default:
		c.Label("attached:some-free")
	}
	if base.TrunkRan {
		hasERDMA := false
		for _, k := range s.Attached {
			hasERDMA = hasERDMA || k == 1
		}
		switch {
		case base.TrunkPresent:
			c.Label("trunk:already-attached")
		case len(s.Attached) >= slots && hasERDMA:
			c.Label("trunk:asked-on-full-node-with-erdma")
			nt = true // a requested feature the node has no slot for
		case len(s.Attached) >= slots:
			c.Label("trunk:asked-on-full-node")
			nt = true
		default:
			c.Label("trunk:slot-free")
		}
		if base.TrunkErr != "" {
			c.Label("trunk:create-failed")
		} else if len(base.Created) > 0 {
			c.Label("trunk:created")
		}
	}
	if nt {
		c.NonTrivial()
	}

	// ---- default ratio: the hard inequalities
	p := base.Pool
	fail := func(f string, a ...any) {
		c.Fatalf("default ratio: "+f+" (instance: %d interfaces, %d/%d addresses per interface, total %d, trunk %v, eri %d)",
			append(a, s.EniQuantity, s.V4, s.V6, s.EniTotalQuantity, s.Trunk, s.Eri)...)
	}
	if p.MaxENI < 0 || p.MaxENI > slots {
		fail("MaxENI = %d, want within [0, %d] secondary interfaces", p.MaxENI, slots)
	}
	if p.Capacity < 0 || p.Capacity > p.MaxENI*s.V4 {
		fail("Capacity = %d, want within [0, MaxENI %d x %d]", p.Capacity, p.MaxENI, s.V4)
	}
	if !(0 <= p.MinPoolSize && p.MinPoolSize <= p.MaxPoolSize && p.MaxPoolSize <= p.Capacity) {
		fail("pool watermarks min %d, max %d, capacity %d violate 0 <= min <= max <= capacity", p.MinPoolSize, p.MaxPoolSize, p.Capacity)
	}
	if p.MaxIPPerENI < 0 || p.MaxIPPerENI > s.V4 {
		fail("MaxIPPerENI = %d, want within [0, %d]", p.MaxIPPerENI, s.V4)
	}
	if p.MaxMemberENI < 0 || p.MaxMemberENI > memberRef {
		fail("MaxMemberENI = %d, want within [0, %d]", p.MaxMemberENI, memberRef)
	}
	if p.ERdmaCapacity < 0 || p.ERdmaCapacity > eriSlots*s.V4 {
		fail("ERdmaCapacity = %d, want within [0, %d x %d]", p.ERdmaCapacity, eriSlots, s.V4)
	}

	// ---- reduced ratio / negative shift: never above the default-ratio outputs
	if !defaultRatio {
		q := got.Pool
		le := func(name string, a, b int) {
			if a > b {
				c.Fatalf("eni_cap_ratio %d%% shift %d: %s = %d exceeds its default-ratio value %d", s.RatioPct, s.Shift, name, a, b)
			}
		}
		le("MaxENI", q.MaxENI, p.MaxENI)
		le("Capacity", q.Capacity, p.Capacity)
		le("MaxPoolSize", q.MaxPoolSize, p.MaxPoolSize)
		le("MinPoolSize", q.MinPoolSize, p.MinPoolSize)
		le("MaxMemberENI", q.MaxMemberENI, p.MaxMemberENI)
		le("ERdmaCapacity", q.ERdmaCapacity, p.ERdmaCapacity)
		le("MaxIPPerENI", q.MaxIPPerENI, p.MaxIPPerENI)
		if q.MinPoolSize > q.MaxPoolSize {
			c.Fatalf("eni_cap_ratio %d%% shift %d: MinPoolSize %d > MaxPoolSize %d", s.RatioPct, s.Shift, q.MinPoolSize, q.MaxPoolSize)
		}
		if !s.IPAMCRD && q.MaxPoolSize > q.Capacity {
			c.Fatalf("eni_cap_ratio %d%% shift %d: MaxPoolSize %d > Capacity %d", s.RatioPct, s.Shift, q.MaxPoolSize, q.Capacity)
		}
		if q.MaxENI < p.MaxENI {
			c.Label("ratio:bites")
		}
	}

	// ---- features (identical for both computations: they do not depend on the ratio)
	for _, o := range []c19PoolOut{base, got} {
		// interface slots: what was attached plus what initTrunk created
		if o.Held > slots && o.Held > len(s.Attached) {
			c.Fatalf("initTrunk: the node holds %d secondary interfaces (attached before %v, created %v, trunk %q), the instance type can attach %d",
				o.Held, s.Attached, o.Created, o.TrunkID, slots)
		}
		// no free slot and no trunk among the attached interfaces: the instance cannot
		// carry a trunk, so member capacity must not be advertised (setupENIManager
		// annotates on a trunk id, runDevicePlugin serves MaxMemberENI on the flag)
		if o.TrunkRan && o.TrunkErr == "" && !o.TrunkPresent && len(s.Attached) >= slots && (o.TrunkID != "" || o.Trunking) {
			c.Fatalf("initTrunk: all %d attachable interfaces are in use (%v) and none is a trunk, yet trunking stays on (trunk %q, enable_eni_trunking %v, MaxMemberENI %d)",
				slots, s.Attached, o.TrunkID, o.Trunking, o.Pool.MaxMemberENI)
		}
		if o.V6On && s.V6 == 0 {
			c.Fatalf("IPv6 enabled (stack %q) on an instance type without IPv6 addresses", s.IPStack)
		}
		// for the pool that is actually sized (whatever mode each step was handed):
		// every interface is advertised with MaxIPPerENI pod addresses, capacity with
		// MaxENI x MaxIPPerENI; with IPv6 on, each of them needs an IPv6 address too
		if o.V6On && o.Pool.MaxIPPerENI > s.V6 {
			c.Fatalf("IPv6 enabled (stack %q, exclusive-ENI label %q) while the pool puts %d addresses on an interface that has %d IPv6 addresses (capacity %d, deliverable %d x %d)",
				s.IPStack, s.Exclusive, o.Pool.MaxIPPerENI, s.V6, o.Pool.Capacity, o.Pool.MaxENI, s.V6)
		}
		if o.V6On && o.Pool.Capacity > 0 && o.Pool.MaxENI >= 0 && o.Pool.Capacity > o.Pool.MaxENI*s.V6 {
			c.Fatalf("IPv6 enabled (stack %q, exclusive-ENI label %q): capacity %d exceeds %d interfaces x %d IPv6 addresses",
				s.IPStack, s.Exclusive, o.Pool.Capacity, o.Pool.MaxENI, s.V6)
		}
		if o.Trunking && memberRef == 0 {
			c.Fatalf("trunking stays enabled on an instance type with member limit 0 (trunk supported %v, total %d, attachable %d)", s.Trunk, s.EniTotalQuantity, s.EniQuantity)
		}
		if o.ERDMA && (s.Eri == 0 || slots == 0) {
			c.Fatalf("ERDMA stays enabled on an instance type with %d ERI and %d secondary interfaces", s.Eri, slots)
		}
		if (o.V6On && !wantV6) || (o.Trunking && !s.Trunking) || (o.ERDMA && !s.ERDMA) {
			c.Label("out:enabled-unasked") // not an instance limit; visible in the evidence
		}
		if !o.ERDMA && o.Pool.ERdmaCapacity != 0 {
			c.Fatalf("ERDMA disabled but ERdmaCapacity = %d", o.Pool.ERdmaCapacity)
		}
	}
	if base.V6On {
		c.Label("out:ipv6")
	}
	if base.Trunking {
		c.Label("out:trunk")
	}
	if base.ERDMA {
		c.Label("out:erdma")
	}
	if s.ERDMA && !base.ERDMA && s.Eri > 0 && s.EniQuantity > 2 && s.OSERDMA {
		// allowed by the statement (disabling is always safe); visible in the evidence
		c.Label("out:erdma-off-though-supported")
	}
}

func TestVerifC19Pool(t *testing.T) {
	vt.Run(t, c19GenPool, c19RunPool)
}
