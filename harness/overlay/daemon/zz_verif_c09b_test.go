package daemon

// C09, two further generated checks of gcPods:
//
//  TestVerifC09Kernel  - "never touches a pod that is running", judged on kernel state:
//      every pod has a host-side veth named as the plugin names it (hash of namespace and
//      name) and the policy rules the plugin installs for its address; namespaces and
//      names are drawn from a tiny alphabet so that pods whose namespace/name mirror each
//      other are common. After every GC pass the veth and rules of every pod that must
//      survive are still there.
//  TestVerifC09Runtime - centralized IPAM (ipam type crd): pods without a local record are
//      released through the NodeRuntime object ("deleted" status, picked up by the control
//      plane). Generated (local records, NodeRuntime entries, pod table) triples; after one
//      pass exactly the entries of pods that no longer exist (API confirms), have no local
//      record and whose last status is an "initial" older than the grace period carry a
//      teardown report; every other entry is unchanged.

import (
	"context"
	"encoding/json"
	"fmt"
	"net"
	"sort"
	"sync/atomic"
	"testing"
	"time"

	"github.com/vishvananda/netlink"
	metav1 "k8s.io/apimachinery/pkg/apis/meta/v1"
	"pgregory.net/rapid"
	"sigs.k8s.io/controller-runtime/pkg/client"
	"sigs.k8s.io/controller-runtime/pkg/client/fake"

	networkv1beta1 "github.com/AliyunContainerService/terway/pkg/apis/network.alibabacloud.com/v1beta1"
	"github.com/AliyunContainerService/terway/pkg/link"
	"github.com/AliyunContainerService/terway/pkg/storage"
	"github.com/AliyunContainerService/terway/rpc"
	terwayTypes "github.com/AliyunContainerService/terway/types"
	"github.com/AliyunContainerService/terway/types/daemon"
	"github.com/AliyunContainerService/terway/zz_verif/cloudsim"
	"github.com/AliyunContainerService/terway/zz_verif/vt"
)

// ------------------------------------------------------------------ kernel state

type c09kPod struct {
	NS    string `json:"ns"`
	Name  string `json:"name"`
	Class string `json:"class"` // running | exited | notlocal | apifail | absent
}

type c09kScenario struct {
	Pods   []c09kPod `json:"pods"`
	Passes int       `json:"passes"`
}

func c09kGen(t *rapid.T) c09kScenario {
	s := c09kScenario{Passes: rapid.IntRange(1, 2).Draw(t, "passes")}
	n := rapid.IntRange(2, 5).Draw(t, "n")
	seen := map[string]bool{}
	alpha := []string{"a", "b", "c"}
	for len(s.Pods) < n {
		p := c09kPod{NS: rapid.SampledFrom(alpha).Draw(t, "ns"), Name: rapid.SampledFrom(alpha).Draw(t, "name")}
		if seen[p.NS+"/"+p.Name] {
			continue
		}
		seen[p.NS+"/"+p.Name] = true
		p.Class = rapid.SampledFrom([]string{c09Running, c09Running, c09Exited, c09NotLocal, c09APIFail, c09Absent, c09Absent, c09Absent}).Draw(t, "class")
		s.Pods = append(s.Pods, p)
	}
	return s
}

func c09kRun(c *vt.Ctx, s c09kScenario) {
	n := len(s.Pods)
	cloud := cloudsim.New()
	// the interface is "present on the host": in the private network namespace lo is the
	// only plain device and its hardware address prints as ""
	cloud.AddENIWithMAC("secondary", n+1, 0, "")
	e := cloud.Snapshot()["eni-1"]
	var v4 []string
	for _, a := range cloudsim.SortedAddrs(e.V4) {
		if a != e.Primary {
			v4 = append(v4, a.String())
		}
	}
	lo, err := netlink.LinkByName("lo")
	if err != nil {
		c.Inconclusive("no loopback device: " + err.Error())
	}
	table := 1000 + lo.Attrs().Index

	k := vsNewK8s()
	dir := vsScratchDir()
	dbPath := dir + "/pod.db"
	db, err := vsOpenDB(dbPath)
	if err != nil {
		c.Fatalf("open db: %v", err)
	}
	type kstate struct {
		veth  string
		rules []*netlink.Rule
	}
	states := make([]kstate, n)
	cleanup := func() {
		for _, st := range states {
			if st.veth != "" {
				if l, err := netlink.LinkByName(st.veth); err == nil {
					_ = netlink.LinkDel(l)
				}
			}
			for _, r := range st.rules {
				_ = netlink.RuleDel(r)
			}
		}
	}
	defer cleanup()
	mirrored := false
	for i, p := range s.Pods {
		for _, q := range s.Pods {
			if q.NS == p.Name && q.Name == p.NS && (q.NS != p.NS) {
				mirrored = true
			}
		}
		info := &daemon.PodInfo{Name: p.Name, Namespace: p.NS, PodNetworkType: daemon.PodNetworkTypeENIMultiIP, PodUID: fmt.Sprintf("uid-%d", i)}
		item := daemon.ResourceItem{Type: daemon.ResourceTypeENIIP, IPv4: v4[i], ID: fmt.Sprintf("%s.%s", e.MAC, v4[i]), ENIID: e.ID, ENIMAC: e.MAC}
		nc := []*rpc.NetConf{{BasicInfo: &rpc.BasicInfo{PodIP: &rpc.IPSet{IPv4: v4[i]}}, ENIInfo: &rpc.ENIInfo{MAC: e.MAC}, DefaultRoute: true}}
		ncb, _ := json.Marshal(nc)
		cid := fmt.Sprintf("cid-%d", i)
		netns := "/proc/1/ns/net"
		rec := daemon.PodResources{PodInfo: info, Resources: []daemon.ResourceItem{item}, ContainerID: &cid, NetNs: &netns, NetConf: string(ncb)}
		if err := db.Put(vsKey(p.NS, p.Name), rec); err != nil {
			c.Fatalf("put: %v", err)
		}
		vp := &vsPod{info: info}
		switch p.Class {
		case c09Running:
			vp.exists, vp.local = true, true
		case c09Exited:
			vp.exists, vp.local = true, true
			info.SandboxExited = true
		case c09NotLocal:
			vp.exists, vp.local = true, false
		case c09APIFail:
			vp.failAPI = true
		}
		k.pods[vsKey(p.NS, p.Name)] = vp
		ci := *info
		k.cached[vsKey(p.NS, p.Name)] = &ci

		// kernel state as the plugin leaves it after ADD
		vn, _ := link.VethNameForPod(p.Name, p.NS, "", "cali")
		if err := netlink.LinkAdd(&netlink.Veth{LinkAttrs: netlink.LinkAttrs{Name: vn}, PeerName: fmt.Sprintf("vp%d", i)}); err != nil {
			c.Inconclusive("cannot create veth: " + err.Error())
		}
		states[i].veth = vn
		_, ipn, _ := net.ParseCIDR(v4[i] + "/32")
		r1 := netlink.NewRule()
		r1.Priority, r1.Dst, r1.Table = 512, ipn, 254
		r2 := netlink.NewRule()
		r2.Priority, r2.Src, r2.Table = 2048, ipn, table
		for _, r := range []*netlink.Rule{r1, r2} {
			if err := netlink.RuleAdd(r); err != nil {
				c.Inconclusive("cannot install ip rule: " + err.Error())
			}
			states[i].rules = append(states[i].rules, r)
		}
	}
	_ = storage.VerifClose(db)
	if mirrored {
		c.Label("mirrored-namespace-name")
		c.NonTrivial()
	}

	cfg := vsPoolCfg{Cap: n + 2, Batch: 2, MaxIdle: 2 * (n + 2), PreENIs: []int{n + 1}}
	w, err := vsStart(cfg, cloud, k, dir, dbPath)
	if err != nil {
		c.Fatalf("service start failed: %v", err)
	}
	defer w.cleanup()
	if !w.waitQuiescent(2 * time.Second) {
		c.Inconclusive("pool not quiescent after start")
	}

	hasRule := func(want *netlink.Rule) bool {
		have, _ := netlink.RuleList(netlink.FAMILY_V4)
		for _, h := range have {
			if h.Priority != want.Priority {
				continue
			}
			if want.Dst != nil && h.Dst != nil && h.Dst.String() == want.Dst.String() {
				return true
			}
			if want.Src != nil && h.Src != nil && h.Src.String() == want.Src.String() {
				return true
			}
		}
		return false
	}
	for pass := 0; pass < s.Passes; pass++ {
		c.Trace("--- gc pass %d", pass)
		_ = w.svc.gcPods(context.Background())
		for i, p := range s.Pods {
			if p.Class == c09Absent {
				continue
			}
			if _, err := netlink.LinkByName(states[i].veth); err != nil {
				c.Fatalf("GC pass %d removed the host-side veth %s of pod %s/%s (class %s), which must not be touched", pass, states[i].veth, p.NS, p.Name, p.Class)
			}
			for _, r := range states[i].rules {
				if !hasRule(r) {
					c.Fatalf("GC pass %d removed the policy rule (priority %d) of pod %s/%s (class %s), which must not be touched", pass, r.Priority, p.NS, p.Name, p.Class)
				}
			}
			if _, ok := w.store.Get(vsKey(p.NS, p.Name)); ok != nil {
				c.Fatalf("GC pass %d removed the record of pod %s/%s (class %s)", pass, p.NS, p.Name, p.Class)
			}
		}
	}
}

func TestVerifC09Kernel(t *testing.T) { vt.Run(t, c09kGen, c09kRun) }

// ------------------------------------------------------------------ NodeRuntime (ipam type crd)

type c09rEntry struct {
	// Final status of the pod's NodeRuntime entry and its age
	Status string `json:"status"` // initial | deleted | both (initial then deleted) | readd (deleted then initial)
	Old    bool   `json:"old"`    // last update older than the grace period
	// Pod table
	Exists  bool `json:"exists"`
	FailAPI bool `json:"fail_api,omitempty"`
	// Local record present (uid stored in the daemon's database)
	Local bool `json:"local,omitempty"`
	BadID bool `json:"bad_id,omitempty"` // entry's pod id is not of the form ns/name
}

type c09rScenario struct {
	Entries []c09rEntry `json:"entries"`
	Passes  int         `json:"passes"`
	NoObj   bool        `json:"no_obj,omitempty"` // NodeRuntime object does not exist
}

func c09rGen(t *rapid.T) c09rScenario {
	s := c09rScenario{Passes: rapid.IntRange(1, 2).Draw(t, "passes")}
	n := rapid.IntRange(0, 6).Draw(t, "n")
	for i := 0; i < n; i++ {
		e := c09rEntry{
			Status: rapid.SampledFrom([]string{"initial", "initial", "initial", "deleted", "both", "readd"}).Draw(t, "status"),
			Old:    rapid.IntRange(0, 3).Draw(t, "old") != 0,
			Exists: rapid.IntRange(0, 2).Draw(t, "exists") == 0,
			Local:  rapid.IntRange(0, 2).Draw(t, "local") == 0,
		}
		if !e.Exists {
			e.FailAPI = rapid.IntRange(0, 5).Draw(t, "failapi") == 0
		}
		e.BadID = rapid.IntRange(0, 9).Draw(t, "badid") == 0
		s.Entries = append(s.Entries, e)
	}
	s.NoObj = n == 0 && rapid.Bool().Draw(t, "noobj")
	return s
}

type c09rK8s struct {
	*vsK8s
	cl client.Client
}

func (k *c09rK8s) GetClient() client.Client { return k.cl }

func c09rRun(c *vt.Ctx, s c09rScenario) {
	now := time.Now().Truncate(time.Second)
	rt := &networkv1beta1.NodeRuntime{ObjectMeta: metav1.ObjectMeta{Name: "node-1"}}
	rt.Status.Pods = map[string]*networkv1beta1.RuntimePodStatus{}
	k := vsNewK8s()
	dir := vsScratchDir()
	dbPath := dir + "/pod.db"
	db, err := vsOpenDB(dbPath)
	if err != nil {
		c.Fatalf("open db: %v", err)
	}
	expectReport := map[string]bool{}
	recordless := 0
	for i, e := range s.Entries {
		uid := fmt.Sprintf("uid-%d", i)
		name := fmt.Sprintf("g%d", i)
		podID := vsKey("ns", name)
		if e.BadID {
			podID = name
		}
		last := now
		if e.Old {
			last = now.Add(-10 * time.Minute)
		}
		st := map[networkv1beta1.CNIStatus]*networkv1beta1.CNIStatusInfo{}
		final := ""
		switch e.Status {
		case "initial":
			st[networkv1beta1.CNIStatusInitial] = &networkv1beta1.CNIStatusInfo{LastUpdateTime: metav1.NewTime(last)}
			final = "initial"
		case "deleted":
			st[networkv1beta1.CNIStatusDeleted] = &networkv1beta1.CNIStatusInfo{LastUpdateTime: metav1.NewTime(last)}
			final = "deleted"
		case "both":
			st[networkv1beta1.CNIStatusInitial] = &networkv1beta1.CNIStatusInfo{LastUpdateTime: metav1.NewTime(last.Add(-time.Hour))}
			st[networkv1beta1.CNIStatusDeleted] = &networkv1beta1.CNIStatusInfo{LastUpdateTime: metav1.NewTime(last)}
			final = "deleted"
		case "readd":
			st[networkv1beta1.CNIStatusDeleted] = &networkv1beta1.CNIStatusInfo{LastUpdateTime: metav1.NewTime(last.Add(-time.Hour))}
			st[networkv1beta1.CNIStatusInitial] = &networkv1beta1.CNIStatusInfo{LastUpdateTime: metav1.NewTime(last)}
			final = "initial"
		}
		rt.Status.Pods[uid] = &networkv1beta1.RuntimePodStatus{PodID: podID, Status: st}
		info := &daemon.PodInfo{Name: name, Namespace: "ns", PodNetworkType: daemon.PodNetworkTypeENIMultiIP, PodUID: uid}
		vp := &vsPod{info: info, exists: e.Exists, local: e.Exists, failAPI: e.FailAPI}
		k.pods[vsKey("ns", name)] = vp
		ci := *info
		k.cached[vsKey("ns", name)] = &ci
		local := e.Local && e.Exists // records of pods that exist; they are never collected
		if local {
			cid := "cid-" + name
			netns := "/proc/1/ns/net"
			rec := daemon.PodResources{PodInfo: info, ContainerID: &cid, NetNs: &netns, NetConf: "[]"}
			if err := db.Put(vsKey("ns", name), rec); err != nil {
				c.Fatalf("put: %v", err)
			}
		} else {
			recordless++
		}
		// the only entries GC may add a teardown report to
		if !local && final == "initial" && e.Old && !e.BadID && !e.Exists && !e.FailAPI {
			expectReport[uid] = true
		}
	}
	_ = storage.VerifClose(db)
	if len(expectReport) > 0 && len(expectReport) < len(s.Entries) {
		c.Label("mixed")
		c.NonTrivial()
	}
	if recordless == len(s.Entries) && len(expectReport) > 0 {
		c.Label("no-local-records")
		c.NonTrivial()
	}

	b := fake.NewClientBuilder().WithScheme(terwayTypes.Scheme).WithStatusSubresource(&networkv1beta1.NodeRuntime{})
	cl := b.Build()
	if !s.NoObj {
		obj := rt.DeepCopy()
		if err := cl.Create(context.Background(), obj); err != nil {
			c.Fatalf("create NodeRuntime: %v", err)
		}
		obj.Status = *rt.Status.DeepCopy()
		if err := cl.Status().Update(context.Background(), obj); err != nil {
			c.Fatalf("write NodeRuntime status: %v", err)
		}
	}

	cloud := cloudsim.New()
	cloud.AddENI("secondary", 2, 0)
	kk := &c09rK8s{vsK8s: k, cl: cl}
	w, err := vsStart(vsPoolCfg{Cap: 4, Batch: 1, MaxIdle: 4, PreENIs: []int{2}}, cloud, k, dir, dbPath)
	if err != nil {
		c.Fatalf("service start failed: %v", err)
	}
	defer w.cleanup()
	w.svc.k8s = kk
	w.svc.ipamType = terwayTypes.IPAMTypeCRD

	show := func(p *networkv1beta1.RuntimePodStatus) string {
		if p == nil {
			return "<absent>"
		}
		var parts []string
		for st, inf := range p.Status {
			if inf != nil {
				parts = append(parts, fmt.Sprintf("%s@%ds", st, int(now.Sub(inf.LastUpdateTime.Time).Seconds())))
			}
		}
		sort.Strings(parts)
		return fmt.Sprintf("%s %v", p.PodID, parts)
	}
	for pass := 0; pass < s.Passes; pass++ {
		c.Trace("--- gc pass %d", pass)
		_ = w.svc.gcPods(context.Background())
		got := &networkv1beta1.NodeRuntime{}
		err := cl.Get(context.Background(), client.ObjectKey{Name: "node-1"}, got)
		if s.NoObj {
			continue
		}
		if err != nil {
			c.Fatalf("NodeRuntime unreadable after GC pass %d: %v", pass, err)
		}
		for i := range s.Entries {
			uid := fmt.Sprintf("uid-%d", i)
			before, after := rt.Status.Pods[uid], got.Status.Pods[uid]
			if after == nil {
				c.Fatalf("GC pass %d removed the NodeRuntime entry of %s (%s)", pass, uid, show(before))
			}
			_, hadDel := before.Status[networkv1beta1.CNIStatusDeleted]
			del := after.Status[networkv1beta1.CNIStatusDeleted]
			if expectReport[uid] {
				final, _, _ := runtimeFinal(after.Status)
				if del == nil || final != networkv1beta1.CNIStatusDeleted {
					c.Fatalf("GC pass %d: pod %s no longer exists (API confirms), has no local record and its last status is an old 'initial', but its teardown was not reported: entry %s", pass, uid, show(after))
				}
				continue
			}
			// everything else: unchanged
			if (del != nil) != hadDel || (hadDel && !del.LastUpdateTime.Time.Equal(before.Status[networkv1beta1.CNIStatusDeleted].LastUpdateTime.Time)) {
				c.Fatalf("GC pass %d reported teardown for %s, which it may not (entry before: %s, after: %s; scenario entry %+v)", pass, uid, show(before), show(after), s.Entries[i])
			}
			if len(after.Status) != len(before.Status) || after.PodID != before.PodID {
				c.Fatalf("GC pass %d changed the NodeRuntime entry of %s: before %s, after %s", pass, uid, show(before), show(after))
			}
		}
	}
}

func runtimeFinal(status map[networkv1beta1.CNIStatus]*networkv1beta1.CNIStatusInfo) (networkv1beta1.CNIStatus, *networkv1beta1.CNIStatusInfo, bool) {
	var best networkv1beta1.CNIStatus
	var bi *networkv1beta1.CNIStatusInfo
	for st, inf := range status {
		if inf == nil {
			continue
		}
		if bi == nil || bi.LastUpdateTime.Time.Before(inf.LastUpdateTime.Time) {
			best, bi = st, inf
		}
	}
	return best, bi, bi != nil
}

func TestVerifC09Runtime(t *testing.T) { vt.Run(t, c09rGen, c09rRun) }

// ------------------------------------------------------------------ the GC loop itself

// TestVerifC09Loop runs the real startGarbageCollectionLoop (its period scaled down through
// the build overlay, see zz_verif_c09_export.go) over a store with vanished and running
// pods while the first passes fail (the local pod list cannot be read): "a pod whose
// cleanup cannot proceed does not prevent the other pods from being collected ... within
// two passes" presupposes that passes keep coming after a failed one.
type c09lScenario struct {
	FailFirst int  `json:"fail_first"` // number of initial passes whose pod list fails
	Vanished  int  `json:"vanished"`
	Running   int  `json:"running"`
	LateFail  bool `json:"late_fail,omitempty"` // one more failing pass after the first good one
}

func c09lGen(t *rapid.T) c09lScenario {
	return c09lScenario{
		FailFirst: rapid.IntRange(0, 3).Draw(t, "failfirst"),
		Vanished:  rapid.IntRange(1, 3).Draw(t, "vanished"),
		Running:   rapid.IntRange(0, 2).Draw(t, "running"),
		LateFail:  rapid.Bool().Draw(t, "latefail"),
	}
}

func c09lRun(c *vt.Ctx, s c09lScenario) {
	n := s.Vanished + s.Running
	cloud := cloudsim.New()
	cloud.AddENI("secondary", n+1, 0)
	e := cloud.Snapshot()["eni-1"]
	var v4 []string
	for _, a := range cloudsim.SortedAddrs(e.V4) {
		if a != e.Primary {
			v4 = append(v4, a.String())
		}
	}
	k := vsNewK8s()
	dir := vsScratchDir()
	dbPath := dir + "/pod.db"
	db, err := vsOpenDB(dbPath)
	if err != nil {
		c.Fatalf("open db: %v", err)
	}
	for i := 0; i < n; i++ {
		name := fmt.Sprintf("g%d", i)
		info := &daemon.PodInfo{Name: name, Namespace: "ns", PodNetworkType: daemon.PodNetworkTypeENIMultiIP, PodUID: fmt.Sprintf("uid-%d", i)}
		item := daemon.ResourceItem{Type: daemon.ResourceTypeENIIP, IPv4: v4[i], ID: fmt.Sprintf("%s.%s", e.MAC, v4[i]), ENIID: e.ID, ENIMAC: e.MAC}
		nc := []*rpc.NetConf{{BasicInfo: &rpc.BasicInfo{PodIP: &rpc.IPSet{IPv4: v4[i]}}, ENIInfo: &rpc.ENIInfo{MAC: e.MAC}, DefaultRoute: true}}
		ncb, _ := json.Marshal(nc)
		cid := "cid-" + name
		netns := "/proc/1/ns/net"
		if err := db.Put(vsKey("ns", name), daemon.PodResources{PodInfo: info, Resources: []daemon.ResourceItem{item}, ContainerID: &cid, NetNs: &netns, NetConf: string(ncb)}); err != nil {
			c.Fatalf("put: %v", err)
		}
		vp := &vsPod{info: info}
		if i >= s.Vanished {
			vp.exists, vp.local = true, true
		}
		k.pods[vsKey("ns", name)] = vp
		ci := *info
		k.cached[vsKey("ns", name)] = &ci
	}
	_ = storage.VerifClose(db)
	w, err := vsStart(vsPoolCfg{Cap: n + 2, Batch: 2, MaxIdle: 2 * (n + 2), PreENIs: []int{n + 1}}, cloud, k, dir, dbPath)
	if err != nil {
		c.Fatalf("service start failed: %v", err)
	}
	defer w.cleanup()
	if !w.waitQuiescent(2 * time.Second) {
		c.Inconclusive("pool not quiescent after start")
	}
	if s.FailFirst > 0 {
		c.Label("first-passes-fail")
		c.NonTrivial()
	}

	k.mu.Lock()
	k.localErrs = s.FailFirst
	k.mu.Unlock()
	callsBefore := verifGCPeriodCalls.Load()
	atomic.StoreInt64(&VerifGCPeriodDivisor, int64(gcPeriod/(2*time.Millisecond))) // 2 ms period
	defer atomic.StoreInt64(&VerifGCPeriodDivisor, 1)
	ctx, cancel := context.WithCancel(context.Background())
	loopDone := make(chan struct{})
	go func() { w.svc.startGarbageCollectionLoop(ctx); close(loopDone) }()
	defer func() {
		cancel()
		select {
		case <-loopDone:
		case <-time.After(5 * time.Second):
		}
	}()

	passes := func() int {
		k.mu.Lock()
		defer k.mu.Unlock()
		return k.localCalls
	}
	waitPasses := func(want int, what string) {
		deadline := time.Now().Add(8 * time.Second)
		for passes() < want {
			select {
			case <-loopDone:
				if verifGCPeriodCalls.Load() == callsBefore {
					c.Inconclusive("the GC loop's period is not scaled in this build")
				}
				c.Fatalf("the garbage collection loop ended after %d passes (%s); %d passes had failed because the pod list could not be read", passes(), what, s.FailFirst)
			default:
			}
			if time.Now().After(deadline) {
				if verifGCPeriodCalls.Load() == callsBefore {
					c.Inconclusive("the GC loop's period is not scaled in this build")
				}
				c.Fatalf("no further GC pass within 8s (period 2ms): %d passes so far (%s)", passes(), what)
			}
			time.Sleep(500 * time.Microsecond)
		}
	}
	// the failing passes, then two good ones
	waitPasses(s.FailFirst+2, "waiting for two passes after the failing ones")
	if s.LateFail {
		k.mu.Lock()
		k.localErrs = 1
		k.mu.Unlock()
		waitPasses(passes()+3, "after one more failing pass")
	} else {
		waitPasses(passes()+1, "one more pass")
	}
	for i := 0; i < n; i++ {
		name := fmt.Sprintf("g%d", i)
		_, has := w.record(name)
		if i < s.Vanished && has {
			c.Fatalf("vanished pod %s is still recorded after %d passes (%d of them failed to read the pod list)", name, passes(), s.FailFirst)
		}
		if i >= s.Vanished && !has {
			c.Fatalf("running pod %s lost its record to the GC loop", name)
		}
	}
}

func TestVerifC09Loop(t *testing.T) { vt.Run(t, c09lGen, c09lRun) }

// ------------------------------------------------------------------ a cleanup that never proceeds

// TestVerifC09Starve: "a pod whose cleanup cannot proceed does not prevent the other pods
// from being collected". One vanished pod's release fails on EVERY pass (gcPods gives up a
// pass at the first failing record); the other vanished pods must still be collected. The
// statement's "within two passes" cannot hold for them on any implementation that gives a
// pass up at a failing record, so the bound used here is very generous: every other vanished
// pod is gone after at most 600 passes. The unchanged code visits the records in the
// iteration order of a Go map, which for a handful of entries is a random ROTATION of a fixed
// order: a record that sits right behind the failing one is reached first only when the
// rotation starts exactly there, i.e. in one pass out of 8 to 16 (a first version of this
// test allowed 40 passes and raised a false alarm on the unchanged tree in about 1 % of the
// cases). With 600 passes the chance of a false alarm is below 1e-16. Survivors are never
// touched, and the failing pod keeps its record and its address.
type c09sScenario struct {
	Victims int `json:"victims"` // vanished pods whose cleanup works
	Running int `json:"running"`
	// Name of the failing pod relative to the others in sort order: 0 = sorts first, 1 = in
	// the middle, 2 = sorts last
	FailPos int `json:"fail_pos"`
}

func c09sGen(t *rapid.T) c09sScenario {
	return c09sScenario{
		Victims: rapid.IntRange(1, 5).Draw(t, "victims"),
		Running: rapid.IntRange(0, 2).Draw(t, "running"),
		FailPos: rapid.IntRange(0, 2).Draw(t, "failpos"),
	}
}

func c09sRun(c *vt.Ctx, s c09sScenario) {
	n := s.Victims + s.Running + 1
	cloud := cloudsim.New()
	cloud.AddENI("secondary", n+1, 0)
	e := cloud.Snapshot()["eni-1"]
	var v4 []string
	for _, a := range cloudsim.SortedAddrs(e.V4) {
		if a != e.Primary {
			v4 = append(v4, a.String())
		}
	}
	// names: victims v0.., running r0.., the failing pod sorts before / between / after them
	failName := map[int]string{0: "a-fail", 1: "v2-fail", 2: "z-fail"}[s.FailPos]
	var names []string
	var vanished []bool
	for i := 0; i < s.Victims; i++ {
		names, vanished = append(names, fmt.Sprintf("v%d", i)), append(vanished, true)
	}
	for i := 0; i < s.Running; i++ {
		names, vanished = append(names, fmt.Sprintf("r%d", i)), append(vanished, false)
	}
	names, vanished = append(names, failName), append(vanished, true)

	k := vsNewK8s()
	dir := vsScratchDir()
	dbPath := dir + "/pod.db"
	db, err := vsOpenDB(dbPath)
	if err != nil {
		c.Fatalf("open db: %v", err)
	}
	for i, name := range names {
		info := &daemon.PodInfo{Name: name, Namespace: "ns", PodNetworkType: daemon.PodNetworkTypeENIMultiIP, PodUID: "uid-" + name}
		item := daemon.ResourceItem{Type: daemon.ResourceTypeENIIP, IPv4: v4[i], ID: fmt.Sprintf("%s.%s", e.MAC, v4[i]), ENIID: e.ID, ENIMAC: e.MAC}
		nc := []*rpc.NetConf{{BasicInfo: &rpc.BasicInfo{PodIP: &rpc.IPSet{IPv4: v4[i]}}, ENIInfo: &rpc.ENIInfo{MAC: e.MAC}, DefaultRoute: true}}
		ncb, _ := json.Marshal(nc)
		cid := "cid-" + name
		netns := "/proc/1/ns/net"
		if err := db.Put(vsKey("ns", name), daemon.PodResources{PodInfo: info, Resources: []daemon.ResourceItem{item}, ContainerID: &cid, NetNs: &netns, NetConf: string(ncb)}); err != nil {
			c.Fatalf("put: %v", err)
		}
		vp := &vsPod{info: info}
		if !vanished[i] {
			vp.exists, vp.local = true, true
		}
		k.pods[vsKey("ns", name)] = vp
		ci := *info
		k.cached[vsKey("ns", name)] = &ci
	}
	_ = storage.VerifClose(db)
	w, err := vsStart(vsPoolCfg{Cap: n + 2, Batch: 2, MaxIdle: 2 * (n + 2), PreENIs: []int{n + 1}, FailRelease: true}, cloud, k, dir, dbPath)
	if err != nil {
		c.Fatalf("service start failed: %v", err)
	}
	defer w.cleanup()
	if !w.waitQuiescent(2 * time.Second) {
		c.Inconclusive("pool not quiescent after start")
	}
	w.failNI.mu.Lock()
	w.failNI.failAlways[vsKey("ns", failName)] = true
	w.failNI.mu.Unlock()
	c.NonTrivial()
	c.Labelf("failing-record-sorts:%d", s.FailPos)

	left := func() []string {
		var out []string
		for i, name := range names {
			if vanished[i] && name != failName {
				if _, ok := w.record(name); ok {
					out = append(out, name)
				}
			}
		}
		return out
	}
	passes := 0
	for ; passes < 600 && len(left()) > 0; passes++ {
		_ = w.svc.gcPods(context.Background())
		for i, name := range names {
			if !vanished[i] {
				if _, ok := w.record(name); !ok {
					c.Fatalf("GC pass %d removed the record of running pod %s", passes, name)
				}
			}
		}
	}
	if l := left(); len(l) > 0 {
		c.Fatalf("after %d GC passes the vanished pods %v are still recorded: the pod %s, whose release fails on every pass, keeps them from being collected", passes, l, failName)
	}
	if _, ok := w.record(failName); !ok {
		owners := w.owners()
		if owners[v4[len(names)-1]] == vsKey("ns", failName) {
			c.Fatalf("the record of %s was removed although its address could not be released and is still owned by it in the pool", failName)
		}
	}
}

func TestVerifC09Starve(t *testing.T) { vt.Run(t, c09sGen, c09sRun) }
