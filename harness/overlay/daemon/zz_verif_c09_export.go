package daemon

import (
	"sync/atomic"
	"time"
)

// The build overlay rewrites the period argument of the GC loop
// (wait.PollUntilContextCancel(ctx, gcPeriod, ...)) into verifGCPeriod(gcPeriod), so that a
// test can run the real loop with a period of milliseconds. With the divisor at 1 (the
// default) the period is unchanged.
var (
	VerifGCPeriodDivisor int64 = 1
	verifGCPeriodCalls   atomic.Int64
)

func verifGCPeriod(d time.Duration) time.Duration {
	verifGCPeriodCalls.Add(1)
	div := atomic.LoadInt64(&VerifGCPeriodDivisor)
	if div <= 1 {
		return d
	}
	return d / time.Duration(div)
}
