package daemon

import (
	"context"

	"github.com/AliyunContainerService/terway/pkg/eni"
	"github.com/AliyunContainerService/terway/pkg/k8s"
	"github.com/AliyunContainerService/terway/pkg/storage"
	"github.com/AliyunContainerService/terway/rpc"
	"github.com/AliyunContainerService/terway/types"
)

// Export shim for the C12 verification harness (plugin/terway feeds the daemon's real
// AllocIP replies into the plugin's real parser). Nothing here contains logic: it only
// assembles a networkService the way daemon/builder.go does, from parts the harness
// supplies, and forwards to the unexported functions.

// C12Service wraps a real networkService.
type C12Service struct{ ns *networkService }

// C12Options are the builder-time settings of a networkService.
type C12Options struct {
	DaemonMode        string
	IPAMType          types.IPAMType
	EnableIPv4        bool
	EnableIPv6        bool
	EnablePatchPodIPs bool
	K8s               k8s.Kubernetes
	DB                storage.Storage
	Mgr               *eni.Manager
}

func C12NewService(o C12Options) *C12Service {
	return &C12Service{ns: &networkService{
		daemonMode:        o.DaemonMode,
		ipamType:          o.IPAMType,
		enableIPv4:        o.EnableIPv4,
		enableIPv6:        o.EnableIPv6,
		enablePatchPodIPs: o.EnablePatchPodIPs,
		k8s:               o.K8s,
		resourceDB:        o.DB,
		eniMgr:            o.Mgr,
	}}
}

func (s *C12Service) AllocIP(ctx context.Context, r *rpc.AllocIPRequest) (*rpc.AllocIPReply, error) {
	return s.ns.AllocIP(ctx, r)
}

func (s *C12Service) GetIPInfo(ctx context.Context, r *rpc.GetInfoRequest) (*rpc.GetInfoReply, error) {
	return s.ns.GetIPInfo(ctx, r)
}

func (s *C12Service) ReleaseIP(ctx context.Context, r *rpc.ReleaseIPRequest) (*rpc.ReleaseIPReply, error) {
	return s.ns.ReleaseIP(ctx, r)
}

// C12DefaultForNetConf forwards to defaultForNetConf.
func C12DefaultForNetConf(netConf []*rpc.NetConf) error { return defaultForNetConf(netConf) }
