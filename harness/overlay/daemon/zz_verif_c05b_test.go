package daemon

// C05, pods with a reserved address (StatefulSet pods / pod-ip-reservation: IPStickTime != 0
// under the legacy IPAM): their DEL is acknowledged but keeps the stored record, so what the
// daemon holds in memory and what it would rebuild from disk can drift apart without any
// crash being involved. Generated ADD / DEL histories over sticky and ordinary pods with
// restarts from a byte copy of the database at drawn steps. Oracle (model-free where it
// can be): at every quiescent point each stored record's address is marked as owned by
// that pod in the pool and no address appears in two records (so a restart from the file
// reproduces what the daemon held); after a restart every pod whose latest acknowledged
// request is an ADD still owns the acknowledged address.

import (
	"context"
	"fmt"
	"io"
	"os"
	"sort"
	"testing"
	"time"

	"pgregory.net/rapid"

	"github.com/AliyunContainerService/terway/pkg/storage"
	"github.com/AliyunContainerService/terway/types/daemon"
	"github.com/AliyunContainerService/terway/zz_verif/cloudsim"
	"github.com/AliyunContainerService/terway/zz_verif/vt"
)

type c05sOp struct {
	Kind string `json:"kind"` // add | newadd (new sandbox id) | del | restart
	Pod  int    `json:"pod,omitempty"`
}

type c05sScenario struct {
	Cfg    vsPoolCfg `json:"cfg"`
	Sticky []bool    `json:"sticky"`
	Ops    []c05sOp  `json:"ops"`
}

const c05sPods = 4

func c05sGen(t *rapid.T) c05sScenario {
	s := c05sScenario{Cfg: vsGenCfg(t)}
	for i := 0; i < c05sPods; i++ {
		s.Sticky = append(s.Sticky, rapid.IntRange(0, 2).Draw(t, "sticky") != 0)
	}
	n := rapid.IntRange(2, vt.Scale(14, 30)).Draw(t, "nops")
	for i := 0; i < n; i++ {
		s.Ops = append(s.Ops, c05sOp{
			Kind: rapid.SampledFrom([]string{"add", "add", "add", "newadd", "del", "del", "del", "restart"}).Draw(t, "kind"),
			Pod:  rapid.IntRange(0, c05sPods-1).Draw(t, "pod"),
		})
	}
	return s
}

type c05sPod struct {
	cid    string // sandbox id of the latest acknowledged ADD ("" = none)
	addr   string // address key (IPv4, or IPv6 for an IPv6-only reply) of that ADD
	seq    int
	delAck bool // the latest acknowledged request was a DEL
}

func c05sRun(c *vt.Ctx, s c05sScenario) {
	cloud := cloudsim.New()
	vsAddPreENIs(cloud, s.Cfg)
	dir := vsScratchDir()
	dbPath := dir + "/pod.db"
	newK8s := func() *vsK8s {
		k := vsNewK8s()
		for i := 0; i < c05sPods; i++ {
			k.setPod(c04PodName(i), fmt.Sprintf("uid-%d", i), s.Sticky[i])
		}
		return k
	}
	w, err := vsStart(s.Cfg, cloud, newK8s(), dir, dbPath)
	if err != nil {
		_ = os.RemoveAll(dir)
		c.Fatalf("service start failed: %v", err)
	}
	defer func() { w.cleanup() }()
	if !w.waitQuiescent(2 * time.Second) {
		c.Inconclusive("pool not quiescent after start")
	}
	pods := make([]*c05sPod, c05sPods)
	for i := range pods {
		pods[i] = &c05sPod{}
	}
	stickyDel, restarts, addAfterStickyDel := 0, 0, 0

	consistent := func(when string) {
		if !w.waitQuiescent(2 * time.Second) {
			c.Inconclusive("pool not quiescent " + when)
		}
		owners := w.owners()
		l, _ := w.db.List()
		seen := map[string]string{}
		for _, o := range l {
			rec := o.(daemon.PodResources)
			if rec.PodInfo == nil {
				continue
			}
			key := vsKey(rec.PodInfo.Namespace, rec.PodInfo.Name)
			for _, it := range rec.Resources {
				if it.Type != daemon.ResourceTypeENIIP {
					continue
				}
				for _, a := range []string{it.IPv4, it.IPv6} {
					if a == "" {
						continue
					}
					if other, dup := seen[a]; dup && other != key {
						c.Fatalf("%s: address %s is stored in the records of both %s and %s: a restart from this file cannot give it to both", when, a, other, key)
					}
					seen[a] = key
					if owners[a] != key {
						c.Fatalf("%s: the stored record of %s holds %s, but the pool marks it as owned by %q: what the daemon holds and what it would rebuild from disk differ", when, key, a, owners[a])
					}
				}
			}
		}
	}

	for i, o := range s.Ops {
		p := pods[o.Pod]
		name := c04PodName(o.Pod)
		switch o.Kind {
		case "add", "newadd":
			cid := p.cid
			if cid == "" || o.Kind == "newadd" {
				p.seq++
				cid = fmt.Sprintf("cid-%d-%d", o.Pod, p.seq)
			}
			ctx, cancel := context.WithTimeout(context.Background(), c04ReqTimeout)
			rep, err := w.svc.AllocIP(ctx, vsAddReq(name, cid))
			cancel()
			c.Trace("step %d: ADD %s %s -> %v", i, name, cid, err)
			if err == nil {
				v4, v6 := vsReplyAddrs(rep.NetConfs)
				key := v4
				if key == "" {
					key = v6
				}
				if p.delAck && s.Sticky[o.Pod] {
					addAfterStickyDel++
				}
				// another pod whose latest acknowledged request is an ADD must not hold it
				for j, q := range pods {
					if j != o.Pod && q.cid != "" && !q.delAck && q.addr == key {
						c.Fatalf("step %d: ADD for %s was acknowledged with %s, which %s holds from its acknowledged ADD", i, name, key, c04PodName(j))
					}
				}
				p.cid, p.addr, p.delAck = cid, key, false
			}
		case "del":
			if p.cid == "" {
				continue
			}
			ctx, cancel := context.WithTimeout(context.Background(), c04ReqTimeout)
			_, err := w.svc.ReleaseIP(ctx, vsDelReq(name, p.cid))
			cancel()
			c.Trace("step %d: DEL %s %s -> %v", i, name, p.cid, err)
			if err == nil {
				p.delAck = true
				if s.Sticky[o.Pod] {
					stickyDel++
				}
			}
		case "restart":
			restarts++
			consistent(fmt.Sprintf("step %d (before restart)", i))
			w.stop()
			// the daemon is rebuilt from a byte copy of the database file
			cp := dir + fmt.Sprintf("/pod-%d.db", i)
			if err := c05sCopy(dbPath, cp); err != nil {
				c.Fatalf("copy db: %v", err)
			}
			dbPath = cp
			cloud = cloud.Clone()
			w2, err := vsStart(s.Cfg, cloud, newK8s(), dir, dbPath)
			if err != nil {
				c.Fatalf("step %d: restart failed: %v", i, err)
			}
			w = w2
			if !w.waitQuiescent(2 * time.Second) {
				c.Inconclusive("restarted pool not quiescent")
			}
			owners := w.owners()
			var names []string
			for j, q := range pods {
				if q.cid != "" && !q.delAck {
					names = append(names, c04PodName(j))
					if owners[q.addr] != vsKey("ns", c04PodName(j)) {
						c.Fatalf("step %d: after the restart the pool marks %s as owned by %q, but %s holds it from an acknowledged ADD (sandbox %s)", i, q.addr, owners[q.addr], c04PodName(j), q.cid)
					}
				}
			}
			sort.Strings(names)
			c.Trace("step %d: restart, acknowledged holders %v", i, names)
		}
		consistent(fmt.Sprintf("step %d (%s %s)", i, o.Kind, name))
	}
	if stickyDel > 0 {
		c.Label("sticky-del")
	}
	if addAfterStickyDel > 0 {
		c.Label("add-after-sticky-del")
	}
	if restarts > 0 && stickyDel > 0 {
		c.Label("restart-with-sticky-del")
		c.NonTrivial()
	}
	_ = storage.VerifClose
}

func c05sCopy(from, to string) error {
	in, err := os.Open(from)
	if err != nil {
		return err
	}
	defer in.Close()
	out, err := os.Create(to)
	if err != nil {
		return err
	}
	defer out.Close()
	_, err = io.Copy(out, in)
	return err
}

func TestVerifC05Sticky(t *testing.T) { vt.Run(t, c05sGen, c05sRun) }
