package daemon

// C05, pods with a reserved address (StatefulSet pods / pod-ip-reservation: IPStickTime != 0
// under the legacy IPAM): their DEL is acknowledged but keeps the stored record, so what the
// daemon holds in memory and what it would rebuild from disk can drift apart without any
// crash being involved. Generated ADD / DEL histories over sticky and ordinary pods with
// restarts from a byte copy of the database at drawn steps. Oracle (model-free where it
// can be): at every quiescent point each stored record's address is marked as owned by
// that pod in the pool and no address appears in two records (so a restart from the file
// reproduces what the daemon held); after a restart every pod whose latest acknowledged
// request is an ADD still owns the acknowledged address.

import (
	"context"
	"encoding/json"
	"fmt"
	"io"
	"os"
	"sort"
	"testing"
	"time"

	"pgregory.net/rapid"

	"github.com/AliyunContainerService/terway/pkg/storage"
	"github.com/AliyunContainerService/terway/types/daemon"
	"github.com/AliyunContainerService/terway/zz_verif/cloudsim"
	"github.com/AliyunContainerService/terway/zz_verif/vt"
)

type c05sOp struct {
	Kind string `json:"kind"` // add | newadd (new sandbox id) | del | restart
	Pod  int    `json:"pod,omitempty"`
}

type c05sScenario struct {
	Cfg    vsPoolCfg `json:"cfg"`
	Sticky []bool    `json:"sticky"`
	Ops    []c05sOp  `json:"ops"`
}

const c05sPods = 4

func c05sGen(t *rapid.T) c05sScenario {
	s := c05sScenario{Cfg: vsGenCfg(t)}
	for i := 0; i < c05sPods; i++ {
		s.Sticky = append(s.Sticky, rapid.IntRange(0, 2).Draw(t, "sticky") != 0)
	}
	n := rapid.IntRange(2, vt.Scale(14, 30)).Draw(t, "nops")
	for i := 0; i < n; i++ {
		s.Ops = append(s.Ops, c05sOp{
			Kind: rapid.SampledFrom([]string{"add", "add", "add", "newadd", "del", "del", "del", "restart"}).Draw(t, "kind"),
			Pod:  rapid.IntRange(0, c05sPods-1).Draw(t, "pod"),
		})
	}
	return s
}

type c05sPod struct {
	cid    string // sandbox id of the latest acknowledged ADD ("" = none)
	addr   string // address key (IPv4, or IPv6 for an IPv6-only reply) of that ADD
	seq    int
	delAck bool // the latest acknowledged request was a DEL
}

func c05sRun(c *vt.Ctx, s c05sScenario) {
	cloud := cloudsim.New()
	vsAddPreENIs(cloud, s.Cfg)
	dir := vsScratchDir()
	dbPath := dir + "/pod.db"
	newK8s := func() *vsK8s {
		k := vsNewK8s()
		for i := 0; i < c05sPods; i++ {
			k.setPod(c04PodName(i), fmt.Sprintf("uid-%d", i), s.Sticky[i])
		}
		return k
	}
	w, err := vsStart(s.Cfg, cloud, newK8s(), dir, dbPath)
	if err != nil {
		_ = os.RemoveAll(dir)
		c.Fatalf("service start failed: %v", err)
	}
	defer func() { w.cleanup() }()
	if !w.waitQuiescent(2 * time.Second) {
		c.Inconclusive("pool not quiescent after start")
	}
	pods := make([]*c05sPod, c05sPods)
	for i := range pods {
		pods[i] = &c05sPod{}
	}
	stickyDel, restarts, addAfterStickyDel := 0, 0, 0

	consistent := func(when string) {
		if !w.waitQuiescent(2 * time.Second) {
			c.Inconclusive("pool not quiescent " + when)
		}
		owners := w.owners()
		l, _ := w.db.List()
		seen := map[string]string{}
		for _, o := range l {
			rec := o.(daemon.PodResources)
			if rec.PodInfo == nil {
				continue
			}
			key := vsKey(rec.PodInfo.Namespace, rec.PodInfo.Name)
			for _, it := range rec.Resources {
				if it.Type != daemon.ResourceTypeENIIP {
					continue
				}
				for _, a := range []string{it.IPv4, it.IPv6} {
					if a == "" {
						continue
					}
					if other, dup := seen[a]; dup && other != key {
						c.Fatalf("%s: address %s is stored in the records of both %s and %s: a restart from this file cannot give it to both", when, a, other, key)
					}
					seen[a] = key
					if owners[a] != key {
						c.Fatalf("%s: the stored record of %s holds %s, but the pool marks it as owned by %q: what the daemon holds and what it would rebuild from disk differ", when, key, a, owners[a])
					}
				}
			}
		}
	}

	for i, o := range s.Ops {
		p := pods[o.Pod]
		name := c04PodName(o.Pod)
		switch o.Kind {
		case "add", "newadd":
			cid := p.cid
			if cid == "" || o.Kind == "newadd" {
				p.seq++
				cid = fmt.Sprintf("cid-%d-%d", o.Pod, p.seq)
			}
			ctx, cancel := context.WithTimeout(context.Background(), c04ReqTimeout)
			rep, err := w.svc.AllocIP(ctx, vsAddReq(name, cid))
			cancel()
			c.Trace("step %d: ADD %s %s -> %v", i, name, cid, err)
			if err == nil {
				v4, v6 := vsReplyAddrs(rep.NetConfs)
				key := v4
				if key == "" {
					key = v6
				}
				if p.delAck && s.Sticky[o.Pod] {
					addAfterStickyDel++
				}
				// another pod whose latest acknowledged request is an ADD must not hold it
				for j, q := range pods {
					if j != o.Pod && q.cid != "" && !q.delAck && q.addr == key {
						c.Fatalf("step %d: ADD for %s was acknowledged with %s, which %s holds from its acknowledged ADD", i, name, key, c04PodName(j))
					}
				}
				p.cid, p.addr, p.delAck = cid, key, false
			}
		case "del":
			if p.cid == "" {
				continue
			}
			ctx, cancel := context.WithTimeout(context.Background(), c04ReqTimeout)
			_, err := w.svc.ReleaseIP(ctx, vsDelReq(name, p.cid))
			cancel()
			c.Trace("step %d: DEL %s %s -> %v", i, name, p.cid, err)
			if err == nil {
				p.delAck = true
				if s.Sticky[o.Pod] {
					stickyDel++
				}
			}
		case "restart":
			restarts++
			consistent(fmt.Sprintf("step %d (before restart)", i))
			w.stop()
			// the daemon is rebuilt from a byte copy of the database file
			cp := dir + fmt.Sprintf("/pod-%d.db", i)
			if err := c05sCopy(dbPath, cp); err != nil {
				c.Fatalf("copy db: %v", err)
			}
			dbPath = cp
			cloud = cloud.Clone()
			w2, err := vsStart(s.Cfg, cloud, newK8s(), dir, dbPath)
			if err != nil {
				c.Fatalf("step %d: restart failed: %v", i, err)
			}
			w = w2
			if !w.waitQuiescent(2 * time.Second) {
				c.Inconclusive("restarted pool not quiescent")
			}
			owners := w.owners()
			var names []string
			for j, q := range pods {
				if q.cid != "" && !q.delAck {
					names = append(names, c04PodName(j))
					if owners[q.addr] != vsKey("ns", c04PodName(j)) {
						c.Fatalf("step %d: after the restart the pool marks %s as owned by %q, but %s holds it from an acknowledged ADD (sandbox %s)", i, q.addr, owners[q.addr], c04PodName(j), q.cid)
					}
				}
			}
			sort.Strings(names)
			c.Trace("step %d: restart, acknowledged holders %v", i, names)
		}
		consistent(fmt.Sprintf("step %d (%s %s)", i, o.Kind, name))
	}
	if stickyDel > 0 {
		c.Label("sticky-del")
	}
	if addAfterStickyDel > 0 {
		c.Label("add-after-sticky-del")
	}
	if restarts > 0 && stickyDel > 0 {
		c.Label("restart-with-sticky-del")
		c.NonTrivial()
	}
	_ = storage.VerifClose
}

func c05sCopy(from, to string) error {
	in, err := os.Open(from)
	if err != nil {
		return err
	}
	defer in.Close()
	out, err := os.Create(to)
	if err != nil {
		return err
	}
	defer out.Close()
	_, err = io.Copy(out, in)
	return err
}

func TestVerifC05Sticky(t *testing.T) { vt.Run(t, c05sGen, c05sRun) }

// ------------------------------------------------------------------ the real resource database

// TestVerifC05InitDB: "an acknowledged ADD is durable: the on-disk record reflects it".
// The other C05 tests open the database file with a copy of the (de)serializer that
// NetworkServiceBuilder.InitResourceDB installs (that function opens a constant path);
// this one goes through InitResourceDB itself: generated records are written through the
// store it builds, the store is closed and built again (a restart), and every record must
// read back exactly as it was written. The driver mounts a private tmpfs over the
// database directory of every shard.
type c05dRec struct {
	Pod   int    `json:"pod"`
	Addr  int    `json:"addr"`
	Cid   int    `json:"cid"`
	NoRes bool   `json:"no_res,omitempty"`
	Del   bool   `json:"del,omitempty"` // the record is deleted again before the restart
}

type c05dScenario struct {
	Recs     []c05dRec `json:"recs"`
	Restarts int       `json:"restarts"`
}

func c05dGen(t *rapid.T) c05dScenario {
	s := c05dScenario{Restarts: rapid.IntRange(1, 2).Draw(t, "restarts")}
	n := rapid.IntRange(1, 6).Draw(t, "n")
	for i := 0; i < n; i++ {
		s.Recs = append(s.Recs, c05dRec{
			Pod:   rapid.IntRange(0, 7).Draw(t, "pod"),
			Addr:  rapid.IntRange(1, 200).Draw(t, "addr"),
			Cid:   rapid.IntRange(0, 3).Draw(t, "cid"),
			NoRes: rapid.IntRange(0, 5).Draw(t, "nores") == 0,
			Del:   rapid.IntRange(0, 5).Draw(t, "del") == 0,
		})
	}
	return s
}

func c05dRun(c *vt.Ctx, s c05dScenario) {
	if _, err := os.Stat("/var/lib/cni/terway"); err != nil {
		c.Inconclusive("no private database directory: " + err.Error())
	}
	_ = os.Remove(resDBPath)
	open := func() *NetworkServiceBuilder {
		b := &NetworkServiceBuilder{service: &networkService{}}
		b.InitResourceDB()
		if b.err != nil {
			c.Fatalf("InitResourceDB: %v", b.err)
		}
		return b
	}
	b := open()
	want := map[string]string{}
	for _, r := range s.Recs {
		name := fmt.Sprintf("p%d", r.Pod)
		key := vsKey("ns", name)
		cid := fmt.Sprintf("cid-%d-%d", r.Pod, r.Cid)
		netns := "/proc/1/ns/net"
		rec := daemon.PodResources{
			PodInfo:     &daemon.PodInfo{Name: name, Namespace: "ns", PodUID: "uid-" + name, PodNetworkType: daemon.PodNetworkTypeENIMultiIP},
			ContainerID: &cid, NetNs: &netns, NetConf: fmt.Sprintf("[%d]", r.Addr),
		}
		if !r.NoRes {
			rec.Resources = []daemon.ResourceItem{{Type: daemon.ResourceTypeENIIP, ID: fmt.Sprintf("mac.10.0.0.%d", r.Addr), ENIID: "eni-1", ENIMAC: "mac", IPv4: fmt.Sprintf("10.0.0.%d", r.Addr)}}
		}
		if r.Del {
			_ = b.service.resourceDB.Delete(key)
			delete(want, key)
			continue
		}
		if err := b.service.resourceDB.Put(key, rec); err != nil {
			c.Fatalf("put %s: %v", key, err)
		}
		j, _ := json.Marshal(rec)
		want[key] = string(j)
	}
	if len(want) >= 2 {
		c.Label("several-records")
		c.NonTrivial()
	}
	for r := 0; r < s.Restarts; r++ {
		_ = storage.VerifClose(b.service.resourceDB)
		b = open()
		l, err := b.service.resourceDB.List()
		if err != nil {
			c.Fatalf("restart %d: list: %v", r, err)
		}
		got := map[string]string{}
		for _, o := range getPodResources(l) {
			if o.PodInfo == nil {
				c.Fatalf("restart %d: a record without pod info came back", r)
			}
			j, _ := json.Marshal(o)
			got[vsKey(o.PodInfo.Namespace, o.PodInfo.Name)] += string(j)
		}
		for k, w := range want {
			if got[k] != w {
				c.Fatalf("restart %d: the record of %s reads back as\n  %s\nbut was written (and acknowledged) as\n  %s", r, k, got[k], w)
			}
			o, err := b.service.resourceDB.Get(k)
			if err != nil {
				c.Fatalf("restart %d: Get(%s): %v", r, k, err)
			}
			if j, _ := json.Marshal(o); string(j) != w {
				c.Fatalf("restart %d: Get(%s) returns\n  %s\nbut the record was written as\n  %s", r, k, j, w)
			}
		}
		if len(got) != len(want) {
			c.Fatalf("restart %d: %d records come back, %d were stored", r, len(got), len(want))
		}
	}
	_ = storage.VerifClose(b.service.resourceDB)
	_ = os.Remove(resDBPath)
}

func TestVerifC05InitDB(t *testing.T) { vt.Run(t, c05dGen, c05dRun) }
