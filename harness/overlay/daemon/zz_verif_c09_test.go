package daemon

// C09 - vanished pods are garbage-collected on the node; existing pods never are.
// Generated (store, pod table) pairs: records are written into a real bolt store, the
// service is started from it (so the pool re-applies them), the pod table puts every pod
// into a class, and 1..3 GC passes are run - optionally while a request is parked
// mid-flight. The expected survivor set is computed from the classes alone.

import (
	"context"
	"encoding/json"
	"fmt"
	"net"
	"sort"
	"testing"
	"time"

	"github.com/vishvananda/netlink"
	"pgregory.net/rapid"

	"github.com/AliyunContainerService/terway/pkg/storage"
	"github.com/AliyunContainerService/terway/rpc"
	"github.com/AliyunContainerService/terway/types/daemon"
	"github.com/AliyunContainerService/terway/zz_verif/cloudsim"
	"github.com/AliyunContainerService/terway/zz_verif/vt"
)

// pod classes
const (
	c09Running   = "running"    // object exists, listed locally, sandbox alive      -> never touched
	c09Exited    = "exited"     // object exists, listed locally, sandbox exited     -> never touched (API says it exists)
	c09NotLocal  = "notlocal"   // missing from the local list, API says it exists   -> never touched
	c09APIFail   = "apifail"    // missing from the local list, API lookup fails     -> never touched
	c09Absent    = "absent"     // API confirms absence                               -> collected in pass 1
	c09AbsSticky = "abs-sticky" // absent, sticky IP                                  -> collected in pass 2
)

type c09Pod struct {
	Class  string `json:"class"`
	OnHost bool   `json:"on_host"` // record's interface is present on the host (else: no longer attached)
	Legacy bool   `json:"legacy,omitempty"`
	NoRes  bool   `json:"no_res,omitempty"` // record without resource items (pods served by a PodENI / the CRD path)
	// RelFail: the first attempt to release this (vanished) pod's address fails (a cleanup
	// step that cannot proceed); at most one pod per scenario
	RelFail bool `json:"rel_fail,omitempty"`
}

type c09Scenario struct {
	V6     bool     `json:"v6"`
	Pods   []c09Pod `json:"pods"`
	Passes int      `json:"passes"`
	Park   int      `json:"park"` // GC pass during which a request for a running pod is parked first (-1: none)
	Order  []int    `json:"order"`
	// Stale: before the first pass, GC is started and held at its store listing while the
	// DEL of a vanished pod and ADDs of fresh pods are issued; a pod that received the
	// vanished pod's address gets its policy rules installed; GC must not tear them down.
	Stale bool `json:"stale,omitempty"`
	// LookupRace: GC is held inside its API lookup for a vanished pod (the answer "absent"
	// is already determined); meanwhile the pod is re-created under the same name and its ADD
	// is issued. The ADD must either wait for GC or survive it: an acknowledged ADD keeps its
	// record and its address.
	LookupRace bool `json:"lookup_race,omitempty"`
}

func c09Gen(t *rapid.T) c09Scenario {
	s := c09Scenario{V6: rapid.IntRange(0, 2).Draw(t, "v6") == 0}
	n := rapid.IntRange(1, vt.Scale(8, 14)).Draw(t, "npods")
	classes := []string{c09Running, c09Running, c09Exited, c09NotLocal, c09APIFail, c09Absent, c09Absent, c09Absent, c09AbsSticky}
	for i := 0; i < n; i++ {
		p := c09Pod{Class: rapid.SampledFrom(classes).Draw(t, "class")}
		p.OnHost = rapid.IntRange(0, 2).Draw(t, "onhost") != 0
		p.Legacy = !s.V6 && rapid.IntRange(0, 5).Draw(t, "legacy") == 0
		p.NoRes = !p.Legacy && rapid.IntRange(0, 6).Draw(t, "nores") == 0
		s.Pods = append(s.Pods, p)
	}
	s.Passes = rapid.IntRange(1, 3).Draw(t, "passes")
	s.Park = rapid.IntRange(-1, s.Passes-1).Draw(t, "park")
	s.Order = rapid.Permutation(vtRange(n)).Draw(t, "order")
	s.Stale = rapid.IntRange(0, 3).Draw(t, "stale") == 0
	if !s.Stale {
		s.LookupRace = rapid.IntRange(0, 3).Draw(t, "lookuprace") == 0
	}
	if rapid.IntRange(0, 3).Draw(t, "relfail") == 0 {
		// one vanished, ordinary record whose release fails once
		for i := range s.Pods {
			p := &s.Pods[i]
			if (p.Class == c09Absent || p.Class == c09AbsSticky) && !p.Legacy && !p.NoRes {
				p.RelFail = true
				break
			}
		}
	}
	return s
}

func vtRange(n int) []int {
	out := make([]int, n)
	for i := range out {
		out[i] = i
	}
	return out
}

func c09Name(i int) string { return fmt.Sprintf("g%d", i) }

func c09Run(c *vt.Ctx, s c09Scenario) { c09RunOpt(c, s, false) }

func c09RunOpt(c *vt.Ctx, s c09Scenario, noGuard bool) {
	n := len(s.Pods)
	cloud := cloudsim.New()
	n6 := 0
	if s.V6 {
		n6 = n + 1
	}
	// interface 0 stands for an ENI that is present on the host: in the private network
	// namespace the only physical device is lo, whose hardware address prints as "".
	// interface 1 has an ordinary MAC that no host device carries (no longer attached).
	cloud.AddENIWithMAC("secondary", n+1, n6, "")
	cloud.AddENI("secondary", n+1, n6)
	snap := cloud.Snapshot()
	type eniAddrs struct {
		id, mac string
		v4, v6  []string
	}
	var enis []eniAddrs
	for _, id := range []string{"eni-1", "eni-2"} {
		e := snap[id]
		ea := eniAddrs{id: e.ID, mac: e.MAC}
		for _, a := range cloudsim.SortedAddrs(e.V4) {
			if a != e.Primary {
				ea.v4 = append(ea.v4, a.String())
			}
		}
		for _, a := range cloudsim.SortedAddrs(e.V6) {
			ea.v6 = append(ea.v6, a.String())
		}
		enis = append(enis, ea)
	}

	k := vsNewK8s()
	dir := vsScratchDir()
	dbPath := dir + "/pod.db"
	// 1. write the generated records into a real store
	db, err := vsOpenDB(dbPath)
	if err != nil {
		c.Fatalf("open db: %v", err)
	}
	addr := map[int][2]string{}
	for _, i := range s.Order {
		p := s.Pods[i]
		e := enis[1]
		if p.OnHost {
			e = enis[0]
		}
		v4 := e.v4[i]
		v6 := ""
		if s.V6 {
			v6 = e.v6[i]
		}
		addr[i] = [2]string{v4, v6}
		info := &daemon.PodInfo{Name: c09Name(i), Namespace: "ns", PodNetworkType: daemon.PodNetworkTypeENIMultiIP, PodUID: fmt.Sprintf("uid-%d", i)}
		if p.Class == c09AbsSticky {
			info.IPStickTime = 5 * time.Minute
		}
		item := daemon.ResourceItem{Type: daemon.ResourceTypeENIIP, IPv4: v4, IPv6: v6}
		if p.Legacy {
			// records written by old versions carry only type and "mac.ip" id
			item = daemon.ResourceItem{Type: daemon.ResourceTypeENIIP, ID: fmt.Sprintf("%s.%s", e.mac, v4)}
		} else {
			item.ID = fmt.Sprintf("%s.%s", e.mac, v4)
			item.ENIID = e.id
			item.ENIMAC = e.mac
		}
		nc := []*rpc.NetConf{{BasicInfo: &rpc.BasicInfo{PodIP: &rpc.IPSet{IPv4: v4, IPv6: v6}}, ENIInfo: &rpc.ENIInfo{MAC: e.mac}, DefaultRoute: true}}
		ncb, _ := json.Marshal(nc)
		cid := fmt.Sprintf("cid-%d", i)
		netns := "/proc/1/ns/net"
		rec := daemon.PodResources{PodInfo: info, Resources: []daemon.ResourceItem{item}, ContainerID: &cid, NetNs: &netns, NetConf: string(ncb)}
		if p.NoRes {
			info.PodENI = true
			rec.Resources = nil
		}
		if err := db.Put(vsKey("ns", c09Name(i)), rec); err != nil {
			c.Fatalf("put: %v", err)
		}
	}
	_ = storage.VerifClose(db)

	// 2. pod table
	for i, p := range s.Pods {
		info := &daemon.PodInfo{Name: c09Name(i), Namespace: "ns", PodNetworkType: daemon.PodNetworkTypeENIMultiIP, PodUID: fmt.Sprintf("uid-%d", i)}
		vp := &vsPod{info: info}
		switch p.Class {
		case c09Running:
			vp.exists, vp.local = true, true
		case c09Exited:
			vp.exists, vp.local = true, true
			info.SandboxExited = true
		case c09NotLocal:
			vp.exists, vp.local = true, false
		case c09APIFail:
			vp.exists, vp.local, vp.failAPI = false, false, true
		case c09Absent, c09AbsSticky:
			vp.exists = false
		}
		k.pods[vsKey("ns", c09Name(i))] = vp
		// GetPod falls back to the cached info for vanished pods, as the real client does
		ci := *info
		k.cached[vsKey("ns", c09Name(i))] = &ci
	}

	// 3. start the service from the store (the pool re-applies the bindings)
	cfg := vsPoolCfg{V6: s.V6, Cap: n + 2, Batch: 2, MaxIdle: 2 * (n + 2), PreENIs: []int{n + 1, n + 1}}
	delay := 0 // passes by which collection may be late because one cleanup step failed once
	for _, p := range s.Pods {
		if p.RelFail {
			cfg.FailRelease = true
			delay = 1
		}
	}
	w, err := vsStart(cfg, cloud, k, dir, dbPath)
	if err != nil {
		c.Fatalf("service start failed: %v", err)
	}
	defer w.cleanup()
	if !w.waitQuiescent(2 * time.Second) {
		c.Inconclusive("pool not quiescent after start")
	}
	gate := &c04Gate{}
	k.gate = func(key string) { gate.point("k8s:" + key) }
	if w.failNI != nil {
		for i, p := range s.Pods {
			if p.RelFail {
				w.failNI.failOnce[vsKey("ns", c09Name(i))] = true
				c.Label("release-fails-once")
			}
		}
	}

	recJSON := func(i int) string {
		r, ok := w.record(c09Name(i))
		if !ok {
			return ""
		}
		b, _ := json.Marshal(r)
		return string(b)
	}
	owned := func(i int) bool {
		for a, p := range w.owners() {
			if p == vsKey("ns", c09Name(i)) && (a == addr[i][0] || a == addr[i][1]) {
				return true
			}
		}
		return false
	}
	initial := map[int]string{}
	for i := range s.Pods {
		initial[i] = recJSON(i)
		if initial[i] == "" {
			c.Fatalf("record of %s lost at start", c09Name(i))
		}
		if !owned(i) && !s.Pods[i].Legacy && !s.Pods[i].NoRes {
			c.Fatalf("binding of %s not re-applied to the pool at start", c09Name(i))
		}
	}

	collectable, mustSurvive, blocked := 0, 0, 0
	for _, p := range s.Pods {
		switch p.Class {
		case c09Absent, c09AbsSticky:
			collectable++
			if !p.OnHost {
				blocked++
			}
		default:
			mustSurvive++
		}
	}
	c.Labelf("passes:%d", s.Passes)
	if collectable > 0 && mustSurvive > 0 {
		c.Label("mixed")
		c.NonTrivial()
	}
	if blocked > 0 && collectable > blocked {
		c.Label("missing-interface-with-collectable")
		c.NonTrivial()
	}
	if s.Park >= 0 {
		c.Label("gc-vs-request")
	}

	knownNoIface := !noGuard && vt.Known("C09-missing-interface-aborts-gc")
	knownLegacy := !noGuard && vt.Known("C09-legacy-record-not-released")
	hasNoIfaceAbsent := false
	for _, p := range s.Pods {
		if (p.Class == c09Absent || p.Class == c09AbsSticky) && !p.OnHost {
			hasNoIfaceAbsent = true
		}
	}
	if hasNoIfaceAbsent && knownNoIface {
		// listed finding: the whole GC pass aborts at such a record; the expected-collection
		// clauses cannot be judged, the never-touch clauses still are
		c.Label("known:C09-missing-interface-aborts-gc")
	}

	staleRan := false
	if s.Stale {
		staleRan = c09StaleStep(c, s, w, k, addr)
	} else if s.LookupRace {
		x, ran := c09LookupRaceStep(c, s, w, k, addr)
		// a full GC pass ran inside the step (it is pass 0) even when the ADD was refused
		staleRan = ran
		if x >= 0 {
			// x is a running pod with a fresh record from now on
			s.Pods = append([]c09Pod(nil), s.Pods...)
			s.Pods[x].Class = c09Running
			s.Pods[x].RelFail = false
			initial[x] = recJSON(x)
		}
	}

	var afterPass2 string
	passes := s.Passes
	if staleRan && passes < 3 {
		passes++ // the stale-snapshot step ran one full GC pass (it is pass 0)
	}
	for pass := 0; pass < passes; pass++ {
		c.Trace("--- gc pass %d", pass)
		if staleRan && pass == 0 {
			// already executed by the stale-snapshot step; only the expectations follow
		} else if pass == s.Park {
			// park a request (GET for a running pod if there is one, else for pod 0) inside the
			// service, start gcPods, and check that nothing moves until the request finishes
			target := 0
			for i, p := range s.Pods {
				if p.Class == c09Running {
					target = i
					break
				}
			}
			gate.arm(1)
			reqDone := make(chan struct{})
			go func() {
				_, _ = w.svc.GetIPInfo(context.Background(), vsGetReq(c09Name(target), fmt.Sprintf("cid-%d", target)))
				close(reqDone)
			}()
			select {
			case <-gate.parked:
			case <-reqDone:
			case <-time.After(2 * time.Second):
				c.Inconclusive("request did not park")
			}
			storeBefore, statusBefore := w.storeDump(), w.statusDump()
			gcDone := make(chan error, 1)
			go func() { gcDone <- w.svc.gcPods(context.Background()) }()
			select {
			case <-gcDone:
				select {
				case <-reqDone:
					// the request had already finished: no overlap happened
				default:
					close(gate.release)
					c.Fatalf("gcPods completed while a request was in flight inside the service")
				}
			case <-time.After(30 * time.Millisecond):
				if st, ss := w.storeDump(), w.statusDump(); st != storeBefore || ss != statusBefore {
					close(gate.release)
					c.Fatalf("GC changed state while a request was in flight:\nstore before %s\nstore after  %s\nstatus before %s\nstatus after  %s", storeBefore, st, statusBefore, ss)
				}
				close(gate.release)
				select {
				case <-gcDone:
				case <-time.After(3 * time.Second):
					c.Inconclusive("gcPods did not finish after the request was released")
				}
			}
			gate.disarm()
			<-reqDone
		} else {
			_ = w.svc.gcPods(context.Background())
		}

		for i, p := range s.Pods {
			name := c09Name(i)
			now := recJSON(i)
			switch p.Class {
			case c09Running, c09Exited, c09NotLocal, c09APIFail:
				if now != initial[i] {
					c.Fatalf("GC pass %d touched the record of %s (class %s):\nbefore %s\nafter  %s", pass, name, p.Class, initial[i], now)
				}
				if !owned(i) && !p.Legacy && !p.NoRes {
					c.Fatalf("GC pass %d released the address of %s (class %s)", pass, name, p.Class)
				}
			case c09Absent:
				if hasNoIfaceAbsent && knownNoIface {
					continue
				}
				if now == "" && owned(i) && !p.Legacy {
					c.Fatalf("GC pass %d removed the record of vanished pod %s but its address is still owned in the pool (release failed: %v)", pass, name, p.RelFail)
				}
				if pass < delay {
					continue // one cleanup step failed in this scenario: collection may take one more pass
				}
				if now != "" {
					c.Fatalf("GC pass %d did not collect the record of vanished pod %s (interface on host: %v, legacy: %v)", pass, name, p.OnHost, p.Legacy)
				}
				if owned(i) {
					if p.Legacy && knownLegacy {
						c.Label("known:C09-legacy-record-not-released")
					} else {
						c.Fatalf("GC pass %d removed the record of vanished pod %s but its address is still owned in the pool (legacy: %v)", pass, name, p.Legacy)
					}
				}
			case c09AbsSticky:
				if hasNoIfaceAbsent && knownNoIface {
					continue
				}
				if now == "" && owned(i) && !p.Legacy {
					c.Fatalf("GC pass %d removed the record of vanished sticky pod %s but its address is still owned in the pool (release failed: %v)", pass, name, p.RelFail)
				}
				if pass >= 1 && pass < 1+delay {
					continue
				}
				if pass == 0 {
					if now == "" {
						c.Fatalf("GC pass 0 collected sticky-IP pod %s without its extra period", name)
					}
					if !owned(i) && !p.Legacy && !p.NoRes {
						c.Fatalf("GC pass 0 released the address of sticky-IP pod %s", name)
					}
				} else {
					if now != "" {
						c.Fatalf("GC pass %d did not collect the record of vanished sticky-IP pod %s (interface on host: %v)", pass, name, p.OnHost)
					}
					if owned(i) {
						if p.Legacy && knownLegacy {
							c.Label("known:C09-legacy-record-not-released")
						} else {
							c.Fatalf("GC pass %d removed the record of vanished sticky pod %s but its address is still owned", pass, name)
						}
					}
				}
			}
		}
		if pass == 1 {
			afterPass2 = w.storeDump() + w.statusDump()
		}
		if pass == 2 {
			if now := w.storeDump() + w.statusDump(); now != afterPass2 && !(hasNoIfaceAbsent && knownNoIface) && delay == 0 {
				c.Fatalf("third GC pass is not idempotent:\nafter pass 2 %s\nafter pass 3 %s", afterPass2, now)
			}
		}
	}
	_ = sort.Strings
}

// c09StaleStep: GC must act on what is true when it holds the service lock, not on a
// snapshot taken earlier. GC is started and held at its store listing. Then the DEL of a
// vanished pod x (record on an interface that is present on the host) and ADDs of fresh
// pods are issued. On a correct daemon they simply wait for GC (it holds the service
// lock). If they do complete while GC is held, a fresh pod that received x's address gets
// its policy rules installed as the plugin would; GC must not tear them down.
func c09StaleStep(c *vt.Ctx, s c09Scenario, w *vsWorld, k *vsK8s, addr map[int][2]string) bool {
	x := -1
	for i, p := range s.Pods {
		if p.Class == c09Absent && p.OnHost && !p.Legacy && !p.NoRes {
			x = i
			break
		}
	}
	if x < 0 {
		return false
	}
	c.Label("stale-snapshot-step")
	g := &c04Gate{}
	g.arm(1)
	w.store.listHook = func() { g.point("store:list") }
	defer func() { w.store.listHook = nil }()
	gcDone := make(chan struct{})
	go func() { _ = w.svc.gcPods(context.Background()); close(gcDone) }()
	select {
	case <-g.parked:
	case <-gcDone:
		return true
	case <-time.After(2 * time.Second):
		c.Inconclusive("gc did not reach its store listing")
	}
	xv4 := addr[x][0]
	type out struct {
		del  bool
		gotX string
	}
	res := make(chan out, 1)
	delDone := make(chan struct{})
	go func() {
		o := out{}
		ctx, cancel := context.WithTimeout(context.Background(), 5*time.Second)
		defer cancel()
		_, err := w.svc.ReleaseIP(ctx, vsDelReq(c09Name(x), fmt.Sprintf("cid-%d", x)))
		close(delDone)
		if err == nil {
			o.del = true
			for f := 0; f < 2*len(s.Pods)+6 && o.gotX == ""; f++ {
				name := fmt.Sprintf("q%d", f)
				k.setPod(name, "uid-"+name, false)
				rep, err := w.svc.AllocIP(ctx, vsAddReq(name, "cid-"+name))
				if err != nil {
					break
				}
				if v4, _ := vsReplyAddrs(rep.NetConfs); v4 == xv4 {
					o.gotX = name
				}
			}
		}
		res <- o
	}()
	var o out
	early := false
	select {
	case <-delDone:
		// the DEL ran although GC is in progress: give the ADDs time to finish as well
		select {
		case o = <-res:
			early = true
		case <-time.After(4 * time.Second):
		}
	case <-time.After(100 * time.Millisecond):
	}
	var rules []*netlink.Rule
	if early && o.gotX != "" {
		// the requests ran while GC was held: install the policy rules of the pod that now
		// owns the address, as the plugin does on ADD
		_, ipn, _ := net.ParseCIDR(xv4 + "/32")
		r1 := netlink.NewRule()
		r1.Priority = 512
		r1.Dst = ipn
		r1.Table = 254
		r2 := netlink.NewRule()
		r2.Priority = 2048
		r2.Src = ipn
		r2.Table = 1001
		for _, r := range []*netlink.Rule{r1, r2} {
			if err := netlink.RuleAdd(r); err != nil {
				close(g.release)
				c.Inconclusive("cannot install ip rule: " + err.Error())
			}
			rules = append(rules, r)
		}
		c.Label("stale-snapshot:address-reused-while-gc-held")
	}
	close(g.release)
	select {
	case <-gcDone:
	case <-time.After(5 * time.Second):
		c.Inconclusive("gc did not finish")
	}
	if !early {
		select {
		case <-res:
		case <-time.After(5 * time.Second):
			c.Inconclusive("requests did not finish after gc")
		}
	}
	if len(rules) > 0 {
		have, _ := netlink.RuleList(netlink.FAMILY_V4)
		for _, want := range rules {
			found := false
			for _, h := range have {
				if h.Priority == want.Priority && ((want.Dst != nil && h.Dst != nil && h.Dst.String() == want.Dst.String()) || (want.Src != nil && h.Src != nil && h.Src.String() == want.Src.String())) {
					found = true
				}
			}
			_ = netlink.RuleDel(want)
			if !found {
				c.Fatalf("GC tore down the policy rule (priority %d) of running pod %s, which had been given address %s after the vanished pod %s was torn down (GC acted on a stale snapshot)", want.Priority, o.gotX, xv4, c09Name(x))
			}
		}
	}
	return true
}

// c09LookupRaceStep, see c09Scenario.LookupRace. Returns the index of the pod that was
// re-created and successfully ADDed, or -1, and whether a GC pass was executed.
func c09LookupRaceStep(c *vt.Ctx, s c09Scenario, w *vsWorld, k *vsK8s, addr map[int][2]string) (int, bool) {
	x := -1
	for i, p := range s.Pods {
		if p.Class == c09Absent && !p.Legacy && !p.NoRes && !p.RelFail {
			x = i
			break
		}
	}
	if x < 0 {
		return -1, false
	}
	c.Label("lookup-race-step")
	xkey := vsKey("ns", c09Name(x))
	g := &c04Gate{}
	g.arm(1)
	k.existGate = func(key string) {
		if key == xkey {
			g.point("k8s:exist:" + key)
		}
	}
	defer func() { k.existGate = nil }()
	gcDone := make(chan struct{})
	go func() { _ = w.svc.gcPods(context.Background()); close(gcDone) }()
	select {
	case <-g.parked:
	case <-gcDone:
		return -1, true // GC did not look the pod up (e.g. it aborted earlier); an ordinary pass
	case <-time.After(2 * time.Second):
		c.Inconclusive("gc did not reach the API lookup")
	}
	// the pod is re-created under the same name and the runtime ADDs its sandbox
	k.setPod(c09Name(x), fmt.Sprintf("uid-%d-b", x), false)
	newCid := fmt.Sprintf("cid-%d-b", x)
	type out struct {
		v4, v6 string
		err    error
	}
	addDone := make(chan out, 1)
	go func() {
		ctx, cancel := context.WithTimeout(context.Background(), 5*time.Second)
		defer cancel()
		rep, err := w.svc.AllocIP(ctx, vsAddReq(c09Name(x), newCid))
		o := out{err: err}
		if err == nil {
			o.v4, o.v6 = vsReplyAddrs(rep.NetConfs)
		}
		addDone <- o
	}()
	var o out
	early := false
	select {
	case o = <-addDone:
		early = true
		c.Label("lookup-race:add-completed-while-gc-held")
	case <-time.After(100 * time.Millisecond):
	}
	close(g.release)
	select {
	case <-gcDone:
	case <-time.After(5 * time.Second):
		c.Inconclusive("gc did not finish")
	}
	if !early {
		select {
		case o = <-addDone:
		case <-time.After(6 * time.Second):
			c.Inconclusive("ADD did not finish after gc")
		}
	}
	if o.err != nil {
		c.Label("lookup-race:add-refused")
		c.Trace("lookup-race: ADD for re-created pod refused: %v", o.err)
		return -1, true
	}
	rec, ok := w.record(c09Name(x))
	if !ok || rec.ContainerID == nil || *rec.ContainerID != newCid {
		c.Fatalf("ADD for re-created pod %s (sandbox %s, address %s) was acknowledged, but after the concurrent GC pass its record is gone or not its own (present=%v): GC acted on a pod with a request in flight", c09Name(x), newCid, o.v4, ok)
	}
	owners := w.owners()
	if owners[o.v4] != xkey {
		c.Fatalf("ADD for re-created pod %s was acknowledged with %s, but after the concurrent GC pass the pool shows owner %q for it", c09Name(x), o.v4, owners[o.v4])
	}
	addr[x] = [2]string{o.v4, o.v6}
	return x, true
}

func TestVerifC09GC(t *testing.T) { vt.Run(t, c09Gen, c09Run) }

// Witness of known finding C09-legacy-record-not-released.
func TestVerifC09KnownLegacy(t *testing.T) {
	s := c09Scenario{Pods: []c09Pod{{Class: c09Absent, OnHost: true, Legacy: true}}, Passes: 1, Park: -1, Order: []int{0}}
	vt.Witness(t, "C09", "C09-legacy-record-not-released",
		"GC removes the legacy-format record of a vanished pod but never releases its address in the pool (parseNetworkResource yields no interface id/address for legacy items)",
		s, func(c *vt.Ctx, s c09Scenario) { c09RunOpt(c, s, true) })
}
