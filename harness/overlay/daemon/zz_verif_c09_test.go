package daemon

// C09 - vanished pods are garbage-collected on the node; existing pods never are.
// Generated (store, pod table) pairs: records are written into a real bolt store, the
// service is started from it (so the pool re-applies them), the pod table puts every pod
// into a class, and 1..3 GC passes are run - optionally while a request is parked
// mid-flight. The expected survivor set is computed from the classes alone.

import (
	"context"
	"encoding/json"
	"fmt"
	"sort"
	"testing"
	"time"

	"pgregory.net/rapid"

	"github.com/AliyunContainerService/terway/pkg/storage"
	"github.com/AliyunContainerService/terway/rpc"
	"github.com/AliyunContainerService/terway/types/daemon"
	"github.com/AliyunContainerService/terway/zz_verif/cloudsim"
	"github.com/AliyunContainerService/terway/zz_verif/vt"
)

// pod classes
const (
	c09Running   = "running"    // object exists, listed locally, sandbox alive      -> never touched
	c09Exited    = "exited"     // object exists, listed locally, sandbox exited     -> never touched (API says it exists)
	c09NotLocal  = "notlocal"   // missing from the local list, API says it exists   -> never touched
	c09APIFail   = "apifail"    // missing from the local list, API lookup fails     -> never touched
	c09Absent    = "absent"     // API confirms absence                               -> collected in pass 1
	c09AbsSticky = "abs-sticky" // absent, sticky IP                                  -> collected in pass 2
)

type c09Pod struct {
	Class  string `json:"class"`
	OnHost bool   `json:"on_host"` // record's interface is present on the host (else: no longer attached)
	Legacy bool   `json:"legacy,omitempty"`
}

type c09Scenario struct {
	V6     bool     `json:"v6"`
	Pods   []c09Pod `json:"pods"`
	Passes int      `json:"passes"`
	Park   int      `json:"park"` // GC pass during which a request for a running pod is parked first (-1: none)
	Order  []int    `json:"order"`
}

func c09Gen(t *rapid.T) c09Scenario {
	s := c09Scenario{V6: rapid.IntRange(0, 2).Draw(t, "v6") == 0}
	n := rapid.IntRange(1, vt.Scale(8, 14)).Draw(t, "npods")
	classes := []string{c09Running, c09Running, c09Exited, c09NotLocal, c09APIFail, c09Absent, c09Absent, c09Absent, c09AbsSticky}
	for i := 0; i < n; i++ {
		p := c09Pod{Class: rapid.SampledFrom(classes).Draw(t, "class")}
		p.OnHost = rapid.IntRange(0, 2).Draw(t, "onhost") != 0
		p.Legacy = !s.V6 && rapid.IntRange(0, 5).Draw(t, "legacy") == 0
		s.Pods = append(s.Pods, p)
	}
	s.Passes = rapid.IntRange(1, 3).Draw(t, "passes")
	s.Park = rapid.IntRange(-1, s.Passes-1).Draw(t, "park")
	s.Order = rapid.Permutation(vtRange(n)).Draw(t, "order")
	return s
}

func vtRange(n int) []int {
	out := make([]int, n)
	for i := range out {
		out[i] = i
	}
	return out
}

func c09Name(i int) string { return fmt.Sprintf("g%d", i) }

func c09Run(c *vt.Ctx, s c09Scenario) { c09RunOpt(c, s, false) }

func c09RunOpt(c *vt.Ctx, s c09Scenario, noGuard bool) {
	n := len(s.Pods)
	cloud := cloudsim.New()
	n6 := 0
	if s.V6 {
		n6 = n + 1
	}
	// interface 0 stands for an ENI that is present on the host: in the private network
	// namespace the only physical device is lo, whose hardware address prints as "".
	// interface 1 has an ordinary MAC that no host device carries (no longer attached).
	cloud.AddENIWithMAC("secondary", n+1, n6, "")
	cloud.AddENI("secondary", n+1, n6)
	snap := cloud.Snapshot()
	type eniAddrs struct {
		id, mac string
		v4, v6  []string
	}
	var enis []eniAddrs
	for _, id := range []string{"eni-1", "eni-2"} {
		e := snap[id]
		ea := eniAddrs{id: e.ID, mac: e.MAC}
		for _, a := range cloudsim.SortedAddrs(e.V4) {
			if a != e.Primary {
				ea.v4 = append(ea.v4, a.String())
			}
		}
		for _, a := range cloudsim.SortedAddrs(e.V6) {
			ea.v6 = append(ea.v6, a.String())
		}
		enis = append(enis, ea)
	}

	k := vsNewK8s()
	dir := vsScratchDir()
	dbPath := dir + "/pod.db"
	// 1. write the generated records into a real store
	db, err := vsOpenDB(dbPath)
	if err != nil {
		c.Fatalf("open db: %v", err)
	}
	addr := map[int][2]string{}
	for _, i := range s.Order {
		p := s.Pods[i]
		e := enis[1]
		if p.OnHost {
			e = enis[0]
		}
		v4 := e.v4[i]
		v6 := ""
		if s.V6 {
			v6 = e.v6[i]
		}
		addr[i] = [2]string{v4, v6}
		info := &daemon.PodInfo{Name: c09Name(i), Namespace: "ns", PodNetworkType: daemon.PodNetworkTypeENIMultiIP, PodUID: fmt.Sprintf("uid-%d", i)}
		if p.Class == c09AbsSticky {
			info.IPStickTime = 5 * time.Minute
		}
		item := daemon.ResourceItem{Type: daemon.ResourceTypeENIIP, IPv4: v4, IPv6: v6}
		if p.Legacy {
			// records written by old versions carry only type and "mac.ip" id
			item = daemon.ResourceItem{Type: daemon.ResourceTypeENIIP, ID: fmt.Sprintf("%s.%s", e.mac, v4)}
		} else {
			item.ID = fmt.Sprintf("%s.%s", e.mac, v4)
			item.ENIID = e.id
			item.ENIMAC = e.mac
		}
		nc := []*rpc.NetConf{{BasicInfo: &rpc.BasicInfo{PodIP: &rpc.IPSet{IPv4: v4, IPv6: v6}}, ENIInfo: &rpc.ENIInfo{MAC: e.mac}, DefaultRoute: true}}
		ncb, _ := json.Marshal(nc)
		cid := fmt.Sprintf("cid-%d", i)
		netns := "/proc/1/ns/net"
		rec := daemon.PodResources{PodInfo: info, Resources: []daemon.ResourceItem{item}, ContainerID: &cid, NetNs: &netns, NetConf: string(ncb)}
		if err := db.Put(vsKey("ns", c09Name(i)), rec); err != nil {
			c.Fatalf("put: %v", err)
		}
	}
	_ = storage.VerifClose(db)

	// 2. pod table
	for i, p := range s.Pods {
		info := &daemon.PodInfo{Name: c09Name(i), Namespace: "ns", PodNetworkType: daemon.PodNetworkTypeENIMultiIP, PodUID: fmt.Sprintf("uid-%d", i)}
		vp := &vsPod{info: info}
		switch p.Class {
		case c09Running:
			vp.exists, vp.local = true, true
		case c09Exited:
			vp.exists, vp.local = true, true
			info.SandboxExited = true
		case c09NotLocal:
			vp.exists, vp.local = true, false
		case c09APIFail:
			vp.exists, vp.local, vp.failAPI = false, false, true
		case c09Absent, c09AbsSticky:
			vp.exists = false
		}
		k.pods[vsKey("ns", c09Name(i))] = vp
		// GetPod falls back to the cached info for vanished pods, as the real client does
		ci := *info
		k.cached[vsKey("ns", c09Name(i))] = &ci
	}

	// 3. start the service from the store (the pool re-applies the bindings)
	cfg := vsPoolCfg{V6: s.V6, Cap: n + 2, Batch: 2, MaxIdle: 2 * (n + 2), PreENIs: []int{n + 1, n + 1}}
	w, err := vsStart(cfg, cloud, k, dir, dbPath)
	if err != nil {
		c.Fatalf("service start failed: %v", err)
	}
	defer w.cleanup()
	if !w.waitQuiescent(2 * time.Second) {
		c.Inconclusive("pool not quiescent after start")
	}
	gate := &c04Gate{}
	k.gate = func(key string) { gate.point("k8s:" + key) }

	recJSON := func(i int) string {
		r, ok := w.record(c09Name(i))
		if !ok {
			return ""
		}
		b, _ := json.Marshal(r)
		return string(b)
	}
	owned := func(i int) bool {
		for a, p := range w.owners() {
			if p == vsKey("ns", c09Name(i)) && (a == addr[i][0] || a == addr[i][1]) {
				return true
			}
		}
		return false
	}
	initial := map[int]string{}
	for i := range s.Pods {
		initial[i] = recJSON(i)
		if initial[i] == "" {
			c.Fatalf("record of %s lost at start", c09Name(i))
		}
		if !owned(i) && !s.Pods[i].Legacy {
			c.Fatalf("binding of %s not re-applied to the pool at start", c09Name(i))
		}
	}

	collectable, mustSurvive, blocked := 0, 0, 0
	for _, p := range s.Pods {
		switch p.Class {
		case c09Absent, c09AbsSticky:
			collectable++
			if !p.OnHost {
				blocked++
			}
		default:
			mustSurvive++
		}
	}
	c.Labelf("passes:%d", s.Passes)
	if collectable > 0 && mustSurvive > 0 {
		c.Label("mixed")
		c.NonTrivial()
	}
	if blocked > 0 && collectable > blocked {
		c.Label("missing-interface-with-collectable")
		c.NonTrivial()
	}
	if s.Park >= 0 {
		c.Label("gc-vs-request")
	}

	knownNoIface := !noGuard && vt.Known("C09-missing-interface-aborts-gc")
	knownLegacy := !noGuard && vt.Known("C09-legacy-record-not-released")
	hasNoIfaceAbsent := false
	for _, p := range s.Pods {
		if (p.Class == c09Absent || p.Class == c09AbsSticky) && !p.OnHost {
			hasNoIfaceAbsent = true
		}
	}
	if hasNoIfaceAbsent && knownNoIface {
		// listed finding: the whole GC pass aborts at such a record; the expected-collection
		// clauses cannot be judged, the never-touch clauses still are
		c.Label("known:C09-missing-interface-aborts-gc")
	}

	var afterPass2 string
	for pass := 0; pass < s.Passes; pass++ {
		c.Trace("--- gc pass %d", pass)
		if pass == s.Park {
			// park a request (GET for a running pod if there is one, else for pod 0) inside the
			// service, start gcPods, and check that nothing moves until the request finishes
			target := 0
			for i, p := range s.Pods {
				if p.Class == c09Running {
					target = i
					break
				}
			}
			gate.arm(1)
			reqDone := make(chan struct{})
			go func() {
				_, _ = w.svc.GetIPInfo(context.Background(), vsGetReq(c09Name(target), fmt.Sprintf("cid-%d", target)))
				close(reqDone)
			}()
			select {
			case <-gate.parked:
			case <-reqDone:
			case <-time.After(2 * time.Second):
				c.Inconclusive("request did not park")
			}
			storeBefore, statusBefore := w.storeDump(), w.statusDump()
			gcDone := make(chan error, 1)
			go func() { gcDone <- w.svc.gcPods(context.Background()) }()
			select {
			case <-gcDone:
				select {
				case <-reqDone:
					// the request had already finished: no overlap happened
				default:
					close(gate.release)
					c.Fatalf("gcPods completed while a request was in flight inside the service")
				}
			case <-time.After(30 * time.Millisecond):
				if st, ss := w.storeDump(), w.statusDump(); st != storeBefore || ss != statusBefore {
					close(gate.release)
					c.Fatalf("GC changed state while a request was in flight:\nstore before %s\nstore after  %s\nstatus before %s\nstatus after  %s", storeBefore, st, statusBefore, ss)
				}
				close(gate.release)
				select {
				case <-gcDone:
				case <-time.After(3 * time.Second):
					c.Inconclusive("gcPods did not finish after the request was released")
				}
			}
			gate.disarm()
			<-reqDone
		} else {
			_ = w.svc.gcPods(context.Background())
		}

		for i, p := range s.Pods {
			name := c09Name(i)
			now := recJSON(i)
			switch p.Class {
			case c09Running, c09Exited, c09NotLocal, c09APIFail:
				if now != initial[i] {
					c.Fatalf("GC pass %d touched the record of %s (class %s):\nbefore %s\nafter  %s", pass, name, p.Class, initial[i], now)
				}
				if !owned(i) && !p.Legacy {
					c.Fatalf("GC pass %d released the address of %s (class %s)", pass, name, p.Class)
				}
			case c09Absent:
				if hasNoIfaceAbsent && knownNoIface {
					continue
				}
				if now != "" {
					c.Fatalf("GC pass %d did not collect the record of vanished pod %s (interface on host: %v, legacy: %v)", pass, name, p.OnHost, p.Legacy)
				}
				if owned(i) {
					if p.Legacy && knownLegacy {
						c.Label("known:C09-legacy-record-not-released")
					} else {
						c.Fatalf("GC pass %d removed the record of vanished pod %s but its address is still owned in the pool (legacy: %v)", pass, name, p.Legacy)
					}
				}
			case c09AbsSticky:
				if hasNoIfaceAbsent && knownNoIface {
					continue
				}
				if pass == 0 {
					if now == "" {
						c.Fatalf("GC pass 0 collected sticky-IP pod %s without its extra period", name)
					}
					if !owned(i) && !p.Legacy {
						c.Fatalf("GC pass 0 released the address of sticky-IP pod %s", name)
					}
				} else {
					if now != "" {
						c.Fatalf("GC pass %d did not collect the record of vanished sticky-IP pod %s (interface on host: %v)", pass, name, p.OnHost)
					}
					if owned(i) {
						if p.Legacy && knownLegacy {
							c.Label("known:C09-legacy-record-not-released")
						} else {
							c.Fatalf("GC pass %d removed the record of vanished sticky pod %s but its address is still owned", pass, name)
						}
					}
				}
			}
		}
		if pass == 1 {
			afterPass2 = w.storeDump() + w.statusDump()
		}
		if pass == 2 {
			if now := w.storeDump() + w.statusDump(); now != afterPass2 && !(hasNoIfaceAbsent && knownNoIface) {
				c.Fatalf("third GC pass is not idempotent:\nafter pass 2 %s\nafter pass 3 %s", afterPass2, now)
			}
		}
	}
	_ = sort.Strings
}

func TestVerifC09GC(t *testing.T) { vt.Run(t, c09Gen, c09Run) }

// Witness of known finding C09-legacy-record-not-released.
func TestVerifC09KnownLegacy(t *testing.T) {
	s := c09Scenario{Pods: []c09Pod{{Class: c09Absent, OnHost: true, Legacy: true}}, Passes: 1, Park: -1, Order: []int{0}}
	vt.Witness(t, "C09", "C09-legacy-record-not-released",
		"GC removes the legacy-format record of a vanished pod but never releases its address in the pool (parseNetworkResource yields no interface id/address for legacy items)",
		s, func(c *vt.Ctx, s c09Scenario) { c09RunOpt(c, s, true) })
}
