//go:build linux

package daemon

// C15 — the daemon never panics on its configuration or on the records of its resource
// database: getENIConfig / getPoolConfig on eni_conf content; getPodResources,
// filterENINotFound, parseNetworkResource, ruleSync, gcPods, ReleaseIP and GetIPInfo on
// stored PodResources records. The records are decoded the way InitResourceDB's
// deserialiser does (json.Unmarshal into daemon.PodResources).
//
// The unit runs in a private network namespace (unit option unshare) because gcPods and
// ruleSync talk netlink.

import (
	"context"
	"encoding/json"
	"fmt"
	"runtime"
	"testing"

	"github.com/vishvananda/netlink"
	"github.com/vishvananda/netns"

	corev1 "k8s.io/api/core/v1"
	k8sErr "k8s.io/apimachinery/pkg/api/errors"
	"k8s.io/apimachinery/pkg/runtime/schema"
	"sigs.k8s.io/controller-runtime/pkg/client"
	"sigs.k8s.io/controller-runtime/pkg/client/fake"

	aliclient "github.com/AliyunContainerService/terway/pkg/aliyun/client"
	"github.com/AliyunContainerService/terway/pkg/eni"
	"github.com/AliyunContainerService/terway/pkg/link"
	"github.com/AliyunContainerService/terway/pkg/storage"
	"github.com/AliyunContainerService/terway/pkg/utils"
	"github.com/AliyunContainerService/terway/rpc"
	"github.com/AliyunContainerService/terway/types"
	"github.com/AliyunContainerService/terway/types/daemon"
	g "github.com/AliyunContainerService/terway/zz_verif/c15gen"
	"github.com/AliyunContainerService/terway/zz_verif/vt"
	"pgregory.net/rapid"
)

// ---------------------------------------------------------------------------------
// configuration -> pool / ENI configuration

type vfC15PoolScenario struct {
	Kind    string  `json:"kind"`
	ENIConf g.Bytes `json:"eni_conf"`
	Mode    int     `json:"mode"`
	Zone    string  `json:"zone"`
	Limits  [6]int  `json:"limits"` // Adapters, TotalAdapters, IPv4PerAdapter, IPv6PerAdapter, MemberAdapterLimit, ERdmaAdapters
}

func vfC15GenPool(t *rapid.T) vfC15PoolScenario {
	s := vfC15PoolScenario{Kind: g.Kind(t)}
	s.ENIConf = g.JSONField(t, s.Kind, g.ENIConf, g.ENIConfHostile)
	s.Mode = rapid.IntRange(0, 1).Draw(t, "mode")
	s.Zone = rapid.SampledFrom([]string{"cn-hangzhou-a", "cn-hangzhou-b", "", "z"}).Draw(t, "zone")
	for i := range s.Limits {
		s.Limits[i] = rapid.SampledFrom([]int{0, 1, 2, 3, 8, 10, 20}).Draw(t, "limit")
	}
	return s
}

func vfC15RunPool(c *vt.Ctx, s vfC15PoolScenario) {
	c.Label("kind:" + s.Kind)
	cfg, err := daemon.MergeConfigAndUnmarshal(nil, s.ENIConf)
	if err != nil {
		if json.Valid(s.ENIConf) {
			c.Label("depth1-json-wrong-shape")
		} else {
			c.Label("depth0-not-json")
		}
		return
	}
	c.NonTrivial()
	cfg.Populate()
	if err := cfg.Validate(); err != nil {
		c.Label("depth2-invalid")
		return
	}
	c.Label("depth3-validated")
	mode := daemon.ModeENIMultiIP
	if s.Mode == 1 {
		mode = daemon.ModeENIOnly
	}
	limits := &aliclient.Limits{Adapters: s.Limits[0], TotalAdapters: s.Limits[1], IPv4PerAdapter: s.Limits[2],
		IPv6PerAdapter: s.Limits[3], MemberAdapterLimit: s.Limits[4], ERdmaAdapters: s.Limits[5]}
	ec := getENIConfig(cfg, s.Zone)
	if ec == nil {
		c.Fatalf("getENIConfig returned nil")
	}
	pc, err := getPoolConfig(cfg, mode, limits)
	if err == nil && pc == nil {
		c.Fatalf("getPoolConfig returned nil, nil")
	}
}

func TestVerifC15PoolConfig(t *testing.T) { vt.Run(t, vfC15GenPool, g.NoPanic(vfC15RunPool)) }

// ---------------------------------------------------------------------------------
// stored records

type vfC15RecScenario struct {
	Kind     string    `json:"kind"`
	Records  []g.Bytes `json:"records"`
	Live     []bool    `json:"live"`     // record i's pod is still on the node
	Attached []string  `json:"attached"` // ids of the ENIs currently attached
	Mode     int       `json:"mode"`
	CRD      bool      `json:"crd"`
}

func vfC15GenRec(t *rapid.T) vfC15RecScenario {
	s := vfC15RecScenario{Kind: g.Kind(t)}
	n := rapid.IntRange(1, 3).Draw(t, "n")
	mut := rapid.IntRange(0, n-1).Draw(t, "mut")
	for i := 0; i < n; i++ {
		k := s.Kind
		if k == g.KindMutated && i != mut {
			k = g.KindValid
		}
		s.Records = append(s.Records, g.JSONField(t, k, g.PodResources, g.PodResourcesHostile))
		s.Live = append(s.Live, rapid.Bool().Draw(t, "live"))
	}
	s.Attached = rapid.SliceOfNDistinct(rapid.SampledFrom([]string{g.RecENIID, "eni-2", "eni-gone"}), 0, 3, rapid.ID[string]).Draw(t, "attached")
	s.Mode = rapid.IntRange(0, 1).Draw(t, "mode")
	s.CRD = rapid.Bool().Draw(t, "crd")
	return s
}

// vfC15K8s is a minimal k8s.Kubernetes for the daemon.
type vfC15K8s struct {
	pods   map[string]*daemon.PodInfo
	client client.Client
}

func (k *vfC15K8s) GetLocalPods() ([]*daemon.PodInfo, error) {
	var out []*daemon.PodInfo
	keys := make([]string, 0, len(k.pods))
	for key := range k.pods {
		keys = append(keys, key)
	}
	for i := 1; i < len(keys); i++ {
		for j := i; j > 0 && keys[j] < keys[j-1]; j-- {
			keys[j], keys[j-1] = keys[j-1], keys[j]
		}
	}
	for _, key := range keys {
		out = append(out, k.pods[key])
	}
	return out, nil
}
func (k *vfC15K8s) GetPod(ctx context.Context, namespace, name string, cache bool) (*daemon.PodInfo, error) {
	if p, ok := k.pods[utils.PodInfoKey(namespace, name)]; ok {
		return p, nil
	}
	return nil, k8sErr.NewNotFound(schema.GroupResource{Resource: "pods"}, name)
}
func (k *vfC15K8s) PodExist(namespace, name string) (bool, error) {
	_, ok := k.pods[utils.PodInfoKey(namespace, name)]
	return ok, nil
}
func (k *vfC15K8s) GetServiceCIDR() *types.IPNetSet                   { return &types.IPNetSet{} }
func (k *vfC15K8s) SetNodeAllocatablePod(count int) error             { return nil }
func (k *vfC15K8s) PatchNodeAnnotations(map[string]string) error      { return nil }
func (k *vfC15K8s) PatchPodIPInfo(*daemon.PodInfo, string) error      { return nil }
func (k *vfC15K8s) RecordNodeEvent(eventType, reason, message string) {}
func (k *vfC15K8s) PatchNodeIPResCondition(corev1.ConditionStatus, string, string) error {
	return nil
}
func (k *vfC15K8s) RecordPodEvent(podName, podNamespace, eventType, reason, message string) error {
	return nil
}
func (k *vfC15K8s) GetNodeDynamicConfigLabel() string { return "" }
func (k *vfC15K8s) GetDynamicConfigWithName(context.Context, string) (string, error) {
	return "", nil
}
func (k *vfC15K8s) SetCustomStatefulWorkloadKinds([]string) error { return nil }
func (k *vfC15K8s) GetTrunkID() string                            { return "" }
func (k *vfC15K8s) GetClient() client.Client                      { return k.client }
func (k *vfC15K8s) NodeName() string                              { return "node-1" }
func (k *vfC15K8s) Node() *corev1.Node                            { return &corev1.Node{} }

const (
	vfC15NilPodInfo = "C15-record-nil-podinfo"
	vfC15NilNetConf = "C15-record-null-netconf"
	vfC15NoGateway  = "C15-record-netconf-no-gateway"
)

func vfC15RunRec(c *vt.Ctx, s vfC15RecScenario) {
	c.Label("kind:" + s.Kind)
	mode := daemon.ModeENIMultiIP
	if s.Mode == 1 {
		mode = daemon.ModeENIOnly
	}
	db := storage.NewMemoryStorage()
	k := &vfC15K8s{pods: map[string]*daemon.PodInfo{}}
	if s.CRD {
		// cleanRuntimeNode reads the NodeRuntime object in CRD mode (absent here: an error, logged)
		k.client = fake.NewClientBuilder().WithScheme(types.Scheme).Build()
	}
	for i, r := range s.Records {
		rec := &daemon.PodResources{}
		if err := json.Unmarshal(r, rec); err != nil {
			// the deserialiser's error aborts NewDiskStorage: the daemon refuses to start
			if json.Valid(r) {
				c.Label("depth1-json-wrong-shape")
			} else {
				c.Label("depth0-not-json")
			}
			return
		}
		key := fmt.Sprintf("rec/%d", i)
		if rec.PodInfo != nil {
			key = utils.PodInfoKey(rec.PodInfo.Namespace, rec.PodInfo.Name)
			if s.Live[i] {
				k.pods[key] = rec.PodInfo
			}
		} else {
			c.Label("class:nil-podinfo")
			if vt.Known(vfC15NilPodInfo) {
				c.Label("known:" + vfC15NilPodInfo)
				return
			}
		}
		var ncs []*rpc.NetConf
		if json.Unmarshal([]byte(rec.NetConf), &ncs) == nil {
			for _, nc := range ncs {
				if nc == nil {
					c.Label("class:null-netconf-entry")
					if vt.Known(vfC15NilNetConf) {
						c.Label("known:" + vfC15NilNetConf)
						return
					}
				}
			}
		}
		_ = db.Put(key, *rec)
	}
	c.NonTrivial()
	c.Label("depth2-records-loaded")

	// start-up path (builder.go): list, filter by attached ENIs
	objs, _ := db.List()
	attached := map[string]*daemon.ENI{}
	for _, id := range s.Attached {
		attached[id] = &daemon.ENI{ID: id, MAC: g.RecENIMAC}
	}
	list := getPodResources(objs)
	// filterENINotFound edits the slices in place; give it copies so that the database
	// content used below is not aliased (the daemon calls it on the freshly loaded list)
	cp := make([]daemon.PodResources, len(list))
	for i := range list {
		cp[i] = list[i]
		cp[i].Resources = append([]daemon.ResourceItem(nil), list[i].Resources...)
	}
	for _, pr := range filterENINotFound(cp, attached) {
		for _, item := range pr.Resources {
			if res := parseNetworkResource(item); res != nil {
				_ = res.ResourceType()
				_ = res.ToRPC()
				_ = res.ToStore()
			}
			req := &eni.LocalIPRequest{}
			setRequest(req, item)
		}
		_ = pr.GetResourceItemByType(daemon.ResourceTypeENIIP)
	}

	ctx := context.Background()
	for _, pr := range list {
		if err := ruleSync(ctx, pr); err != nil {
			c.Label("ruleSync:error")
		}
	}

	ipam := types.IPAMType(types.IPAMTypeDefault)
	if s.CRD {
		ipam = types.IPAMTypeCRD
	}
	svc := &networkService{daemonMode: mode, k8s: k, resourceDB: db, ipamType: ipam, enableIPv4: true,
		eniMgr: eni.NewManager(0, 0, 0, 0, nil, daemon.EniSelectionPolicyMostIPs, nil)}

	// RPCs that read the stored record of a live pod
	for key, p := range k.pods {
		_ = key
		if _, err := svc.GetIPInfo(ctx, &rpc.GetInfoRequest{K8SPodName: p.Name, K8SPodNamespace: p.Namespace, K8SPodInfraContainerId: "abc"}); err == nil {
			c.Label("GetIPInfo:ok")
		}
	}
	if err := svc.gcPods(ctx); err != nil {
		c.Label("gcPods:error")
	} else {
		c.Label("depth3-gc-completed")
	}
	for _, p := range k.pods {
		if _, err := svc.ReleaseIP(ctx, &rpc.ReleaseIPRequest{K8SPodName: p.Name, K8SPodNamespace: p.Namespace, K8SPodInfraContainerId: "abc"}); err == nil {
			c.Label("ReleaseIP:ok")
		}
	}
	_ = svc.gcPods(ctx)
}

func TestVerifC15StoredRecords(t *testing.T) { vt.Run(t, vfC15GenRec, g.NoPanic(vfC15RunRec)) }

// ---------------------------------------------------------------------------------
// ruleSync behind its link look-ups: the case runs in a fresh network namespace that
// holds the pod's host-side veth, and the stored NetConf names the loopback device's MAC
// as the ENI, so that ruleSync gets to the point where it uses the stored addresses.

type vfC15RuleScenario struct {
	Kind    string  `json:"kind"`
	NetConf g.Bytes `json:"net_conf"` // PodResources.NetConf
	PodName string  `json:"pod_name"`
	PodNS   string  `json:"pod_ns"`
	VethIf  string  `json:"veth_if"` // interface name the host veth was created for
}

func vfC15GenRule(t *rapid.T) vfC15RuleScenario {
	s := vfC15RuleScenario{Kind: g.Kind(t)}
	s.PodName, s.PodNS = g.Name(t), g.Name(t)
	s.VethIf = rapid.SampledFrom([]string{"eth0", "eth0", "eth0", "eth1"}).Draw(t, "vethif")
	s.NetConf = g.JSONField(t, s.Kind, func(t *rapid.T) []byte { return []byte(g.NetConfJSONFor(t, true)) },
		[]string{`[null]`, `[{}]`, `[{"BasicInfo":{"PodIP":{}},"ENIInfo":{"MAC":""}}]`,
			`[{"BasicInfo":{"PodIP":{"IPv4":"x"}},"ENIInfo":{"MAC":""}}]`,
			`[{"BasicInfo":{"PodIP":{"IPv4":"10.0.0.2"},"GatewayIP":{}},"ENIInfo":{"MAC":"","Trunk":true}}]`,
			`[{"BasicInfo":{"PodIP":{"IPv4":"10.0.0.2"},"GatewayIP":{"IPv4":"x"}},"ENIInfo":{"MAC":"","Trunk":true,"GatewayIP":{"IPv4":""}}}]`})
	return s
}

func vfC15RunRule(c *vt.Ctx, s vfC15RuleScenario) {
	c.Label("kind:" + s.Kind)
	var ncs []*rpc.NetConf
	if err := json.Unmarshal(s.NetConf, &ncs); err != nil {
		c.Label("depth0-netconf-not-decodable")
	} else {
		c.NonTrivial()
		for _, nc := range ncs {
			if nc == nil {
				c.Label("class:null-netconf-entry")
				if vt.Known(vfC15NilNetConf) {
					c.Label("known:" + vfC15NilNetConf)
					return
				}
				continue
			}
			if nc.BasicInfo != nil && nc.ENIInfo != nil && nc.BasicInfo.PodIP != nil && nc.BasicInfo.GatewayIP == nil {
				c.Label("class:no-gateway")
				if vt.Known(vfC15NoGateway) {
					c.Label("known:" + vfC15NoGateway)
					return
				}
			}
		}
	}
	rec := daemon.PodResources{PodInfo: &daemon.PodInfo{Name: s.PodName, Namespace: s.PodNS, PodNetworkType: daemon.PodNetworkTypeENIMultiIP},
		NetConf: string(s.NetConf)}

	var err error
	if why := vfC15InVethNetns(s.PodName, s.PodNS, s.VethIf, func() {
		before, _ := netlink.RuleList(netlink.FAMILY_ALL)
		err = ruleSync(context.Background(), rec)
		after, _ := netlink.RuleList(netlink.FAMILY_ALL)
		switch {
		case len(after) > len(before):
			c.Label("depth3-rules-programmed")
		case err != nil:
			c.Label("depth2-route-programming-failed")
		default:
			c.Label("depth1-nothing-to-sync")
		}
	}); why != "" {
		c.Inconclusive(why)
	}
}

// vfC15InVethNetns runs fn on a locked thread inside a fresh network namespace that holds
// the host-side veth of the given pod interface (and loopback, up). It returns a reason
// when the namespace could not be prepared; a panic in fn propagates after the thread
// has been moved back.
func vfC15InVethNetns(podName, podNS, ifName string, fn func()) (why string) {
	runtime.LockOSThread()
	defer runtime.UnlockOSThread()
	orig, err := netns.Get()
	if err != nil {
		return "netns get"
	}
	defer orig.Close()
	fresh, err := netns.New() // also switches this thread into it
	if err != nil {
		return "netns new"
	}
	defer func() {
		_ = netns.Set(orig)
		_ = fresh.Close()
	}()
	if lo, err := netlink.LinkByName("lo"); err == nil {
		_ = netlink.LinkSetUp(lo)
	}
	vethName, _ := link.VethNameForPod(podName, podNS, ifName, "cali")
	la := netlink.NewLinkAttrs()
	la.Name = vethName
	if err := netlink.LinkAdd(&netlink.Veth{LinkAttrs: la, PeerName: "vfc15peer"}); err != nil {
		return "veth add"
	}
	if v, err := netlink.LinkByName(vethName); err == nil {
		_ = netlink.LinkSetUp(v)
	}
	fn()
	return ""
}

// Deterministic witnesses of the stored-record findings, printed only while listed open.
func vfC15Panics(fn func()) (p bool) {
	defer func() {
		if recover() != nil {
			p = true
		}
	}()
	fn()
	return false
}

func TestVerifC15KnownWitnessStoredRecords(t *testing.T) {
	ctx := context.Background()
	if vt.Known(vfC15NilPodInfo) {
		db := storage.NewMemoryStorage()
		_ = db.Put("x", daemon.PodResources{})
		svc := &networkService{daemonMode: daemon.ModeENIMultiIP, k8s: &vfC15K8s{pods: map[string]*daemon.PodInfo{}}, resourceDB: db,
			eniMgr: eni.NewManager(0, 0, 0, 0, nil, daemon.EniSelectionPolicyMostIPs, nil)}
		if vfC15Panics(func() { _ = svc.gcPods(ctx) }) {
			vt.KnownFindingLine("C15", "a resource-database record without PodInfo (e.g. `{}`) makes networkService.gcPods and eni.Local.load dereference nil (gcPods even tests PodInfo != nil two lines earlier)")
		}
	}
	if vt.Known(vfC15NilNetConf) {
		rec := daemon.PodResources{PodInfo: &daemon.PodInfo{Name: "p", Namespace: "ns", PodNetworkType: daemon.PodNetworkTypeENIMultiIP}, NetConf: "[null]"}
		if vfC15Panics(func() { _ = ruleSync(ctx, rec) }) {
			vt.KnownFindingLine("C15", "a stored NetConf list with a null entry (`[null]`) makes ruleSync dereference nil")
		}
	}
	if vt.Known(vfC15NoGateway) {
		rec := daemon.PodResources{PodInfo: &daemon.PodInfo{Name: "p", Namespace: "ns", PodNetworkType: daemon.PodNetworkTypeENIMultiIP},
			NetConf: `[{"BasicInfo":{"PodIP":{"IPv4":"10.0.0.2"}},"ENIInfo":{"MAC":""}}]`}
		panicked := false
		if why := vfC15InVethNetns("p", "ns", "eth0", func() { panicked = vfC15Panics(func() { _ = ruleSync(ctx, rec) }) }); why == "" && panicked {
			vt.KnownFindingLine("C15", "a stored NetConf entry without BasicInfo.GatewayIP makes ruleSync dereference nil once the pod's veth and the ENI are found")
		}
	}
}

func TestVerifC15RuleSync(t *testing.T) { vt.Run(t, vfC15GenRule, g.NoPanic(vfC15RunRule)) }
