package daemon

// Shared world for the daemon-level harnesses (C04, C05, C09): the real networkService
// (fields set directly) over a simulated Kubernetes (pod table), the real DiskStorage in
// a scratch file (behind a thin wrapper that can hold or observe Put/Delete), and the real
// eni.Manager + Locals over the cloudsim factory.

import (
	"context"
	"fmt"
	"net/netip"
	"os"
	"path/filepath"
	"sort"
	"sync"
	"sync/atomic"
	"time"

	"encoding/json"

	corev1 "k8s.io/api/core/v1"
	k8sErr "k8s.io/apimachinery/pkg/api/errors"
	"k8s.io/apimachinery/pkg/runtime/schema"
	"sigs.k8s.io/controller-runtime/pkg/client"

	"github.com/AliyunContainerService/terway/pkg/eni"
	"github.com/AliyunContainerService/terway/pkg/storage"
	"github.com/AliyunContainerService/terway/rpc"
	"github.com/AliyunContainerService/terway/types"
	"github.com/AliyunContainerService/terway/types/daemon"
	"github.com/AliyunContainerService/terway/zz_verif/cloudsim"
)

// ------------------------------------------------------------------ simulated Kubernetes

type vsPod struct {
	info    *daemon.PodInfo
	exists  bool // object exists in the API server
	local   bool // listed by GetLocalPods
	failAPI bool // PodExist returns an error
}

type vsK8s struct {
	mu     sync.Mutex
	pods   map[string]*vsPod // key ns/name
	cached map[string]*daemon.PodInfo
	// vpcENI: pods created from now on are of network type VPCENI (exclusive-ENI node)
	vpcENI bool
	// failPatch: this many following PatchPodIPInfo calls fail (api server error)
	failPatch atomic.Int32
	// gate, if set, is called (without the lock) at the start of every GetPod
	gate func(key string)
	// existGate, if set, is called (without the lock) after PodExist has determined its
	// answer and before it returns it (a slow API server: the answer may be stale)
	existGate func(key string)
	// localErrs: that many following GetLocalPods calls fail; localCalls counts all of them
	localErrs  int
	localCalls int
}

func vsNewK8s() *vsK8s {
	return &vsK8s{pods: map[string]*vsPod{}, cached: map[string]*daemon.PodInfo{}}
}

func vsKey(ns, name string) string { return ns + "/" + name }

func (k *vsK8s) GetLocalPods() ([]*daemon.PodInfo, error) {
	k.mu.Lock()
	defer k.mu.Unlock()
	k.localCalls++
	if k.localErrs > 0 {
		k.localErrs--
		return nil, fmt.Errorf("api server unavailable")
	}
	var keys []string
	for key := range k.pods {
		keys = append(keys, key)
	}
	sort.Strings(keys)
	var out []*daemon.PodInfo
	for _, key := range keys {
		p := k.pods[key]
		if p.exists && p.local {
			c := *p.info
			out = append(out, &c)
		}
	}
	return out, nil
}

func (k *vsK8s) GetPod(ctx context.Context, namespace, name string, cache bool) (*daemon.PodInfo, error) {
	key := vsKey(namespace, name)
	if g := k.gate; g != nil {
		g(key)
	}
	k.mu.Lock()
	defer k.mu.Unlock()
	p := k.pods[key]
	if p != nil && p.exists {
		c := *p.info
		k.cached[key] = &c
		c2 := c
		return &c2, nil
	}
	// the real implementation falls back to its local cache for pods that are gone
	if c, ok := k.cached[key]; ok {
		c2 := *c
		return &c2, nil
	}
	return nil, k8sErr.NewNotFound(schema.GroupResource{Resource: "pods"}, name)
}

func (k *vsK8s) PodExist(namespace, name string) (bool, error) {
	k.mu.Lock()
	p := k.pods[vsKey(namespace, name)]
	fail := p != nil && p.failAPI
	ok := p != nil && p.exists
	g := k.existGate
	k.mu.Unlock()
	if g != nil {
		g(vsKey(namespace, name))
	}
	if fail {
		return false, fmt.Errorf("api server unavailable")
	}
	return ok, nil
}

func (k *vsK8s) GetServiceCIDR() *types.IPNetSet                   { return &types.IPNetSet{} }
func (k *vsK8s) SetNodeAllocatablePod(count int) error             { return nil }
func (k *vsK8s) PatchNodeAnnotations(map[string]string) error      { return nil }
func (k *vsK8s) PatchPodIPInfo(*daemon.PodInfo, string) error {
	if k.failPatch.Load() > 0 {
		k.failPatch.Add(-1)
		return fmt.Errorf("injected: api server refused the pod-ips patch")
	}
	return nil
}
func (k *vsK8s) RecordNodeEvent(eventType, reason, message string) {}
func (k *vsK8s) PatchNodeIPResCondition(corev1.ConditionStatus, string, string) error {
	return nil
}
func (k *vsK8s) RecordPodEvent(podName, podNamespace, eventType, reason, message string) error {
	return nil
}
func (k *vsK8s) GetNodeDynamicConfigLabel() string { return "" }
func (k *vsK8s) GetDynamicConfigWithName(context.Context, string) (string, error) {
	return "", nil
}
func (k *vsK8s) SetCustomStatefulWorkloadKinds([]string) error { return nil }
func (k *vsK8s) GetTrunkID() string                            { return "" }
func (k *vsK8s) GetClient() client.Client                      { return nil }
func (k *vsK8s) NodeName() string                              { return "node-1" }
func (k *vsK8s) Node() *corev1.Node                            { return &corev1.Node{} }

func (k *vsK8s) setPod(name, uid string, stick bool) { k.setPodOpt(name, uid, stick, false) }

func (k *vsK8s) setPodOpt(name, uid string, stick, erdma bool) {
	k.mu.Lock()
	defer k.mu.Unlock()
	info := &daemon.PodInfo{Name: name, Namespace: "ns", PodNetworkType: daemon.PodNetworkTypeENIMultiIP, PodUID: uid, ERdma: erdma}
	if k.vpcENI {
		info.PodNetworkType = daemon.PodNetworkTypeVPCENI
	}
	if stick {
		info.IPStickTime = 5 * time.Minute
	}
	k.pods[vsKey("ns", name)] = &vsPod{info: info, exists: true, local: true}
}

// ------------------------------------------------------------------ storage wrapper

type vsStore struct {
	inner storage.Storage
	// hook is called before and after every Put/Delete: (op, key, phase "before"|"after")
	hook func(op, key, phase string)
	// listHook is called in every List after the records were read, before they are returned
	listHook func()
	// failPut: the next Put for this key fails without writing (a database write error)
	failPut string
}

func (s *vsStore) Put(key string, value interface{}) error {
	if s.failPut != "" && s.failPut == key {
		s.failPut = ""
		return fmt.Errorf("injected: database write failed")
	}
	if s.hook != nil {
		s.hook("put", key, "before")
	}
	err := s.inner.Put(key, value)
	if s.hook != nil {
		s.hook("put", key, "after")
	}
	return err
}
func (s *vsStore) Get(key string) (interface{}, error) { return s.inner.Get(key) }
func (s *vsStore) List() ([]interface{}, error) {
	l, err := s.inner.List()
	if s.listHook != nil {
		s.listHook()
	}
	return l, err
}
func (s *vsStore) Delete(key string) error {
	if s.hook != nil {
		s.hook("delete", key, "before")
	}
	err := s.inner.Delete(key)
	if s.hook != nil {
		s.hook("delete", key, "after")
	}
	return err
}

func vsOpenDB(path string) (storage.Storage, error) {
	// same serializer/deserializer as NetworkServiceBuilder.InitResourceDB
	return storage.NewDiskStorage(resDBName, path, json.Marshal, func(bytes []byte) (interface{}, error) {
		resourceRel := &daemon.PodResources{}
		err := json.Unmarshal(bytes, resourceRel)
		if err != nil {
			return nil, err
		}
		return *resourceRel, nil
	})
}

// ------------------------------------------------------------------ world

type vsPoolCfg struct {
	V6      bool   `json:"v6"`
	// NoV4: IPv6-only pool (with V6). Config.Validate admits only ipv4 and dual, so this
	// is outside the documented configuration space; C04 explores it as extra coverage.
	NoV4    bool   `json:"no_v4,omitempty"`
	Cap     int    `json:"cap"`
	Batch   int    `json:"batch"`
	MinIdle int    `json:"min_idle"`
	MaxIdle int    `json:"max_idle"`
	Slots   int    `json:"slots"`      // empty secondary interface slots
	PreENIs []int  `json:"pre,omitempty"` // pre-attached interfaces: number of IPv4 addresses each
	Policy  string `json:"policy,omitempty"`
	// FailRelease (C09): wrap the first interface so that Release can be made to fail once
	FailRelease bool `json:"fail_release,omitempty"`
	// Trunk: the first pre-attached interface is the node's trunk interface (enable_eni_trunking):
	// its pool sits behind eni.Trunk, as NetworkServiceBuilder.setupENIManager wires it
	Trunk bool `json:"trunk,omitempty"`
	// Erdma: number of ERDMA interface slots (enable_erdma): pods that ask for ERDMA are served
	// from interfaces of type "erdma" only, as NetworkServiceBuilder.setupENIManager wires them
	Erdma int `json:"erdma,omitempty"`
	// ENIOnly: the node runs in exclusive-ENI mode (daemon mode ENIOnly, pods of network type
	// VPCENI, one address per interface)
	ENIOnly bool `json:"eni_only,omitempty"`
}

// vsAddPreENIs creates the pre-attached interfaces of a pool configuration in the cloud.
func vsAddPreENIs(cloud *cloudsim.Cloud, cfg vsPoolCfg) {
	for i, n := range cfg.PreENIs {
		n6 := 0
		if cfg.V6 {
			n6 = n
		}
		typ := "secondary"
		if cfg.Trunk && i == 0 {
			typ = "trunk"
		}
		cloud.AddENI(typ, n, n6)
	}
}

// vsFailNI wraps a pool interface and makes Release fail once for listed pods (a cleanup
// step of GC that cannot proceed).
type vsFailNI struct {
	eni.NetworkInterface
	mu       sync.Mutex
	failOnce map[string]bool // pod id -> fail the next Release for it
	// failAlways: pod id -> every Release for it fails (a cleanup that can never proceed)
	failAlways map[string]bool
}

func (f *vsFailNI) Release(ctx context.Context, cni *daemon.CNI, request eni.NetworkResource) (bool, error) {
	f.mu.Lock()
	fail := f.failOnce[cni.PodID]
	if fail {
		delete(f.failOnce, cni.PodID)
	}
	f.mu.Unlock()
	if fail {
		return false, fmt.Errorf("injected: release of %s cannot proceed", cni.PodID)
	}
	return f.NetworkInterface.Release(ctx, cni, request)
}

func (f *vsFailNI) Status() eni.Status {
	if s, ok := f.NetworkInterface.(eni.ReportStatus); ok {
		return s.Status()
	}
	return eni.Status{}
}

func (f *vsFailNI) Usage() (int, int, error) {
	if u, ok := f.NetworkInterface.(eni.Usage); ok {
		return u.Usage()
	}
	return 0, 0, nil
}

// vsFailNIShared: one per interface, consulting a shared fail list
type vsFailNIShared struct {
	eni.NetworkInterface
	shared *vsFailNI
}

func (f *vsFailNIShared) Release(ctx context.Context, cni *daemon.CNI, request eni.NetworkResource) (bool, error) {
	f.shared.mu.Lock()
	fail := f.shared.failOnce[cni.PodID]
	if fail {
		delete(f.shared.failOnce, cni.PodID)
	}
	if f.shared.failAlways[cni.PodID] {
		fail = true
	}
	f.shared.mu.Unlock()
	if fail {
		return false, fmt.Errorf("injected: release of %s cannot proceed", cni.PodID)
	}
	return f.NetworkInterface.Release(ctx, cni, request)
}

func (f *vsFailNIShared) Status() eni.Status {
	if s, ok := f.NetworkInterface.(eni.ReportStatus); ok {
		return s.Status()
	}
	return eni.Status{}
}

func (f *vsFailNIShared) Usage() (int, int, error) {
	if u, ok := f.NetworkInterface.(eni.Usage); ok {
		return u.Usage()
	}
	return 0, 0, nil
}

type vsWorld struct {
	failNI *vsFailNI // set when vsPoolCfg.FailRelease is used
	cfg    vsPoolCfg
	dir    string
	dbPath string
	cloud  *cloudsim.Cloud
	k8s    *vsK8s
	store  *vsStore
	db     storage.Storage
	svc    *networkService
	locals []*eni.Local
	ctx    context.Context
	cancel context.CancelFunc
}

var vsSeq int64
var vsSeqMu sync.Mutex

func vsScratchDir() string {
	vsSeqMu.Lock()
	vsSeq++
	n := vsSeq
	vsSeqMu.Unlock()
	base := os.Getenv("VERIF_OUT")
	if base == "" {
		base = os.TempDir()
	}
	d := filepath.Join(base, "..", fmt.Sprintf("scratch-%d-%d", os.Getpid(), n))
	_ = os.MkdirAll(d, 0o755)
	return d
}

// vsStart builds a service over (cloud, database file). stored pod records in the
// database are re-applied to the pool exactly as NetworkServiceBuilder.setupENIManager
// does (mirrored here because that function needs cloud credentials and the metadata
// service): list db -> getPodResources -> filterENINotFound -> NewLocal per attached
// interface + empty slots -> NewManager -> Run (-> Local.load).
func vsStart(cfg vsPoolCfg, cloud *cloudsim.Cloud, k *vsK8s, dir, dbPath string) (*vsWorld, error) {
	eni.VerifFastPool(600)
	w := &vsWorld{cfg: cfg, dir: dir, dbPath: dbPath, cloud: cloud, k8s: k}
	db, err := vsOpenDB(dbPath)
	if err != nil {
		return nil, fmt.Errorf("open db: %w", err)
	}
	w.db = db
	w.store = &vsStore{inner: db}
	cloud.NoV6 = !cfg.V6
	cloud.NoV4 = cfg.NoV4

	pc := &daemon.PoolConfig{EnableIPv4: !cfg.NoV4, EnableIPv6: cfg.V6, MaxIPPerENI: cfg.Cap, BatchSize: cfg.Batch,
		MinPoolSize: cfg.MinIdle, MaxPoolSize: cfg.MaxIdle}
	fac := cloud.Factory()
	attached, _ := fac.GetAttachedNetworkInterface("")
	attachedENIID := map[string]*daemon.ENI{}
	for _, a := range attached {
		attachedENIID[a.ID] = a
	}
	objList, err := db.List()
	if err != nil {
		return nil, err
	}
	podResources := getPodResources(objList)
	podResources = filterENINotFound(podResources, attachedENIID)

	var nis []eni.NetworkInterface
	maxENI := len(cfg.PreENIs) + cfg.Slots
	nErdma := 0
	for _, a := range attached {
		if cfg.Trunk && a.Trunk {
			lo := eni.NewLocal(a, "trunk", fac, pc)
			w.locals = append(w.locals, lo)
			nis = append(nis, eni.NewTrunk(nil, lo))
			continue
		}
		if cfg.Erdma > 0 && a.ERdma {
			nErdma++
			lo := eni.NewLocal(a, "erdma", fac, pc)
			w.locals = append(w.locals, lo)
			nis = append(nis, lo)
			continue
		}
		lo := eni.NewLocal(a, "secondary", fac, pc)
		w.locals = append(w.locals, lo)
		nis = append(nis, lo)
	}
	for i := nErdma; i < cfg.Erdma; i++ {
		lo := eni.NewLocal(nil, "erdma", fac, pc)
		w.locals = append(w.locals, lo)
		nis = append(nis, lo)
	}
	for i := len(attached) - nErdma; i < maxENI; i++ {
		lo := eni.NewLocal(nil, "secondary", fac, pc)
		w.locals = append(w.locals, lo)
		nis = append(nis, lo)
	}
	if cfg.FailRelease && len(nis) > 0 {
		// all interfaces sit behind one wrapper-per-interface sharing the fail list
		w.failNI = &vsFailNI{failOnce: map[string]bool{}, failAlways: map[string]bool{}}
		for i := range nis {
			nis[i] = &vsFailNIShared{NetworkInterface: nis[i], shared: w.failNI}
		}
	}
	mgr := eni.NewManager(cfg.MinIdle, cfg.MaxIdle, cfg.Cap*(maxENI+cfg.Erdma), 0, nis, daemon.EniSelectionPolicy(cfg.Policy), nil)
	mode := daemon.ModeENIMultiIP
	k.vpcENI = cfg.ENIOnly
	if cfg.ENIOnly {
		mode = daemon.ModeENIOnly
	}
	w.svc = &networkService{
		daemonMode: mode,
		k8s:        k,
		resourceDB: w.store,
		eniMgr:     mgr,
		enableIPv4: !cfg.NoV4,
		enableIPv6: cfg.V6,
		ipamType:   types.IPAMTypeDefault,
		// enable_patch_pod_ips is on by default
		enablePatchPodIPs: true,
	}
	w.ctx, w.cancel = context.WithCancel(context.Background())
	// sync period 0: the periodic balancer is not started, the harnesses drive it themselves
	if err := mgr.Run(w.ctx, &w.svc.wg, podResources); err != nil {
		w.cancel()
		return nil, fmt.Errorf("pool start: %w", err)
	}
	return w, nil
}

func (w *vsWorld) stop() {
	w.cancel()
	done := make(chan struct{})
	go func() { w.svc.wg.Wait(); close(done) }()
	for i := 0; i < 400; i++ {
		select {
		case <-done:
			i = 400
		case <-time.After(5 * time.Millisecond):
			for _, l := range w.locals {
				eni.VerifWake(l)
			}
		}
	}
	_ = storage.VerifClose(w.db)
}

func (w *vsWorld) cleanup() {
	w.stop()
	_ = os.RemoveAll(w.dir)
}

// owners returns address -> pod id as shown by the pool's Status().
func (w *vsWorld) owners() map[string]string {
	out := map[string]string{}
	for _, st := range w.svc.eniMgr.Status() {
		for _, u := range st.Usage {
			if u[1] != "" {
				out[u[0]] = u[1]
			}
		}
	}
	return out
}

// statusDump is a canonical rendering of the pool status (for before/after equality).
func (w *vsWorld) statusDump() string {
	var lines []string
	for _, st := range w.svc.eniMgr.Status() {
		for _, u := range st.Usage {
			lines = append(lines, fmt.Sprintf("%s %s %s %s", st.NetworkInterfaceID, u[0], u[1], u[2]))
		}
	}
	sort.Strings(lines)
	b, _ := json.Marshal(lines)
	return string(b)
}

// storeDump is a canonical rendering of the store contents.
func (w *vsWorld) storeDump() string {
	l, _ := w.db.List()
	var lines []string
	for _, o := range l {
		b, _ := json.Marshal(o)
		lines = append(lines, string(b))
	}
	sort.Strings(lines)
	b, _ := json.Marshal(lines)
	return string(b)
}

func (w *vsWorld) record(pod string) (daemon.PodResources, bool) {
	o, err := w.db.Get(vsKey("ns", pod))
	if err != nil {
		return daemon.PodResources{}, false
	}
	return o.(daemon.PodResources), true
}

func (w *vsWorld) quiescent() bool {
	if w.cloud.Inflight() != 0 {
		return false
	}
	for _, l := range w.locals {
		i := eni.VerifInspect(l)
		if !(i.Status == "Init" || i.Status == "InUse") || i.Pending != 0 || i.Deleting != 0 {
			return false
		}
	}
	return true
}

func (w *vsWorld) waitQuiescent(d time.Duration) bool {
	deadline := time.Now().Add(d)
	stable := 0
	for time.Now().Before(deadline) {
		if w.quiescent() {
			stable++
			if stable >= 3 {
				return true
			}
		} else {
			stable = 0
		}
		time.Sleep(300 * time.Microsecond)
	}
	return false
}

// replyAddrs extracts the pod addresses of an AllocIP / GetIPInfo reply.
func vsReplyAddrs(confs []*rpc.NetConf) (v4, v6 string) {
	for _, c := range confs {
		if c.BasicInfo != nil && c.BasicInfo.PodIP != nil {
			return c.BasicInfo.PodIP.IPv4, c.BasicInfo.PodIP.IPv6
		}
	}
	return "", ""
}

func vsAddReq(pod, cid string) *rpc.AllocIPRequest {
	return &rpc.AllocIPRequest{K8SPodName: pod, K8SPodNamespace: "ns", K8SPodInfraContainerId: cid, Netns: "/proc/1/ns/net", IfName: "eth0"}
}

func vsDelReq(pod, cid string) *rpc.ReleaseIPRequest {
	return &rpc.ReleaseIPRequest{K8SPodName: pod, K8SPodNamespace: "ns", K8SPodInfraContainerId: cid}
}

func vsGetReq(pod, cid string) *rpc.GetInfoRequest {
	return &rpc.GetInfoRequest{K8SPodName: pod, K8SPodNamespace: "ns", K8SPodInfraContainerId: cid}
}

func vsIsProcessing(err error) bool {
	if err == nil {
		return false
	}
	if te, ok := err.(*types.Error); ok {
		return te.Code == types.ErrPodIsProcessing
	}
	return false
}

func vsMustAddr(s string) netip.Addr {
	a, _ := netip.ParseAddr(s)
	return a
}
