//go:build linux

package daemon

// C03 (closed loop): the real controller (multi-ip node ReconcileNode) and the real
// node agent (networkService.AllocIP/ReleaseIP/gcPods/cleanRuntimeNode over the real
// eni.Manager + CRDV2 and the real pkg/k8s accessor) talk through ONE in-memory API
// server; a stateful cloud stub sits under the controller. The harness plays kubelet
// (pod objects, phases, CNI ADD/DEL with container ids), the timers of the agent
// (flush, 5-minute job, GC) and of the controller (reconcile, forced GC, full sync),
// and injects lost writes. Oracle: zz_verif/c03cloud (release gate of the statement)
// over (previous persisted record, new persisted record, cloud calls of the reconcile,
// pod table and NodeRuntime as they were when the reconcile started), plus the
// agent-side clause on every `deleted` entry that appears in NodeRuntime.

import (
	"context"
	"errors"
	"fmt"
	goruntime "runtime"
	"sort"
	"strings"
	"testing"
	"time"

	"github.com/go-logr/logr"
	corev1 "k8s.io/api/core/v1"
	apierrors "k8s.io/apimachinery/pkg/api/errors"
	metav1 "k8s.io/apimachinery/pkg/apis/meta/v1"
	"k8s.io/apimachinery/pkg/runtime"
	"k8s.io/apimachinery/pkg/runtime/schema"
	k8stypes "k8s.io/apimachinery/pkg/types"
	"k8s.io/apimachinery/pkg/util/wait"
	"pgregory.net/rapid"
	"sigs.k8s.io/controller-runtime/pkg/client"
	"sigs.k8s.io/controller-runtime/pkg/client/fake"
	"sigs.k8s.io/controller-runtime/pkg/client/interceptor"
	logf "sigs.k8s.io/controller-runtime/pkg/log"

	aliyunClient "github.com/AliyunContainerService/terway/pkg/aliyun/client"
	networkv1beta1 "github.com/AliyunContainerService/terway/pkg/apis/network.alibabacloud.com/v1beta1"
	"github.com/AliyunContainerService/terway/pkg/backoff"
	ctlnode "github.com/AliyunContainerService/terway/pkg/controller/multi-ip/node"
	"github.com/AliyunContainerService/terway/pkg/eni"
	"github.com/AliyunContainerService/terway/pkg/k8s"
	"github.com/AliyunContainerService/terway/pkg/storage"
	"github.com/AliyunContainerService/terway/pkg/vswitch"
	"github.com/AliyunContainerService/terway/rpc"
	terwayTypes "github.com/AliyunContainerService/terway/types"
	"github.com/AliyunContainerService/terway/types/daemon"
	"github.com/AliyunContainerService/terway/zz_verif/c03cloud"
	"github.com/AliyunContainerService/terway/zz_verif/vt"
)

const (
	c03lNode = "node-1"
	// the statement's literal gate passes (a teardown of this pod UID was reported) but
	// the report is about an earlier sandbox: see c03lStrict
	c03lKnownReAdd = "C03-readd-stale-deleted"
	// A reconcile that works on a lagging view of the Node CR (the object before the
	// controller's last write) still makes its cloud calls before its status write is
	// refused with a conflict. If the last write had REVIVED an address that the older
	// view has marked Deleting (a replayed assign answer sets a known address back to
	// Valid) and bound it to a pod, the lagging reconcile unassigns the address of a
	// live pod in the cloud.
	c03lKnownStaleUnassign = "C03-stale-view-unassigns-revived-address"
	// Same root (a reconcile on a lagging view makes its cloud calls before its write is
	// refused), other trigger: LingJun node, the lagging view predates the record of the
	// interface, a full sync is due and the cloud reports a bound address in a
	// transitional status: the interface looks new, the address is recorded Deleting and
	// unassigned in the cloud while the stored record has it bound to a pod.
	c03lKnownStaleTransitional = "C03-stale-view-unassigns-transitional-address"
)

func init() {
	logf.SetLogger(logr.Discard())
}

// ---------------------------------------------------------------- scenario

type c03lLegacy struct {
	Slot    int  `json:"slot"`
	Present bool `json:"present"` // pod object exists at start
	UID     bool `json:"uid"`     // binding records the pod UID (false: taken over from a version without UIDs)
	// Takeover: the pod runs (object present, sandbox up) and REPORTS its addresses, but
	// the record has not linked them to it (record rebuilt from the cloud, first sync,
	// migration from the in-agent IPAM): the first reconcile has to take them over.
	Takeover bool `json:"takeover,omitempty"`
}

type c03lOp struct {
	// create add delobj phase del flush gc syncdel reconcile restartd restartc,
	// ipstatus: (LingJun) the cloud reports a transitional status for an address bound to
	// pod P in its next A listings - the address itself stays assigned; and
	// flushadd: the reporter tick (syncNodeRuntime) runs, a CNI ADD for pod P completes
	// while the tick's write to the API server is in flight, and that write fails
	K      string `json:"k"`
	P      int    `json:"p,omitempty"`
	A      int    `json:"a,omitempty"`
	B      int    `json:"b,omitempty"`
	Faults []int  `json:"f,omitempty"`
}

type c03lScenario struct {
	V6        bool         `json:"v6"`                // dual stack
	EFLO      bool         `json:"eflo,omitempty"`    // LingJun node: EFLO backend (no attach/detach, addresses have a name and a status of their own)
	V6Only    bool         `json:"v6_only,omitempty"` // IPv6-only pool: pods get IPv6 only, every interface still has its primary IPv4
	MaxPool   int          `json:"max_pool"`
	MinPool   int          `json:"min_pool"`
	PerENI    int          `json:"per_eni"`
	GCEvery   bool         `json:"gc_every"`   // pool adjustment on every reconcile (gcPeriod 0) or only when forced
	RealMAC   bool         `json:"real_mac"`   // interfaces carry a MAC no link of the test netns has
	NoRuntime bool         `json:"no_runtime"` // NodeRuntime object does not exist at start
	Legacy    []c03lLegacy `json:"legacy,omitempty"`
	Ops       []c03lOp     `json:"ops"`
	Witness   bool         `json:"witness,omitempty"` // deterministic witness run: the known-finding guard is off
}

func c03lGen(t *rapid.T) c03lScenario {
	s := c03lScenario{
		V6:        rapid.IntRange(0, 3).Draw(t, "v6") == 0,
		MaxPool:   rapid.IntRange(0, 3).Draw(t, "maxPool"),
		PerENI:    rapid.IntRange(2, 5).Draw(t, "perENI"),
		GCEvery:   rapid.Bool().Draw(t, "gcEvery"),
		RealMAC:   rapid.IntRange(0, 3).Draw(t, "realMAC") == 0,
		NoRuntime: rapid.IntRange(0, 7).Draw(t, "noRuntime") == 0,
	}
	s.MinPool = rapid.IntRange(0, s.MaxPool).Draw(t, "minPool")
	if !s.V6 && rapid.IntRange(0, 4).Draw(t, "v6only") == 0 {
		s.V6Only = true
	}
	s.EFLO = rapid.IntRange(0, 4).Draw(t, "eflo") == 0
	nPods := rapid.IntRange(1, vt.Scale(4, 6)).Draw(t, "nPods")
	nLegacy := rapid.SampledFrom([]int{0, 0, 0, 1, 2}).Draw(t, "nLegacy")
	for i := 0; i < nLegacy && i < nPods; i++ {
		lg := c03lLegacy{Slot: nPods - 1 - i,
			Present: rapid.Bool().Draw(t, "legacyPresent"), UID: rapid.IntRange(0, 2).Draw(t, "legacyUID") == 0}
		if rapid.IntRange(0, 2).Draw(t, "legacyTakeover") == 0 {
			lg.Takeover, lg.Present = true, true
		}
		s.Legacy = append(s.Legacy, lg)
	}
	// Histories are drawn with a small abstract model of each pod's lifecycle that only
	// steers the CHOICE of the next operation: two thirds of the steps take a "natural"
	// next step of some pod (create, get bound, ADD, DEL or object deletion in either
	// order, flush, reconcile), one third is an arbitrary operation on an arbitrary pod.
	// Every operation stays possible in every state; run() never consults this model.
	type pm struct{ obj, bound, sandbox, ever, delPending, reported, housekept, early bool }
	model := make([]pm, nPods)
	for _, lg := range s.Legacy {
		if lg.Takeover {
			model[lg.Slot] = pm{obj: true, sandbox: true, ever: true} // gets bound by the first reconcile
		} else if lg.Present {
			model[lg.Slot] = pm{obj: true, bound: true, sandbox: true, ever: true}
		} else {
			model[lg.Slot] = pm{ever: true}
		}
	}
	natural := func(m *pm) []string {
		switch {
		case !m.obj && m.sandbox:
			return []string{"del", "del", "gc", "reconcile"}
		case !m.obj && m.delPending:
			return []string{"flush", "flush", "reconcile"}
		case !m.obj && (m.reported || m.ever):
			return []string{"reconcile", "reconcile", "reconcile", "gc", "syncdel", "create", "create"}
		case !m.obj:
			return []string{"create"}
		case m.early:
			// an ADD was tried before the control plane saw the pod: the object goes
			return []string{"delobj", "delobj", "reconcile"}
		case !m.bound:
			// normally the control plane binds first; kubelet may also be faster (an ADD
			// before the reconcile waits - or is served from a record that is not the pod's)
			return []string{"reconcile", "reconcile", "add"}
		case m.delPending:
			return []string{"flush", "flush", "flushadd", "flushadd", "delobj"}
		case m.housekept && !m.sandbox:
			return []string{"delobj", "delobj", "delobj", "add"}
		case m.reported:
			// teardown reported while the pod object lingers (terminating, finalizer):
			// the agent's housekeeping runs before the object goes
			return []string{"syncdel", "syncdel", "delobj", "delobj", "add", "reconcile"}
		case !m.sandbox:
			return []string{"add", "add", "add", "delobj"}
		default:
			return []string{"del", "del", "del", "delobj", "delobj", "phase"}
		}
	}
	anyPod := []string{"create", "add", "add", "del", "del", "delobj", "phase", "flushadd"}
	if s.EFLO {
		anyPod = append(anyPod, "ipstatus", "ipstatus")
	}
	anyGlobal := []string{"reconcile", "reconcile", "reconcile", "reconcile", "flush", "flush", "gc", "gc", "syncdel", "restartd", "restartc"}
	wantFull := 0
	n := rapid.IntRange(4, vt.Scale(30, 50)).Draw(t, "nOps")
	for i := 0; i < n; i++ {
		op := c03lOp{P: rapid.IntRange(0, nPods-1).Draw(t, "pod")}
		switch r := rapid.IntRange(0, 99).Draw(t, "how"); {
		case r < 66:
			op.K = rapid.SampledFrom(natural(&model[op.P])).Draw(t, "natural")
		case r < 85:
			op.K = rapid.SampledFrom(anyPod).Draw(t, "anyPod")
		default:
			op.K = rapid.SampledFrom(anyGlobal).Draw(t, "anyGlobal")
		}
		m := &model[op.P]
		switch op.K {
		case "create":
			if !m.obj {
				*m = pm{obj: true, delPending: m.delPending, sandbox: m.sandbox}
			}
		case "add":
			if m.obj && m.bound {
				m.sandbox, m.ever, m.reported = true, true, false
			} else if m.obj {
				m.early = true
			}
		case "syncdel":
			if m.obj {
				m.reported = false // housekeeping seen; next: the object goes
				m.housekept = true
			}
		case "flushadd":
			// the ADD cancels the pod's pending record; the tick's write fails, the others stay pending
			if m.obj && m.bound {
				m.sandbox, m.ever, m.delPending = true, true, false
			}
		case "del":
			if m.sandbox {
				m.delPending = true
			}
			m.sandbox = false
		case "delobj":
			m.early = false
			if m.housekept {
				m.reported = true // reported earlier: the natural next step is a reconcile
			}
			m.obj, m.bound, m.housekept = false, false, false
		case "phase":
			if m.obj {
				m.sandbox = false
			}
		case "flush":
			for j := range model {
				if model[j].delPending {
					model[j].delPending, model[j].reported = false, true
				}
			}
		case "reconcile":
			for j := range model {
				if model[j].obj {
					model[j].bound, model[j].early = true, false
				} else if model[j].reported {
					model[j].reported, model[j].ever = false, false
				}
			}
		}
		switch op.K {
		case "reconcile", "flush", "gc", "syncdel", "restartd", "restartc":
			op.P = 0
		}
		switch op.K {
		case "ipstatus":
			op.A = rapid.IntRange(1, 3).Draw(t, "listings")
			wantFull = 2
		case "add", "flushadd":
			op.A = rapid.IntRange(0, 1).Draw(t, "reportIP")
		case "phase":
			op.A = rapid.IntRange(0, 1).Draw(t, "phase")
		case "del":
			op.A = rapid.SampledFrom([]int{0, 0, 0, 0, 0, 1}).Draw(t, "staleCID")
		case "flush", "syncdel":
			op.A = rapid.SampledFrom([]int{0, 0, 0, 0, 1}).Draw(t, "writeFails")
		case "gc":
			op.A = rapid.SampledFrom([]int{0, 0, 0, 0, 1, 2}).Draw(t, "podExist")
			op.B = rapid.SampledFrom([]int{0, 0, 0, 0, 0, 1}).Draw(t, "writeFails")
		case "reconcile":
			op.A = rapid.SampledFrom([]int{0, 0, 0, 0, 1, 1, 1, 1, 1, 2, 3, 4, 5}).Draw(t, "flags")
			// a lost assign answer (B) is usually followed by a full sync, which records
			// the addresses the cloud holds; a later identical request is then replayed
			if rapid.IntRange(0, 3).Draw(t, "staleView") == 0 {
				op.A |= 8 // read the Node CR from a lagging cache (effective only right after a controller write)
			}
			if wantFull > 0 {
				if rapid.IntRange(0, 3).Draw(t, "fullAfterLoss") > 0 {
					op.A |= 2
				}
				wantFull--
			}
			if rapid.IntRange(0, 7).Draw(t, "lostAssign") == 0 {
				op.B = 1
				if s.v6() && rapid.Bool().Draw(t, "lostV6") {
					op.B = 2
				}
				wantFull = 2
			}
			if rapid.IntRange(0, 9).Draw(t, "cloudFaults") == 0 {
				nf := rapid.IntRange(1, 3).Draw(t, "nFaults")
				for j := 0; j < nf; j++ {
					op.Faults = append(op.Faults, rapid.SampledFrom([]int{0, 1, 1, 2}).Draw(t, "fault"))
				}
			}
		}
		s.Ops = append(s.Ops, op)
	}
	return s
}

// ---------------------------------------------------------------- world

type c03lRecorder struct{}

func (c03lRecorder) Event(object runtime.Object, eventtype, reason, message string) {}
func (c03lRecorder) Eventf(object runtime.Object, eventtype, reason, messageFmt string, args ...interface{}) {
}
func (c03lRecorder) AnnotatedEventf(object runtime.Object, annotations map[string]string, eventtype, reason, messageFmt string, args ...interface{}) {
}

// c03lK8s is the agent's real Kubernetes accessor with a steerable PodExist (the API
// re-check of the GC): truthful, failing, or answering "exists" from a stale view.
type c03lK8s struct {
	k8s.Kubernetes
	mode   int
	absent []string // "ns/name" for which PodExist answered false
	asked  int
}

func (k *c03lK8s) PodExist(namespace, name string) (bool, error) {
	k.asked++
	switch k.mode {
	case 1:
		return false, errors.New("c03: injected API error")
	case 2:
		return true, nil
	}
	ok, err := k.Kubernetes.PodExist(namespace, name)
	if err == nil && !ok {
		k.absent = append(k.absent, namespace+"/"+name)
	}
	return ok, err
}

// c03lSandbox is the container runtime's view of one pod sandbox the harness started.
type c03lSandbox struct {
	uid, cid string
	ips      []string
	ok       bool // its ADD succeeded
	up       bool // not torn down yet
	step     int  // step in which it was started
}

type c03lSlot struct {
	inc    int
	uid    string // uid of the pod object, "" when there is none
	exited bool
	seq    int
	boxes  []*c03lSandbox // in start order
}

// superseded: a later sandbox of the same pod came up (its ADD succeeded), so a DEL
// for this one is a late or repeated DEL that says nothing about the pod any more.
func (sl *c03lSlot) superseded(x *c03lSandbox) bool {
	after := false
	for _, b := range sl.boxes {
		if b == x {
			after = true
			continue
		}
		if after && b.uid == x.uid && b.ok {
			return true
		}
	}
	return false
}

type c03lWorld struct {
	c     *vt.Ctx
	s     c03lScenario
	ctx   context.Context
	cl    client.Client
	cloud *c03cloud.Cloud
	ctl   *ctlnode.C03Reconciler
	k     *c03lK8s
	db    storage.Storage
	crd   *eni.CRDV2
	svc   *networkService

	failNodeStatus bool                 // next Node CR status write fails
	inReconcile    bool                 // a controller reconcile is running
	serveStale     bool                 // the running reconcile reads the Node CR from a lagging cache
	staleNode      *networkv1beta1.Node // the Node CR as it was before the controller's last write
	staleBudget    int                  // reconciles that may still see it (the cache catches up)
	staleServed    int
	wroteNode      int
	failRuntime    bool           // NodeRuntime writes fail while set
	inWrite        func()         // runs once inside the next NodeRuntime write (before it is applied or failed)
	step           int            // index of the running step
	reportStep     map[string]int // uid -> step whose agent action last wrote `deleted` for it
	// uid -> the agent has reported the teardown of this pod (a `deleted` entry was seen
	// in NodeRuntime) and the pod has not been given a sandbox since. The statement's
	// liveness clause speaks of a teardown that "is reported"; whether the report is
	// still in NodeRuntime when the pod object finally goes is the agent's business.
	everReported map[string]bool
	abandon      bool            // a listed finding fired: stop judging this history
	transitional map[string]bool // addresses the cloud has reported in a transitional status
	revived      map[string]bool // addresses a replayed assign answer set back from Deleting to Valid
	conflict     bool

	slots      []*c03lSlot
	owners     map[string]c03cloud.Owner // ground truth: the pod object each binding was made for
	takeover   map[string]bool           // pods that run on addresses the record has not linked to them
	delIssued  map[string]bool           // uid -> a DEL for the (last) sandbox of this pod was processed without error
	verified   map[string]bool           // uid -> the GC's API re-check answered "does not exist"
	vnow       time.Time
	sawPending bool
}

func c03lPodName(k int) string { return fmt.Sprintf("p%d", k) }
func c03lPodID(k int) string   { return "ns/" + c03lPodName(k) }

func c03lNewWorld(c *vt.Ctx, s c03lScenario) *c03lWorld {
	w := &c03lWorld{c: c, s: s, delIssued: map[string]bool{}, verified: map[string]bool{},
		owners: map[string]c03cloud.Owner{}, takeover: map[string]bool{}, reportStep: map[string]int{}, everReported: map[string]bool{}, revived: map[string]bool{}, transitional: map[string]bool{}}
	w.vnow = time.Now().Add(-2 * time.Hour).Truncate(time.Second)
	w.ctx = aliyunClient.SetBackendAPI(context.Background(), aliyunClient.BackendAPIECS)
	w.cloud = c03cloud.New("i-1", "vsw-1", "zone-a")
	// Without a MAC the agent's link lookup (link.GetDeviceNumber) resolves to the
	// loopback device of the private test netns (the only plain device there; dummy
	// links cannot be created in this sandbox), so the GC's real route/rule cleanup
	// runs. With a MAC no link has, the GC takes its "interface no longer attached"
	// branch instead.
	w.cloud.NoMAC = !s.RealMAC
	w.cloud.EFLO = s.EFLO
	for i := 0; i < 6; i++ {
		w.slots = append(w.slots, &c03lSlot{})
	}

	isRuntime := func(obj client.Object) bool {
		_, ok := obj.(*networkv1beta1.NodeRuntime)
		return ok
	}
	base := fake.NewClientBuilder().WithScheme(terwayTypes.Scheme).
		WithStatusSubresource(&networkv1beta1.Node{}, &networkv1beta1.NodeRuntime{}).
		WithIndex(&corev1.Pod{}, "spec.nodeName", func(o client.Object) []string {
			return []string{o.(*corev1.Pod).Spec.NodeName}
		}).
		WithInterceptorFuncs(interceptor.Funcs{
			// a lagging informer cache: the controller's read of the Node CR is served the
			// object as it was before the controller's own last write
			Get: func(ctx context.Context, cl client.WithWatch, key client.ObjectKey, obj client.Object, opts ...client.GetOption) error {
				if n, ok := obj.(*networkv1beta1.Node); ok && w.serveStale && w.staleNode != nil {
					w.staleNode.DeepCopyInto(n)
					w.staleServed++
					return nil
				}
				return cl.Get(ctx, key, obj, opts...)
			},
			Create: func(ctx context.Context, cl client.WithWatch, obj client.Object, opts ...client.CreateOption) error {
				if rt, ok := obj.(*networkv1beta1.NodeRuntime); ok {
					w.duringWrite()
					if w.failRuntime {
						return apierrors.NewInternalError(errors.New("c03: injected write failure"))
					}
					// an API server with the status subresource enabled ignores status on create
					cp := rt.DeepCopy()
					cp.Status = networkv1beta1.NodeRuntimeStatus{}
					if err := cl.Create(ctx, cp, opts...); err != nil {
						return err
					}
					rt.ObjectMeta = cp.ObjectMeta
					return nil
				}
				return cl.Create(ctx, obj, opts...)
			},
			Patch: func(ctx context.Context, cl client.WithWatch, obj client.Object, patch client.Patch, opts ...client.PatchOption) error {
				if isRuntime(obj) {
					w.duringWrite()
				}
				if isRuntime(obj) && w.failRuntime {
					return apierrors.NewInternalError(errors.New("c03: injected write failure"))
				}
				return cl.Patch(ctx, obj, patch, opts...)
			},
			SubResourcePatch: func(ctx context.Context, cl client.Client, sub string, obj client.Object, patch client.Patch, opts ...client.SubResourcePatchOption) error {
				if isRuntime(obj) {
					w.duringWrite()
				}
				if isRuntime(obj) && w.failRuntime {
					return apierrors.NewInternalError(errors.New("c03: injected write failure"))
				}
				if _, ok := obj.(*networkv1beta1.Node); ok && sub == "status" {
					return w.nodeStatusWrite(ctx, cl, obj, func() error { return cl.SubResource(sub).Patch(ctx, obj, patch, opts...) })
				}
				return cl.SubResource(sub).Patch(ctx, obj, patch, opts...)
			},
			SubResourceUpdate: func(ctx context.Context, cl client.Client, sub string, obj client.Object, opts ...client.SubResourceUpdateOption) error {
				if _, ok := obj.(*networkv1beta1.Node); ok && sub == "status" {
					return w.nodeStatusWrite(ctx, cl, obj, func() error { return cl.SubResource(sub).Update(ctx, obj, opts...) })
				}
				return cl.SubResource(sub).Update(ctx, obj, opts...)
			},
		})
	w.cl = base.Build()

	k8sNode := &corev1.Node{ObjectMeta: metav1.ObjectMeta{Name: c03lNode, UID: "node-uid"}}
	w.must(w.cl.Create(w.ctx, k8sNode), "create node")
	cr := &networkv1beta1.Node{
		ObjectMeta: metav1.ObjectMeta{Name: c03lNode, Labels: c03lNodeLabels(s)},
		Spec: networkv1beta1.NodeSpec{
			NodeMetadata: networkv1beta1.NodeMetadata{RegionID: "r", InstanceType: "t", InstanceID: "i-1", ZoneID: "zone-a"},
			NodeCap:      networkv1beta1.NodeCap{Adapters: 4, TotalAdapters: 4, IPv4PerAdapter: s.PerENI, IPv6PerAdapter: s.PerENI},
			ENISpec: &networkv1beta1.ENISpec{
				VSwitchOptions: []string{"vsw-1"}, SecurityGroupIDs: []string{"sg-1"},
				EnableIPv4: s.v4(), EnableIPv6: s.v6(), VSwitchSelectPolicy: networkv1beta1.VSwitchSelectionPolicyOrdered,
			},
			Pool: &networkv1beta1.PoolSpec{MaxPoolSize: s.MaxPool, MinPoolSize: s.MinPool},
			Flavor: []networkv1beta1.Flavor{{
				NetworkInterfaceType:        networkv1beta1.ENITypeSecondary,
				NetworkInterfaceTrafficMode: networkv1beta1.NetworkInterfaceTrafficModeStandard,
				Count:                       3,
			}},
		},
	}
	w.must(w.cl.Create(w.ctx, cr), "create node cr")

	// bindings that exist before the history starts (taken over / left by an earlier run)
	if len(s.Legacy) > 0 {
		nv6 := 0
		if s.v6() {
			nv6 = len(s.Legacy)
		}
		e := w.cloud.Preload(aliyunClient.ENITypeSecondary, aliyunClient.ENITrafficModeStandard, len(s.Legacy)+1, nv6)
		ni := &networkv1beta1.NetworkInterface{
			ID: e.ID, Status: aliyunClient.ENIStatusInUse, MacAddress: e.MAC, VSwitchID: "vsw-1", SecurityGroupIDs: []string{"sg-1"},
			PrimaryIPAddress: e.Primary, NetworkInterfaceType: networkv1beta1.ENITypeSecondary,
			NetworkInterfaceTrafficMode: networkv1beta1.NetworkInterfaceTrafficModeStandard,
			IPv4:                        map[string]*networkv1beta1.IP{}, IPv6: map[string]*networkv1beta1.IP{},
			IPv4CIDR: c03cloud.V4CIDR, IPv6CIDR: c03cloud.V6CIDR,
		}
		for j, a := range e.V4 {
			ni.IPv4[a] = &networkv1beta1.IP{IP: a, Primary: j == 0, Status: networkv1beta1.IPStatusValid}
		}
		for _, a := range e.V6 {
			ni.IPv6[a] = &networkv1beta1.IP{IP: a, Status: networkv1beta1.IPStatusValid}
		}
		for j, lg := range s.Legacy {
			sl := w.slots[lg.Slot]
			sl.inc++
			uid := fmt.Sprintf("u%d-%d", lg.Slot, sl.inc)
			rec := ""
			if lg.UID {
				rec = uid
			}
			var ips []string
			if s.v4() {
				ips = append(ips, e.V4[j+1])
			}
			if s.v6() {
				ips = append(ips, e.V6[j])
			}
			if !lg.Takeover {
				if s.v4() {
					ni.IPv4[e.V4[j+1]].PodID, ni.IPv4[e.V4[j+1]].PodUID = c03lPodID(lg.Slot), rec
				}
				if s.v6() {
					ni.IPv6[e.V6[j]].PodID, ni.IPv6[e.V6[j]].PodUID = c03lPodID(lg.Slot), rec
				}
			}
			if lg.Present {
				if lg.Takeover {
					w.createPodObject(lg.Slot, uid, ips...)
					w.takeover[c03lPodID(lg.Slot)] = true
				} else {
					w.createPodObject(lg.Slot, uid)
				}
				// a running pod taken over: its sandbox is up, the agent has no record of it
				sl.boxes = append(sl.boxes, &c03lSandbox{uid: uid, cid: fmt.Sprintf("c%d-legacy", lg.Slot), ips: ips, ok: true, up: true, step: -1})
			}
		}
		cur := &networkv1beta1.Node{}
		w.must(w.cl.Get(w.ctx, client.ObjectKey{Name: c03lNode}, cur), "get node cr")
		cur.Status.NetworkInterfaces = map[string]*networkv1beta1.NetworkInterface{e.ID: ni}
		w.must(w.cl.Status().Update(w.ctx, cur), "seed node cr status")
		w.owners = c03cloud.SeedOwners(cur.Status.NetworkInterfaces)
	}
	if !s.NoRuntime {
		rt := &networkv1beta1.NodeRuntime{ObjectMeta: metav1.ObjectMeta{Name: c03lNode, Labels: map[string]string{"name": c03lNode}}}
		w.must(w.cl.Create(w.ctx, rt), "create node runtime")
	}

	vsw, err := vswitch.NewSwitchPool(10, "10m")
	w.must(err, "switch pool")
	gcPeriod := time.Duration(0)
	if !s.GCEvery {
		gcPeriod = 24 * time.Hour
	}
	w.ctl = ctlnode.C03NewReconciler(w.cl, terwayTypes.Scheme, w.cloud, vsw, c03lRecorder{}, gcPeriod)

	svc := &terwayTypes.IPNetSet{}
	svc.SetIPNet("172.16.0.0/16")
	w.k = &c03lK8s{Kubernetes: k8s.C03New(w.cl, storage.NewMemoryStorage(), daemon.ModeENIMultiIP, c03lNode, k8sNode, svc)}
	w.db = storage.NewMemoryStorage()
	w.startAgent()
	return w
}

// nodeStatusWrite is every write of the Node CR status: injected failures, and the
// bookkeeping for the lagging-cache reads (what the object looked like before the
// controller's last successful write). The store itself enforces resourceVersion
// conflicts on Update; a merge patch without a resourceVersion is applied as is, as
// an API server does.
func (w *c03lWorld) nodeStatusWrite(ctx context.Context, cl client.Client, obj client.Object, do func() error) error {
	if w.failNodeStatus {
		w.failNodeStatus = false
		if w.conflict {
			return apierrors.NewConflict(schema.GroupResource{Group: "network.alibabacloud.com", Resource: "nodes"}, obj.GetName(), errors.New("c03: injected conflict"))
		}
		return apierrors.NewInternalError(errors.New("c03: injected write failure"))
	}
	cur := &networkv1beta1.Node{}
	getErr := cl.Get(ctx, client.ObjectKeyFromObject(obj), cur)
	err := do()
	if err == nil && getErr == nil && w.inReconcile {
		w.staleNode, w.staleBudget = cur, 2
		w.wroteNode++
	}
	return err
}

// duringWrite runs the armed action (once) at the moment a NodeRuntime write of the
// agent is on its way to the API server.
func (w *c03lWorld) duringWrite() {
	if f := w.inWrite; f != nil {
		w.inWrite = nil
		f()
	}
}

// afterADD is the barrier the harness owns after a CNI ADD has returned. The allocator
// replies to the ADD first and withdraws the pod's pending teardown record afterwards,
// from its own goroutine (which may still be parked on the allocator's lock if the
// reporter tick was in flight). In the real system the next tick is seconds away; here
// the next step follows within microseconds, so the harness waits until that withdrawal
// has taken effect: the pod's uid is no longer among the pending records. This is a
// condition on the agent's state, not on timing, and is polled by count (every poll
// yields the processor), so a stalled process does not use the budget up. On a tree
// where the record is never withdrawn the budget runs out and the history simply goes
// on - the agent-side clause then judges what gets reported.
//
// (An earlier version waited for runtime.NumGoroutine() to fall back to the count taken
// at the start of the step. That count can be inflated by a goroutine of an earlier
// step that is still on its way out - wait.Group workers of a reconcile, or an earlier
// allocator goroutine - so the barrier could open while the withdrawal was still
// pending, and a following flush then published a `deleted` the unchanged agent was
// about to cancel: a schedule the harness produced, not one the system has.)
func (w *c03lWorld) afterADD(uid string, baseline int) {
	if uid == "" {
		return
	}
	pending := func() bool {
		for _, u := range w.crd.C03PendingDeleted() {
			if u == uid {
				return true
			}
		}
		return false
	}
	// Giving up early: if the record is still pending although no goroutine beyond the
	// process's idle set exists any more, the allocator's goroutine has come and gone
	// without withdrawing it (a tree that does not withdraw). The idle set is the
	// smallest goroutine count ever seen in this process at any poll or step start - a
	// reading can only be too high (a goroutine on its way out), never too low - and the
	// count must stay there for a run of polls.
	calm := 0
	for n := 0; pending(); n++ {
		if c03lSeeGoroutines() {
			calm++
		} else {
			calm = 0
		}
		if n >= 20000 || calm >= 40 {
			w.c.Label("add:pending-record-not-withdrawn")
			break
		}
		goruntime.Gosched()
		time.Sleep(20 * time.Microsecond)
	}
	// best effort on top: let the request's goroutines finish (never decides anything)
	for n := 0; n < 2000 && goruntime.NumGoroutine() > baseline; n++ {
		goruntime.Gosched()
		time.Sleep(20 * time.Microsecond)
	}
}

var c03lIdleGoroutines = 1 << 30

// c03lSeeGoroutines records the current goroutine count and reports whether it is at
// the smallest count ever seen (the idle set of the process).
func c03lSeeGoroutines() bool {
	n := goruntime.NumGoroutine()
	if n < c03lIdleGoroutines {
		c03lIdleGoroutines = n
	}
	return n <= c03lIdleGoroutines
}

// sandboxUp: the runtime has a sandbox of that pod uid up (ADD succeeded, no DEL since).
func (w *c03lWorld) sandboxUp(uid string) *c03lSandbox {
	for _, sl := range w.slots {
		for _, b := range sl.boxes {
			if b.uid == uid && b.ok && b.up {
				return b
			}
		}
	}
	return nil
}

func c03lNodeLabels(s c03lScenario) map[string]string {
	if s.EFLO {
		return map[string]string{terwayTypes.LinJunNodeLabelKey: "true"}
	}
	return nil
}

// opIPStatus: on a LingJun node the cloud reports an address that is bound to pod P with
// a transitional status (not "Available") in its next listings. Nothing is removed in
// the cloud; this is what a full sync sees while the address is being (re)configured.
func (w *c03lWorld) opIPStatus(op c03lOp) {
	if !w.s.EFLO {
		w.c.Trace("  (not a LingJun node)")
		return
	}
	cr := w.nodeCR()
	var cand []string
	for _, e := range cr.Status.NetworkInterfaces {
		for _, m := range []map[string]*networkv1beta1.IP{e.IPv4, e.IPv6} {
			for k, ip := range m {
				if ip.PodID == c03lPodID(op.P) && !ip.Primary {
					cand = append(cand, k)
				}
			}
		}
	}
	sort.Strings(cand)
	if len(cand) == 0 {
		w.c.Trace("  (pod has no address)")
		return
	}
	w.cloud.SetIPStatus(cand[0], "Executing", op.A)
	w.transitional[cand[0]] = true
	w.c.Trace("    cloud reports %s as Executing in its next %d listings", cand[0], op.A)
	w.c.Label("cloud:bound-address-in-transitional-status")
}

func (s c03lScenario) v4() bool { return !s.V6Only }
func (s c03lScenario) v6() bool { return s.V6 || s.V6Only }

func (w *c03lWorld) startAgent() {
	w.crd = eni.C03NewCRDV2(w.cl, terwayTypes.Scheme, c03lNode)
	mgr := eni.NewManager(0, 0, 0, 0, []eni.NetworkInterface{w.crd}, daemon.EniSelectionPolicyMostIPs, nil)
	w.svc = &networkService{
		daemonMode: daemon.ModeENIMultiIP,
		ipamType:   terwayTypes.IPAMTypeCRD,
		enableIPv4: w.s.v4(),
		enableIPv6: w.s.v6(),
		k8s:        w.k,
		resourceDB: w.db,
		eniMgr:     mgr,
	}
}

func (w *c03lWorld) must(err error, what string) {
	if err != nil {
		w.c.Inconclusive("harness: " + what + ": " + err.Error())
	}
}

func (w *c03lWorld) createPodObject(k int, uid string, reports ...string) {
	sl := w.slots[k]
	pod := &corev1.Pod{
		ObjectMeta: metav1.ObjectMeta{Namespace: "ns", Name: c03lPodName(k), UID: k8stypes.UID(uid)},
		Spec:       corev1.PodSpec{NodeName: c03lNode, Containers: []corev1.Container{{Name: "c", Image: "i"}}},
		Status:     corev1.PodStatus{Phase: corev1.PodRunning},
	}
	for _, ip := range reports {
		pod.Status.PodIPs = append(pod.Status.PodIPs, corev1.PodIP{IP: ip})
	}
	if len(reports) > 0 {
		pod.Status.PodIP = reports[0]
	}
	w.must(w.cl.Create(w.ctx, pod), "create pod")
	sl.uid, sl.exited = uid, false
}

func (w *c03lWorld) nodeCR() *networkv1beta1.Node {
	cr := &networkv1beta1.Node{}
	w.must(w.cl.Get(w.ctx, client.ObjectKey{Name: c03lNode}, cr), "get node cr")
	return cr
}

func (w *c03lWorld) runtimeObj() *networkv1beta1.NodeRuntime {
	rt := &networkv1beta1.NodeRuntime{}
	err := w.cl.Get(w.ctx, client.ObjectKey{Name: c03lNode}, rt)
	if apierrors.IsNotFound(err) {
		return nil
	}
	w.must(err, "get node runtime")
	return rt
}

func (w *c03lWorld) podTable() map[string]c03cloud.PodView {
	pods := &corev1.PodList{}
	w.must(w.cl.List(w.ctx, pods), "list pods")
	out := map[string]c03cloud.PodView{}
	for _, p := range pods.Items {
		out[p.Namespace+"/"+p.Name] = c03cloud.PodView{UID: string(p.UID),
			Exited: p.Status.Phase == corev1.PodSucceeded || p.Status.Phase == corev1.PodFailed}
	}
	return out
}

func c03lShowRT(rt *networkv1beta1.NodeRuntime, base time.Time) string {
	if rt == nil {
		return "<no NodeRuntime>"
	}
	uids := make([]string, 0, len(rt.Status.Pods))
	for u := range rt.Status.Pods {
		uids = append(uids, u)
	}
	sort.Strings(uids)
	var sb strings.Builder
	for _, u := range uids {
		e := rt.Status.Pods[u]
		if e == nil {
			continue
		}
		fmt.Fprintf(&sb, "%s(%s){", u, e.PodID)
		for _, k := range []networkv1beta1.CNIStatus{networkv1beta1.CNIStatusInitial, networkv1beta1.CNIStatusDeleted} {
			if v := e.Status[k]; v != nil {
				fmt.Fprintf(&sb, "%s@%ds ", k, int(v.LastUpdateTime.Sub(base).Seconds()))
			}
		}
		sb.WriteString("} ")
	}
	return sb.String()
}

func c03lShowCR(enis map[string]*networkv1beta1.NetworkInterface) string {
	ids := make([]string, 0, len(enis))
	for id := range enis {
		ids = append(ids, id)
	}
	sort.Strings(ids)
	var sb strings.Builder
	for _, id := range ids {
		e := enis[id]
		fmt.Fprintf(&sb, "%s[%s]:", id, e.Status)
		for _, m := range []map[string]*networkv1beta1.IP{e.IPv4, e.IPv6} {
			ks := make([]string, 0, len(m))
			for k := range m {
				ks = append(ks, k)
			}
			sort.Strings(ks)
			for _, k := range ks {
				ip := m[k]
				fmt.Fprintf(&sb, " %s", k)
				if ip.Status != networkv1beta1.IPStatusValid {
					fmt.Fprintf(&sb, "(%s)", ip.Status)
				}
				if ip.PodID != "" {
					fmt.Fprintf(&sb, "=%s/%s", ip.PodID, ip.PodUID)
				}
			}
		}
		sb.WriteString("; ")
	}
	return sb.String()
}

// settle gives every NodeRuntime timestamp written by the step a fresh virtual second
// (events are >= 1 s apart and all lie well in the past, so that neither second-granular
// ties nor the agent's 30 s freshness guard depend on the wall clock) and checks the
// agent-side clause on every `deleted` entry that appeared or was refreshed.
func (w *c03lWorld) settle(step string, before *networkv1beta1.NodeRuntime) {
	w.vnow = w.vnow.Add(2 * time.Second)
	rt := w.runtimeObj()
	if rt == nil {
		return
	}
	dirty := false
	uids := make([]string, 0, len(rt.Status.Pods))
	for u := range rt.Status.Pods {
		uids = append(uids, u)
	}
	sort.Strings(uids)
	for _, u := range uids {
		e := rt.Status.Pods[u]
		if e == nil {
			continue
		}
		changed := 0
		for _, key := range []networkv1beta1.CNIStatus{networkv1beta1.CNIStatusInitial, networkv1beta1.CNIStatusDeleted} {
			info := e.Status[key]
			if info == nil {
				continue
			}
			var old *networkv1beta1.CNIStatusInfo
			if before != nil {
				if be := before.Status.Pods[u]; be != nil {
					old = be.Status[key]
				}
			}
			if old != nil && old.LastUpdateTime.Time.Equal(info.LastUpdateTime.Time) {
				continue
			}
			changed++
			info.LastUpdateTime = metav1.NewTime(w.vnow)
			dirty = true
			if key == networkv1beta1.CNIStatusDeleted {
				w.c.Trace("    runtime: %s (%s) reported deleted by %s", u, e.PodID, step)
				if !w.delIssued[u] && !w.verified[u] {
					w.c.Fatalf("step %s: NodeRuntime reports teardown (deleted) for pod uid %s (%s), but no DEL for that pod was processed and no GC verified that it no longer exists",
						step, u, e.PodID)
				}
				if b := w.sandboxUp(u); b != nil && !w.verified[u] {
					w.c.Fatalf("step %s: NodeRuntime reports teardown (deleted) for pod uid %s (%s) although the pod was given a sandbox again since its DEL: %s (ADD in step %d) is up and no DEL was processed for it",
						step, u, e.PodID, b.cid, b.step)
				}
				w.reportStep[u] = w.step
				w.everReported[u] = true
				if w.delIssued[u] {
					w.c.Label("deleted-by:del")
				} else {
					w.c.Label("deleted-by:gc-verified-absent")
				}
			}
		}
		if changed > 1 {
			w.c.Inconclusive("one step wrote both initial and deleted for one pod (tie)")
		}
	}
	if dirty {
		w.must(w.cl.Status().Update(w.ctx, rt), "rewrite runtime timestamps")
	}
}

// ---------------------------------------------------------------- steps

func (w *c03lWorld) opCreate(op c03lOp) {
	sl := w.slots[op.P]
	if sl.uid != "" {
		w.c.Trace("  (pod exists)")
		return
	}
	sl.inc++
	w.createPodObject(op.P, fmt.Sprintf("u%d-%d", op.P, sl.inc))
}

func (w *c03lWorld) opDelObj(op c03lOp) {
	sl := w.slots[op.P]
	if sl.uid == "" {
		w.c.Trace("  (no pod object)")
		return
	}
	pod := &corev1.Pod{ObjectMeta: metav1.ObjectMeta{Namespace: "ns", Name: c03lPodName(op.P)}}
	w.must(w.cl.Delete(w.ctx, pod), "delete pod")
	sl.uid, sl.exited = "", false
}

func (w *c03lWorld) opPhase(op c03lOp) {
	sl := w.slots[op.P]
	if sl.uid == "" {
		w.c.Trace("  (no pod object)")
		return
	}
	pod := &corev1.Pod{}
	w.must(w.cl.Get(w.ctx, client.ObjectKey{Namespace: "ns", Name: c03lPodName(op.P)}, pod), "get pod")
	pod.Status.Phase = corev1.PodSucceeded
	if op.A == 1 {
		pod.Status.Phase = corev1.PodFailed
	}
	w.must(w.cl.Status().Update(w.ctx, pod), "pod phase")
	sl.exited = true
	// the containers and the sandbox of a finished pod are down
	for _, b := range sl.boxes {
		if b.uid == sl.uid {
			b.up = false
		}
	}
}

// opAdd returns the uid of the pod the ADD was issued for ("" if none was issued).
func (w *c03lWorld) opAdd(op c03lOp) (issued string) {
	sl := w.slots[op.P]
	if sl.uid == "" || sl.exited {
		w.c.Trace("  (kubelet starts no sandbox: no live pod object)")
		return ""
	}
	issued = sl.uid
	// kubelet stops the previous sandbox of THIS pod before it creates a new one (its
	// DEL may come late or twice); a sandbox of an earlier pod of the same name lives
	// on until its own DEL
	for _, b := range sl.boxes {
		if b.uid == sl.uid {
			b.up = false
		}
	}
	sl.seq++
	cid := fmt.Sprintf("c%d-%d", op.P, sl.seq)
	box := &c03lSandbox{uid: sl.uid, cid: cid, step: w.step}
	sl.boxes = append(sl.boxes, box)
	ctx, cancel := context.WithTimeout(w.ctx, 20*time.Second)
	defer cancel()
	reply, err := w.svc.AllocIP(ctx, &rpc.AllocIPRequest{
		K8SPodName: c03lPodName(op.P), K8SPodNamespace: "ns", K8SPodInfraContainerId: cid,
		Netns: "/proc/1/ns/net", IfName: "eth0",
	})
	if err != nil || reply == nil || !reply.Success {
		w.c.Trace("    ADD %s failed: %v", cid, err)
		w.c.Label("add:failed")
		return
	}
	var ips []string
	for _, nc := range reply.NetConfs {
		if nc.BasicInfo != nil && nc.BasicInfo.PodIP != nil {
			if nc.BasicInfo.PodIP.IPv4 != "" {
				ips = append(ips, nc.BasicInfo.PodIP.IPv4)
			}
			if nc.BasicInfo.PodIP.IPv6 != "" {
				ips = append(ips, nc.BasicInfo.PodIP.IPv6)
			}
		}
	}
	w.c.Trace("    ADD %s -> %v", cid, ips)
	w.c.Label("add:ok")
	if w.delIssued[sl.uid] {
		w.c.Label("re-add-after-del(same uid)")
	}
	box.ips, box.ok, box.up = ips, true, true
	delete(w.everReported, sl.uid)
	if op.A == 1 && len(ips) > 0 {
		pod := &corev1.Pod{}
		w.must(w.cl.Get(w.ctx, client.ObjectKey{Namespace: "ns", Name: c03lPodName(op.P)}, pod), "get pod")
		pod.Status.PodIP = ips[0]
		pod.Status.PodIPs = nil
		for _, ip := range ips {
			pod.Status.PodIPs = append(pod.Status.PodIPs, corev1.PodIP{IP: ip})
		}
		w.must(w.cl.Status().Update(w.ctx, pod), "pod ip")
	}
	return issued
}

func (w *c03lWorld) opDel(op c03lOp) {
	sl := w.slots[op.P]
	// A=0: DEL for the most recently started sandbox; A=1: for the one before it (a
	// late or repeated DEL), or for a container id the agent never saw
	var box *c03lSandbox
	cid := fmt.Sprintf("c%d-unknown", op.P)
	switch {
	case op.A == 0 && len(sl.boxes) > 0:
		box = sl.boxes[len(sl.boxes)-1]
	case op.A == 1 && len(sl.boxes) > 1:
		box = sl.boxes[len(sl.boxes)-2]
	case op.A == 0:
		w.c.Trace("  (no sandbox was ever started)")
		return
	}
	if box != nil {
		cid = box.cid
	}
	ctx, cancel := context.WithTimeout(w.ctx, 20*time.Second)
	defer cancel()
	_, err := w.svc.ReleaseIP(ctx, &rpc.ReleaseIPRequest{
		K8SPodName: c03lPodName(op.P), K8SPodNamespace: "ns", K8SPodInfraContainerId: cid,
	})
	if box == nil {
		w.c.Trace("    DEL %s (unknown container): err=%v", cid, err)
		w.c.Label("del:unknown-container-id")
		return
	}
	// the runtime tears the sandbox down whatever the plugin answers
	box.up = false
	late := sl.superseded(box)
	w.c.Trace("    DEL %s (pod %s, superseded by a later sandbox of that pod=%v): err=%v", cid, box.uid, late, err)
	if late {
		w.c.Label("del:superseded-sandbox")
		return
	}
	if err == nil {
		// a DEL for the pod's (last) sandbox was processed
		w.delIssued[box.uid] = true
		w.c.Label("del:latest-sandbox")
	}
}

func (w *c03lWorld) opFlush(op c03lOp) {
	w.failRuntime = op.A == 1
	err := w.crd.C03SyncNodeRuntime(w.ctx)
	w.failRuntime = false
	w.c.Trace("    flush: err=%v pending=%v", err, w.crd.C03PendingDeleted())
	if err != nil {
		w.c.Label("flush:lost")
	}
}

// opFlushAdd: the reporter tick runs; while its write to the API server is in flight a
// CNI ADD for pod P completes (kubelet re-creating the sandbox); then the write fails.
// The records the tick wanted to report stay pending, except that of the pod that was
// just given a sandbox again: its ADD cancelled it and it must never be reported.
func (w *c03lWorld) opFlushAdd(op c03lOp) (issued string) {
	ran := false
	w.inWrite = func() {
		ran = true
		w.c.Trace("    (tick's write in flight)")
		issued = w.opAdd(op)
	}
	w.failRuntime = true
	err := w.crd.C03SyncNodeRuntime(w.ctx)
	w.failRuntime = false
	w.inWrite = nil
	if !ran {
		// nothing was pending, the tick made no write: a plain ADD then
		w.c.Trace("    (tick had nothing to write)")
		issued = w.opAdd(op)
		w.c.Label("flushadd:no-write")
		return issued
	}
	w.c.Trace("    tick: err=%v", err)
	w.c.Label("flushadd:add-inside-failed-write")
	return issued
}

func (w *c03lWorld) opSyncDel(op c03lOp) {
	w.failRuntime = op.A == 1
	err := w.crd.C03SyncDeletedPods(w.ctx)
	w.failRuntime = false
	w.c.Trace("    syncDeletedPods: err=%v", err)
}

func (w *c03lWorld) opGC(op c03lOp) {
	before := w.runtimeObj()
	w.k.mode, w.k.absent, w.k.asked = op.A, nil, 0
	w.failRuntime = op.B == 1
	err := w.svc.gcPods(w.ctx)
	w.failRuntime = false
	w.k.mode = 0
	w.c.Trace("    gcPods: err=%v podExist asked=%d absent=%v pending=%v", err, w.k.asked, w.k.absent, w.crd.C03PendingDeleted())
	if err != nil {
		w.c.Label("gc:aborted")
	}
	if w.k.asked > 0 {
		w.c.Labelf("gc:podexist-mode-%d", op.A)
	}
	// what the API re-check established: these names have no pod object; every uid
	// the agent or the runtime status knows under such a name is verified absent
	for _, name := range w.k.absent {
		w.c.Label("gc:verified-absent")
		if before != nil {
			for u, e := range before.Status.Pods {
				if e != nil && e.PodID == name {
					w.verified[u] = true
				}
			}
		}
		for k, sl := range w.slots {
			if c03lPodID(k) == name {
				for _, b := range sl.boxes {
					w.verified[b.uid] = true
				}
			}
		}
	}
}

func (w *c03lWorld) opReconcile(i int, op c03lOp) {
	w.ctl.Unthrottle(c03lNode)
	forcedGC := op.A&1 != 0
	if forcedGC {
		w.ctl.GCDue(c03lNode)
	}
	if op.A&2 != 0 {
		w.ctl.ForceFullSync(c03lNode)
	}
	statusFault := op.A&4 != 0
	w.failNodeStatus, w.conflict = statusFault, op.A&1 != 0
	w.cloud.SetFaults(op.Faults)
	switch op.B {
	case 1:
		// the next assign request is executed by the cloud but its answer is lost
		w.cloud.SetOpFault("AssignV4", c03cloud.FaultAfter)
	case 2:
		w.cloud.SetOpFault("AssignV6", c03cloud.FaultAfter)
	}
	w.cloud.TakeLog()

	prev := w.nodeCR()
	pods := w.podTable()
	rt := w.runtimeObj()

	// classes / non-triviality, evaluated on the state the reconcile starts from
	bound := 0
	for _, e := range prev.Status.NetworkInterfaces {
		for _, m := range []map[string]*networkv1beta1.IP{e.IPv4, e.IPv6} {
			for _, ip := range m {
				if ip.PodID == "" {
					continue
				}
				bound++
				if !c03cloud.NameStillThere(ip.PodID, pods) {
					if c03cloud.TeardownReported(ip.PodUID, rt) {
						w.c.Label("reconcile:pod-gone+teardown-reported")
					} else {
						w.c.Label("reconcile:pod-gone+report-pending")
						w.sawPending = true
					}
				}
			}
		}
	}
	if bound > 0 && (forcedGC || w.s.GCEvery) {
		w.c.Label("reconcile:gc-with-bound-addresses")
		w.c.NonTrivial()
	}
	if w.sawPending {
		w.c.NonTrivial()
	}

	// stale read: only directly after a write by the controller (it requeues itself one
	// second after every write, which is when a lagging informer matters)
	stale := op.A&8 != 0 && w.staleNode != nil && w.staleBudget > 0
	w.inReconcile, w.serveStale, w.staleServed, w.wroteNode = true, stale, 0, 0
	_, err := w.ctl.Reconcile(w.ctx, c03lNode)
	w.inReconcile, w.serveStale = false, false
	if stale {
		w.staleBudget--
		w.c.Label("reconcile:stale-node-view")
		if apierrors.IsConflict(err) {
			w.c.Label("reconcile:stale-node-view->conflict")
		}
		if w.wroteNode > 0 {
			w.c.Label("reconcile:stale-node-view->write-accepted")
		}
		w.c.Trace("    (Node CR read from a lagging cache: the object before the controller's last write; writes accepted: %d)", w.wroteNode)
	} else {
		if w.wroteNode == 0 {
			// a reconcile on the current object that wrote nothing: the cache has caught up
			w.staleNode, w.staleBudget = nil, 0
		}
	}
	w.failNodeStatus = false
	w.cloud.SetFaults(nil)
	w.cloud.SetOpFault("AssignV4", c03cloud.FaultNone)
	w.cloud.SetOpFault("AssignV6", c03cloud.FaultNone)
	calls := w.cloud.TakeLog()
	now := w.nodeCR()
	for _, cl := range calls {
		if cl.Mutating() {
			w.c.Trace("    cloud %s", cl)
		}
		if cl.Op == "AssignV4(replay)" || cl.Op == "AssignV6(replay)" {
			w.c.Label("cloud:assign-answer-replayed")
			if e := prev.Status.NetworkInterfaces[cl.ENI]; e != nil && !stale {
				for _, x := range cl.IPs {
					for _, m := range []map[string]*networkv1beta1.IP{e.IPv4, e.IPv6} {
						if ip := m[x]; ip != nil && ip.Status == networkv1beta1.IPStatusDeleting {
							w.revived[x] = true
							w.c.Label("cloud:replay-revives-a-deleting-address")
						}
					}
				}
			}
		}
		if (cl.Op == "AssignV4" || cl.Op == "AssignV6") && cl.Err == "after" {
			w.c.Label("cloud:assign-answer-lost")
		}
	}
	w.c.Trace("    reconcile: err=%v", err)
	w.c.Trace("    record: %s", c03lShowCR(now.Status.NetworkInterfaces))

	// safety
	// reclaims are judged against the ground-truth owner of a binding (the pod object it
	// was made for), not against the UID the record happens to carry
	prevTruth := c03cloud.WithTruth(prev.Status.NetworkInterfaces, w.owners)
	for _, tch := range c03cloud.Touches(prevTruth, now.Status.NetworkInterfaces, calls) {
		ok, why := c03cloud.MayReclaim(tch.PodID, tch.PodUID, pods, rt)
		if !ok && stale && w.revived[tch.IP] && strings.Contains(tch.What, "named in cloud call") && vt.Known(c03lKnownStaleUnassign) && !w.s.Witness {
			// the cloud has lost an address the record still has: the rest of this history
			// would only show the consequences of that (the next full sync drops it)
			w.c.Label("known:" + c03lKnownStaleUnassign)
			w.abandon = true
			continue
		}
		if !ok && stale && w.transitional[tch.IP] && strings.Contains(tch.What, "named in cloud call") && vt.Known(c03lKnownStaleTransitional) && !w.s.Witness {
			w.c.Label("known:" + c03lKnownStaleTransitional)
			w.abandon = true
			continue
		}
		if !ok {
			w.c.Fatalf("step %d (reconcile): %s -- but %s. pods at start: %v; runtime at start: %s",
				i, tch, why, pods, c03lShowRT(rt, w.vnow))
		}
		if tch.PodUID == "" {
			w.c.Label("reclaimed:no-uid-binding")
		} else {
			w.c.Label("reclaimed:after-teardown-report")
		}
		w.strict(i, tch)
	}

	c03cloud.TrackOwners(w.owners, prev.Status.NetworkInterfaces, now.Status.NetworkInterfaces, pods)
	for _, e := range now.Status.NetworkInterfaces {
		for _, m := range []map[string]*networkv1beta1.IP{e.IPv4, e.IPv6} {
			for _, ip := range m {
				if ip.PodID != "" && w.takeover[ip.PodID] {
					w.c.Label("take-over:address-linked-to-reporting-pod")
				}
			}
		}
	}
	for _, e := range prev.Status.NetworkInterfaces {
		for _, m := range []map[string]*networkv1beta1.IP{e.IPv4, e.IPv6} {
			for _, ip := range m {
				if ip.PodID != "" && w.takeover[ip.PodID] && !c03cloud.NameStillThere(ip.PodID, pods) && !c03cloud.TeardownReported(w.owners[ip.IP].UID, rt) {
					w.c.Label("take-over:pod-gone+report-pending")
				}
			}
		}
	}

	// bounded liveness, fault-free reconciles only
	faulty := err != nil || statusFault || stale
	for _, cl := range calls {
		if cl.Err != "" {
			faulty = true
		}
	}
	if !faulty {
		for id, e := range prev.Status.NetworkInterfaces {
			for fam, m := range map[string]map[string]*networkv1beta1.IP{"v4": e.IPv4, "v6": e.IPv6} {
				for k, ip := range m {
					if ip.PodID == "" || ip.PodUID == "" || c03cloud.NameStillThere(ip.PodID, pods) {
						continue
					}
					inRT := c03cloud.TeardownReported(ip.PodUID, rt)
					if !inRT && !w.everReported[ip.PodUID] {
						continue
					}
					var cur *networkv1beta1.IP
					if ne := now.Status.NetworkInterfaces[id]; ne != nil {
						if fam == "v4" {
							cur = ne.IPv4[k]
						} else {
							cur = ne.IPv6[k]
						}
					}
					if cur != nil && cur.PodID == ip.PodID {
						if !inRT {
							// the report was there once and is gone again (the agent's
							// housekeeping dropped it while the record did not carry the
							// UID yet, ...): whether the address still becomes free is
							// decided by the closing sequence at the end of the history
							w.c.Label("liveness:report-dropped-before-reclaim")
							continue
						}
						w.c.Fatalf("step %d (reconcile, no faults): %s %s is still bound to %s/%s although the pod is gone and its teardown is reported (%s)",
							i, fam, k, ip.PodID, ip.PodUID, c03lShowRT(rt, w.vnow))
					}
					w.c.Label("freed:gone+teardown-reported")
				}
			}
		}
	} else {
		w.c.Label("reconcile:faulty")
	}
}

// strict flags a reclaim that happens while the runtime still has a sandbox of that
// very pod up on that address and nothing ever verified that the pod is gone: the
// literal gate was satisfied by a teardown report that belongs to an EARLIER sandbox of
// the same pod UID (kubelet re-created the sandbox: DEL c1, ADD c2, same UID; nothing
// refreshes `initial` or withdraws `deleted` on ADD, so `deleted` stays the final
// status for the rest of the pod's life). The teardown of the sandbox that uses the
// address has not completed, which is what the statement asks for. A report that rests
// on the GC's API re-check ("verified no longer exist") is accepted by the statement
// whatever the sandbox does, so it is not flagged.
func (w *c03lWorld) strict(i int, tch c03cloud.Touch) {
	if tch.PodUID == "" {
		return
	}
	w.otherInstance(i, tch)
	if w.verified[tch.PodUID] {
		return
	}
	for k, sl := range w.slots {
		if c03lPodID(k) != tch.PodID {
			continue
		}
		for _, b := range sl.boxes {
			if b.uid != tch.PodUID || !b.up {
				continue
			}
			uses := false
			for _, ip := range b.ips {
				if ip == tch.IP {
					uses = true
				}
			}
			if !uses {
				continue
			}
			// the listed finding is: `deleted` was flushed BEFORE the pod's re-ADD started
			// and nothing withdraws it. A report written in or after the ADD's step is
			// a different failure and is never excused.
			if rs, ok := w.reportStep[tch.PodUID]; ok && rs < b.step && vt.Known(c03lKnownReAdd) && !w.s.Witness {
				w.c.Label("known:" + c03lKnownReAdd)
				return
			}
			w.c.Fatalf("step %d (reconcile): %s -- the teardown report for %s belongs to an earlier sandbox of the pod; its sandbox %s is still up on this address (no DEL was issued for it, no GC verified the pod gone)",
				i, tch, tch.PodUID, b.cid)
		}
	}
}

// otherInstance: the harness's ground truth of who was given a sandbox on the address.
// The record says the address belongs to pod instance U (and U's teardown is reported,
// or the gate would not have opened), but the agent has served a LATER instance of the
// same pod name from that record: the latest pod of that name has a sandbox up on this
// very address, no DEL was processed for it and no GC verified it gone. The address is
// reclaimed before the teardown of the pod that really holds it was reported. (An
// earlier instance whose sandbox is still up while the record already names its
// successor is not judged here: the control plane re-binds by name on purpose.)
func (w *c03lWorld) otherInstance(i int, tch c03cloud.Touch) {
	for k, sl := range w.slots {
		if c03lPodID(k) != tch.PodID || sl.inc == 0 {
			continue
		}
		latest := fmt.Sprintf("u%d-%d", k, sl.inc)
		if latest == tch.PodUID || w.verified[latest] {
			continue
		}
		for _, b := range sl.boxes {
			if b.uid != latest || !b.ok || !b.up {
				continue
			}
			for _, ip := range b.ips {
				if ip == tch.IP {
					w.c.Fatalf("step %d (reconcile): %s -- the record names pod instance %s, but the agent gave this address to the sandbox %s of the later instance %s of that pod (ADD in step %d); that sandbox is up, no DEL was processed for it and no GC verified the pod gone",
						i, tch, tch.PodUID, b.cid, latest, b.step)
				}
			}
		}
	}
}

func c03lRun(c *vt.Ctx, s c03lScenario) {
	ctlnode.VerifSleepDivisor = 1000000
	backoff.OverrideBackoff(map[string]wait.Backoff{
		backoff.WaitPodENIStatus: {Duration: time.Millisecond, Factor: 1, Steps: 2},
	})
	w := c03lNewWorld(c, s)
	if s.RealMAC {
		c.Label("cfg:real-mac")
	}
	for i, op := range s.Ops {
		c.Trace("%d: %s p=%d a=%d b=%d f=%v", i, op.K, op.P, op.A, op.B, op.Faults)
		var before *networkv1beta1.NodeRuntime
		agentStep := false
		switch op.K {
		case "add", "del", "flush", "flushadd", "syncdel", "gc":
			agentStep = true
			before = w.runtimeObj()
		}
		w.step = i
		c03lSeeGoroutines()
		goroutines := goruntime.NumGoroutine()
		switch op.K {
		case "create":
			w.opCreate(op)
		case "delobj":
			w.opDelObj(op)
		case "phase":
			w.opPhase(op)
		case "add":
			w.afterADD(w.opAdd(op), goroutines)
		case "del":
			w.opDel(op)
		case "flush":
			w.opFlush(op)
		case "flushadd":
			w.afterADD(w.opFlushAdd(op), goroutines)
		case "ipstatus":
			w.opIPStatus(op)
		case "syncdel":
			w.opSyncDel(op)
		case "gc":
			w.opGC(op)
		case "reconcile":
			w.opReconcile(i, op)
		case "restartd":
			w.startAgent()
			c.Label("agent-restart")
		case "restartc":
			w.ctl.Restart(c03lNode)
		default:
			c.Inconclusive("unknown op " + op.K)
		}
		if agentStep {
			w.settle(op.K, before)
		}
		if w.abandon {
			return
		}
	}
	w.closing(len(s.Ops))
}

// closing checks the liveness clause "once the pod is gone and teardown is reported,
// the address does become free again" as bounded convergence. If the history ends with
// an address still bound to a pod whose object is gone and whose teardown the agent has
// reported (the report is in NodeRuntime, or was there and the pod got no sandbox
// since), two fault-free rounds of the periodic jobs of both sides follow (reporter
// tick, 5-minute housekeeping, agent GC with a truthful API re-check, reporter tick,
// reconcile); after them such an address must be free. The safety oracles stay armed
// during these steps.
func (w *c03lWorld) closing(n int) {
	stuck := func() []string {
		cr := w.nodeCR()
		pods := w.podTable()
		rt := w.runtimeObj()
		var out []string
		for id, e := range cr.Status.NetworkInterfaces {
			for _, m := range []map[string]*networkv1beta1.IP{e.IPv4, e.IPv6} {
				for k, ip := range m {
					if ip.PodID == "" || ip.PodUID == "" || c03cloud.NameStillThere(ip.PodID, pods) {
						continue
					}
					if c03cloud.TeardownReported(ip.PodUID, rt) || w.everReported[ip.PodUID] {
						out = append(out, fmt.Sprintf("%s %s=%s/%s", id, k, ip.PodID, ip.PodUID))
					}
				}
			}
		}
		sort.Strings(out)
		return out
	}
	if len(stuck()) == 0 {
		return
	}
	w.c.Label("closing:run")
	step := n
	agent := func(kind string, f func()) {
		w.c.Trace("%d: (closing) %s", step, kind)
		w.step = step
		before := w.runtimeObj()
		f()
		w.settle(kind, before)
		step++
	}
	for round := 0; round < 2; round++ {
		agent("flush", func() { w.opFlush(c03lOp{K: "flush"}) })
		agent("syncdel", func() { w.opSyncDel(c03lOp{K: "syncdel"}) })
		agent("gc", func() { w.opGC(c03lOp{K: "gc"}) })
		agent("flush", func() { w.opFlush(c03lOp{K: "flush"}) })
		w.c.Trace("%d: (closing) reconcile", step)
		w.step = step
		w.opReconcile(step, c03lOp{K: "reconcile"})
		step++
	}
	if left := stuck(); len(left) > 0 {
		w.c.Fatalf("liveness: after the history and two fault-free rounds of flush / housekeeping / agent GC / flush / reconcile these addresses are still bound although their pod is gone and the agent had reported its teardown: %v; runtime: %s",
			left, c03lShowRT(w.runtimeObj(), w.vnow))
	}
	w.c.Label("closing:all-freed")
}

// Deterministic witness of the candidate finding C03-stale-view-unassigns-revived-address.
func TestVerifC03KnownWitnessStaleUnassign(t *testing.T) {
	s := c03lScenario{PerENI: 5, Witness: true, Ops: []c03lOp{
		{K: "create", P: 0}, {K: "reconcile"},
		{K: "create", P: 1}, {K: "reconcile", B: 1}, // assign executed, answer lost
		{K: "delobj", P: 1}, {K: "reconcile", A: 3}, // full sync records the address, pool GC marks it Deleting
		{K: "create", P: 2}, {K: "reconcile"}, // identical assign: answer replayed, address Valid again and bound to p2
		{K: "reconcile", A: 8}, // lagging view (address still Deleting): UnAssign in the cloud, then conflict
	}}
	vt.Witness(t, "C03", c03lKnownStaleUnassign,
		"a replayed assign answer revives an address the record had marked Deleting and it is bound to a pod; a reconcile on the Node CR as it was before that write unassigns the address in the cloud (its own status write is then refused, the cloud call is not undone) while the pod exists",
		s, c03lRun)
}

// Deterministic witness of the candidate finding C03-stale-view-unassigns-transitional-address.
func TestVerifC03KnownWitnessStaleTransitional(t *testing.T) {
	s := c03lScenario{V6: true, EFLO: true, PerENI: 2, Witness: true, Ops: []c03lOp{
		{K: "create", P: 0}, {K: "reconcile"}, // interface created, p0 bound (v4 + v6)
		{K: "add", P: 0},
		{K: "ipstatus", P: 0, A: 1}, // the cloud lists p0's IPv6 address as Executing once
		{K: "reconcile", A: 10},     // full sync on the view before the first write (no interface yet)
	}}
	vt.Witness(t, "C03", c03lKnownStaleTransitional,
		"LingJun node: a full sync that runs on the Node CR as it was before the controller's last write (the interface is not in that view) sees a bound address in a transitional status, records it Deleting as for a new interface and unassigns it in the cloud; its status write is refused, the cloud call stays, the pod exists",
		s, c03lRun)
}

func TestVerifC03ClosedLoop(t *testing.T) { vt.Run(t, c03lGen, c03lRun) }

// Deterministic witness of the candidate finding C03-readd-stale-deleted: the sandbox
// of a running pod is re-created (DEL c0-1, teardown flushed, ADD c0-2 under the same
// pod UID), then the pod object is force-deleted; the next reconcile frees the address
// although sandbox c0-2 is still up and no DEL was issued for it.
func TestVerifC03KnownWitnessReAdd(t *testing.T) {
	s := c03lScenario{PerENI: 3, Witness: true, Ops: []c03lOp{
		{K: "create"}, {K: "reconcile"}, {K: "add"}, {K: "del"}, {K: "flush"},
		{K: "add"}, {K: "delobj"}, {K: "reconcile"},
	}}
	vt.Witness(t, "C03", c03lKnownReAdd,
		"after a sandbox re-creation (DEL, flush, ADD with the same pod UID) the stale `deleted` status stays final; when the pod object is then force-deleted the controller frees the address while the new sandbox is still up",
		s, c03lRun)
}
