package daemon

// C05 - a daemon restart keeps acknowledged allocations and never double-allocates.
// A generated request history is executed once against the real service with hooks on
// every externally visible effect (cloud call before/after, database Put/Delete
// before/after, reply). At every hook the harness snapshots (copy of the bolt file, deep
// copy of the cloud, acknowledged-request model). For each selected crash point a new
// service is built from the snapshot exactly as a restarted daemon would be, and checked.

import (
	"bufio"
	"context"
	"encoding/json"
	"fmt"
	"os"
	"os/exec"
	"sort"
	"strings"
	"syscall"
	"testing"
	"time"

	"pgregory.net/rapid"

	"github.com/AliyunContainerService/terway/pkg/eni"
	"github.com/AliyunContainerService/terway/pkg/storage"
	"github.com/AliyunContainerService/terway/types/daemon"
	"github.com/AliyunContainerService/terway/zz_verif/cloudsim"
	"github.com/AliyunContainerService/terway/zz_verif/vt"
)

type c05Op struct {
	Kind string `json:"kind"` // add | del | newsandbox | syncpool
	Pod  int    `json:"pod"`
}

type c05Scenario struct {
	Cfg      vsPoolCfg `json:"cfg"`
	Ops      []c05Op   `json:"ops"`
	Crash    []int     `json:"crash"`     // crash point selectors (index mod number of effects)
	All      bool      `json:"all"`       // enumerate every crash point of the history
	Retry    []bool    `json:"retry"`     // per crash point: follow up an in-flight ADD with a retry (else DEL)
	Vanish   int       `json:"vanish"`    // >0: one interface (selector) is detached behind the daemon's back before restart
	FillMore int       `json:"fill_more"` // extra fresh pods to try beyond capacity
	// ShrinkCap > 0: the daemon is restarted with a smaller per-interface address limit
	// (cap - ShrinkCap, at least 1), e.g. after an instance-type change
	ShrinkCap int `json:"shrink_cap,omitempty"`
	// LegacyMask: pods (bit i = pod i) whose stored record is rewritten into the format old
	// releases wrote (only type and an id of the form <mac>.<ip>) before the restart: a
	// database that went through an upgrade. IPv4-only pools only (the old format has no IPv6).
	LegacyMask int `json:"legacy_mask,omitempty"`
}

func c05Gen(t *rapid.T) c05Scenario {
	s := c05Scenario{Cfg: vsGenCfg(t)}
	if rapid.IntRange(0, 4).Draw(t, "enionly") == 0 {
		// exclusive-ENI node: one address per interface, no trunk
		s.Cfg.ENIOnly, s.Cfg.Cap, s.Cfg.Batch, s.Cfg.Trunk = true, 1, 1, false
		for i := range s.Cfg.PreENIs {
			s.Cfg.PreENIs[i] = 1
		}
		s.Cfg.Slots += rapid.IntRange(0, 2).Draw(t, "moreslots")
	}
	n := rapid.IntRange(1, vt.Scale(10, 24)).Draw(t, "nops")
	for i := 0; i < n; i++ {
		s.Ops = append(s.Ops, c05Op{
			Kind: rapid.SampledFrom([]string{"add", "add", "add", "newsandbox", "del", "del", "syncpool"}).Draw(t, "kind"),
			Pod:  rapid.IntRange(0, c04Pods-1).Draw(t, "pod"),
		})
	}
	s.All = vt.Thorough()
	nc := rapid.IntRange(1, vt.Scale(12, 40)).Draw(t, "ncrash")
	for i := 0; i < nc; i++ {
		s.Crash = append(s.Crash, rapid.IntRange(0, 400).Draw(t, "crash"))
		s.Retry = append(s.Retry, rapid.Bool().Draw(t, "retry"))
	}
	if rapid.IntRange(0, 5).Draw(t, "vanish") == 0 {
		s.Vanish = rapid.IntRange(1, 4).Draw(t, "vanishsel")
	}
	if rapid.IntRange(0, 4).Draw(t, "shrink") == 0 {
		s.ShrinkCap = rapid.IntRange(1, 3).Draw(t, "shrinkcap")
	}
	if !s.Cfg.V6 && !s.Cfg.ENIOnly && rapid.IntRange(0, 3).Draw(t, "legacy") == 0 {
		s.LegacyMask = rapid.IntRange(1, 1<<c04Pods-1).Draw(t, "legacymask")
	}
	return s
}

type c05Snap struct {
	event    string
	db       []byte
	cloud    *cloudsim.Cloud
	model    [c04Pods]c04PodModel
	inflight *c04Req // request in flight at the crash (nil between requests)
	cid      string
	inside   bool // strictly inside a request (between its first and last effect)
}

func c05CopyModel(x *c04World) [c04Pods]c04PodModel {
	var out [c04Pods]c04PodModel
	for i, m := range x.pods {
		out[i] = *m
		out[i].cids = append([]string(nil), m.cids...)
		if m.cur != nil {
			c := *m.cur
			out[i].cur = &c
		}
	}
	return out
}

func c05Run(c *vt.Ctx, s c05Scenario) {
	cloud := cloudsim.New()
	vsAddPreENIs(cloud, s.Cfg)
	k := vsNewK8s()
	dir := vsScratchDir()
	w, err := vsStart(s.Cfg, cloud, k, dir, dir+"/pod.db")
	if err != nil {
		_ = os.RemoveAll(dir)
		c.Fatalf("service start failed: %v", err)
	}
	cleaned := false
	defer func() {
		if !cleaned {
			w.cleanup()
		}
	}()
	x := &c04World{c: c, w: w, gate: &c04Gate{}, labels: map[string]bool{}}
	for i := range x.pods {
		x.pods[i] = &c04PodModel{}
		k.setPod(c04PodName(i), fmt.Sprintf("uid-%d-0", i), false)
	}
	if !w.waitQuiescent(2 * time.Second) {
		c.Inconclusive("pool not quiescent after start")
	}

	// ---- phase 1: run the history once, snapshotting at every effect
	var snaps []c05Snap
	var cur *c04Req
	var curCid string
	effects := 0
	snap := func(event string, cl *cloudsim.Cloud) {
		db, err := os.ReadFile(w.dbPath)
		if err != nil {
			return
		}
		sn := c05Snap{event: event, db: db, cloud: cl, model: c05CopyModel(x), cid: curCid, inside: cur != nil && effects > 0}
		if cur != nil {
			r := *cur
			sn.inflight = &r
		}
		snaps = append(snaps, sn)
		effects++
	}
	cloud.Hook = func(cl *cloudsim.Cloud, call *cloudsim.Call) {
		if call.Kind != cloudsim.KLoad {
			snap("before-cloud:"+call.Kind, cl.CloneLocked())
		}
	}
	cloud.After = func(cl *cloudsim.Cloud, call *cloudsim.Call) {
		if call.Kind != cloudsim.KLoad {
			snap("after-cloud:"+call.Kind, cl.CloneLocked())
		}
	}
	w.store.hook = func(op, key, phase string) {
		snap(phase+"-store:"+op, cloud.Clone())
	}

	for i, o := range s.Ops {
		c.Trace("--- op %d %s p%d", i, o.Kind, o.Pod)
		effects = 0
		switch o.Kind {
		case "syncpool":
			sp := c04Req{Kind: "syncpool"}
			cur, curCid = &sp, ""
			ctx, cancel := context.WithTimeout(context.Background(), 500*time.Millisecond)
			eni.VerifSyncPool(ctx, w.svc.eniMgr)
			cancel()
			if !w.waitQuiescent(2 * time.Second) {
				c.Inconclusive("pool not quiescent after balancer pass")
			}
			cur = nil
			snap("after-balancer", cloud.Clone())
		default:
			r := c04Req{Kind: "add", Pod: o.Pod, Cid: 0}
			switch o.Kind {
			case "del":
				r.Kind = "del"
			case "newsandbox":
				r.Cid = 2
			}
			cid := x.cidFor(r)
			before := x.podView(o.Pod)
			cur, curCid = &r, cid
			ctx, cancel := context.WithTimeout(context.Background(), c04ReqTimeout)
			res := x.issue(ctx, r, cid)
			cancel()
			if !w.waitQuiescent(2 * time.Second) {
				c.Inconclusive("pool not quiescent after request")
			}
			cur = nil
			x.judge(r, cid, res, before, false)
			snap("reply:"+r.Kind, cloud.Clone())
		}
	}
	cloud.Hook, cloud.After, w.store.hook = nil, nil, nil
	w.cleanup()
	cleaned = true
	if len(snaps) == 0 {
		return
	}

	// ---- phase 2: crash points
	var points []int
	if s.All {
		for i := range snaps {
			points = append(points, i)
		}
	} else {
		seen := map[int]bool{}
		for _, sel := range s.Crash {
			i := sel % len(snaps)
			if !seen[i] {
				seen[i] = true
				points = append(points, i)
			}
		}
		sort.Ints(points)
	}
	c.Labelf("effects:%d", (len(snaps)/10)*10)
	nInside := 0
	for pi, idx := range points {
		sn := snaps[idx]
		retry := false
		if pi < len(s.Retry) {
			retry = s.Retry[pi]
		}
		if sn.inside {
			nInside++
		}
		c05Restart(c, s, idx, sn, retry)
	}
	if nInside > 0 {
		c.Label("crash-inside-request")
		c.NonTrivial()
	}
	if s.Vanish > 0 {
		c.Label("vanished-interface")
		c.NonTrivial()
	}
	if s.ShrinkCap > 0 {
		c.NonTrivial()
	}
}

// c05Restart builds a restarted daemon from a crash snapshot and checks it.
func c05Restart(c *vt.Ctx, s c05Scenario, idx int, sn c05Snap, retry bool) {
	tag := fmt.Sprintf("crash point %d (%s, in flight: %s)", idx, sn.event, c05Desc(sn))
	c.Trace("=== restart at %s", tag)
	dir := vsScratchDir()
	dbPath := dir + "/pod.db"
	if err := os.WriteFile(dbPath, sn.db, 0o600); err != nil {
		c.Fatalf("write db copy: %v", err)
	}
	if s.LegacyMask != 0 && !s.Cfg.V6 {
		if n := c05MakeLegacy(c, dbPath, s.LegacyMask); n > 0 {
			c.Label("restart-with-legacy-records")
		}
	}
	cloud := sn.cloud.Clone()
	vanished := ""
	if s.Vanish > 0 {
		// an interface detached behind the daemon's back while it was down
		ids := []string{}
		for id := range cloud.Snapshot() {
			ids = append(ids, id)
		}
		sort.Strings(ids)
		if len(ids) > 1 {
			vanished = ids[s.Vanish%len(ids)]
			cloud.RemoveENI(vanished)
		}
	}
	k := vsNewK8s()
	cfg := s.Cfg
	if s.ShrinkCap > 0 {
		cfg.Cap = s.Cfg.Cap - s.ShrinkCap
		if cfg.Cap < 1 {
			cfg.Cap = 1
		}
	}
	shrunk := cfg.Cap < s.Cfg.Cap
	w, err := vsStart(cfg, cloud, k, dir, dbPath)
	if err != nil {
		_ = os.RemoveAll(dir)
		c.Fatalf("%s: restart failed: %v", tag, err)
	}
	defer w.cleanup()
	x := &c04World{c: c, w: w, gate: &c04Gate{}, labels: map[string]bool{}}
	for i := range x.pods {
		m := sn.model[i]
		x.pods[i] = &m
		k.setPod(c04PodName(i), fmt.Sprintf("uid-%d-0", i), false)
	}
	if !w.waitQuiescent(2 * time.Second) {
		c.Inconclusive("restarted pool not quiescent")
	}

	// pods whose acknowledged allocation sat on the vanished interface lose it (records of
	// vanished interfaces are dropped at start); they are outside clause (a)
	onVanished := func(m *c04PodModel) bool {
		if vanished == "" || m.cur == nil {
			return false
		}
		return sn.cloud.Issued[vsMustAddr(m.cur.v4)] == vanished
	}

	// (a) every acknowledged ADD is still there: record + ownership
	acked := map[string]string{} // address -> pod
	for i, m := range x.pods {
		if m.cur == nil {
			continue
		}
		name := c04PodName(i)
		if onVanished(m) {
			m.cur = nil
			continue
		}
		inflightDel := sn.inflight != nil && sn.inflight.Kind == "del" && sn.inflight.Pod == i && sn.cid == m.cur.cid
		rec, ok := w.record(name)
		if !ok {
			if inflightDel {
				m.cur = nil // its teardown was in progress and got as far as deleting the record
				continue
			}
			c.Fatalf("%s: acknowledged ADD of %s (%s) has no record after restart", tag, name, m.cur.v4)
		}
		items := rec.GetResourceItemByType("eniIp")
		if i4, i6 := c05ItemAddrs(items); len(items) != 1 || i4 != m.cur.v4 || i6 != m.cur.v6 {
			c.Fatalf("%s: record of %s after restart is %+v, acknowledged ADD returned %s/%s", tag, name, rec.Resources, m.cur.v4, m.cur.v6)
		}
		owners := w.owners()
		if owners[m.cur.v4] != vsKey("ns", name) || (m.cur.v6 != "" && owners[m.cur.v6] != vsKey("ns", name)) {
			c.Fatalf("%s: after restart the pool does not mark %s/%s as owned by %s (owners %v)", tag, m.cur.v4, m.cur.v6, name, owners)
		}
		acked[m.cur.v4] = name
		if m.cur.v6 != "" {
			acked[m.cur.v6] = name
		}
	}

	// follow-up of the request that was in flight: the runtime retries it or tears down
	if sn.inflight != nil && sn.inflight.Kind != "syncpool" {
		r := *sn.inflight
		cid := sn.cid
		if r.Kind == "add" {
			// the crash may have hit after the ADD's record was written but before the reply:
			// the record (sandbox id + addresses) is then the pod's latest successful ADD as far
			// as the daemon is concerned, and the follow-up is judged against it
			if rec, ok := w.record(c04PodName(r.Pod)); ok && rec.ContainerID != nil && *rec.ContainerID == cid {
				if items := rec.GetResourceItemByType("eniIp"); len(items) == 1 &&
					!(vanished != "" && sn.cloud.Issued[vsMustAddr(c05First(c05ItemAddrs(items)))] == vanished) {
					i4, i6 := c05ItemAddrs(items)
					x.pods[r.Pod].cur = &c04Alloc{cid: cid, v4: i4, v6: i6}
					c.Label("unacked-add-persisted")
				}
			}
		}
		if r.Kind == "add" && !retry {
			r = c04Req{Kind: "del", Pod: r.Pod}
		}
		before := x.podView(r.Pod)
		ctx, cancel := context.WithTimeout(context.Background(), c04ReqTimeout)
		res := x.issue(ctx, r, cid)
		cancel()
		if !w.waitQuiescent(2 * time.Second) {
			c.Inconclusive("pool not quiescent after follow-up")
		}
		m := x.pods[r.Pod]
		name := c04PodName(r.Pod)
		switch {
		case m.cur == nil && r.Kind == "del":
			// tear-down of a request that was never acknowledged: whatever it left behind
			// (a record written just before the crash, ownership re-applied from it) must be gone
			if res.err == nil {
				// (a record carrying another sandbox id - e.g. of an earlier ADD whose interface
				// vanished while the daemon was down - is not this request's and is rightly kept)
				if rec, ok := w.record(name); ok && rec.ContainerID != nil && *rec.ContainerID == cid {
					c.Fatalf("%s: follow-up DEL for the unacknowledged request of %s left its record behind", tag, name)
				}
				if o := x.ownedBy(r.Pod); len(o) > 0 {
					c.Fatalf("%s: follow-up DEL for the unacknowledged request of %s left %v owned by it", tag, name, o)
				}
			}
		case m.cur == nil && r.Kind == "add" && res.err == nil:
			// retry of a never acknowledged ADD: plain success
			v4, v6 := vsReplyAddrs(res.confs)
			m.cur = &c04Alloc{cid: cid, v4: v4, v6: v6}
			m.cids = append(m.cids, cid)
			rec, ok := w.record(name)
			if !ok || rec.ContainerID == nil || *rec.ContainerID != cid {
				c.Fatalf("%s: retried ADD for %s acknowledged but not recorded", tag, name)
			}
		default:
			x.judge(r, cid, res, before, false)
		}
		c.Label("follow-up:" + r.Kind)
	}

	// (c) nothing stranded: the pool's owners are exactly the pods holding an acknowledged allocation
	acked = map[string]string{}
	for i, m := range x.pods {
		if m.cur != nil {
			acked[m.cur.v4] = vsKey("ns", c04PodName(i))
			if m.cur.v6 != "" {
				acked[m.cur.v6] = vsKey("ns", c04PodName(i))
			}
		}
	}
	owners := w.owners()
	for a, p := range owners {
		if acked[a] != p {
			c.Fatalf("%s: after restart and follow-up the pool marks %s as owned by %s, which holds no acknowledged allocation for it (stranded address)", tag, a, p)
		}
	}
	for a, p := range acked {
		if owners[a] != p {
			c.Fatalf("%s: after restart and follow-up %s (acknowledged for %s) is shown with owner %q", tag, a, p, owners[a])
		}
	}

	// (b)+(d) fill the node with fresh pods: none of them may receive an acknowledged
	// address, and exactly capacity - |acknowledged| of them fit
	nLocals := len(w.locals)
	capacity := s.Cfg.Cap * nLocals
	held := 0
	for _, m := range x.pods {
		if m.cur != nil {
			held++
		}
	}
	got := 0
	for f := 0; f < capacity-held+2; f++ {
		name := fmt.Sprintf("fresh%d", f)
		k.setPod(name, "uid-"+name, false)
		ctx, cancel := context.WithTimeout(context.Background(), 5*time.Second)
		rep, err := w.svc.AllocIP(ctx, vsAddReq(name, "cid-"+name))
		timedOut := ctx.Err() != nil
		cancel()
		if err != nil {
			c.Trace("fill: %s -> %v", name, err)
			if timedOut {
				c.Inconclusive("fill request ran into its deadline")
			}
			break
		}
		v4, v6 := vsReplyAddrs(rep.NetConfs)
		c.Trace("fill: %s -> %s/%s", name, v4, v6)
		if p, ok := acked[v4]; ok {
			c.Fatalf("%s: after restart fresh pod %s received %s, which %s holds from an acknowledged ADD", tag, name, v4, p)
		}
		if p, ok := acked[v6]; ok && v6 != "" {
			c.Fatalf("%s: after restart fresh pod %s received %s, which %s holds from an acknowledged ADD", tag, name, v6, p)
		}
		acked[v4] = name
		if v6 != "" {
			acked[v6] = name
		}
		got++
	}
	if shrunk {
		// with a smaller limit interfaces may carry more addresses than they may now hold;
		// how many fresh pods fit depends on which idle addresses the start-up trim removed.
		// The no-double-allocation clause above is what is asserted in this variant.
		c.Label("restart-with-smaller-limit")
		return
	}
	if got != capacity-held {
		c.Fatalf("%s: after restart %d fresh pods fit, expected capacity %d - %d acknowledged = %d (addresses stranded or over-committed)", tag, got, capacity, held, capacity-held)
	}
}

// c05ItemAddrs: the addresses a stored item stands for (legacy items carry them in the id).
func c05ItemAddrs(items []daemon.ResourceItem) (string, string) {
	if len(items) == 0 {
		return "", ""
	}
	it := items[0]
	if it.IPv4 == "" && it.IPv6 == "" && it.ENIID == "" {
		if i := strings.Index(it.ID, "."); i > 0 {
			return it.ID[i+1:], ""
		}
	}
	return it.IPv4, it.IPv6
}

func c05First(a, _ string) string { return a }

// c05MakeLegacy rewrites the stored records of the selected pods into the legacy format.
func c05MakeLegacy(c *vt.Ctx, dbPath string, mask int) int {
	db, err := vsOpenDB(dbPath)
	if err != nil {
		c.Fatalf("open db copy: %v", err)
	}
	defer func() { _ = storage.VerifClose(db) }()
	n := 0
	for i := 0; i < c04Pods; i++ {
		if mask&(1<<i) == 0 {
			continue
		}
		key := vsKey("ns", c04PodName(i))
		o, err := db.Get(key)
		if err != nil {
			continue
		}
		rec := o.(daemon.PodResources)
		changed := false
		for j, it := range rec.Resources {
			if it.Type == daemon.ResourceTypeENIIP && it.ENIMAC != "" && it.IPv4 != "" && it.IPv6 == "" {
				rec.Resources[j] = daemon.ResourceItem{Type: daemon.ResourceTypeENIIP, ID: fmt.Sprintf("%s.%s", it.ENIMAC, it.IPv4)}
				changed = true
			}
		}
		if changed {
			if err := db.Put(key, rec); err != nil {
				c.Fatalf("rewrite record: %v", err)
			}
			n++
		}
	}
	return n
}

func c05Desc(sn c05Snap) string {
	if sn.inflight == nil {
		return "none"
	}
	if sn.inflight.Kind == "syncpool" {
		return "balancer pass"
	}
	return fmt.Sprintf("%s p%d %s", sn.inflight.Kind, sn.inflight.Pod, sn.cid)
}

func TestVerifC05Restart(t *testing.T) { vt.Run(t, c05Gen, c05Run) }

// ------------------------------------------------------------------ SIGKILL tier
//
// "An acknowledged ADD or DEL is durable: the on-disk record reflects it even after the
// process is killed." A child process (this test binary re-executed) performs a generated
// stream of Put/Delete on a real DiskStorage and prints one ack line after each call
// returned; the parent kills it with SIGKILL after a drawn number of acks plus a drawn
// delay, reopens the file with the real loader and compares with the acknowledged prefix.

type c05KillOp struct {
	Del  bool `json:"del"`
	Key  int  `json:"key"`
	Size int  `json:"size"`
}

type c05KillScenario struct {
	Ops       []c05KillOp `json:"ops"`
	KillAfter int         `json:"kill_after"` // number of acks to wait for before the kill
	DelayUS   int         `json:"delay_us"`
}

func c05KillGen(t *rapid.T) c05KillScenario {
	s := c05KillScenario{}
	n := rapid.IntRange(1, vt.Scale(40, 120)).Draw(t, "nops")
	for i := 0; i < n; i++ {
		s.Ops = append(s.Ops, c05KillOp{
			Del:  rapid.IntRange(0, 3).Draw(t, "del") == 0,
			Key:  rapid.IntRange(0, 5).Draw(t, "key"),
			Size: rapid.IntRange(0, 3000).Draw(t, "size"),
		})
	}
	s.KillAfter = rapid.IntRange(0, n).Draw(t, "killafter")
	s.DelayUS = rapid.IntRange(0, 600).Draw(t, "delay")
	return s
}

func c05KillValue(i int, o c05KillOp) daemon.PodResources {
	cid := fmt.Sprintf("cid-%d", i)
	return daemon.PodResources{
		PodInfo:     &daemon.PodInfo{Name: fmt.Sprintf("k%d", o.Key), Namespace: "ns", PodUID: fmt.Sprintf("uid-%d", i)},
		Resources:   []daemon.ResourceItem{{Type: daemon.ResourceTypeENIIP, ID: fmt.Sprintf("op-%d", i), ENIID: "eni-1", IPv4: "10.0.0.1"}},
		ContainerID: &cid,
		NetConf:     strings.Repeat("x", o.Size),
	}
}

// TestVerifC05SigkillChild is the child side; it only runs when re-executed by the parent.
func TestVerifC05SigkillChild(t *testing.T) {
	path := os.Getenv("VERIF_C05_CHILD_DB")
	if path == "" {
		t.Skip("child of TestVerifC05Sigkill")
	}
	var s c05KillScenario
	if err := json.Unmarshal([]byte(os.Getenv("VERIF_C05_CHILD_OPS")), &s); err != nil {
		fmt.Println("bad ops", err)
		os.Exit(3)
	}
	db, err := vsOpenDB(path)
	if err != nil {
		fmt.Println("open", err)
		os.Exit(3)
	}
	os.Stdout.WriteString("ready\n")
	for i, o := range s.Ops {
		key := fmt.Sprintf("ns/k%d", o.Key)
		if o.Del {
			err = db.Delete(key)
		} else {
			err = db.Put(key, c05KillValue(i, o))
		}
		if err != nil {
			fmt.Println("op error", err)
			os.Exit(3)
		}
		os.Stdout.WriteString(fmt.Sprintf("ack %d\n", i))
	}
	os.Stdout.WriteString("done\n")
	// stay alive until killed so that the parent decides the instant
	time.Sleep(10 * time.Second)
	os.Exit(0)
}

func c05KillRun(c *vt.Ctx, s c05KillScenario) {
	dir := vsScratchDir()
	defer os.RemoveAll(dir)
	path := dir + "/kill.db"
	opsJSON, _ := json.Marshal(s)
	cmd := exec.Command(os.Args[0], "-test.run", "^TestVerifC05SigkillChild$")
	cmd.Env = append(os.Environ(), "VERIF_C05_CHILD_DB="+path, "VERIF_C05_CHILD_OPS="+string(opsJSON), "VERIF_OUT=", "VERIF_REPLAY=")
	out, err := cmd.StdoutPipe()
	if err != nil {
		c.Inconclusive("pipe")
	}
	if err := cmd.Start(); err != nil {
		c.Inconclusive("child start: " + err.Error())
	}
	acks := 0
	killed := false
	lines := make(chan string, 1024)
	go func() {
		sc := bufio.NewScanner(out)
		for sc.Scan() {
			lines <- sc.Text()
		}
		close(lines)
	}()
	kill := func() {
		if !killed {
			killed = true
			if s.DelayUS > 0 {
				time.Sleep(time.Duration(s.DelayUS) * time.Microsecond)
			}
			_ = cmd.Process.Signal(syscall.SIGKILL)
		}
	}
	ready := false
	deadline := time.After(20 * time.Second)
loop:
	for {
		select {
		case l, ok := <-lines:
			if !ok {
				break loop
			}
			switch {
			case l == "ready":
				ready = true
				if s.KillAfter == 0 {
					kill()
				}
			case strings.HasPrefix(l, "ack "):
				acks++
				if acks >= s.KillAfter {
					kill()
				}
			case l == "done":
				kill()
			case strings.HasPrefix(l, "op error"), strings.HasPrefix(l, "open"), strings.HasPrefix(l, "bad ops"):
				_ = cmd.Process.Kill()
				_ = cmd.Wait()
				c.Fatalf("child failed: %s", l)
			}
		case <-deadline:
			_ = cmd.Process.Kill()
			_ = cmd.Wait()
			c.Inconclusive("child did not finish")
		}
	}
	_ = cmd.Wait()
	if !ready {
		c.Inconclusive("child did not start")
	}
	if acks < len(s.Ops) {
		c.Label("killed-mid-stream")
		c.NonTrivial()
	}
	c.Labelf("acks:%d0+", acks/10)

	// expected states: after the acknowledged prefix, or with the one in-flight op applied
	apply := func(n int) map[string]string {
		m := map[string]string{}
		for i := 0; i < n && i < len(s.Ops); i++ {
			o := s.Ops[i]
			key := fmt.Sprintf("ns/k%d", o.Key)
			if o.Del {
				delete(m, key)
			} else {
				m[key] = fmt.Sprintf("op-%d", i)
			}
		}
		return m
	}
	db, err := vsOpenDB(path)
	if err != nil {
		c.Fatalf("database does not open after SIGKILL (%d ops acknowledged): %v", acks, err)
	}
	defer storage.VerifClose(db)
	got := map[string]string{}
	l, _ := db.List()
	for _, o := range l {
		r := o.(daemon.PodResources)
		if r.PodInfo == nil || len(r.Resources) != 1 {
			c.Fatalf("corrupt record after SIGKILL: %+v", r)
		}
		got["ns/"+r.PodInfo.Name] = r.Resources[0].ID
	}
	eq := func(a, b map[string]string) bool {
		if len(a) != len(b) {
			return false
		}
		for k, v := range a {
			if b[k] != v {
				return false
			}
		}
		return true
	}
	if !eq(got, apply(acks)) && !eq(got, apply(acks+1)) {
		c.Fatalf("after SIGKILL with %d acknowledged operations the store holds %v; acknowledged prefix gives %v (with the in-flight operation: %v)", acks, got, apply(acks), apply(acks+1))
	}
}

func TestVerifC05Sigkill(t *testing.T) { vt.Run(t, c05KillGen, c05KillRun) }
