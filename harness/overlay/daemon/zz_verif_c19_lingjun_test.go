package daemon

import (
	"context"
	"testing"

	"github.com/aliyun/alibaba-cloud-sdk-go/services/eflo"
	corev1 "k8s.io/api/core/v1"
	metav1 "k8s.io/apimachinery/pkg/apis/meta/v1"
	"k8s.io/apimachinery/pkg/runtime"
	k8stypes "k8s.io/apimachinery/pkg/types"
	"pgregory.net/rapid"
	ctrlclient "sigs.k8s.io/controller-runtime/pkg/client"
	"sigs.k8s.io/controller-runtime/pkg/client/fake"
	"sigs.k8s.io/controller-runtime/pkg/reconcile"

	"github.com/AliyunContainerService/terway/pkg/aliyun/client"
	networkv1beta1 "github.com/AliyunContainerService/terway/pkg/apis/network.alibabacloud.com/v1beta1"
	register "github.com/AliyunContainerService/terway/pkg/controller"
	multiipnode "github.com/AliyunContainerService/terway/pkg/controller/multi-ip/node"
	ctlnode "github.com/AliyunContainerService/terway/pkg/controller/node"
	"github.com/AliyunContainerService/terway/pkg/utils/nodecap"
	terwayTypes "github.com/AliyunContainerService/terway/types"
	"github.com/AliyunContainerService/terway/types/daemon"
	"github.com/AliyunContainerService/terway/zz_verif/vt"
)

// C19 (LingJun / EFLO nodes): the limits the daemon reads from the EFLO API
// (real client.LimitProviders["eflo"].GetLimit, the call initInstanceLimit makes for a
// LingJun node, over a fake GetNodeInfoForPod answer), followed by the real
// checkInstance and getPoolConfig, never advertise more than the node type delivers --
// and never more than the node controller records for the very same API answer
// (real ReconcileNode.Reconcile -> handleEFLO over the in-memory API server).
//
// Which quota field means what (eflo.Content has LeniQuota, LniSipQuota, LeniSipQuota,
// HdeniQuota, Quota, ... and the SDK documents none of them):
//
//	interfaces the node can attach      = LeniQuota
//	addresses per interface             = LniSipQuota
//
// The reference relies on (1) the two independent readers of the unchanged tree -- the
// daemon's EfloLimitProvider.GetLimit and the controller's handleEFLO -- which both take
// exactly these two fields, and (2) the repository's own controller tests, which fill
// LeniQuota / LniSipQuota only. Independently of that naming question the harness also
// demands that the two readers AGREE: what the daemon advertises must fit into what the
// controller recorded for the node, whatever field either of them read.
type c19LJScenario struct {
	// GetNodeInfoForPod answer
	LeniQuota    int `json:"leni_quota"`
	LniSipQuota  int `json:"lni_sip_quota"`
	LeniSipQuota int `json:"leni_sip_quota"`
	HdeniQuota   int `json:"hdeni_quota"`
	Quota        int `json:"quota"`

	// eni_conf
	MaxENI      int    `json:"max_eni"`
	MinENI      int    `json:"min_eni"`
	MaxPoolSize int    `json:"max_pool_size"`
	MinPoolSize int    `json:"min_pool_size"`
	IPStack     string `json:"ip_stack"`
	Trunking    bool   `json:"enable_eni_trunking"`
	ERDMA       bool   `json:"enable_erdma"`
	OSERDMA     bool   `json:"os_erdma"`
}

func c19GenLJ(t *rapid.T) c19LJScenario {
	s := c19LJScenario{}
	s.LeniQuota = rapid.SampledFrom([]int{0, 1, 2, 3, 4, 8, 16}).Draw(t, "leniQuota")
	s.LniSipQuota = rapid.OneOf(rapid.IntRange(0, 5), rapid.IntRange(1, 50)).Draw(t, "lniSipQuota")
	switch rapid.IntRange(0, 4).Draw(t, "leniSipClass") {
	case 0:
		s.LeniSipQuota = s.LniSipQuota
	case 1:
		s.LeniSipQuota = 0
	case 2:
		s.LeniSipQuota = s.LniSipQuota + rapid.IntRange(1, 40).Draw(t, "leniSipOver")
	case 3:
		s.LeniSipQuota = rapid.IntRange(0, s.LniSipQuota).Draw(t, "leniSipUnder")
	default:
		s.LeniSipQuota = rapid.IntRange(0, 100).Draw(t, "leniSip")
	}
	s.HdeniQuota = rapid.IntRange(0, 32).Draw(t, "hdeniQuota")
	s.Quota = rapid.IntRange(0, 200).Draw(t, "quota")

	slots := s.LeniQuota - 1
	if slots < 0 {
		slots = 0
	}
	capa := slots * s.LniSipQuota
	s.MaxENI = rapid.SampledFrom([]int{0, 0, slots, slots + 2, 1}).Draw(t, "maxENI")
	s.MinENI = rapid.SampledFrom([]int{0, 0, slots, slots + 2, 1}).Draw(t, "minENI")
	s.MaxPoolSize = rapid.SampledFrom([]int{0, 5, capa, capa + 3, 2*capa + 10, 1000}).Draw(t, "maxPool")
	s.MinPoolSize = rapid.SampledFrom([]int{0, 0, 5, capa, capa + 3}).Draw(t, "minPool")
	s.IPStack = rapid.SampledFrom([]string{"", "ipv4", "dual"}).Draw(t, "stack")
	s.Trunking = rapid.Bool().Draw(t, "trunking")
	s.ERDMA = rapid.Bool().Draw(t, "erdma")
	s.OSERDMA = rapid.Bool().Draw(t, "osERDMA")
	return s
}

// c19EFLO is the EFLO API: GetNodeInfoForPod only. It is handed to the daemon's limit
// provider (as client.EFLO) and to the node controller (as register.Interface); any other
// call would be a harness bug (nil embedded interface -> panic -> reported).
type c19EFLO struct {
	register.Interface
	content *eflo.Content
	asked   []string
}

func (e *c19EFLO) GetNodeInfoForPod(_ context.Context, nodeID string) (*eflo.Content, error) {
	e.asked = append(e.asked, nodeID)
	cp := *e.content
	return &cp, nil
}

type c19LJRecorder struct{}

func (c19LJRecorder) Event(runtime.Object, string, string, string)                    {}
func (c19LJRecorder) Eventf(runtime.Object, string, string, string, ...interface{}) {}
func (c19LJRecorder) AnnotatedEventf(runtime.Object, map[string]string, string, string, string, ...interface{}) {
}

func c19LJDrainNotify() {
	for {
		select {
		case <-multiipnode.EventCh:
		default:
			return
		}
	}
}

func c19RunLJ(c *vt.Ctx, s c19LJScenario) {
	ctx := context.Background()
	// package-level state: node capability store, notify channel of the pool controller
	if s.OSERDMA {
		nodecap.SetNodeCapabilities(nodecap.NodeCapabilityERDMA, "true")
	} else {
		nodecap.SetNodeCapabilities(nodecap.NodeCapabilityERDMA, "")
	}
	defer nodecap.SetNodeCapabilities(nodecap.NodeCapabilityERDMA, "")
	c19LJDrainNotify()

	const instanceID = "e01-c19"
	api := &c19EFLO{content: &eflo.Content{
		NodeId: instanceID, LeniQuota: s.LeniQuota, LniSipQuota: s.LniSipQuota, LeniSipQuota: s.LeniSipQuota,
		HdeniQuota: s.HdeniQuota, Quota: s.Quota,
	}}

	// reference (see the comment on c19LJScenario)
	slots := s.LeniQuota - 1
	if slots < 0 {
		slots = 0
	}
	perIf := s.LniSipQuota
	deliverable := slots * perIf

	nt := false
	switch {
	case s.LeniSipQuota > s.LniSipQuota:
		c.Label("leni-sip>lni-sip")
		nt = true
	case s.LeniSipQuota < s.LniSipQuota:
		c.Label("leni-sip<lni-sip")
		nt = true
	default:
		c.Label("leni-sip=lni-sip")
	}
	if s.LeniQuota == 0 || s.LniSipQuota == 0 {
		c.Label("zero-quota")
		nt = true
	}
	if s.IPStack == "dual" || s.Trunking || s.ERDMA {
		c.Label("ask-unsupported-feature") // LingJun limits carry no IPv6, member or ERI quota
		nt = true
	}
	if s.MaxENI > slots || s.MaxPoolSize > deliverable || s.MinENI > slots || s.MinPoolSize > deliverable {
		c.Label("configured>limit")
		nt = true
	}
	if nt {
		c.NonTrivial()
	}

	// ---- daemon: initInstanceLimit's LingJun branch (GetLimitFromAnno yields nothing for
	// EFLO, so the live lookup is what it uses), then checkInstance and getPoolConfig
	provider := client.LimitProviders["eflo"]
	if l, err := provider.GetLimitFromAnno(map[string]string{}); err != nil || l != nil {
		c.Fatalf("eflo GetLimitFromAnno = %v, %v; the harness expects the live lookup to be the only source", l, err)
	}
	limit, err := provider.GetLimit(api, instanceID)
	if err != nil || limit == nil {
		c.Fatalf("eflo GetLimit = %v, %v", limit, err)
	}
	c.Trace("daemon limits %+v", *limit)
	cfgS := c19PoolScenario{MaxENI: s.MaxENI, MinENI: s.MinENI, MaxPoolSize: s.MaxPoolSize, MinPoolSize: s.MinPoolSize,
		IPStack: s.IPStack, Trunking: s.Trunking, ERDMA: s.ERDMA}
	cfg := cfgS.config(c, true)
	if err := cfg.Validate(); err != nil {
		c.Fatalf("Validate rejected a supported configuration: %v", err)
	}
	_, v6On := checkInstance(limit, daemon.ModeENIMultiIP, cfg)
	pc, err := getPoolConfig(cfg, daemon.ModeENIMultiIP, limit)
	if err != nil || pc == nil {
		c.Fatalf("getPoolConfig = %v, %v", pc, err)
	}
	c.Trace("daemon pool %+v (ipv6 %v trunk %v erdma %v)", *pc, v6On, cfg.EnableENITrunking, cfg.EnableERDMA)

	// ---- controller: the same API answer through ReconcileNode.handleEFLO
	k8sNode := &corev1.Node{
		ObjectMeta: metav1.ObjectMeta{
			Name: "node-c19",
			Labels: map[string]string{
				terwayTypes.LinJunNodeLabelKey: "true",
				corev1.LabelInstanceTypeStable: "lingjun.c19",
				corev1.LabelTopologyZone:       "cn-hangzhou-k",
				corev1.LabelTopologyRegion:     "cn-hangzhou",
			},
		},
		Spec: corev1.NodeSpec{ProviderID: instanceID},
	}
	cl := fake.NewClientBuilder().WithScheme(terwayTypes.Scheme).
		WithStatusSubresource(&networkv1beta1.Node{}).WithObjects(k8sNode).Build()
	ctl := ctlnode.VerifC19NewReconcileNode(cl, terwayTypes.Scheme, api, c19LJRecorder{}, true)
	_, rerr := ctl.Reconcile(ctx, reconcile.Request{NamespacedName: k8stypes.NamespacedName{Name: "node-c19"}})
	c19LJDrainNotify()
	if rerr != nil {
		c.Trace("controller Reconcile failed: %v", rerr)
		c.Inconclusive("controller reconcile refused")
	}
	cr := &networkv1beta1.Node{}
	if err := cl.Get(ctx, ctrlclient.ObjectKey{Name: "node-c19"}, cr); err != nil {
		c.Fatalf("Node CR not created: %v", err)
	}
	nc := cr.Spec.NodeCap
	c.Trace("controller NodeCap %+v", nc)

	// ---- oracle 1: against the reference
	if limit.Adapters > s.LeniQuota || limit.TotalAdapters > s.LeniQuota {
		c.Fatalf("daemon limits %+v: more interfaces than LeniQuota %d", *limit, s.LeniQuota)
	}
	if limit.IPv4PerAdapter > perIf {
		c.Fatalf("daemon limits: IPv4PerAdapter = %d, the node type has %d addresses per interface (LniSipQuota; LeniSipQuota %d, HdeniQuota %d, Quota %d)",
			limit.IPv4PerAdapter, perIf, s.LeniSipQuota, s.HdeniQuota, s.Quota)
	}
	if limit.IPv6PerAdapter > 0 || limit.MemberAdapterLimit > 0 || limit.MaxMemberAdapterLimit > 0 || limit.ERdmaAdapters > 0 {
		c.Fatalf("daemon limits %+v report IPv6 / member / ERDMA capability for a LingJun node", *limit)
	}
	if nc.Adapters > s.LeniQuota || nc.IPv4PerAdapter > perIf {
		c.Fatalf("controller NodeCap %+v exceeds LeniQuota %d / LniSipQuota %d", nc, s.LeniQuota, perIf)
	}
	if pc.MaxENI > slots {
		c.Fatalf("MaxENI = %d, the node can attach %d interfaces besides the primary", pc.MaxENI, slots)
	}
	if pc.MaxIPPerENI > perIf {
		c.Fatalf("MaxIPPerENI = %d exceeds %d addresses per interface", pc.MaxIPPerENI, perIf)
	}
	if pc.Capacity > deliverable {
		c.Fatalf("advertised pod-IP capacity %d exceeds %d slots x %d addresses per interface = %d", pc.Capacity, slots, perIf, deliverable)
	}
	if pc.MaxPoolSize > deliverable || pc.MinPoolSize > pc.MaxPoolSize {
		c.Fatalf("pool watermarks min %d max %d against a deliverable %d", pc.MinPoolSize, pc.MaxPoolSize, deliverable)
	}
	if s.LeniQuota >= 1 && !(0 <= pc.MinPoolSize && pc.MaxPoolSize <= pc.Capacity && 0 <= pc.Capacity) {
		c.Fatalf("pool watermarks min %d max %d capacity %d violate 0 <= min <= max <= capacity", pc.MinPoolSize, pc.MaxPoolSize, pc.Capacity)
	}
	if v6On || cfg.EnableENITrunking || cfg.EnableERDMA || pc.MaxMemberENI > 0 || pc.ERdmaCapacity > 0 {
		c.Fatalf("LingJun node: ipv6 %v trunking %v erdma %v MaxMemberENI %d ERdmaCapacity %d -- none of these is in the limits", v6On, cfg.EnableENITrunking, cfg.EnableERDMA, pc.MaxMemberENI, pc.ERdmaCapacity)
	}

	// ---- oracle 2: the two readers agree -- the daemon advertises nothing the
	// controller's record of the same node cannot hold
	ctlSlots := nc.Adapters - 1
	if ctlSlots < 0 {
		ctlSlots = 0
	}
	if pc.MaxENI > ctlSlots || pc.MaxIPPerENI > nc.IPv4PerAdapter || pc.Capacity > ctlSlots*nc.IPv4PerAdapter {
		c.Fatalf("daemon and controller disagree on the same EFLO answer %+v: daemon MaxENI %d, MaxIPPerENI %d, capacity %d; controller records %d interfaces x %d addresses",
			s, pc.MaxENI, pc.MaxIPPerENI, pc.Capacity, nc.Adapters, nc.IPv4PerAdapter)
	}
	if pc.Capacity > 0 {
		c.Label("capacity>0")
	}
	if len(api.asked) != 2 || api.asked[0] != instanceID || api.asked[1] != instanceID {
		c.Label("lookup-by-other-id") // both sides are expected to ask for the instance id
	}
}

func TestVerifC19LingJun(t *testing.T) {
	vt.Run(t, c19GenLJ, c19RunLJ)
}
