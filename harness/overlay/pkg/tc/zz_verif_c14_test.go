package tc

import (
	"testing"

	"github.com/AliyunContainerService/terway/zz_verif/c14ref"
	"github.com/AliyunContainerService/terway/zz_verif/vt"
	"github.com/vishvananda/netlink"
	"pgregory.net/rapid"
)

// C14 (a), source side: the u32 keys built for a CIDR match a packet exactly when its
// source address lies in the CIDR.  The keys are applied by c14ref.Eval to a header
// that carries the probe as source and an unrelated address as destination.

func vfC14Keys(ks []netlink.TcU32Key) []c14ref.Key {
	out := make([]c14ref.Key, 0, len(ks))
	for _, k := range ks {
		out = append(out, c14ref.Key{Off: k.Off, OffMask: k.OffMask, Val: k.Val, Mask: k.Mask})
	}
	return out
}

// vfC14CheckU32 runs every key producer of the package on the scenario.
func vfC14CheckU32(s c14ref.Scenario) *c14ref.Result {
	r := c14ref.Describe(s)

	// the dispatcher
	keys := U32MatchSrc(s.IPNet())
	r.Labels = append(r.Labels, "keys="+string(rune('0'+len(keys))))
	c14ref.Check(r, s, c14ref.Src, "U32MatchSrc", vfC14Keys(keys))

	// the per-family builders
	if s.V6 {
		c14ref.Check(r, s, c14ref.Src, "U32IPv6Src", vfC14Keys(U32IPv6Src(s.IPNet())))
	} else {
		c14ref.Check(r, s, c14ref.Src, "U32IPv4Src", vfC14Keys([]netlink.TcU32Key{U32IPv4Src(s.IPNet())}))
	}

	// what callers install: MatchSrc on a fresh filter; the classifier looks at
	// the first Nkeys keys
	u := &netlink.U32{}
	MatchSrc(u, s.IPNet())
	if r.Violation == "" {
		switch {
		case u.Sel == nil:
			r.Violation = "MatchSrc left the filter without selector"
		case int(u.Sel.Nkeys) != len(u.Sel.Keys):
			r.Violation = "MatchSrc: Nkeys does not equal the number of keys"
		default:
			c14ref.Check(r, s, c14ref.Src, "MatchSrc", vfC14Keys(u.Sel.Keys[:u.Sel.Nkeys]))
		}
	}
	return r
}

func vfC14RunU32(c *vt.Ctx, s c14ref.Scenario) {
	if !s.Valid() {
		c.Inconclusive("scenario outside the generated domain")
	}
	r := vfC14CheckU32(s)
	for _, l := range r.Labels {
		c.Label(l)
	}
	for _, l := range r.Trace {
		c.Trace("%s", l)
	}
	if r.NonTrivial {
		c.NonTrivial()
	}
	if r.Violation != "" {
		c.Fatalf("%s", r.Violation)
	}
}

func TestVerifC14U32Src(t *testing.T) {
	vt.Run(t, func(t *rapid.T) c14ref.Scenario { return c14ref.Gen(t, 0) }, vfC14RunU32)
}

// FuzzVerifC14U32Src is the same oracle under Go's coverage-guided fuzzer (not part of
// the registered check): go test -fuzz FuzzVerifC14U32Src ./pkg/tc with the overlay.
func FuzzVerifC14U32Src(f *testing.F) {
	f.Add(false, []byte{10, 1, 2, 3}, uint8(24), uint8(0), []byte{10, 1, 2, 200}, int8(0))
	f.Add(true, []byte{0xfd, 0, 0, 0, 0, 0, 0, 0, 0, 0, 0, 0, 0, 0, 0, 1}, uint8(65), uint8(1),
		[]byte{0xfd, 0, 0, 0, 0, 0, 0, 0, 0x80, 0, 0, 0, 0, 0, 0, 1}, int8(-1))
	f.Fuzz(func(t *testing.T, v6 bool, addr []byte, prefix uint8, form uint8, probe []byte, delta int8) {
		n := 4
		if v6 {
			n = 16
		}
		fit := func(b []byte) []byte {
			out := make([]byte, n)
			copy(out, b)
			return out
		}
		s := c14ref.Scenario{V6: v6, Addr: fit(addr), Prefix: int(prefix) % (n*8 + 1), Form: int(form) & 3,
			Noise: make([]byte, 40)}
		if v6 {
			s.Form &= 1
		}
		for i := range s.Noise {
			s.Noise[i] = byte(i*37 + 11)
		}
		d := int(delta) % 3
		s.Probes = []c14ref.Probe{
			{Kind: c14ref.KindFar, Bits: fit(probe), OtherKind: 1, Other: fit(addr)},
			{Kind: c14ref.KindInside, Bits: fit(probe), OtherKind: 2, Other: fit(nil)},
			{Kind: c14ref.KindFlip, Bits: fit(probe), Delta: d, OtherKind: 1, Other: fit(probe)},
		}
		if !s.Valid() {
			t.Skip()
		}
		if r := vfC14CheckU32(s); r.Violation != "" {
			t.Fatalf("%s\n%+v", r.Violation, s)
		}
	})
}
