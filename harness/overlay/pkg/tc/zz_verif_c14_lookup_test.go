package tc

import (
	"bytes"
	"fmt"
	"net"
	"testing"

	"github.com/AliyunContainerService/terway/zz_verif/c14ref"
	"github.com/AliyunContainerService/terway/zz_verif/vt"
	"github.com/vishvananda/netlink"
	"golang.org/x/sys/unix"
	"pgregory.net/rapid"
)

// C14 (a), source side, at the lookup decision: utils.EnsureVlanTag, and through
// FilterBySrcIP utils.SetFilter / DelFilter, decide with a key-set comparison
// (tc.Contain(filter keys, wanted keys)) which installed filter is the classifier of a
// pod address (always a /32 or /128, see NewIPNetWithMaxMask), and then keep, skip adding
// or delete that filter.  So the filter the lookup returns for address B must match a
// packet exactly when its source is B, and the filter built for B itself must be found.
//
// The filters are built with the real MatchSrc and kept in a slice (no cls_u32 in the
// sandbox kernel); the search is the loop of EnsureVlanTag / FilterBySrcIP over that slice
// with the real Contain.  FilterBySrcIP itself lists filters through netlink and cannot
// be fed a slice.

type vfC14LookupScenario struct {
	V6        bool     `json:"v6"`
	Installed []vt.Hex `json:"installed"` // 1..4 pod addresses whose filters are on the ENI
	Want      vt.Hex   `json:"want"`      // address looked up
	Probes    []vt.Hex `json:"probes"`    // extra packet sources
	Other     vt.Hex   `json:"other"`     // destination of the probe packets
	Noise     vt.Hex   `json:"noise"`
}

func vfC14GenLookup(t *rapid.T) vfC14LookupScenario {
	s := vfC14LookupScenario{V6: rapid.IntRange(0, 3).Draw(t, "v6") != 0}
	base := c14ref.GenBaseAddr(t, s.V6, "base")
	n := rapid.IntRange(1, 4).Draw(t, "n")
	for i := 0; i < n; i++ {
		s.Installed = append(s.Installed, c14ref.GenHost(t, base, fmt.Sprintf("inst%d", i)))
	}
	s.Want = c14ref.GenHost(t, base, "want")
	np := rapid.IntRange(0, 2).Draw(t, "nprobes")
	for i := 0; i < np; i++ {
		s.Probes = append(s.Probes, c14ref.GenHost(t, s.Want, fmt.Sprintf("probe%d", i)))
	}
	s.Other = c14ref.GenHost(t, base, "other")
	s.Noise = rapid.SliceOfN(rapid.Byte(), 40, 40).Draw(t, "noise")
	return s
}

func vfC14HostNet(a []byte) *net.IPNet {
	return &net.IPNet{IP: append(net.IP(nil), a...), Mask: net.CIDRMask(len(a)*8, len(a)*8)}
}

func vfC14SrcFilter(a []byte) *netlink.U32 {
	u := &netlink.U32{FilterAttrs: netlink.FilterAttrs{LinkIndex: 2, Priority: 50001, Protocol: unix.ETH_P_IP}}
	MatchSrc(u, vfC14HostNet(a))
	return u
}

func vfC14CommonWords(a, b []byte) int {
	k := 0
	for k*4 < len(a) && bytes.Equal(a[k*4:k*4+4], b[k*4:k*4+4]) {
		k++
	}
	return k
}

func vfC14RunLookup(c *vt.Ctx, s vfC14LookupScenario) {
	n := 4
	if s.V6 {
		n = 16
	}
	ok := len(s.Want) == n && len(s.Other) == n && len(s.Noise) == 40 && len(s.Installed) >= 1 && !c14ref.IsV4Mapped(s.Want)
	for _, a := range append(append([]vt.Hex{}, s.Installed...), s.Probes...) {
		ok = ok && len(a) == n && !c14ref.IsV4Mapped(a)
	}
	if !ok {
		c.Inconclusive("scenario outside the generated domain")
	}

	var filters []*netlink.U32
	for _, a := range s.Installed {
		filters = append(filters, vfC14SrcFilter(a))
	}
	expect := vfC14SrcFilter(s.Want)

	// the search of EnsureVlanTag / FilterBySrcIP
	found := -1
	for i, f := range filters {
		if f.Sel == nil {
			continue
		}
		if Contain(f.Sel.Keys, expect.Sel.Keys) {
			found = i
			break
		}
	}
	present := -1
	maxShared := 0
	for i, a := range s.Installed {
		if bytes.Equal(a, s.Want) {
			if present < 0 {
				present = i
			}
		} else if w := vfC14CommonWords(a, s.Want); w > maxShared {
			maxShared = w
		}
	}
	fam := "v4"
	if s.V6 {
		fam = "v6"
	}
	c.Labelf("%s:other-installed-address-shares-%d-leading-words", fam, maxShared)
	c.Trace("want %s installed %v -> found %d", net.IP(s.Want), s.Installed, found)
	if present >= 0 || maxShared > 0 {
		c.NonTrivial()
	}

	if found < 0 {
		c.Label("lookup:none")
		if present >= 0 {
			c.Fatalf("looking for the classifier of %s finds nothing although the filter built for it is installed (filter #%d, keys %v)",
				net.IP(s.Want), present, filters[present].Sel.Keys)
		}
		return
	}
	c.Label("lookup:found")

	// the returned filter, applied the way the classifier applies it, must single out
	// exactly the packets whose source is Want
	keys := vfC14Keys(filters[found].Sel.Keys[:filters[found].Sel.Nkeys])
	probes := [][]byte{s.Want}
	for _, a := range s.Installed {
		probes = append(probes, a)
	}
	for _, p := range s.Probes {
		probes = append(probes, p)
	}
	for w := 0; w < n/4; w++ { // first and last bit of every 32-bit word
		probes = append(probes, c14ref.FlipBit(s.Want, w*32), c14ref.FlipBit(s.Want, w*32+31))
	}
	for _, p := range probes {
		hdr := c14ref.Header(s.V6, p, s.Other, s.Noise)
		match, _, err := c14ref.Eval(hdr, keys)
		if err != nil {
			c.Fatalf("filter #%d returned for %s: %v", found, net.IP(s.Want), err)
		}
		if want := bytes.Equal(p, s.Want); match != want {
			c.Fatalf("looking for the classifier of %s returns the filter installed for %s (keys %s): on a packet from %s it says match=%v, want %v",
				net.IP(s.Want), net.IP(s.Installed[found]), c14ref.FmtKeys(keys), net.IP(p), match, want)
		}
	}
}

func TestVerifC14SrcFilterLookup(t *testing.T) {
	vt.Run(t, vfC14GenLookup, vfC14RunLookup)
}
