package storage

// VerifC15Close closes the bolt database behind a DiskStorage (the production type has
// no Close; the C15 harness opens one database per case and must not leak descriptors).
func VerifC15Close(s Storage) error {
	if d, ok := s.(*DiskStorage); ok && d.db != nil {
		return d.db.Close()
	}
	return nil
}
