package storage

import "github.com/boltdb/bolt"

// VerifClose closes the bolt database behind a DiskStorage (the daemon never closes it;
// harnesses open one database per case).
func VerifClose(s Storage) error {
	if d, ok := s.(*DiskStorage); ok && d.db != nil {
		return d.db.Close()
	}
	return nil
}

// VerifBreak makes every following write of a DiskStorage fail at the disk (the bolt
// database is closed, as after an I/O error) until the returned function re-opens it.
func VerifBreak(s Storage) (repair func() error) {
	d, ok := s.(*DiskStorage)
	if !ok || d.db == nil {
		return func() error { return nil }
	}
	path := d.db.Path()
	_ = d.db.Close()
	return func() error {
		db, err := bolt.Open(path, 0600, nil)
		if err != nil {
			return err
		}
		d.db = db
		return nil
	}
}
