package storage

// VerifClose closes the bolt database behind a DiskStorage (the daemon never closes it;
// harnesses open one database per case).
func VerifClose(s Storage) error {
	if d, ok := s.(*DiskStorage); ok && d.db != nil {
		return d.db.Close()
	}
	return nil
}
