package aliyun

// C07, factory level, start-up side: GetAttachedNetworkInterface is what the daemon
// (daemon/builder.go) takes for THE list of interfaces attached to the node; every
// entry becomes a Local the pool tracks, an interface that is missing from an answer
// without error is never adopted (the cloud keeps it, nobody tracks it). So: an answer
// without error lists exactly the attached interfaces the metadata service holds
// (id, MAC, primary address), and any failed metadata lookup yields an error.
// One node per case and cases run one after the other, because the MAC listing of the
// fake metadata service is not per node.

import (
	"context"
	"fmt"
	"net/netip"
	"sort"
	"strings"
	"testing"

	"pgregory.net/rapid"

	aliyuneni "github.com/AliyunContainerService/terway/pkg/aliyun/eni"
	"github.com/AliyunContainerService/terway/pkg/aliyun/client"
	"github.com/AliyunContainerService/terway/zz_verif/vt"
)

type c07fAttENI struct {
	Attached  bool `json:"attached"`
	Secondary int  `json:"secondary"`
}

type c07fAttScenario struct {
	ENIs     []c07fAttENI `json:"enis"`
	ListFail bool         `json:"listFail,omitempty"` // the MAC listing is answered with an error
	FailENI  int          `json:"failEni,omitempty"`  // -1 = none; else a per-interface lookup of this interface fails
	FailPath string       `json:"failPath,omitempty"`
}

func c07fGenAtt(t *rapid.T) c07fAttScenario {
	s := c07fAttScenario{FailENI: -1}
	n := rapid.IntRange(0, 4).Draw(t, "enis")
	for i := 0; i < n; i++ {
		s.ENIs = append(s.ENIs, c07fAttENI{Attached: rapid.IntRange(0, 4).Draw(t, "attached") != 0, Secondary: rapid.IntRange(0, 2).Draw(t, "secondary")})
	}
	switch rapid.IntRange(0, 3).Draw(t, "fault") {
	case 0:
		s.ListFail = true
	case 1:
		if n > 0 {
			s.FailENI = rapid.IntRange(0, n-1).Draw(t, "failEni")
			s.FailPath = rapid.SampledFrom([]string{"network-interface-id", "primary-ip-address", "gateway", "vswitch-cidr-block", "vswitch-id"}).Draw(t, "failPath")
		}
	}
	return s
}

func c07fRunAtt(c *vt.Ctx, s c07fAttScenario) {
	c07fStartMetadata()
	ctx, cancel := context.WithCancel(context.Background())
	defer cancel()
	cloud := &c07fCloud{node: 0, subnet: 1, enis: map[string]*c07fENI{}, calls: map[string]int{}, excused: map[string]bool{}, cancel: cancel}
	want := map[string]string{} // id -> "mac primary" of attached interfaces
	mustFail := s.ListFail
	for i, se := range s.ENIs {
		e := &c07fENI{id: fmt.Sprintf("eni-att-%d", i), mac: cloud.newMAC(), attached: se.Attached, status: client.ENIStatusAvailable,
			hide: map[netip.Addr]int{}, ghost: map[netip.Addr]int{}}
		if se.Attached {
			e.status = client.ENIStatusInUse
		}
		for k := 0; k <= se.Secondary; k++ {
			e.v4 = append(e.v4, cloud.newV4())
		}
		if i == s.FailENI {
			e.failPath = s.FailPath
			if se.Attached {
				mustFail = true
			}
		}
		cloud.enis[e.id] = e
		c07fRegistry.Store(e.mac, cloud)
		if se.Attached {
			want[e.id] = e.mac + " " + e.v4[0].String()
		}
	}
	c07fListFail.Store(s.ListFail)
	defer func() {
		c07fListFail.Store(false)
		for _, e := range cloud.enis {
			c07fRegistry.Delete(e.mac)
		}
	}()
	f := &Aliyun{ctx: ctx, openAPI: cloud, enableIPv4: true, getter: aliyuneni.NewENIMetadata(true, false), instanceID: "i-0", zoneID: "zone-0"}

	got, err := f.GetAttachedNetworkInterface("")
	var gotL, wantL []string
	for _, e := range got {
		gotL = append(gotL, fmt.Sprintf("%s=%s %s", e.ID, e.MAC, e.PrimaryIP.IPv4))
	}
	for id, v := range want {
		wantL = append(wantL, id+"="+v)
	}
	sort.Strings(gotL)
	sort.Strings(wantL)
	c.Trace("GetAttachedNetworkInterface -> %v err=%v; the metadata service holds %v; listFail=%v failEni=%d failPath=%q", gotL, err, wantL, s.ListFail, s.FailENI, s.FailPath)
	c.Labelf("attached:%d", len(want))
	if mustFail {
		c.Label("lookup-failed")
		c.NonTrivial()
		if err == nil {
			c.Fatalf("a metadata lookup failed (listing=%v, interface %d path %q) but GetAttachedNetworkInterface returned %v without error; the metadata service holds %v",
				s.ListFail, s.FailENI, s.FailPath, gotL, wantL)
		}
		return
	}
	if len(want) >= 2 {
		c.NonTrivial()
	}
	if err != nil {
		c.Fatalf("every lookup is answered but GetAttachedNetworkInterface failed: %v", err)
	}
	if strings.Join(gotL, ";") != strings.Join(wantL, ";") {
		c.Fatalf("GetAttachedNetworkInterface returned %v without error, the metadata service holds the attached interfaces %v", gotL, wantL)
	}
}

func TestVerifC07FactoryAttached(t *testing.T) { vt.Run(t, c07fGenAtt, c07fRunAtt) }
