package aliyun

// C07 below the factory.Factory interface: the production Aliyun factory as the pool's
// callee, over a fake OpenAPI and a fake ECS metadata service (one httptest server,
// metadata.MetadataBase / TokenURL redirected), with generated fault placements at
// both levels.
//
// The oracle is the contract pkg/eni/local.go relies on. A ledger is updated from each
// call's RETURN VALUES exactly the way Local consumes them, and after every call the
// fake cloud (ground truth) must be covered by that ledger:
//
//   - factoryAllocWorker, create: on error it keeps `l.eni = eni` and, if eni != nil,
//     sets statusDeleting so that factoryDisposeWorker calls DeleteNetworkInterface;
//     with eni == nil it forgets the attempt. => an interface the cloud gained must be
//     the returned eni (also when err != nil). On success it tracks eni, ipv4Set and
//     ipv6Set as valid => on success the returned sets are the addresses of the new
//     interface and the interface is attached.
//   - factoryAllocWorker, assign: `ipv4Set, err := AssignNIPv4(..)`; on error
//     `l.ipv4.PutDeleting(ipv4Set...)` (the dispose worker unassigns them), on success
//     `PutValid(ipv4Set...)`. => every address the cloud gained is in the returned set,
//     with or without an error; on success the returned addresses exist.
//   - factoryDisposeWorker: `err := UnAssignNIPv4(..); if err == nil { l.ipv4.Delete(..) }`
//     and `err = DeleteNetworkInterface(id); if err == nil { forget the interface }`.
//     => what a nil error reports as done is gone from the cloud.
//   - nothing else on the node changes during a call.
//
// Not demanded (labelled `unreported-by-openapi`): resources gained by an OpenAPI
// create/assign call that itself answered (nil, error) after its effect - the factory
// never learns their ids; retrying such calls idempotently is C16's subject.
//
// Time: aliyun.go waits with constants (metadata poll 1 s / timeout 10 s, 2 s after
// attach, 5 s between detach and delete). The driver rewrites exactly those four
// expressions into verifScale(<original>) at check time (see zz_verif_scale.go); this
// test divides them by c07fDivisor (poll 10 ms, timeout 100 ms = 10 polls, pauses 20 /
// 50 ms), so the lag / hide / error faults of the fake metadata service keep their
// meaning (lag of 1-3 polls recovers, hide runs into the timeout). If the rewrite is not
// in effect in this build (VerifScaleCalls does not move) only a few cases per process
// are run in real time and the rest are skipped, instead of running for minutes.
// A case consists of a few independent nodes (own factory, own cloud, distinguished by
// MAC on the shared metadata server) whose histories run concurrently.

import (
	"context"
	"encoding/json"
	"errors"
	"fmt"
	"net/http"
	"net/http/httptest"
	"net/netip"
	"sort"
	"strings"
	"sync"
	"sync/atomic"
	"testing"
	"time"

	sdkErr "github.com/aliyun/alibaba-cloud-sdk-go/sdk/errors"
	"github.com/aliyun/alibaba-cloud-sdk-go/services/vpc"
	"k8s.io/apimachinery/pkg/util/wait"
	"pgregory.net/rapid"

	"github.com/AliyunContainerService/terway/pkg/aliyun/client"
	apiErr "github.com/AliyunContainerService/terway/pkg/aliyun/client/errors"
	aliyuneni "github.com/AliyunContainerService/terway/pkg/aliyun/eni"
	"github.com/AliyunContainerService/terway/pkg/aliyun/metadata"
	"github.com/AliyunContainerService/terway/pkg/backoff"
	vswpool "github.com/AliyunContainerService/terway/pkg/vswitch"
	"github.com/AliyunContainerService/terway/zz_verif/vt"
)

// ---------------------------------------------------------------- scenario

type c07fFault struct {
	// OpenAPI level
	API   string `json:"api,omitempty"`   // create|attach|describe|assign|unassign|detach|delete ("" = none)
	Mode  string `json:"mode,omitempty"`  // before | after (effect applied, error returned) | partial (assign: fewer addresses, no error)
	Times int    `json:"times,omitempty"` // invocations that fail (0 = every one)
	Code  string `json:"code,omitempty"`  // error code of the injected OpenAPI error ("" = an error without a code)
	// metadata level
	Meta  string `json:"meta,omitempty"`  // hide (new addresses never listed) | lag (listed after N polls) | err (403 for N requests, 0 = always) | ghost (removed addresses still listed) | cancel (factory context cancelled right after the OpenAPI effect)
	MetaN int    `json:"metaN,omitempty"` // hide/ghost: how many addresses; lag: polls; err: requests
}

type c07fOp struct {
	Kind  string    `json:"k"` // create | assign4 | assign6 | unassign4 | unassign6 | delete | load
	// load: LoadNetworkInterface of an interface the pool holds, after the metadata has
	// converged; Err4 / Err6: the address lookup of that family is answered with an error
	Err4 bool `json:"err4,omitempty"`
	Err6 bool `json:"err6,omitempty"`
	ENI   int       `json:"eni,omitempty"`
	Count int       `json:"count,omitempty"`
	V6    int       `json:"v6,omitempty"`   // create: ipv6 count
	Pick  []int     `json:"pick,omitempty"` // unassign: indices into the addresses the pool holds on that interface
	// delete: the detach is asynchronous; the interface stays Detaching until that many
	// delete requests have been refused with InvalidOperation.InvalidEniState (0 = the
	// detach completes within the factory's pause)
	DetachBusy int `json:"detachBusy,omitempty"`
	Fault c07fFault `json:"fault,omitempty"`
}

type c07fNode struct {
	Secondary int      `json:"secondary"` // secondary addresses on the interface the node starts with
	Ops       []c07fOp `json:"ops"`
}

type c07fScenario struct {
	Nodes []c07fNode `json:"nodes"`
}

func c07fGenFault(t *rapid.T, kind string, allowSlow bool) c07fFault {
	f := c07fFault{}
	apis := map[string][]string{
		"create":    {"create", "attach", "describe", "attach"},
		"assign4":   {"assign"},
		"assign6":   {"assign"},
		"unassign4": {"unassign"},
		"unassign6": {"unassign"},
		"delete":    {"detach", "delete"},
	}[kind]
	switch rapid.IntRange(0, 5).Draw(t, "level") {
	case 0, 1: // OpenAPI fault
		f.API = rapid.SampledFrom(apis).Draw(t, "api")
		f.Mode = rapid.SampledFrom([]string{"after", "before", "after"}).Draw(t, "mode")
		if f.API == "describe" {
			f.Mode = "before"
		}
		if f.API == "assign" && rapid.IntRange(0, 2).Draw(t, "partial") == 0 {
			f.Mode = "partial"
		}
		f.Times = rapid.SampledFrom([]int{1, 0}).Draw(t, "times")
		// codes the client package knows; InvalidEniState is what ECS answers to a delete
		// of an interface that is not Available yet - a refusal, so only before effect
		codes := []string{"", apiErr.ErrInternalError, apiErr.ErrThrottling, apiErr.ErrOperationConflict, apiErr.ErrForbidden}
		if f.Mode == "before" && (f.API == "delete" || f.API == "detach") {
			codes = append(codes, apiErr.ErrInvalidENIState, apiErr.ErrInvalidENIState)
		}
		f.Code = rapid.SampledFrom(codes).Draw(t, "code")
	case 2, 3: // metadata fault
		switch kind {
		case "assign4", "assign6", "create":
			f.Meta = rapid.SampledFrom([]string{"cancel", "hide", "lag", "err", "hide"}).Draw(t, "meta")
		case "unassign4", "unassign6":
			f.Meta = rapid.SampledFrom([]string{"ghost", "lag", "err", "cancel"}).Draw(t, "meta")
		}
		switch f.Meta {
		case "hide", "ghost":
			f.MetaN = rapid.IntRange(1, 2).Draw(t, "n")
			if !allowSlow {
				f.Meta = "cancel"
			}
		case "lag":
			f.MetaN = rapid.IntRange(1, 3).Draw(t, "n")
		case "err":
			f.MetaN = rapid.IntRange(0, 2).Draw(t, "n")
			if f.MetaN == 0 && !allowSlow {
				f.MetaN = 1
			}
		}
	}
	return f
}

func c07fGen(t *rapid.T) c07fScenario {
	s := c07fScenario{}
	nn := rapid.IntRange(2, vt.Scale(5, 8)).Draw(t, "nodes")
	for i := 0; i < nn; i++ {
		nd := c07fNode{Secondary: rapid.IntRange(0, 2).Draw(t, "secondary")}
		nops := rapid.IntRange(1, vt.Scale(6, 10)).Draw(t, "nops")
		slowLeft := 3 // metadata timeouts per node (cheap with scaled waits, bounded for the real-time fallback)
		deletes := 0
		for j := 0; j < nops; j++ {
			o := c07fOp{}
			o.Kind = rapid.SampledFrom([]string{"assign4", "assign4", "assign6", "unassign4", "create", "load", "unassign6", "assign4", "delete", "load"}).Draw(t, "kind")
			if o.Kind == "delete" {
				if deletes > 2 {
					o.Kind = "assign4"
				}
				deletes++
			}
			o.ENI = rapid.IntRange(0, 2).Draw(t, "eni")
			o.Count = rapid.IntRange(1, 3).Draw(t, "count")
			if o.Kind == "create" && rapid.IntRange(0, 3).Draw(t, "v6") == 0 {
				o.V6 = 1
			}
			if strings.HasPrefix(o.Kind, "unassign") {
				o.Pick = rapid.SliceOfN(rapid.IntRange(0, 5), 1, 2).Draw(t, "pick")
			}
			if o.Kind == "delete" {
				o.DetachBusy = rapid.SampledFrom([]int{0, 1, 0, 2}).Draw(t, "detachBusy")
			}
			if o.Kind == "load" {
				o.Err4 = rapid.IntRange(0, 2).Draw(t, "err4") == 0
				o.Err6 = rapid.IntRange(0, 2).Draw(t, "err6") == 0
				nd.Ops = append(nd.Ops, o)
				continue
			}
			o.Fault = c07fGenFault(t, o.Kind, slowLeft > 0)
			if o.Fault.Meta == "hide" || o.Fault.Meta == "ghost" || (o.Fault.Meta == "err" && o.Fault.MetaN == 0) {
				slowLeft--
			}
			nd.Ops = append(nd.Ops, o)
		}
		s.Nodes = append(s.Nodes, nd)
	}
	return s
}

// ---------------------------------------------------------------- fake cloud (one per node)

type c07fENI struct {
	id, mac  string
	attached bool
	status   string
	v4, v6   []netip.Addr // v4[0] is the primary
	// metadata view
	hide     map[netip.Addr]int // polls during which the address is not listed (-1 = never listed)
	ghost    map[netip.Addr]int // removed addresses still listed for that many polls (-1 = always)
	errPolls int                // address list requests answered 403 (-1 = always)
	busy     int                // Detaching: delete requests still to be refused
	err4     bool               // load: the private-ipv4s lookup is answered 403
	err6     bool               // load: the ipv6s lookup is answered 403
	failPath string             // attached: this per-interface metadata path is answered 403
}

type c07fCloud struct {
	client.ECS // only the calls below are reachable from the factory
	client.VPC

	mu       sync.Mutex
	node     int
	subnet   int
	enis     map[string]*c07fENI
	order    []string
	nextIP   int
	nextENI  int
	fault    c07fFault
	detachBusy int
	calls    map[string]int // invocations per OpenAPI method during the current factory call
	cancel   context.CancelFunc
	excused  map[string]bool // ids/addresses gained by an OpenAPI call that answered an error after its effect
	apiTrace []string
}

var (
	c07fMACCounter atomic.Int64
	c07fRegistry   sync.Map // mac -> *c07fCloud
	c07fServerOnce sync.Once
)

// c07fPrimaryMAC is the instance's primary interface (never part of the pool).
const c07fPrimaryMAC = "00:16:3e:ff:ff:01"

var c07fListFail atomic.Bool // attached: the MAC listing is answered 403

var errC07fInjected = errors.New("c07f: injected OpenAPI error")

func c07fCoded(code, msg string) error {
	return apiErr.WarpError(sdkErr.NewServerError(400, fmt.Sprintf(`{"Code":"%s","Message":"%s"}`, code, msg), ""))
}

// injected is the error of the current fault plan. Caller holds c.mu.
func (c *c07fCloud) injected() error {
	if c.fault.Code == "" {
		return errC07fInjected
	}
	return c07fCoded(c.fault.Code, "injected")
}

func (c *c07fCloud) newMAC() string {
	n := c07fMACCounter.Add(1)
	return fmt.Sprintf("02:16:%02x:%02x:%02x:%02x", (n>>24)&0xff, (n>>16)&0xff, (n>>8)&0xff, n&0xff)
}

func (c *c07fCloud) newV4() netip.Addr {
	c.nextIP++
	return netip.AddrFrom4([4]byte{10, byte(c.subnet), byte(c.nextIP >> 8), byte(c.nextIP)})
}

func (c *c07fCloud) newV6() netip.Addr {
	c.nextIP++
	return netip.MustParseAddr(fmt.Sprintf("fd00:%x::%x", c.subnet, c.nextIP))
}

// failNow decides whether this invocation of api fails, and how. Caller holds c.mu.
func (c *c07fCloud) failNow(api string) string {
	c.calls[api]++
	if c.fault.API != api || c.fault.Mode == "partial" {
		return ""
	}
	if c.fault.Times != 0 && c.calls[api] > c.fault.Times {
		return ""
	}
	return c.fault.Mode
}

func (c *c07fCloud) tr(f string, a ...any) { c.apiTrace = append(c.apiTrace, fmt.Sprintf(f, a...)) }

func (c *c07fCloud) DescribeVSwitchByID(_ context.Context, id string) (*vpc.VSwitch, error) {
	return &vpc.VSwitch{VSwitchId: id, ZoneId: "zone-0", AvailableIpAddressCount: 1000, CidrBlock: fmt.Sprintf("10.%d.0.0/16", c.subnet)}, nil
}

func (c *c07fCloud) CreateNetworkInterface(_ context.Context, opts ...client.CreateNetworkInterfaceOption) (*client.NetworkInterface, error) {
	o := &client.CreateNetworkInterfaceOptions{}
	for _, opt := range opts {
		opt.ApplyCreateNetworkInterface(o)
	}
	c.mu.Lock()
	defer c.mu.Unlock()
	mode := c.failNow("create")
	if mode == "before" {
		c.tr("OpenAPI CreateNetworkInterface -> error before effect")
		return nil, c.injected()
	}
	c.nextENI++
	e := &c07fENI{id: fmt.Sprintf("eni-n%d-%d", c.node, c.nextENI), mac: c.newMAC(), status: client.ENIStatusAvailable,
		hide: map[netip.Addr]int{}, ghost: map[netip.Addr]int{}}
	n4, n6 := 1, 0
	if o.NetworkInterfaceOptions != nil {
		if o.NetworkInterfaceOptions.IPCount > 1 {
			n4 = o.NetworkInterfaceOptions.IPCount
		}
		n6 = o.NetworkInterfaceOptions.IPv6Count
	}
	for i := 0; i < n4; i++ {
		e.v4 = append(e.v4, c.newV4())
	}
	for i := 0; i < n6; i++ {
		e.v6 = append(e.v6, c.newV6())
	}
	c.enis[e.id] = e
	c.order = append(c.order, e.id)
	c07fRegistry.Store(e.mac, c)
	if mode == "after" {
		c.excused[e.id] = true
		c.tr("OpenAPI CreateNetworkInterface -> created %s, answered an error", e.id)
		return nil, c.injected()
	}
	if c.fault.Meta == "hide" {
		for i, a := range append(append([]netip.Addr(nil), e.v4...), e.v6...) {
			if i < c.fault.MetaN {
				e.hide[a] = -1
			}
		}
	}
	if c.fault.Meta == "lag" {
		for _, a := range e.v4 {
			e.hide[a] = c.fault.MetaN
		}
	}
	if c.fault.Meta == "err" {
		e.errPolls = c.fault.MetaN
		if c.fault.MetaN == 0 {
			e.errPolls = -1
		}
	}
	c.tr("OpenAPI CreateNetworkInterface -> %s %v %v", e.id, e.v4, e.v6)
	ni := &client.NetworkInterface{NetworkInterfaceID: e.id, MacAddress: e.mac, VSwitchID: "vsw-0", Status: e.status,
		PrivateIPAddress: e.v4[0].String()}
	for i, a := range e.v4 {
		ni.PrivateIPSets = append(ni.PrivateIPSets, client.IPSet{Primary: i == 0, IPAddress: a.String()})
	}
	for _, a := range e.v6 {
		ni.IPv6Set = append(ni.IPv6Set, client.IPSet{IPAddress: a.String()})
	}
	return ni, nil
}

func (c *c07fCloud) AttachNetworkInterface(_ context.Context, opts ...client.AttachNetworkInterfaceOption) error {
	o := &client.AttachNetworkInterfaceOptions{}
	for _, opt := range opts {
		opt.ApplyTo(o)
	}
	c.mu.Lock()
	defer c.mu.Unlock()
	mode := c.failNow("attach")
	if mode == "before" {
		c.tr("OpenAPI AttachNetworkInterface -> error before effect")
		return c.injected()
	}
	if o.NetworkInterfaceID == nil || c.enis[*o.NetworkInterfaceID] == nil {
		return fmt.Errorf("InvalidEniId.NotFound")
	}
	e := c.enis[*o.NetworkInterfaceID]
	e.attached, e.status = true, client.ENIStatusInUse
	if mode == "after" {
		c.tr("OpenAPI AttachNetworkInterface(%s) -> attached, answered an error", e.id)
		return c.injected()
	}
	if c.fault.Meta == "cancel" && c.cancel != nil {
		c.tr("factory context cancelled after attach")
		c.cancel()
	}
	c.tr("OpenAPI AttachNetworkInterface(%s) ok", e.id)
	return nil
}

func (c *c07fCloud) DescribeNetworkInterface(_ context.Context, _ string, ids []string, _ string, _ string, _ string, _ map[string]string) ([]*client.NetworkInterface, error) {
	c.mu.Lock()
	defer c.mu.Unlock()
	if c.failNow("describe") != "" {
		c.tr("OpenAPI DescribeNetworkInterface -> error")
		return nil, c.injected()
	}
	var out []*client.NetworkInterface
	for _, id := range ids {
		if e := c.enis[id]; e != nil {
			out = append(out, &client.NetworkInterface{NetworkInterfaceID: e.id, MacAddress: e.mac, Status: e.status})
		}
	}
	return out, nil
}

func (c *c07fCloud) assign(api string, eniID string, count int, v6 bool) ([]netip.Addr, error) {
	c.mu.Lock()
	defer c.mu.Unlock()
	mode := c.failNow("assign")
	if mode == "before" {
		c.tr("OpenAPI %s -> error before effect", api)
		return nil, c.injected()
	}
	e := c.enis[eniID]
	if e == nil {
		return nil, fmt.Errorf("InvalidEniId.NotFound %s", eniID)
	}
	if c.fault.API == "assign" && c.fault.Mode == "partial" && count > 1 {
		count--
	}
	var out []netip.Addr
	for i := 0; i < count; i++ {
		var a netip.Addr
		if v6 {
			a = c.newV6()
			e.v6 = append(e.v6, a)
		} else {
			a = c.newV4()
			e.v4 = append(e.v4, a)
		}
		out = append(out, a)
	}
	if mode == "after" {
		for _, a := range out {
			c.excused[a.String()] = true
		}
		c.tr("OpenAPI %s(%s) -> assigned %v, answered an error", api, eniID, out)
		return nil, c.injected()
	}
	switch c.fault.Meta {
	case "hide":
		for i, a := range out {
			if i < c.fault.MetaN {
				e.hide[a] = -1
			}
		}
	case "lag":
		for _, a := range out {
			e.hide[a] = c.fault.MetaN
		}
	case "err":
		e.errPolls = c.fault.MetaN
		if c.fault.MetaN == 0 {
			e.errPolls = -1
		}
	case "cancel":
		if c.cancel != nil {
			c.tr("factory context cancelled after the assign took effect")
			c.cancel()
		}
	}
	c.tr("OpenAPI %s(%s, %d) -> %v", api, eniID, count, out)
	return out, nil
}

func (c *c07fCloud) AssignPrivateIPAddress(_ context.Context, opts ...client.AssignPrivateIPAddressOption) ([]netip.Addr, error) {
	o := &client.AssignPrivateIPAddressOptions{}
	for _, opt := range opts {
		opt.ApplyAssignPrivateIPAddress(o)
	}
	return c.assign("AssignPrivateIPAddress", o.NetworkInterfaceOptions.NetworkInterfaceID, o.NetworkInterfaceOptions.IPCount, false)
}

func (c *c07fCloud) AssignIpv6Addresses(_ context.Context, opts ...client.AssignIPv6AddressesOption) ([]netip.Addr, error) {
	o := &client.AssignIPv6AddressesOptions{}
	for _, opt := range opts {
		opt.ApplyAssignIPv6Addresses(o)
	}
	return c.assign("AssignIpv6Addresses", o.NetworkInterfaceOptions.NetworkInterfaceID, o.NetworkInterfaceOptions.IPv6Count, true)
}

func (c *c07fCloud) unassign(api, eniID string, ips []netip.Addr, v6 bool) error {
	c.mu.Lock()
	defer c.mu.Unlock()
	mode := c.failNow("unassign")
	if mode == "before" {
		c.tr("OpenAPI %s -> error before effect", api)
		return c.injected()
	}
	e := c.enis[eniID]
	if e == nil {
		return nil // interface released: ok by the API's contract
	}
	set := &e.v4
	if v6 {
		set = &e.v6
	}
	var keep []netip.Addr
	nGhost := 0
	for i, a := range *set {
		gone := false
		for _, ip := range ips {
			if ip == a && !(i == 0 && !v6) { // the primary cannot be unassigned
				gone = true
			}
		}
		if gone {
			switch c.fault.Meta {
			case "ghost":
				if nGhost < c.fault.MetaN {
					e.ghost[a] = -1
					nGhost++
				}
			case "lag":
				e.ghost[a] = c.fault.MetaN
			}
			delete(e.hide, a)
		} else {
			keep = append(keep, a)
		}
	}
	*set = keep
	if c.fault.Meta == "err" {
		e.errPolls = c.fault.MetaN
		if c.fault.MetaN == 0 {
			e.errPolls = -1
		}
	}
	if mode == "after" {
		c.tr("OpenAPI %s(%s, %v) -> removed, answered an error", api, eniID, ips)
		return c.injected()
	}
	if c.fault.Meta == "cancel" && c.cancel != nil {
		c.tr("factory context cancelled after the unassign took effect")
		c.cancel()
	}
	c.tr("OpenAPI %s(%s, %v) ok", api, eniID, ips)
	return nil
}

func (c *c07fCloud) UnAssignPrivateIPAddresses(_ context.Context, eniID string, ips []netip.Addr) error {
	return c.unassign("UnAssignPrivateIPAddresses", eniID, ips, false)
}

func (c *c07fCloud) UnAssignIpv6Addresses(_ context.Context, eniID string, ips []netip.Addr) error {
	return c.unassign("UnAssignIpv6Addresses", eniID, ips, true)
}

func (c *c07fCloud) DetachNetworkInterface(_ context.Context, eniID, _, _ string) error {
	c.mu.Lock()
	defer c.mu.Unlock()
	mode := c.failNow("detach")
	if mode == "before" {
		c.tr("OpenAPI DetachNetworkInterface -> error before effect")
		return c.injected()
	}
	// an interface that is gone: the real client's detach tolerates InvalidEniId.NotFound
	if e := c.enis[eniID]; e != nil && e.attached {
		e.attached, e.status = false, client.ENIStatusAvailable
		if c.detachBusy > 0 {
			// asynchronous detach that outlasts the factory's pause
			e.status, e.busy = "Detaching", c.detachBusy
		}
	}
	if mode == "after" {
		c.tr("OpenAPI DetachNetworkInterface(%s) -> detached, answered an error", eniID)
		return c.injected()
	}
	c.tr("OpenAPI DetachNetworkInterface(%s) ok", eniID)
	return nil
}

func (c *c07fCloud) DeleteNetworkInterface(_ context.Context, eniID string) error {
	c.mu.Lock()
	defer c.mu.Unlock()
	mode := c.failNow("delete")
	if mode == "before" {
		c.tr("OpenAPI DeleteNetworkInterface -> error before effect")
		return c.injected()
	}
	e := c.enis[eniID]
	if e == nil {
		// as ECS answers for an interface that does not exist (any more)
		c.tr("OpenAPI DeleteNetworkInterface(%s) -> InvalidEniId.NotFound (it is gone)", eniID)
		return c07fCoded(apiErr.ErrInvalidENINotFound, eniID+" does not exist")
	}
	if e.attached {
		return c07fCoded(apiErr.ErrInvalidENIState, eniID+" is attached")
	}
	if e.status == "Detaching" {
		// as ECS answers while the interface is not Available yet: nothing happens
		e.busy--
		if e.busy <= 0 {
			e.status = client.ENIStatusAvailable
		}
		c.tr("OpenAPI DeleteNetworkInterface(%s) -> refused, InvalidOperation.InvalidEniState (still detaching)", eniID)
		return c07fCoded(apiErr.ErrInvalidENIState, eniID+" is detaching")
	}
	c07fRegistry.Delete(e.mac)
	delete(c.enis, eniID)
	if mode == "after" {
		c.tr("OpenAPI DeleteNetworkInterface(%s) -> deleted, answered an error", eniID)
		return c.injected()
	}
	c.tr("OpenAPI DeleteNetworkInterface(%s) ok", eniID)
	return nil
}

// ---------------------------------------------------------------- fake metadata service

func c07fMetadataHandler(w http.ResponseWriter, r *http.Request) {
	p := r.URL.Path
	if r.Method == http.MethodPut && strings.HasSuffix(p, "/api/token") {
		_, _ = w.Write([]byte("token"))
		return
	}
	if p == "/latest/meta-data/mac" {
		_, _ = w.Write([]byte(c07fPrimaryMAC))
		return
	}
	const pre = "/latest/meta-data/network/interfaces/macs/"
	if !strings.HasPrefix(p, pre) {
		http.NotFound(w, r)
		return
	}
	rest := strings.Trim(strings.TrimPrefix(p, pre), "/")
	if rest == "" {
		if c07fListFail.Load() {
			http.Error(w, "forbidden", http.StatusForbidden)
			return
		}
		macs := []string{c07fPrimaryMAC + "/"}
		c07fRegistry.Range(func(k, v any) bool {
			cl := v.(*c07fCloud)
			cl.mu.Lock()
			for _, e := range cl.enis {
				if e.mac == k.(string) && e.attached {
					macs = append(macs, e.mac+"/")
				}
			}
			cl.mu.Unlock()
			return true
		})
		_, _ = w.Write([]byte(strings.Join(macs, "\n")))
		return
	}
	parts := strings.SplitN(rest, "/", 2)
	v, ok := c07fRegistry.Load(parts[0])
	if !ok || len(parts) != 2 {
		http.NotFound(w, r)
		return
	}
	cl := v.(*c07fCloud)
	cl.mu.Lock()
	defer cl.mu.Unlock()
	var e *c07fENI
	for _, x := range cl.enis {
		if x.mac == parts[0] {
			e = x
		}
	}
	if e == nil {
		http.NotFound(w, r)
		return
	}
	// list answers an address-list request: 403 while the error fault lasts, else the
	// addresses of the family that are not hidden, plus ghosts of that family
	list := func(set []netip.Addr, want4 bool) ([]string, bool) {
		if e.errPolls != 0 {
			if e.errPolls > 0 {
				e.errPolls--
			}
			return nil, false
		}
		var out []string
		for _, a := range set {
			if n, hidden := e.hide[a]; hidden && n != 0 {
				if n > 0 {
					e.hide[a] = n - 1
				}
				continue
			}
			out = append(out, a.String())
		}
		for a, n := range e.ghost {
			if a.Is4() != want4 || n == 0 {
				continue
			}
			if n > 0 {
				e.ghost[a] = n - 1
			}
			out = append(out, a.String())
		}
		sort.Strings(out)
		return out, true
	}
	if e.failPath != "" && e.failPath == parts[1] {
		http.Error(w, "forbidden", http.StatusForbidden)
		return
	}
	switch parts[1] {
	case "network-interface-id":
		_, _ = w.Write([]byte(e.id))
	case "primary-ip-address":
		_, _ = w.Write([]byte(e.v4[0].String()))
	case "vswitch-id":
		_, _ = w.Write([]byte("vsw-0"))
	case "private-ipv4s":
		if e.err4 {
			http.Error(w, "forbidden", http.StatusForbidden)
			return
		}
		l, ok := list(e.v4, true)
		if !ok {
			http.Error(w, "forbidden", http.StatusForbidden)
			return
		}
		if l == nil {
			l = []string{}
		}
		b, _ := json.Marshal(l)
		_, _ = w.Write(b)
	case "ipv6s":
		if e.err6 {
			http.Error(w, "forbidden", http.StatusForbidden)
			return
		}
		l, ok := list(e.v6, false)
		if !ok {
			http.Error(w, "forbidden", http.StatusForbidden)
			return
		}
		if len(l) == 0 {
			http.NotFound(w, r)
			return
		}
		_, _ = w.Write([]byte("[" + strings.Join(l, ", ") + "]"))
	case "vswitch-cidr-block":
		_, _ = w.Write([]byte(fmt.Sprintf("10.%d.0.0/16", cl.subnet)))
	case "gateway":
		_, _ = w.Write([]byte(fmt.Sprintf("10.%d.255.253", cl.subnet)))
	case "vswitch-ipv6-cidr-block":
		_, _ = w.Write([]byte(fmt.Sprintf("fd00:%x::/64", cl.subnet)))
	case "ipv6-gateway":
		_, _ = w.Write([]byte(fmt.Sprintf("fd00:%x::1", cl.subnet)))
	default:
		http.NotFound(w, r)
	}
}

func c07fStartMetadata() {
	c07fServerOnce.Do(func() {
		srv := httptest.NewServer(http.HandlerFunc(c07fMetadataHandler))
		metadata.MetadataBase = srv.URL + "/latest/meta-data/"
		metadata.TokenURL = srv.URL + "/latest/api/token"
		// same loops as production, without the pauses between OpenAPI retries
		backoff.OverrideBackoff(map[string]wait.Backoff{
			backoff.ENICreate: {Duration: time.Millisecond, Factor: 1, Steps: 2},
			backoff.ENIOps:    {Duration: time.Millisecond, Factor: 1, Steps: 3},
			backoff.ENIIPOps:  {Duration: time.Millisecond, Factor: 1, Steps: 3},
		})
	})
}

// ---------------------------------------------------------------- one node history

type c07fLedgerENI struct {
	id, mac  string
	deleting bool
	valid    map[string]bool // addresses the pool tracks as valid
	deleting4 map[string]bool // addresses the pool holds in Deleting (it will unassign them)
}

type c07fNodeResult struct {
	violation   string
	inconcl     string
	labels      []string
	trace       []string
	nontrivial  bool
}

func c07fSnapshot(c *c07fCloud) map[string][]string {
	c.mu.Lock()
	defer c.mu.Unlock()
	out := map[string][]string{}
	for id, e := range c.enis {
		var l []string
		for _, a := range e.v4 {
			l = append(l, a.String())
		}
		for _, a := range e.v6 {
			l = append(l, a.String())
		}
		sort.Strings(l)
		out[id] = l
	}
	return out
}

func c07fAddrs(in []netip.Addr) []string {
	var out []string
	for _, a := range in {
		out = append(out, a.String())
	}
	return out
}

func c07fRunNode(idx int, nd c07fNode) (res c07fNodeResult) {
	defer func() {
		if r := recover(); r != nil {
			res.violation = fmt.Sprintf("node %d: panic: %v", idx, r)
		}
	}()
	ctx, cancel := context.WithCancel(context.Background())
	defer cancel()
	cloud := &c07fCloud{node: idx, subnet: idx + 1, enis: map[string]*c07fENI{}, calls: map[string]int{}, excused: map[string]bool{}, cancel: cancel}
	// the interface the node starts with
	e0 := &c07fENI{id: fmt.Sprintf("eni-n%d-0", idx), mac: cloud.newMAC(), attached: true, status: client.ENIStatusInUse,
		hide: map[netip.Addr]int{}, ghost: map[netip.Addr]int{}}
	for i := 0; i <= nd.Secondary; i++ {
		e0.v4 = append(e0.v4, cloud.newV4())
	}
	cloud.enis[e0.id] = e0
	cloud.order = append(cloud.order, e0.id)
	c07fRegistry.Store(e0.mac, cloud)
	defer func() {
		cloud.mu.Lock()
		for _, e := range cloud.enis {
			c07fRegistry.Delete(e.mac)
		}
		cloud.mu.Unlock()
	}()

	pool, err := vswpool.NewSwitchPool(10, "10m")
	if err != nil {
		res.inconcl = "switch pool"
		return
	}
	f := &Aliyun{
		ctx: ctx, openAPI: cloud, vsw: pool, enableIPv4: true, enableIPv6: true,
		getter: aliyuneni.NewENIMetadata(true, true),
		instanceID: "i-" + fmt.Sprint(idx), zoneID: "zone-0",
		vSwitchOptions: []string{"vsw-0"}, securityGroupIDs: []string{"sg-1"},
		selectionPolicy: vswpool.VSwitchSelectionPolicyOrdered,
	}

	ledger := []*c07fLedgerENI{{id: e0.id, mac: e0.mac, valid: map[string]bool{}, deleting4: map[string]bool{}}}
	for _, a := range e0.v4 {
		ledger[0].valid[a.String()] = true
	}
	tr := func(f string, a ...any) { res.trace = append(res.trace, fmt.Sprintf("node %d: ", idx)+fmt.Sprintf(f, a...)) }
	label := func(l string) { res.labels = append(res.labels, l) }
	flushAPI := func() {
		cloud.mu.Lock()
		for _, l := range cloud.apiTrace {
			res.trace = append(res.trace, fmt.Sprintf("node %d:     %s", idx, l))
		}
		cloud.apiTrace = nil
		cloud.mu.Unlock()
	}
	find := func(id string) *c07fLedgerENI {
		for _, l := range ledger {
			if l.id == id {
				return l
			}
		}
		return nil
	}

	// check: the cloud is covered by the ledger, and what the pool tracks as valid exists
	check := func(what string) bool {
		snap := c07fSnapshot(cloud)
		cloud.mu.Lock()
		defer cloud.mu.Unlock()
		for id, addrs := range snap {
			l := find(id)
			if l == nil {
				if cloud.excused[id] {
					continue
				}
				res.violation = fmt.Sprintf("node %d: after %s the cloud has interface %s (%v) which no return value mentioned: the pool neither tracks it nor will delete it", idx, what, id, addrs)
				return false
			}
			if l.deleting {
				continue // the pool deletes the whole interface
			}
			for _, a := range addrs {
				if !l.valid[a] && !l.deleting4[a] && !cloud.excused[a] {
					res.violation = fmt.Sprintf("node %d: after %s the cloud has %s on %s which no return value mentioned: the pool neither tracks it nor will unassign it (pool: valid %v, deleting %v)",
						idx, what, a, id, c07fKeys(l.valid), c07fKeys(l.deleting4))
					return false
				}
			}
		}
		for _, l := range ledger {
			if l.deleting {
				continue
			}
			e := cloud.enis[l.id]
			if e == nil || !e.attached {
				res.violation = fmt.Sprintf("node %d: after %s the pool tracks interface %s as usable but the cloud says it is %s", idx, what, l.id, map[bool]string{true: "gone", false: "not attached"}[e == nil])
				return false
			}
			have := map[string]bool{}
			for _, a := range snap[l.id] {
				have[a] = true
			}
			for a := range l.valid {
				if !have[a] {
					res.violation = fmt.Sprintf("node %d: after %s the pool tracks %s on %s as valid but the cloud does not have it", idx, what, a, l.id)
					return false
				}
			}
		}
		return true
	}

	for oi, op := range nd.Ops {
		cloud.mu.Lock()
		cloud.fault, cloud.calls, cloud.detachBusy = op.Fault, map[string]int{}, op.DetachBusy
		cloud.mu.Unlock()
		before := c07fSnapshot(cloud)
		if op.Fault.API != "" || op.Fault.Meta != "" {
			label("fault:" + op.Fault.API + op.Fault.Mode + op.Fault.Meta)
		}
		var usable []*c07fLedgerENI
		for _, l := range ledger {
			if !l.deleting {
				usable = append(usable, l)
			}
		}
		what := ""
		t0 := time.Now()
		switch op.Kind {
		case "create":
			what = fmt.Sprintf("op %d CreateNetworkInterface(%d, %d) fault=%+v", oi, op.Count, op.V6, op.Fault)
			eni, v4, v6, err := f.CreateNetworkInterface(op.Count, op.V6, "secondary")
			tr("%s -> eni=%v v4=%v v6=%v err=%v (%.1fs)", what, eni != nil, v4, v6, err, time.Since(t0).Seconds())
			flushAPI()
			// Local.factoryAllocWorker: err != nil && eni != nil -> statusDeleting; err == nil -> all tracked
			if eni != nil {
				l := &c07fLedgerENI{id: eni.ID, mac: eni.MAC, deleting: err != nil, valid: map[string]bool{}, deleting4: map[string]bool{}}
				if err == nil {
					for _, a := range append(c07fAddrs(v4), c07fAddrs(v6)...) {
						l.valid[a] = true
					}
					label("create:ok")
				} else {
					label("create:error-with-eni")
					res.nontrivial = true
				}
				ledger = append(ledger, l)
			} else {
				if err == nil {
					res.violation = fmt.Sprintf("node %d: %s returned neither an interface nor an error", idx, what)
					return
				}
				label("create:error-no-eni")
			}
			// nothing else changes
			after := c07fSnapshot(cloud)
			for id, addrs := range before {
				if strings.Join(after[id], ",") != strings.Join(addrs, ",") {
					res.violation = fmt.Sprintf("node %d: %s changed the existing interface %s: %v -> %v", idx, what, id, addrs, after[id])
					return
				}
			}
		case "assign4", "assign6":
			if len(usable) == 0 {
				continue
			}
			l := usable[op.ENI%len(usable)]
			var ips []netip.Addr
			var err error
			if op.Kind == "assign4" {
				what = fmt.Sprintf("op %d AssignNIPv4(%s, %d) fault=%+v", oi, l.id, op.Count, op.Fault)
				ips, err = f.AssignNIPv4(l.id, op.Count, l.mac)
			} else {
				what = fmt.Sprintf("op %d AssignNIPv6(%s, %d) fault=%+v", oi, l.id, op.Count, op.Fault)
				ips, err = f.AssignNIPv6(l.id, op.Count, l.mac)
			}
			tr("%s -> %v err=%v (%.1fs)", what, ips, err, time.Since(t0).Seconds())
			flushAPI()
			// Local.factoryAllocWorker: error -> PutDeleting(returned), success -> PutValid(returned)
			for _, a := range c07fAddrs(ips) {
				if err != nil {
					l.deleting4[a] = true
				} else {
					l.valid[a] = true
				}
			}
			if err != nil && len(ips) > 0 {
				label("assign:error-with-addresses")
				res.nontrivial = true
			} else if err != nil {
				label("assign:error-empty")
			} else {
				label("assign:ok")
			}
			after := c07fSnapshot(cloud)
			for id, addrs := range before {
				if id != l.id && strings.Join(after[id], ",") != strings.Join(addrs, ",") {
					res.violation = fmt.Sprintf("node %d: %s changed another interface %s: %v -> %v", idx, what, id, addrs, after[id])
					return
				}
			}
			if len(after) != len(before) {
				res.violation = fmt.Sprintf("node %d: %s changed the set of interfaces", idx, what)
				return
			}
			have := map[string]bool{}
			for _, a := range after[l.id] {
				have[a] = true
			}
			for _, a := range before[l.id] {
				if !have[a] {
					res.violation = fmt.Sprintf("node %d: %s removed %s from %s", idx, what, a, l.id)
					return
				}
			}
		case "unassign4", "unassign6":
			if len(usable) == 0 {
				continue
			}
			l := usable[op.ENI%len(usable)]
			v6 := op.Kind == "unassign6"
			var held []string
			for _, a := range append(c07fKeys(l.valid), c07fKeys(l.deleting4)...) {
				ad := netip.MustParseAddr(a)
				cloud.mu.Lock()
				primary := cloud.enis[l.id] != nil && len(cloud.enis[l.id].v4) > 0 && cloud.enis[l.id].v4[0] == ad
				cloud.mu.Unlock()
				if ad.Is6() == v6 && !primary {
					held = append(held, a)
				}
			}
			sort.Strings(held)
			if len(held) == 0 {
				continue
			}
			pick := map[string]bool{}
			for _, p := range op.Pick {
				pick[held[p%len(held)]] = true
			}
			var ips []netip.Addr
			for _, a := range c07fKeys(pick) {
				ips = append(ips, netip.MustParseAddr(a))
				// Local.Dispose marks them Deleting before the dispose worker runs
				delete(l.valid, a)
				l.deleting4[a] = true
			}
			var err error
			if v6 {
				what = fmt.Sprintf("op %d UnAssignNIPv6(%s, %v) fault=%+v", oi, l.id, ips, op.Fault)
				err = f.UnAssignNIPv6(l.id, ips, l.mac)
			} else {
				what = fmt.Sprintf("op %d UnAssignNIPv4(%s, %v) fault=%+v", oi, l.id, ips, op.Fault)
				err = f.UnAssignNIPv4(l.id, ips, l.mac)
			}
			tr("%s -> err=%v (%.1fs)", what, err, time.Since(t0).Seconds())
			flushAPI()
			after := c07fSnapshot(cloud)
			if err == nil {
				// Local.factoryDisposeWorker: err == nil -> l.ipv4.Delete(toDelete...): forgotten
				have := map[string]bool{}
				for _, a := range after[l.id] {
					have[a] = true
				}
				for a := range pick {
					if have[a] {
						res.violation = fmt.Sprintf("node %d: %s reported success but the cloud still has %s on %s; the pool forgets it", idx, what, a, l.id)
						return
					}
					delete(l.deleting4, a)
				}
				label("unassign:ok")
			} else {
				label("unassign:error")
				if op.Fault.Mode == "after" || op.Fault.Meta != "" {
					res.nontrivial = true
				}
			}
			for id, addrs := range before {
				if id != l.id && strings.Join(after[id], ",") != strings.Join(addrs, ",") {
					res.violation = fmt.Sprintf("node %d: %s changed another interface %s", idx, what, id)
					return
				}
			}
			haveBefore := map[string]bool{}
			for _, a := range before[l.id] {
				haveBefore[a] = true
			}
			for _, a := range after[l.id] {
				if !haveBefore[a] {
					res.violation = fmt.Sprintf("node %d: %s added %s to %s", idx, what, a, l.id)
					return
				}
				delete(haveBefore, a)
			}
			for a := range haveBefore {
				if !pick[a] {
					res.violation = fmt.Sprintf("node %d: %s removed %s which it was not asked to remove", idx, what, a)
					return
				}
			}
		case "load":
			// Local.sync: `ipv4, ipv6, err := LoadNetworkInterface(mac); if err != nil { return }`
			// and then syncIPLocked marks every local address that is not in the answer
			// invalid. => an answer without error must list exactly what the metadata
			// service holds, for both families; a failed lookup must surface as an error.
			if len(usable) == 0 {
				continue
			}
			l := usable[op.ENI%len(usable)]
			cloud.mu.Lock()
			e := cloud.enis[l.id]
			var want4, want6 []string
			if e != nil {
				// the metadata service has converged: it lists what the cloud holds
				e.hide, e.ghost, e.errPolls = map[netip.Addr]int{}, map[netip.Addr]int{}, 0
				e.err4, e.err6 = op.Err4, op.Err6
				want4, want6 = c07fAddrs(e.v4), c07fAddrs(e.v6)
			}
			cloud.mu.Unlock()
			if e == nil {
				continue
			}
			what = fmt.Sprintf("op %d LoadNetworkInterface(%s) ipv4-lookup-fails=%v ipv6-lookup-fails=%v", oi, l.id, op.Err4, op.Err6)
			got4, got6, err := f.LoadNetworkInterface(l.mac)
			cloud.mu.Lock()
			e.err4, e.err6 = false, false
			cloud.mu.Unlock()
			tr("%s -> v4=%v v6=%v err=%v", what, got4, got6, err)
			if op.Err4 || op.Err6 {
				label("load:lookup-failed")
				res.nontrivial = true
				if err == nil {
					res.violation = fmt.Sprintf("node %d: %s returned no error: v4=%v v6=%v (metadata holds v4=%v v6=%v); Local.sync would take the partial answer for complete",
						idx, what, got4, got6, want4, want6)
					return
				}
			} else {
				label("load:ok")
				if err != nil {
					res.violation = fmt.Sprintf("node %d: %s failed although both lookups are answered: %v", idx, what, err)
					return
				}
			}
			if err == nil {
				g4, g6 := c07fAddrs(got4), c07fAddrs(got6)
				sort.Strings(g4)
				sort.Strings(g6)
				sort.Strings(want4)
				sort.Strings(want6)
				if strings.Join(g4, ",") != strings.Join(want4, ",") || strings.Join(g6, ",") != strings.Join(want6, ",") {
					res.violation = fmt.Sprintf("node %d: %s returned v4=%v v6=%v without error, the metadata service holds v4=%v v6=%v", idx, what, g4, g6, want4, want6)
					return
				}
			}
		case "delete":
			if len(ledger) == 0 {
				continue
			}
			l := ledger[op.ENI%len(ledger)]
			// Local only deletes an interface it has put into statusDeleting
			l.deleting = true
			what = fmt.Sprintf("op %d DeleteNetworkInterface(%s) detachBusy=%d fault=%+v", oi, l.id, op.DetachBusy, op.Fault)
			if op.DetachBusy > 0 {
				label("delete:slow-detach")
			}
			err := f.DeleteNetworkInterface(l.id)
			tr("%s -> err=%v (%.1fs)", what, err, time.Since(t0).Seconds())
			flushAPI()
			after := c07fSnapshot(cloud)
			if err == nil {
				if _, still := after[l.id]; still {
					res.violation = fmt.Sprintf("node %d: %s reported success but the cloud still has the interface; the pool forgets it", idx, what)
					return
				}
				var keep []*c07fLedgerENI
				for _, x := range ledger {
					if x != l {
						keep = append(keep, x)
					}
				}
				ledger = keep
				label("delete:ok")
			} else {
				label("delete:error")
				res.nontrivial = true
			}
			for id, addrs := range before {
				if id != l.id && strings.Join(after[id], ",") != strings.Join(addrs, ",") {
					res.violation = fmt.Sprintf("node %d: %s changed another interface %s", idx, what, id)
					return
				}
			}
		}
		if what == "" {
			continue
		}
		if !check(what) {
			return
		}
		cloud.mu.Lock()
		nex := len(cloud.excused)
		cloud.mu.Unlock()
		if nex > 0 {
			label("unreported-by-openapi")
		}
	}
	return
}

func c07fKeys(m map[string]bool) []string {
	var out []string
	for k := range m {
		out = append(out, k)
	}
	sort.Strings(out)
	return out
}

const c07fDivisor = 100

var (
	c07fScaledOnce sync.Once
	c07fScaled     bool
	c07fRealTime   atomic.Int64 // cases run in real time (fallback)
)

// c07fProbeScale: does this build contain the rewritten waits? validateIPInMetadata
// evaluates its poll arguments even when the context is already cancelled.
func c07fProbeScale() bool {
	c07fScaledOnce.Do(func() {
		ctx, cancel := context.WithCancel(context.Background())
		cancel()
		before := VerifScaleCalls.Load()
		_ = validateIPInMetadata(ctx, nil, func() []netip.Addr { return nil })
		c07fScaled = VerifScaleCalls.Load() > before
	})
	return c07fScaled
}

func c07fRun(c *vt.Ctx, s c07fScenario) {
	if len(s.Nodes) == 0 {
		return
	}
	if c07fProbeScale() {
		old := atomic.SwapInt64(&VerifSleepDivisor, c07fDivisor)
		defer atomic.StoreInt64(&VerifSleepDivisor, old)
		c.Label("waits:scaled")
	} else {
		// the rewrite pattern no longer matches aliyun.go: original waits. Three cases per
		// process in real time, the rest is not run.
		if c07fRealTime.Add(1) > 3 {
			c.Label("skipped:waits-not-scaled")
			return
		}
		c.Label("waits:real-time")
		if len(s.Nodes) > 0 {
			for i := range s.Nodes {
				if len(s.Nodes[i].Ops) > 3 {
					s.Nodes[i].Ops = s.Nodes[i].Ops[:3]
				}
			}
		}
	}
	c07fStartMetadata()
	results := make([]c07fNodeResult, len(s.Nodes))
	var wg sync.WaitGroup
	for i, nd := range s.Nodes {
		wg.Add(1)
		go func(i int, nd c07fNode) {
			defer wg.Done()
			results[i] = c07fRunNode(i, nd)
		}(i, nd)
	}
	done := make(chan struct{})
	go func() { wg.Wait(); close(done) }()
	select {
	case <-done:
	case <-time.After(240 * time.Second):
		c.Inconclusive("node histories did not finish within 240s")
	}
	nt := false
	for _, r := range results {
		for _, l := range r.labels {
			c.Label(l)
		}
		nt = nt || r.nontrivial
	}
	c.Labelf("nodes:%d", len(s.Nodes))
	if nt {
		c.NonTrivial()
	}
	for _, r := range results {
		if r.violation != "" {
			for _, l := range r.trace {
				c.Trace("%s", l)
			}
			c.Fatalf("%s", r.violation)
		}
	}
	for _, r := range results {
		if r.inconcl != "" {
			c.Inconclusive(r.inconcl)
		}
	}
}

func TestVerifC07Factory(t *testing.T) { vt.Run(t, c07fGen, c07fRun) }
