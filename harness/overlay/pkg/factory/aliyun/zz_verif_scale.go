package aliyun

import (
	"sync/atomic"
	"time"
)

// The build overlay rewrites the factory's fixed waits (metadata poll interval and timeout,
// the 2 s pause after attach, the 5 s pause between detach and delete) into
// verifScale(<original>), so that a test can run the real factory with waits of
// milliseconds. With the divisor at 1 (the default) nothing changes. VerifScaleCalls tells a
// test whether the rewrite is in effect in this build.
var (
	VerifSleepDivisor int64 = 1
	VerifScaleCalls   atomic.Int64
)

func verifScale(d time.Duration) time.Duration {
	VerifScaleCalls.Add(1)
	div := atomic.LoadInt64(&VerifSleepDivisor)
	if div <= 1 {
		return d
	}
	return d / time.Duration(div)
}
