package aliyun

// C17 through the daemon's ENI factory (anchor pkg/factory/aliyun/aliyun.go): the real
// (*Aliyun).CreateNetworkInterface with a real vswitch.SwitchPool; only the cloud API
// is a fake. The vSwitch list may lag behind: DescribeVSwitchByID reports a count
// (what the cache holds), the create call knows the truth and answers
// InvalidVSwitchId.IpNotEnough / QuotaExceeded.PrivateIpAddress for an exhausted
// vSwitch. Every create request the factory sends is recorded; each must go to a
// candidate that is eligible in the cache's view at that moment (value at first
// describe, 0 once reported exhausted) and satisfy the configured policy; a vSwitch
// that answered "exhausted" is never asked again (the pool's clock does not reach the
// 10m ttl within a case); the interface ends up on an eligible candidate when the retry
// budget allows.

import (
	"context"
	"errors"
	"fmt"
	"strconv"
	"strings"
	"sync"
	"testing"
	"time"

	sdkErr "github.com/aliyun/alibaba-cloud-sdk-go/sdk/errors"
	"github.com/aliyun/alibaba-cloud-sdk-go/services/vpc"
	"k8s.io/apimachinery/pkg/util/wait"
	"pgregory.net/rapid"

	"github.com/AliyunContainerService/terway/pkg/aliyun/client"
	apiErr "github.com/AliyunContainerService/terway/pkg/aliyun/client/errors"
	"github.com/AliyunContainerService/terway/pkg/backoff"
	vswpool "github.com/AliyunContainerService/terway/pkg/vswitch"
	"github.com/AliyunContainerService/terway/zz_verif/vt"
)

type c17fVSW struct {
	Zone      int   `json:"zone"`
	Reported  int64 `json:"reported"`            // what DescribeVSwitchByID says (may be stale)
	Exhausted bool  `json:"exhausted,omitempty"` // the create call answers "no address left"
	Quota     bool  `json:"quota,omitempty"`     // ... as QuotaExceeded.PrivateIpAddress instead of IpNotEnough
	Fail      bool  `json:"fail,omitempty"`      // describe fails
}

type c17fOp struct {
	Kind      string `json:"k"` // create | set
	ID        int    `json:"id,omitempty"`
	Reported  int64  `json:"reported,omitempty"`
	Exhausted bool   `json:"exhausted,omitempty"`
	OtherErr  int    `json:"otherErr,omitempty"` // create: the n-th request (1-based) of this call fails with a non-retryable error
}

type c17fScenario struct {
	VSW    []c17fVSW `json:"vsw"`
	List   []int     `json:"list"` // candidates; len(VSW) = unknown to the cloud
	Zone   int       `json:"zone"`
	Policy string    `json:"policy"`
	Steps  int       `json:"steps"` // rounds of the eni_create backoff
	Ops    []c17fOp  `json:"ops"`
}

func c17fID(i int) string   { return "vsw-" + strconv.Itoa(i) }
func c17fZone(z int) string { return "zone-" + strconv.Itoa(z) }
func c17fIdx(id string) (int, bool) {
	if !strings.HasPrefix(id, "vsw-") {
		return 0, false
	}
	n, err := strconv.Atoi(id[4:])
	return n, err == nil
}

func c17fGen(t *rapid.T) c17fScenario {
	s := c17fScenario{}
	n := rapid.SampledFrom([]int{3, 2, 4, 5, 6}).Draw(t, "nvsw")
	for i := 0; i < n; i++ {
		s.VSW = append(s.VSW, c17fVSW{
			Zone:      rapid.SampledFrom([]int{0, 0, 0, 0, 1}).Draw(t, "zone"),
			Reported:  rapid.SampledFrom([]int64{100, 7, 250, 1, 0, 40}).Draw(t, "reported"),
			Exhausted: rapid.IntRange(0, 2).Draw(t, "exhausted") != 0,
			Quota:     rapid.IntRange(0, 3).Draw(t, "quota") == 0,
			Fail:      rapid.IntRange(0, 19).Draw(t, "fail") == 0,
		})
	}
	ln := rapid.SampledFrom([]int{3, 2, 4, 5, 1}).Draw(t, "len")
	for i := 0; i < ln; i++ {
		if rapid.IntRange(0, 19).Draw(t, "unk") == 0 {
			s.List = append(s.List, n)
		} else {
			s.List = append(s.List, rapid.IntRange(0, n-1).Draw(t, "id"))
		}
	}
	s.Zone = rapid.SampledFrom([]int{0, 0, 0, 0, 1}).Draw(t, "zone")
	s.Policy = rapid.SampledFrom([]string{"ordered", "most", "random"}).Draw(t, "policy")
	s.Steps = rapid.SampledFrom([]int{2, 3, 4, 5, 1}).Draw(t, "steps")
	opGen := rapid.Custom(func(t *rapid.T) c17fOp {
		if rapid.IntRange(0, 3).Draw(t, "kind") == 0 {
			return c17fOp{Kind: "set", ID: rapid.IntRange(0, n-1).Draw(t, "id"),
				Reported:  rapid.SampledFrom([]int64{100, 7, 0, 250}).Draw(t, "reported"),
				Exhausted: rapid.Bool().Draw(t, "exhausted")}
		}
		o := c17fOp{Kind: "create"}
		if rapid.IntRange(0, 7).Draw(t, "other") == 0 {
			o.OtherErr = rapid.IntRange(1, 3).Draw(t, "otherAt")
		}
		return o
	})
	s.Ops = rapid.SliceOfN(opGen, 1, vt.Scale(4, 8)).Draw(t, "ops")
	return s
}

var (
	errC17fAttach = errors.New("c17: attach refused (the scenario ends after a successful create)")
	errC17fOther  = errors.New("c17: OperationDenied (non-retryable create error)")
)

type c17fReq struct {
	vsw    string
	answer string // exhausted | created | other
}

type c17fAPI struct {
	client.ECS
	client.VPC

	mu        sync.Mutex
	vsw       []c17fVSW
	described []int // ids successfully described, in order
	reqs      []c17fReq
	otherAt   int
	neni      int
}

func (f *c17fAPI) DescribeVSwitchByID(_ context.Context, id string) (*vpc.VSwitch, error) {
	if id == "" {
		// the id is only a filter of DescribeVSwitches (pkg/aliyun/client/vsw_default.go):
		// without a filter the first vSwitch of the account comes back - a foreign one
		return &vpc.VSwitch{VSwitchId: "vsw-foreign", ZoneId: c17fZone(0), AvailableIpAddressCount: 4000, CidrBlock: "172.16.0.0/16"}, nil
	}
	f.mu.Lock()
	defer f.mu.Unlock()
	i, ok := c17fIdx(id)
	if !ok || i < 0 || i >= len(f.vsw) {
		return nil, fmt.Errorf("InvalidVSwitchId.NotFound %s", id)
	}
	v := f.vsw[i]
	if v.Fail {
		return nil, fmt.Errorf("Throttling %s", id)
	}
	f.described = append(f.described, i)
	return &vpc.VSwitch{VSwitchId: id, ZoneId: c17fZone(v.Zone), AvailableIpAddressCount: v.Reported,
		CidrBlock: fmt.Sprintf("10.%d.0.0/16", i)}, nil
}

func (f *c17fAPI) CreateNetworkInterface(_ context.Context, opts ...client.CreateNetworkInterfaceOption) (*client.NetworkInterface, error) {
	o := &client.CreateNetworkInterfaceOptions{}
	for _, opt := range opts {
		opt.ApplyCreateNetworkInterface(o)
	}
	id := ""
	if o.NetworkInterfaceOptions != nil {
		id = o.NetworkInterfaceOptions.VSwitchID
	}
	f.mu.Lock()
	defer f.mu.Unlock()
	if f.otherAt > 0 && len(f.reqs)+1 == f.otherAt {
		f.reqs = append(f.reqs, c17fReq{id, "other"})
		return nil, errC17fOther
	}
	i, ok := c17fIdx(id)
	if !ok || i < 0 || i >= len(f.vsw) {
		f.reqs = append(f.reqs, c17fReq{id, "other"})
		return nil, fmt.Errorf("InvalidVSwitchId.NotFound %q", id)
	}
	if f.vsw[i].Exhausted {
		code := apiErr.InvalidVSwitchIDIPNotEnough
		if f.vsw[i].Quota {
			code = apiErr.QuotaExceededPrivateIPAddress
		}
		f.reqs = append(f.reqs, c17fReq{id, "exhausted"})
		return nil, apiErr.WarpError(sdkErr.NewServerError(400,
			fmt.Sprintf(`{"Code":"%s","Message":"no address left in %s"}`, code, id), ""))
	}
	f.reqs = append(f.reqs, c17fReq{id, "created"})
	f.neni++
	ip := fmt.Sprintf("10.%d.0.%d", i, 10+f.neni%200)
	return &client.NetworkInterface{
		NetworkInterfaceID: fmt.Sprintf("eni-%d", f.neni),
		MacAddress:         fmt.Sprintf("00:16:3e:00:%02x:%02x", i, f.neni%256),
		VSwitchID:          id,
		PrivateIPAddress:   ip,
		PrivateIPSets:      []client.IPSet{{Primary: true, IPAddress: ip}},
	}, nil
}

// the scenario ends here: attaching and the metadata service are not part of C17
func (f *c17fAPI) AttachNetworkInterface(context.Context, ...client.AttachNetworkInterfaceOption) error {
	return errC17fAttach
}

type c17fView struct {
	ok   bool
	zone int
	free int64
}

func c17fRun(c *vt.Ctx, s c17fScenario) {
	if len(s.VSW) == 0 || len(s.List) == 0 || s.Steps < 1 {
		return
	}
	n := len(s.VSW)
	// same loop as production, without the 10 s pauses (package-level table: set per case)
	backoff.OverrideBackoff(map[string]wait.Backoff{
		backoff.ENICreate: {Duration: 100 * time.Microsecond, Factor: 1, Steps: s.Steps},
	})
	pool, err := vswpool.NewSwitchPool(100, "10m")
	if err != nil {
		c.Inconclusive("switch pool")
	}
	api := &c17fAPI{vsw: append([]c17fVSW(nil), s.VSW...)}
	var cands []string
	for _, id := range s.List {
		cands = append(cands, c17fID(id))
	}
	pristine := append([]string(nil), cands...)
	f := &Aliyun{
		ctx:              context.Background(),
		openAPI:          api,
		vsw:              pool,
		enableIPv4:       true,
		instanceID:       "i-1",
		zoneID:           c17fZone(s.Zone),
		vSwitchOptions:   cands,
		securityGroupIDs: []string{"sg-1"},
		selectionPolicy:  vswpool.SelectionPolicy(s.Policy),
	}
	// reference view of the cache
	cached := make([]*c17fView, n)

	for step, op := range s.Ops {
		if op.Kind == "set" {
			id := op.ID % n
			api.mu.Lock()
			api.vsw[id].Reported, api.vsw[id].Exhausted = op.Reported, op.Exhausted
			api.mu.Unlock()
			c.Trace("#%d cloud: %s reports %d free, create exhausted=%v", step, c17fID(id), op.Reported, op.Exhausted)
			continue
		}
		api.mu.Lock()
		api.reqs, api.otherAt = nil, op.OtherErr
		descBefore := len(api.described)
		api.mu.Unlock()

		type result struct {
			vsw string
			err error
		}
		done := make(chan result, 1)
		go func() {
			eni, _, _, err := f.CreateNetworkInterface(1, 0, "secondary")
			r := result{err: err}
			if eni != nil {
				r.vsw = eni.VSwitchID
			}
			done <- r
		}()
		var res result
		select {
		case res = <-done:
		case <-time.After(60 * time.Second):
			c.Inconclusive("CreateNetworkInterface did not return within 60s")
		}
		api.mu.Lock()
		reqs := append([]c17fReq(nil), api.reqs...)
		descNow := append([]int(nil), api.described[descBefore:]...)
		api.mu.Unlock()
		c.Trace("#%d CreateNetworkInterface(policy=%s zone=%s candidates=%v steps=%d) requests=%v -> eni on %q err=%v",
			step, s.Policy, c17fZone(s.Zone), pristine, s.Steps, reqs, res.vsw, res.err)

		// lookup view: cached before this call, else what describe answers (constant
		// during the call); an id reported exhausted is 0 from then on
		describedNow := map[int]bool{}
		for _, id := range descNow {
			describedNow[id] = true
		}
		view := func(id int) c17fView {
			if id >= n {
				return c17fView{}
			}
			if cached[id] != nil {
				return *cached[id]
			}
			v := api.vsw[id]
			if v.Fail {
				return c17fView{}
			}
			return c17fView{ok: true, zone: v.Zone, free: v.Reported}
		}
		eligible := func() (pos []int) {
			for k, id := range s.List {
				if v := view(id); v.ok && v.zone == s.Zone && v.free > 0 {
					pos = append(pos, k)
				}
			}
			return pos
		}
		desc := fmt.Sprintf("step %d: CreateNetworkInterface(policy=%s, zone=%s, candidates=%v, backoff steps=%d)", step, s.Policy, c17fZone(s.Zone), pristine, s.Steps)

		if len(reqs) > s.Steps {
			c.Fatalf("%s sent %d create requests %v", desc, len(reqs), reqs)
		}
		sawExhaustedWithAlternative := false
		for i, r := range reqs {
			elig := eligible()
			gi, ok := c17fIdx(r.vsw)
			pos := -1
			for _, k := range elig {
				if ok && s.List[k] == gi {
					pos = k
					break
				}
			}
			if pos < 0 {
				why := "is not an eligible candidate"
				if ok && gi < n && cached[gi] != nil && cached[gi].free == 0 {
					why = "was reported exhausted before (blocked, its cache entry has not expired)"
				}
				var alt []string
				for _, k := range elig {
					alt = append(alt, c17fID(s.List[k]))
				}
				c.Fatalf("%s: create request #%d went to %s which %s; requests so far %v; eligible candidates now: %v",
					desc, i+1, r.vsw, why, reqs[:i+1], alt)
			}
			switch s.Policy {
			case "ordered":
				if first := elig[0]; s.List[first] != gi {
					c.Fatalf("%s: create request #%d went to %s, the first eligible candidate is %s; requests %v", desc, i+1, r.vsw, c17fID(s.List[first]), reqs[:i+1])
				}
			case "most":
				var mx int64
				for _, k := range elig {
					if fr := view(s.List[k]).free; fr > mx {
						mx = fr
					}
				}
				if fr := view(gi).free; fr != mx {
					c.Fatalf("%s: create request #%d went to %s with %d cached free addresses, an eligible candidate has %d", desc, i+1, r.vsw, fr, mx)
				}
			}
			// the selection of this round looked every candidate it needed up: ids
			// described during this call are cached from here on
			for id := range describedNow {
				if cached[id] == nil {
					v := api.vsw[id]
					cached[id] = &c17fView{ok: true, zone: v.Zone, free: v.Reported}
				}
			}
			switch r.answer {
			case "exhausted":
				distinct := map[int]bool{}
				for _, k := range elig {
					distinct[s.List[k]] = true
				}
				if len(distinct) >= 2 {
					sawExhaustedWithAlternative = true
				}
				// the factory reports it exhausted: 0 in the cache until the entry expires
				if cached[gi] == nil {
					cached[gi] = &c17fView{ok: true, zone: view(gi).zone}
				}
				cached[gi] = &c17fView{ok: true, zone: cached[gi].zone, free: 0}
				if i == len(reqs)-1 {
					// the call ended after an "exhausted" answer: either the budget is
					// used up or nothing eligible is left
					if len(reqs) < s.Steps && len(eligible()) > 0 {
						c.Fatalf("%s gave up after %d of %d rounds (%v) although %v is still eligible; err=%v", desc, len(reqs), s.Steps, reqs, c17fID(s.List[eligible()[0]]), res.err)
					}
					if res.err == nil || res.vsw != "" {
						c.Fatalf("%s: every request was answered exhausted (%v) but the call returned eni on %q, err=%v", desc, reqs, res.vsw, res.err)
					}
				}
			case "created":
				if i != len(reqs)-1 {
					c.Fatalf("%s: request #%d created an interface on %s, yet further requests followed: %v", desc, i+1, r.vsw, reqs)
				}
				if res.vsw != r.vsw || !errors.Is(res.err, errC17fAttach) {
					c.Fatalf("%s: the interface was created on %s but the call returned eni on %q, err=%v", desc, r.vsw, res.vsw, res.err)
				}
			case "other":
				if i != len(reqs)-1 {
					c.Fatalf("%s: request #%d failed with a non-retryable error, yet further requests followed: %v", desc, i+1, reqs)
				}
				if !errors.Is(res.err, errC17fOther) {
					c.Fatalf("%s: create failed with a non-retryable error but the call returned eni on %q, err=%v", desc, res.vsw, res.err)
				}
			}
		}
		if len(reqs) == 0 {
			// no request at all: only right if nothing is eligible
			for id := range describedNow {
				if cached[id] == nil {
					v := api.vsw[id]
					cached[id] = &c17fView{ok: true, zone: v.Zone, free: v.Reported}
				}
			}
			if elig := eligible(); len(elig) > 0 {
				c.Fatalf("%s sent no create request (err=%v) although %s is eligible", desc, res.err, c17fID(s.List[elig[0]]))
			}
			if res.err == nil {
				c.Fatalf("%s: no eligible candidate, no request, yet no error", desc)
			}
			c.Label("call:no-eligible")
		} else {
			c.Label("call:last=" + reqs[len(reqs)-1].answer)
			if len(reqs) >= 2 {
				c.Label("retried")
			}
		}
		if sawExhaustedWithAlternative {
			c.Label("exhausted-with-alternative")
			c.NonTrivial()
		}
		if strings.Join(f.vSwitchOptions, ",") != strings.Join(pristine, ",") {
			c.Fatalf("%s modified the configured candidate list: now %v, was %v", desc, f.vSwitchOptions, pristine)
		}
	}
}

func TestVerifC17Factory(t *testing.T) { vt.Run(t, c17fGen, c17fRun) }
