//go:build default_build

package podeni

import (
	"context"

	"k8s.io/apimachinery/pkg/runtime"
	"k8s.io/client-go/tools/record"
	"sigs.k8s.io/controller-runtime/pkg/client"

	register "github.com/AliyunContainerService/terway/pkg/controller"
	"github.com/AliyunContainerService/terway/pkg/controller/status"
)

// VerifC10NewReconcilePodENI is an export shim of the verification harness (C10/C11
// closed loop in zz_verif/c10loop): the PodENI controller wired exactly as init() wires
// it, minus the manager and the background gc goroutines (the harness calls the gc
// passes as explicit history actions through the methods below).
func VerifC10NewReconcilePodENI(c client.Client, s *runtime.Scheme, a register.Interface, rec record.EventRecorder,
	trunkMode, crdMode bool, cache *status.Cache[status.NodeStatus]) *ReconcilePodENI {
	return &ReconcilePodENI{
		client:          c,
		scheme:          s,
		aliyun:          a,
		record:          rec,
		trunkMode:       trunkMode,
		crdMode:         crdMode,
		nodeStatusCache: cache,
	}
}

// VerifC10GCCR runs one pass of the record collector (gcCRPodENIs).
func (m *ReconcilePodENI) VerifC10GCCR(ctx context.Context) { m.gcCRPodENIs(ctx) }

// VerifC10GCSecondary runs one pass of the leaked secondary-interface collector.
func (m *ReconcilePodENI) VerifC10GCSecondary(ctx context.Context) { m.gcSecondaryENI(ctx) }

// VerifC10GCMember runs one pass of the leaked member-interface collector.
func (m *ReconcilePodENI) VerifC10GCMember(ctx context.Context) { m.gcMemberENI(ctx) }
