package podeni

// C15 — the cpuSet NUMA hint annotation never panics the PodENI controller.

import (
	"encoding/json"
	"fmt"
	"testing"

	g "github.com/AliyunContainerService/terway/zz_verif/c15gen"
	"github.com/AliyunContainerService/terway/zz_verif/vt"
	"pgregory.net/rapid"
)

type vfC15NumaScenario struct {
	Kind   string   `json:"kind"`
	CPUSet *g.Bytes `json:"cpuset"` // nil: annotation absent
}

func vfC15ValidCPUSet(t *rapid.T) []byte {
	out := map[string]map[string]any{}
	for i, n := 0, rapid.IntRange(0, 3).Draw(t, "nctr"); i < n; i++ {
		inner := map[string]any{}
		for j, m := 0, rapid.IntRange(0, 3).Draw(t, "nnuma"); j < m; j++ {
			key := rapid.SampledFrom([]string{"0", "1", "2", "7", "-1", "x", "", "00", "+1", "9223372036854775808"}).Draw(t, "numa")
			inner[key] = rapid.SampledFrom([]any{map[string]any{"elems": map[string]any{"0": map[string]any{}}}, "0-3", 1, nil}).Draw(t, "cpus")
		}
		out[fmt.Sprintf("ctr%d", i)] = inner
	}
	return g.MustJSON(out)
}

func vfC15GenNuma(t *rapid.T) vfC15NumaScenario {
	s := vfC15NumaScenario{Kind: g.Kind(t)}
	if rapid.IntRange(0, 9).Draw(t, "present") > 0 {
		v := g.JSONField(t, s.Kind, vfC15ValidCPUSet, []string{`{"a":null}`, `{"a":{"0":null}}`, `{"a":[]}`, `{"a":{"":1}}`, `[]`, `{"a":{"0":{}},"b":{"0":{}}}`})
		s.CPUSet = &v
	}
	return s
}

func vfC15RunNuma(c *vt.Ctx, s vfC15NumaScenario) {
	c.Label("kind:" + s.Kind)
	anno := map[string]string{}
	if s.CPUSet != nil {
		anno["cpuSet"] = string(*s.CPUSet)
	}
	if s.CPUSet == nil && s.Kind == g.KindRaw {
		anno = nil
	}
	hints := podNumaHints(anno)
	switch {
	case s.CPUSet == nil || len(*s.CPUSet) == 0:
		c.Label("depth0-absent")
	case !json.Valid(*s.CPUSet):
		c.Label("depth1-not-json")
		if hints != nil {
			c.Fatalf("hints %v from non-JSON %q", hints, string(*s.CPUSet))
		}
	default:
		var shape map[string]map[string]any
		if json.Unmarshal(*s.CPUSet, &shape) != nil {
			c.Label("depth2-json-wrong-shape")
		} else {
			c.Labelf("depth3-decoded")
			if len(hints) > 0 {
				c.Label("hints>0")
			}
		}
		c.NonTrivial()
	}
	// the caller's use of the result (eni_controller.go: only a single hint is used)
	if len(hints) == 1 {
		idx := &hints[0]
		if *idx < 0 {
			idx = nil
		}
		_ = idx
	}
}

func TestVerifC15NumaHints(t *testing.T) { vt.Run(t, vfC15GenNuma, g.NoPanic(vfC15RunNuma)) }
