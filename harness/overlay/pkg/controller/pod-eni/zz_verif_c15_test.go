package podeni

// C15 — the cpuSet NUMA hint annotation never panics the PodENI controller.

import (
	"context"
	"encoding/json"
	"fmt"
	"testing"

	corev1 "k8s.io/api/core/v1"
	metav1 "k8s.io/apimachinery/pkg/apis/meta/v1"
	"sigs.k8s.io/controller-runtime/pkg/client/fake"

	"github.com/AliyunContainerService/terway/pkg/controller/status"
	"github.com/AliyunContainerService/terway/types"

	g "github.com/AliyunContainerService/terway/zz_verif/c15gen"
	"github.com/AliyunContainerService/terway/zz_verif/vt"
	"pgregory.net/rapid"
)

type vfC15NumaScenario struct {
	Kind   string   `json:"kind"`
	CPUSet *g.Bytes `json:"cpuset"` // nil: annotation absent
}

func vfC15ValidCPUSet(t *rapid.T) []byte {
	out := map[string]map[string]any{}
	for i, n := 0, rapid.IntRange(0, 3).Draw(t, "nctr"); i < n; i++ {
		inner := map[string]any{}
		for j, m := 0, rapid.IntRange(0, 3).Draw(t, "nnuma"); j < m; j++ {
			key := rapid.SampledFrom([]string{"0", "1", "2", "7", "-1", "x", "", "00", "+1", "9223372036854775808"}).Draw(t, "numa")
			inner[key] = rapid.SampledFrom([]any{map[string]any{"elems": map[string]any{"0": map[string]any{}}}, "0-3", 1, nil}).Draw(t, "cpus")
		}
		out[fmt.Sprintf("ctr%d", i)] = inner
	}
	return g.MustJSON(out)
}

func vfC15GenNuma(t *rapid.T) vfC15NumaScenario {
	s := vfC15NumaScenario{Kind: g.Kind(t)}
	if rapid.IntRange(0, 9).Draw(t, "present") > 0 {
		v := g.JSONField(t, s.Kind, vfC15ValidCPUSet, []string{`{"a":null}`, `{"a":{"0":null}}`, `{"a":[]}`, `{"a":{"":1}}`, `[]`, `{"a":{"0":{}},"b":{"0":{}}}`})
		s.CPUSet = &v
	}
	return s
}

func vfC15RunNuma(c g.Sink, s vfC15NumaScenario) {
	c.Label("kind:" + s.Kind)
	anno := map[string]string{}
	if s.CPUSet != nil {
		anno["cpuSet"] = string(*s.CPUSet)
	}
	if s.CPUSet == nil && s.Kind == g.KindRaw {
		anno = nil
	}
	hints := podNumaHints(anno)
	switch {
	case s.CPUSet == nil || len(*s.CPUSet) == 0:
		c.Label("depth0-absent")
	case !json.Valid(*s.CPUSet):
		c.Label("depth1-not-json")
		if hints != nil {
			c.Fatalf("hints %v from non-JSON %q", hints, string(*s.CPUSet))
		}
	default:
		var shape map[string]map[string]any
		if json.Unmarshal(*s.CPUSet, &shape) != nil {
			c.Label("depth2-json-wrong-shape")
		} else {
			c.Labelf("depth3-decoded")
			if len(hints) > 0 {
				c.Label("hints>0")
			}
		}
		c.NonTrivial()
	}
	// the caller's use of the result (eni_controller.go: only a single hint is used)
	if len(hints) == 1 {
		idx := &hints[0]
		if *idx < 0 {
			idx = nil
		}
		_ = idx
	}
}

func TestVerifC15NumaHints(t *testing.T) { vt.Run(t, vfC15GenNuma, g.NoPanic(g.Adapt(vfC15RunNuma))) }

// ---------------------------------------------------------------------------------
// The parsed hint in use: getENIIndex (pod + node from the API server, node-status cache
// with 0..5 network cards, some already holding ENIs) hands the hint to
// status.NodeStatus.RequestNetworkIndex, which selects a card with it. attachENI calls
// this inside an errgroup goroutine, where a panic is not recovered by controller-runtime.

type vfC15IndexScenario struct {
	Kind     string   `json:"kind"`
	CPUSet   *g.Bytes `json:"cpuset"`    // nil: annotation absent
	Cards    int      `json:"cards"`     // -1: node not in the cache
	Occupied []int    `json:"occupied"`  // card index (mod cards) of ENIs already placed
	Again    bool     `json:"again"`     // ask a second time for the same ENI (re-placement)
	PodGone  bool     `json:"pod_gone"`  // pod not found
	NodeGone bool     `json:"node_gone"` // node object not found
}

// a cpuSet with exactly one numeric second-level key: the shape whose value is used
func vfC15SingleHint(t *rapid.T) []byte {
	key := rapid.OneOf(
		rapid.SampledFrom([]string{"0", "1", "2", "3", "4", "7", "-1", "-2", "00", "01", "+1", "+2", "x", "", " 1", "1.0", "1e1",
			"2147483647", "2147483648", "9223372036854775807", "9223372036854775808", "-9223372036854775808", "٣"}),
		rapid.Map(rapid.IntRange(-3, 70), func(i int) string { return fmt.Sprint(i) }),
		rapid.Map(rapid.IntRange(0, 5), func(i int) string { return fmt.Sprint(i) }),
		rapid.Map(rapid.IntRange(2, 9), func(i int) string { return fmt.Sprint(i) }),
	).Draw(t, "hint")
	out := map[string]map[string]any{}
	for i, n := 0, rapid.IntRange(1, 2).Draw(t, "nctr"); i < n; i++ {
		out[fmt.Sprintf("ctr%d", i)] = map[string]any{key: map[string]any{}}
	}
	return g.MustJSON(out)
}

func vfC15GenIndex(t *rapid.T) vfC15IndexScenario {
	s := vfC15IndexScenario{Kind: g.Kind(t)}
	if rapid.IntRange(0, 9).Draw(t, "present") > 0 {
		valid := vfC15SingleHint
		if rapid.IntRange(0, 3).Draw(t, "multi") == 0 {
			valid = vfC15ValidCPUSet
		}
		v := g.JSONField(t, s.Kind, valid, []string{`{"a":{"2":{}}}`, `{"a":{"3":null}}`, `{"a":{"2":{}},"b":{"2":{}}}`, `{"a":{"0":{},"2":{}}}`,
			`{"a":{"-1":{}}}`, `{"a":{"9223372036854775807":{}}}`, `{"a":{"1":{}},"b":null}`, `{"a":null}`})
		s.CPUSet = &v
	}
	s.Cards = rapid.SampledFrom([]int{-1, 0, 1, 2, 2, 2, 2, 3, 3, 4, 4, 4, 5}).Draw(t, "cards")
	s.Occupied = rapid.SliceOfN(rapid.IntRange(0, 7), 0, 6).Draw(t, "occupied")
	s.Again = rapid.Bool().Draw(t, "again")
	s.PodGone = rapid.IntRange(0, 15).Draw(t, "podgone") == 0
	s.NodeGone = rapid.IntRange(0, 15).Draw(t, "nodegone") == 0
	return s
}

func vfC15RunIndex(c g.Sink, s vfC15IndexScenario) {
	c.Label("kind:" + s.Kind)
	pod := &corev1.Pod{ObjectMeta: metav1.ObjectMeta{Name: "p", Namespace: "ns"}}
	pod.Spec.NodeName = "node-1"
	if s.CPUSet != nil {
		pod.Annotations = map[string]string{"cpuSet": string(*s.CPUSet)}
	}
	node := &corev1.Node{ObjectMeta: metav1.ObjectMeta{Name: "node-1", Labels: map[string]string{"node.kubernetes.io/instance-type": "ecs.x"}}}
	b := fake.NewClientBuilder().WithScheme(types.Scheme)
	if !s.PodGone {
		b = b.WithObjects(pod)
	}
	if !s.NodeGone {
		b = b.WithObjects(node)
	}
	cache := status.NewCache[status.NodeStatus]()
	if s.Cards >= 0 {
		ns := status.NewNodeStatus(s.Cards)
		if s.Cards > 0 {
			for i, k := range s.Occupied {
				idx := k % s.Cards
				ns.RequestNetworkIndex(fmt.Sprintf("eni-old-%d", i), &idx, nil)
			}
		}
		cache.LoadOrStore("node-1", ns)
	}
	m := &ReconcilePodENI{client: b.Build(), nodeStatusCache: cache}

	hints := podNumaHints(pod.Annotations)
	switch {
	case len(hints) != 1:
		c.Labelf("hints:%d", len(hints))
	case hints[0] < 0:
		c.Label("hint:negative")
	case hints[0] <= 1:
		c.Label("hint:0-1")
	case hints[0] <= 3:
		c.Label("hint:2-3")
	default:
		c.Label("hint:>3")
	}
	reached := !s.PodGone && !s.NodeGone && s.Cards >= 2
	if reached {
		c.Label("reached:RequestNetworkIndex")
		if len(hints) == 1 && hints[0] >= 0 {
			// non-trivial: a user-written hint is actually used to select a card
			c.NonTrivial()
		}
	}

	ctx := context.Background()
	check := func(idx *int) {
		if idx == nil {
			c.Label("index:none")
			return
		}
		c.Label("index:chosen")
		if !reached {
			c.Fatalf("an index (%d) was chosen although the card selection cannot have been reached", *idx)
		}
		if *idx < 0 || *idx >= s.Cards {
			c.Fatalf("chosen network card index %d is not one of the node's %d cards", *idx, s.Cards)
		}
	}
	check(m.getENIIndex(ctx, "ns", "p", "eni-new"))
	if s.Again {
		check(m.getENIIndex(ctx, "ns", "p", "eni-new"))
		check(m.getENIIndex(ctx, "ns", "p", "eni-new-2"))
	}
	// the reconcile entry also looks the node up (cache hit: no cloud call)
	if s.Cards >= 0 {
		ctx2 := m.injectNodeStatus(ctx, "ns", "p")
		if _, ok := status.MetaCtx[status.NodeStatus](ctx2); !ok && !s.PodGone && !s.NodeGone {
			c.Label("inject:no-meta")
		}
	}
	if ns, ok := cache.Get("node-1"); ok {
		ns.DetachNetworkIndex("eni-new")
	}
}

func TestVerifC15ENIIndex(t *testing.T) { vt.Run(t, vfC15GenIndex, g.NoPanic(g.Adapt(vfC15RunIndex))) }
