package podeni

import (
	"testing"

	g "github.com/AliyunContainerService/terway/zz_verif/c15gen"
)

// FuzzVerifC15NumaHints: the cpuSet annotation under the coverage-guided fuzzer, through
// podNumaHints and through getENIIndex -> status.RequestNetworkIndex on a node with
// 0..5 network cards (oracles of TestVerifC15NumaHints and TestVerifC15ENIIndex).
func FuzzVerifC15NumaHints(f *testing.F) {
	for _, s := range append([]string{`{"app":{"0":{}}}`, `{"app":{"1":{"elems":{"0":{}}}}}`, `{"app":{"2":{}}}`, `{"a":{"0":{}},"b":{"1":{}}}`,
		`{"a":{"-1":{}}}`, `{"a":{"9223372036854775807":{}}}`, `{"a":{"x":{}}}`, `{"a":null}`, `{"a":[]}`}, g.FuzzHostile...) {
		f.Add([]byte(s), uint8(2), uint8(0))
		f.Add([]byte(s), uint8(4), uint8(3))
	}
	f.Fuzz(func(t *testing.T, cpuset []byte, cards, occupied uint8) {
		defer g.FuzzGuard(t, "FuzzVerifC15NumaHints", cpuset, cards, occupied)()
		c := g.FuzzSink{T: t}
		v := g.Bytes(cpuset)
		vfC15RunNuma(c, vfC15NumaScenario{Kind: "fuzz", CPUSet: &v})
		vfC15RunIndex(c, vfC15IndexScenario{Kind: "fuzz", CPUSet: &v, Cards: int(cards % 6), Occupied: []int{int(occupied), int(occupied / 2)}, Again: occupied&1 != 0})
	})
}
