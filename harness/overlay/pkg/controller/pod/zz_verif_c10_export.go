//go:build default_build

package pod

import (
	"k8s.io/apimachinery/pkg/runtime"
	"k8s.io/client-go/tools/record"
	"sigs.k8s.io/controller-runtime/pkg/client"

	register "github.com/AliyunContainerService/terway/pkg/controller"
	"github.com/AliyunContainerService/terway/pkg/vswitch"
)

// VerifC10NewReconcilePod is an export shim of the verification harness (C10/C11 closed
// loop in zz_verif/c10loop): the pod controller wired exactly as NewReconcilePod wires
// it, minus the manager (fields are set directly, as the upstream specs do).
func VerifC10NewReconcilePod(c client.Client, s *runtime.Scheme, a register.Interface, swPool *vswitch.SwitchPool,
	rec record.EventRecorder, trunkMode, crdMode bool) *ReconcilePod {
	return &ReconcilePod{
		client:    c,
		scheme:    s,
		aliyun:    a,
		swPool:    swPool,
		record:    rec,
		trunkMode: trunkMode,
		crdMode:   crdMode,
	}
}
