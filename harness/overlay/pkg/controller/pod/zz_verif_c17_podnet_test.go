package pod

// C17 at the pod controller (anchor pkg/controller/pod): every network of a
// k8s.aliyun.com/pod-networks annotation gets its vSwitch from ITS OWN candidate list
// under ITS OWN policy. The real annotation decoder, the real
// ReconcilePod.ParsePodNetworksFromAnnotation and a real vswitch.SwitchPool are driven;
// only DescribeVSwitchByID is a fake. Histories: pods (1-4 networks with mixed
// policies), cloud free-count changes, Block of a vSwitch a previous pod was given.

import (
	"context"
	"encoding/json"
	"fmt"
	"strconv"
	"strings"
	"sync"
	"testing"

	sdkErr "github.com/aliyun/alibaba-cloud-sdk-go/sdk/errors"
	"github.com/aliyun/alibaba-cloud-sdk-go/services/vpc"
	"k8s.io/apimachinery/pkg/runtime"
	corev1 "k8s.io/api/core/v1"
	"pgregory.net/rapid"

	aliyunClient "github.com/AliyunContainerService/terway/pkg/aliyun/client"
	apiErr "github.com/AliyunContainerService/terway/pkg/aliyun/client/errors"
	"github.com/AliyunContainerService/terway/pkg/apis/network.alibabacloud.com/v1beta1"
	register "github.com/AliyunContainerService/terway/pkg/controller"
	"github.com/AliyunContainerService/terway/pkg/vswitch"
	"github.com/AliyunContainerService/terway/types"
	"github.com/AliyunContainerService/terway/types/controlplane"
	"github.com/AliyunContainerService/terway/zz_verif/vt"
)

type c17pVSW struct {
	Zone int   `json:"zone"`
	Free int64 `json:"free"`
	Fail bool  `json:"fail,omitempty"`
	// the create call answers "no address left" although the reported count may still be
	// positive (the vSwitch list lags behind); Quota: as QuotaExceeded.PrivateIpAddress
	Exhausted bool `json:"exhausted,omitempty"`
	Quota     bool `json:"quota,omitempty"`
}

type c17pNet struct {
	IDs    []int  `json:"ids"`              // indices into VSW; len(VSW) = unknown to the cloud
	Policy string `json:"policy,omitempty"` // "" (unset) | ordered | random | most
	Iface  string `json:"iface,omitempty"`
}

type c17pOp struct {
	Kind string    `json:"k"` // pod | free | block
	Zone int       `json:"zone,omitempty"`
	Nets []c17pNet `json:"nets,omitempty"`
	ID   int       `json:"id,omitempty"`
	Free int64     `json:"free,omitempty"`
	Net  int       `json:"net,omitempty"` // block: the vSwitch network #Net of the latest pod was given
	// pod: after a successful parse run the real createENI on the allocations (as the
	// reconcile does); a create refused as exhausted makes the controller report the vSwitch
	Create bool `json:"create,omitempty"`
}

type c17pScenario struct {
	VSW []c17pVSW `json:"vsw"`
	Ops []c17pOp  `json:"ops"`
}

func c17pID(i int) string   { return "vsw-" + strconv.Itoa(i) }
func c17pZone(z int) string { return "zone-" + strconv.Itoa(z) }
func c17pIdx(id string) (int, bool) {
	if !strings.HasPrefix(id, "vsw-") {
		return 0, false
	}
	n, err := strconv.Atoi(id[4:])
	return n, err == nil
}

var c17pFree = rapid.SampledFrom([]int64{7, 1, 250, 0, 2, 40, 1 << 33, 0})

func c17pGen(t *rapid.T) c17pScenario {
	s := c17pScenario{}
	n := rapid.SampledFrom([]int{4, 3, 5, 6, 2, 8}).Draw(t, "nvsw")
	for i := 0; i < n; i++ {
		s.VSW = append(s.VSW, c17pVSW{
			Zone: rapid.SampledFrom([]int{0, 0, 0, 1, 0, 2}).Draw(t, "zone"),
			Free: c17pFree.Draw(t, "free"),
			Fail: rapid.IntRange(0, 14).Draw(t, "fail") == 0,
			Exhausted: rapid.IntRange(0, 2).Draw(t, "exhausted") == 0,
			Quota:     rapid.IntRange(0, 3).Draw(t, "quota") == 0,
		})
	}
	netGen := rapid.Custom(func(t *rapid.T) c17pNet {
		ln := rapid.SampledFrom([]int{3, 2, 4, 1, 5, 6}).Draw(t, "len")
		nt := c17pNet{}
		for i := 0; i < ln; i++ {
			if rapid.IntRange(0, 14).Draw(t, "unk") == 0 {
				nt.IDs = append(nt.IDs, n)
			} else {
				nt.IDs = append(nt.IDs, rapid.IntRange(0, n-1).Draw(t, "id"))
			}
		}
		nt.Policy = rapid.SampledFrom([]string{"ordered", "most", "", "random", "ordered", "most"}).Draw(t, "policy")
		return nt
	})
	opGen := rapid.Custom(func(t *rapid.T) c17pOp {
		switch rapid.IntRange(0, 7).Draw(t, "kind") {
		case 6:
			return c17pOp{Kind: "free", ID: rapid.IntRange(0, n-1).Draw(t, "id"), Free: c17pFree.Draw(t, "free")}
		case 7:
			return c17pOp{Kind: "block", Net: rapid.IntRange(0, 3).Draw(t, "net")}
		}
		o := c17pOp{Kind: "pod"}
		o.Zone = rapid.SampledFrom([]int{0, 0, 0, 0, 1, 2}).Draw(t, "zone")
		o.Nets = rapid.SliceOfN(netGen, 1, 4).Draw(t, "nets")
		o.Create = rapid.IntRange(0, 2).Draw(t, "create") != 0
		for i := range o.Nets {
			if i > 0 || rapid.Bool().Draw(t, "named") {
				o.Nets[i].Iface = "eth" + strconv.Itoa(i)
			}
		}
		return o
	})
	s.Ops = rapid.SliceOfN(opGen, 1, vt.Scale(6, 12)).Draw(t, "ops")
	return s
}

type c17pCloud struct {
	register.Interface // only DescribeVSwitchByID is reachable from the code under test
	mu                 sync.Mutex
	vsw                []c17pVSW
	calls              []int // ids successfully described
	creates            []c17pCreate
	neni               int
}

type c17pCreate struct {
	vsw       string
	exhausted bool
}

// CreateNetworkInterface knows the truth: an exhausted vSwitch answers
// InvalidVSwitchId.IpNotEnough / QuotaExceeded.PrivateIpAddress whatever count was reported.
func (c *c17pCloud) CreateNetworkInterface(_ context.Context, opts ...aliyunClient.CreateNetworkInterfaceOption) (*aliyunClient.NetworkInterface, error) {
	o := &aliyunClient.CreateNetworkInterfaceOptions{}
	for _, opt := range opts {
		opt.ApplyCreateNetworkInterface(o)
	}
	id := ""
	if o.NetworkInterfaceOptions != nil {
		id = o.NetworkInterfaceOptions.VSwitchID
	}
	c.mu.Lock()
	defer c.mu.Unlock()
	i, ok := c17pIdx(id)
	if !ok || i < 0 || i >= len(c.vsw) {
		c.creates = append(c.creates, c17pCreate{vsw: id})
		return nil, fmt.Errorf("InvalidVSwitchId.NotFound %q", id)
	}
	if c.vsw[i].Exhausted {
		code := apiErr.InvalidVSwitchIDIPNotEnough
		if c.vsw[i].Quota {
			code = apiErr.QuotaExceededPrivateIPAddress
		}
		c.creates = append(c.creates, c17pCreate{vsw: id, exhausted: true})
		return nil, apiErr.WarpError(sdkErr.NewServerError(400, fmt.Sprintf(`{"Code":"%s","Message":"no address left in %s"}`, code, id), ""))
	}
	c.creates = append(c.creates, c17pCreate{vsw: id})
	c.neni++
	return &aliyunClient.NetworkInterface{NetworkInterfaceID: fmt.Sprintf("eni-%d", c.neni), MacAddress: fmt.Sprintf("00:16:3e:00:00:%02x", c.neni%256),
		VSwitchID: id, ZoneID: c17pZone(c.vsw[i].Zone), PrivateIPAddress: fmt.Sprintf("10.%d.0.%d", i, 10+c.neni%200)}, nil
}

func (c *c17pCloud) DescribeVSwitchByID(_ context.Context, id string) (*vpc.VSwitch, error) {
	if id == "" {
		// the id is only a filter of DescribeVSwitches (pkg/aliyun/client/vsw_default.go):
		// without a filter the first vSwitch of the account comes back - a foreign one
		return &vpc.VSwitch{VSwitchId: "vsw-foreign", ZoneId: c17pZone(0), AvailableIpAddressCount: 4000, CidrBlock: "172.16.0.0/16"}, nil
	}
	c.mu.Lock()
	defer c.mu.Unlock()
	i, ok := c17pIdx(id)
	if !ok || i < 0 || i >= len(c.vsw) {
		return nil, fmt.Errorf("InvalidVSwitchId.NotFound %s", id)
	}
	v := c.vsw[i]
	if v.Fail {
		return nil, fmt.Errorf("Throttling %s", id)
	}
	c.calls = append(c.calls, i)
	return &vpc.VSwitch{VSwitchId: id, ZoneId: c17pZone(v.Zone), AvailableIpAddressCount: v.Free,
		CidrBlock: fmt.Sprintf("10.%d.0.0/16", i), Ipv6CidrBlock: fmt.Sprintf("fd00:%x::/64", i)}, nil
}

type c17pView struct {
	ok   bool
	zone int
	free int64
}

func c17pRun(c *vt.Ctx, s c17pScenario) {
	if len(s.VSW) == 0 {
		return
	}
	n := len(s.VSW)
	cloud := &c17pCloud{vsw: append([]c17pVSW(nil), s.VSW...)}
	// ttl 10m of real time: nothing expires within a case
	pool, err := vswitch.NewSwitchPool(100, "10m")
	if err != nil {
		c.Inconclusive("switch pool")
	}
	controlplane.SetConfig(&controlplane.Config{ClusterID: "c17", IPStack: "ipv4"})
	m := &ReconcilePod{aliyun: cloud, swPool: pool, record: c17pRecorder{}}
	// reference view of the cache: value at first describe, 0 after Block
	cached := make([]*c17pView, n)
	var lastAllocs []string
	reported := map[string]bool{} // vSwitches reported exhausted (Block) so far
	reportedList := func() []string {
		var out []string
		for i := 0; i < n; i++ {
			if reported[c17pID(i)] {
				out = append(out, c17pID(i))
			}
		}
		return out
	}

	for step, op := range s.Ops {
		switch op.Kind {
		case "free":
			id := op.ID % n
			cloud.mu.Lock()
			cloud.vsw[id].Free = op.Free
			cloud.mu.Unlock()
			c.Trace("#%d cloud: %s free=%d", step, c17pID(id), op.Free)
		case "block":
			if len(lastAllocs) == 0 {
				continue
			}
			id := lastAllocs[op.Net%len(lastAllocs)]
			pool.Block(id)
			if i, ok := c17pIdx(id); ok && i < n && cached[i] != nil {
				cached[i] = &c17pView{ok: true, zone: cached[i].zone, free: 0}
				reported[id] = true
			}
			c.Label("block")
			c.Trace("#%d Block(%s)", step, id)
		case "pod":
			if len(op.Nets) == 0 {
				continue
			}
			// the annotation as a user writes it
			type annoNet struct {
				VSwitchOptions   []string `json:"vSwitchOptions"`
				SecurityGroupIDs []string `json:"securityGroupIDs"`
				Interface        string   `json:"interface,omitempty"`
				Select           *struct {
					Policy string `json:"vSwitchSelectionPolicy"`
				} `json:"vSwitchSelectOptions,omitempty"`
			}
			var doc struct {
				PodNetworks []annoNet `json:"podNetworks"`
			}
			for _, nt := range op.Nets {
				an := annoNet{SecurityGroupIDs: []string{"sg-1"}, Interface: nt.Iface}
				for _, id := range nt.IDs {
					an.VSwitchOptions = append(an.VSwitchOptions, c17pID(id))
				}
				if nt.Policy != "" {
					an.Select = &struct {
						Policy string `json:"vSwitchSelectionPolicy"`
					}{nt.Policy}
				}
				doc.PodNetworks = append(doc.PodNetworks, an)
			}
			raw, _ := json.Marshal(doc)
			pod := &corev1.Pod{}
			pod.Annotations = map[string]string{types.PodNetworks: string(raw)}
			anno, err := controlplane.ParsePodNetworksFromAnnotation(pod)
			if err != nil {
				c.Fatalf("step %d: well-formed annotation %s rejected: %v", step, raw, err)
			}
			before := make([][]string, len(anno.PodNetworks))
			for i, pn := range anno.PodNetworks {
				before[i] = append([]string(nil), pn.VSwitchOptions...)
			}
			cloud.mu.Lock()
			callsBefore := len(cloud.calls)
			cloud.mu.Unlock()

			allocs, perr := m.ParsePodNetworksFromAnnotation(context.Background(), c17pZone(op.Zone), anno)

			// lookup view of every id during this call: the cache's value if cached
			// before the call, else what the cloud answers now (constant during the call)
			view := func(id int) c17pView {
				if id >= n {
					return c17pView{}
				}
				if cached[id] != nil {
					return *cached[id]
				}
				v := cloud.vsw[id]
				if v.Fail {
					return c17pView{}
				}
				return c17pView{ok: true, zone: v.Zone, free: v.Free}
			}
			c.Trace("#%d pod zone=%s annotation=%s -> err=%v", step, c17pZone(op.Zone), raw, perr)

			policies := map[string]bool{}
			lastAllocs = nil
			failedAt := -1
			for i, nt := range op.Nets {
				policies[nt.Policy] = true
				var elig []int // positions in this network's own list
				distinct := map[int]bool{}
				for k, id := range nt.IDs {
					if v := view(id); v.ok && v.zone == op.Zone && v.free > 0 {
						elig = append(elig, k)
						distinct[id] = true
					}
				}
				desc := fmt.Sprintf("step %d network %d (interface %q, policy %q, candidates %v, zone %s)", step, i, nt.Iface, nt.Policy, before[i], c17pZone(op.Zone))
				if len(elig) == 0 {
					if perr == nil {
						c.Fatalf("%s: no candidate is in the zone with free addresses in the cache's view, yet the pod got allocations %v (reported exhausted earlier, entries not expired: %v)", desc, func() []string {
							var o []string
							for _, a := range allocs {
								if a != nil {
									o = append(o, a.ENI.VSwitchID)
								}
							}
							return o
						}(), reportedList())
					}
					failedAt = i
					break
				}
				if perr != nil {
					continue // a later network may be the one without candidates
				}
				if i >= len(allocs) || allocs[i] == nil {
					c.Fatalf("%s: no allocation returned (got %d)", desc, len(allocs))
				}
				got := allocs[i].ENI.VSwitchID
				lastAllocs = append(lastAllocs, got)
				gi, ok := c17pIdx(got)
				pos := -1
				for _, k := range elig {
					if ok && nt.IDs[k] == gi {
						pos = k
						break
					}
				}
				if pos < 0 {
					inList := false
					for _, id := range nt.IDs {
						if ok && id == gi {
							inList = true
						}
					}
					if !inList {
						c.Fatalf("%s: selected %s, which is not in this network's candidate list", desc, got)
					}
					v := view(gi)
					c.Fatalf("%s: selected %s, which is not eligible (view: ok=%v zone=%s free=%d; reported exhausted earlier: %v)", desc, got, v.ok, c17pZone(v.zone), v.free, reportedList())
				}
				switch nt.Policy {
				case "ordered", "":
					// unset means ordered: documented default of VSwitchSelectOptions
					if first := elig[0]; nt.IDs[first] != gi {
						c.Fatalf("%s: ordered selection returned %s, the first eligible candidate of this network is %s (position %d)",
							desc, got, c17pID(nt.IDs[first]), first)
					}
				case "most":
					var mx int64
					for _, k := range elig {
						if f := view(nt.IDs[k]).free; f > mx {
							mx = f
						}
					}
					if f := view(gi).free; f != mx {
						c.Fatalf("%s: most selected %s with %d free addresses, an eligible candidate of this network has %d", desc, got, f, mx)
					}
				}
				if len(distinct) >= 2 {
					c.Label("eligible>=2")
					if len(op.Nets) >= 2 {
						c.NonTrivial()
					}
				}
			}
			if perr != nil && failedAt < 0 {
				c.Fatalf("step %d: every network has an eligible candidate but the pod was rejected: %v (annotation %s)", step, perr, raw)
			}
			if perr != nil {
				c.Label("pod:rejected")
			} else {
				c.Label("pod:ok")
			}
			if len(op.Nets) >= 2 {
				c.Label("networks>=2")
			}
			if len(policies) >= 2 {
				c.Label("mixed-policies")
			}
			// no side effect on the decoded annotation's candidate lists
			for i, pn := range anno.PodNetworks {
				if strings.Join(pn.VSwitchOptions, ",") != strings.Join(before[i], ",") {
					c.Fatalf("step %d network %d: candidate list modified by selection: now %v, was %v", step, i, pn.VSwitchOptions, before[i])
				}
			}
			// cache model: ids described during this call are cached with the cloud's value
			cloud.mu.Lock()
			for _, id := range cloud.calls[callsBefore:] {
				if cached[id] == nil {
					v := cloud.vsw[id]
					cached[id] = &c17pView{ok: true, zone: v.Zone, free: v.Free}
				}
			}
			cloud.mu.Unlock()

			// the reconcile goes on with createENI; a create refused as exhausted is what
			// makes the pod controller report the vSwitch (swPool.Block): from then on it
			// must not be chosen while its cache entry lives
			if op.Create && perr == nil && len(allocs) > 0 {
				cloud.mu.Lock()
				cloud.creates = nil
				cloud.mu.Unlock()
				podENI := &v1beta1.PodENI{}
				cerr := m.createENI(context.Background(), &allocs, pod, podENI)
				cloud.mu.Lock()
				creates := append([]c17pCreate(nil), cloud.creates...)
				cloud.mu.Unlock()
				nExh := 0
				for _, cr := range creates {
					if !cr.exhausted {
						continue
					}
					nExh++
					if i, ok := c17pIdx(cr.vsw); ok && i < n && cached[i] != nil {
						cached[i] = &c17pView{ok: true, zone: cached[i].zone, free: 0}
						reported[cr.vsw] = true
					}
				}
				c.Trace("#%d createENI -> creates %v err=%v", step, creates, cerr)
				if nExh > 0 {
					c.Label("create:refused-exhausted")
					c.NonTrivial()
					if cerr == nil {
						c.Fatalf("step %d: a create was refused as exhausted (%v) but createENI returned no error", step, creates)
					}
				} else {
					c.Label("create:ok")
				}
			}
		}
	}
}

// c17pRecorder drops events.
type c17pRecorder struct{}

func (c17pRecorder) Event(runtime.Object, string, string, string)                  {}
func (c17pRecorder) Eventf(runtime.Object, string, string, string, ...interface{}) {}
func (c17pRecorder) AnnotatedEventf(runtime.Object, map[string]string, string, string, string, ...interface{}) {
}

func TestVerifC17PodNetworks(t *testing.T) { vt.Run(t, c17pGen, c17pRun) }
