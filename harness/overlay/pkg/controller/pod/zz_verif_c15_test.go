package pod

// C15 — the pod-networks annotation never panics the pod controller:
// controlplane.ParsePodNetworksFromAnnotation followed by
// ReconcilePod.ParsePodNetworksFromAnnotation (vSwitch selection against a stub VPC API).

import (
	"context"
	"encoding/json"
	"fmt"
	"testing"

	"github.com/aliyun/alibaba-cloud-sdk-go/services/vpc"
	corev1 "k8s.io/api/core/v1"

	register "github.com/AliyunContainerService/terway/pkg/controller"
	"github.com/AliyunContainerService/terway/pkg/vswitch"
	"github.com/AliyunContainerService/terway/types"
	"github.com/AliyunContainerService/terway/types/controlplane"
	g "github.com/AliyunContainerService/terway/zz_verif/c15gen"
	"github.com/AliyunContainerService/terway/zz_verif/vt"
	"pgregory.net/rapid"
)

type vfC15PodCtlScenario struct {
	Kind     string   `json:"kind"`
	Networks *g.Bytes `json:"pod_networks"`
	Zone     string   `json:"zone"`
}

func vfC15ValidNetworks(t *rapid.T) []byte {
	nets := []any{}
	for i, n := 0, rapid.IntRange(0, 3).Draw(t, "nnet"); i < n; i++ {
		min := 1
		if rapid.IntRange(0, 7).Draw(t, "allowempty") == 0 {
			min = 0
		}
		m := map[string]any{
			"interface":        rapid.SampledFrom([]string{"", "eth0", "eth1"}).Draw(t, "if"),
			"vSwitchOptions":   rapid.SliceOfN(rapid.SampledFrom([]string{"vsw-a1", "vsw-a2", "vsw-a1", "vsw-a2", "vsw-b1", "vsw-empty", "vsw-missing"}), min, 4).Draw(t, "vsw"),
			"securityGroupIDs": rapid.SliceOfN(rapid.SampledFrom([]string{"sg-1", "sg-2"}), min, 2).Draw(t, "sg"),
		}
		if rapid.Bool().Draw(t, "pol") {
			m["vSwitchSelectOptions"] = map[string]any{"vSwitchSelectionPolicy": rapid.SampledFrom([]string{"ordered", "random", "most", ""}).Draw(t, "polv")}
		}
		if rapid.Bool().Draw(t, "eni") {
			m["eniOptions"] = map[string]any{"eniType": rapid.SampledFrom([]string{"Default", "ENI", "Trunk", ""}).Draw(t, "et")}
		}
		if rapid.Bool().Draw(t, "alloc") {
			m["allocationType"] = map[string]any{"type": rapid.SampledFrom([]string{"Elastic", "Fixed"}).Draw(t, "at"), "releaseStrategy": "TTL", "releaseAfter": "5m0s"}
		}
		if rapid.Bool().Draw(t, "routes") {
			m["extraRoutes"] = []any{map[string]any{"dst": g.CIDRv4(t)}}
		}
		nets = append(nets, m)
	}
	return g.MustJSON(map[string]any{"podNetworks": nets})
}

func vfC15GenPodCtl(t *rapid.T) vfC15PodCtlScenario {
	s := vfC15PodCtlScenario{Kind: g.Kind(t)}
	if rapid.IntRange(0, 9).Draw(t, "present") > 0 {
		v := g.JSONField(t, s.Kind, vfC15ValidNetworks, []string{`{"podNetworks":[null]}`, `{"podNetworks":[{}]}`, `{"podNetworks":[{"vSwitchOptions":[null],"securityGroupIDs":[null]}]}`,
			`{"podNetworks":[{"vSwitchOptions":[""],"securityGroupIDs":[""]}]}`, `{"podNetworks":[{"vSwitchOptions":["vsw-a1"],"securityGroupIDs":["sg"],"allocationType":null}]}`})
		s.Networks = &v
	}
	s.Zone = rapid.SampledFrom([]string{"zone-a", "zone-a", "zone-a", "zone-a", "zone-b", "zone-c", ""}).Draw(t, "zone")
	return s
}

type vfC15Cloud struct {
	register.Interface // only the VPC call below is reachable from this harness
}

func (c *vfC15Cloud) DescribeVSwitchByID(ctx context.Context, id string) (*vpc.VSwitch, error) {
	switch id {
	case "vsw-a1":
		return &vpc.VSwitch{VSwitchId: id, ZoneId: "zone-a", AvailableIpAddressCount: 10, CidrBlock: "10.0.0.0/24", Ipv6CidrBlock: "fd00::/64"}, nil
	case "vsw-a2":
		return &vpc.VSwitch{VSwitchId: id, ZoneId: "zone-a", AvailableIpAddressCount: 200, CidrBlock: "10.0.1.0/24"}, nil
	case "vsw-b1":
		return &vpc.VSwitch{VSwitchId: id, ZoneId: "zone-b", AvailableIpAddressCount: 5, CidrBlock: "10.0.2.0/24"}, nil
	case "vsw-empty":
		return &vpc.VSwitch{VSwitchId: id, ZoneId: "zone-a", AvailableIpAddressCount: 0, CidrBlock: "10.0.3.0/24"}, nil
	}
	return nil, fmt.Errorf("InvalidVSwitchId.NotFound %q", id)
}

func vfC15RunPodCtl(c *vt.Ctx, s vfC15PodCtlScenario) {
	c.Label("kind:" + s.Kind)
	pod := &corev1.Pod{}
	if s.Networks != nil {
		pod.Annotations = map[string]string{types.PodNetworks: string(*s.Networks)}
	}
	anno, err := controlplane.ParsePodNetworksFromAnnotation(pod)
	if err != nil {
		if s.Networks != nil && json.Valid(*s.Networks) {
			c.Label("depth1-json-wrong-shape")
		} else {
			c.Label("depth0-not-json")
		}
		return
	}
	if s.Networks == nil {
		c.Label("depth0-absent")
	} else {
		c.NonTrivial()
	}
	pool, err := vswitch.NewSwitchPool(100, "10m")
	if err != nil {
		c.Inconclusive("switch pool")
	}
	m := &ReconcilePod{aliyun: &vfC15Cloud{}, swPool: pool}
	allocs, err := m.ParsePodNetworksFromAnnotation(context.Background(), s.Zone, anno)
	if err != nil {
		if s.Networks != nil {
			c.Label("depth2-decoded-rejected")
		}
		return
	}
	if len(allocs) > 0 {
		c.Label("depth3-allocations-built")
	}
	for _, a := range allocs {
		if a == nil {
			c.Fatalf("nil allocation without error")
		}
		_ = a.ENI.VSwitchID + a.IPv4CIDR + a.Interface
	}
}

func TestVerifC15PodController(t *testing.T) { vt.Run(t, vfC15GenPodCtl, g.NoPanic(vfC15RunPodCtl)) }
