package webhook

// C15 — whole Pod / PodNetworking objects sent to the admission webhooks never panic
// them: podWebhook, podNetworkingWebhook (called directly: controller-runtime's
// Admission.Handle would recover a panic into a 500) and ValidateHook's handler.

import (
	"context"
	"encoding/json"
	"fmt"
	"os"
	"path/filepath"
	"strings"
	"sync"
	"testing"

	admissionv1 "k8s.io/api/admission/v1"
	corev1 "k8s.io/api/core/v1"
	metav1 "k8s.io/apimachinery/pkg/apis/meta/v1"
	"k8s.io/apimachinery/pkg/runtime"
	"k8s.io/apimachinery/pkg/util/wait"
	k8syaml "k8s.io/apimachinery/pkg/util/yaml"
	"k8s.io/utils/ptr"
	"sigs.k8s.io/controller-runtime/pkg/client/fake"
	"sigs.k8s.io/controller-runtime/pkg/webhook/admission"

	"github.com/AliyunContainerService/terway/pkg/apis/network.alibabacloud.com/v1beta1"
	"github.com/AliyunContainerService/terway/pkg/backoff"
	"github.com/AliyunContainerService/terway/types"
	"github.com/AliyunContainerService/terway/types/controlplane"
	g "github.com/AliyunContainerService/terway/zz_verif/c15gen"
	"github.com/AliyunContainerService/terway/zz_verif/vt"
	"pgregory.net/rapid"
)

type vfC15PN struct {
	Name     string   `json:"name"`
	Ready    bool     `json:"ready"`
	Selector int      `json:"selector"` // 0 none, 1 pod selector, 2 namespace selector, 3 invalid operator
	VSw      []string `json:"vsw"`
	SG       []string `json:"sg"`
	Fixed    bool     `json:"fixed"`
	Zones    []string `json:"zones"`
}

type vfC15HookScenario struct {
	Kind    string    `json:"kind"`
	Target  string    `json:"target"` // pod | pn-mutate | pn-validate
	Object  g.Bytes   `json:"object"`
	ENIConf *g.Bytes  `json:"eni_conf"` // nil: no eni-config ConfigMap
	PNs     []vfC15PN `json:"pod_networkings"`
	CRD     bool      `json:"crd"`
	Trunk   bool      `json:"trunk"`
	Inject  bool      `json:"inject"`
	PrevENI bool      `json:"prev_podeni"`
}

func vfC15PodNetworksJSON(t *rapid.T) string {
	nets := []any{}
	for i, n := 0, rapid.IntRange(0, 3).Draw(t, "nnet"); i < n; i++ {
		m := map[string]any{}
		m["interface"] = rapid.SampledFrom([]string{"eth0", "eth1", "net1", "", "toolongname"}).Draw(t, "if")
		if rapid.Bool().Draw(t, "hasvsw") {
			m["vSwitchOptions"] = []any{"vsw-1", "vsw-2"}
		}
		if rapid.Bool().Draw(t, "hassg") {
			m["securityGroupIDs"] = []any{"sg-1"}
		}
		if rapid.Bool().Draw(t, "hasalloc") {
			m["allocationType"] = map[string]any{"type": rapid.SampledFrom([]string{"Elastic", "Fixed", ""}).Draw(t, "at"),
				"releaseStrategy": rapid.SampledFrom([]string{"TTL", "Never", ""}).Draw(t, "rs"), "releaseAfter": "5m0s"}
		}
		if rapid.Bool().Draw(t, "hasopts") {
			m["eniOptions"] = map[string]any{"eniType": rapid.SampledFrom([]string{"Default", "ENI", "Trunk", ""}).Draw(t, "et")}
		}
		if rapid.Bool().Draw(t, "hasroutes") {
			m["extraRoutes"] = []any{map[string]any{"dst": g.CIDRv4(t)}}
		}
		nets = append(nets, m)
	}
	return string(g.MustJSON(map[string]any{"podNetworks": nets}))
}

func vfC15RequestJSON(t *rapid.T) string {
	refs := []any{}
	for i, n := 0, rapid.IntRange(0, 3).Draw(t, "nref"); i < n; i++ {
		m := map[string]any{"network": rapid.SampledFrom([]string{"pn-0", "pn-1", "pn-2", "missing", ""}).Draw(t, "net")}
		if rapid.Bool().Draw(t, "hasif") {
			m["interfaceName"] = rapid.SampledFrom([]string{"eth0", "eth1", "net1"}).Draw(t, "rif")
		}
		if rapid.Bool().Draw(t, "hasdr") {
			m["defaultRoute"] = rapid.Bool().Draw(t, "dr")
		}
		if rapid.Bool().Draw(t, "hasroutes") {
			m["routes"] = []any{map[string]any{"dst": g.CIDRv4(t)}}
		}
		refs = append(refs, m)
	}
	return string(g.MustJSON(refs))
}

func vfC15ValidPod(t *rapid.T) []byte {
	pod := &corev1.Pod{TypeMeta: metav1.TypeMeta{Kind: "Pod", APIVersion: "v1"}}
	pod.Name = rapid.SampledFrom([]string{"web-0", "p", ""}).Draw(t, "name")
	pod.Namespace = "ns"
	if rapid.Bool().Draw(t, "haslabels") {
		pod.Labels = map[string]string{"app": rapid.SampledFrom([]string{"web", "db"}).Draw(t, "app")}
		if rapid.IntRange(0, 7).Draw(t, "ignored") == 0 {
			pod.Labels[types.IgnoreByTerway] = "true"
		}
	}
	anno := map[string]string{}
	switch rapid.IntRange(0, 6).Draw(t, "annokind") {
	case 0:
	case 1, 2:
		anno[types.PodNetworks] = vfC15PodNetworksJSON(t)
	case 3, 4:
		anno[types.PodNetworksRequest] = vfC15RequestJSON(t)
	case 5:
		anno[types.PodNetworking] = "pn-0"
	default:
		anno[types.PodNetworks] = vfC15PodNetworksJSON(t)
		anno[types.PodNetworksRequest] = vfC15RequestJSON(t)
	}
	if rapid.Bool().Draw(t, "podeni") {
		anno[types.PodENI] = rapid.SampledFrom([]string{"true", "false", "x"}).Draw(t, "podeniv")
	}
	if len(anno) > 0 || rapid.Bool().Draw(t, "emptyanno") {
		pod.Annotations = anno
	}
	switch rapid.IntRange(0, 3).Draw(t, "owner") {
	case 1:
		pod.OwnerReferences = []metav1.OwnerReference{{Kind: "StatefulSet", Name: "web", APIVersion: "apps/v1"}}
	case 2:
		pod.OwnerReferences = []metav1.OwnerReference{{Kind: "ReplicaSet", Name: "web-abc", APIVersion: "apps/v1"}}
	case 3:
		pod.OwnerReferences = []metav1.OwnerReference{{Kind: "DaemonSet", Name: "ds", APIVersion: "apps/v1"}}
	}
	pod.Spec.HostNetwork = rapid.IntRange(0, 9).Draw(t, "hostnet") == 0
	for i, n := 0, rapid.IntRange(0, 2).Draw(t, "nctr"); i < n; i++ {
		pod.Spec.Containers = append(pod.Spec.Containers, corev1.Container{Name: fmt.Sprintf("c%d", i), Image: "busybox"})
	}
	if rapid.Bool().Draw(t, "affinity") {
		pod.Spec.Affinity = &corev1.Affinity{}
		if rapid.Bool().Draw(t, "nodeaff") {
			pod.Spec.Affinity.NodeAffinity = &corev1.NodeAffinity{}
			if rapid.Bool().Draw(t, "required") {
				pod.Spec.Affinity.NodeAffinity.RequiredDuringSchedulingIgnoredDuringExecution = &corev1.NodeSelector{}
				if rapid.Bool().Draw(t, "term") {
					pod.Spec.Affinity.NodeAffinity.RequiredDuringSchedulingIgnoredDuringExecution.NodeSelectorTerms = []corev1.NodeSelectorTerm{{}}
				}
			}
		}
	}
	return g.MustJSON(pod)
}

func vfC15ValidPNObject(t *rapid.T) []byte {
	pn := &v1beta1.PodNetworking{TypeMeta: metav1.TypeMeta{Kind: "PodNetworking", APIVersion: "network.alibabacloud.com/v1beta1"}}
	pn.Name = "pn-new"
	pn.Spec.ENIOptions.ENIAttachType = v1beta1.ENIAttachType(rapid.SampledFrom([]string{"", "Default", "ENI", "Trunk"}).Draw(t, "et"))
	pn.Spec.AllocationType = v1beta1.AllocationType{
		Type:            v1beta1.IPAllocType(rapid.SampledFrom([]string{"", "Elastic", "Fixed"}).Draw(t, "at")),
		ReleaseStrategy: v1beta1.ReleaseStrategy(rapid.SampledFrom([]string{"", "TTL", "Never"}).Draw(t, "rs")),
		ReleaseAfter:    rapid.SampledFrom([]string{"", "5m0s", "1h", "x", "-5m"}).Draw(t, "ra"),
	}
	switch rapid.IntRange(0, 3).Draw(t, "sel") {
	case 1:
		pn.Spec.Selector.PodSelector = &metav1.LabelSelector{MatchLabels: map[string]string{"app": "web"}}
	case 2:
		pn.Spec.Selector.NamespaceSelector = &metav1.LabelSelector{MatchExpressions: []metav1.LabelSelectorRequirement{{Key: "team", Operator: metav1.LabelSelectorOpExists}}}
	}
	pn.Spec.SecurityGroupIDs = rapid.SliceOfN(rapid.SampledFrom([]string{"sg-1", "sg-2"}), 0, 12).Draw(t, "sg")
	pn.Spec.VSwitchOptions = rapid.SliceOfN(rapid.SampledFrom([]string{"vsw-1", "vsw-2"}), 0, 3).Draw(t, "vsw")
	pn.Spec.VSwitchSelectOptions.VSwitchSelectionPolicy = v1beta1.SelectionPolicy(rapid.SampledFrom([]string{"", "ordered", "random", "most"}).Draw(t, "pol"))
	return g.MustJSON(pn)
}

func vfC15GenHook(t *rapid.T) vfC15HookScenario {
	s := vfC15HookScenario{Kind: g.Kind(t)}
	s.Target = rapid.SampledFrom([]string{"pod", "pod", "pod", "pn-mutate", "pn-validate"}).Draw(t, "target")
	hostile := []string{`{}`, `null`, `{"metadata":null}`, `{"metadata":{"annotations":null}}`, `{"spec":{"containers":[null]}}`,
		`{"spec":{"containers":[{}]},"metadata":{"annotations":{"k8s.aliyun.com/pod-networks":"{\"podNetworks\":[{\"interface\":\"eth0\",\"allocationType\":null}]}"}}}`,
		`{"spec":{"containers":[{}]},"metadata":{"annotations":{"k8s.aliyun.com/pod-networks-request":"[null]"}}}`,
		`{"spec":{"containers":[{}],"affinity":{"nodeAffinity":{"requiredDuringSchedulingIgnoredDuringExecution":{"nodeSelectorTerms":null}}}},"metadata":{"annotations":{"k8s.aliyun.com/pod-eni":"true"}}}`,
		`{"spec":{"selector":{"podSelector":{"matchExpressions":[{"key":"a","operator":"Bogus"}]}}}}`, `{"spec":null}`, `{"spec":{"allocationType":null}}`}
	if s.Target == "pod" {
		s.Object = g.JSONField(t, s.Kind, vfC15ValidPod, hostile)
	} else {
		s.Object = g.JSONField(t, s.Kind, vfC15ValidPNObject, hostile)
	}
	if rapid.IntRange(0, 7).Draw(t, "hascfg") > 0 {
		k := g.KindValid
		if s.Kind != g.KindValid && rapid.IntRange(0, 3).Draw(t, "cfgkind") == 0 {
			k = s.Kind
		}
		v := g.JSONField(t, k, g.ENIConf, g.ENIConfHostile)
		s.ENIConf = &v
	}
	for i, n := 0, rapid.IntRange(0, 3).Draw(t, "npn"); i < n; i++ {
		s.PNs = append(s.PNs, vfC15PN{
			Name:     fmt.Sprintf("pn-%d", i),
			Ready:    rapid.IntRange(0, 4).Draw(t, "ready") > 0,
			Selector: rapid.IntRange(0, 3).Draw(t, "pnsel"),
			VSw:      rapid.SliceOfN(rapid.SampledFrom([]string{"vsw-1", "vsw-2"}), 0, 2).Draw(t, "pnvsw"),
			SG:       rapid.SliceOfN(rapid.SampledFrom([]string{"sg-1", "sg-2"}), 0, 2).Draw(t, "pnsg"),
			Fixed:    rapid.Bool().Draw(t, "pnfixed"),
			Zones:    rapid.SliceOfN(rapid.SampledFrom([]string{"zone-a", "zone-b", ""}), 0, 2).Draw(t, "pnzones"),
		})
	}
	s.CRD, s.Trunk, s.Inject, s.PrevENI = rapid.Bool().Draw(t, "crd"), rapid.Bool().Draw(t, "trunk"), rapid.Bool().Draw(t, "inject"), rapid.Bool().Draw(t, "prev")
	return s
}

func vfC15RunHook(c *vt.Ctx, s vfC15HookScenario) {
	c.Label("kind:" + s.Kind)
	c.Label("target:" + s.Target)
	objs := []runtime.Object{&corev1.Namespace{ObjectMeta: metav1.ObjectMeta{Name: "ns", Labels: map[string]string{"team": "a"}}}}
	if s.ENIConf != nil {
		objs = append(objs, &corev1.ConfigMap{ObjectMeta: metav1.ObjectMeta{Name: "eni-config", Namespace: "kube-system"},
			Data: map[string]string{"eni_conf": string(*s.ENIConf)}})
	}
	for _, p := range s.PNs {
		pn := &v1beta1.PodNetworking{ObjectMeta: metav1.ObjectMeta{Name: p.Name}}
		pn.Spec.VSwitchOptions, pn.Spec.SecurityGroupIDs = p.VSw, p.SG
		if p.Fixed {
			pn.Spec.AllocationType.Type = v1beta1.IPAllocTypeFixed
		}
		switch p.Selector {
		case 1:
			pn.Spec.Selector.PodSelector = &metav1.LabelSelector{MatchLabels: map[string]string{"app": "web"}}
		case 2:
			pn.Spec.Selector.NamespaceSelector = &metav1.LabelSelector{MatchLabels: map[string]string{"team": "a"}}
		case 3:
			pn.Spec.Selector.PodSelector = &metav1.LabelSelector{MatchExpressions: []metav1.LabelSelectorRequirement{{Key: "app", Operator: "Bogus"}}}
		}
		if p.Ready {
			pn.Status.Status = v1beta1.NetworkingStatusReady
		}
		for i, z := range p.Zones {
			pn.Status.VSwitches = append(pn.Status.VSwitches, v1beta1.VSwitch{ID: fmt.Sprintf("vsw-%d", i+1), Zone: z})
		}
		objs = append(objs, pn)
	}
	if s.PrevENI {
		pe := &v1beta1.PodENI{ObjectMeta: metav1.ObjectMeta{Name: "web-0", Namespace: "ns"}}
		pe.Spec.Zone = "zone-a"
		pe.Spec.Allocations = []v1beta1.Allocation{{IPv4: "10.0.0.2"}}
		objs = append(objs, pe)
	}
	cl := fake.NewClientBuilder().WithScheme(types.Scheme).WithRuntimeObjects(objs...).Build()
	cfg := &controlplane.Config{EnableTrunk: ptr.To(s.Trunk), EnableWebhookInjectResource: ptr.To(s.Inject)}
	if s.CRD {
		cfg.IPAMType = types.IPAMTypeCRD
	}

	var meta struct {
		Metadata struct {
			Name      string `json:"name"`
			Namespace string `json:"namespace"`
		} `json:"metadata"`
	}
	decodable := json.Unmarshal(s.Object, &meta) == nil
	kind := "Pod"
	if s.Target != "pod" {
		kind = "PodNetworking"
	}
	req := admission.Request{AdmissionRequest: admissionv1.AdmissionRequest{
		UID: "u", Kind: metav1.GroupVersionKind{Kind: kind}, Name: meta.Metadata.Name, Namespace: "ns",
		Operation: admissionv1.Create, Object: runtime.RawExtension{Raw: s.Object}}}
	ctx := context.Background()

	var resp admission.Response
	switch s.Target {
	case "pod":
		resp = podWebhook(ctx, &req, cl, cfg)
	case "pn-mutate":
		resp = podNetworkingWebhook(ctx, req, cl)
	default:
		resp = ValidateHook().Handler.Handle(ctx, req)
	}
	switch {
	case !decodable:
		c.Label("depth0-not-decodable")
	case resp.Result != nil && resp.Result.Code >= 500:
		c.Label("depth1-decode-error")
	case !resp.Allowed:
		c.NonTrivial()
		c.Label("depth2-denied-or-errored")
	case len(resp.Patches) > 0:
		c.NonTrivial()
		c.Label("depth3-patched")
	default:
		c.NonTrivial()
		c.Label("depth2-allowed-unchanged")
	}
}

func TestVerifC15Webhook(t *testing.T) { vt.Run(t, vfC15GenHook, g.NoPanic(vfC15RunHook)) }

// ---------------------------------------------------------------------------------
// terway-controlplane ConfigMap (ctrl-config.yaml + ctrl-secret.yaml) followed into its
// consumer: what cmd/terway-controlplane does. Every configuration the real
// controlplane.ParseAndValidate ACCEPTS is handed to the real MutatingHook, and pods are
// admitted through its handler (Handler.Handle: without controller-runtime's recover).
// A rejected configuration is the contract; a panic, at load time or at admission time,
// is the violation.

type vfC15CtrlScenario struct {
	Kind       string    `json:"kind"`
	Config     g.Bytes   `json:"config"`     // ctrl-config.yaml
	Credential g.Bytes   `json:"credential"` // ctrl-secret.yaml
	Pods       []g.Bytes `json:"pods"`       // further pods (a pod with complete pod-networks is always admitted too)
	ENIConf    bool      `json:"eni_conf"`   // an eni-config ConfigMap exists
}

// vfC15ValidCtrlConfig: a well-formed ctrl-config document; every optional key is absent,
// set, or explicitly null. Rendered as JSON or as block YAML (both are what
// yaml.Unmarshal reads).
func vfC15ValidCtrlConfig(t *rapid.T) []byte {
	type kv struct {
		k string
		v any
	}
	var doc []kv
	add := func(k string, v any) { doc = append(doc, kv{k, v}) }
	add("regionID", "cn-hangzhou")
	add("clusterID", rapid.SampledFrom([]string{"foo", "c-1"}).Draw(t, "cluster"))
	add("vpcID", "vpc-1")
	tri := func(key string) { // absent / true / false / null
		switch rapid.IntRange(0, 3).Draw(t, key) {
		case 1:
			add(key, true)
		case 2:
			add(key, false)
		case 3:
			add(key, nil)
		}
	}
	tri("enableTrunk")
	tri("enableWebhookInjectResource")
	opt := func(key string, vals ...any) {
		if i := rapid.IntRange(0, 2*len(vals)).Draw(t, key); i < len(vals) {
			add(key, vals[i])
		}
	}
	opt("ipamType", "", "crd", "default")
	opt("ipStack", "ipv4", "dual", "ipv6")
	opt("webhookPort", 4443, 1, 65535)
	opt("leaderElection", true, false)
	opt("disableWebhook", true, false)
	opt("enableDevicePlugin", true, false)
	opt("centralizedIPAM", true, false)
	opt("podMaxConcurrent", 1, 10, 10000)
	opt("kubeClientQPS", 20, 0.5)
	opt("kubeClientBurst", 30)
	opt("healthzBindAddress", "0.0.0.0:80", "127.0.0.1:8080")
	opt("controllers", []any{"*"}, []any{"pod", "-node"}, []any{})
	opt("customStatefulWorkloadKinds", []any{"CloneSet"}, []any{})
	opt("vSwitchCacheTTL", "20m0s", "1h")
	opt("backoffOverride", map[string]any{"default": map[string]any{"Duration": 1000000000, "Factor": 1.5, "Steps": 3}})
	opt("rateLimit", map[string]any{"AssignPrivateIpAddresses": 10})
	opt("nodeLabelWhiteList", map[string]any{"a": "b"})
	if rapid.Bool().Draw(t, "asjson") {
		m := map[string]any{}
		for _, e := range doc {
			m[e.k] = e.v
		}
		return g.MustJSON(m)
	}
	var sb strings.Builder
	for _, e := range doc {
		sb.WriteString(e.k + ": " + string(g.MustJSON(e.v)) + "\n") // a JSON value is a YAML flow value
	}
	return []byte(sb.String())
}

var vfC15CtrlHostile = []string{
	"regionID: r\nclusterID: c\nvpcID: v\nenableTrunk: false\n",
	"regionID: r\nclusterID: c\nvpcID: v\nenableTrunk: false\nenableWebhookInjectResource: null\n",
	"regionID: r\nclusterID: c\nvpcID: v\nenableTrunk: null\nenableWebhookInjectResource: null\n",
	"regionID: r\nclusterID: c\nvpcID: v\nenableTrunk: ~\nenableWebhookInjectResource: ~\nipamType: crd\n",
	`{"regionID":"r","clusterID":"c","vpcID":"v","enableTrunk":false,"enableWebhookInjectResource":null,"ipamType":"crd"}`,
	"regionID: r\nclusterID: c\nvpcID: v\nenableTrunk: \"false\"\n", "regionID: r\nclusterID: c\nvpcID: v\nbackoffOverride: {a: null}\n",
	"regionID: r\nclusterID: c\nvpcID: v\ncontrollers: [null]\n", "regionID: r\nclusterID: c\nvpcID: v\nwebhookPort: 0\n",
	"regionID: r\nclusterID: c\nvpcID: v\nkubeClientQPS: 1e39\n", "regionID: r\n", "regionID: [r]\n", "- a\n- b\n", "a: &x [*x]\n", "? \n", "\t", "%YAML 1.2\n---\nregionID: r\n",
}

func vfC15GenCtrl(t *rapid.T) vfC15CtrlScenario {
	s := vfC15CtrlScenario{Kind: g.Kind(t)}
	switch s.Kind {
	case g.KindValid:
		s.Config = g.Bytes(vfC15ValidCtrlConfig(t))
	case g.KindMutated:
		v := vfC15ValidCtrlConfig(t)
		if json.Valid(v) {
			s.Config = g.MutateJSON(t, v)
		} else {
			s.Config = g.MutateText(t, string(v))
		}
	default:
		s.Config = g.Raw(t, "abcdefgihjklmnopqrstuvwxyzIDTR:-#&*![]{},'\"|>? \n\n\n0123456789", vfC15CtrlHostile)
	}
	s.Credential = g.Bytes(rapid.SampledFrom([]string{"accessKey: foo\naccessSecret: bar\n", "accessKey: foo\naccessSecret: bar\n",
		"{}", "", "credentialPath: /var/addon/token-config\n", "accessKey: foo\n", "accessKey: null\naccessSecret: null\n", "- a\n"}).Draw(t, "cred"))
	for i, n := 0, rapid.IntRange(0, 2).Draw(t, "npods"); i < n; i++ {
		s.Pods = append(s.Pods, g.Bytes(vfC15ValidPod(t)))
	}
	s.ENIConf = rapid.Bool().Draw(t, "eniconf")
	return s
}

const vfC15CompletePod = `{"kind":"Pod","apiVersion":"v1","metadata":{"name":"web-0","namespace":"ns","annotations":{"k8s.aliyun.com/pod-networks":"{\"podNetworks\":[{\"interface\":\"eth0\",\"vSwitchOptions\":[\"vsw-1\"],\"securityGroupIDs\":[\"sg-1\"]}]}"}},"spec":{"containers":[{"name":"c","image":"busybox"}]}}`

func vfC15RunCtrl(c g.Sink, s vfC15CtrlScenario) {
	c.Label("kind:" + s.Kind)
	_ = vfC15DefaultBackoffs()
	controlplane.SetConfig(nil) // ParseAndValidate publishes the accepted configuration in a package variable
	// ... and applies backoffOverride to pkg/backoff's process-wide table: put the defaults back
	defer backoff.OverrideBackoff(vfC15DefaultBackoffs())

	// ParseAndValidate asks the ECS metadata service for the region when regionID is empty
	// (HTTP with retries: minutes in a sandbox without network). Such documents are not
	// driven; they are recognised with the decoder ParseAndValidate itself uses.
	var probe struct {
		RegionID string `json:"regionID"`
	}
	if err := k8syaml.Unmarshal(s.Config, &probe); err == nil && probe.RegionID == "" {
		c.Label("depth0-no-region(metadata lookup not driven)")
		return
	}

	dir, err := os.MkdirTemp(".", "c15ctrl")
	if err != nil {
		c.Inconclusive("mkdirtemp")
	}
	defer os.RemoveAll(dir)
	cfgPath, credPath := filepath.Join(dir, "ctrl-config.yaml"), filepath.Join(dir, "ctrl-secret.yaml")
	if os.WriteFile(cfgPath, s.Config, 0o600) != nil || os.WriteFile(credPath, s.Credential, 0o600) != nil {
		c.Inconclusive("write")
	}
	cfg, err := controlplane.ParseAndValidate(cfgPath, credPath)
	if err != nil {
		c.Label("depth1-rejected")
		return
	}
	if cfg == nil {
		c.Fatalf("ParseAndValidate returned nil, nil")
	}
	c.NonTrivial()
	c.Label("depth2-accepted")
	if cfg.EnableTrunk != nil && !*cfg.EnableTrunk {
		c.Label("accepted:trunk-off")
	}

	// the controllers' constructors read the published configuration like this
	// (pod_controller.go: trunkMode: *controlplane.GetConfig().EnableTrunk; eni_controller.go alike)
	_ = *controlplane.GetConfig().EnableTrunk
	_ = controlplane.GetConfig().IPAMType == types.IPAMTypeCRD
	_ = controlplane.IsControllerEnabled("pod", true, cfg.Controllers)

	objs := []runtime.Object{&corev1.Namespace{ObjectMeta: metav1.ObjectMeta{Name: "ns"}}}
	if s.ENIConf {
		objs = append(objs, &corev1.ConfigMap{ObjectMeta: metav1.ObjectMeta{Name: "eni-config", Namespace: "kube-system"},
			Data: map[string]string{"eni_conf": `{"vswitches":{"zone-a":["vsw-1"]},"security_groups":["sg-1"]}`}})
	}
	cl := fake.NewClientBuilder().WithScheme(types.Scheme).WithRuntimeObjects(objs...).Build()
	hook := MutatingHook(cl, cfg)
	patched := 0
	for _, raw := range append([]g.Bytes{g.Bytes(vfC15CompletePod)}, s.Pods...) {
		req := admission.Request{AdmissionRequest: admissionv1.AdmissionRequest{UID: "u", Kind: metav1.GroupVersionKind{Version: "v1", Kind: "Pod"},
			Namespace: "ns", Operation: admissionv1.Create, Object: runtime.RawExtension{Raw: raw}}}
		if resp := hook.Handler.Handle(context.Background(), req); len(resp.Patches) > 0 {
			patched++
		}
	}
	if patched > 0 {
		c.Label("depth3-pod-patched")
	}
	controlplane.SetConfig(nil)
}

func TestVerifC15ControlplaneConfig(t *testing.T) {
	vt.Run(t, vfC15GenCtrl, g.NoPanic(g.Adapt(vfC15RunCtrl)))
}

var (
	vfC15BackoffOnce     sync.Once
	vfC15BackoffDefaults map[string]wait.Backoff
)

// vfC15DefaultBackoffs: the table as it was before the first case touched it.
func vfC15DefaultBackoffs() map[string]wait.Backoff {
	vfC15BackoffOnce.Do(func() {
		vfC15BackoffDefaults = map[string]wait.Backoff{}
		for _, k := range []string{backoff.DefaultKey, backoff.ENICreate, backoff.ENIOps, backoff.ENIRelease, backoff.ENIIPOps, backoff.WaitENIStatus,
			backoff.WaitPodENIStatus, backoff.MetaAssignPrivateIP, backoff.MetaUnAssignPrivateIP, backoff.WaitStsTokenReady, backoff.WaitNodeStatus} {
			vfC15BackoffDefaults[k] = backoff.Backoff(k)
		}
	})
	return vfC15BackoffDefaults
}
