package webhook

// C18 — the admission webhook only touches pods it owns and always emits a complete
// spec.
//
// run: build the cluster in controller-runtime's fake client (eni-config ConfigMap,
// namespaces, previous PodENI, PodNetworkings — each PodNetworking is first sent through
// the real mutating and validating handlers and only stored if both admit it, exactly as
// the API server would), send the pod through the real admission entry points
// (MutatingHook(...).Handle and ValidateHook().Handle), apply the returned RFC 6902
// patch to the original bytes with an independent applier (github.com/evanphx/json-patch;
// the webhook creates patches with gomodules.xyz/jsonpatch/v2) and evaluate the property
// statement sentence by sentence on the result.

import (
	"context"
	"encoding/json"
	"fmt"
	"sort"
	"strconv"
	"strings"
	"sync"
	"testing"
	"unicode/utf8"

	evpatch "github.com/evanphx/json-patch"
	"github.com/go-logr/logr"
	admissionv1 "k8s.io/api/admission/v1"
	authv1 "k8s.io/api/authentication/v1"
	corev1 "k8s.io/api/core/v1"
	"k8s.io/apimachinery/pkg/api/resource"
	metav1 "k8s.io/apimachinery/pkg/apis/meta/v1"
	"k8s.io/apimachinery/pkg/runtime"
	"k8s.io/utils/ptr"
	ctrl "sigs.k8s.io/controller-runtime"
	"sigs.k8s.io/controller-runtime/pkg/client"
	"sigs.k8s.io/controller-runtime/pkg/client/fake"
	"sigs.k8s.io/controller-runtime/pkg/webhook/admission"

	"github.com/AliyunContainerService/terway/pkg/apis/network.alibabacloud.com/v1beta1"
	"github.com/AliyunContainerService/terway/types"
	"github.com/AliyunContainerService/terway/types/controlplane"
	"github.com/AliyunContainerService/terway/zz_verif/vt"
)

const (
	c18AnnoPodENI   = "k8s.aliyun.com/pod-eni"
	c18AnnoNets     = "k8s.aliyun.com/pod-networks"
	c18AnnoReq      = "k8s.aliyun.com/pod-networks-request"
	c18AnnoPN       = "k8s.aliyun.com/pod-networking"
	c18LabelIgnore  = "k8s.aliyun.com/ignore-by-terway"
	c18ZoneKey      = "topology.kubernetes.io/zone"
	c18ResENI       = "aliyun/eni"
	c18ResMemberENI = "aliyun/member-eni"

	c18KnownNoVSwitch = "C18-nondefault-iface-no-vswitch"
)

var c18LogOnce sync.Once

// ---------------------------------------------------------------- input rendering

// what the harness writes into the pod-networks annotation (own types: the encoding of
// the input must not depend on the code under test)
type c18InAlloc struct {
	Type            string `json:"type,omitempty"`
	ReleaseStrategy string `json:"releaseStrategy,omitempty"`
}
type c18InENIOpt struct {
	ENIType string `json:"eniType"`
}
type c18InNet struct {
	VSwitchOptions   []string     `json:"vSwitchOptions,omitempty"`
	SecurityGroupIDs []string     `json:"securityGroupIDs,omitempty"`
	Interface        string       `json:"interface"`
	ENIOptions       *c18InENIOpt `json:"eniOptions,omitempty"`
	AllocationType   *c18InAlloc  `json:"allocationType,omitempty"`
	DefaultRoute     bool         `json:"defaultRoute,omitempty"`
}
type c18InAnno struct {
	PodNetworks []c18InNet `json:"podNetworks"`
}
type c18InReq struct {
	InterfaceName string `json:"interfaceName,omitempty"`
	Network       string `json:"network"`
	DefaultRoute  bool   `json:"defaultRoute,omitempty"`
}

// what the harness reads back from the admitted pod
type c18OutAlloc struct {
	Type            string `json:"type"`
	ReleaseStrategy string `json:"releaseStrategy"`
	ReleaseAfter    string `json:"releaseAfter"`
}
type c18OutNet struct {
	VSwitchOptions   []string     `json:"vSwitchOptions"`
	SecurityGroupIDs []string     `json:"securityGroupIDs"`
	Interface        string       `json:"interface"`
	AllocationType   *c18OutAlloc `json:"allocationType"`
}
type c18OutAnno struct {
	PodNetworks []c18OutNet `json:"podNetworks"`
}

func c18VSwIDs(v []c18VSw) []string {
	var out []string
	for _, x := range v {
		out = append(out, x.id())
	}
	return out
}

func c18SGIDs(prefix string, n int) []string {
	var out []string
	for i := 0; i < n; i++ {
		out = append(out, fmt.Sprintf("sg-%s%d", prefix, i))
	}
	return out
}

// c18ZoneOf is the harness-side ground truth "which zone is this vSwitch in".
func c18ZoneOf(id string) (string, bool) {
	parts := strings.Split(id, "-")
	if len(parts) != 3 || parts[0] != "vsw" || !strings.HasPrefix(parts[1], "z") {
		return "", false
	}
	return parts[1], true
}

func c18NetsAnnotation(p c18Pod) string {
	if p.UseRawN {
		return p.NetsRaw
	}
	a := c18InAnno{PodNetworks: []c18InNet{}}
	for i, n := range p.Nets {
		in := c18InNet{
			VSwitchOptions:   c18VSwIDs(n.VSw),
			SecurityGroupIDs: c18SGIDs(fmt.Sprintf("u%d-", i), n.SGs),
			Interface:        n.Iface,
			DefaultRoute:     n.DefaultRoute,
		}
		if n.ENIType != "" {
			in.ENIOptions = &c18InENIOpt{ENIType: n.ENIType}
		}
		switch n.Alloc {
		case 1:
			in.AllocationType = &c18InAlloc{Type: "Elastic"}
		case 2:
			in.AllocationType = &c18InAlloc{Type: "Fixed", ReleaseStrategy: "TTL"}
		case 3:
			in.AllocationType = &c18InAlloc{}
		}
		a.PodNetworks = append(a.PodNetworks, in)
	}
	b, _ := json.Marshal(a)
	return string(b)
}

func c18PNName(i int) string { return fmt.Sprintf("pn%d", i) }

func c18ReqAnnotation(s c18Scenario) string {
	p := s.Pod
	if p.UseRawR {
		return p.ReqRaw
	}
	out := []c18InReq{}
	for _, r := range p.Reqs {
		name := "pn-missing"
		if r.PN >= 0 && len(s.PNs) > 0 {
			name = c18PNName(r.PN % len(s.PNs))
		}
		out = append(out, c18InReq{InterfaceName: r.Iface, Network: name, DefaultRoute: r.DefaultRoute})
	}
	b, _ := json.Marshal(out)
	return string(b)
}

func c18ToLabelSelector(s *c18Sel) *metav1.LabelSelector {
	if s == nil {
		return nil
	}
	ls := &metav1.LabelSelector{}
	if len(s.Labels) > 0 {
		ls.MatchLabels = map[string]string{}
		for k, v := range s.Labels {
			ls.MatchLabels[k] = v
		}
	}
	for _, e := range s.Exprs {
		ls.MatchExpressions = append(ls.MatchExpressions, metav1.LabelSelectorRequirement{
			Key: e.Key, Operator: metav1.LabelSelectorOperator(e.Op), Values: append([]string(nil), e.Values...),
		})
	}
	return ls
}

// c18SelMatch: label-selector semantics written out by hand (the code under test goes
// through metav1.LabelSelectorAsSelector + labels.Selector.Matches).
func c18SelMatch(s *c18Sel, l map[string]string) bool {
	for k, v := range s.Labels {
		if lv, ok := l[k]; !ok || lv != v {
			return false
		}
	}
	in := func(vals []string, v string) bool {
		for _, x := range vals {
			if x == v {
				return true
			}
		}
		return false
	}
	for _, e := range s.Exprs {
		v, has := l[e.Key]
		switch e.Op {
		case "In":
			if !has || !in(e.Values, v) {
				return false
			}
		case "NotIn":
			if has && in(e.Values, v) {
				return false
			}
		case "Exists":
			if !has {
				return false
			}
		case "DoesNotExist":
			if has {
				return false
			}
		}
	}
	return true
}

func c18BuildPod(s c18Scenario) *corev1.Pod {
	p := s.Pod
	pod := &corev1.Pod{
		TypeMeta:   metav1.TypeMeta{APIVersion: "v1", Kind: "Pod"},
		ObjectMeta: metav1.ObjectMeta{Name: p.Name, Namespace: fmt.Sprintf("ns%d", p.NS)},
	}
	if p.Name == "" {
		pod.GenerateName = "web-"
	}
	if len(p.Labels) > 0 || p.Ignore != "" {
		pod.Labels = map[string]string{}
		for k, v := range p.Labels {
			pod.Labels[k] = v
		}
		if p.Ignore != "" {
			pod.Labels[c18LabelIgnore] = p.Ignore
		}
	}
	for i, k := range p.Owners {
		pod.OwnerReferences = append(pod.OwnerReferences, metav1.OwnerReference{
			APIVersion: "apps/v1", Kind: k, Name: fmt.Sprintf("owner%d", i),
		})
	}
	anno := map[string]string{}
	if p.PodENI != "" {
		anno[c18AnnoPodENI] = p.PodENI
	}
	if p.HasNets {
		anno[c18AnnoNets] = c18NetsAnnotation(p)
	}
	if p.HasReq {
		anno[c18AnnoReq] = c18ReqAnnotation(s)
	}
	if p.HasPN {
		anno[c18AnnoPN] = p.PNName
	}
	if len(anno) > 0 {
		pod.Annotations = anno
	}
	pod.Spec.HostNetwork = p.HostNetwork
	for i, ct := range p.Containers {
		c := corev1.Container{Name: fmt.Sprintf("c%d", i), Image: "busybox"}
		req := corev1.ResourceList{}
		if ct.CPU {
			req[corev1.ResourceCPU] = resource.MustParse("100m")
		}
		if ct.ENIRes > 0 {
			req[c18ResENI] = resource.MustParse(strconv.Itoa(ct.ENIRes))
		}
		if ct.MemberRes > 0 {
			req[c18ResMemberENI] = resource.MustParse(strconv.Itoa(ct.MemberRes))
		}
		if len(req) > 0 {
			c.Resources.Requests = req
			c.Resources.Limits = req.DeepCopy()
		}
		pod.Spec.Containers = append(pod.Spec.Containers, c)
	}
	unrelated := corev1.NodeSelectorRequirement{Key: "disk", Operator: corev1.NodeSelectorOpIn, Values: []string{"ssd"}}
	userZone := corev1.NodeSelectorRequirement{Key: c18ZoneKey, Operator: corev1.NodeSelectorOpIn, Values: []string{"z0", "z9"}}
	switch p.Affinity {
	case 1:
		pod.Spec.Affinity = &corev1.Affinity{NodeAffinity: &corev1.NodeAffinity{RequiredDuringSchedulingIgnoredDuringExecution: &corev1.NodeSelector{
			NodeSelectorTerms: []corev1.NodeSelectorTerm{{MatchExpressions: []corev1.NodeSelectorRequirement{unrelated}}}}}}
	case 2:
		pod.Spec.Affinity = &corev1.Affinity{NodeAffinity: &corev1.NodeAffinity{RequiredDuringSchedulingIgnoredDuringExecution: &corev1.NodeSelector{
			NodeSelectorTerms: []corev1.NodeSelectorTerm{{MatchExpressions: []corev1.NodeSelectorRequirement{userZone}}}}}}
	case 3:
		pod.Spec.Affinity = &corev1.Affinity{NodeAffinity: &corev1.NodeAffinity{RequiredDuringSchedulingIgnoredDuringExecution: &corev1.NodeSelector{
			NodeSelectorTerms: []corev1.NodeSelectorTerm{
				{MatchExpressions: []corev1.NodeSelectorRequirement{unrelated}},
				{MatchExpressions: []corev1.NodeSelectorRequirement{userZone, unrelated}},
			}}}}
	case 4:
		pod.Spec.Affinity = &corev1.Affinity{PodAntiAffinity: &corev1.PodAntiAffinity{}}
	}
	return pod
}

func c18EniConfigMap(e c18EniConf) *corev1.ConfigMap {
	vsw := map[string][]string{}
	for _, v := range e.VSw {
		z := fmt.Sprintf("z%d", v.Zone)
		dup := false
		for _, x := range vsw[z] {
			if x == v.id() {
				dup = true
			}
		}
		if !dup {
			vsw[z] = append(vsw[z], v.id())
		}
	}
	conf := map[string]any{
		"version":         "1",
		"vswitches":       vsw,
		"security_groups": c18SGIDs("d", e.SGs),
	}
	if e.SingleSG {
		conf["security_group"] = "sg-legacy"
		if e.LegacyInList && e.SGs > 0 {
			conf["security_group"] = c18SGIDs("d", e.SGs)[e.SGs-1]
		}
	}
	b, _ := json.Marshal(conf)
	return &corev1.ConfigMap{
		ObjectMeta: metav1.ObjectMeta{Namespace: "kube-system", Name: "eni-config"},
		Data:       map[string]string{"eni_conf": string(b)},
	}
}

func c18BuildPN(i int, p c18PN) *v1beta1.PodNetworking {
	pn := &v1beta1.PodNetworking{
		TypeMeta:   metav1.TypeMeta{APIVersion: "network.alibabacloud.com/v1beta1", Kind: "PodNetworking"},
		ObjectMeta: metav1.ObjectMeta{Name: c18PNName(i)},
		Spec: v1beta1.PodNetworkingSpec{
			ENIOptions:       v1beta1.ENIOptions{ENIAttachType: v1beta1.ENIAttachType(p.ENIType)},
			AllocationType:   v1beta1.AllocationType{Type: v1beta1.IPAllocTypeElastic},
			Selector:         v1beta1.Selector{PodSelector: c18ToLabelSelector(p.PodSel), NamespaceSelector: c18ToLabelSelector(p.NSSel)},
			SecurityGroupIDs: c18SGIDs(fmt.Sprintf("p%d-", i), p.SGs),
			VSwitchOptions:   c18VSwIDs(p.VSw),
		},
	}
	if p.Fixed {
		pn.Spec.AllocationType = v1beta1.AllocationType{
			Type:            v1beta1.IPAllocTypeFixed,
			ReleaseStrategy: v1beta1.ReleaseStrategy(p.Release),
			ReleaseAfter:    p.ReleaseAfter,
		}
	}
	return pn
}

// ---------------------------------------------------------------- admission plumbing

func c18Request(kind, ns, name string, raw []byte) admission.Request {
	gvk := metav1.GroupVersionKind{Version: "v1", Kind: kind}
	res := metav1.GroupVersionResource{Version: "v1", Resource: strings.ToLower(kind) + "s"}
	if kind == "PodNetworking" {
		gvk.Group, gvk.Version = "network.alibabacloud.com", "v1beta1"
		res.Group, res.Version = gvk.Group, gvk.Version
	}
	return admission.Request{AdmissionRequest: admissionv1.AdmissionRequest{
		UID:       "c18",
		Kind:      gvk,
		Resource:  res,
		Namespace: ns,
		Name:      name,
		Operation: admissionv1.Create,
		UserInfo:  authv1.UserInfo{Username: "verif"},
		Object:    runtime.RawExtension{Raw: raw},
	}}
}

// c18Apply applies the response's patch to the original bytes with the independent
// RFC 6902 implementation and returns the resulting document.
func c18Apply(c *vt.Ctx, what string, original []byte, resp admission.Response) []byte {
	if len(resp.Patches) == 0 && len(resp.Patch) == 0 {
		return original
	}
	if len(resp.Patch) == 0 {
		c.Fatalf("%s: response carries %d patch operations but no encoded patch", what, len(resp.Patches))
	}
	if resp.PatchType == nil || *resp.PatchType != admissionv1.PatchTypeJSONPatch {
		c.Fatalf("%s: patch without JSONPatch patch type", what)
	}
	p, err := evpatch.DecodePatch(resp.Patch)
	if err != nil {
		c.Fatalf("%s: returned patch is not a valid RFC 6902 document: %v\n%s", what, err, resp.Patch)
	}
	out, err := p.Apply(original)
	if err != nil {
		c.Fatalf("%s: returned patch does not apply to the original object: %v\npatch: %s\noriginal: %s", what, err, resp.Patch, original)
	}
	return out
}

func c18Msg(r admission.Response) string {
	if r.Result == nil {
		return ""
	}
	return r.Result.Message
}

type c18StoredPN struct {
	name    string
	ready   bool
	fixed   bool
	podSel  *c18Sel
	nsSel   *c18Sel
	vsw     []string
	attach  string
	hasSels bool
	// allocation type of the definition as admitted
	release      string
	releaseAfter string
}

func (st c18StoredPN) alloc() c18OutAlloc {
	if st.fixed {
		return c18OutAlloc{Type: "Fixed", ReleaseStrategy: st.release, ReleaseAfter: st.releaseAfter}
	}
	return c18OutAlloc{Type: "Elastic"}
}

// ---------------------------------------------------------------- run

func c18Run(c *vt.Ctx, s c18Scenario) {
	c18LogOnce.Do(func() { ctrl.SetLogger(logr.Discard()) })

	// package-level singleton: reset at the top of every case
	cfg := &controlplane.Config{
		EnableTrunk:                 ptr.To(s.Trunk),
		EnableWebhookInjectResource: ptr.To(s.Inject),
		IPAMType:                    s.IPAM,
	}
	controlplane.SetConfig(cfg)
	defer controlplane.SetConfig(nil)

	ctx := context.Background()
	pod := c18BuildPod(s)

	var objs []client.Object
	if !s.EniConf.Missing {
		objs = append(objs, c18EniConfigMap(s.EniConf))
	}
	for i, ns := range s.Namespaces {
		objs = append(objs, &corev1.Namespace{ObjectMeta: metav1.ObjectMeta{Name: fmt.Sprintf("ns%d", i), Labels: ns.Labels}})
	}
	objs = append(objs, &corev1.Namespace{ObjectMeta: metav1.ObjectMeta{Name: "kube-system"}})
	prevZone := ""
	if s.Prev != nil && pod.Name != "" {
		pe := &v1beta1.PodENI{
			ObjectMeta: metav1.ObjectMeta{Namespace: pod.Namespace, Name: pod.Name},
			Spec:       v1beta1.PodENISpec{Zone: fmt.Sprintf("z%d", s.Prev.Zone)},
		}
		if s.Prev.Allocs {
			pe.Spec.Allocations = []v1beta1.Allocation{{IPv4: "10.0.0.10", Interface: "eth0",
				AllocationType: v1beta1.AllocationType{Type: v1beta1.IPAllocTypeFixed}}}
		}
		if s.Prev.Deleting {
			now := metav1.Now()
			pe.DeletionTimestamp = &now
			pe.Finalizers = []string{types.FinalizerPodENI}
		}
		objs = append(objs, pe)
		if s.Prev.Allocs && !s.Prev.Deleting {
			prevZone = pe.Spec.Zone
		}
	}
	cl := fake.NewClientBuilder().WithScheme(types.Scheme).WithObjects(objs...).Build()

	mutating := MutatingHook(cl, cfg)
	mutating.RecoverPanic = ptr.To(false) // a panic inside the handler must surface
	validating := ValidateHook()
	validating.RecoverPanic = ptr.To(false)

	// --- PodNetworkings enter the cluster through admission, like everything else
	var stored []c18StoredPN
	for i, g := range s.PNs {
		raw, err := json.Marshal(c18BuildPN(i, g))
		if err != nil {
			c.Fatalf("harness: marshal PodNetworking: %v", err)
		}
		mr := mutating.Handle(ctx, c18Request("PodNetworking", "", c18PNName(i), raw))
		if !mr.Allowed {
			c.Label("pn:refused-by-mutating")
			continue
		}
		patched := c18Apply(c, "PodNetworking mutating", raw, mr)
		vr := validating.Handle(ctx, c18Request("PodNetworking", "", c18PNName(i), patched))
		if len(vr.Patches) != 0 || len(vr.Patch) != 0 {
			c.Fatalf("validating handler returned a patch for PodNetworking %s", c18PNName(i))
		}
		if !vr.Allowed {
			c.Label("pn:refused-by-validating")
			continue
		}
		obj := &v1beta1.PodNetworking{}
		if err := json.Unmarshal(patched, obj); err != nil {
			c.Fatalf("harness: admitted PodNetworking does not decode: %v", err)
		}
		st := c18StoredPN{name: obj.Name, fixed: g.Fixed, podSel: g.PodSel, nsSel: g.NSSel,
			vsw: obj.Spec.VSwitchOptions, attach: string(obj.Spec.ENIOptions.ENIAttachType),
			hasSels: g.PodSel != nil || g.NSSel != nil}
		if g.Fixed {
			st.release, st.releaseAfter = g.Release, g.ReleaseAfter
		}
		switch g.Status {
		case 0:
			st.ready = true
			obj.Status.Status = v1beta1.NetworkingStatusReady
			seen := map[string]bool{}
			for _, id := range obj.Spec.VSwitchOptions {
				if z, ok := c18ZoneOf(id); ok && !seen[id] {
					seen[id] = true
					obj.Status.VSwitches = append(obj.Status.VSwitches, v1beta1.VSwitch{ID: id, Zone: z})
				}
			}
		case 2:
			obj.Status.Status = v1beta1.NetworkingStatusFail
			obj.Status.Message = "vSwitch not found"
		}
		obj.ResourceVersion = ""
		if err := cl.Create(ctx, obj); err != nil {
			c.Fatalf("harness: store PodNetworking: %v", err)
		}
		stored = append(stored, st)
		c.Label("pn:stored")
	}

	// --- the pod goes through admission
	raw, err := json.Marshal(pod)
	if err != nil {
		c.Fatalf("harness: marshal pod: %v", err)
	}
	c.Trace("pod: %s", raw)
	req := c18Request("Pod", pod.Namespace, pod.Name, raw)
	resp := mutating.Handle(ctx, req)
	vresp := validating.Handle(ctx, req)
	c.Trace("mutating: allowed=%v msg=%q patch=%s", resp.Allowed, c18Msg(resp), resp.Patch)
	c.Trace("validating: allowed=%v msg=%q", vresp.Allowed, c18Msg(vresp))

	// the validating handler can never change a pod
	if len(vresp.Patches) != 0 || len(vresp.Patch) != 0 {
		c.Fatalf("validating handler returned a patch for a pod: %s", vresp.Patch)
	}
	finalRaw := c18Apply(c, "pod mutating", raw, resp)
	final := &corev1.Pod{}
	if resp.Allowed {
		if err := json.Unmarshal(finalRaw, final); err != nil {
			c.Fatalf("admitted pod no longer decodes after applying the patch: %v\n%s", err, finalRaw)
		}
	}
	unchanged := resp.Allowed && vresp.Allowed && len(resp.Patches) == 0 && len(resp.Patch) == 0
	marked := resp.Allowed && final.Annotations[c18AnnoPodENI] == "true"

	// ------------------------------------------------------------ classification (harness side)
	p := s.Pod
	stable := len(p.Owners) == 0
	daemonSet := false
	for _, k := range p.Owners {
		if k == "StatefulSet" {
			stable = true
		}
		if k == "DaemonSet" {
			daemonSet = true
		}
	}
	if stable {
		c.Label("pod:stable-name")
	} else {
		c.Label("pod:no-stable-name")
	}
	c.Labelf("cfg:ipam=%q", s.IPAM)
	c.Labelf("cfg:inject=%v,trunk=%v", s.Inject, s.Trunk)
	if !s.EniConf.Missing {
		eff := s.EniConf.SGs
		if s.EniConf.SingleSG && !(s.EniConf.LegacyInList && s.EniConf.SGs > 0) {
			eff++
		}
		if eff >= 9 {
			c.Labelf("eniconf:default-groups=%d(list %d)", eff, s.EniConf.SGs)
		}
	}

	// sentence 1a/1b: host network and ignored pods are admitted unchanged
	if p.HostNetwork || p.Ignore == "true" {
		if p.HostNetwork {
			c.Label("scope:host-network")
		}
		if p.Ignore == "true" {
			c.Label("scope:ignored")
		}
		if !unchanged {
			c.Fatalf("out-of-scope pod (hostNetwork=%v ignore=%q) was not admitted unchanged: mutating allowed=%v (%s) validating allowed=%v patch=%s",
				p.HostNetwork, p.Ignore, resp.Allowed, c18Msg(resp), vresp.Allowed, resp.Patch)
		}
		return
	}
	if len(p.Containers) == 0 {
		// the statement says nothing about pods without containers
		c.Label("scope:no-containers")
		return
	}

	// sentence 4: conflicting annotations are denied
	nAnno := 0
	for _, b := range []bool{p.HasNets, p.HasReq, p.HasPN} {
		if b {
			nAnno++
		}
	}
	if nAnno >= 2 {
		c.Label("denied:conflicting-annotations")
		c.NonTrivial()
		if resp.Allowed {
			c.Fatalf("pod with %d of the three network annotations was admitted (nets=%v request=%v pod-networking=%v)",
				nAnno, p.HasNets, p.HasReq, p.HasPN)
		}
		return
	}

	// which source of networks is operative, decided with the harness's own decoding
	malformed := false
	explicitNets, explicitReqs := 0, 0
	var inNets c18InAnno
	var inReqs []c18InReq
	if p.HasNets {
		if err := json.Unmarshal([]byte(pod.Annotations[c18AnnoNets]), &inNets); err != nil {
			malformed = true
		} else {
			explicitNets = len(inNets.PodNetworks)
		}
	}
	if p.HasReq && !malformed && explicitNets == 0 {
		if err := json.Unmarshal([]byte(pod.Annotations[c18AnnoReq]), &inReqs); err != nil {
			malformed = true
		} else {
			explicitReqs = len(inReqs)
		}
	}

	// selector matching, evaluated by the harness
	podLabels := map[string]string{}
	for k, v := range pod.Labels {
		podLabels[k] = v
	}
	nsLabels := s.Namespaces[p.NS].Labels
	var matchAny, eligible []string
	for _, st := range stored {
		if !st.ready || !st.hasSels {
			continue
		}
		if st.podSel != nil && !c18SelMatch(st.podSel, podLabels) {
			continue
		}
		if st.nsSel != nil && !c18SelMatch(st.nsSel, nsLabels) {
			continue
		}
		matchAny = append(matchAny, st.name)
		if st.fixed && !stable {
			continue
		}
		eligible = append(eligible, st.name)
	}
	podUseENI := false
	if v, ok := pod.Annotations[c18AnnoPodENI]; ok {
		if b, err := strconv.ParseBool(v); err == nil && b {
			podUseENI = true
		}
	}

	// zonesFromDefinitions: the pod's networks come from PodNetworking definitions, whose
	// status tells the webhook the zone of every vSwitch (on the other paths the webhook
	// only sees bare vSwitch ids)
	zonesFromDefinitions := false
	switch {
	case malformed:
		c.Label("path:malformed-annotation")
	case explicitNets > 0:
		c.Label("path:pod-networks")
	case explicitReqs > 0:
		c.Label("path:pod-networks-request")
		zonesFromDefinitions = true
	case len(eligible) > 0:
		c.Label("path:selector-match")
		zonesFromDefinitions = true
		// a pod that is selected by a ready definition is owned by the webhook
		if !marked {
			c.Fatalf("pod matches PodNetworking %v (harness evaluation of the selectors) but was not marked: allowed=%v msg=%q",
				eligible, resp.Allowed, c18Msg(resp))
		}
		got := final.Annotations[c18AnnoPN]
		ok := false
		for _, n := range eligible {
			if n == got {
				ok = true
			}
		}
		if !ok {
			c.Fatalf("pod was bound to PodNetworking %q, which does not select it; selecting definitions: %v", got, eligible)
		}
		if got != eligible[0] {
			c.Label("match:not-first-in-list-order")
		}
	case len(matchAny) > 0:
		// only fixed-IP definitions select this pod and it has no stable name: the
		// statement allows refusing the pod or not applying the definition
		c.Label("path:only-fixed-definitions-match-unstable-pod")
		if marked && final.Annotations[c18AnnoPN] != pod.Annotations[c18AnnoPN] {
			c.Fatalf("pod without a stable name was bound to fixed-IP PodNetworking %q", final.Annotations[c18AnnoPN])
		}
	default:
		// sentence 1c: matches no network definition
		if s.IPAM != "crd" && !podUseENI {
			c.Label("scope:no-match-outside-crd")
			if !unchanged {
				c.Fatalf("pod matching no network definition (ipam=%q, pod-eni=%q) was not admitted unchanged: allowed=%v (%s) patch=%s",
					s.IPAM, p.PodENI, resp.Allowed, c18Msg(resp), resp.Patch)
			}
			return
		}
		c.Label("path:default-network")
	}

	// the allocation type each network of the pod is defined with (nil = the source does
	// not say): entry i of the emitted list stands for request i / input entry i / the
	// bound definition
	var wantAlloc []*c18OutAlloc
	definedFixed := false
	byName := map[string]c18StoredPN{}
	for _, st := range stored {
		byName[st.name] = st
	}
	switch {
	case malformed:
	case explicitNets > 0:
		for _, e := range inNets.PodNetworks {
			if e.AllocationType != nil && e.AllocationType.Type != "" {
				wantAlloc = append(wantAlloc, &c18OutAlloc{Type: e.AllocationType.Type, ReleaseStrategy: e.AllocationType.ReleaseStrategy})
				definedFixed = definedFixed || e.AllocationType.Type == "Fixed"
			} else {
				wantAlloc = append(wantAlloc, nil)
			}
		}
	case explicitReqs > 0:
		kinds := map[string]bool{}
		for _, r := range inReqs {
			if st, ok := byName[r.Network]; ok {
				a := st.alloc()
				wantAlloc = append(wantAlloc, &a)
				definedFixed = definedFixed || st.fixed
				kinds[a.Type] = true
			} else {
				wantAlloc = append(wantAlloc, nil)
			}
		}
		if len(kinds) > 1 {
			c.Label("request:mixed-allocation-types")
		}
	case zonesFromDefinitions && marked: // selector match
		if st, ok := byName[final.Annotations[c18AnnoPN]]; ok {
			a := st.alloc()
			wantAlloc = append(wantAlloc, &a)
		}
	}

	// sentence 3, judged on what the pod asks for: a pod without a stable name that
	// names a fixed-IP network (in its pod-networks list or through a requested
	// definition) is refused
	if definedFixed && !stable {
		c.Label("fixed-requested-by-unstable-pod")
		if resp.Allowed {
			c.Fatalf("pod without a stable name (owners %v) asks for a fixed-IP network and was admitted; emitted networks: %s",
				p.Owners, final.Annotations[c18AnnoNets])
		}
	}

	if !resp.Allowed {
		if malformed {
			c.Label("denied:malformed")
		} else {
			c.NonTrivial()
			c.Labelf("denied:%s", c18DenyClass(c18Msg(resp)))
		}
		return
	}
	if !marked {
		c.Label("admitted:not-marked")
		return
	}
	c.Label("admitted:marked")
	c.NonTrivial()

	// ------------------------------------------------------------ sentence 2: complete spec
	var out c18OutAnno
	if err := json.Unmarshal([]byte(final.Annotations[c18AnnoNets]), &out); err != nil {
		c.Fatalf("marked pod leaves admission with an unparseable %s annotation: %v\n%q", c18AnnoNets, err, final.Annotations[c18AnnoNets])
	}
	n := len(out.PodNetworks)
	c.Labelf("networks:%d", n)
	seen := map[string]bool{}
	hasFixed := false
	var allowedZones map[string]bool // nil = not yet constrained
	for i, e := range out.PodNetworks {
		if l := utf8.RuneCountInString(e.Interface); l < 1 || l > 5 {
			c.Fatalf("network %d of a marked pod has interface name %q (%d characters; want 1..5)", i, e.Interface, l)
		}
		if seen[e.Interface] {
			c.Fatalf("marked pod has two networks with interface name %q", e.Interface)
		}
		seen[e.Interface] = true
		if len(e.SecurityGroupIDs) > 10 {
			c.Fatalf("network %d (%s) of a marked pod has %d security groups", i, e.Interface, len(e.SecurityGroupIDs))
		}
		if e.AllocationType == nil {
			c.Fatalf("network %d (%s) of a marked pod has no allocation type", i, e.Interface)
		}
		if e.AllocationType.Type == "" {
			c.Label("alloc-type:empty-type-field")
		}
		if e.AllocationType.Type == "Fixed" {
			hasFixed = true
		}
		if len(e.VSwitchOptions) == 0 {
			if vt.Known(c18KnownNoVSwitch) && e.Interface != "eth0" {
				c.Label("known:" + c18KnownNoVSwitch)
			} else {
				c.Fatalf("network %d (%s) of a marked pod has no vSwitches; annotation: %s", i, e.Interface, final.Annotations[c18AnnoNets])
			}
			// zones of an entry without vSwitches are unknown; leave the zone set alone
			continue
		}
		zs := map[string]bool{}
		for _, id := range e.VSwitchOptions {
			if z, ok := c18ZoneOf(id); ok {
				zs[z] = true
			}
		}
		if allowedZones == nil {
			allowedZones = zs
		} else {
			for z := range allowedZones {
				if !zs[z] {
					delete(allowedZones, z)
				}
			}
		}
	}
	if n >= 2 {
		c.Label("multi-network")
	}
	// "... and an allocation type": the one its network is defined with
	if len(wantAlloc) == n {
		for i, w := range wantAlloc {
			if w == nil {
				continue
			}
			got := out.PodNetworks[i].AllocationType
			if got.Type != w.Type || got.ReleaseStrategy != w.ReleaseStrategy || (explicitNets == 0 && got.ReleaseAfter != w.ReleaseAfter) {
				c.Fatalf("network %d (%s) is emitted with allocation type %+v, but the network it stands for is defined with %+v; emitted: %s",
					i, out.PodNetworks[i].Interface, *got, *w, final.Annotations[c18AnnoNets])
			}
		}
		c.Label("alloc-type:compared-with-source")
	} else if len(wantAlloc) > 0 {
		// entries cannot be paired with their sources; the statement does not fix the count
		c.Label("alloc-type:count-differs-from-source")
	}

	// sentence 3: fixed IP only for pods with a stable name
	if hasFixed {
		c.Label("alloc:fixed")
		if !stable {
			c.Fatalf("pod without a stable name (owners %v) was admitted with a fixed-IP allocation: %s", p.Owners, final.Annotations[c18AnnoNets])
		}
	}

	// sentence 2, resource injection
	if s.Inject && n > 0 {
		c0 := final.Spec.Containers[0]
		ok := false
		for _, rn := range []corev1.ResourceName{c18ResENI, c18ResMemberENI} {
			rq, hasR := c0.Resources.Requests[rn]
			lm, hasL := c0.Resources.Limits[rn]
			if hasR && hasL && rq.Value() == int64(n) && lm.Value() == int64(n) {
				ok = true
				c.Labelf("inject:%s", rn)
			}
		}
		if !ok {
			c.Fatalf("resource injection is on and the pod has %d networks, but container 0 has requests=%v limits=%v",
				n, c0.Resources.Requests, c0.Resources.Limits)
		}
	}

	// sentence 2, zone affinity: every zone value the webhook adds must be a zone in
	// which each requested network has a vSwitch (for fixed-IP pods the previous zone
	// of the retained ENI is the one other value the webhook may pin)
	added := c18AddedZoneValues(pod, final)
	if len(added) > 0 {
		c.Label("affinity:zone-added")
		if daemonSet {
			c.Label("affinity:daemonset")
		}
	}
	if allowedZones != nil && len(allowedZones) == 0 {
		c.Label("zones:empty-intersection")
	}
	for _, z := range added {
		if allowedZones[z] {
			continue
		}
		if hasFixed && prevZone != "" && z == prevZone {
			c.Label("affinity:previous-zone")
			continue
		}
		var az []string
		for k := range allowedZones {
			az = append(az, k)
		}
		sort.Strings(az)
		c.Fatalf("zone affinity added by the webhook contains %q, but the zones in which every requested network has a vSwitch are %v (previous zone %q); networks: %s",
			z, az, prevZone, final.Annotations[c18AnnoNets])
	}
	if n >= 2 && len(added) > 0 {
		c.Label("affinity:multi-network")
	}

	// ... and the affinity as the scheduler evaluates it (terms ORed, the match
	// expressions of a term ANDed) must not admit a zone in which some requested network
	// has no vSwitch. Checked whenever the webhook emitted a zone requirement for networks
	// that come from PodNetworking definitions. This is what separates "previous zone AND
	// vSwitch zones" (two expressions) from "previous zone OR vSwitch zones" (one).
	if len(added) > 0 && zonesFromDefinitions && allowedZones != nil {
		admitted := c18AdmittedZones(final)
		var bad []string
		for _, z := range admitted {
			if !allowedZones[z] {
				bad = append(bad, z)
			}
		}
		if prevZone != "" && hasFixed {
			inside := allowedZones[prevZone]
			c.Labelf("affinity:previous-zone-inside-vswitch-zones=%v", inside)
		}
		if len(bad) > 0 {
			var az []string
			for k := range allowedZones {
				az = append(az, k)
			}
			sort.Strings(az)
			aff, _ := json.Marshal(final.Spec.Affinity)
			c.Fatalf("the emitted node affinity admits zones %v, but the zones in which every requested network has a vSwitch are %v (previous zone %q)\naffinity: %s\nnetworks: %s",
				bad, az, prevZone, aff, final.Annotations[c18AnnoNets])
		}
	}
}

// c18ZoneUniverse: every zone name the harness ever uses (vSwitch zones z0..z3, previous
// zones z0..z4, the user's own affinity z0/z9).
var c18ZoneUniverse = []string{"z0", "z1", "z2", "z3", "z4", "z9"}

// c18AdmittedZones evaluates the pod's required node affinity the way the scheduler
// does, restricted to the zone label: a node in zone z passes if at least one selector
// term passes, and a term passes if all of its zone-key match expressions do
// (expressions on other keys are about other node labels and are taken as satisfiable).
// No required node affinity admits every zone.
func c18AdmittedZones(p *corev1.Pod) []string {
	if p.Spec.Affinity == nil || p.Spec.Affinity.NodeAffinity == nil ||
		p.Spec.Affinity.NodeAffinity.RequiredDuringSchedulingIgnoredDuringExecution == nil {
		return append([]string(nil), c18ZoneUniverse...)
	}
	terms := p.Spec.Affinity.NodeAffinity.RequiredDuringSchedulingIgnoredDuringExecution.NodeSelectorTerms
	has := func(vals []string, v string) bool {
		for _, x := range vals {
			if x == v {
				return true
			}
		}
		return false
	}
	var out []string
	for _, z := range c18ZoneUniverse {
		ok := false
		for _, t := range terms {
			// a term without any requirement matches nothing
			if len(t.MatchExpressions) == 0 && len(t.MatchFields) == 0 {
				continue
			}
			pass := true
			for _, e := range t.MatchExpressions {
				if e.Key != c18ZoneKey {
					continue
				}
				switch e.Operator {
				case corev1.NodeSelectorOpIn:
					pass = pass && has(e.Values, z)
				case corev1.NodeSelectorOpNotIn:
					pass = pass && !has(e.Values, z)
				case corev1.NodeSelectorOpDoesNotExist:
					pass = false
				}
			}
			if pass {
				ok = true
			}
		}
		if ok {
			out = append(out, z)
		}
	}
	return out
}

// c18AddedZoneValues returns the values of the zone-key match expressions present in
// the final pod's required node affinity and absent from the original's (multiset
// difference per selector term).
func c18AddedZoneValues(orig, final *corev1.Pod) []string {
	terms := func(p *corev1.Pod) []corev1.NodeSelectorTerm {
		if p.Spec.Affinity == nil || p.Spec.Affinity.NodeAffinity == nil ||
			p.Spec.Affinity.NodeAffinity.RequiredDuringSchedulingIgnoredDuringExecution == nil {
			return nil
		}
		return p.Spec.Affinity.NodeAffinity.RequiredDuringSchedulingIgnoredDuringExecution.NodeSelectorTerms
	}
	ot, ft := terms(orig), terms(final)
	var out []string
	for i, t := range ft {
		had := map[string]int{}
		if i < len(ot) {
			for _, e := range ot[i].MatchExpressions {
				b, _ := json.Marshal(e)
				had[string(b)]++
			}
		}
		for _, e := range t.MatchExpressions {
			b, _ := json.Marshal(e)
			if had[string(b)] > 0 {
				had[string(b)]--
				continue
			}
			if e.Key == c18ZoneKey {
				out = append(out, e.Values...)
			}
		}
	}
	return out
}

func c18DenyClass(msg string) string {
	for _, k := range []string{"security group", "interface name", "duplicated interface", "fixed ip", "not ready",
		"should not have selector", "not found", "unable parse", "configmap", "security groups should not"} {
		if strings.Contains(msg, k) {
			return strings.ReplaceAll(k, " ", "-")
		}
	}
	return "other"
}

func TestVerifC18Webhook(t *testing.T) {
	vt.Run(t, c18Gen, c18Run)
}

// Deterministic witness for the open finding C18-nondefault-iface-no-vswitch: a pod
// that supplies a second network ("eth1") without vSwitches is marked and admitted with
// that entry still lacking vSwitches. Prints the KNOWN-FINDING line while that is so.
func TestVerifC18KnownWitnessNoVSwitch(t *testing.T) {
	if !vt.Known(c18KnownNoVSwitch) {
		t.Skip("finding not listed as open")
	}
	s := c18WitnessNoVSwitch()
	admittedIncomplete := false
	func() {
		defer func() { _ = recover() }()
		c18LogOnce.Do(func() { ctrl.SetLogger(logr.Discard()) })
		cfg := &controlplane.Config{EnableTrunk: ptr.To(s.Trunk), EnableWebhookInjectResource: ptr.To(s.Inject), IPAMType: s.IPAM}
		controlplane.SetConfig(cfg)
		defer controlplane.SetConfig(nil)
		pod := c18BuildPod(s)
		cl := fake.NewClientBuilder().WithScheme(types.Scheme).WithObjects(
			c18EniConfigMap(s.EniConf),
			&corev1.Namespace{ObjectMeta: metav1.ObjectMeta{Name: "ns0"}}).Build()
		raw, _ := json.Marshal(pod)
		resp := MutatingHook(cl, cfg).Handle(context.Background(), c18Request("Pod", pod.Namespace, pod.Name, raw))
		if !resp.Allowed || len(resp.Patch) == 0 {
			return
		}
		p, err := evpatch.DecodePatch(resp.Patch)
		if err != nil {
			return
		}
		outRaw, err := p.Apply(raw)
		if err != nil {
			return
		}
		final := &corev1.Pod{}
		if json.Unmarshal(outRaw, final) != nil || final.Annotations[c18AnnoPodENI] != "true" {
			return
		}
		var out c18OutAnno
		if json.Unmarshal([]byte(final.Annotations[c18AnnoNets]), &out) != nil {
			return
		}
		for _, e := range out.PodNetworks {
			if e.Interface != "eth0" && len(e.VSwitchOptions) == 0 {
				admittedIncomplete = true
			}
		}
	}()
	if admittedIncomplete {
		vt.KnownFindingLine("C18", "pod with a user-supplied network on a non-eth0 interface and no vSwitchOptions is marked pod-eni=true and admitted with that entry still lacking vSwitches (defaults are filled for eth0 only)")
	}
}

func c18WitnessNoVSwitch() c18Scenario {
	return c18Scenario{
		IPAM:       "crd",
		Inject:     true,
		EniConf:    c18EniConf{VSw: []c18VSw{{Zone: 0, N: 0}}, SGs: 1},
		Namespaces: []c18NS{{}},
		Pod: c18Pod{
			Name:       "web-0",
			Containers: []c18Container{{}},
			HasNets:    true,
			Nets: []c18Net{
				{Iface: "eth0", VSw: []c18VSw{{Zone: 0, N: 0}}, SGs: 1},
				{Iface: "eth1", SGs: 1},
			},
		},
	}
}
