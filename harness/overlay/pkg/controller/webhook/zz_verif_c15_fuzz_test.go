package webhook

import (
	"testing"

	g "github.com/AliyunContainerService/terway/zz_verif/c15gen"
)

// FuzzVerifC15ControlplaneConfig: ctrl-config.yaml / ctrl-secret.yaml under the
// coverage-guided fuzzer, through ParseAndValidate and, when accepted, into the real
// MutatingHook handler with a pod that reaches resource injection (oracle of
// TestVerifC15ControlplaneConfig).
func FuzzVerifC15ControlplaneConfig(f *testing.F) {
	cred := []byte("accessKey: foo\naccessSecret: bar\n")
	f.Add([]byte("regionID: \"cn-hangzhou\"\nclusterID: foo\nvpcID: bar\nleaderElection: true\nwebhookPort: 4443\n"), cred, true)
	f.Add([]byte("regionID: \"cn-hangzhou\"\nclusterID: foo\nvpcID: bar\nenableTrunk: true\nenableWebhookInjectResource: false\nipamType: crd\n"), cred, false)
	for _, s := range append(vfC15CtrlHostile, g.FuzzHostile...) {
		f.Add([]byte(s), cred, true)
		f.Add([]byte("regionID: r\nclusterID: c\nvpcID: v\n"), []byte(s), false)
	}
	f.Fuzz(func(t *testing.T, config, credential []byte, eniConf bool) {
		defer g.FuzzGuard(t, "FuzzVerifC15ControlplaneConfig", config, credential, eniConf)()
		vfC15RunCtrl(g.FuzzSink{T: t}, vfC15CtrlScenario{Kind: "fuzz", Config: g.Bytes(config), Credential: g.Bytes(credential), ENIConf: eniConf})
	})
}
