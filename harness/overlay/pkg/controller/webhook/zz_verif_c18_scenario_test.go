package webhook

// C18 — scenario data and generators.
//
// A scenario is a cluster (controller configuration, eni-config ConfigMap, namespaces,
// PodNetworking definitions as a user would submit them, an optional previous PodENI)
// plus one pod as it arrives at admission. Everything is plain data; names are derived
// from indices so that the scenario shrinks and replays.
//
// Naming conventions the oracle relies on (and nothing in the code under test knows):
//   - a vSwitch id is "vsw-z<zone>-<n>"; its zone is "z<zone>" (c18ZoneOf)
//   - PodNetworkings are named "pn0".."pn4" (API list order = name order = index order)
//   - namespaces are named "ns0".."ns2"

import (
	"fmt"

	"pgregory.net/rapid"

	"github.com/AliyunContainerService/terway/zz_verif/vt"
)

type c18Scenario struct {
	Trunk  bool   `json:"trunk"`
	IPAM   string `json:"ipam"` // "", "crd", "preferCRD"
	Inject bool   `json:"inject"`

	EniConf    c18EniConf `json:"eni_conf"`
	Namespaces []c18NS    `json:"namespaces"`
	PNs        []c18PN    `json:"pod_networkings"`
	Pod        c18Pod     `json:"pod"`
	Prev       *c18Prev   `json:"prev_pod_eni,omitempty"`
}

type c18VSw struct {
	Zone int `json:"zone"`
	N    int `json:"n"`
}

func (v c18VSw) id() string { return fmt.Sprintf("vsw-z%d-%d", v.Zone, v.N) }

type c18EniConf struct {
	Missing  bool     `json:"missing,omitempty"` // ConfigMap absent
	VSw      []c18VSw `json:"vsw"`
	SGs      int      `json:"sgs"`
	SingleSG bool     `json:"single_sg,omitempty"` // also set the legacy security_group field
	// the legacy security_group value is one of the security_groups entries (the
	// effective default list is the union of both fields)
	LegacyInList bool `json:"legacy_in_list,omitempty"`
}

type c18NS struct {
	Labels map[string]string `json:"labels,omitempty"`
}

type c18Expr struct {
	Key    string   `json:"key"`
	Op     string   `json:"op"`
	Values []string `json:"values,omitempty"`
}

type c18Sel struct {
	Labels map[string]string `json:"match_labels,omitempty"`
	Exprs  []c18Expr         `json:"exprs,omitempty"`
}

type c18PN struct {
	Status       int      `json:"status"` // 0 Ready, 1 none yet, 2 Fail
	PodSel       *c18Sel  `json:"pod_sel,omitempty"`
	NSSel        *c18Sel  `json:"ns_sel,omitempty"`
	Fixed        bool     `json:"fixed,omitempty"`
	Release      string   `json:"release,omitempty"`
	ReleaseAfter string   `json:"release_after,omitempty"`
	ENIType      string   `json:"eni_type,omitempty"`
	VSw          []c18VSw `json:"vsw,omitempty"`
	SGs          int      `json:"sgs"`
}

type c18Container struct {
	CPU       bool `json:"cpu,omitempty"`        // has unrelated requests/limits already
	ENIRes    int  `json:"eni_res,omitempty"`    // pre-existing aliyun/eni request (0 = none)
	MemberRes int  `json:"member_res,omitempty"` // pre-existing aliyun/member-eni request
}

type c18Net struct {
	Iface        string   `json:"iface"`
	VSw          []c18VSw `json:"vsw,omitempty"`
	SGs          int      `json:"sgs"`
	Alloc        int      `json:"alloc"` // 0 absent, 1 Elastic, 2 Fixed, 3 present but empty object
	ENIType      string   `json:"eni_type,omitempty"`
	DefaultRoute bool     `json:"default_route,omitempty"`
}

type c18Req struct {
	PN           int    `json:"pn"` // index into PNs (mod len); -1 = a name that does not exist
	Iface        string `json:"iface"`
	DefaultRoute bool   `json:"default_route,omitempty"`
}

type c18Pod struct {
	Name        string            `json:"name"` // may be empty (generateName pods)
	NS          int               `json:"ns"`
	HostNetwork bool              `json:"host_network,omitempty"`
	Ignore      string            `json:"ignore,omitempty"` // value of the ignore label, "" = absent
	Labels      map[string]string `json:"labels,omitempty"`
	Owners      []string          `json:"owners,omitempty"`
	Containers  []c18Container    `json:"containers"`
	PodENI      string            `json:"pod_eni,omitempty"` // value of the pod-eni annotation, "" = absent

	HasNets bool     `json:"has_nets,omitempty"`
	NetsRaw string   `json:"nets_raw,omitempty"` // used verbatim instead of Nets when UseNetsRaw
	UseRawN bool     `json:"use_nets_raw,omitempty"`
	Nets    []c18Net `json:"nets,omitempty"`

	HasReq  bool     `json:"has_req,omitempty"`
	ReqRaw  string   `json:"req_raw,omitempty"`
	UseRawR bool     `json:"use_req_raw,omitempty"`
	Reqs    []c18Req `json:"reqs,omitempty"`

	HasPN  bool   `json:"has_pn,omitempty"`
	PNName string `json:"pn_name,omitempty"`

	Affinity int `json:"affinity"` // pre-existing node affinity shape, see c18BuildPod
}

type c18Prev struct {
	Zone     int  `json:"zone"`
	Allocs   bool `json:"allocs"`
	Deleting bool `json:"deleting,omitempty"`
}

// ---------------------------------------------------------------- generators

var (
	c18LabelKeys = []string{"app", "tier", "env"}
	c18LabelVals = []string{"a", "b", "c"}
)

// rapid's integer generators are deliberately biased towards small values, which makes
// them unsuitable for weighting classes. c18Pick draws a (nearly) uniform value in
// [0, n) from eight fair coin flips; all-false (what shrinking converges to) is 0.
func c18Pick(t *rapid.T, n int, label string) int {
	v := 0
	for i := 0; i < 8; i++ {
		if rapid.Bool().Draw(t, label) {
			v |= 1 << i
		}
	}
	return v * n / 256
}

// c18Pct is true with probability ~p/100; shrinks towards false.
func c18Pct(t *rapid.T, p int, label string) bool {
	return c18Pick(t, 100, label) >= 100-p
}

func c18GenLabels(t *rapid.T, label string) map[string]string {
	m := map[string]string{}
	for _, k := range c18LabelKeys {
		if c18Pct(t, 55, label+"-has-"+k) {
			m[k] = rapid.SampledFrom(c18LabelVals).Draw(t, label+"-"+k)
		}
	}
	if len(m) == 0 {
		return nil
	}
	return m
}

func c18GenSel(t *rapid.T, label string) *c18Sel {
	s := &c18Sel{}
	shape := c18Pick(t, 10, label+"-shape")
	switch {
	case shape == 0: // empty selector: matches everything
		return s
	case shape <= 5: // one matchLabel
		k := rapid.SampledFrom(c18LabelKeys).Draw(t, label+"-k")
		s.Labels = map[string]string{k: rapid.SampledFrom(c18LabelVals).Draw(t, label+"-v")}
	case shape <= 7: // one expression
		s.Exprs = []c18Expr{c18GenExpr(t, label+"-e0")}
	default: // label and expression(s)
		k := rapid.SampledFrom(c18LabelKeys).Draw(t, label+"-k")
		s.Labels = map[string]string{k: rapid.SampledFrom(c18LabelVals).Draw(t, label+"-v")}
		n := rapid.IntRange(1, 2).Draw(t, label+"-ne")
		for i := 0; i < n; i++ {
			s.Exprs = append(s.Exprs, c18GenExpr(t, fmt.Sprintf("%s-e%d", label, i)))
		}
	}
	return s
}

func c18GenExpr(t *rapid.T, label string) c18Expr {
	e := c18Expr{
		Key: rapid.SampledFrom(c18LabelKeys).Draw(t, label+"-key"),
		Op:  rapid.SampledFrom([]string{"In", "NotIn", "Exists", "DoesNotExist"}).Draw(t, label+"-op"),
	}
	if e.Op == "In" || e.Op == "NotIn" {
		n := rapid.IntRange(1, 2).Draw(t, label+"-nv")
		for i := 0; i < n; i++ {
			e.Values = append(e.Values, rapid.SampledFrom(c18LabelVals).Draw(t, label+"-val"))
		}
	}
	return e
}

func c18GenVSw(t *rapid.T, label string, min, max int) []c18VSw {
	n := min + c18Pick(t, max-min+1, label+"-n")
	var out []c18VSw
	for i := 0; i < n; i++ {
		out = append(out, c18VSw{
			Zone: c18Pick(t, 4, label+"-zone"),
			N:    c18Pick(t, 2, label+"-idx"),
		})
	}
	return out
}

// security group counts: mostly small, the 10/11/12 boundary well represented
func c18GenSGCount(t *rapid.T, label string, allowZero bool) int {
	r := c18Pick(t, 10, label+"-cls")
	switch {
	case r == 0 && allowZero:
		return 0
	case r <= 6:
		return rapid.IntRange(1, 3).Draw(t, label)
	case r <= 8:
		return rapid.IntRange(4, 9).Draw(t, label)
	default:
		return 10 + c18Pick(t, 3, label)
	}
}

func c18GenIface(t *rapid.T, label string) string {
	r := c18Pick(t, 12, label+"-cls")
	switch {
	case r <= 3:
		return "eth0"
	case r <= 6:
		return "eth1"
	case r <= 9:
		return rapid.SampledFrom([]string{"net1", "a", "abcde", "ab", "x1"}).Draw(t, label)
	default:
		// out of bounds by the statement (0, 6, 8 characters) and multi-byte names
		return rapid.SampledFrom([]string{"", "abcdef", "abcdefgh", "é1234", "ééé"}).Draw(t, label)
	}
}

func c18GenPN(t *rapid.T, i int) c18PN {
	l := fmt.Sprintf("pn%d", i)
	p := c18PN{}
	switch r := c18Pick(t, 10, l+"-status"); {
	case r <= 7:
		p.Status = 0
	case r == 8:
		p.Status = 1
	default:
		p.Status = 2
	}
	// two families: selector based definitions and selector-less ones that pods
	// reference by name; a little noise in between
	if c18Pct(t, 50, l+"-selector-family") {
		if c18Pct(t, 75, l+"-has-podsel") {
			p.PodSel = c18GenSel(t, l+"-podsel")
		}
		if p.PodSel == nil || c18Pct(t, 35, l+"-has-nssel") {
			p.NSSel = c18GenSel(t, l+"-nssel")
		}
		p.ENIType = rapid.SampledFrom([]string{"", "Default", "ENI", "Trunk"}).Draw(t, l+"-enitype")
	} else {
		p.ENIType = []string{"", "", "", "Default", "Default", "Default", "Default", "ENI"}[c18Pick(t, 8, l+"-enitype")]
	}
	p.Fixed = c18Pct(t, 35, l+"-fixed")
	if p.Fixed {
		p.Release = rapid.SampledFrom([]string{"", "TTL", "Never"}).Draw(t, l+"-release")
		if p.Release == "TTL" {
			p.ReleaseAfter = rapid.SampledFrom([]string{"5m0s", "1h", "bogus"}).Draw(t, l+"-after")
		}
	}
	p.VSw = c18GenVSw(t, l+"-vsw", 0, 3)
	p.SGs = c18GenSGCount(t, l+"-sgs", true)
	return p
}

func c18GenNet(t *rapid.T, i int) c18Net {
	l := fmt.Sprintf("net%d", i)
	n := c18Net{Iface: c18GenIface(t, l+"-iface")}
	if c18Pct(t, 75, l+"-has-vsw") {
		n.VSw = c18GenVSw(t, l+"-vsw", 1, 3)
	}
	n.SGs = c18GenSGCount(t, l+"-sgs", true)
	switch r := c18Pick(t, 10, l+"-alloc"); {
	case r <= 3:
		n.Alloc = 0
	case r <= 6:
		n.Alloc = 1
	case r <= 8:
		n.Alloc = 2
	default:
		n.Alloc = 3
	}
	n.ENIType = rapid.SampledFrom([]string{"", "", "Default", "ENI", "Trunk"}).Draw(t, l+"-enitype")
	n.DefaultRoute = c18Pct(t, 20, l+"-defroute")
	return n
}

var c18OrderlyIfaces = []string{"eth0", "eth1", "net1", "abcde"}

var c18NetsRawPool = []string{
	"{", "not json", `{"podNetworks":"x"}`, `[]`, `{"podNetworks":[{"interface":5}]}`, "",
	"null", `{}`, `{"podNetworks":[]}`, `{"podNetworks":null}`,
}

var c18ReqRawPool = []string{
	"[", "not json", `{}`, `[{"network":5}]`, "", "null", `[]`,
}

func c18Gen(t *rapid.T) c18Scenario {
	s := c18Scenario{}
	s.Trunk = rapid.Bool().Draw(t, "trunk")
	s.IPAM = []string{"", "", "crd", "crd", "preferCRD"}[c18Pick(t, 5, "ipam")]
	s.Inject = c18Pct(t, 70, "inject")

	s.EniConf.Missing = c18Pct(t, 4, "eniconf-missing")
	s.EniConf.VSw = c18GenVSw(t, "eniconf-vsw", 1, 3)
	s.EniConf.SGs = rapid.IntRange(1, 5).Draw(t, "eniconf-sgs")
	s.EniConf.SingleSG = c18Pct(t, 20, "eniconf-single-sg")
	// the ten-group boundary of the effective default list: 9, 10 or 11 entries in
	// security_groups, combined with a legacy security_group that is absent, among the
	// entries, or a further group (union of 9..12)
	if c18Pct(t, 20, "eniconf-sgs-boundary") {
		s.EniConf.SGs = []int{10, 9, 10, 11}[c18Pick(t, 4, "eniconf-sgs-9-11")]
		switch c18Pick(t, 4, "eniconf-legacy") {
		case 0:
			s.EniConf.SingleSG = false
		case 1:
			s.EniConf.SingleSG, s.EniConf.LegacyInList = true, true
		default:
			s.EniConf.SingleSG = true
		}
	} else if s.EniConf.SingleSG && c18Pct(t, 30, "eniconf-legacy-in-list") {
		s.EniConf.LegacyInList = true
	}

	nns := 1 + c18Pick(t, 3, "n-namespaces")
	for i := 0; i < nns; i++ {
		s.Namespaces = append(s.Namespaces, c18NS{Labels: c18GenLabels(t, fmt.Sprintf("ns%d", i))})
	}

	maxPN := vt.Scale(5, 8)
	npn := c18Pick(t, maxPN+1, "n-pn")
	for i := 0; i < npn; i++ {
		s.PNs = append(s.PNs, c18GenPN(t, i))
	}

	p := &s.Pod
	p.NS = c18Pick(t, nns, "pod-ns")
	p.HostNetwork = c18Pct(t, 10, "host-network")
	switch r := c18Pick(t, 20, "ignore"); {
	case r >= 18:
		p.Ignore = "true"
	case r == 17:
		p.Ignore = "false"
	}
	p.Labels = c18GenLabels(t, "pod")

	// owners: none (bare pod, stable name), stateful, stateless, daemon set, mixtures
	switch r := c18Pick(t, 12, "owners"); {
	case r <= 2:
	case r <= 5:
		p.Owners = []string{"StatefulSet"}
	case r <= 8:
		p.Owners = []string{rapid.SampledFrom([]string{"ReplicaSet", "Job", "Deployment"}).Draw(t, "stateless-kind")}
	case r == 9:
		p.Owners = []string{"DaemonSet"}
	case r == 10:
		p.Owners = []string{"ReplicaSet", "StatefulSet"}
	default:
		p.Owners = []string{"Job", "ReplicaSet"}
	}
	stableOwner := len(p.Owners) == 0
	for _, k := range p.Owners {
		if k == "StatefulSet" {
			stableOwner = true
		}
	}
	if stableOwner || c18Pct(t, 20, "named-anyway") {
		p.Name = rapid.SampledFrom([]string{"web-0", "db-1"}).Draw(t, "pod-name")
	}

	nc := 1
	switch r := c18Pick(t, 16, "n-containers"); {
	case r <= 9:
		nc = 1
	case r <= 12:
		nc = 2
	case r <= 14:
		nc = 3
	default:
		nc = 0
	}
	p.Containers = []c18Container{}
	for i := 0; i < nc; i++ {
		ct := c18Container{CPU: c18Pct(t, 40, "ct-cpu")}
		if c18Pct(t, 12, "ct-has-eni-res") {
			ct.ENIRes = rapid.IntRange(1, 5).Draw(t, "ct-eni-res")
		}
		if c18Pct(t, 12, "ct-has-member-res") {
			ct.MemberRes = rapid.IntRange(1, 5).Draw(t, "ct-member-res")
		}
		p.Containers = append(p.Containers, ct)
	}

	switch r := c18Pick(t, 10, "pod-eni-anno"); {
	case r <= 5:
	case r <= 7:
		p.PodENI = "true"
	case r == 8:
		p.PodENI = rapid.SampledFrom([]string{"false", "1", "garbage"}).Draw(t, "pod-eni-val")
	default:
		p.PodENI = "True"
	}

	// which of the three network annotations are present
	switch r := c18Pick(t, 20, "anno-combo"); {
	case r <= 5:
	case r <= 9:
		p.HasNets = true
	case r <= 13:
		p.HasReq = true
	case r == 14:
		p.HasPN = true
	case r == 15:
		p.HasNets, p.HasReq = true, true
	case r == 16:
		p.HasNets, p.HasPN = true, true
	case r == 17:
		p.HasReq, p.HasPN = true, true
	case r == 18:
		p.HasNets, p.HasReq, p.HasPN = true, true, true
	}
	if p.HasNets {
		if c18Pct(t, 12, "nets-raw") {
			p.UseRawN = true
			p.NetsRaw = rapid.SampledFrom(c18NetsRawPool).Draw(t, "nets-raw-val")
		} else {
			n := []int{1, 1, 1, 1, 1, 1, 1, 2, 2, 2, 2, 2, 2, 3, 3, 3, 3, 4, 4, 0}[c18Pick(t, 20, "n-nets")]
			orderly := c18Pct(t, 60, "nets-orderly-names")
			for i := 0; i < n; i++ {
				net := c18GenNet(t, i)
				if orderly {
					net.Iface = c18OrderlyIfaces[i]
				}
				p.Nets = append(p.Nets, net)
			}
		}
	}
	if p.HasReq {
		if c18Pct(t, 12, "req-raw") {
			p.UseRawR = true
			p.ReqRaw = rapid.SampledFrom(c18ReqRawPool).Draw(t, "req-raw-val")
		} else {
			// definitions a pod may reference by name: ready, selector-less, default
			// attach type, admissible (known from the generated data alone)
			var requestable []int
			for i, pn := range s.PNs {
				if pn.Status == 0 && pn.PodSel == nil && pn.NSSel == nil && (pn.ENIType == "" || pn.ENIType == "Default") &&
					pn.SGs <= 10 && pn.ReleaseAfter != "bogus" {
					requestable = append(requestable, i)
				}
			}
			n := []int{1, 1, 1, 1, 1, 1, 2, 2, 2, 2, 2, 2, 2, 2, 3, 3, 3, 3, 3, 0}[c18Pick(t, 20, "n-reqs")]
			orderly := c18Pct(t, 70, "reqs-orderly-names")
			for i := 0; i < n; i++ {
				r := c18Req{}
				if len(requestable) > 0 && c18Pct(t, 80, "req-requestable") {
					r.PN = requestable[c18Pick(t, len(requestable), "req-pn")]
				} else {
					r.PN = c18Pick(t, 7, "req-pn") - 1
				}
				if orderly {
					r.Iface = c18OrderlyIfaces[i]
					if i == 0 && c18Pct(t, 50, "req-default-iface") {
						r.Iface = "" // interface defaults to eth0
					}
				} else {
					r.Iface = c18GenIface(t, fmt.Sprintf("req%d-iface", i))
				}
				r.DefaultRoute = c18Pct(t, 20, "req-defroute")
				p.Reqs = append(p.Reqs, r)
			}
		}
	}
	if p.HasPN {
		p.PNName = rapid.SampledFrom([]string{"pn0", "pn1", "pn3", "other"}).Draw(t, "pn-anno")
	}
	p.Affinity = []int{0, 0, 0, 0, 1, 2, 3, 4}[c18Pick(t, 8, "affinity")]

	if p.Name != "" && c18Pct(t, 55, "has-prev") {
		s.Prev = &c18Prev{
			Zone:     c18Pick(t, 5, "prev-zone"),
			Allocs:   c18Pct(t, 85, "prev-allocs"),
			Deleting: c18Pct(t, 12, "prev-deleting"),
		}
	}
	return s
}
