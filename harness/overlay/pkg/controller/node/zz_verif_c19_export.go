package node

import (
	"k8s.io/apimachinery/pkg/runtime"
	"k8s.io/client-go/tools/record"
	"sigs.k8s.io/controller-runtime/pkg/client"

	register "github.com/AliyunContainerService/terway/pkg/controller"
	"github.com/AliyunContainerService/terway/pkg/controller/status"
)

// VerifC19NewReconcileNode is an export shim of the verification harness (C19 closed
// loop in pkg/eni): the node controller wired exactly as init() wires it, minus the
// manager and the event predicate.
func VerifC19NewReconcileNode(c client.Client, s *runtime.Scheme, a register.Interface, rec record.EventRecorder, supportEFLO bool) *ReconcileNode {
	return &ReconcileNode{
		client:          c,
		scheme:          s,
		aliyun:          a,
		record:          rec,
		supportEFLO:     supportEFLO,
		nodeStatusCache: status.NewCache[status.NodeStatus](),
	}
}
