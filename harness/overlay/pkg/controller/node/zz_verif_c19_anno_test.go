package node

import (
	"context"
	"fmt"
	"strconv"
	"testing"

	"github.com/aliyun/alibaba-cloud-sdk-go/services/ecs"
	"github.com/aliyun/alibaba-cloud-sdk-go/services/eflo"
	corev1 "k8s.io/api/core/v1"
	metav1 "k8s.io/apimachinery/pkg/apis/meta/v1"
	"k8s.io/apimachinery/pkg/runtime"
	k8stypes "k8s.io/apimachinery/pkg/types"
	"pgregory.net/rapid"
	"sigs.k8s.io/controller-runtime/pkg/client"
	"sigs.k8s.io/controller-runtime/pkg/client/fake"
	"sigs.k8s.io/controller-runtime/pkg/reconcile"

	"github.com/AliyunContainerService/terway/deviceplugin"
	aliyunClient "github.com/AliyunContainerService/terway/pkg/aliyun/client"
	networkv1beta1 "github.com/AliyunContainerService/terway/pkg/apis/network.alibabacloud.com/v1beta1"
	register "github.com/AliyunContainerService/terway/pkg/controller"
	multiipnode "github.com/AliyunContainerService/terway/pkg/controller/multi-ip/node"
	"github.com/AliyunContainerService/terway/pkg/controller/status"
	terwayTypes "github.com/AliyunContainerService/terway/types"
	"github.com/AliyunContainerService/terway/zz_verif/vt"
)

// C19 (controller part): what ReconcileNode writes on the Kubernetes node -- the
// max-available-ip annotation and the aliyun/eni / aliyun/member-eni extended
// resources -- never exceeds the instance type.
//
// A case is a short history over the in-memory API server:
//  1. a Kubernetes node of a generated instance type appears; the real Reconcile creates
//     the Node CR and fills NodeCap through the real limit provider
//     (DescribeInstanceTypes stub -> getInstanceType), or through GetNodeInfoForPod for a
//     LingJun node;
//  2. the harness plays the node daemon: it writes an ENISpec and a flavor that respects
//     what the daemon-side reconcile guarantees (checked separately against the real
//     daemon-side code in pkg/eni): counts >= 0, their sum <= NodeCap.Adapters-1, at most
//     one trunk and only with trunking enabled, at most EriQuantity RDMA interfaces; it also
//     reports attached interfaces (trunk in use or not) in the CR status;
//  3. the real Reconcile runs again (once or twice) and the node is inspected.
type c19AnnoENI struct {
	Type   int `json:"type"`   // 0 secondary, 1 trunk, 2 member
	Status int `json:"status"` // 0 InUse, 1 Attaching, 2 Detaching, 3 Deleting
}

type c19AnnoScenario struct {
	EniQuantity      int  `json:"eni_quantity"`
	EniTotalQuantity int  `json:"eni_total_quantity"`
	V4               int  `json:"v4_per_eni"`
	V6               int  `json:"v6_per_eni"`
	Eri              int  `json:"eri_quantity"`
	Trunk            bool `json:"trunk_supported"`
	Noise            int  `json:"noise"` // unrelated huge instance types returned first

	LinJun      bool `json:"lingjun"`
	LeniQuota   int  `json:"leni_quota"`
	LniSipQuota int  `json:"lni_sip_quota"`

	Exclusive string `json:"exclusive_label"` // value of the exclusive-mode label on the k8s node ("" = absent)

	// daemon side (played by the harness)
	WantTrunk bool         `json:"want_trunk"` // enable_eni_trunking in the daemon config
	WantRdma  int          `json:"want_rdma"`  // RDMA interfaces the daemon would like
	StdPct    int          `json:"std_pct"`    // share of the remaining slots given to standard secondary interfaces
	Split     bool         `json:"split"`      // standard slots listed as two flavor entries
	Rotate    int          `json:"rotate"`     // rotation of the flavor list
	ENIs      []c19AnnoENI `json:"enis"`
	Prefer    int          `json:"prefer"` // trunk-on annotation points at ENI #Prefer (-1 none, may dangle)

	StaleAnno int `json:"stale_anno"` // pre-existing max-available-ip annotation (0 = none)
	Rounds    int `json:"rounds"`

	// Resize: the same instance (same instance id, same node) is stopped, changed to
	// another instance type and started again: the instance-type label changes and steps
	// 1-3 run once more; everything advertised must then fit the NEW type.
	Resize *c19AnnoVec `json:"resize,omitempty"`
}

// c19AnnoVec is an instance-type description.
type c19AnnoVec struct {
	EniQuantity      int  `json:"eni_quantity"`
	EniTotalQuantity int  `json:"eni_total_quantity"`
	V4               int  `json:"v4_per_eni"`
	V6               int  `json:"v6_per_eni"`
	Eri              int  `json:"eri_quantity"`
	Trunk            bool `json:"trunk_supported"`
}

func (v c19AnnoVec) instanceType(id string) ecs.InstanceType {
	return ecs.InstanceType{
		InstanceTypeId: id, EniQuantity: v.EniQuantity, EniTotalQuantity: v.EniTotalQuantity,
		EniPrivateIpAddressQuantity: v.V4, EniIpv6AddressQuantity: v.V6, EriQuantity: v.Eri, EniTrunkSupported: v.Trunk,
	}
}

func c19GenAnno(t *rapid.T) c19AnnoScenario {
	s := c19AnnoScenario{}
	s.EniQuantity = rapid.OneOf(rapid.IntRange(1, 4), rapid.IntRange(1, vt.Scale(32, 64)), rapid.IntRange(7, 9)).Draw(t, "eniQuantity")
	if rapid.IntRange(0, 3).Draw(t, "hasMembers") == 0 {
		s.EniTotalQuantity = s.EniQuantity
	} else {
		s.EniTotalQuantity = s.EniQuantity + rapid.IntRange(1, 120).Draw(t, "members")
	}
	s.V4 = rapid.IntRange(1, 50).Draw(t, "v4")
	switch rapid.IntRange(0, 2).Draw(t, "v6Class") {
	case 0:
		s.V6 = 0
	case 1:
		s.V6 = s.V4
	default:
		s.V6 = rapid.IntRange(1, 50).Draw(t, "v6")
	}
	s.Eri = rapid.IntRange(0, 4).Draw(t, "eri")
	s.Trunk = rapid.IntRange(0, 3).Draw(t, "trunk") > 0
	s.Noise = rapid.IntRange(0, 2).Draw(t, "noise")

	s.LinJun = rapid.IntRange(0, 9).Draw(t, "lingjun") == 9
	s.LeniQuota = rapid.IntRange(1, 16).Draw(t, "leniQuota")
	s.LniSipQuota = rapid.IntRange(1, 50).Draw(t, "lniSipQuota")

	s.Exclusive = rapid.SampledFrom([]string{"", "", "", "default", "eniOnly", "ENIONLY"}).Draw(t, "exclusive")

	s.WantTrunk = rapid.Bool().Draw(t, "wantTrunk")
	s.WantRdma = rapid.IntRange(0, 2).Draw(t, "wantRdma")
	s.StdPct = rapid.SampledFrom([]int{100, 100, 100, 0, 50, 75}).Draw(t, "stdPct")
	s.Split = rapid.IntRange(0, 3).Draw(t, "split") == 3
	s.Rotate = rapid.IntRange(0, 3).Draw(t, "rotate")
	n := rapid.SampledFrom([]int{0, 1, 2, 2, 3, 4}).Draw(t, "nENI")
	for i := 0; i < n; i++ {
		s.ENIs = append(s.ENIs, c19AnnoENI{
			Type:   rapid.SampledFrom([]int{0, 1, 1, 1, 2}).Draw(t, "eniType"),
			Status: rapid.SampledFrom([]int{0, 0, 0, 0, 1, 2, 3}).Draw(t, "eniStatus"),
		})
	}
	s.Prefer = rapid.IntRange(-1, 4).Draw(t, "prefer")
	if rapid.IntRange(0, 2).Draw(t, "stale") == 2 {
		s.StaleAnno = rapid.SampledFrom([]int{1, 7, 99999}).Draw(t, "staleAnno")
	}
	s.Rounds = rapid.IntRange(1, 2).Draw(t, "rounds")
	if !s.LinJun && rapid.SampledFrom([]bool{false, true, true}).Draw(t, "resize") {
		b := c19AnnoVec{}
		if rapid.Bool().Draw(t, "resizeSmaller") {
			b.EniQuantity = rapid.IntRange(1, s.EniQuantity).Draw(t, "bEniQuantity")
			b.EniTotalQuantity = b.EniQuantity + rapid.IntRange(0, s.EniTotalQuantity-s.EniQuantity).Draw(t, "bMembers")
			b.V4 = rapid.IntRange(1, s.V4).Draw(t, "bV4")
			b.V6 = rapid.SampledFrom([]int{0, b.V4, s.V6}).Draw(t, "bV6")
			b.Eri = rapid.IntRange(0, s.Eri).Draw(t, "bEri")
			b.Trunk = s.Trunk && rapid.Bool().Draw(t, "bTrunk")
		} else {
			b.EniQuantity = rapid.IntRange(1, 32).Draw(t, "bEniQuantity")
			b.EniTotalQuantity = b.EniQuantity + rapid.IntRange(0, 120).Draw(t, "bMembers")
			b.V4 = rapid.IntRange(1, 50).Draw(t, "bV4")
			b.V6 = rapid.SampledFrom([]int{0, b.V4, 1}).Draw(t, "bV6")
			b.Eri = rapid.IntRange(0, 4).Draw(t, "bEri")
			b.Trunk = rapid.Bool().Draw(t, "bTrunk")
		}
		s.Resize = &b
	}
	return s
}

// c19Cloud answers the two calls ReconcileNode makes; anything else is a harness bug
// (nil embedded interface -> panic -> reported).
type c19Cloud struct {
	register.Interface
	types []ecs.InstanceType
	eflo  *eflo.Content
}

func (e *c19Cloud) DescribeInstanceTypes(_ context.Context, _ []string) ([]ecs.InstanceType, error) {
	return e.types, nil
}

func (e *c19Cloud) GetNodeInfoForPod(_ context.Context, _ string) (*eflo.Content, error) {
	return e.eflo, nil
}

// c19Recorder drops events (record.FakeRecorder blocks when its buffer is full).
type c19Recorder struct{}

func (c19Recorder) Event(runtime.Object, string, string, string)                  {}
func (c19Recorder) Eventf(runtime.Object, string, string, string, ...interface{}) {}
func (c19Recorder) AnnotatedEventf(runtime.Object, map[string]string, string, string, string, ...interface{}) {
}

func c19DrainNotify() {
	for {
		select {
		case <-multiipnode.EventCh:
		default:
			return
		}
	}
}

const c19NodeName = "node-c19"

func c19RunAnno(c *vt.Ctx, s c19AnnoScenario) {
	ctx := context.Background()
	// package-level state: the ECS limit provider caches instance types for 15 days
	aliyunClient.LimitProviders["ecs"] = aliyunClient.NewECSLimitProvider()
	c19DrainNotify()

	const typeID, typeB = "ecs.c19.large", "ecs.c19b.large"
	vecA := c19AnnoVec{s.EniQuantity, s.EniTotalQuantity, s.V4, s.V6, s.Eri, s.Trunk}
	cloud := &c19Cloud{eflo: &eflo.Content{LeniQuota: s.LeniQuota, LniSipQuota: s.LniSipQuota}}
	for i := 0; i < s.Noise; i++ {
		cloud.types = append(cloud.types, ecs.InstanceType{
			InstanceTypeId: fmt.Sprintf("ecs.noise%d.huge", i), EniQuantity: 64, EniTotalQuantity: 512,
			EniPrivateIpAddressQuantity: 100, EniIpv6AddressQuantity: 100, EriQuantity: 8, EniTrunkSupported: true,
		})
	}
	cloud.types = append(cloud.types, vecA.instanceType(typeID))
	if s.Resize != nil {
		cloud.types = append(cloud.types, s.Resize.instanceType(typeB))
	}

	k8sNode := &corev1.Node{
		ObjectMeta: metav1.ObjectMeta{
			Name: c19NodeName,
			Labels: map[string]string{
				corev1.LabelInstanceTypeStable: typeID,
				corev1.LabelTopologyZone:       "cn-hangzhou-k",
				corev1.LabelTopologyRegion:     "cn-hangzhou",
			},
			Annotations: map[string]string{},
		},
		Spec: corev1.NodeSpec{ProviderID: "cn-hangzhou.i-c19"},
	}
	if s.Exclusive != "" {
		k8sNode.Labels[terwayTypes.ExclusiveENIModeLabel] = s.Exclusive
	}
	if s.LinJun {
		k8sNode.Labels[terwayTypes.LinJunNodeLabelKey] = "true"
	}
	if s.StaleAnno != 0 {
		k8sNode.Annotations[string(terwayTypes.NormalIPTypeIPs)] = strconv.Itoa(s.StaleAnno)
	}

	cl := fake.NewClientBuilder().WithScheme(terwayTypes.Scheme).
		WithStatusSubresource(&networkv1beta1.Node{}).
		WithObjects(k8sNode).Build()
	r := &ReconcileNode{
		client:          cl,
		scheme:          terwayTypes.Scheme,
		aliyun:          cloud,
		record:          c19Recorder{},
		supportEFLO:     true,
		nodeStatusCache: status.NewCache[status.NodeStatus](),
	}
	req := reconcile.Request{NamespacedName: k8stypes.NamespacedName{Name: c19NodeName}}
	// a refused reconcile is not a violation (nothing new is advertised): the first one
	// must succeed for the case to mean anything, later ones are only made visible and
	// the node is inspected as it stands
	reconcileOnce := func(step string, must bool) {
		_, err := r.Reconcile(ctx, req)
		c19DrainNotify()
		if err != nil {
			c.Trace("%s: Reconcile failed: %v", step, err)
			if must {
				c.Inconclusive("controller reconcile refused: " + step)
			}
			c.Label("reconcile-error:" + step)
		}
	}

	trunkInUse := false
	// one pass of steps 1-3 for the instance type v the node currently has
	pass := func(name string, v c19AnnoVec, first bool) {
		fatalf := func(f string, a ...any) { c.Fatalf(name+f, a...) }
		// ---- 1. node appears
		reconcileOnce(name+"first", true)
		cr := &networkv1beta1.Node{}
		if err := cl.Get(ctx, client.ObjectKey{Name: c19NodeName}, cr); err != nil {
			fatalf("Node CR not created: %v", err)
		}
		nc := cr.Spec.NodeCap
		c.Trace("%sNodeCap %+v meta %+v labels %v", name, nc, cr.Spec.NodeMetadata, cr.Labels)

		exclusive := terwayTypes.NodeExclusiveENIMode(k8sNode.Labels) == terwayTypes.ExclusiveENIOnly
		slots, v4, memberRef, eri := v.EniQuantity-1, v.V4, 0, v.Eri
		if v.Trunk {
			memberRef = v.EniTotalQuantity - v.EniQuantity
		}
		if s.LinJun {
			slots, v4, memberRef, eri = s.LeniQuota-1, s.LniSipQuota, 0, 0
			c.Label("lingjun")
		}
		// the recorded capabilities are the base of everything downstream
		if nc.Adapters-1 > slots || nc.IPv4PerAdapter > v4 || nc.MemberAdapterLimit > memberRef || nc.EriQuantity > eri ||
			nc.Adapters < 0 || nc.IPv4PerAdapter < 0 || nc.MemberAdapterLimit < 0 || nc.EriQuantity < 0 {
			fatalf("NodeCap %+v exceeds the instance type (secondary slots %d, v4 %d, member limit %d, eri %d)", nc, slots, v4, memberRef, eri)
		}
		if !s.LinJun && nc.IPv6PerAdapter > v.V6 {
			fatalf("NodeCap.IPv6PerAdapter = %d exceeds %d", nc.IPv6PerAdapter, v.V6)
		}
		if !s.LinJun && eri > 0 && nc.EriQuantity > slots {
			fatalf("NodeCap.EriQuantity = %d exceeds the %d secondary slots", nc.EriQuantity, slots)
		}

		// ---- 2. the daemon fills ENISpec, flavor and status
		rem := nc.Adapters - 1
		if rem < 0 {
			rem = 0
		}
		enableTrunk := s.WantTrunk && nc.MemberAdapterLimit > 0 && !exclusive && !s.LinJun
		enableRdma := s.WantRdma > 0 && nc.EriQuantity > 0 && !s.LinJun
		var flavor []networkv1beta1.Flavor
		trunkSlots, rdmaSlots, stdSlots := 0, 0, 0
		if enableTrunk && rem > 0 {
			trunkSlots = 1
			rem--
			flavor = append(flavor, networkv1beta1.Flavor{NetworkInterfaceType: networkv1beta1.ENITypeTrunk,
				NetworkInterfaceTrafficMode: networkv1beta1.NetworkInterfaceTrafficModeStandard, Count: 1})
		}
		if enableRdma && rem > 0 {
			rdmaSlots = s.WantRdma
			if rdmaSlots > nc.EriQuantity {
				rdmaSlots = nc.EriQuantity
			}
			if rdmaSlots > rem {
				rdmaSlots = rem
			}
			rem -= rdmaSlots
			flavor = append(flavor, networkv1beta1.Flavor{NetworkInterfaceType: networkv1beta1.ENITypeSecondary,
				NetworkInterfaceTrafficMode: networkv1beta1.NetworkInterfaceTrafficModeHighPerformance, Count: rdmaSlots})
		}
		stdSlots = rem * s.StdPct / 100
		if s.Split && stdSlots >= 2 {
			a := stdSlots / 2
			flavor = append(flavor,
				networkv1beta1.Flavor{NetworkInterfaceType: networkv1beta1.ENITypeSecondary, NetworkInterfaceTrafficMode: networkv1beta1.NetworkInterfaceTrafficModeStandard, Count: a},
				networkv1beta1.Flavor{NetworkInterfaceType: networkv1beta1.ENITypeSecondary, NetworkInterfaceTrafficMode: networkv1beta1.NetworkInterfaceTrafficModeStandard, Count: stdSlots - a})
			c.Label("flavor:split")
		} else {
			flavor = append(flavor, networkv1beta1.Flavor{NetworkInterfaceType: networkv1beta1.ENITypeSecondary,
				NetworkInterfaceTrafficMode: networkv1beta1.NetworkInterfaceTrafficModeStandard, Count: stdSlots})
		}
		if k := s.Rotate % len(flavor); k > 0 {
			flavor = append(append([]networkv1beta1.Flavor{}, flavor[k:]...), flavor[:k]...)
		}
		cr.Spec.ENISpec = &networkv1beta1.ENISpec{
			EnableIPv4: true, EnableTrunk: enableTrunk, EnableERDMA: enableRdma,
			VSwitchOptions: []string{"vsw-c19"}, SecurityGroupIDs: []string{"sg-c19"},
		}
		cr.Spec.Flavor = flavor
		if err := cl.Update(ctx, cr); err != nil {
			fatalf("harness: update Node CR spec: %v", err)
		}
		if first && len(s.ENIs) > 0 {
			cr.Status.NetworkInterfaces = map[string]*networkv1beta1.NetworkInterface{}
			for i, e := range s.ENIs {
				ni := &networkv1beta1.NetworkInterface{
					ID:                   fmt.Sprintf("eni-%d", i),
					NetworkInterfaceType: []networkv1beta1.ENIType{networkv1beta1.ENITypeSecondary, networkv1beta1.ENITypeTrunk, networkv1beta1.ENITypeMember}[e.Type],
					Status:               []string{aliyunClient.ENIStatusInUse, aliyunClient.ENIStatusAttaching, aliyunClient.ENIStatusDetaching, aliyunClient.ENIStatusDeleting}[e.Status],
				}
				if e.Type == 1 && e.Status == 0 {
					trunkInUse = true
				}
				cr.Status.NetworkInterfaces[ni.ID] = ni
			}
			if err := cl.Status().Update(ctx, cr); err != nil {
				fatalf("harness: update Node CR status: %v", err)
			}
		}
		if first && s.Prefer >= 0 {
			cur := &corev1.Node{}
			if err := cl.Get(ctx, client.ObjectKey{Name: c19NodeName}, cur); err != nil {
				fatalf("harness: get node: %v", err)
			}
			if cur.Annotations == nil {
				cur.Annotations = map[string]string{}
			}
			cur.Annotations[terwayTypes.TrunkOn] = fmt.Sprintf("eni-%d", s.Prefer)
			if err := cl.Update(ctx, cur); err != nil {
				fatalf("harness: update node: %v", err)
			}
		}
		c.Trace(name+"daemon wrote trunk=%v rdma=%v flavor=%+v enis=%+v", enableTrunk, enableRdma, flavor, s.ENIs)

		// ---- classification
		nt := false
		if s.WantTrunk && !enableTrunk {
			c.Label("ask-trunk:refused")
			nt = true
		}
		if s.WantRdma > 0 && rdmaSlots < s.WantRdma {
			c.Label("ask-rdma:refused-or-cut")
			nt = true
		}
		if exclusive {
			c.Label("mode:exclusive")
		} else {
			c.Label("mode:shared")
		}
		if enableTrunk && trunkInUse {
			c.Label("trunk:in-use")
		} else if enableTrunk {
			c.Label("trunk:not-ready")
		}
		if s.StaleAnno > slots*v4 {
			c.Label("stale-annotation>limit")
			nt = true
		}
		if slots == 0 {
			c.Label("primary-only")
			nt = true
		}
		if nt {
			c.NonTrivial()
		}

		// ---- 3. controller reconciles again
		for i := 0; i < s.Rounds; i++ {
			reconcileOnce(name+"after-daemon", false)
		}
		got := &corev1.Node{}
		if err := cl.Get(ctx, client.ObjectKey{Name: c19NodeName}, got); err != nil {
			fatalf("get node: %v", err)
		}
		c.Trace(name+"node annotations %v allocatable %v capacity %v", got.Annotations, got.Status.Allocatable, got.Status.Capacity)

		annoIP := -1
		if v, ok := got.Annotations[string(terwayTypes.NormalIPTypeIPs)]; ok {
			n, err := strconv.Atoi(v)
			if err != nil {
				fatalf("annotation %s = %q is not a number", terwayTypes.NormalIPTypeIPs, v)
			}
			annoIP = n
		}
		quantity := func(name string) (int64, bool) {
			a, okA := got.Status.Allocatable[corev1.ResourceName(name)]
			cp, okC := got.Status.Capacity[corev1.ResourceName(name)]
			if !okA && !okC {
				return 0, false
			}
			v := a.Value()
			if cp.Value() > v {
				v = cp.Value()
			}
			return v, true
		}

		if s.LinJun {
			// no ENISpec semantics for LingJun nodes in this controller: nothing but the
			// (harness-written) stale annotation may be present
			if annoIP >= 0 && annoIP != s.StaleAnno {
				fatalf("LingJun node got max-available-ip = %d", annoIP)
			}
			return
		}

		ipSlots := stdSlots + trunkSlots // interfaces that carry pod IPs in shared mode
		if exclusive {
			// one pod per standard secondary interface
			if annoIP > stdSlots || annoIP > slots {
				fatalf("exclusive mode: max-available-ip = %d exceeds %d standard slots in the flavor (instance has %d secondary slots)", annoIP, stdSlots, slots)
			}
			if q, ok := quantity(deviceplugin.ENIResName); ok {
				if q < 0 || q > int64(stdSlots) || q > int64(slots) {
					fatalf("exclusive mode: %s = %d exceeds %d standard slots in the flavor (instance has %d secondary slots)", deviceplugin.ENIResName, q, stdSlots, slots)
				}
				c.Label("res:eni")
			}
		} else {
			if annoIP > ipSlots*v4 || annoIP > slots*v4 {
				fatalf("max-available-ip = %d exceeds %d slots x %d addresses (instance has %d secondary slots)", annoIP, ipSlots, v4, slots)
			}
		}
		if annoIP >= 0 {
			c.Label("anno:present")
		} else {
			c.Label("anno:absent")
		}
		if q, ok := quantity(deviceplugin.MemberENIResName); ok {
			if q < 0 || q > int64(memberRef) {
				fatalf("%s = %d exceeds the member limit %d of the instance type", deviceplugin.MemberENIResName, q, memberRef)
			}
			if q > 0 && (!enableTrunk || exclusive) {
				c.Label("res:member-eni-unasked") // not an instance limit; visible in the evidence
			}
			c.Label("res:member-eni")
		}
	}

	pass("", vecA, true)
	if s.Resize != nil {
		// the instance comes back as another type: same instance id, same node object,
		// new instance-type label (kubelet / cloud-controller-manager republish it)
		cur := &corev1.Node{}
		if err := cl.Get(ctx, client.ObjectKey{Name: c19NodeName}, cur); err != nil {
			c.Fatalf("harness: get node: %v", err)
		}
		cur.Labels[corev1.LabelInstanceTypeStable] = typeB
		if err := cl.Update(ctx, cur); err != nil {
			c.Fatalf("harness: update node label: %v", err)
		}
		c.Trace("instance resized in place: %+v -> %+v", vecA, *s.Resize)
		if (s.Resize.EniQuantity-1)*s.Resize.V4 < (vecA.EniQuantity-1)*vecA.V4 {
			c.Label("resize:shrinks")
			c.NonTrivial() // what was advertised for the old type is above the new limits
		} else {
			c.Label("resize:grows-or-same")
		}
		pass("after resize: ", *s.Resize, false)
	}
}

func TestVerifC19NodeAnno(t *testing.T) {
	vt.Run(t, c19GenAnno, c19RunAnno)
}
