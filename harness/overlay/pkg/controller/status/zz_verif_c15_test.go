package status

// C15 — values that come from a pod annotation (NUMA hint, screened only for < 0 by the
// caller) or from a PodENI object (recorded card index) are used to select a network
// card: whatever their magnitude, the selection answers "no card" or a card of the node.

import (
	"fmt"
	"testing"

	g "github.com/AliyunContainerService/terway/zz_verif/c15gen"
	"github.com/AliyunContainerService/terway/zz_verif/vt"
	"pgregory.net/rapid"
)

type vfC15CardOp struct {
	ENI    int  `json:"eni"`
	Prefer *int `json:"prefer"` // recorded card index (any integer), nil: auto
	Numa   *int `json:"numa"`   // hint as the caller passes it: nil or >= 0
	Detach bool `json:"detach"`
}

type vfC15CardScenario struct {
	Cards int           `json:"cards"`
	Ops   []vfC15CardOp `json:"ops"`
}

func vfC15GenCards(t *rapid.T) vfC15CardScenario {
	s := vfC15CardScenario{Cards: rapid.IntRange(0, 6).Draw(t, "cards")}
	wide := rapid.OneOf(rapid.IntRange(0, 3), rapid.IntRange(0, 70), rapid.SampledFrom([]int{2, 3, 4, 1 << 31, 1<<63 - 1}))
	for i, n := 0, rapid.IntRange(1, 8).Draw(t, "nops"); i < n; i++ {
		op := vfC15CardOp{ENI: rapid.IntRange(0, 4).Draw(t, "eni"), Detach: rapid.IntRange(0, 5).Draw(t, "detach") == 0}
		switch rapid.IntRange(0, 3).Draw(t, "mode") {
		case 0:
			v := rapid.OneOf(rapid.IntRange(-2, 8), rapid.SampledFrom([]int{-1 << 63, 1<<63 - 1})).Draw(t, "prefer")
			op.Prefer = &v
		case 1:
		default:
			v := wide.Draw(t, "numa")
			op.Numa = &v
		}
		s.Ops = append(s.Ops, op)
	}
	return s
}

func vfC15RunCards(c *vt.Ctx, s vfC15CardScenario) {
	n := NewNodeStatus(s.Cards)
	for _, op := range s.Ops {
		id := fmt.Sprintf("eni-%d", op.ENI)
		if op.Detach {
			n.DetachNetworkIndex(id)
			continue
		}
		if op.Numa != nil && *op.Numa >= 2 {
			c.Label("numa>=2")
			c.NonTrivial()
		}
		if op.Prefer != nil && (*op.Prefer < 0 || *op.Prefer >= s.Cards) {
			c.Label("prefer-out-of-range")
			c.NonTrivial()
		}
		idx := n.RequestNetworkIndex(id, op.Prefer, op.Numa)
		if idx == nil {
			c.Label("none")
			continue
		}
		c.Label("chosen")
		if *idx < 0 || *idx >= s.Cards {
			c.Fatalf("card index %d chosen on a node with %d cards", *idx, s.Cards)
		}
		if op.Numa != nil && op.Prefer == nil && *idx%2 != *op.Numa {
			c.Fatalf("card %d chosen for NUMA hint %d", *idx, *op.Numa)
		}
		if op.Prefer != nil && *idx != *op.Prefer {
			c.Fatalf("card %d chosen although %d was recorded", *idx, *op.Prefer)
		}
	}
}

func TestVerifC15CardSelection(t *testing.T) { vt.Run(t, vfC15GenCards, g.NoPanic(vfC15RunCards)) }
