package podnetworking

// C17 with the pod-networking controller as a further user of the control plane's ONE
// SwitchPool (cmd/terway-controlplane hands the same pool to the pod, node and
// pod-networking controllers). Histories interleave selections (GetOne, as the pod and
// node controllers call it), Block of a vSwitch whose create answered IpNotEnough,
// cloud changes, and "a PodNetworking listing ids [...] is created / edited / re-synced"
// run through the real ReconcilePodNetworking.Reconcile over a controller-runtime fake
// client. The oracle is the one of the pkg/vswitch history test: the cache's view of an
// id is the value at its first describe and 0 once reported exhausted; the pool is built
// with ttl 10m on the real clock, so nothing expires within a case and a blocked vSwitch
// must stay out for the rest of the history, whoever else looks it up.

import (
	"context"
	"fmt"
	"strconv"
	"strings"
	"sync"
	"testing"

	"github.com/aliyun/alibaba-cloud-sdk-go/services/vpc"
	metav1 "k8s.io/apimachinery/pkg/apis/meta/v1"
	"k8s.io/apimachinery/pkg/runtime"
	k8stypes "k8s.io/apimachinery/pkg/types"
	"k8s.io/client-go/tools/record"
	"pgregory.net/rapid"
	"sigs.k8s.io/controller-runtime/pkg/client/fake"
	"sigs.k8s.io/controller-runtime/pkg/reconcile"

	"github.com/AliyunContainerService/terway/pkg/apis/network.alibabacloud.com/v1beta1"
	"github.com/AliyunContainerService/terway/pkg/vswitch"
	"github.com/AliyunContainerService/terway/zz_verif/vt"
)

type c17nVSW struct {
	Zone int   `json:"zone"`
	Free int64 `json:"free"`
	Fail bool  `json:"fail,omitempty"`
}

type c17nOp struct {
	Kind string `json:"k"` // get | block | sync | free | fail

	// get
	Zone       int    `json:"zone,omitempty"`
	IDs        []int  `json:"ids,omitempty"` // get: candidates; sync: spec.vSwitchOptions (len(VSW) = unknown to the cloud)
	Policy     string `json:"policy,omitempty"`
	IgnoreZone bool   `json:"ignoreZone,omitempty"`

	UseLast bool  `json:"useLast,omitempty"` // block: the id the latest successful get returned
	ID      int   `json:"id,omitempty"`
	PN      int   `json:"pn,omitempty"` // sync: which PodNetworking object
	Same    bool  `json:"same,omitempty"` // sync: keep the object's current spec (a re-sync; retried if the last sync failed)
	Free    int64 `json:"free,omitempty"`
	Fail    bool  `json:"failNow,omitempty"`
}

type c17nScenario struct {
	VSW []c17nVSW `json:"vsw"`
	Ops []c17nOp  `json:"ops"`
}

func c17nID(i int) string   { return "vsw-" + strconv.Itoa(i) }
func c17nZone(z int) string { return "zone-" + strconv.Itoa(z) }
func c17nIdx(id string) (int, bool) {
	if !strings.HasPrefix(id, "vsw-") {
		return 0, false
	}
	n, err := strconv.Atoi(id[4:])
	return n, err == nil
}

var c17nFree = rapid.SampledFrom([]int64{7, 1, 250, 0, 2, 1 << 33})

func c17nGen(t *rapid.T) c17nScenario {
	s := c17nScenario{}
	n := rapid.SampledFrom([]int{3, 2, 4, 5, 6}).Draw(t, "nvsw")
	for i := 0; i < n; i++ {
		s.VSW = append(s.VSW, c17nVSW{
			Zone: rapid.SampledFrom([]int{0, 0, 0, 1, 0, 2}).Draw(t, "zone"),
			Free: c17nFree.Draw(t, "free"),
			Fail: rapid.IntRange(0, 14).Draw(t, "fail") == 0,
		})
	}
	idsGen := rapid.Custom(func(t *rapid.T) []int {
		ln := rapid.SampledFrom([]int{2, 3, 1, 4, 5}).Draw(t, "len")
		var l []int
		for i := 0; i < ln; i++ {
			if rapid.IntRange(0, 14).Draw(t, "unk") == 0 {
				l = append(l, n)
			} else {
				l = append(l, rapid.IntRange(0, n-1).Draw(t, "id"))
			}
		}
		return l
	})
	opGen := rapid.Custom(func(t *rapid.T) c17nOp {
		switch rapid.IntRange(0, 11).Draw(t, "kind") {
		case 0, 1, 2, 3, 4:
			return c17nOp{Kind: "get",
				Zone:       rapid.SampledFrom([]int{0, 0, 0, 1, 0, 2}).Draw(t, "zone"),
				IDs:        idsGen.Draw(t, "ids"),
				Policy:     rapid.SampledFrom([]string{"ordered", "most", "random", "ordered"}).Draw(t, "policy"),
				IgnoreZone: rapid.IntRange(0, 3).Draw(t, "iz") == 0}
		case 5, 6:
			return c17nOp{Kind: "block", UseLast: rapid.IntRange(0, 3).Draw(t, "uselast") != 0, ID: rapid.IntRange(0, n-1).Draw(t, "id")}
		case 7, 8, 9:
			return c17nOp{Kind: "sync", PN: rapid.IntRange(0, 1).Draw(t, "pn"), IDs: idsGen.Draw(t, "ids"), Same: rapid.IntRange(0, 3).Draw(t, "same") == 0}
		case 10:
			return c17nOp{Kind: "free", ID: rapid.IntRange(0, n-1).Draw(t, "id"), Free: c17nFree.Draw(t, "free")}
		default:
			return c17nOp{Kind: "fail", ID: rapid.IntRange(0, n-1).Draw(t, "id"), Fail: rapid.Bool().Draw(t, "fail")}
		}
	})
	s.Ops = rapid.SliceOfN(opGen, 2, vt.Scale(12, 24)).Draw(t, "ops")
	return s
}

type c17nCloud struct {
	mu    sync.Mutex
	vsw   []c17nVSW
	calls []int // ids successfully described, in order
}

func (c *c17nCloud) DescribeVSwitchByID(_ context.Context, id string) (*vpc.VSwitch, error) {
	if id == "" {
		// the id is only a filter of DescribeVSwitches (pkg/aliyun/client/vsw_default.go):
		// without a filter the first vSwitch of the account comes back - a foreign one
		return &vpc.VSwitch{VSwitchId: "vsw-foreign", ZoneId: c17nZone(0), AvailableIpAddressCount: 4000, CidrBlock: "172.16.0.0/16"}, nil
	}
	c.mu.Lock()
	defer c.mu.Unlock()
	i, ok := c17nIdx(id)
	if !ok || i < 0 || i >= len(c.vsw) {
		return nil, fmt.Errorf("InvalidVSwitchId.NotFound %s", id)
	}
	v := c.vsw[i]
	if v.Fail {
		return nil, fmt.Errorf("Throttling %s", id)
	}
	c.calls = append(c.calls, i)
	return &vpc.VSwitch{VSwitchId: id, ZoneId: c17nZone(v.Zone), AvailableIpAddressCount: v.Free,
		CidrBlock: fmt.Sprintf("10.%d.0.0/16", i)}, nil
}

type c17nView struct {
	ok      bool
	zone    int
	free    int64
	blocked bool
}

func c17nRun(c *vt.Ctx, s c17nScenario) {
	if len(s.VSW) == 0 {
		return
	}
	n := len(s.VSW)
	ctx := context.Background()
	cloud := &c17nCloud{vsw: append([]c17nVSW(nil), s.VSW...)}
	// one pool for the whole control plane; ttl 10m of real time: nothing expires in a case
	pool, err := vswitch.NewSwitchPool(100, "10m")
	if err != nil {
		c.Inconclusive("switch pool")
	}
	scheme := runtime.NewScheme()
	if err := v1beta1.AddToScheme(scheme); err != nil {
		c.Inconclusive("scheme")
	}
	kube := fake.NewClientBuilder().WithScheme(scheme).WithStatusSubresource(&v1beta1.PodNetworking{}).Build()
	rec := &ReconcilePodNetworking{client: kube, aliyunClient: cloud, swPool: pool, record: &c17nRecorder{}}

	cached := make([]*c17nView, n) // reference view of the cache
	// absorb what was described since `from`: an id without entry gets the cloud's value;
	// a re-described entry that is not blocked is refreshed; a blocked entry stays blocked
	// until it expires (which does not happen within a case)
	absorb := func(from int) map[int]bool {
		cloud.mu.Lock()
		defer cloud.mu.Unlock()
		described := map[int]bool{}
		for _, id := range cloud.calls[from:] {
			described[id] = true
			if cached[id] != nil {
				c.Label("described-while-cached")
				if cached[id].blocked {
					c.Label("blocked-entry-described-again")
					continue
				}
			}
			v := cloud.vsw[id]
			cached[id] = &c17nView{ok: true, zone: v.Zone, free: v.Free}
		}
		return described
	}
	ncalls := func() int {
		cloud.mu.Lock()
		defer cloud.mu.Unlock()
		return len(cloud.calls)
	}
	last := -1
	syncs, blocks := 0, 0

	for step, op := range s.Ops {
		switch op.Kind {
		case "free":
			id := op.ID % n
			cloud.mu.Lock()
			cloud.vsw[id].Free = op.Free
			cloud.mu.Unlock()
			c.Trace("#%d cloud: %s free=%d", step, c17nID(id), op.Free)
		case "fail":
			id := op.ID % n
			cloud.mu.Lock()
			cloud.vsw[id].Fail = op.Fail
			cloud.mu.Unlock()
			c.Trace("#%d cloud: describe of %s fails=%v", step, c17nID(id), op.Fail)
		case "block":
			id := op.ID % n
			if op.UseLast && last >= 0 {
				id = last
			}
			pool.Block(c17nID(id))
			if cached[id] != nil {
				cached[id] = &c17nView{ok: true, zone: cached[id].zone, free: 0, blocked: true}
				blocks++
				c.Label("block:cached")
				c.Trace("#%d Block(%s): reported exhausted", step, c17nID(id))
			} else {
				c.Label("block:not-cached")
				c.Trace("#%d Block(%s): no entry, no effect", step, c17nID(id))
			}
		case "sync":
			if len(op.IDs) == 0 {
				continue
			}
			name := "pn-" + strconv.Itoa(op.PN)
			var ids []string
			for _, id := range op.IDs {
				ids = append(ids, c17nID(id))
			}
			cur := &v1beta1.PodNetworking{}
			verb := "edited"
			if err := kube.Get(ctx, k8stypes.NamespacedName{Name: name}, cur); err != nil {
				verb = "created"
				cur = &v1beta1.PodNetworking{ObjectMeta: metav1.ObjectMeta{Name: name},
					Spec: v1beta1.PodNetworkingSpec{VSwitchOptions: ids, SecurityGroupIDs: []string{"sg-1"}}}
				if err := kube.Create(ctx, cur); err != nil {
					c.Inconclusive("fake client create: " + err.Error())
				}
			} else {
				if op.Same {
					ids = append([]string(nil), cur.Spec.VSwitchOptions...)
				}
				if strings.Join(cur.Spec.VSwitchOptions, ",") == strings.Join(ids, ",") {
					verb = "re-synced"
				}
				cur.Spec.VSwitchOptions = ids
				if err := kube.Update(ctx, cur); err != nil {
					c.Inconclusive("fake client update: " + err.Error())
				}
			}
			from := ncalls()
			_, rerr := rec.Reconcile(ctx, reconcile.Request{NamespacedName: k8stypes.NamespacedName{Name: name}})
			described := absorb(from)
			got := &v1beta1.PodNetworking{}
			_ = kube.Get(ctx, k8stypes.NamespacedName{Name: name}, got)
			c.Trace("#%d PodNetworking %s %s with %v and reconciled -> status %q err=%v (described %d ids)", step, name, verb, ids, got.Status.Status, rerr, len(described))
			syncs++
			c.Label("sync:" + verb)
			touchesBlocked := false
			for _, sid := range ids {
				if id, ok := c17nIdx(sid); ok && id < n && cached[id] != nil && cached[id].blocked {
					touchesBlocked = true
				}
			}
			if touchesBlocked {
				c.Label("sync-lists-blocked-vswitch")
				c.NonTrivial()
			}
		case "get":
			if len(op.IDs) == 0 {
				continue
			}
			var ids []string
			for _, id := range op.IDs {
				ids = append(ids, c17nID(id))
			}
			pristine := append([]string(nil), ids...)
			from := ncalls()
			got, gerr := pool.GetOne(ctx, cloud, c17nZone(op.Zone), ids, &vswitch.SelectOptions{
				IgnoreZone: op.IgnoreZone, VSwitchSelectPolicy: vswitch.SelectionPolicy(op.Policy)})
			// views before absorbing: a live entry counts unless it was described again
			cloud.mu.Lock()
			describedNow := map[int]bool{}
			for _, id := range cloud.calls[from:] {
				describedNow[id] = true
			}
			views := make([]c17nView, len(op.IDs))
			for k, id := range op.IDs {
				if id >= n {
					continue
				}
				switch {
				case cached[id] != nil && cached[id].blocked:
					views[k] = *cached[id]
				case cached[id] != nil && !describedNow[id]:
					views[k] = *cached[id]
				default:
					if v := cloud.vsw[id]; !v.Fail {
						views[k] = c17nView{ok: true, zone: v.Zone, free: v.Free}
					}
				}
			}
			cloud.mu.Unlock()
			absorb(from)
			gotStr := "<nil>"
			if got != nil {
				gotStr = fmt.Sprintf("{%s %s free=%d}", got.ID, got.Zone, got.AvailableIPCount)
			}
			c.Trace("#%d GetOne(zone=%s ids=%v policy=%s ignoreZone=%v) -> %s err=%v", step, c17nZone(op.Zone), pristine, op.Policy, op.IgnoreZone, gotStr, gerr != nil)
			desc := fmt.Sprintf("step %d: GetOne(zone=%s, ids=%v, policy=%s, ignoreZone=%v)", step, c17nZone(op.Zone), pristine, op.Policy, op.IgnoreZone)

			elig := func(inZone bool) (pos []int) {
				for k := range op.IDs {
					if v := views[k]; v.ok && v.free > 0 && (v.zone == op.Zone) == inZone {
						pos = append(pos, k)
					}
				}
				return
			}
			poolPos := elig(true)
			fallback := false
			if len(poolPos) == 0 && op.IgnoreZone {
				poolPos = elig(false)
				fallback = len(poolPos) > 0
			}
			if len(poolPos) == 0 {
				if gerr == nil || got != nil {
					why := ""
					if got != nil {
						if gi, ok := c17nIdx(got.ID); ok && gi < n && cached[gi] != nil && cached[gi].blocked {
							why = fmt.Sprintf(": %s was reported exhausted and its cache entry has not expired", got.ID)
						}
					}
					c.Fatalf("%s: no eligible candidate but it returned %s%s", desc, gotStr, why)
				}
				c.Label("result:error")
				last = -1
			} else {
				if gerr != nil || got == nil {
					c.Fatalf("%s: eligible candidates exist (positions %v) but it failed: %v", desc, poolPos, gerr)
				}
				gi, ok := c17nIdx(got.ID)
				pos := -1
				for _, k := range poolPos {
					if ok && op.IDs[k] == gi {
						pos = k
						break
					}
				}
				if pos < 0 {
					why := "is not eligible"
					if ok && gi < n && cached[gi] != nil && cached[gi].blocked {
						why = "was reported exhausted and its cache entry has not expired"
					}
					c.Fatalf("%s returned %s which %s (eligible positions %v)", desc, gotStr, why, poolPos)
				}
				switch op.Policy {
				case "ordered":
					if first := poolPos[0]; op.IDs[first] != gi {
						c.Fatalf("%s (ordered) returned %s, the first eligible candidate is %s", desc, got.ID, c17nID(op.IDs[first]))
					}
				case "most":
					var mx int64
					for _, k := range poolPos {
						if views[k].free > mx {
							mx = views[k].free
						}
					}
					if views[pos].free != mx {
						c.Fatalf("%s (most) returned %s with %d free, an eligible candidate has %d", desc, got.ID, views[pos].free, mx)
					}
				}
				c.Label("result:ok")
				last = gi
				if fallback {
					c.Label("zone-fallback")
				}
			}
			if strings.Join(ids, ",") != strings.Join(pristine, ",") {
				c.Fatalf("%s modified the caller's candidate slice: %v, was %v", desc, ids, pristine)
			}
			for k, id := range op.IDs {
				if id < n && views[k].blocked && syncs > 0 {
					c.Label("get-with-blocked-candidate-after-sync")
					c.NonTrivial()
				}
			}
		}
	}
	if blocks > 0 && syncs > 0 {
		c.Label("history:block+sync")
	}
}

// c17nRecorder drops events (record.FakeRecorder blocks when its buffer is full).
type c17nRecorder struct{}

var _ record.EventRecorder = &c17nRecorder{}

func (*c17nRecorder) Event(runtime.Object, string, string, string)                    {}
func (*c17nRecorder) Eventf(runtime.Object, string, string, string, ...interface{})   {}
func (*c17nRecorder) AnnotatedEventf(runtime.Object, map[string]string, string, string, string, ...interface{}) {
}

func TestVerifC17PodNetworking(t *testing.T) { vt.Run(t, c17nGen, c17nRun) }
