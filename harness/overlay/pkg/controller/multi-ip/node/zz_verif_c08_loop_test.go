package node

import (
	"testing"

	"github.com/AliyunContainerService/terway/zz_verif/vt"
)

// TestVerifC08Loop: generated histories with cloud / API-server fault plans over the
// closed loop; quota monitors on every cloud call, then convergence, band, record == cloud
// and no-orphan at the fixed point of a healthy settle phase.
func TestVerifC08Loop(t *testing.T) { vt.Run(t, c02GenLoop("C08"), c02RunLoop) }
