package node

// Deterministic witnesses of the open findings of C08 listed in known_findings.json (the
// six findings of C02/C08 that were repaired in /repo have no witness any more; the
// generated histories cover their classes without any guard). Each witness
// runs one fixed scenario with the guard of its finding switched off and prints the
// KNOWN-FINDING line while the scenario still violates the property. A witness never fails
// the test (the finding is recorded, not re-alarmed).

import (
	"encoding/json"
	"fmt"
	"testing"

	"github.com/AliyunContainerService/terway/zz_verif/vt"
)

// c02Listed: the finding is listed as open.
func c02Listed(id string) bool {
	save := c02GuardOff
	c02GuardOff = ""
	defer func() { c02GuardOff = save }()
	return c08Known(id)
}

func c02Witness(t *testing.T, property, id, what, scenario string) {
	if !c02Listed(id) {
		t.Logf("finding %s is not listed as open; witness not run", id)
		return
	}
	var s c02Scenario
	if err := json.Unmarshal([]byte(scenario), &s); err != nil {
		t.Fatalf("witness scenario: %v", err)
	}
	c02GuardOff = id
	defer func() { c02GuardOff = "" }()
	for i := 0; i < 4; i++ { // vSwitch policy "random" and map order may need a retry
		msg := ""
		func() {
			defer func() { _ = recover() }()
			c02RunLoopW(&vt.Ctx{}, s, &msg)
		}()
		if msg != "" {
			vt.KnownFindingLine(property, fmt.Sprintf("id=%s %s", id, what))
			t.Logf("witness still fails: %s", msg)
			return
		}
	}
	t.Logf("witness for %s no longer fails", id)
}

func TestVerifC08KnownDoubleFaultOrphan(t *testing.T) {
	c02Witness(t, "C08", "C08-double-fault-orphan",
		"interface created, attach fails, rollback delete fails and the status write fails: the unattached interface is neither deleted nor recorded, the following full sync lists attached interfaces only",
		`{"mode":"C08","node":{"v4":true,"adapters":3,"v4_per":4,"v6_per":4,"min":0,"max":2,"vsw":[{"free":500}],"policy":"ordered"},"slots":[{},{},{}],
		  "ops":[{"kind":"reconcile","b":1},{"kind":"episode","a":0,"b":1,"c":1,"api":"statuserr","faults":[{"kind":"attach","mode":"before","code":"Throttling"},{"kind":"delete","mode":"before","code":"Throttling"}]}]}`)
}

func TestVerifC08KnownGreedyDemand(t *testing.T) {
	c02Witness(t, "C08", "C08-greedy-demand-oscillation",
		"assignEniWithOptions subtracts idle addresses interface by interface while splitting the demand: min = max = 2, eni A (3 addresses, one idle) and eni B (idle primary, its other address bound) hold the 2 idle addresses wanted, yet every pass assigns one more address to A and adjustPool releases one from A again (B's idle primary cannot be released) - no fixed point",
		`{"mode":"C08","node":{"v4":true,"adapters":4,"v4_per":4,"v6_per":4,"min":2,"max":2,"vsw":[{"free":500}],"policy":"ordered","synced":true},
		  "pre":[{"type":"secondary","n4":3,"n6":0,"rec":"exact","binds":[{"i4":0,"i6":0,"slot":0,"rec":"full","alive":true,"reports":"both"},{"i4":1,"i6":0,"slot":2,"rec":"full","alive":true,"reports":"both"}]},
		         {"type":"secondary","n4":2,"n6":0,"rec":"exact","binds":[{"i4":1,"i6":0,"slot":1,"rec":"full","alive":true,"reports":"both"}]}],
		  "slots":[{},{},{}],"ops":[{"kind":"reconcile","b":1}]}`)
}

func TestVerifC08KnownRDMAIdle(t *testing.T) {
	c02Witness(t, "C08", "C08-rdma-idle-oscillation",
		"idle addresses on an RDMA interface count against pool max in adjustPool but not towards pool min in addIP: the normal pool is topped up and trimmed again every pass",
		`{"mode":"C08","node":{"v4":true,"adapters":4,"v4_per":5,"v6_per":5,"erdma":true,"min":2,"max":2,"vsw":[{"free":500}],"policy":"ordered","synced":true},
		  "pre":[{"type":"erdma","n4":3,"n6":0,"rec":"exact"}],"slots":[{},{},{}],"ops":[{"kind":"create","a":0},{"kind":"reconcile","b":1}]}`)
}

func TestVerifC08KnownDualStackImbalance(t *testing.T) {
	c02Witness(t, "C08", "C08-dual-stack-imbalance",
		"dual stack: demand, idle count (IPv4 only) and surplus are computed per family while pods need both families on one interface; with unequal idle IPv4/IPv6 counts on an interface the controller tops IPv6 up to pool min and releases it again every pass (or leaves a pod unserved although capacity is spare)",
		`{"mode":"C08","node":{"v4":true,"v6":true,"adapters":4,"v4_per":11,"v6_per":11,"trunk":true,"erdma":true,"min":1,"max":1,"vsw":[{"free":500},{"free":500},{"free":500}],"policy":"random","tag_filter":true,"detach_polls":3},
		  "pre":[{"type":"secondary","n4":11,"n6":11,"rec":"exact","binds":[{"i4":17,"i6":2,"slot":2,"rec":"full","alive":true,"reports":"both"}]}],
		  "slots":[{"erdma":true},{"pod_eni":true},{},{"host_net":true},{},{},{"pod_eni":true},{}],
		  "ops":[{"kind":"reconcile","b":1},{"kind":"delete","a":7},{"kind":"create","a":3},{"kind":"create","a":4},
		         {"kind":"episode","a":2,"b":8,"c":2,"faults":[{"kind":"describe","mode":"before","code":"InvalidOperation.Ipv6CountExceeded"},{"kind":"create","mode":"after","code":"QuotaExceeded.PrivateIpAddress"}]}]}`)
}

func TestVerifC08KnownSyncDropsDetachedENI(t *testing.T) {
	c02Witness(t, "C08", "C08-sync-drops-detached-eni",
		"an interface recorded as Deleting after a failed attach and a failed rollback delete is dropped from the record by the next full sync without being deleted (the by-id query is also filtered by instance id, a detached interface has none; non-secondary kinds are dropped unconditionally): it leaks",
		`{"mode":"C08","node":{"v4":true,"adapters":2,"v4_per":1,"v6_per":1,"min":0,"max":2,"vsw":[{"free":500}],"policy":"ordered"},"slots":[{},{},{}],
		  "ops":[{"kind":"reconcile","b":1},{"kind":"episode","a":0,"b":1,"c":1,"faults":[{"kind":"attach","mode":"before","code":"EniPerInstanceLimitExceeded"},{"kind":"delete","mode":"before","code":"Throttling"}]}]}`)
}

func TestVerifC08KnownEFLOPartialKeyCollision(t *testing.T) {
	c02Witness(t, "C08", "C08-eflo-partial-key-collision",
		"EFLO: an address that was created but did not become available is recorded under the empty address key; a second one finds that key taken and is forgotten, the controller then requests beyond the per-interface limit",
		`{"mode":"C08","node":{"v4":true,"eflo":true,"adapters":2,"v4_per":3,"v6_per":3,"min":0,"max":0,"vsw":[{"free":500}],"policy":"ordered","synced":true},"slots":[{},{},{},{}],
		  "ops":[{"kind":"create","a":0},{"kind":"episode","a":1,"b":3,"c":3,"faults":[{"kind":"assign4","mode":"partial","code":"1013"},{"kind":"assign4","mode":"partial","code":"1013"}]},{"kind":"burst","a":0,"b":2}]}`)
}

func TestVerifC08KnownExhaustedVSwitchHidesIdle(t *testing.T) {
	c02Witness(t, "C08", "C08-exhausted-vswitch-hides-idle",
		"validateENI filters an interface out when the vSwitch cache says its vSwitch has no address left, and assignEniWithOptions then does not count the idle addresses it holds: min = max = 1, the only interface (2 pods + 1 idle address) used up vSwitch vsw-0, a second vSwitch has room - every pass creates a new interface for the 'missing' idle address and adjustPool releases it again",
		`{"mode":"C08","node":{"v4":true,"adapters":4,"v4_per":3,"v6_per":3,"min":1,"max":1,"vsw":[{"free":3},{"free":500}],"policy":"ordered","synced":true},
		  "slots":[{},{},{}],"ops":[{"kind":"burst","a":0,"b":2}]}`)
}
