package node

// Deterministic witnesses of the candidate / listed findings of C02 and C08. Each witness
// runs one fixed scenario with the guard of its finding switched off and prints the
// KNOWN-FINDING line while the scenario still violates the property. A witness never fails
// the test (the finding is recorded, not re-alarmed).

import (
	"encoding/json"
	"fmt"
	"testing"

	"github.com/AliyunContainerService/terway/zz_verif/vt"
)

type c02WitnessCtx struct {
	msg string
}

type c02WitnessFail struct{}

func (c *c02WitnessCtx) Fatalf(f string, a ...any) {
	c.msg = fmt.Sprintf(f, a...)
	panic(c02WitnessFail{})
}
func (c *c02WitnessCtx) Label(string) {}
func (c *c02WitnessCtx) NonTrivial()  {}

// c02Listed: the finding is listed as open (or pending listing, see c08Known).
func c02Listed(id string) bool {
	save := c02GuardOff
	c02GuardOff = ""
	defer func() { c02GuardOff = save }()
	return c08Known(id)
}

func c02Witness(t *testing.T, property, id, what, scenario string) {
	if !c02Listed(id) {
		t.Logf("finding %s is not listed as open; witness not run", id)
		return
	}
	var s c02Scenario
	if err := json.Unmarshal([]byte(scenario), &s); err != nil {
		t.Fatalf("witness scenario: %v", err)
	}
	c02GuardOff = id
	defer func() { c02GuardOff = "" }()
	for i := 0; i < 4; i++ { // vSwitch policy "random" and map order may need a retry
		msg := ""
		func() {
			defer func() { _ = recover() }()
			c02RunLoopW(&vt.Ctx{}, s, &msg)
		}()
		if msg != "" {
			vt.KnownFindingLine(property, fmt.Sprintf("id=%s %s", id, what))
			t.Logf("witness still fails: %s", msg)
			return
		}
	}
	t.Logf("witness for %s no longer fails", id)
}

func TestVerifC02KnownV4NotOnV6ENI(t *testing.T) {
	const id = "C02-v4-not-on-v6-eni"
	if !c02Listed(id) {
		t.Logf("finding %s is not listed as open; witness not run", id)
		return
	}
	// dual stack; pod p0 exists, reports nothing, and is bound to an IPv6 address of eni-0
	// only; eni-0 has no idle IPv4 address (its primary is held by p1), eni-1 has
	s := c02FnScenario{V4: true, V6: true,
		ENIs: []c02FnENI{{Status: "InUse", N4: 2, N6: 2, Del4: []int{1}}, {Status: "InUse", N4: 2, N6: 0}},
		Pods: []c02FnPod{{Exists: true, ENI: 0, I4: 0, I6: 0, Rec: "full", Reports: "both"}, {Exists: true, ENI: 0, I4: 1, I6: 1, Rec: "v6only", Reports: "none"}},
	}
	c02GuardOff = id
	defer func() { c02GuardOff = "" }()
	c := &c02WitnessCtx{}
	func() {
		defer func() { _ = recover() }()
		c02FnRunW(c, s)
	}()
	if c.msg != "" {
		vt.KnownFindingLine("C02", "id="+id+" assignIPFromLocalPool picks the IPv4 address of a pod that already holds an IPv6 binding from any interface: the pod ends up with IPv4 and IPv6 on different interfaces")
		t.Logf("witness still fails: %s", c.msg)
		return
	}
	t.Logf("witness for %s no longer fails", id)
}

func TestVerifC08KnownDoubleFaultOrphan(t *testing.T) {
	c02Witness(t, "C08", "C08-double-fault-orphan",
		"interface created, attach fails, rollback delete fails and the status write fails: the unattached interface is neither deleted nor recorded, the following full sync lists attached interfaces only",
		`{"mode":"C08","node":{"v4":true,"adapters":3,"v4_per":4,"v6_per":4,"min":0,"max":2,"vsw":[{"free":500}],"policy":"ordered"},"slots":[{},{},{}],
		  "ops":[{"kind":"reconcile","b":1},{"kind":"episode","a":0,"b":1,"c":1,"api":"statuserr","faults":[{"kind":"attach","mode":"before","code":"Throttling"},{"kind":"delete","mode":"before","code":"Throttling"}]}]}`)
}

func TestVerifC08KnownIdleENIKept(t *testing.T) {
	c02Witness(t, "C08", "C08-idle-eni-kept",
		"a wholly idle secondary interface holding exactly as many addresses as the surplus (idle - max) is never released (releaseUnUsedIP: len < toDel): pool max 0, one pod created and gone, the interface with its idle primary address stays",
		`{"mode":"C08","node":{"v4":true,"adapters":3,"v4_per":4,"v6_per":4,"min":0,"max":0,"vsw":[{"free":500}],"policy":"ordered"},"slots":[{},{},{}],
		  "ops":[{"kind":"create","a":0},{"kind":"reconcile","b":2},{"kind":"delete","a":0},{"kind":"reportdeleted","a":0},{"kind":"reconcile","b":2}]}`)
}

func TestVerifC08KnownGreedyDemand(t *testing.T) {
	c02Witness(t, "C08", "C08-greedy-demand-oscillation",
		"assignEniWithOptions subtracts idle addresses interface by interface while splitting the demand: min = max = 2, eni A (3 addresses, one idle) and eni B (idle primary, its other address bound) hold the 2 idle addresses wanted, yet every pass assigns one more address to A and adjustPool releases one from A again (B's idle primary cannot be released) - no fixed point",
		`{"mode":"C08","node":{"v4":true,"adapters":4,"v4_per":4,"v6_per":4,"min":2,"max":2,"vsw":[{"free":500}],"policy":"ordered","synced":true},
		  "pre":[{"type":"secondary","n4":3,"n6":0,"rec":"exact","binds":[{"i4":0,"i6":0,"slot":0,"rec":"full","alive":true,"reports":"both"},{"i4":1,"i6":0,"slot":2,"rec":"full","alive":true,"reports":"both"}]},
		         {"type":"secondary","n4":2,"n6":0,"rec":"exact","binds":[{"i4":1,"i6":0,"slot":1,"rec":"full","alive":true,"reports":"both"}]}],
		  "slots":[{},{},{}],"ops":[{"kind":"reconcile","b":1}]}`)
}

func TestVerifC08KnownRDMAIdle(t *testing.T) {
	c02Witness(t, "C08", "C08-rdma-idle-oscillation",
		"idle addresses on an RDMA interface count against pool max in adjustPool but not towards pool min in addIP: the normal pool is topped up and trimmed again every pass",
		`{"mode":"C08","node":{"v4":true,"adapters":4,"v4_per":5,"v6_per":5,"erdma":true,"min":2,"max":2,"vsw":[{"free":500}],"policy":"ordered","synced":true},
		  "pre":[{"type":"erdma","n4":3,"n6":0,"rec":"exact"}],"slots":[{},{},{}],"ops":[{"kind":"create","a":0},{"kind":"reconcile","b":1}]}`)
}

func TestVerifC08KnownDualStackImbalance(t *testing.T) {
	c02Witness(t, "C08", "C08-dual-stack-imbalance",
		"dual stack: demand, idle count (IPv4 only) and surplus are computed per family while pods need both families on one interface; with unequal idle IPv4/IPv6 counts on an interface the controller tops IPv6 up to pool min and releases it again every pass (or leaves a pod unserved although capacity is spare)",
		`{"mode":"C08","node":{"v4":true,"v6":true,"adapters":4,"v4_per":11,"v6_per":11,"trunk":true,"erdma":true,"min":1,"max":1,"vsw":[{"free":500},{"free":500},{"free":500}],"policy":"random","tag_filter":true,"detach_polls":3},
		  "pre":[{"type":"secondary","n4":11,"n6":11,"rec":"exact","binds":[{"i4":17,"i6":2,"slot":2,"rec":"full","alive":true,"reports":"both"}]}],
		  "slots":[{"erdma":true},{"pod_eni":true},{},{"host_net":true},{},{},{"pod_eni":true},{}],
		  "ops":[{"kind":"reconcile","b":1},{"kind":"delete","a":7},{"kind":"create","a":3},{"kind":"create","a":4},
		         {"kind":"episode","a":2,"b":8,"c":2,"faults":[{"kind":"describe","mode":"before","code":"InvalidOperation.Ipv6CountExceeded"},{"kind":"create","mode":"after","code":"QuotaExceeded.PrivateIpAddress"}]}]}`)
}

func TestVerifC08KnownLostWrite(t *testing.T) {
	c02Witness(t, "C08", "C08-lost-write-no-resync",
		"two consecutive status-update conflicts: the second failed write loses the result of the full sync the first one triggered (syncWithAPI clears NeedSyncOpenAPI, StatusChanged is already false), the controller forgets an interface it was told about and requests another one beyond the flavor",
		`{"mode":"C08","node":{"v4":true,"adapters":2,"v4_per":1,"v6_per":1,"trunk":true,"min":0,"max":0,"vsw":[{"free":500}],"policy":"ordered","synced":true},"slots":[{"host_net":true},{"host_net":true},{"host_net":true}],
		  "ops":[{"kind":"apifault","b":2,"api":"conflict"},{"kind":"reconcile","b":3}]}`)
}

func TestVerifC08KnownRollbackRecordLacksMode(t *testing.T) {
	c02Witness(t, "C08", "C08-rollback-record-lacks-mode",
		"createENI records a created-but-unusable interface as Deleting with the traffic mode of the create answer, which is empty on ECS: getEniOptions does not count it against its kind and a second interface of that kind (here: trunk) is requested while the first still exists",
		`{"mode":"C08","node":{"v4":true,"adapters":3,"v4_per":1,"v6_per":1,"trunk":true,"erdma":true,"min":0,"max":0,"vsw":[{"free":500}],"policy":"ordered","attach_polls":9,"synced":true},"slots":[{"host_net":true},{"host_net":true},{"host_net":true}],
		  "ops":[{"kind":"reconcile","b":2}]}`)
}

func TestVerifC08KnownSyncMergeNilMap(t *testing.T) {
	c02Witness(t, "C08", "C08-sync-merge-nil-map",
		"mergeIPMap adds remote addresses to a local copy of a nil map: an interface recorded without IPv6 addresses never learns the IPv6 addresses the cloud holds (here after an AssignIpv6Addresses call that took effect but timed out), record and cloud disagree after every full sync and the controller keeps requesting beyond the limit",
		`{"mode":"C08","node":{"v6":true,"adapters":2,"v4_per":1,"v6_per":1,"min":0,"max":0,"vsw":[{"free":500}],"policy":"ordered","synced":true},
		  "pre":[{"type":"secondary","n4":1,"n6":0,"rec":"exact"}],"slots":[{},{},{}],
		  "ops":[{"kind":"episode","a":0,"b":1,"c":2,"faults":[{"kind":"assign6","mode":"after","code":"Throttling"}]}]}`)
}

func TestVerifC08KnownSyncDropsDetachedENI(t *testing.T) {
	c02Witness(t, "C08", "C08-sync-drops-detached-eni",
		"an interface recorded as Deleting after a failed attach and a failed rollback delete is dropped from the record by the next full sync without being deleted (the by-id query is also filtered by instance id, a detached interface has none; non-secondary kinds are dropped unconditionally): it leaks",
		`{"mode":"C08","node":{"v4":true,"adapters":2,"v4_per":1,"v6_per":1,"min":0,"max":2,"vsw":[{"free":500}],"policy":"ordered"},"slots":[{},{},{}],
		  "ops":[{"kind":"reconcile","b":1},{"kind":"episode","a":0,"b":1,"c":1,"faults":[{"kind":"attach","mode":"before","code":"EniPerInstanceLimitExceeded"},{"kind":"delete","mode":"before","code":"Throttling"}]}]}`)
}

func TestVerifC08KnownEFLOPartialKeyCollision(t *testing.T) {
	c02Witness(t, "C08", "C08-eflo-partial-key-collision",
		"EFLO: an address that was created but did not become available is recorded under the empty address key; a second one finds that key taken and is forgotten, the controller then requests beyond the per-interface limit",
		`{"mode":"C08","node":{"v4":true,"eflo":true,"adapters":2,"v4_per":3,"v6_per":3,"min":0,"max":0,"vsw":[{"free":500}],"policy":"ordered","synced":true},"slots":[{},{},{},{}],
		  "ops":[{"kind":"create","a":0},{"kind":"episode","a":1,"b":3,"c":3,"faults":[{"kind":"assign4","mode":"partial","code":"1013"},{"kind":"assign4","mode":"partial","code":"1013"}]},{"kind":"burst","a":0,"b":2}]}`)
}

func TestVerifC08KnownNegativeSlotCount(t *testing.T) {
	c02Witness(t, "C08", "C08-negative-slot-count",
		"getEniOptions: when the node holds more interfaces of one kind than the flavor admits (here two trunk interfaces after C08-rollback-record-lacks-mode) the negative remainder is subtracted from the free-slot count, i.e. added to it, and yet another interface is requested beyond the flavor",
		`{"mode":"C08","node":{"v4":true,"adapters":5,"v4_per":1,"v6_per":1,"trunk":true,"sec_cut":1,"min":0,"max":0,"vsw":[{"free":3}],"policy":"ordered","tag_filter":true,"attach_polls":9,"cloud_eni_cut":1,"synced":true},
		  "slots":[{"host_net":true},{"host_net":true},{"host_net":true}],"ops":[{"kind":"reconcile","b":1},{"kind":"fullsync"}]}`)
}

func TestVerifC02KnownRollbackUnbindsExistingV4(t *testing.T) {
	c02Witness(t, "C02", "C02-rollback-unbinds-existing-v4",
		"dual stack: the branch 'no IPv6 address found, roll back IPv4' of assignIPFromLocalPool also clears an IPv4 binding that existed before the pass when the pod has not reported it yet; the address is handed to another pod in the same pass while the first pod still exists",
		`{"mode":"C02","node":{"v4":true,"v6":true,"adapters":4,"v4_per":3,"v6_per":3,"trunk":true,"erdma":true,"min":1,"max":2,"vsw":[{"free":500},{"free":0,"other_zone":true},{"free":3}],"policy":"ordered"},
		  "pre":[{"type":"trunk","n4":3,"n6":0,"rec":"exact","binds":[{"i4":18,"i6":11,"slot":3,"rec":"full","alive":false,"reports":"both"}]},
		         {"type":"erdma","n4":4,"n6":2,"rec":"exact","del":[4,7],"binds":[{"i4":3,"i6":10,"slot":1,"rec":"full","alive":true,"reports":"both"}]}],
		  "slots":[{},{},{"erdma":true},{}],"ops":[{"kind":"reconcile","b":2},{"kind":"burst","a":3,"b":3}]}`)
}
