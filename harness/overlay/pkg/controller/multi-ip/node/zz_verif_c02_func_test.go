package node

// C02, function level: buildIPMap / releasePodNotFound / assignIPFromLocalPool on generated
// Node CR status records (including partially bound records "taken over" from a previous
// version: PodID without PodUID, one family bound only, bindings on interfaces that are
// not InUse, Deleting addresses, primary addresses) and generated pod tables. The same
// record invariants as in the closed loop are checked on the outcome.

import (
	"context"
	"fmt"
	"testing"
	"time"

	"github.com/go-logr/logr"
	metav1 "k8s.io/apimachinery/pkg/apis/meta/v1"
	"pgregory.net/rapid"
	"sigs.k8s.io/controller-runtime/pkg/client/fake"

	aliyunClient "github.com/AliyunContainerService/terway/pkg/aliyun/client"
	networkv1beta1 "github.com/AliyunContainerService/terway/pkg/apis/network.alibabacloud.com/v1beta1"
	"github.com/AliyunContainerService/terway/types"
	"github.com/AliyunContainerService/terway/zz_verif/vt"
)

type c02FnENI struct {
	Status string `json:"status"`
	RDMA   bool   `json:"rdma,omitempty"`
	Trunk  bool   `json:"trunk,omitempty"`
	N4     int    `json:"n4"`
	N6     int    `json:"n6"`
	Del4   []int  `json:"del4,omitempty"` // address indexes with status Deleting
	Del6   []int  `json:"del6,omitempty"`
}

type c02FnPod struct {
	Exists  bool   `json:"exists"`
	RDMA    bool   `json:"rdma,omitempty"`
	ENI     int    `json:"eni"` // interface its relation (binding and/or report) points at
	I4      int    `json:"i4"`  // address indexes on that interface
	I6      int    `json:"i6"`
	Rec     string `json:"rec"`     // none | full | nouid | v4only | v6only
	Reports string `json:"reports"` // none | both | v4 | v6 | gone (reports addresses the record does not have)
	Deleted bool   `json:"deleted"` // the daemon has reported the sandbox deleted
}

type c02FnScenario struct {
	V4      bool       `json:"v4"`
	V6      bool       `json:"v6"`
	ERDMA   bool       `json:"erdma,omitempty"`
	ENIs    []c02FnENI `json:"enis"`
	Pods    []c02FnPod `json:"pods"`
	Release bool       `json:"release"` // run releasePodNotFound before assigning
	Twice   bool       `json:"twice"`   // run index rebuild + assignment a second time (syncPods does)
}

func c02FnGen(t *rapid.T) c02FnScenario {
	s := c02FnScenario{}
	switch st := rapid.IntRange(0, 9).Draw(t, "stack"); {
	case st < 4:
		s.V4 = true
	case st < 9:
		s.V4, s.V6 = true, true
	default:
		s.V6 = true
	}
	s.ERDMA = rapid.IntRange(0, 2).Draw(t, "erdma") == 0
	ne := rapid.IntRange(1, vt.Scale(4, 6)).Draw(t, "nenis")
	for i := 0; i < ne; i++ {
		e := c02FnENI{}
		e.Status = rapid.SampledFrom([]string{"InUse", "InUse", "InUse", "InUse", "Deleting", "Attaching", "Detaching", "Available"}).Draw(t, "status")
		e.RDMA = rapid.IntRange(0, 3).Draw(t, "rdma") == 0
		e.Trunk = !e.RDMA && rapid.IntRange(0, 5).Draw(t, "trunk") == 0
		e.N4 = rapid.IntRange(1, 5).Draw(t, "n4")
		e.N6 = rapid.IntRange(0, 5).Draw(t, "n6")
		for j := rapid.IntRange(0, 2).Draw(t, "nd4"); j > 0; j-- {
			e.Del4 = append(e.Del4, rapid.IntRange(0, 4).Draw(t, "d4"))
		}
		for j := rapid.IntRange(0, 2).Draw(t, "nd6"); j > 0; j-- {
			e.Del6 = append(e.Del6, rapid.IntRange(0, 4).Draw(t, "d6"))
		}
		s.ENIs = append(s.ENIs, e)
	}
	np := rapid.IntRange(1, vt.Scale(6, 10)).Draw(t, "npods")
	for i := 0; i < np; i++ {
		p := c02FnPod{}
		p.Exists = rapid.IntRange(0, 4).Draw(t, "exists") > 0
		p.RDMA = rapid.IntRange(0, 3).Draw(t, "prdma") == 0
		p.ENI = rapid.IntRange(0, ne-1).Draw(t, "peni")
		p.I4 = rapid.IntRange(0, 4).Draw(t, "pi4")
		p.I6 = rapid.IntRange(0, 4).Draw(t, "pi6")
		p.Rec = rapid.SampledFrom([]string{"none", "none", "none", "full", "full", "nouid", "v4only", "v6only"}).Draw(t, "prec")
		p.Reports = rapid.SampledFrom([]string{"none", "none", "none", "both", "both", "v4", "v6", "gone"}).Draw(t, "preports")
		p.Deleted = rapid.IntRange(0, 2).Draw(t, "pdeleted") == 0
		s.Pods = append(s.Pods, p)
	}
	s.Release = rapid.Bool().Draw(t, "release")
	s.Twice = rapid.Bool().Draw(t, "twice")
	return s
}

func c02FnAddr(eni, idx int, v6 bool) string {
	if v6 {
		return fmt.Sprintf("fd00::%x:%x", eni+1, idx+1)
	}
	return fmt.Sprintf("10.0.%d.%d", eni+1, idx+1)
}

// c02FnBuild materialises the record, the pod requests and the pod views of a scenario.
func c02FnBuild(s c02FnScenario) (map[string]*networkv1beta1.NetworkInterface, map[string]*PodRequest, map[string]*c02PodView, map[string]bool, *networkv1beta1.NodeRuntime) {
	enis := map[string]*networkv1beta1.NetworkInterface{}
	for i, e := range s.ENIs {
		r := &networkv1beta1.NetworkInterface{ID: fmt.Sprintf("eni-%d", i), Status: e.Status, NetworkInterfaceType: networkv1beta1.ENITypeSecondary,
			NetworkInterfaceTrafficMode: networkv1beta1.NetworkInterfaceTrafficModeStandard, IPv4: map[string]*networkv1beta1.IP{}, IPv6: map[string]*networkv1beta1.IP{}}
		if e.RDMA {
			r.NetworkInterfaceTrafficMode = networkv1beta1.NetworkInterfaceTrafficModeHighPerformance
		}
		if e.Trunk {
			r.NetworkInterfaceType = networkv1beta1.ENITypeTrunk
		}
		for j := 0; j < e.N4; j++ {
			a := c02FnAddr(i, j, false)
			r.IPv4[a] = &networkv1beta1.IP{IP: a, Primary: j == 0, Status: networkv1beta1.IPStatusValid}
		}
		for j := 0; j < e.N6; j++ {
			a := c02FnAddr(i, j, true)
			r.IPv6[a] = &networkv1beta1.IP{IP: a, Status: networkv1beta1.IPStatusValid}
		}
		for _, d := range e.Del4 {
			r.IPv4[c02FnAddr(i, d%e.N4, false)].Status = networkv1beta1.IPStatusDeleting
		}
		for _, d := range e.Del6 {
			if e.N6 > 0 {
				r.IPv6[c02FnAddr(i, d%e.N6, true)].Status = networkv1beta1.IPStatusDeleting
			}
		}
		enis[r.ID] = r
	}
	reqs := map[string]*PodRequest{}
	views := map[string]*c02PodView{}
	ever := map[string]bool{}
	nr := &networkv1beta1.NodeRuntime{ObjectMeta: metav1.ObjectMeta{Name: c02NodeName}, Status: networkv1beta1.NodeRuntimeStatus{Pods: map[string]*networkv1beta1.RuntimePodStatus{}}}
	used := map[string]bool{}
	now := time.Now()
	for k, p := range s.Pods {
		id := fmt.Sprintf("%s/p%d", c02NS, k)
		uid := fmt.Sprintf("uid-%d", k)
		ever[id] = true
		e := s.ENIs[p.ENI]
		eniID := fmt.Sprintf("eni-%d", p.ENI)
		a4, a6 := "", ""
		if s.V4 {
			a4 = c02FnAddr(p.ENI, p.I4%e.N4, false)
		}
		if s.V6 && e.N6 > 0 {
			a6 = c02FnAddr(p.ENI, p.I6%e.N6, true)
		}
		// a previous version would not have put a pod on the wrong kind of interface
		kindOK := !s.ERDMA || p.RDMA == e.RDMA
		rec := p.Rec
		if !kindOK || used[a4] || used[a6] {
			rec = "none"
		}
		rep := p.Reports
		if rec == "none" && (!kindOK || used[a4] || used[a6]) && rep != "gone" {
			rep = "none"
		}
		recUID := uid
		if rec == "nouid" {
			recUID = ""
		}
		if rec != "none" || (rep != "none" && rep != "gone") {
			used[a4], used[a6] = a4 != "", a6 != ""
		}
		if rec != "none" {
			if a4 != "" && rec != "v6only" {
				enis[eniID].IPv4[a4].PodID, enis[eniID].IPv4[a4].PodUID = id, recUID
			}
			if a6 != "" && rec != "v4only" {
				enis[eniID].IPv6[a6].PodID, enis[eniID].IPv6[a6].PodUID = id, recUID
			}
		}
		st := map[networkv1beta1.CNIStatus]*networkv1beta1.CNIStatusInfo{
			networkv1beta1.CNIStatusInitial: {LastUpdateTime: metav1.NewTime(now.Add(-time.Hour))},
		}
		if p.Deleted && !p.Exists {
			st[networkv1beta1.CNIStatusDeleted] = &networkv1beta1.CNIStatusInfo{LastUpdateTime: metav1.NewTime(now.Add(-time.Minute))}
		}
		nr.Status.Pods[uid] = &networkv1beta1.RuntimePodStatus{PodID: id, Status: st}
		if !p.Exists {
			continue
		}
		r4, r6 := "", ""
		switch rep {
		case "both":
			r4, r6 = a4, a6
		case "v4":
			r4 = a4
		case "v6":
			r6 = a6
		case "gone":
			if s.V4 {
				r4 = fmt.Sprintf("10.9.9.%d", k+1)
			} else {
				r6 = fmt.Sprintf("fd00:9::%x", k+1)
			}
		}
		reqs[id] = &PodRequest{PodUID: uid, RequireIPv4: s.V4, RequireIPv6: s.V6, RequireERDMA: s.ERDMA && p.RDMA, IPv4: r4, IPv6: r6}
		views[id] = &c02PodView{id: id, uid: uid, erdma: s.ERDMA && p.RDMA, v4: r4, v6: r6, eligible: true}
	}
	return enis, reqs, views, ever, nr
}

func c02FnCopy(in map[string]*networkv1beta1.NetworkInterface) map[string]*networkv1beta1.NetworkInterface {
	out := map[string]*networkv1beta1.NetworkInterface{}
	for k, v := range in {
		out[k] = v.DeepCopy()
	}
	return out
}

type c02Failer interface {
	Fatalf(f string, a ...any)
	Label(string)
	NonTrivial()
}

func c02FnRun(c *vt.Ctx, s c02FnScenario) { c02FnRunW(c, s) }

func c02FnRunW(c c02Failer, s c02FnScenario) {
	c02Hygiene()
	enis, reqs, views, ever, nr := c02FnBuild(s)
	if nt, why := c02NonTrivialStart(enis, views, s.V4, s.V6); nt {
		c.Label(why)
		c.NonTrivial()
	}
	// the generated record itself must satisfy the invariants (generator check)
	if msg, _ := c02CheckRecord(c02FnCopy(enis), enis, views, ever, nil, false, s.ERDMA); msg != "" {
		panic("harness: generated record violates the invariants: " + msg)
	}
	rounds := 1
	if s.Twice {
		rounds = 2
	}
	for r := 0; r < rounds; r++ {
		prev := c02FnCopy(enis)
		ipv4Map, ipv6Map := buildIPMap(reqs, enis)
		if s.Release && r == 0 {
			cli := fake.NewClientBuilder().WithScheme(types.Scheme).WithStatusSubresource(&networkv1beta1.NodeRuntime{}).WithObjects(nr.DeepCopy()).Build()
			releasePodNotFound(context.Background(), cli, c02NodeName, reqs, ipv4Map, ipv6Map)
			// releases only: nothing may become bound, no live pod may lose its binding
			for _, b := range c02Bindings(prev) {
				if b.pod == "" {
					continue
				}
				cur := enis[b.eni].IPv4[b.addr]
				if b.v6 {
					cur = enis[b.eni].IPv6[b.addr]
				}
				if views[b.pod] != nil && cur.PodID != b.pod {
					c.Fatalf("releasePodNotFound unbound %s from existing pod %s", b.addr, b.pod)
				}
			}
			c.Label("released-first")
		}
		assignIPFromLocalPool(logr.Discard(), reqs, ipv4Map, ipv6Map, s.ERDMA)
		msg, facts := c02CheckRecord(prev, enis, views, ever, nil, false, s.ERDMA)
		for f := range facts {
			c.Label("c02:" + f)
		}
		if msg != "" {
			c.Fatalf("C02 violated by assignIPFromLocalPool (round %d): %s\nbefore: %s\nafter:  %s", r+1, msg, c02RenderRecord(prev), c02RenderRecord(enis))
		}
		if facts["takeover"] {
			c.NonTrivial()
		}
	}
	switch {
	case s.V4 && s.V6:
		c.Label("stack:dual")
	case s.V4:
		c.Label("stack:v4")
	default:
		c.Label("stack:v6")
	}
}

// TestVerifC02Assign: function-level layer of C02.
func TestVerifC02Assign(t *testing.T) { vt.Run(t, c02FnGen, c02FnRun) }

var _ = aliyunClient.ENIStatusInUse
