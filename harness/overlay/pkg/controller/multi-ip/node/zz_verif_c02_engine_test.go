package node

// History interpreter, C08 call-time monitors (knowledge ledger) and the settle-phase
// oracles (convergence, band, record == cloud, no orphan) of the C02/C08 closed loop.

import (
	"fmt"
	"os"
	"sort"
	"strings"
	"time"

	metav1 "k8s.io/apimachinery/pkg/apis/meta/v1"
	"sigs.k8s.io/controller-runtime/pkg/client"
	"sigs.k8s.io/controller-runtime/pkg/reconcile"

	corev1 "k8s.io/api/core/v1"

	aliyunClient "github.com/AliyunContainerService/terway/pkg/aliyun/client"
	networkv1beta1 "github.com/AliyunContainerService/terway/pkg/apis/network.alibabacloud.com/v1beta1"
	"github.com/AliyunContainerService/terway/zz_verif/cloudctl"
	"github.com/AliyunContainerService/terway/zz_verif/vt"
)

// c02GuardOff names the finding whose deterministic witness is currently running.
var c02GuardOff string

type c02WitnessStop struct{}

// trace records a history line in the replay trace (and prints it when VERIF_C02_DUMP is set).
func (w *c02World) trace(f string, a ...any) {
	w.c.Trace(f, a...)
	if os.Getenv("VERIF_C02_DUMP") != "" {
		fmt.Printf("TRACE "+f+"\n", a...)
	}
}

// fail reports a violation: through the vt context in a property run, into the witness
// result in a witness run.
func (w *c02World) fail(f string, a ...any) {
	if w.witness != nil {
		*w.witness = fmt.Sprintf(f, a...)
		panic(c02WitnessStop{})
	}
	w.c.Fatalf(f, a...)
}

// c08Known: the finding is listed as open in known_findings.json (vt.Known) and its
// witness is not the test that is running.
func c08Known(id string) bool {
	if id == c02GuardOff {
		return false // the witness of this finding is running: let the violation surface
	}
	// VERIF_KNOWN_OVERRIDE (sensitivity experiments on a repaired scratch tree only): the
	// exact set of active guards, e.g. "none"
	if o := os.Getenv("VERIF_KNOWN_OVERRIDE"); o != "" {
		for _, p := range strings.Split(o, ",") {
			if strings.TrimSpace(p) == id {
				return true
			}
		}
		return false
	}
	return vt.Known(id)
}

// ------------------------------------------------------------------ knowledge ledger

func c08Key(ip cloudctl.IP) string {
	if ip.Addr != "" {
		return ip.Addr
	}
	return "name:" + ip.Name
}

func c08FromENI(e *cloudctl.ENI) *c08KENI {
	k := &c08KENI{v4: map[string]bool{}, v6: map[string]bool{}, typ: e.Type, mode: e.TrafficMode}
	for _, ip := range e.V4 {
		k.v4[c08Key(ip)] = true
	}
	for _, ip := range e.V6 {
		k.v6[c08Key(ip)] = true
	}
	return k
}

// resetKnowledgeFromRecord: a (re)started controller knows exactly the persisted record.
func (w *c02World) resetKnowledgeFromRecord() {
	w.mu.Lock()
	defer w.mu.Unlock()
	w.k = map[string]*c08KENI{}
	w.refused = map[string]int{}    // a restarted controller has lost its resync flag
	w.vswRefused = map[string]int{} // ... and starts with an empty vSwitch cache
	for id, e := range w.readNode().Status.NetworkInterfaces {
		k := &c08KENI{v4: map[string]bool{}, v6: map[string]bool{}, counted: true, typ: string(e.NetworkInterfaceType), mode: string(e.NetworkInterfaceTrafficMode)}
		for a := range e.IPv4 {
			k.v4[a] = true
		}
		for a := range e.IPv6 {
			k.v6[a] = true
		}
		w.k[id] = k
	}
}

func (w *c02World) flavor(typ, mode string) int {
	for _, f := range w.spec.Flavor {
		if string(f.NetworkInterfaceType) == typ && string(f.NetworkInterfaceTrafficMode) == mode {
			return f.Count
		}
	}
	return 0
}

func (w *c02World) flavorTotal() int {
	t := 0
	for _, f := range w.spec.Flavor {
		t += f.Count
	}
	return t
}

// onCall: call-time monitors, evaluated against what the controller has been told.
func (w *c02World) onCall(cl *cloudctl.Cloud, c *cloudctl.Call) {
	w.mu.Lock()
	defer w.mu.Unlock()
	n := w.s.Node
	batch := 10
	if c.EFLO {
		batch = 1
	}
	kind := "count"
	bad := func(f string, a ...any) {
		w.monitor = append(w.monitor, c08Mon{kind: kind, msg: fmt.Sprintf("call #%d %s: ", c.Seq, c.Kind) + fmt.Sprintf(f, a...)})
	}
	if c.Fault != nil {
		w.seenFault[c.Kind+"/"+c.Fault.Mode] = true
	}
	switch c.Kind {
	case cloudctl.KAssign4, cloudctl.KAssign6:
		cnt, lim, fam := c.N4, n.V4Per, "IPv4"
		if c.Kind == cloudctl.KAssign6 {
			cnt, lim, fam = c.N6, n.V6Per, "IPv6"
		}
		if cnt > batch {
			bad("%d %s addresses requested in one call, batch limit is %d", cnt, fam, batch)
		}
		if cnt == batch && batch > 1 {
			w.atQuota = true
		}
		if e := cl.ENIs[c.ENI]; e != nil {
			if seq, ok := w.vswRefused[e.VSwitchID]; ok && seq < w.passFirstSeq {
				kind = "refused"
				bad("addresses requested for %s on vSwitch %s again although the cloud refused call #%d on that vSwitch for lack of addresses (the controller's cache entry has not expired)", c.ENI, e.VSwitchID, seq)
				kind = "count"
			}
		}
		if seq, ok := w.refused[c.ENI]; ok {
			kind = "refused"
			bad("addresses requested for %s again although the cloud refused call #%d on it with a count-exceeded code and no full sync has answered since", c.ENI, seq)
			kind = "count"
		}
		k := w.k[c.ENI]
		if k == nil {
			bad("addresses requested for interface %s the controller was never told about", c.ENI)
			return
		}
		have := len(k.v4)
		if c.Kind == cloudctl.KAssign6 {
			have = len(k.v6)
		}
		if have+cnt > lim {
			kind = "assign:" + c.ENI + ":" + fam
			bad("%d more %s addresses requested for %s which holds %d by everything the controller was told; declared per-interface limit is %d", cnt, fam, c.ENI, have, lim)
		}
		if have+cnt == lim {
			w.atQuota = true
		}
	case cloudctl.KCreate:
		if seq, ok := w.vswRefused[c.VSwitch]; ok && seq < w.passFirstSeq {
			kind = "refused"
			bad("new interface requested on vSwitch %s again although the cloud refused call #%d on that vSwitch for lack of addresses (the controller's cache entry has not expired)", c.VSwitch, seq)
			kind = "count"
		}
		if c.N4 > max(n.V4Per, 1) {
			bad("interface requested with %d IPv4 addresses, declared per-interface limit is %d", c.N4, n.V4Per)
		}
		if c.N6 > 0 && c.N6 > n.V6Per {
			bad("interface requested with %d IPv6 addresses, declared per-interface limit is %d", c.N6, n.V6Per)
		}
		if c.N4 > batch || c.N6 > batch {
			bad("interface requested with %d/%d addresses, batch limit is %d", c.N4, c.N6, batch)
		}
		mode := aliyunClient.ENITrafficModeStandard
		if c.ERDMA {
			mode = aliyunClient.ENITrafficModeRDMA
		}
		counted, same := 0, 0
		for _, k := range w.k {
			if !k.counted {
				continue
			}
			counted++
			if k.typ == c.Type && (k.mode == mode || k.mode == "") {
				same++
			}
		}
		if counted+1 > n.Adapters-1 {
			bad("new interface requested while the node has %d by everything the controller was told; declared limit is %d adapters (%d besides the primary)", counted, n.Adapters, n.Adapters-1)
		}
		if counted+1 > w.flavorTotal() {
			bad("new interface requested while the node has %d by everything the controller was told; the flavor admits %d in total", counted, w.flavorTotal())
		}
		if same+1 > w.flavor(c.Type, mode) {
			kind = "perkind"
			bad("new %s/%s interface requested while the node has %d of that kind; the flavor admits %d", c.Type, mode, same, w.flavor(c.Type, mode))
		}
		if counted+1 == min(n.Adapters-1, w.flavorTotal()) || same+1 == w.flavor(c.Type, mode) {
			w.atQuota = true
		}
	}
}

// afterCall maintains the knowledge ledger from the answers the controller received.
func (w *c02World) afterCall(cl *cloudctl.Cloud, c *cloudctl.Call) {
	w.mu.Lock()
	defer w.mu.Unlock()
	ok := c.Err == ""
	if c.ErrCode == "InvalidVSwitchId.IpNotEnough" || c.ErrCode == "QuotaExceeded.PrivateIpAddress" {
		switch c.Kind {
		case cloudctl.KCreate:
			if c.VSwitch != "" {
				w.vswRefused[c.VSwitch] = c.Seq
			}
		case cloudctl.KAssign4, cloudctl.KAssign6:
			if e := cl.ENIs[c.ENI]; e != nil {
				w.vswRefused[e.VSwitchID] = c.Seq
			}
		}
	}
	merge := func(e *cloudctl.ENI, counted bool) {
		old := w.k[e.ID]
		k := c08FromENI(e)
		k.counted = counted
		if old != nil {
			k.byCreate = old.byCreate
		}
		w.k[e.ID] = k
	}
	switch c.Kind {
	case cloudctl.KDescribe:
		if !ok {
			return
		}
		told := map[string]bool{}
		for _, e := range c.Told {
			if e.Type == aliyunClient.ENITypePrimary {
				continue
			}
			told[e.ID] = true
			merge(e, c.Instance != "" && e.InstanceID == c.Instance)
		}
		if len(c.IDs) == 0 && c.Instance != "" {
			w.refused = map[string]int{}
			for id, k := range w.k {
				if !told[id] {
					k.counted = false
				}
			}
		}
		for _, id := range c.IDs {
			if k := w.k[id]; k != nil && !told[id] {
				k.counted = false
			}
		}
	case cloudctl.KCreate:
		if !ok {
			return
		}
		for _, e := range c.Told {
			k := c08FromENI(e)
			k.counted, k.byCreate = true, true
			k.typ = c.Type
			k.mode = aliyunClient.ENITrafficModeStandard
			if c.ERDMA {
				k.mode = aliyunClient.ENITrafficModeRDMA
			}
			w.k[e.ID] = k
			w.toldCreated[e.ID] = true
		}
	case cloudctl.KWait:
		if ok {
			for _, e := range c.Told {
				merge(e, e.InstanceID == c02InstanceID || (w.k[e.ID] != nil && w.k[e.ID].counted))
			}
		}
	case cloudctl.KAttach:
		if k := w.k[c.ENI]; k != nil && ok {
			k.counted = true
		}
	case cloudctl.KDetach:
	case cloudctl.KDelete:
		if ok {
			delete(w.k, c.ENI)
		} else {
			w.deleteFailed[c.ENI] = true
		}
	case cloudctl.KAssign4, cloudctl.KAssign6:
		switch c.ErrCode {
		case "InvalidOperation.Ipv4CountExceeded", "InvalidOperation.Ipv6CountExceeded", "1013":
			w.refused[c.ENI] = c.Seq
		}
		k := w.k[c.ENI]
		if k == nil {
			return
		}
		if os.Getenv("VERIF_C02_DUMP") != "" {
			fmt.Printf("TRACE afterCall %s told=%+v ips=%v err=%q\n", c.Kind, c.ToldIPs, c.IPs, c.Err)
		}
		for _, ip := range c.ToldIPs { // also on error: the EFLO client answers created names
			if c.Kind == cloudctl.KAssign4 {
				k.v4[c08Key(ip)] = true
			} else {
				k.v6[c08Key(ip)] = true
			}
		}
	case cloudctl.KUnAssign4, cloudctl.KUnAssign6:
		k := w.k[c.ENI]
		if k == nil || !ok {
			return
		}
		for _, a := range c.IPs {
			delete(k.v4, a)
			delete(k.v6, a)
		}
		if c.EFLO {
			// released by name: drop K entries that are no longer on the interface
			if e := cl.ENIs[c.ENI]; e != nil {
				present := map[string]bool{}
				for _, ip := range e.V4 {
					present[ip.Addr] = true
					present["name:"+ip.Name] = true
				}
				for a := range k.v4 {
					if !present[a] {
						delete(k.v4, a)
					}
				}
			}
		}
	}
}

// ------------------------------------------------------------------ one reconcile

type c02StepResult struct {
	mutations int
	writes    int
	changed   bool // interfaces / addresses / bindings of the record changed (timestamps and conditions ignored)
	err       error
	calls     []cloudctl.Call
}

func (w *c02World) resetGuard() {
	if v, ok := w.rec.cache.Load(c02NodeName); ok {
		v.(*NodeStatus).LastReconcileTime = time.Time{}
	}
}

func (w *c02World) needSync() bool {
	if v, ok := w.rec.cache.Load(c02NodeName); ok {
		return v.(*NodeStatus).NeedSyncOpenAPI.Load()
	}
	return false
}

func (w *c02World) step(tag string) c02StepResult {
	prev := w.readNode()
	pods := w.podViews()
	from := w.cloud.NCalls()
	w.mu.Lock()
	w.passFirstSeq = from + 1 // calls of one pass may run in parallel: only a refusal of an earlier pass counts
	w.mu.Unlock()
	w.writes, w.writeErrs = 0, 0
	if nt, why := c02NonTrivialStart(prev.Status.NetworkInterfaces, pods, w.s.Node.V4, w.s.Node.V6); nt {
		w.nt = true
		w.c.Label(why)
	}
	// interfaces of the record that are not attached to the instance in the cloud right now
	detached := map[string]bool{}
	for id := range prev.Status.NetworkInterfaces {
		if ce := w.cloud.Get(id); ce == nil || ce.InstanceID != c02InstanceID {
			detached[id] = true
		}
	}
	enough := w.c08EnoughIdle(prev, pods)
	lost := w.c08KnowledgeLost(prev, pods)
	lostEligible := w.writeLost && w.failedWrites == 0 // judged on the passes before this one
	sc0 := false
	if v, ok := w.rec.cache.Load(c02NodeName); ok {
		sc0 = v.(*NodeStatus).StatusChanged.Load()
	}
	_, err := w.rec.Reconcile(w.ctx, reconcile.Request{NamespacedName: client.ObjectKey{Name: c02NodeName}})
	w.resetGuard()
	cur := w.readNode()
	res := c02StepResult{err: err, writes: w.writes, calls: w.cloud.Calls(from)}
	res.changed = c02RenderRecord(prev.Status.NetworkInterfaces) != c02RenderRecord(cur.Status.NetworkInterfaces)
	for i := range res.calls {
		if res.calls[i].Mutating() {
			res.mutations++
		}
		if enough && w.inSettle && w.c08NormalDemand(prev, &res.calls[i]) {
			w.overDemand++
			enough = false
		}
		if res.calls[i].Kind == cloudctl.KCreate && res.calls[i].Err == "" && w.writeErrs > 0 {
			w.writeFailAtCreate[res.calls[i].ENI] = true
		}
	}
	for id := range cur.Status.NetworkInterfaces {
		w.everRecorded[id] = true
	}
	for i := range res.calls {
		// EFLO: a second half-created address arrives while the record already holds one
		// under the empty key
		c := &res.calls[i]
		if c.Kind == cloudctl.KAssign4 && c.EFLO && c.Err != "" && len(c.ToldIPs) > 0 {
			if e := prev.Status.NetworkInterfaces[c.ENI]; e != nil {
				if _, ok := e.IPv4[""]; ok {
					w.efloCollision = true
					if w.efloCollisionENI == nil {
						w.efloCollisionENI = map[string]bool{}
					}
					w.efloCollisionENI[c.ENI] = true
				}
			}
		}
	}
	if w.c != nil {
		w.trace("[%s] reconcile: %d calls (%d mutating), %d status writes, %d write errors, err=%v", tag, len(res.calls), res.mutations, w.writes, w.writeErrs, err)
		for i := range res.calls {
			w.trace("    %s", res.calls[i].String())
		}
		if w.writes > 0 {
			w.trace("    record: %s", c02RenderRecord(cur.Status.NetworkInterfaces))
		}
	}
	// a failed record write may lose what the controller was told in that pass; the loss
	// is repaired by the next pass that completes a full sync and persists it
	if w.writeErrs > w.writes {
		w.writeLost = true
		// The controller schedules a resync after a failed write only if the pass changed
		// the cloud (StatusChanged). What a pass merely learned (full sync answer, names of
		// half-created addresses) is lost silently: that is finding C08-lost-write-no-resync.
		// A failed pass that did change the cloud must be followed by a resync.
		// 1: the controller certainly had StatusChanged set when the write failed (it was
		// set before the pass, or an assign / unassign succeeded in it), so it must resync
		w.failedWrites = 0
		if sc0 {
			w.failedWrites = 1
		}
		for i := range res.calls {
			switch res.calls[i].Kind {
			case cloudctl.KAssign4, cloudctl.KAssign6, cloudctl.KUnAssign4, cloudctl.KUnAssign6:
				if res.calls[i].Err == "" {
					w.failedWrites = 1
				}
			}
		}
	} else if w.writes > 0 {
		for i := range res.calls {
			if res.calls[i].Kind == cloudctl.KDescribe && res.calls[i].Err == "" && len(res.calls[i].IDs) == 0 {
				w.writeLost = false
				w.failedWrites = 0
			}
		}
	}
	// C02 (iv): the pass must not ask the cloud to release an address that, in the record it
	// started from, was validly bound to a pod that still exists (scheduling for deletion
	// and executing it within one pass leaves no Deleting entry to look at)
	if w.s.Mode == "C02" {
		for i := range res.calls {
			c := &res.calls[i]
			if c.Kind != cloudctl.KUnAssign4 && c.Kind != cloudctl.KUnAssign6 {
				continue
			}
			e := prev.Status.NetworkInterfaces[c.ENI]
			if e == nil || e.Status == aliyunClient.ENIStatusDeleting {
				continue
			}
			for _, a := range c.IPs {
				ip := e.IPv4[a]
				if c.Kind == cloudctl.KUnAssign6 {
					ip = e.IPv6[a]
				}
				if ip == nil || ip.PodID == "" || ip.Status != networkv1beta1.IPStatusValid {
					continue
				}
				if pv := pods[ip.PodID]; pv != nil && pv.eligible {
					w.fail("C02 violated in reconcile [%s]: (iv) the controller asked the cloud to unassign %s on %s, which the record binds to pod %s; the pod still exists\nbefore: %s\nafter:  %s", tag, a, c.ENI, ip.PodID, c02RenderRecord(prev.Status.NetworkInterfaces), c02RenderRecord(cur.Status.NetworkInterfaces))
				}
			}
		}
	}
	// C02 (iv) under drift: once a full sync has been persisted, an address the cloud lost
	// must not stay bindable (Valid on an interface in use) in the record
	if w.writeErrs == 0 && len(w.drifted) > 0 {
		synced := false
		for i := range res.calls {
			if res.calls[i].Kind == cloudctl.KDescribe && res.calls[i].Err == "" && len(res.calls[i].IDs) == 0 {
				synced = true
			}
		}
		if synced && !w.needSync() {
			for _, b := range c02Bindings(cur.Status.NetworkInterfaces) {
				if eni, ok := w.drifted[b.addr]; ok && eni == b.eni && b.ipStatus == networkv1beta1.IPStatusValid && b.eniStatus == aliyunClient.ENIStatusInUse {
					if w.s.Mode == "C02" {
						w.fail("C02 violated after reconcile [%s]: (iv) address %s on %s was removed in the cloud, a full sync has completed since, and the record still offers it as valid\nrecord: %s", tag, b.addr, b.eni, c02RenderRecord(cur.Status.NetworkInterfaces))
					}
				}
			}
			w.drifted = map[string]string{}
			w.c.Label("c02:drift-then-full-sync")
		}
	}
	// C08 (3), per pass: what the controller was told about and did not release must be in
	// the record it persisted ("deleted or stays recorded for deletion")
	if w.writeErrs == 0 && err == nil || w.writeErrs == 0 && w.writes > 0 {
		if msg := w.c08Forgotten(cur); msg != "" {
			switch {
			case w.writeLost && w.failedWrites == 0 && c08Known("C08-lost-write-no-resync"):
				w.c.Label("known:C08-lost-write-no-resync")
			case strings.Contains(msg, "name:") && (c08AnyEmptyKey(cur) || w.efloCollision) && c08Known("C08-eflo-partial-key-collision"):
				w.c.Label("known:C08-eflo-partial-key-collision")
			case w.s.Mode == "C08":
				w.fail("C08 rollback: after reconcile [%s] %s\nrecord: %s", tag, msg, c02RenderRecord(cur.Status.NetworkInterfaces))
			}
		}
	}

	// C08 (1): call-time quota monitors
	w.mu.Lock()
	mon := w.monitor
	w.monitor = nil
	w.mu.Unlock()
	var hard []string
	for _, m := range mon {
		switch {
		case strings.HasPrefix(m.kind, "assign:") && (c08EmptyKey(prev, m.kind) || w.efloCollidedOn(m.kind)) && c08Known("C08-eflo-partial-key-collision"):
			// EFLO: half-created addresses are recorded under the empty address key, a second
			// one replaces nothing and is forgotten: the interface holds it in the cloud for
			// good, also after the surviving placeholder has been unassigned
			w.c.Label("known:C08-eflo-partial-key-collision")
			w.trace("    (known C08-eflo-partial-key-collision: %s)", m.msg)
		case lost != "" && lostEligible && c08Known("C08-lost-write-no-resync"):
			// the controller was told about resources a failed record write then lost, and
			// it did not resynchronise before asking for more
			w.c.Label("known:C08-lost-write-no-resync")
			w.trace("    (known C08-lost-write-no-resync: %s; %s)", lost, m.msg)
		default:
			hard = append(hard, m.msg)
		}
	}
	if len(hard) > 0 && w.s.Mode == "C08" {
		w.fail("C08 quota monitor: %s", strings.Join(hard, "; "))
	}
	if len(hard) > 0 {
		w.c.Label("c08-monitor-hit-in-c02-mode")
	}

	// C02: invariants on the persisted record
	msg, facts := c02CheckRecord(prev.Status.NetworkInterfaces, cur.Status.NetworkInterfaces, pods, w.everPod, detached, w.s.Node.EFLO, w.s.Node.ERDMA)
	for f := range facts {
		w.c.Label("c02:" + f)
	}
	if facts["takeover"] {
		w.nt = true
	}
	if msg != "" {
		if w.s.Mode == "C02" {
			w.fail("C02 violated after reconcile [%s]: %s\nbefore: %s\nafter:  %s", tag, msg, c02RenderRecord(prev.Status.NetworkInterfaces), c02RenderRecord(cur.Status.NetworkInterfaces))
		}
		w.c.Label("c02-violation-in-c08-mode")
	}
	return res
}

func c02RenderRecord(enis map[string]*networkv1beta1.NetworkInterface) string {
	ids := make([]string, 0, len(enis))
	for id := range enis {
		ids = append(ids, id)
	}
	sort.Strings(ids)
	var sb strings.Builder
	for _, id := range ids {
		e := enis[id]
		fmt.Fprintf(&sb, "%s[%s %s/%s", id, e.Status, e.NetworkInterfaceType, e.NetworkInterfaceTrafficMode)
		for _, m := range []map[string]*networkv1beta1.IP{e.IPv4, e.IPv6} {
			keys := make([]string, 0, len(m))
			for k := range m {
				keys = append(keys, k)
			}
			sort.Strings(keys)
			for _, k := range keys {
				ip := m[k]
				fmt.Fprintf(&sb, " %s", k)
				if ip.Primary {
					sb.WriteString("*")
				}
				if ip.Status != networkv1beta1.IPStatusValid {
					sb.WriteString("!" + string(ip.Status))
				}
				if ip.PodID != "" {
					fmt.Fprintf(&sb, "=%s(%s)", strings.TrimPrefix(ip.PodID, c02NS+"/"), ip.PodUID)
				}
			}
		}
		sb.WriteString("] ")
	}
	return sb.String()
}

func (w *c02World) forceFullSync() {
	n := w.readNode()
	n.Status.NextSyncOpenAPITime = metav1.NewTime(time.Unix(1000, 0))
	w.must(w.base.Status().Update(w.ctx, n))
}

func c08AnyEmptyKey(n *networkv1beta1.Node) bool {
	for _, e := range n.Status.NetworkInterfaces {
		if _, ok := e.IPv4[""]; ok {
			return true
		}
	}
	return false
}

// c08EmptyKey: the record the pass started from holds an address entry under the empty key
// on the interface named in the monitor kind.
// efloCollidedOn: the interface named by a monitor kind ("assign:<eni>:<fam>") has had a
// half-created address overwritten under the empty key earlier in this history.
func (w *c02World) efloCollidedOn(kind string) bool {
	parts := strings.Split(kind, ":")
	return len(parts) == 3 && w.efloCollisionENI[parts[1]]
}

func c08EmptyKey(n *networkv1beta1.Node, kind string) bool {
	parts := strings.Split(kind, ":")
	if len(parts) != 3 {
		return false
	}
	e := n.Status.NetworkInterfaces[parts[1]]
	if e == nil {
		return false
	}
	_, ok := e.IPv4[""]
	return ok
}

// c08KnowledgeLost: the controller has been told about an interface or address that the
// persisted record it is about to start from does not contain, and no full sync is
// pending. Returns a description ("" if nothing is lost).
func (w *c02World) c08KnowledgeLost(n *networkv1beta1.Node, pods map[string]*c02PodView) string {
	served := 0
	for _, p := range pods {
		if p.eligible {
			served++
		}
	}
	if w.needSync() || n.Status.NextSyncOpenAPITime.Time.Before(time.Now()) || (len(n.Status.NetworkInterfaces) == 0 && served > 0) {
		return "" // this pass starts with a full sync
	}
	w.mu.Lock()
	defer w.mu.Unlock()
	ids := make([]string, 0, len(w.k))
	for id := range w.k {
		ids = append(ids, id)
	}
	sort.Strings(ids)
	for _, id := range ids {
		k := w.k[id]
		if !k.counted {
			continue
		}
		e := n.Status.NetworkInterfaces[id]
		if e == nil {
			return "interface " + id + " told but not in the persisted record"
		}
		for a := range k.v4 {
			if strings.HasPrefix(a, "name:") {
				found := false
				for _, ip := range e.IPv4 {
					found = found || "name:"+ip.IPName == a
				}
				if !found {
					return "address " + a + " on " + id + " told but not in the persisted record"
				}
				continue
			}
			if e.IPv4[a] == nil {
				return "address " + a + " on " + id + " told but not in the persisted record"
			}
		}
		for a := range k.v6 {
			if e.IPv6[a] == nil {
				return "address " + a + " on " + id + " told but not in the persisted record"
			}
		}
	}
	return ""
}

// c08Forgotten: an interface or address the controller was told about (and has not been
// told is gone, nor released itself) is missing from the record it just persisted.
func (w *c02World) c08Forgotten(n *networkv1beta1.Node) string {
	w.mu.Lock()
	defer w.mu.Unlock()
	ids := make([]string, 0, len(w.k))
	for id := range w.k {
		ids = append(ids, id)
	}
	sort.Strings(ids)
	for _, id := range ids {
		k := w.k[id]
		if !k.counted && !k.byCreate {
			continue
		}
		e := n.Status.NetworkInterfaces[id]
		if e == nil {
			if !k.counted {
				continue // told it is not attached here any more
			}
			return "interface " + id + " (told to the controller, not released) is not in the persisted record"
		}
		if e.Status == aliyunClient.ENIStatusDeleting {
			continue
		}
		for _, fam := range []struct {
			k   map[string]bool
			rec map[string]*networkv1beta1.IP
		}{{k.v4, e.IPv4}, {k.v6, e.IPv6}} {
			keys := make([]string, 0, len(fam.k))
			for a := range fam.k {
				keys = append(keys, a)
			}
			sort.Strings(keys)
			for _, a := range keys {
				if strings.HasPrefix(a, "name:") {
					found := false
					for _, ip := range fam.rec {
						found = found || "name:"+ip.IPName == a
					}
					if !found {
						return "address " + a + " on " + id + " (told to the controller, not released) is not in the persisted record"
					}
					continue
				}
				if fam.rec[a] == nil {
					if os.Getenv("VERIF_C02_DUMP") != "" {
						fmt.Printf("TRACE K[%s]=%+v\n", id, k)
					}
					return "address " + a + " on " + id + " (told to the controller, not released) is not in the persisted record"
				}
			}
		}
	}
	return ""
}

// c08EnoughIdle: the record a pass starts from already holds enough idle addresses on
// interfaces in use for every unserved pod of the normal class plus the pool minimum.
func (w *c02World) c08EnoughIdle(n *networkv1beta1.Node, pods map[string]*c02PodView) bool {
	nd := w.s.Node
	has4, has6 := map[string]bool{}, map[string]bool{}
	for _, b := range c02Bindings(n.Status.NetworkInterfaces) {
		if b.pod != "" {
			if b.v6 {
				has6[b.pod] = true
			} else {
				has4[b.pod] = true
			}
		}
	}
	pending := 0
	for id, p := range pods {
		if !p.eligible || p.erdma {
			continue
		}
		if (nd.V4 && !has4[id]) || (nd.V6 && !has6[id]) {
			if has4[id] || has6[id] || p.v4 != "" || p.v6 != "" {
				return false // partially bound / take-over pods: no simple count
			}
			pending++
		}
	}
	idle := 0
	for _, e := range n.Status.NetworkInterfaces {
		if e.Status != aliyunClient.ENIStatusInUse || e.NetworkInterfaceTrafficMode == networkv1beta1.NetworkInterfaceTrafficModeHighPerformance {
			continue
		}
		if e.NetworkInterfaceType != networkv1beta1.ENITypeSecondary && e.NetworkInterfaceType != networkv1beta1.ENITypeTrunk {
			continue
		}
		i4, i6 := IdlesWithAvailable(e.IPv4), IdlesWithAvailable(e.IPv6)
		switch {
		case nd.V4 && nd.V6:
			idle += min(i4, i6)
		case nd.V4:
			idle += i4
		default:
			idle += i6
		}
	}
	return idle >= pending+nd.Min
}

// c08NormalDemand: the call asks the cloud for more addresses for the normal pool.
func (w *c02World) c08NormalDemand(n *networkv1beta1.Node, c *cloudctl.Call) bool {
	switch c.Kind {
	case cloudctl.KCreate:
		return c.Type == aliyunClient.ENITypeSecondary && !c.ERDMA
	case cloudctl.KAssign4, cloudctl.KAssign6:
		e := n.Status.NetworkInterfaces[c.ENI]
		return e != nil && e.NetworkInterfaceTrafficMode != networkv1beta1.NetworkInterfaceTrafficModeHighPerformance
	}
	return false
}

// ------------------------------------------------------------------ history actions

func (w *c02World) apply(i int, o c02Op) {
	tag := fmt.Sprintf("op%d:%s", i, o.Kind)
	switch o.Kind {
	case "create", "burst":
		cnt := 1
		if o.Kind == "burst" {
			cnt = o.B
		}
		for j := 0; j < cnt; j++ {
			slot := (o.A + j) % len(w.s.Slots)
			if w.live[slot] == nil {
				p := w.createPod(slot, "", "")
				w.trace("[%s] pod %s created uid=%s", tag, p.name, p.uid)
			}
		}
		if o.Kind == "burst" {
			w.step(tag)
		}
	case "delete":
		l := w.liveSorted()
		if len(l) == 0 {
			return
		}
		p := l[o.A%len(l)]
		w.must(w.base.Delete(w.ctx, &corev1.Pod{ObjectMeta: metav1.ObjectMeta{Name: p.name, Namespace: c02NS}}))
		delete(w.live, p.slot)
		w.gone = append(w.gone, &c02Gone{uid: p.uid})
		w.trace("[%s] pod %s (uid %s) deleted", tag, p.name, p.uid)
	case "exit":
		l := w.liveSorted()
		if len(l) == 0 {
			return
		}
		p := l[o.A%len(l)]
		pod := &corev1.Pod{}
		w.must(w.base.Get(w.ctx, client.ObjectKey{Namespace: c02NS, Name: p.name}, pod))
		pod.Status.Phase = corev1.PodSucceeded
		w.must(w.base.Status().Update(w.ctx, pod))
		w.gone = append(w.gone, &c02Gone{uid: p.uid})
		w.trace("[%s] pod %s sandbox exited", tag, p.name)
	case "cniadd":
		// the daemon serves the ADD from the binding it reads in the record; the kubelet
		// then publishes the address(es) in the pod status
		l := w.liveSorted()
		if len(l) == 0 {
			return
		}
		p := l[o.A%len(l)]
		pod := &corev1.Pod{}
		w.must(w.base.Get(w.ctx, client.ObjectKey{Namespace: c02NS, Name: p.name}, pod))
		if pod.Status.PodIP != "" || pod.Status.Phase == corev1.PodSucceeded {
			return
		}
		v4, v6 := "", ""
		for _, b := range c02Bindings(w.readNode().Status.NetworkInterfaces) {
			if b.pod == w.podID(p.slot) {
				if b.v6 {
					v6 = b.addr
				} else {
					v4 = b.addr
				}
			}
		}
		if (w.s.Node.V4 && v4 == "") || (w.s.Node.V6 && v6 == "") {
			return // ADD fails, nothing is reported
		}
		pod.Status.Phase = corev1.PodRunning
		for _, a := range []string{v4, v6} {
			if a != "" {
				if pod.Status.PodIP == "" {
					pod.Status.PodIP = a
				}
				pod.Status.PodIPs = append(pod.Status.PodIPs, corev1.PodIP{IP: a})
			}
		}
		w.must(w.base.Status().Update(w.ctx, pod))
		w.setRuntime(p.uid, w.podID(p.slot), networkv1beta1.CNIStatusInitial)
		p.cniAdd = true
		w.trace("[%s] pod %s ADD done, reports %s %s", tag, p.name, v4, v6)
	case "reportdeleted":
		var cand []*c02Gone
		for _, g := range w.gone {
			if !g.reported {
				cand = append(cand, g)
			}
		}
		if len(cand) == 0 {
			return
		}
		g := cand[o.A%len(cand)]
		g.reported = true
		w.setRuntime(g.uid, "", networkv1beta1.CNIStatusDeleted)
		w.trace("[%s] daemon reports uid %s deleted", tag, g.uid)
	case "reconcile":
		for j := 0; j < max(o.B, 1); j++ {
			w.step(tag)
		}
	case "fullsync":
		w.forceFullSync()
		w.step(tag)
	case "restart":
		w.restart()
		w.resetKnowledgeFromRecord()
		w.trace("[%s] controller restarted", tag)
		w.c.Label("op:restart")
	case "apifault":
		for j := 0; j < max(o.B, 1); j++ {
			w.apiFaults = append(w.apiFaults, o.API)
		}
		w.trace("[%s] api fault armed: %s x%d", tag, o.API, o.B)
		w.c.Label("apifault:" + o.API)
	case "cloudfault":
		w.cloud.Arm(o.Faults...)
		w.trace("[%s] cloud faults armed: %+v", tag, o.Faults)
	case "episode":
		w.cloud.Arm(o.Faults...)
		if o.API != "" {
			w.apiFaults = append(w.apiFaults, o.API)
			w.c.Label("apifault:" + o.API)
		}
		w.trace("[%s] faults armed: %+v api=%q", tag, o.Faults, o.API)
		for j := 0; j < o.B; j++ {
			slot := (o.A + j) % len(w.s.Slots)
			if w.live[slot] == nil {
				p := w.createPod(slot, "", "")
				w.trace("[%s] pod %s created uid=%s", tag, p.name, p.uid)
			}
		}
		for j := 0; j < max(o.C, 1); j++ {
			w.step(tag)
		}
	case "drift":
		w.drift(tag, o)
	}
}

func (w *c02World) attachedSorted() []*cloudctl.ENI {
	var out []*cloudctl.ENI
	for _, e := range w.cloud.Snapshot() {
		if e.InstanceID == c02InstanceID && e.Type != aliyunClient.ENITypePrimary {
			out = append(out, e)
		}
	}
	return out
}

func (w *c02World) drift(tag string, o c02Op) {
	l := w.attachedSorted()
	switch o.API {
	case "addeni":
		opts := cloudctl.NewENIOpts{InstanceID: c02InstanceID, VSwitchID: "vsw-pre", N4: 1 + o.B%3, EFLO: w.s.Node.EFLO, Tags: map[string]string{"owner": "terway"}}
		if w.s.Node.V6 {
			opts.N6 = o.B % 2
		}
		if o.C == 1 && w.s.Node.TagFilter {
			opts.Tags = map[string]string{"owner": "someone"}
		}
		if o.A%5 == 4 && !w.s.Node.EFLO {
			opts.Type = aliyunClient.ENITypeTrunk
		}
		e := w.cloud.AddENI(opts)
		w.trace("[%s] drift: foreign interface %s attached (%s, tags %v)", tag, e.ID, e.Type, opts.Tags)
		w.c.Label("drift:addeni")
		return
	}
	if len(l) == 0 {
		return
	}
	e := l[o.A%len(l)]
	switch o.API {
	case "rmip":
		list := e.V4
		if o.C == 1 && len(e.V6) > 0 {
			list = e.V6
		}
		if len(list) == 0 {
			return
		}
		ip := list[o.B%len(list)]
		if w.cloud.DriftRemoveIP(e.ID, ip.Addr) {
			w.drifted[ip.Addr] = e.ID
			w.trace("[%s] drift: %s removed from %s", tag, ip.Addr, e.ID)
			w.c.Label("drift:rmip")
		}
	case "rmeni":
		w.cloud.DriftDeleteENI(e.ID)
		for _, ip := range append(append([]cloudctl.IP(nil), e.V4...), e.V6...) {
			w.drifted[ip.Addr] = e.ID
		}
		w.trace("[%s] drift: interface %s deleted", tag, e.ID)
		w.c.Label("drift:rmeni")
	case "detach":
		w.cloud.DriftDetachENI(e.ID)
		w.trace("[%s] drift: interface %s detached", tag, e.ID)
		w.c.Label("drift:detach")
	case "ipstatus":
		if len(e.V4) < 2 {
			return
		}
		ip := e.V4[1+o.B%(len(e.V4)-1)]
		if w.cloud.DriftIPStatus(e.ID, ip.Addr, cloudctl.StatusExecuting, 1+o.B%3) {
			w.trace("[%s] drift: the cloud reports %s on %s as %s for a while", tag, ip.Addr, e.ID, cloudctl.StatusExecuting)
			w.c.Label("drift:ipstatus")
			if o.C == 1 {
				w.forceFullSync()
				w.step(tag)
			}
		}
	case "addip":
		got := w.cloud.DriftAddIP(e.ID, 1+o.B%3, o.C == 1 && w.s.Node.V6)
		w.trace("[%s] drift: %v added to %s", tag, got, e.ID)
		w.c.Label("drift:addip")
	}
}

// ------------------------------------------------------------------ settle phase (C08 2, 3)

const c08Rounds = 60

// c08Settle: faults off, cached vSwitch blocks expired, one forced full sync, then
// healthy rounds until three consecutive reconciles neither mutate the cloud nor write the
// record. Returns whether a fixed point was reached.
func (w *c02World) settle() (bool, int) {
	dropped := w.cloud.ClearFaults()
	w.apiFaults = nil
	if dropped > 0 {
		w.c.Label("settle:unconsumed-faults")
	}
	w.cloud.Lock()
	w.cloud.AttachPolls = min(w.cloud.AttachPolls, 3)
	w.cloud.Unlock()
	if !w.s.Node.KeepCache {
		for _, id := range w.spec.ENISpec.VSwitchOptions {
			w.rec.vswpool.Del(id) // "ten minutes later"
		}
		w.rec.vswpool.Del("vsw-pre")
		w.mu.Lock()
		w.vswRefused = map[string]int{}
		w.mu.Unlock()
	}
	w.forceFullSync()
	w.inSettle = true
	quiet := 0
	for i := 0; i < c08Rounds; i++ {
		r := w.step(fmt.Sprintf("settle%d", i))
		w.settleTail = append(w.settleTail, r.calls)
		if len(w.settleTail) > 10 {
			w.settleTail = w.settleTail[1:]
		}
		// a quiet reconcile may still report "no capacity" or refresh sync timestamps
		if r.mutations == 0 && !r.changed {
			quiet++
		} else {
			quiet = 0
		}
		if quiet >= 3 {
			return true, i + 1
		}
	}
	return false, c08Rounds
}

type c08Final struct {
	node    *networkv1beta1.Node
	pods    map[string]*c02PodView
	cloud   []*cloudctl.ENI
	visible map[string]*cloudctl.ENI // attached, not primary/member, passes the tag filter
	all     int                      // attached besides primary, visible or not
}

func (w *c02World) final() *c08Final {
	f := &c08Final{node: w.readNode(), pods: w.podViews(), cloud: w.cloud.Snapshot(), visible: map[string]*cloudctl.ENI{}}
	for _, e := range f.cloud {
		if e.InstanceID != c02InstanceID || e.Type == aliyunClient.ENITypePrimary || e.Type == aliyunClient.ENITypeMember {
			continue
		}
		f.all++
		vis := true
		for k, v := range w.filter {
			if e.Tags[k] != v {
				vis = false
			}
		}
		if vis {
			f.visible[e.ID] = e
		}
	}
	return f
}

// c08CheckRollback: record == cloud (interfaces attached to the instance and their address
// sets) and no interface answered by a Create call is left unattached and unrecorded.
func (w *c02World) c08CheckRollback(f *c08Final) string {
	rec := f.node.Status.NetworkInterfaces
	var ids []string
	for id := range rec {
		ids = append(ids, id)
	}
	for id := range f.visible {
		if rec[id] == nil {
			ids = append(ids, id)
		}
	}
	sort.Strings(ids)
	for _, id := range ids {
		r, e := rec[id], f.visible[id]
		switch {
		case r == nil:
			return fmt.Sprintf("interface %s is attached to the instance in the cloud but missing from the record", id)
		case r.Status == aliyunClient.ENIStatusDeleting:
			// recorded for deletion: neither its attachment nor its addresses matter any more
			w.c.Label("rollback:recorded-for-deletion")
			continue
		case e == nil:
			return fmt.Sprintf("interface %s is in the record (status %s) but not attached to the instance in the cloud", id, r.Status)
		}
		for fam, pair := range []struct {
			rec   map[string]*networkv1beta1.IP
			cloud []string
		}{{r.IPv4, e.V4Addrs()}, {r.IPv6, e.V6Addrs()}} {
			cs := map[string]bool{}
			for _, a := range pair.cloud {
				cs[a] = true
				if pair.rec[a] == nil {
					return fmt.Sprintf("interface %s: address %s (family %d) is assigned in the cloud but missing from the record", id, a, 4+2*fam)
				}
			}
			keys := make([]string, 0, len(pair.rec))
			for a := range pair.rec {
				keys = append(keys, a)
			}
			sort.Strings(keys)
			for _, a := range keys {
				if !cs[a] {
					return fmt.Sprintf("interface %s: address %q (family %d) is in the record but not assigned in the cloud", id, a, 4+2*fam)
				}
			}
		}
	}
	return ""
}

func (w *c02World) c08Orphans(f *c08Final) []string {
	var out []string
	for _, e := range f.cloud {
		if w.toldCreated[e.ID] && e.InstanceID != c02InstanceID && f.node.Status.NetworkInterfaces[e.ID] == nil {
			out = append(out, e.ID)
		}
	}
	return out
}

func c08Idle(n *networkv1beta1.Node, v4 bool) (idle, pinned int) {
	for _, e := range n.Status.NetworkInterfaces {
		if e.Status != aliyunClient.ENIStatusInUse {
			continue
		}
		m := e.IPv4
		if !v4 {
			m = e.IPv6
		}
		inUse := 0
		for _, mm := range []map[string]*networkv1beta1.IP{e.IPv4, e.IPv6} {
			for _, ip := range mm {
				if ip.PodID != "" {
					inUse++
				}
			}
		}
		keep := e.NetworkInterfaceType == networkv1beta1.ENITypeTrunk || e.NetworkInterfaceTrafficMode == networkv1beta1.NetworkInterfaceTrafficModeHighPerformance || inUse > 0
		for _, ip := range m {
			if ip.PodID == "" && ip.Status == networkv1beta1.IPStatusValid {
				idle++
				if ip.Primary && keep {
					pinned++
				}
			}
		}
	}
	return
}

// c08DualImbalance: listed finding C08-dual-stack-imbalance applies - the node is dual
// stack and some interface in use holds different numbers of idle IPv4 and IPv6 addresses
// (the controller counts demand, idle and surplus per family, pods need a pair on one
// interface).
func (w *c02World) c08DualImbalance(f *c08Final) bool {
	if !(w.s.Node.V4 && w.s.Node.V6) || !c08Known("C08-dual-stack-imbalance") {
		return false
	}
	for _, e := range f.node.Status.NetworkInterfaces {
		if e.Status == aliyunClient.ENIStatusInUse && IdlesWithAvailable(e.IPv4) != IdlesWithAvailable(e.IPv6) {
			return true
		}
	}
	return false
}

// c08Room reports whether, by cloud ground truth and the declared limits, the node could
// still serve one more pod of the class (rdma or not).
func (w *c02World) c08Room(f *c08Final, rdma, growOnly bool) (bool, string) {
	n := w.s.Node
	free := min(w.flavorTotal()-len(f.visible), (n.Adapters-1-n.CloudENICut)-f.all)
	cnt := map[string]int{}
	for _, e := range f.visible {
		cnt[e.Type+"/"+e.TrafficMode]++
	}
	std, hp := aliyunClient.ENITrafficModeStandard, aliyunClient.ENITrafficModeRDMA
	// every kind of the flavor keeps its share: slots still owed to the trunk / rdma kind are
	// not available to plain secondary interfaces
	trunkOwed, rdmaOwed := 0, 0
	if n.Trunk {
		trunkOwed = max(w.flavor(aliyunClient.ENITypeTrunk, std)-cnt[aliyunClient.ENITypeTrunk+"/"+std], 0)
	}
	if n.ERDMA {
		rdmaOwed = max(w.flavor(aliyunClient.ENITypeSecondary, hp)-cnt[aliyunClient.ENITypeSecondary+"/"+hp], 0)
	}
	if free > 0 {
		if rdma {
			if rdmaOwed > 0 && free-trunkOwed > 0 {
				return true, "free rdma interface slot"
			}
		} else {
			if w.flavor(aliyunClient.ENITypeSecondary, std)-cnt[aliyunClient.ENITypeSecondary+"/"+std] > 0 && free-trunkOwed-rdmaOwed > 0 {
				return true, "free secondary interface slot"
			}
			if trunkOwed > 0 {
				return true, "free trunk interface slot"
			}
		}
	}
	ids := make([]string, 0, len(f.visible))
	for id := range f.visible {
		ids = append(ids, id)
	}
	sort.Strings(ids)
	for _, id := range ids {
		e := f.visible[id]
		r := f.node.Status.NetworkInterfaces[id]
		if r == nil || e.Status != aliyunClient.ENIStatusInUse || r.Status != aliyunClient.ENIStatusInUse {
			continue
		}
		isHP := e.TrafficMode == hp
		if rdma != isHP {
			continue
		}
		if !rdma && e.Type != aliyunClient.ENITypeSecondary && e.Type != aliyunClient.ENITypeTrunk {
			continue
		}
		// growing an interface takes addresses from ITS vSwitch: an exhausted one gives none
		grow := w.c08VSwitchUsable(e.VSwitchID, 20)
		ok4 := !n.V4 || (grow && len(e.V4) < n.V4Per) || (!growOnly && IdlesWithAvailable(r.IPv4) > 0)
		ok6 := !n.V6 || (grow && len(e.V6) < n.V6Per) || (!growOnly && IdlesWithAvailable(r.IPv6) > 0)
		if growOnly { // the idle count is taken on IPv4 when IPv4 is enabled
			ok6 = ok6 || n.V4
		}
		if ok4 && ok6 {
			return true, "room on " + id
		}
	}
	return false, ""
}

// c08VSwitchUsable: the vSwitch really has at least need free addresses and the
// controller's own cache does not hold it as exhausted / blocked (an entry lives 10 minutes).
func (w *c02World) c08VSwitchUsable(id string, need int64) bool {
	w.cloud.Lock()
	v := w.cloud.VSwitches[id]
	ok := v != nil && v.Free >= need
	w.cloud.Unlock()
	if !ok {
		return false
	}
	c, err := w.rec.vswpool.GetByID(w.ctx, w.cloud, id)
	return err == nil && c.AvailableIPCount > 0
}

// c08Ample: spare vSwitch capacity - at least one vSwitch option of the node's zone has
// plenty of free addresses (>= 200) and is not held as exhausted in the controller's cache.
// Other options may be exhausted or nearly so: the controller is expected to block a
// vSwitch the cloud refused and move on to the next.
func (w *c02World) c08Ample() bool {
	for _, id := range w.spec.ENISpec.VSwitchOptions {
		w.cloud.Lock()
		inZone := w.cloud.VSwitches[id].Zone == c02Zone
		w.cloud.Unlock()
		if inZone && w.c08VSwitchUsable(id, 200) {
			return true
		}
	}
	return false
}

// c08CheckConverged: at the fixed point every eligible pod is served and the idle count
// lies within the band, as far as the node's capacity allows.
func (w *c02World) c08CheckConverged(f *c08Final) string {
	n := w.s.Node
	has4, has6 := map[string]bool{}, map[string]bool{}
	recAddr := map[string]string{}
	for _, b := range c02Bindings(f.node.Status.NetworkInterfaces) {
		recAddr[b.addr] = b.pod
		if b.pod == "" {
			continue
		}
		if b.v6 {
			has6[b.pod] = true
		} else {
			has4[b.pod] = true
		}
	}
	ample := w.c08Ample()
	if !ample {
		w.c.Label("conv:vswitch-not-ample(skipped)")
	}
	pids := make([]string, 0, len(f.pods))
	for id := range f.pods {
		pids = append(pids, id)
	}
	sort.Strings(pids)
	for _, id := range pids {
		p := f.pods[id]
		if !p.eligible {
			continue
		}
		served := (!n.V4 || has4[id]) && (!n.V6 || has6[id])
		if served {
			continue
		}
		// a pod that reports an address can only be re-adopted onto that address
		stuck := false
		for _, a := range []string{p.v4, p.v6} {
			if a == "" {
				continue
			}
			if owner, ok := recAddr[a]; !ok || (owner != "" && owner != id) {
				stuck = true
			}
		}
		if stuck {
			w.c.Label("conv:takeover-address-gone")
			continue
		}
		if p.v4 != "" || p.v6 != "" {
			// reports one family only; the other one must come from the same interface
			w.c.Label("conv:partial-report")
			continue
		}
		if !ample {
			continue
		}
		if room, why := w.c08Room(f, p.erdma, false); room {
			if w.c08DualImbalance(f) {
				w.c.Label("known:C08-dual-stack-imbalance")
				continue
			}
			return fmt.Sprintf("fixed point reached but pod %s (rdma=%v) has no address although capacity is spare (%s)", id, p.erdma, why)
		}
		w.c.Label("conv:capacity-exhausted")
	}
	idle, pinned := c08Idle(f.node, n.V4)
	if !ample {
		// without spare vSwitch capacity every pass fails while adding addresses and the
		// controller skips its trimming step; the convergence clause presupposes capacity
		return ""
	}
	if idle < n.Min {
		if room, why := w.c08Room(f, false, true); room {
			if w.c08DualImbalance(f) {
				w.c.Label("known:C08-dual-stack-imbalance")
				return ""
			}
			return fmt.Sprintf("fixed point reached with %d idle addresses, below the pool minimum %d, although capacity is spare (%s)", idle, n.Min, why)
		}
		w.c.Label("conv:min-capacity-exhausted")
	}
	if idle-pinned > n.Max {
		return fmt.Sprintf("fixed point reached with %d idle addresses (%d of them primaries of interfaces that must stay), above the pool maximum %d", idle, pinned, n.Max)
	}
	if pinned > 0 && idle > n.Max {
		w.c.Label("conv:above-max-by-pinned-primaries")
	}
	return ""
}

// ------------------------------------------------------------------ run

func c02RunLoop(c *vt.Ctx, s c02Scenario) { c02RunLoopW(c, s, nil) }

func c02RunLoopW(c *vt.Ctx, s c02Scenario, witness *string) {
	w := c02NewWorld(c, s)
	w.witness = witness
	w.trace("node %+v", s.Node)
	w.trace("flavor %+v", w.spec.Flavor)
	w.trace("initial record: %s", c02RenderRecord(w.readNode().Status.NetworkInterfaces))
	for i, o := range s.Ops {
		w.apply(i, o)
	}
	// label the stack / flavor classes
	switch {
	case s.Node.EFLO:
		c.Label("stack:eflo-v4")
	case s.Node.V4 && s.Node.V6:
		c.Label("stack:dual")
	case s.Node.V4:
		c.Label("stack:v4")
	default:
		c.Label("stack:v6")
	}
	if s.Node.Lenient {
		c.Label("describe-by-id:lenient")
	} else {
		c.Label("describe-by-id:strict")
	}
	if s.Node.Trunk {
		c.Label("flavor:trunk")
	}
	if s.Node.ERDMA {
		c.Label("flavor:erdma")
	}
	for k := range w.seenFault {
		c.Label("fault:" + k)
	}

	fixed, rounds := w.settle()
	f := w.final()

	if s.Mode == "C08" {
		w.mu.Lock()
		if w.atQuota {
			c.Label("nt:quota-boundary")
			w.nt = true
		}
		for _, k := range []string{"attach/before", "attach/after", "wait/before", "create/after"} {
			if w.seenFault[k] {
				c.Label("nt:fault-between-create-and-inuse")
				w.nt = true
			}
		}
		if w.seenFault["assign4/partial"] || w.seenFault["assign6/partial"] {
			c.Label("nt:partial-assign")
			w.nt = true
		}
		w.mu.Unlock()

		orphans := w.c08Orphans(f)
		if len(orphans) > 0 {
			if cls := w.c08OrphanClass(orphans, f); cls != "" {
				c.Label("known:" + cls)
			} else {
				w.fail("C08 rollback: interface(s) %v were created by a controller call, are not attached to the instance and are not recorded anywhere (leaked)\nrecord: %s", orphans, c02RenderRecord(f.node.Status.NetworkInterfaces))
			}
		}
		if !fixed {
			switch {
			case s.Node.CloudENICut > 0 || f.all > len(f.visible):
				// the cloud admits fewer interfaces than the node declares (or interfaces the
				// controller cannot see use up the quota): there is no spare capacity to
				// converge into, the precondition of the convergence clause does not hold
				c.Label("conv:declared-limit-not-deliverable(skipped)")
			case !w.c08Ample():
				// without spare vSwitch capacity the convergence clause does not apply
				c.Label("conv:vswitch-not-ample(skipped)")
			case w.c08OscillationClass(f) != "":
				c.Label("known:" + w.c08OscillationClass(f))
			default:
				w.fail("C08 convergence: no fixed point within %d healthy reconciles after the history (each still mutated the cloud or wrote the record); rounds that requested addresses although enough were idle: %d\nrecord: %s", rounds, w.overDemand, c02RenderRecord(f.node.Status.NetworkInterfaces))
			}
			if w.nt {
				c.NonTrivial()
			}
			return
		}
		c.Labelf("settle-rounds:%s", c08Bucket(rounds))
		if w.needSync() {
			c.Inconclusive("full sync still pending at the fixed point")
		}
		if msg := w.c08CheckRollback(f); msg != "" {
			w.fail("C08 rollback: after the forced full sync and %d healthy reconciles record and cloud disagree: %s\nrecord: %s", rounds, msg, c02RenderRecord(f.node.Status.NetworkInterfaces))
		}
		if msg := w.c08CheckConverged(f); msg != "" {
			w.fail("C08 convergence: %s\nrecord: %s", msg, c02RenderRecord(f.node.Status.NetworkInterfaces))
		}
	} else {
		if !fixed {
			c.Label("c08-no-fixed-point-in-c02-mode")
		}
	}
	if w.nt {
		c.NonTrivial()
	}
}

func c08Bucket(n int) string {
	switch {
	case n <= 4:
		return "<=4"
	case n <= 8:
		return "5-8"
	case n <= 16:
		return "9-16"
	default:
		return ">16"
	}
}

// c08OscillationClass classifies a missing fixed point as one of the recorded balancer
// oscillations (the controller alternately assigns and unassigns idle addresses, nothing
// else) and returns the id of the finding if it is listed, "" otherwise.
func (w *c02World) c08OscillationClass(f *c08Final) string {
	if len(w.settleTail) < 10 {
		return ""
	}
	onlyAddresses := true // the steady state only assigns / unassigns addresses
	for _, round := range w.settleTail {
		for i := range round {
			switch round[i].Kind {
			case cloudctl.KCreate, cloudctl.KAttach, cloudctl.KDetach, cloudctl.KDelete:
				onlyAddresses = false
			}
		}
	}
	n := w.s.Node
	imbalance, rdmaIdle := false, false
	for _, e := range f.node.Status.NetworkInterfaces {
		if e.Status != aliyunClient.ENIStatusInUse {
			continue
		}
		i4, i6 := IdlesWithAvailable(e.IPv4), IdlesWithAvailable(e.IPv6)
		for _, m := range []map[string]*networkv1beta1.IP{e.IPv4, e.IPv6} {
			for _, ip := range m { // addresses on their way out were idle a round ago
				if ip.Status == networkv1beta1.IPStatusDeleting && ip.PodID == "" {
					imbalance = imbalance || (n.V4 && n.V6)
				}
			}
		}
		if n.V4 && n.V6 && i4 != i6 {
			imbalance = true
		}
		if e.NetworkInterfaceTrafficMode == networkv1beta1.NetworkInterfaceTrafficModeHighPerformance && i4+i6 > 0 {
			rdmaIdle = true
		}
	}
	switch {
	case w.overDemand > 0 && w.c08HiddenIdle(f) != "" && c08Known("C08-exhausted-vswitch-hides-idle"):
		return "C08-exhausted-vswitch-hides-idle"
	case w.overDemand > 0 && onlyAddresses && c08Known("C08-greedy-demand-oscillation"):
		return "C08-greedy-demand-oscillation"
	case n.ERDMA && rdmaIdle && c08Known("C08-rdma-idle-oscillation"):
		return "C08-rdma-idle-oscillation"
	case imbalance && c08Known("C08-dual-stack-imbalance"):
		return "C08-dual-stack-imbalance"
	}
	return ""
}

// c08HiddenIdle: candidate finding C08-exhausted-vswitch-hides-idle - an interface in use
// of the normal pool holds idle addresses, but the controller's vSwitch cache says its
// vSwitch has no address left (exhausted or blocked), so validateENI filters the interface
// out and assignEniWithOptions does not count its idle addresses: the controller requests
// addresses / a new interface every pass and adjustPool releases them again. Returns the
// interface id ("" if none).
func (w *c02World) c08HiddenIdle(f *c08Final) string {
	ids := make([]string, 0, len(f.node.Status.NetworkInterfaces))
	for id := range f.node.Status.NetworkInterfaces {
		ids = append(ids, id)
	}
	sort.Strings(ids)
	for _, id := range ids {
		e := f.node.Status.NetworkInterfaces[id]
		if e.Status != aliyunClient.ENIStatusInUse || e.NetworkInterfaceTrafficMode == networkv1beta1.NetworkInterfaceTrafficModeHighPerformance {
			continue
		}
		if IdlesWithAvailable(e.IPv4)+IdlesWithAvailable(e.IPv6) == 0 {
			continue
		}
		if v, err := w.rec.vswpool.GetByID(w.ctx, w.cloud, e.VSwitchID); err == nil && v.AvailableIPCount <= 0 {
			return id
		}
	}
	return ""
}

// c08DoubleFaultOrphan decides whether every leaked interface belongs to the recorded
// class C08-double-fault-orphan: its rollback delete failed AND a record write failed
// before the interface was ever persisted in the record.
func (w *c02World) c08DoubleFaultOrphan(ids []string) bool {
	for _, id := range ids {
		if !(w.deleteFailed[id] && w.writeFailAtCreate[id] && !w.everRecorded[id]) {
			return false
		}
	}
	return true
}

// c08OrphanClass returns the id of the listed finding every leaked interface belongs to:
// C08-double-fault-orphan (never persisted: rollback delete and record write both failed)
// or C08-sync-drops-detached-eni (persisted, e.g. as Deleting after a failed rollback
// delete, then dropped from the record by a full sync without being deleted). That
// finding only applies where the full sync cannot see the detached interface: under the
// strict Describe semantics (by-id query also filtered by instance id), or for kinds other
// than Secondary, which the sync drops without looking. Under the lenient semantics a
// leaked Secondary interface is a violation.
func (w *c02World) c08OrphanClass(ids []string, f *c08Final) string {
	if c08Known("C08-double-fault-orphan") && w.c08DoubleFaultOrphan(ids) {
		return "C08-double-fault-orphan"
	}
	if !c08Known("C08-sync-drops-detached-eni") {
		return ""
	}
	for _, id := range ids {
		// recorded once, dropped from the record later, still exists detached: only the full
		// sync removes a record entry without deleting the interface
		if c08Known("C08-double-fault-orphan") && w.c08DoubleFaultOrphan([]string{id}) {
			continue
		}
		invisible := !w.s.Node.Lenient
		for _, e := range f.cloud {
			if e.ID == id && e.Type != aliyunClient.ENITypeSecondary {
				invisible = true
			}
		}
		if !w.everRecorded[id] || !invisible {
			return ""
		}
	}
	return "C08-sync-drops-detached-eni"
}
