package node

// Shared closed-loop world for properties C02 and C08: the real ReconcileNode (fields set
// directly) over controller-runtime's in-memory fake client (types.Scheme, status
// subresources, spec.nodeName index, interceptors for write faults and real
// optimistic-concurrency conflicts) and the cloudctl simulator as register.Interface, with
// the real vswitch.SwitchPool. Generated histories are interpreted step by step; every
// persisted Node CR is checked against the C02 binding invariants, every cloud call is
// checked on arrival against the C08 quota monitors (knowledge ledger), and a settle phase
// checks C08 convergence and rollback. See /verif/DESIGN.md section 3 (C02, C08).

import (
	"context"
	"fmt"
	"math/rand"
	"sort"
	"strings"
	"sync"
	"time"

	"github.com/go-logr/logr"
	"go.opentelemetry.io/otel/trace/noop"
	corev1 "k8s.io/api/core/v1"
	k8sErr "k8s.io/apimachinery/pkg/api/errors"
	"k8s.io/apimachinery/pkg/api/resource"
	metav1 "k8s.io/apimachinery/pkg/apis/meta/v1"
	"k8s.io/apimachinery/pkg/runtime"
	"k8s.io/apimachinery/pkg/runtime/schema"
	k8stypes "k8s.io/apimachinery/pkg/types"
	"k8s.io/apimachinery/pkg/util/wait"
	"pgregory.net/rapid"
	"sigs.k8s.io/controller-runtime/pkg/client"
	"sigs.k8s.io/controller-runtime/pkg/client/fake"
	"sigs.k8s.io/controller-runtime/pkg/client/interceptor"
	logf "sigs.k8s.io/controller-runtime/pkg/log"

	"github.com/AliyunContainerService/terway/deviceplugin"
	aliyunClient "github.com/AliyunContainerService/terway/pkg/aliyun/client"
	networkv1beta1 "github.com/AliyunContainerService/terway/pkg/apis/network.alibabacloud.com/v1beta1"
	"github.com/AliyunContainerService/terway/pkg/backoff"
	"github.com/AliyunContainerService/terway/pkg/vswitch"
	"github.com/AliyunContainerService/terway/types"
	"github.com/AliyunContainerService/terway/zz_verif/cloudctl"
	"github.com/AliyunContainerService/terway/zz_verif/vt"
)

// ------------------------------------------------------------------ scenario

type c02VSw struct {
	Free      int  `json:"free"`
	OtherZone bool `json:"other_zone,omitempty"`
}

type c02Node struct {
	V4          bool     `json:"v4"`
	V6          bool     `json:"v6"`
	EFLO        bool     `json:"eflo,omitempty"`
	Adapters    int      `json:"adapters"`
	V4Per       int      `json:"v4_per"`
	V6Per       int      `json:"v6_per"`
	Trunk       bool     `json:"trunk,omitempty"`
	ERDMA       bool     `json:"erdma,omitempty"`
	SecCut      int      `json:"sec_cut,omitempty"` // flavor: secondary count lowered by this much
	Min         int      `json:"min"`
	Max         int      `json:"max"`
	VSw         []c02VSw `json:"vsw"`
	Policy      string   `json:"policy"`
	TagFilter   bool     `json:"tag_filter,omitempty"`
	AttachPolls int      `json:"attach_polls,omitempty"`
	DetachPolls int      `json:"detach_polls,omitempty"`
	CloudENICut int      `json:"cloud_eni_cut,omitempty"`    // the cloud admits this many interfaces fewer than declared
	Synced      bool     `json:"synced,omitempty"`           // initial record carries a future NextSyncOpenAPITime
	Lenient     bool     `json:"lenient_describe,omitempty"` // a by-id Describe with an instance id also answers interfaces attached to no instance
	KeepCache   bool     `json:"keep_vsw_cache,omitempty"`   // the settle phase starts before the controller's vSwitch cache entries (10 min TTL) expire
	NoRuntime   bool     `json:"no_runtime,omitempty"`       // the node's NodeRuntime object does not exist until the daemon first reports (control plane upgraded first)
}

// c02PreBind is one (possibly partial) pod<->address relation in the initial state.
type c02PreBind struct {
	I4      int    `json:"i4"`
	I6      int    `json:"i6"`
	Slot    int    `json:"slot"`
	Rec     string `json:"rec"`     // what the record says: full | nouid | none | v4only | v6only
	Alive   bool   `json:"alive"`   // the pod object exists
	Reports string `json:"reports"` // what the pod status reports: both | v4 | v6 | none
}

// c02PreENI is an interface that exists (attached) before the controller starts.
type c02PreENI struct {
	Type      string       `json:"type"` // secondary | trunk | erdma
	N4        int          `json:"n4"`
	N6        int          `json:"n6"`
	Rec       string       `json:"rec"`                  // absent | exact | stale
	RecStatus string       `json:"rec_status,omitempty"` // status in the record ("" = InUse)
	Untagged  bool         `json:"untagged,omitempty"`   // does not carry the filter tag
	Del       []int        `json:"del,omitempty"`        // non-primary v4 address indexes marked Deleting in the record
	Binds     []c02PreBind `json:"binds,omitempty"`
}

type c02Slot struct {
	ERDMA bool `json:"erdma,omitempty"`
	// container layout of an RDMA pod: which regular / init containers carry the
	// aliyun/erdma limit (empty: one container that carries it)
	RDMACont []bool `json:"rdma_cont,omitempty"`
	RDMAInit []bool `json:"rdma_init,omitempty"`
	HostNet  bool   `json:"host_net,omitempty"`
	PodENI   bool   `json:"pod_eni,omitempty"`
}

type c02Op struct {
	Kind   string           `json:"kind"`
	A      int              `json:"a,omitempty"`
	B      int              `json:"b,omitempty"`
	C      int              `json:"c,omitempty"`
	API    string           `json:"api,omitempty"`
	Faults []cloudctl.Fault `json:"faults,omitempty"`
}

type c02Scenario struct {
	Mode  string      `json:"mode"` // C02 | C08
	Node  c02Node     `json:"node"`
	Pre   []c02PreENI `json:"pre,omitempty"`
	Slots []c02Slot   `json:"slots"`
	Ops   []c02Op     `json:"ops"`
}

const (
	c02NodeName   = "node-a"
	c02InstanceID = "i-verif"
	c02Zone       = "zone-a"
	c02NS         = "default"
)

var c02FaultCodes = []string{"", "EniPerInstanceLimitExceeded", "InvalidVSwitchId.IpNotEnough", "QuotaExceeded.PrivateIpAddress", "Throttling", "InvalidOperation.Ipv4CountExceeded", "InvalidOperation.Ipv6CountExceeded", "InvalidOperation.InvalidEniState"}

// c02GenFaults draws one fault; a throttled Delete may persist for up to three calls.
func c02GenFaults(t *rapid.T, eflo bool) []cloudctl.Fault {
	f := c02GenFault(t, eflo)
	out := []cloudctl.Fault{f}
	if f.Kind == cloudctl.KDelete && f.Mode == cloudctl.FBefore {
		for i := rapid.IntRange(0, 2).Draw(t, "persist"); i > 0; i-- {
			out = append(out, f)
		}
	}
	return out
}

func c02GenFault(t *rapid.T, eflo bool) cloudctl.Fault {
	kinds := []string{cloudctl.KCreate, cloudctl.KCreate, cloudctl.KCreate, cloudctl.KAttach, cloudctl.KAttach, cloudctl.KAttach, cloudctl.KWait, cloudctl.KWait,
		cloudctl.KAssign4, cloudctl.KAssign4, cloudctl.KAssign4, cloudctl.KAssign6, cloudctl.KAssign6,
		cloudctl.KUnAssign4, cloudctl.KUnAssign6, cloudctl.KDelete, cloudctl.KDelete, cloudctl.KDelete, cloudctl.KDetach, cloudctl.KDescribe, cloudctl.KVSwitch}
	f := cloudctl.Fault{Kind: rapid.SampledFrom(kinds).Draw(t, "fkind")}
	f.Mode = rapid.SampledFrom([]string{cloudctl.FBefore, cloudctl.FBefore, cloudctl.FAfter, cloudctl.FPartial}).Draw(t, "fmode")
	switch f.Kind {
	case cloudctl.KDescribe, cloudctl.KVSwitch, cloudctl.KWait:
		f.Mode = cloudctl.FBefore
	case cloudctl.KAssign4, cloudctl.KAssign6:
	default:
		if f.Mode == cloudctl.FPartial {
			f.Mode = cloudctl.FAfter
		}
	}
	f.Code = rapid.SampledFrom(c02FaultCodes).Draw(t, "fcode")
	if eflo && rapid.IntRange(0, 3).Draw(t, "eflocode") == 0 {
		f.Code = "1013"
	}
	if f.Mode == cloudctl.FPartial {
		f.K = rapid.IntRange(0, 6).Draw(t, "fk")
	}
	return f
}

func c02GenNode(t *rapid.T, mode string) c02Node {
	n := c02Node{}
	switch st := rapid.IntRange(0, 19).Draw(t, "stack"); {
	case st < 9:
		n.V4 = true
	case st < 17:
		n.V4, n.V6 = true, true
	default:
		n.V6 = true
	}
	n.Adapters = rapid.IntRange(2, vt.Scale(6, 8)).Draw(t, "adapters")
	n.V4Per = rapid.SampledFrom([]int{1, 2, 3, 3, 4, 5, 6, 8, 10, 11, 15, 20}).Draw(t, "v4per")
	n.V6Per = n.V4Per // the daemon only enables dual stack when both limits are equal
	if !n.V4 {
		n.V6Per = rapid.SampledFrom([]int{1, 2, 3, 5, 10, 12, 20}).Draw(t, "v6per")
	}
	if rapid.IntRange(0, 11).Draw(t, "eflo") == 0 {
		// LinJun / EFLO node: IPv4 only, secondary interfaces only
		n.EFLO, n.V4, n.V6 = true, true, false
	}
	if !n.EFLO {
		n.Trunk = rapid.IntRange(0, 3).Draw(t, "trunk") == 0
		n.ERDMA = rapid.IntRange(0, 3).Draw(t, "erdma") == 0
		if rapid.IntRange(0, 5).Draw(t, "seccut") == 0 {
			n.SecCut = rapid.IntRange(1, 2).Draw(t, "seccutn")
		}
		n.TagFilter = rapid.IntRange(0, 4).Draw(t, "tagfilter") == 0
	}
	n.Max = rapid.SampledFrom([]int{0, 0, 1, 2, 3, 5, 8, 12}).Draw(t, "max")
	n.Min = rapid.IntRange(0, n.Max).Draw(t, "min")
	nv := rapid.IntRange(1, 3).Draw(t, "nvsw")
	for i := 0; i < nv; i++ {
		v := c02VSw{Free: rapid.SampledFrom([]int{0, 1, 3, 7, 30, 500, 500, 500}).Draw(t, "free")}
		v.OtherZone = i > 0 && rapid.IntRange(0, 5).Draw(t, "otherzone") == 0
		n.VSw = append(n.VSw, v)
	}
	if mode == "C08" {
		switch rapid.IntRange(0, 2).Draw(t, "ample") {
		case 1: // every option has plenty of addresses
			for i := range n.VSw {
				n.VSw[i].Free = 500
			}
		case 2: // one option of the zone has plenty, the others are as drawn (exhausted, nearly exhausted, ...)
			k := rapid.IntRange(0, len(n.VSw)-1).Draw(t, "amplevsw")
			n.VSw[k].Free, n.VSw[k].OtherZone = 500, false
			if n.V6 && rapid.Bool().Draw(t, "nearlyexhausted") {
				// IPv6 side: the other options hold one or a few addresses, so the first
				// interface placed there uses the vSwitch up while the cached count stays positive
				for i := range n.VSw {
					if i != k {
						n.VSw[i].Free = rapid.SampledFrom([]int{1, 1, 3}).Draw(t, "fewfree")
					}
				}
			}
		}
	}
	n.Policy = rapid.SampledFrom([]string{"ordered", "random", "most"}).Draw(t, "policy")
	n.AttachPolls = rapid.SampledFrom([]int{0, 0, 0, 1, 2, 9}).Draw(t, "attachpolls")
	n.DetachPolls = rapid.SampledFrom([]int{0, 0, 1, 3}).Draw(t, "detachpolls")
	if rapid.IntRange(0, 7).Draw(t, "cloudcut") == 0 {
		n.CloudENICut = 1
	}
	n.Synced = rapid.IntRange(0, 3).Draw(t, "synced") == 0
	// the real API's answer to "describe id X of instance I" for a detached X cannot be
	// confirmed offline: quantify over both semantics
	n.Lenient = rapid.Bool().Draw(t, "lenient")
	if mode == "C08" {
		n.KeepCache = rapid.IntRange(0, 3).Draw(t, "keepcache") > 0
	}
	if mode == "C02" {
		// node taken over from a previous version: the daemon has not published a NodeRuntime yet
		n.NoRuntime = rapid.IntRange(0, 3).Draw(t, "noruntime") == 0
	}
	return n
}

func c02GenPre(t *rapid.T, n c02Node, nSlots int, mode string) []c02PreENI {
	var out []c02PreENI
	np := rapid.IntRange(0, min(3, n.Adapters-1)).Draw(t, "npre")
	hasTrunk := false
	for i := 0; i < np; i++ {
		p := c02PreENI{Type: "secondary"}
		if !n.EFLO {
			p.Type = rapid.SampledFrom([]string{"secondary", "secondary", "secondary", "trunk", "erdma"}).Draw(t, "ptype")
		}
		if p.Type == "trunk" {
			if hasTrunk {
				p.Type = "secondary"
			}
			hasTrunk = true
		}
		p.N4 = rapid.IntRange(1, n.V4Per+1).Draw(t, "pn4")
		if n.V6 {
			p.N6 = rapid.IntRange(0, n.V6Per+1).Draw(t, "pn6")
		}
		p.Rec = rapid.SampledFrom([]string{"exact", "exact", "exact", "stale", "absent"}).Draw(t, "prec")
		p.RecStatus = rapid.SampledFrom([]string{"", "", "", "", "Deleting", "Attaching", "Detaching"}).Draw(t, "precstatus")
		p.Untagged = n.TagFilter && rapid.IntRange(0, 3).Draw(t, "untagged") == 0
		nd := rapid.IntRange(0, 2).Draw(t, "ndel")
		for j := 0; j < nd; j++ {
			p.Del = append(p.Del, rapid.IntRange(1, 20).Draw(t, "del"))
		}
		nb := rapid.IntRange(0, 3).Draw(t, "nbind")
		for j := 0; j < nb; j++ {
			b := c02PreBind{
				I4:      rapid.IntRange(0, 20).Draw(t, "i4"),
				I6:      rapid.IntRange(0, 20).Draw(t, "i6"),
				Slot:    rapid.IntRange(0, nSlots-1).Draw(t, "bslot"),
				Rec:     rapid.SampledFrom([]string{"full", "full", "nouid", "none", "v4only", "v6only"}).Draw(t, "brec"),
				Alive:   rapid.IntRange(0, 4).Draw(t, "alive") > 0,
				Reports: rapid.SampledFrom([]string{"both", "both", "both", "v4", "v6", "none"}).Draw(t, "reports"),
			}
			if n.NoRuntime && rapid.IntRange(0, 1).Draw(t, "legacy") == 0 {
				b.Rec, b.Alive = "nouid", true // bindings written before PodUID existed, pods still running
			}
			p.Binds = append(p.Binds, b)
		}
		if mode == "C08" {
			// C08 does not quantify over drifted or partially bound records: pre-existing
			// interfaces are either recorded exactly or not yet known to the controller
			p.RecStatus, p.Del, p.Untagged = "", nil, false
			if p.Rec == "stale" {
				p.Rec = "exact"
			}
			for j := range p.Binds {
				p.Binds[j].Rec, p.Binds[j].Alive = "full", true
				if p.Binds[j].Reports != "none" {
					p.Binds[j].Reports = "both"
				}
			}
			if p.Rec == "absent" {
				p.Binds = nil
			}
			p.N4, p.N6 = min(p.N4, n.V4Per), min(p.N6, n.V6Per)
			if !n.V4 {
				p.N4 = 1 // an IPv6-only node never asked for secondary IPv4 addresses
			}
			if (p.Type == "erdma" && !n.ERDMA) || (p.Type == "trunk" && !n.Trunk) {
				p.Type = "secondary" // only kinds the flavor knows
			}
		}
		out = append(out, p)
	}
	return out
}

func c02GenOp(t *rapid.T, mode string, n c02Node, nSlots int) c02Op {
	kinds := []string{"create", "create", "create", "create", "delete", "delete", "exit", "cniadd", "cniadd", "reportdeleted", "reportdeleted",
		"reconcile", "reconcile", "reconcile", "reconcile", "reconcile", "fullsync", "drift", "restart", "apifault", "cloudfault"}
	if mode == "C08" {
		// C08 quantifies over pod histories and fault placements, not over out-of-band
		// drift or controller restarts
		kinds = []string{"create", "create", "create", "create", "create", "delete", "delete", "exit", "cniadd", "cniadd", "reportdeleted", "reportdeleted",
			"reconcile", "reconcile", "reconcile", "reconcile", "reconcile", "reconcile", "reconcile", "fullsync", "apifault", "apifault",
			"cloudfault", "cloudfault", "episode", "episode", "episode", "episode", "episode", "burst"}
	} else {
		kinds = append(kinds, "burst", "drift", "restart")
	}
	o := c02Op{Kind: rapid.SampledFrom(kinds).Draw(t, "kind")}
	switch o.Kind {
	case "create":
		o.A = rapid.IntRange(0, nSlots-1).Draw(t, "slot")
	case "burst": // several pods at once, then a reconcile
		o.A = rapid.IntRange(0, nSlots-1).Draw(t, "slot")
		o.B = rapid.IntRange(2, nSlots).Draw(t, "n")
	case "delete", "exit", "cniadd", "reportdeleted":
		o.A = rapid.IntRange(0, 31).Draw(t, "k")
	case "reconcile":
		o.B = rapid.IntRange(1, 3).Draw(t, "times")
	case "drift":
		o.API = rapid.SampledFrom([]string{"rmip", "rmip", "rmeni", "detach", "addip", "addeni"}).Draw(t, "drift")
		if n.EFLO && rapid.IntRange(0, 1).Draw(t, "ipstatus") == 0 {
			// LingJun: the cloud reports an existing address in a transient status for the
			// next 1..3 observations; C = 1: a full sync happens right away
			o.API = "ipstatus"
		}
		o.A = rapid.IntRange(0, 7).Draw(t, "eni")
		o.B = rapid.IntRange(0, 23).Draw(t, "addr")
		o.C = rapid.IntRange(0, 1).Draw(t, "v6")
	case "apifault":
		o.API = rapid.SampledFrom([]string{"conflict", "conflict", "statuserr", "statusafter", "listpods", "getruntime"}).Draw(t, "api")
		o.B = rapid.IntRange(1, 2).Draw(t, "times")
	case "cloudfault":
		nf := rapid.IntRange(1, 3).Draw(t, "nf")
		for i := 0; i < nf; i++ {
			o.Faults = append(o.Faults, c02GenFaults(t, n.EFLO)...)
		}
	case "episode": // faults (cloud and/or API server) placed right before demand arrives
		nf := rapid.IntRange(1, 3).Draw(t, "nf")
		for i := 0; i < nf; i++ {
			o.Faults = append(o.Faults, c02GenFaults(t, n.EFLO)...)
		}
		o.API = rapid.SampledFrom([]string{"", "", "", "conflict", "statuserr", "statusafter"}).Draw(t, "api")
		o.A = rapid.IntRange(0, nSlots-1).Draw(t, "slot")
		o.B = rapid.IntRange(1, nSlots).Draw(t, "n")
		o.C = rapid.IntRange(1, 3).Draw(t, "times")
	}
	return o
}

// c02GenRDMALayout draws the containers of an RDMA pod: 1..3 regular and 0..2 init
// containers, the aliyun/erdma limit on a non-empty subset of them. Over-weighted: only the
// first container, only an init container, every container but the last.
func c02GenRDMALayout(t *rapid.T) (cont, init []bool) {
	cont = make([]bool, rapid.IntRange(1, 3).Draw(t, "ncont"))
	init = make([]bool, rapid.IntRange(0, 2).Draw(t, "ninit"))
	switch rapid.SampledFrom([]string{"first", "first", "init", "init", "notlast", "notlast", "all", "random"}).Draw(t, "rdma_layout") {
	case "first":
		cont[0] = true
		if len(cont) == 1 {
			cont = append(cont, false) // a sidecar without the limit comes last
		}
	case "init":
		if len(init) == 0 {
			init = []bool{false}
		}
		init[rapid.IntRange(0, len(init)-1).Draw(t, "which_init")] = true
	case "notlast":
		if len(cont) == 1 {
			cont = append(cont, false)
		}
		for i := 0; i < len(cont)-1; i++ {
			cont[i] = true
		}
	case "all":
		for i := range cont {
			cont[i] = true
		}
		for i := range init {
			init[i] = true
		}
	default:
		any := false
		for i := range cont {
			cont[i] = rapid.Bool().Draw(t, "cont_limit")
			any = any || cont[i]
		}
		for i := range init {
			init[i] = rapid.Bool().Draw(t, "init_limit")
			any = any || init[i]
		}
		if !any {
			cont[0] = true
		}
	}
	return cont, init
}

func c02GenLoop(mode string) func(t *rapid.T) c02Scenario {
	return func(t *rapid.T) c02Scenario {
		s := c02Scenario{Mode: mode}
		s.Node = c02GenNode(t, mode)
		nSlots := rapid.IntRange(3, vt.Scale(8, 12)).Draw(t, "nslots")
		for i := 0; i < nSlots; i++ {
			sl := c02Slot{}
			sl.ERDMA = s.Node.ERDMA && rapid.IntRange(0, 3).Draw(t, "slot_erdma") == 0
			if sl.ERDMA {
				sl.RDMACont, sl.RDMAInit = c02GenRDMALayout(t)
			}
			sl.HostNet = rapid.IntRange(0, 11).Draw(t, "slot_hostnet") == 0
			sl.PodENI = rapid.IntRange(0, 11).Draw(t, "slot_podeni") == 0
			s.Slots = append(s.Slots, sl)
		}
		s.Pre = c02GenPre(t, s.Node, nSlots, mode)
		if mode == "C08" {
			for _, p := range s.Pre {
				if p.Rec == "absent" {
					s.Node.Synced = false // an unknown interface is only found by the first full sync
				}
			}
		}
		nops := rapid.IntRange(1, vt.Scale(22, 40)).Draw(t, "nops")
		for i := 0; i < nops; i++ {
			s.Ops = append(s.Ops, c02GenOp(t, mode, s.Node, nSlots))
		}
		return s
	}
}

// ------------------------------------------------------------------ world

type c02LivePod struct {
	slot   int
	name   string
	uid    string
	cniAdd bool
}

type c02Gone struct {
	uid      string
	reported bool
}

type c02PodView struct {
	id       string
	uid      string
	erdma    bool
	v4, v6   string
	eligible bool
}

type c02DropRecorder struct{}

func (c02DropRecorder) Event(runtime.Object, string, string, string)                  {}
func (c02DropRecorder) Eventf(runtime.Object, string, string, string, ...interface{}) {}
func (c02DropRecorder) AnnotatedEventf(runtime.Object, map[string]string, string, string, string, ...interface{}) {
}

// c08KENI is what the controller has been told about one interface.
type c08KENI struct {
	v4, v6   map[string]bool
	counted  bool // counts against the instance quota in the controller's own bookkeeping
	typ      string
	mode     string
	byCreate bool // id was answered by a successful Create call
}

type c08Mon struct{ kind, msg string }

type c02World struct {
	c     *vt.Ctx
	s     c02Scenario
	cloud *cloudctl.Cloud
	base  client.WithWatch
	cli   client.WithWatch
	rec   *ReconcileNode
	ctx   context.Context

	spec   networkv1beta1.NodeSpec
	filter map[string]string

	live    map[int]*c02LivePod
	gone    []*c02Gone
	uidSeq  int
	clock   time.Time // virtual time for NodeRuntime stamps
	everPod map[string]bool

	apiFaults []string
	writes    int // successful Node status writes of the current reconcile
	writeErrs int

	// C08 knowledge ledger and monitor findings (filled from simulator hooks, which run on
	// controller goroutines; read after Reconcile returned)
	mu                                            sync.Mutex
	k                                             map[string]*c08KENI
	monitor                                       []c08Mon
	atQuota                                       bool // a monitor was evaluated at a boundary
	seenFault                                     map[string]bool
	toldCreated                                   map[string]bool
	deleteFailed, everRecorded, writeFailAtCreate map[string]bool
	overDemand                                    int // settle rounds in which addresses were requested although enough were idle
	inSettle                                      bool
	writeLost                                     bool              // a record write failed and no later pass has persisted a full sync yet
	efloCollisionENI                              map[string]bool   // ... per interface
	efloCollision                                 bool              // a half-created EFLO address was answered while the record already held one under the empty key
	refused                                       map[string]int    // interface -> call seq of an assign the cloud refused with a count-exceeded code; cleared by the next full sync answer
	vswRefused                                    map[string]int    // vSwitch -> call seq of a create / assign the cloud refused for lack of addresses; cleared when the controller's vSwitch cache expires or is rebuilt
	passFirstSeq                                  int               // sequence number of the first cloud call of the running pass
	drifted                                       map[string]string // addresses removed in the cloud out of band (addr -> interface) since the last persisted full sync
	failedWrites                                  int               // 1 if the latest pass whose record write failed had changed the cloud (the controller then must resync)
	settleTail                                    [][]cloudctl.Call // calls of the last settle rounds

	nt      bool
	witness *string // non-nil in a witness run: receives the violation message
}

var c02Once sync.Once

func c02Hygiene() {
	c02Once.Do(func() { logf.SetLogger(logr.Discard()) })
	rand.Seed(1) //nolint:staticcheck // vSwitch policy "random" draws from the global source: make cases repeatable
	VerifSleepDivisor = 1000000
	bo := wait.Backoff{Duration: time.Microsecond, Factor: 1, Steps: 3}
	backoff.OverrideBackoff(map[string]wait.Backoff{
		backoff.ENICreate:     {Duration: time.Microsecond, Factor: 1, Steps: 2},
		backoff.ENIIPOps:      bo,
		backoff.ENIOps:        bo,
		backoff.WaitENIStatus: {Duration: time.Microsecond, Factor: 1, Steps: 8},
	})
}

func c02NewWorld(c *vt.Ctx, s c02Scenario) *c02World {
	c02Hygiene()
	w := &c02World{c: c, s: s, ctx: context.Background(), live: map[int]*c02LivePod{}, everPod: map[string]bool{},
		k: map[string]*c08KENI{}, seenFault: map[string]bool{}, toldCreated: map[string]bool{}, deleteFailed: map[string]bool{}, everRecorded: map[string]bool{}, writeFailAtCreate: map[string]bool{}, drifted: map[string]string{}, refused: map[string]int{}, vswRefused: map[string]int{}, clock: time.Now().Add(-24 * time.Hour).Truncate(time.Second)}
	n := s.Node

	// ---- cloud
	w.cloud = cloudctl.New()
	w.cloud.AttachPolls, w.cloud.DetachPolls = n.AttachPolls, n.DetachPolls
	w.cloud.LenientDescribeByID = n.Lenient
	var vswIDs []string
	for i, v := range n.VSw {
		id := fmt.Sprintf("vsw-%d", i)
		zone := c02Zone
		if v.OtherZone {
			zone = "zone-b"
		}
		w.cloud.AddVSwitch(id, zone, i, int64(v.Free))
		vswIDs = append(vswIDs, id)
	}
	// vSwitch the pre-existing interfaces live on: ample, same zone, not an option for new ones
	w.cloud.AddVSwitch("vsw-pre", c02Zone, 9, 1000)
	v6Lim := n.V6Per
	if !n.V6 {
		v6Lim = n.V4Per
	}
	w.cloud.AddInstance(c02InstanceID, c02Zone, n.Adapters-1-n.CloudENICut, n.V4Per, v6Lim)
	if !n.EFLO {
		w.cloud.AddENI(cloudctl.NewENIOpts{Type: aliyunClient.ENITypePrimary, InstanceID: c02InstanceID, VSwitchID: "vsw-pre", N4: 1, Tags: map[string]string{"owner": "terway"}})
	}
	if n.TagFilter {
		w.filter = map[string]string{"owner": "terway"}
	}

	// ---- node spec, as the daemon publishes it (pkg/eni/node_reconcile.go)
	spec := networkv1beta1.NodeSpec{
		NodeMetadata: networkv1beta1.NodeMetadata{RegionID: "cn-verif", InstanceType: "ecs.verif", InstanceID: c02InstanceID, ZoneID: c02Zone},
		NodeCap:      networkv1beta1.NodeCap{Adapters: n.Adapters, TotalAdapters: n.Adapters, IPv4PerAdapter: n.V4Per, IPv6PerAdapter: n.V6Per},
		ENISpec: &networkv1beta1.ENISpec{
			VSwitchOptions: vswIDs, SecurityGroupIDs: []string{"sg-1"}, EnableIPv4: n.V4, EnableIPv6: n.V6,
			EnableERDMA: n.ERDMA, EnableTrunk: n.Trunk, VSwitchSelectPolicy: networkv1beta1.SelectionPolicy(n.Policy),
			Tag: map[string]string{"owner": "terway", "b": "2", "a": "1"}, TagFilter: w.filter,
		},
		Pool: &networkv1beta1.PoolSpec{MaxPoolSize: n.Max, MinPoolSize: n.Min},
	}
	if !n.V6 {
		spec.NodeCap.IPv6PerAdapter = 0
	}
	secondary := n.Adapters - 1
	if n.Trunk && secondary > 0 {
		spec.Flavor = append(spec.Flavor, networkv1beta1.Flavor{NetworkInterfaceType: networkv1beta1.ENITypeTrunk, NetworkInterfaceTrafficMode: networkv1beta1.NetworkInterfaceTrafficModeStandard, Count: 1})
		secondary--
	}
	if n.ERDMA && secondary > 0 {
		spec.Flavor = append(spec.Flavor, networkv1beta1.Flavor{NetworkInterfaceType: networkv1beta1.ENITypeSecondary, NetworkInterfaceTrafficMode: networkv1beta1.NetworkInterfaceTrafficModeHighPerformance, Count: 1})
		secondary--
	}
	spec.Flavor = append(spec.Flavor, networkv1beta1.Flavor{NetworkInterfaceType: networkv1beta1.ENITypeSecondary, NetworkInterfaceTrafficMode: networkv1beta1.NetworkInterfaceTrafficModeStandard, Count: max(secondary-n.SecCut, 0)})
	w.spec = spec

	// ---- API server
	w.base = fake.NewClientBuilder().WithScheme(types.Scheme).
		WithStatusSubresource(&networkv1beta1.Node{}, &networkv1beta1.NodeRuntime{}).
		WithIndex(&corev1.Pod{}, "spec.nodeName", func(o client.Object) []string { return []string{o.(*corev1.Pod).Spec.NodeName} }).
		Build()
	w.cli = interceptor.NewClient(w.base, interceptor.Funcs{
		SubResourceUpdate: w.interceptStatusUpdate,
		List:              w.interceptList,
		Get:               w.interceptGet,
	})

	labels := map[string]string{}
	if n.EFLO {
		labels[types.LinJunNodeLabelKey] = "true"
	}
	node := &networkv1beta1.Node{ObjectMeta: metav1.ObjectMeta{Name: c02NodeName, Labels: labels, Finalizers: []string{finalizer}}, Spec: spec}
	w.must(w.base.Create(w.ctx, node))
	w.must(w.base.Create(w.ctx, &corev1.Node{ObjectMeta: metav1.ObjectMeta{Name: c02NodeName, Labels: labels}}))
	if !n.NoRuntime {
		w.must(w.base.Create(w.ctx, &networkv1beta1.NodeRuntime{ObjectMeta: metav1.ObjectMeta{Name: c02NodeName}}))
	}

	w.initialState(node)

	// ---- hooks
	w.cloud.Hook = w.onCall
	w.cloud.After = w.afterCall
	w.restart()
	w.resetKnowledgeFromRecord()
	return w
}

func (w *c02World) must(err error) {
	if err != nil {
		panic(fmt.Sprintf("harness: %v", err))
	}
}

// restart models a controller restart: new ReconcileNode with an empty cache and a fresh
// vSwitch cache.
func (w *c02World) restart() {
	pool, err := vswitch.NewSwitchPool(100, "10m")
	w.must(err)
	w.rec = &ReconcileNode{
		client:             w.cli,
		scheme:             types.Scheme,
		record:             c02DropRecorder{},
		aliyun:             w.cloud,
		vswpool:            pool,
		fullSyncNodePeriod: 12 * time.Hour,
		gcPeriod:           0,
		tracer:             noop.NewTracerProvider().Tracer(""),
		eniBatchSize:       5,
	}
}

func (w *c02World) podName(slot int) string { return fmt.Sprintf("p%d", slot) }
func (w *c02World) podID(slot int) string   { return c02NS + "/" + w.podName(slot) }

func (w *c02World) newUID() string {
	w.uidSeq++
	return fmt.Sprintf("uid-%03d", w.uidSeq)
}

func (w *c02World) tick() metav1.Time {
	w.clock = w.clock.Add(2 * time.Second)
	return metav1.NewTime(w.clock)
}

func (w *c02World) createPod(slot int, v4, v6 string) *c02LivePod {
	sl := w.s.Slots[slot]
	p := &c02LivePod{slot: slot, name: w.podName(slot), uid: w.newUID()}
	pod := &corev1.Pod{
		ObjectMeta: metav1.ObjectMeta{Name: p.name, Namespace: c02NS, UID: k8stypes.UID(p.uid)},
		Spec:       corev1.PodSpec{NodeName: c02NodeName, HostNetwork: sl.HostNet, Containers: []corev1.Container{{Name: "c", Image: "i"}}},
		Status:     corev1.PodStatus{Phase: corev1.PodPending},
	}
	if sl.PodENI {
		pod.Annotations = map[string]string{types.PodENI: "true"}
	}
	if sl.ERDMA {
		lim := corev1.ResourceList{corev1.ResourceName(deviceplugin.ERDMAResName): resource.MustParse("1")}
		cont, init := sl.RDMACont, sl.RDMAInit
		if len(cont) == 0 {
			cont = []bool{len(init) == 0}
		}
		pod.Spec.Containers = nil
		for i, has := range cont {
			ct := corev1.Container{Name: fmt.Sprintf("c%d", i), Image: "i"}
			if has {
				ct.Resources.Limits = lim.DeepCopy()
			}
			pod.Spec.Containers = append(pod.Spec.Containers, ct)
		}
		for i, has := range init {
			ct := corev1.Container{Name: fmt.Sprintf("init%d", i), Image: "i"}
			if has {
				ct.Resources.Limits = lim.DeepCopy()
			}
			pod.Spec.InitContainers = append(pod.Spec.InitContainers, ct)
		}
	}
	if v4 != "" || v6 != "" {
		pod.Status.Phase = corev1.PodRunning
		if v4 != "" {
			pod.Status.PodIP = v4
			pod.Status.PodIPs = append(pod.Status.PodIPs, corev1.PodIP{IP: v4})
		}
		if v6 != "" {
			if pod.Status.PodIP == "" {
				pod.Status.PodIP = v6
			}
			pod.Status.PodIPs = append(pod.Status.PodIPs, corev1.PodIP{IP: v6})
		}
		p.cniAdd = true
	}
	w.must(w.base.Create(w.ctx, pod))
	w.live[slot] = p
	w.everPod[w.podID(slot)] = true
	return p
}

func (w *c02World) liveSorted() []*c02LivePod {
	var out []*c02LivePod
	for _, p := range w.live {
		out = append(out, p)
	}
	sort.Slice(out, func(i, j int) bool { return out[i].slot < out[j].slot })
	return out
}

func (w *c02World) setRuntime(uid, podID string, st networkv1beta1.CNIStatus) {
	nr := &networkv1beta1.NodeRuntime{}
	if err := w.base.Get(w.ctx, client.ObjectKey{Name: c02NodeName}, nr); k8sErr.IsNotFound(err) {
		// first report of the daemon: the object appears
		w.must(w.base.Create(w.ctx, &networkv1beta1.NodeRuntime{ObjectMeta: metav1.ObjectMeta{Name: c02NodeName}}))
		w.must(w.base.Get(w.ctx, client.ObjectKey{Name: c02NodeName}, nr))
	} else {
		w.must(err)
	}
	if nr.Status.Pods == nil {
		nr.Status.Pods = map[string]*networkv1beta1.RuntimePodStatus{}
	}
	e := nr.Status.Pods[uid]
	if e == nil {
		e = &networkv1beta1.RuntimePodStatus{PodID: podID, Status: map[networkv1beta1.CNIStatus]*networkv1beta1.CNIStatusInfo{}}
		nr.Status.Pods[uid] = e
	}
	e.Status[st] = &networkv1beta1.CNIStatusInfo{LastUpdateTime: w.tick()}
	w.must(w.base.Status().Update(w.ctx, nr))
}

func (w *c02World) readNode() *networkv1beta1.Node {
	n := &networkv1beta1.Node{}
	w.must(w.base.Get(w.ctx, client.ObjectKey{Name: c02NodeName}, n))
	return n
}

// podViews is the pod table as the controller sees it at this instant.
func (w *c02World) podViews() map[string]*c02PodView {
	pods := &corev1.PodList{}
	w.must(w.base.List(w.ctx, pods, client.MatchingFields{"spec.nodeName": c02NodeName}))
	out := map[string]*c02PodView{}
	for i := range pods.Items {
		p := &pods.Items[i]
		v := &c02PodView{id: p.Namespace + "/" + p.Name, uid: string(p.UID)}
		v.eligible = !p.Spec.HostNetwork && !types.PodUseENI(p) && p.Status.Phase != corev1.PodSucceeded && p.Status.Phase != corev1.PodFailed
		if w.s.Node.ERDMA {
			// "is an RDMA pod" by the harness's own intent: the slot was created as one
			// (some container, regular or init, asks for aliyun/erdma)
			var slot int
			if _, err := fmt.Sscanf(p.Name, "p%d", &slot); err == nil && slot < len(w.s.Slots) {
				v.erdma = w.s.Slots[slot].ERDMA
			}
		}
		for _, ip := range append([]corev1.PodIP{{IP: p.Status.PodIP}}, p.Status.PodIPs...) {
			if ip.IP == "" {
				continue
			}
			if strings.Contains(ip.IP, ":") {
				v.v6 = ip.IP
			} else {
				v.v4 = ip.IP
			}
		}
		out[v.id] = v
	}
	return out
}

// ------------------------------------------------------------------ initial state

func (w *c02World) initialState(node *networkv1beta1.Node) {
	n := w.s.Node
	usedSlot := map[int]bool{}
	st := networkv1beta1.NodeStatus{}
	if n.Synced {
		st.NextSyncOpenAPITime = metav1.NewTime(time.Now().Add(6 * time.Hour))
		st.LastSyncOpenAPITime = metav1.NewTime(time.Now().Add(-time.Hour))
	}
	for _, p := range w.s.Pre {
		o := cloudctl.NewENIOpts{InstanceID: c02InstanceID, VSwitchID: "vsw-pre", N4: p.N4, N6: p.N6, EFLO: n.EFLO, Tags: map[string]string{"owner": "terway"}}
		if p.Untagged {
			o.Tags = map[string]string{"owner": "someone"}
		}
		switch p.Type {
		case "trunk":
			o.Type = aliyunClient.ENITypeTrunk
		case "erdma":
			o.TrafficMode = aliyunClient.ENITrafficModeRDMA
		}
		e := w.cloud.AddENI(o)
		if p.Rec == "absent" {
			// the record does not know the interface; pods may still report its addresses
			w.initialPods(p, e, nil, usedSlot)
			continue
		}
		r := &networkv1beta1.NetworkInterface{
			ID: e.ID, Status: aliyunClient.ENIStatusInUse, MacAddress: e.MAC, VSwitchID: e.VSwitchID, SecurityGroupIDs: e.SGs, PrimaryIPAddress: e.Primary,
			NetworkInterfaceTrafficMode: networkv1beta1.NetworkInterfaceTrafficMode(e.TrafficMode), NetworkInterfaceType: networkv1beta1.ENIType(e.Type),
			IPv4: map[string]*networkv1beta1.IP{}, IPv6: map[string]*networkv1beta1.IP{}, IPv4CIDR: "10.10.0.0/16", IPv6CIDR: "fd00:0:0:a::/64",
		}
		if p.RecStatus != "" {
			r.Status = p.RecStatus
		}
		for i, ip := range e.V4 {
			if p.Rec == "stale" && i == len(e.V4)-1 && i > 0 {
				continue // the record misses the newest address
			}
			r.IPv4[ip.Addr] = &networkv1beta1.IP{IP: ip.Addr, Primary: ip.Primary, Status: networkv1beta1.IPStatusValid, IPName: ip.Name}
		}
		for _, ip := range e.V6 {
			r.IPv6[ip.Addr] = &networkv1beta1.IP{IP: ip.Addr, Status: networkv1beta1.IPStatusValid}
		}
		if p.Rec == "stale" {
			ghost := fmt.Sprintf("10.10.250.%d", len(st.NetworkInterfaces)+1)
			r.IPv4[ghost] = &networkv1beta1.IP{IP: ghost, Status: networkv1beta1.IPStatusValid}
		}
		for _, d := range p.Del {
			if len(e.V4) > 1 {
				a := e.V4[1+d%(len(e.V4)-1)].Addr
				if ip, ok := r.IPv4[a]; ok {
					ip.Status = networkv1beta1.IPStatusDeleting
				}
			}
		}
		w.initialPods(p, e, r, usedSlot)
		if st.NetworkInterfaces == nil {
			st.NetworkInterfaces = map[string]*networkv1beta1.NetworkInterface{}
		}
		st.NetworkInterfaces[e.ID] = r
	}
	node.Status = st
	w.must(w.base.Status().Update(w.ctx, node))
}

// initialPods materialises the pre-bindings of one interface: pod objects that report the
// address(es) and the (possibly partial) binding in the record.
func (w *c02World) initialPods(p c02PreENI, e *cloudctl.ENI, r *networkv1beta1.NetworkInterface, usedSlot map[int]bool) {
	n := w.s.Node
	used4, used6 := map[int]bool{}, map[int]bool{}
	for _, b := range p.Binds {
		if usedSlot[b.Slot] {
			continue
		}
		sl := w.s.Slots[b.Slot]
		if sl.HostNet || sl.PodENI {
			continue
		}
		if sl.ERDMA != (p.Type == "erdma") && n.ERDMA {
			continue // a previous version would not have placed it there either
		}
		a4, a6 := "", ""
		i4, i6 := -1, -1
		if n.V4 && len(e.V4) > 0 {
			i4 = b.I4 % len(e.V4)
			if used4[i4] {
				continue
			}
			a4 = e.V4[i4].Addr
		}
		if n.V6 {
			if len(e.V6) == 0 {
				if !n.V4 || w.s.Mode == "C08" {
					continue // C08: pods are bound completely or not at all
				}
			} else {
				i6 = b.I6 % len(e.V6)
				if used6[i6] {
					continue
				}
				a6 = e.V6[i6].Addr
			}
		}
		if a4 == "" && a6 == "" {
			continue
		}
		usedSlot[b.Slot] = true
		if i4 >= 0 {
			used4[i4] = true
		}
		if i6 >= 0 {
			used6[i6] = true
		}
		uid := ""
		if b.Alive {
			r4, r6 := a4, a6
			switch b.Reports {
			case "v4":
				r6 = ""
			case "v6":
				r4 = ""
			case "none":
				r4, r6 = "", ""
			}
			lp := w.createPod(b.Slot, r4, r6)
			uid = lp.uid
			if (r4 != "" || r6 != "") && !n.NoRuntime {
				w.setRuntime(uid, w.podID(b.Slot), networkv1beta1.CNIStatusInitial)
			}
		} else {
			uid = w.newUID()
			w.everPod[w.podID(b.Slot)] = true
			g := &c02Gone{uid: uid}
			w.gone = append(w.gone, g)
			if !n.NoRuntime {
				w.setRuntime(uid, w.podID(b.Slot), networkv1beta1.CNIStatusInitial)
			}
		}
		if r == nil || b.Rec == "none" {
			continue
		}
		recUID := uid
		if b.Rec == "nouid" {
			recUID = ""
		}
		if a4 != "" && b.Rec != "v6only" {
			if ip, ok := r.IPv4[a4]; ok {
				ip.PodID, ip.PodUID = w.podID(b.Slot), recUID
			}
		}
		if a6 != "" && b.Rec != "v4only" {
			if ip, ok := r.IPv6[a6]; ok {
				ip.PodID, ip.PodUID = w.podID(b.Slot), recUID
			}
		}
	}
}

// ------------------------------------------------------------------ API interceptors

func (w *c02World) takeAPIFault(kinds ...string) string {
	for i, f := range w.apiFaults {
		for _, k := range kinds {
			if f == k {
				w.apiFaults = append(w.apiFaults[:i], w.apiFaults[i+1:]...)
				return f
			}
		}
	}
	return ""
}

func (w *c02World) interceptStatusUpdate(ctx context.Context, cl client.Client, sub string, obj client.Object, opts ...client.SubResourceUpdateOption) error {
	node, ok := obj.(*networkv1beta1.Node)
	if !ok || sub != "status" {
		return cl.SubResource(sub).Update(ctx, obj, opts...)
	}
	switch w.takeAPIFault("conflict", "statuserr", "statusafter") {
	case "conflict":
		// a concurrent writer (the daemon updating the spec) bumps the object first: the
		// controller's write then fails with a real optimistic-concurrency conflict
		cur := &networkv1beta1.Node{}
		w.must(w.base.Get(ctx, client.ObjectKey{Name: node.Name}, cur))
		if cur.Annotations == nil {
			cur.Annotations = map[string]string{}
		}
		cur.Annotations["verif/touch"] = fmt.Sprint(len(w.apiFaults), w.writeErrs)
		w.must(w.base.Update(ctx, cur))
		err := cl.SubResource(sub).Update(ctx, obj, opts...)
		if err == nil {
			panic("harness: expected a conflict")
		}
		w.writeErrs++
		return err
	case "statuserr":
		w.writeErrs++
		return k8sErr.NewInternalError(fmt.Errorf("simulated apiserver failure"))
	case "statusafter":
		err := cl.SubResource(sub).Update(ctx, obj, opts...)
		if err == nil {
			w.writes++
			w.writeErrs++
			return k8sErr.NewTimeoutError("simulated timeout after the write was applied", 1)
		}
		return err
	}
	err := cl.SubResource(sub).Update(ctx, obj, opts...)
	if err == nil {
		w.writes++
	} else {
		w.writeErrs++
	}
	return err
}

func (w *c02World) interceptList(ctx context.Context, cl client.WithWatch, list client.ObjectList, opts ...client.ListOption) error {
	if _, ok := list.(*corev1.PodList); ok && w.takeAPIFault("listpods") != "" {
		return k8sErr.NewInternalError(fmt.Errorf("simulated list failure"))
	}
	return cl.List(ctx, list, opts...)
}

func (w *c02World) interceptGet(ctx context.Context, cl client.WithWatch, key client.ObjectKey, obj client.Object, opts ...client.GetOption) error {
	if _, ok := obj.(*networkv1beta1.NodeRuntime); ok && w.takeAPIFault("getruntime") != "" {
		return k8sErr.NewNotFound(schema.GroupResource{Group: "network.alibabacloud.com", Resource: "noderuntimes"}, key.Name)
	}
	return cl.Get(ctx, key, obj, opts...)
}

// ------------------------------------------------------------------ record helpers

type c02Binding struct {
	eni, addr, pod, uid string
	v6                  bool
	ipStatus            networkv1beta1.IPStatus
	eniStatus           string
	mode                networkv1beta1.NetworkInterfaceTrafficMode
}

func c02Bindings(enis map[string]*networkv1beta1.NetworkInterface) []c02Binding {
	var out []c02Binding
	ids := make([]string, 0, len(enis))
	for id := range enis {
		ids = append(ids, id)
	}
	sort.Strings(ids)
	for _, id := range ids {
		e := enis[id]
		for fam, m := range []map[string]*networkv1beta1.IP{e.IPv4, e.IPv6} {
			keys := make([]string, 0, len(m))
			for k := range m {
				keys = append(keys, k)
			}
			sort.Strings(keys)
			for _, k := range keys {
				ip := m[k]
				if ip == nil {
					continue
				}
				out = append(out, c02Binding{eni: id, addr: k, pod: ip.PodID, uid: ip.PodUID, v6: fam == 1, ipStatus: ip.Status, eniStatus: e.Status, mode: e.NetworkInterfaceTrafficMode})
			}
		}
	}
	return out
}

func c02Fam(v6 bool) string {
	if v6 {
		return "v6"
	}
	return "v4"
}

// c02CheckRecord checks the C02 invariants (i)-(vi) of DESIGN section 3 on a record, given
// the record before the pass and the pod table as it was when the pass started. It returns
// the first violation ("" if none) and classification facts.
//
// detached names the interfaces of prev that were not attached to the instance in the cloud
// when the pass started (nil: all attached): a binding is protected only while its interface
// is attached, marking such an interface for deletion is the right reaction to drift.
//
// eflo: on an EFLO node the cloud itself may report an address as not available, so an
// address first seen in this pass may legitimately enter the record as Deleting.
func c02CheckRecord(prev, cur map[string]*networkv1beta1.NetworkInterface, pods map[string]*c02PodView, everPod map[string]bool, detached map[string]bool, eflo, enableERDMA bool) (string, map[string]bool) {
	facts := map[string]bool{}
	where := map[string]string{}
	type podB struct{ eni4, a4, eni6, a6 string }
	byPod := map[string]*podB{}
	prevPod := map[string]string{} // fam|addr -> pod
	prevValid := map[string]bool{} // fam|addr -> address Valid on an interface not marked Deleting
	for _, b := range c02Bindings(prev) {
		prevPod[c02Fam(b.v6)+"|"+b.addr] = b.pod
		prevValid[c02Fam(b.v6)+"|"+b.addr] = b.ipStatus == networkv1beta1.IPStatusValid && b.eniStatus != aliyunClient.ENIStatusDeleting
	}
	for _, b := range c02Bindings(cur) {
		key := c02Fam(b.v6) + "|" + b.addr
		// (i) an address is one entry of the record. The entry with the empty key is not an
		// address: it is the placeholder the controller keeps for an EFLO IPName whose
		// assignment did not complete (assignIP, "partial result"), one per interface.
		if b.addr == "" && b.pod == "" {
			facts["eflo_placeholder"] = true
			continue
		}
		if o, ok := where[key]; ok {
			return fmt.Sprintf("(i) address %s is recorded on two interfaces: %s and %s", b.addr, o, b.eni), facts
		}
		where[key] = b.eni
		if b.pod == "" {
			continue
		}
		pb := byPod[b.pod]
		if pb == nil {
			pb = &podB{}
			byPod[b.pod] = pb
		}
		// (ii) at most one address per family
		if !b.v6 {
			if pb.a4 != "" {
				return fmt.Sprintf("(ii) pod %s is bound to two IPv4 addresses: %s (%s) and %s (%s)", b.pod, pb.a4, pb.eni4, b.addr, b.eni), facts
			}
			pb.a4, pb.eni4 = b.addr, b.eni
		} else {
			if pb.a6 != "" {
				return fmt.Sprintf("(ii) pod %s is bound to two IPv6 addresses: %s (%s) and %s (%s)", b.pod, pb.a6, pb.eni6, b.addr, b.eni), facts
			}
			pb.a6, pb.eni6 = b.addr, b.eni
		}
		// new binding?
		if prevPod[key] == b.pod {
			// (iv) kept binding: the pass must not schedule the address (or its interface)
			// of a pod that still exists for deletion
			if pv := pods[b.pod]; pv != nil && pv.eligible && prevValid[key] && !detached[b.eni] {
				if b.ipStatus == networkv1beta1.IPStatusDeleting {
					return fmt.Sprintf("(iv) address %s on %s is bound to pod %s, which still exists, and was scheduled for deletion by this pass", b.addr, b.eni, b.pod), facts
				}
				if b.eniStatus == aliyunClient.ENIStatusDeleting {
					return fmt.Sprintf("(iv) interface %s was scheduled for deletion by this pass although its address %s is bound to pod %s, which still exists", b.eni, b.addr, b.pod), facts
				}
			}
			continue
		}
		facts["new-binding"] = true
		// (i) the address must not be taken from a pod that still exists: the record can
		// name one owner only, the previous one would go on using the address
		if prevOwner := prevPod[key]; prevOwner != "" && pods[prevOwner] != nil && pods[prevOwner].eligible {
			return fmt.Sprintf("(i) address %s on %s was bound to pod %s, which still exists (sandbox not exited), and is now bound to %s", b.addr, b.eni, prevOwner, b.pod), facts
		}
		pv := pods[b.pod]
		// (vi) only pods that exist and are served by this controller get bindings
		if pv == nil || !pv.eligible {
			if !everPod[b.pod] {
				return fmt.Sprintf("(vi) address %s on %s newly bound to %q which was never a pod", b.addr, b.eni, b.pod), facts
			}
			return fmt.Sprintf("(vi) address %s on %s newly bound to %q which is not an existing pod served by the node IPAM (gone, exited, host network or exclusive ENI)", b.addr, b.eni, b.pod), facts
		}
		reported := pv.v4
		if b.v6 {
			reported = pv.v6
		}
		if reported != "" {
			// (v) take over: exactly the reported address
			if reported != b.addr {
				return fmt.Sprintf("(v) pod %s reports %s but was newly bound to %s on %s", b.pod, reported, b.addr, b.eni), facts
			}
			facts["takeover"] = true
			if b.ipStatus != networkv1beta1.IPStatusValid || b.eniStatus != aliyunClient.ENIStatusInUse {
				facts["takeover-invalid"] = true
			}
			// (iv) the re-adoption exemption covers an address / interface that was already
			// scheduled for deletion (or not in use) before the pass, not one that this very
			// pass scheduled for deletion: the record then binds a running pod to an address
			// the next pass releases
			if !detached[b.eni] {
				_, known := prevPod[key]
				pe, eniKnown := prev[b.eni]
				if b.ipStatus == networkv1beta1.IPStatusDeleting && (prevValid[key] || (!known && !eflo)) {
					return fmt.Sprintf("(iv) pod %s was re-adopted onto %s on %s, which this pass scheduled for deletion", b.pod, b.addr, b.eni), facts
				}
				if b.eniStatus == aliyunClient.ENIStatusDeleting && ((eniKnown && pe.Status != aliyunClient.ENIStatusDeleting) || (!eniKnown && !eflo)) {
					return fmt.Sprintf("(iv) pod %s was re-adopted onto %s on interface %s, which this pass scheduled for deletion", b.pod, b.addr, b.eni), facts
				}
			}
			continue
		}
		// (iv) fresh binding: valid address on an interface in use, of the right kind
		if b.ipStatus != networkv1beta1.IPStatusValid {
			return fmt.Sprintf("(iv) pod %s newly bound to %s on %s whose status is %q", b.pod, b.addr, b.eni, b.ipStatus), facts
		}
		if b.eniStatus != aliyunClient.ENIStatusInUse {
			return fmt.Sprintf("(iv) pod %s newly bound to %s on interface %s whose status is %q", b.pod, b.addr, b.eni, b.eniStatus), facts
		}
		hp := b.mode == networkv1beta1.NetworkInterfaceTrafficModeHighPerformance
		if pv.erdma && !hp {
			return fmt.Sprintf("(iv) RDMA pod %s newly bound to %s on non-RDMA interface %s", b.pod, b.addr, b.eni), facts
		}
		if enableERDMA && !pv.erdma && hp {
			return fmt.Sprintf("(iv) non-RDMA pod %s newly bound to %s on RDMA interface %s", b.pod, b.addr, b.eni), facts
		}
		if pv.erdma {
			facts["rdma-binding"] = true
		}
	}
	// (iii) dual stack: one interface per pod
	pids := make([]string, 0, len(byPod))
	for p := range byPod {
		pids = append(pids, p)
	}
	sort.Strings(pids)
	for _, p := range pids {
		pb := byPod[p]
		if pb.a4 != "" && pb.a6 != "" {
			facts["dual-bound"] = true
			if pb.eni4 != pb.eni6 {
				return fmt.Sprintf("(iii) pod %s has IPv4 %s on %s but IPv6 %s on %s", p, pb.a4, pb.eni4, pb.a6, pb.eni6), facts
			}
		}
	}
	return "", facts
}

// c02NonTrivialStart evaluates the C02 non-trivial rule on the state a pass starts from.
func c02NonTrivialStart(enis map[string]*networkv1beta1.NetworkInterface, pods map[string]*c02PodView, v4, v6 bool) (bool, string) {
	bound := map[string]bool{}
	for _, b := range c02Bindings(enis) {
		if b.pod != "" {
			bound[b.pod] = true
		}
	}
	pending, takeover := 0, 0
	for id, p := range pods {
		if !p.eligible || bound[id] {
			continue
		}
		if p.v4 != "" || p.v6 != "" {
			takeover++
		} else {
			pending++
		}
	}
	if takeover > 0 {
		return true, "nt:takeover-pod"
	}
	if pending == 0 {
		return false, ""
	}
	enisWithIdle, idle := 0, 0
	noV6 := false
	for _, e := range enis {
		if e.Status != aliyunClient.ENIStatusInUse {
			continue
		}
		i4, i6 := IdlesWithAvailable(e.IPv4), IdlesWithAvailable(e.IPv6)
		if v4 && v6 && i4 > 0 && i6 == 0 {
			noV6 = true
		}
		n := i4
		if !v4 {
			n = i6
		}
		if n > 0 {
			enisWithIdle++
			idle += n
		}
	}
	if noV6 {
		return true, "nt:dual-eni-without-free-v6"
	}
	if pending >= 2 && enisWithIdle >= 2 && idle >= 2 {
		return true, "nt:2pods-2enis-2idle"
	}
	return false, ""
}
