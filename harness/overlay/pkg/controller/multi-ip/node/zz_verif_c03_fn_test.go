package node

// C03 (function level): releasePodNotFound, releaseUnUsedIP, handleStatus/adjustPool
// (gc), the whole syncPods pass and utils.RuntimeFinalStatus on generated records,
// pod tables and NodeRuntime status maps, judged by the oracle of zz_verif/c03cloud
// (written from the property statement).

import (
	"context"
	"fmt"
	"sort"
	"sync/atomic"
	"testing"
	"time"

	"github.com/go-logr/logr"
	"go.opentelemetry.io/otel/trace/noop"
	corev1 "k8s.io/api/core/v1"
	metav1 "k8s.io/apimachinery/pkg/apis/meta/v1"
	"k8s.io/apimachinery/pkg/runtime"
	k8stypes "k8s.io/apimachinery/pkg/types"
	"pgregory.net/rapid"
	"sigs.k8s.io/controller-runtime/pkg/client"
	"sigs.k8s.io/controller-runtime/pkg/client/fake"

	aliyunClient "github.com/AliyunContainerService/terway/pkg/aliyun/client"
	networkv1beta1 "github.com/AliyunContainerService/terway/pkg/apis/network.alibabacloud.com/v1beta1"
	"github.com/AliyunContainerService/terway/pkg/utils"
	"github.com/AliyunContainerService/terway/pkg/vswitch"
	terwayTypes "github.com/AliyunContainerService/terway/types"
	"github.com/AliyunContainerService/terway/zz_verif/c03cloud"
	"github.com/AliyunContainerService/terway/zz_verif/vt"
)

const (
	c03fNode  = "node-1"
	c03fNPods = 6
)

// c03fBind is one pod's binding on an interface: one address per enabled family, on the
// same interface (the only shape the allocator produces: both families or nothing).
type c03fBind struct {
	Pod int `json:"pod"`
	UID int `json:"uid"` // 0 no uid recorded (legacy), 1 incarnation a, 2 incarnation b
}

type c03fENI struct {
	Status int        `json:"status"` // 0 InUse, 1 Deleting, 2 Detaching
	Kind   int        `json:"kind"`   // 0 secondary, 1 trunk, 2 secondary high-performance
	Bound  []c03fBind `json:"bound,omitempty"`
	Idle4  []bool     `json:"idle4"` // idle v4 addresses; true = status Deleting
	Idle6  []bool     `json:"idle6,omitempty"`
}

type c03fPod struct {
	Present bool `json:"present"`
	Phase   int  `json:"phase"` // 0 Running 1 Pending 2 Succeeded 3 Failed
	UID     int  `json:"uid"`   // 1 a, 2 b
	// Report > 0: the pod object reports addresses in its status. A pod the record
	// has bound reports the bound addresses; an unbound pod reports the (Report-1)-th
	// idle Valid address set of the wanted interfaces - the take-over situation (record
	// rebuilt from the cloud / first sync: the pod runs on an address the record has
	// not linked to it).
	Report int `json:"report,omitempty"`
	// Vanish: entry sync2 deletes the pod object between its two passes.
	Vanish bool `json:"vanish,omitempty"`
}

type c03fRT struct {
	Pod     int `json:"pod"`
	UID     int `json:"uid"`
	Initial int `json:"initial"` // 0 no key, -1 key with nil value, >0 seconds after base
	Deleted int `json:"deleted"`
}

type c03fScenario struct {
	Entry     string    `json:"entry"` // release | trim | gc | sync | sync2 (two sync passes, pods vanish in between)
	V4        bool      `json:"v4"`
	V6        bool      `json:"v6"`
	ENIs      []c03fENI `json:"enis"`
	Pods      []c03fPod `json:"pods"`
	RT        []c03fRT  `json:"rt"`
	NoRuntime bool      `json:"no_runtime,omitempty"`
	MaxPool   int       `json:"max_pool"`
	MinPool   int       `json:"min_pool"`
	ToDel     int       `json:"to_del"`
	Faults    []int     `json:"faults,omitempty"`
	// Replay > 0: on every wanted interface the answer of an earlier assign request was
	// lost after the cloud had executed it; its addresses have since been recorded by a
	// full sync (1: and pods were bound to them, 2: they are idle). The cloud replays
	// that answer to the next assign request with the same interface and count.
	Replay int `json:"replay,omitempty"`
}

func c03fUID(pod, kind int) string {
	if kind == 0 {
		return ""
	}
	return fmt.Sprintf("uid-%d-%c", pod, 'a'+kind-1)
}
func c03fPodID(pod int) string { return fmt.Sprintf("ns/p%d", pod) }

func c03fGen(t *rapid.T) c03fScenario {
	s := c03fScenario{
		Entry:   rapid.SampledFrom([]string{"release", "release", "trim", "gc", "gc", "sync", "sync", "sync2", "sync2"}).Draw(t, "entry"),
		MaxPool: rapid.IntRange(0, 4).Draw(t, "maxPool"),
		ToDel:   rapid.IntRange(1, 6).Draw(t, "toDel"),
	}
	s.MinPool = rapid.IntRange(0, s.MaxPool).Draw(t, "minPool")
	// IPv4-only, dual stack, or IPv6-only (pods get IPv6 only; every interface still
	// carries its primary IPv4 address)
	switch rapid.IntRange(0, 5).Draw(t, "stack") {
	case 0, 1:
		s.V4, s.V6 = true, true
	case 2:
		s.V4, s.V6 = false, true
	default:
		s.V4 = true
	}
	for i := 0; i < c03fNPods; i++ {
		s.Pods = append(s.Pods, c03fPod{
			Present: rapid.IntRange(0, 9).Draw(t, "present") < 5,
			Phase:   rapid.SampledFrom([]int{0, 0, 0, 1, 2, 3}).Draw(t, "phase"),
			UID:     rapid.SampledFrom([]int{1, 1, 1, 2}).Draw(t, "poduid"),
			Report:  rapid.SampledFrom([]int{0, 0, 1, 2, 3}).Draw(t, "report"),
			Vanish:  rapid.IntRange(0, 9).Draw(t, "vanish") < 4,
		})
	}
	// owners are dealt from a permutation so that a pod owns at most one binding
	own := rapid.Permutation([]int{0, 1, 2, 3, 4, 5}).Draw(t, "own")
	nENI := rapid.IntRange(1, 3).Draw(t, "nENI")
	for e := 0; e < nENI; e++ {
		en := c03fENI{
			Status: rapid.SampledFrom([]int{0, 0, 0, 0, 1, 2}).Draw(t, "eniStatus"),
			Kind:   rapid.SampledFrom([]int{0, 0, 0, 1, 2}).Draw(t, "eniKind"),
		}
		// bindings only on interfaces the record still wants (reachable states)
		if en.Status == 0 {
			nb := rapid.IntRange(0, 3).Draw(t, "nBound")
			for j := 0; j < nb && len(own) > 0; j++ {
				en.Bound = append(en.Bound, c03fBind{Pod: own[0], UID: rapid.SampledFrom([]int{1, 1, 1, 1, 2, 0}).Draw(t, "binduid")})
				own = own[1:]
			}
		}
		idle := func(lo int, label string) []bool {
			var out []bool
			n := rapid.IntRange(lo, 3).Draw(t, label)
			for j := 0; j < n; j++ {
				out = append(out, rapid.IntRange(0, 9).Draw(t, label+"del") < 2)
			}
			return out
		}
		lo := 0
		if len(en.Bound) == 0 || !s.V4 {
			lo = 1 // the primary address
		}
		en.Idle4 = idle(lo, "idle4")
		if lo == 1 {
			en.Idle4[0] = false // a primary address is never marked
		}
		if s.V6 {
			en.Idle6 = idle(0, "idle6")
		}
		s.ENIs = append(s.ENIs, en)
	}
	s.NoRuntime = rapid.IntRange(0, 19).Draw(t, "noRuntime") == 0
	// runtime entries: for every (pod, incarnation) an entry with drawn shape
	for p := 0; p < c03fNPods; p++ {
		for k := 1; k <= 2; k++ {
			shape := rapid.IntRange(0, 9).Draw(t, "rtShape")
			if shape == 0 || (k == 2 && shape < 4) {
				continue // no entry
			}
			a := rapid.IntRange(1, 60).Draw(t, "tInitial")
			d := rapid.IntRange(1, 59).Draw(t, "tDeleted")
			if d >= a {
				d++ // never equal: ties are outside the domain
			}
			r := c03fRT{Pod: p, UID: k}
			switch shape {
			case 1:
				r.Initial = a
			case 2:
				r.Deleted = d
			case 3:
				r.Initial, r.Deleted = -1, d
			case 4:
				r.Initial, r.Deleted = a, -1
			case 5:
				// entry without any status
			default:
				r.Initial, r.Deleted = a, d
			}
			s.RT = append(s.RT, r)
		}
	}
	s.Replay = rapid.SampledFrom([]int{0, 0, 0, 1, 1, 2}).Draw(t, "replay")
	nf := rapid.IntRange(0, 5).Draw(t, "nFaults")
	for i := 0; i < nf; i++ {
		s.Faults = append(s.Faults, rapid.SampledFrom([]int{0, 0, 1, 1, 2}).Draw(t, "fault"))
	}
	return s
}

var c03fBase = time.Date(2024, 1, 1, 0, 0, 0, 0, time.UTC)

type c03fRecorder struct{}

func (c03fRecorder) Event(object runtime.Object, eventtype, reason, message string) {}
func (c03fRecorder) Eventf(object runtime.Object, eventtype, reason, messageFmt string, args ...interface{}) {
}
func (c03fRecorder) AnnotatedEventf(object runtime.Object, annotations map[string]string, eventtype, reason, messageFmt string, args ...interface{}) {
}

type c03fWorld struct {
	takeover []string      // pods that report an address the record has not linked to them
	idle     [][2][]string // per wanted interface: idle Valid v4 / v6 addresses (take-over candidates)
	node     *networkv1beta1.Node
	pods     map[string]c03cloud.PodView
	rt       *networkv1beta1.NodeRuntime
	cl       client.Client
	cloud    *c03cloud.Cloud
}

func c03fBuild(s c03fScenario) *c03fWorld {
	w := &c03fWorld{pods: map[string]c03cloud.PodView{}}
	w.cloud = c03cloud.New("i-1", "vsw-1", "zone-a")
	node := &networkv1beta1.Node{
		ObjectMeta: metav1.ObjectMeta{Name: c03fNode},
		Spec: networkv1beta1.NodeSpec{
			NodeMetadata: networkv1beta1.NodeMetadata{RegionID: "r", InstanceType: "t", InstanceID: "i-1", ZoneID: "zone-a"},
			NodeCap:      networkv1beta1.NodeCap{Adapters: 4, TotalAdapters: 4, IPv4PerAdapter: 6, IPv6PerAdapter: 6},
			ENISpec: &networkv1beta1.ENISpec{
				VSwitchOptions: []string{"vsw-1"}, SecurityGroupIDs: []string{"sg-1"},
				EnableIPv4: s.V4, EnableIPv6: s.V6, VSwitchSelectPolicy: networkv1beta1.VSwitchSelectionPolicyOrdered,
			},
			Pool: &networkv1beta1.PoolSpec{MaxPoolSize: s.MaxPool, MinPoolSize: s.MinPool},
			Flavor: []networkv1beta1.Flavor{{
				NetworkInterfaceType:        networkv1beta1.ENITypeSecondary,
				NetworkInterfaceTrafficMode: networkv1beta1.NetworkInterfaceTrafficModeStandard,
				Count:                       3,
			}},
		},
		Status: networkv1beta1.NodeStatus{NetworkInterfaces: map[string]*networkv1beta1.NetworkInterface{}},
	}
	reported := map[int][]string{} // pod -> addresses the record has bound to it
	for i, e := range s.ENIs {
		id := fmt.Sprintf("eni-L%d", i)
		ni := &networkv1beta1.NetworkInterface{
			ID:                          id,
			Status:                      []string{aliyunClient.ENIStatusInUse, aliyunClient.ENIStatusDeleting, aliyunClient.ENIStatusDetaching}[e.Status],
			MacAddress:                  fmt.Sprintf("02:c0:03:ff:00:%02x", i),
			VSwitchID:                   "vsw-1",
			SecurityGroupIDs:            []string{"sg-1"},
			NetworkInterfaceType:        networkv1beta1.ENITypeSecondary,
			NetworkInterfaceTrafficMode: networkv1beta1.NetworkInterfaceTrafficModeStandard,
			IPv4:                        map[string]*networkv1beta1.IP{},
			IPv6:                        map[string]*networkv1beta1.IP{},
			IPv4CIDR:                    c03cloud.V4CIDR,
			IPv6CIDR:                    c03cloud.V6CIDR,
		}
		ce := c03cloud.ENI{ID: id, MAC: ni.MacAddress, Type: aliyunClient.ENITypeSecondary, Mode: aliyunClient.ENITrafficModeStandard,
			Status: aliyunClient.ENIStatusInUse, Instance: "i-1"}
		switch e.Kind {
		case 1:
			ni.NetworkInterfaceType = networkv1beta1.ENITypeTrunk
			ce.Type = aliyunClient.ENITypeTrunk
		case 2:
			ni.NetworkInterfaceTrafficMode = networkv1beta1.NetworkInterfaceTrafficModeHighPerformance
			ce.Mode = aliyunClient.ENITrafficModeRDMA
		}
		n4, n6 := 0, 0
		add := func(v6 bool, del bool, b *c03fBind) {
			var addr string
			if v6 {
				n6++
				addr = fmt.Sprintf("fd00:c03::ffff:%x:%x", i, n6)
			} else {
				n4++
				addr = fmt.Sprintf("10.0.%d.%d", 200+i, n4)
			}
			ip := &networkv1beta1.IP{IP: addr, Status: networkv1beta1.IPStatusValid}
			if del {
				ip.Status = networkv1beta1.IPStatusDeleting
			}
			if b != nil {
				ip.PodID = c03fPodID(b.Pod)
				ip.PodUID = c03fUID(b.Pod, b.UID)
			}
			if v6 {
				ni.IPv6[addr] = ip
				ce.V6 = append(ce.V6, addr)
			} else {
				ip.Primary = n4 == 1
				ni.IPv4[addr] = ip
				ce.V4 = append(ce.V4, addr)
			}
		}
		boundAddrs := map[int][]string{}
		for bi := range e.Bound {
			if s.V4 {
				add(false, false, &e.Bound[bi])
				boundAddrs[e.Bound[bi].Pod] = append(boundAddrs[e.Bound[bi].Pod], ce.V4[len(ce.V4)-1])
			}
			if s.V6 {
				add(true, false, &e.Bound[bi])
				boundAddrs[e.Bound[bi].Pod] = append(boundAddrs[e.Bound[bi].Pod], ce.V6[len(ce.V6)-1])
			}
		}
		for k, v := range boundAddrs {
			reported[k] = v
		}
		var cand [2][]string
		for _, del := range e.Idle4 {
			add(false, del, nil)
			if !del && e.Status == 0 && s.V4 {
				cand[0] = append(cand[0], ce.V4[len(ce.V4)-1])
			}
		}
		for _, del := range e.Idle6 {
			add(true, del, nil)
			if !del && e.Status == 0 {
				cand[1] = append(cand[1], ce.V6[len(ce.V6)-1])
			}
		}
		if e.Status == 0 {
			w.idle = append(w.idle, cand)
		}
		if len(ce.V4) > 0 {
			ni.PrimaryIPAddress = ce.V4[0]
			ce.Primary = ce.V4[0]
		}
		node.Status.NetworkInterfaces[id] = ni
		w.cloud.Load(ce)
	}
	w.node = node

	objs := []client.Object{}
	for i, p := range s.Pods {
		if !p.Present {
			continue
		}
		phase := []corev1.PodPhase{corev1.PodRunning, corev1.PodPending, corev1.PodSucceeded, corev1.PodFailed}[p.Phase]
		obj := &corev1.Pod{
			ObjectMeta: metav1.ObjectMeta{Namespace: "ns", Name: fmt.Sprintf("p%d", i), UID: k8stypes.UID(c03fUID(i, p.UID))},
			Spec:       corev1.PodSpec{NodeName: c03fNode},
			Status:     corev1.PodStatus{Phase: phase},
		}
		if p.Report > 0 {
			ips := reported[i]
			if ips == nil && len(w.idle) > 0 {
				// take-over: the n-th idle address (pair) of one wanted interface, each at most once
				e := (p.Report - 1) % len(w.idle)
				for fam := 0; fam < 2; fam++ {
					if l := w.idle[e][fam]; len(l) > 0 {
						ips = append(ips, l[0])
						w.idle[e][fam] = l[1:]
					}
				}
				if len(ips) > 0 {
					w.takeover = append(w.takeover, c03fPodID(i))
				}
			}
			for _, ip := range ips {
				obj.Status.PodIPs = append(obj.Status.PodIPs, corev1.PodIP{IP: ip})
			}
			if len(ips) > 0 {
				obj.Status.PodIP = ips[0]
			}
		}
		objs = append(objs, obj)
		w.pods[c03fPodID(i)] = c03cloud.PodView{UID: c03fUID(i, p.UID), Exited: p.Phase >= 2}
	}
	if !s.NoRuntime {
		rt := &networkv1beta1.NodeRuntime{ObjectMeta: metav1.ObjectMeta{Name: c03fNode}}
		rt.Status.Pods = map[string]*networkv1beta1.RuntimePodStatus{}
		for _, r := range s.RT {
			e := &networkv1beta1.RuntimePodStatus{PodID: c03fPodID(r.Pod), Status: map[networkv1beta1.CNIStatus]*networkv1beta1.CNIStatusInfo{}}
			put := func(k networkv1beta1.CNIStatus, v int) {
				switch {
				case v < 0:
					e.Status[k] = nil
				case v > 0:
					e.Status[k] = &networkv1beta1.CNIStatusInfo{LastUpdateTime: metav1.NewTime(c03fBase.Add(time.Duration(v) * time.Second))}
				}
			}
			put(networkv1beta1.CNIStatusInitial, r.Initial)
			put(networkv1beta1.CNIStatusDeleted, r.Deleted)
			rt.Status.Pods[c03fUID(r.Pod, r.UID)] = e
		}
		w.rt = rt
		objs = append(objs, rt.DeepCopy())
	}
	w.cl = fake.NewClientBuilder().WithScheme(terwayTypes.Scheme).
		WithStatusSubresource(&networkv1beta1.Node{}, &networkv1beta1.NodeRuntime{}).
		WithIndex(&corev1.Pod{}, "spec.nodeName", func(o client.Object) []string {
			return []string{o.(*corev1.Pod).Spec.NodeName}
		}).
		WithObjects(objs...).Build()
	return w
}

func c03fRun(c *vt.Ctx, s c03fScenario) {
	VerifSleepDivisor = 1000000
	w := c03fBuild(s)
	ctx := aliyunClient.SetBackendAPI(context.Background(), aliyunClient.BackendAPIECS)
	ctx = logr.NewContext(ctx, logr.Discard())
	st := &NodeStatus{NeedSyncOpenAPI: &atomic.Bool{}, StatusChanged: &atomic.Bool{}}
	ctx = context.WithValue(ctx, ctxMetaKey{}, st)
	vsw, err := vswitch.NewSwitchPool(10, "10m")
	if err != nil {
		c.Inconclusive("switch pool: " + err.Error())
	}
	n := &ReconcileNode{
		client: w.cl, scheme: terwayTypes.Scheme, record: c03fRecorder{}, aliyun: w.cloud, vswpool: vsw,
		fullSyncNodePeriod: time.Hour, gcPeriod: 0, tracer: noop.NewTracerProvider().Tracer(""), eniBatchSize: 5,
	}
	c.Label("entry:" + s.Entry)
	switch {
	case s.V4 && s.V6:
		c.Label("stack:dual")
	case s.V6:
		c.Label("stack:ipv6-only")
	default:
		c.Label("stack:ipv4")
	}

	// 1. latest-timestamp-wins against the reference, on every generated status map
	// (the NodeRuntime read back from the API server when there is one)
	if w.rt != nil {
		got := &networkv1beta1.NodeRuntime{}
		if err := w.cl.Get(ctx, client.ObjectKey{Name: c03fNode}, got); err != nil {
			c.Inconclusive("get runtime: " + err.Error())
		}
		uids := make([]string, 0, len(got.Status.Pods))
		for u := range got.Status.Pods {
			uids = append(uids, u)
		}
		sort.Strings(uids)
		for _, u := range uids {
			e := got.Status.Pods[u]
			if e == nil {
				continue
			}
			want, wantOK := c03cloud.RefFinal(e.Status)
			have, info, haveOK := utils.RuntimeFinalStatus(e.Status)
			if wantOK != haveOK || (wantOK && want != have) {
				c.Fatalf("RuntimeFinalStatus(%s)= (%q, ok=%v), the entry with the latest timestamp is (%q, ok=%v); map %s",
					u, have, haveOK, want, wantOK, c03fShowStatus(e.Status))
			}
			if haveOK && info != e.Status[have] {
				c.Fatalf("RuntimeFinalStatus(%s) returned info that is not the %q entry", u, have)
			}
			if len(e.Status) >= 2 && wantOK {
				c.Labelf("final:%s-of-%d", want, len(e.Status))
			}
		}
	}

	before := c03cloud.CopyENIs(w.node.Status.NetworkInterfaces)
	w.cloud.SetFaults(s.Faults)
	if s.Replay > 0 {
		ids := make([]string, 0, len(before))
		for id := range before {
			ids = append(ids, id)
		}
		sort.Strings(ids)
		for _, id := range ids {
			e := before[id]
			if e.Status != aliyunClient.ENIStatusInUse {
				continue
			}
			for fam, m := range []map[string]*networkv1beta1.IP{e.IPv4, e.IPv6} {
				var first, second []string
				keys := make([]string, 0, len(m))
				for k := range m {
					keys = append(keys, k)
				}
				sort.Strings(keys)
				for _, k := range keys {
					ip := m[k]
					if ip.Primary || ip.Status != networkv1beta1.IPStatusValid {
						continue
					}
					if (ip.PodID != "") == (s.Replay == 1) {
						first = append(first, k)
					} else {
						second = append(second, k)
					}
				}
				cand := append(first, second...)
				for n := 1; n <= len(cand) && n <= 4; n++ {
					w.cloud.ArmReplay(fam == 1, id, cand[:n])
				}
			}
		}
	}

	podReqs, err := n.getPods(ctx, w.node)
	if err != nil {
		c.Fatalf("getPods: %v", err)
	}
	switch s.Entry {
	case "release":
		v4m, v6m := buildIPMap(podReqs, w.node.Status.NetworkInterfaces)
		releasePodNotFound(ctx, w.cl, c03fNode, podReqs, v4m, v6m)
	case "trim":
		ids := make([]string, 0)
		for id := range w.node.Status.NetworkInterfaces {
			ids = append(ids, id)
		}
		sort.Strings(ids)
		for _, id := range ids {
			releaseUnUsedIP(logr.Discard(), w.node.Status.NetworkInterfaces[id], s.ToDel)
		}
	case "gc":
		if err := n.gc(ctx, w.node); err != nil {
			c.Trace("gc: %v", err)
		}
	case "sync", "sync2":
		if err := n.syncPods(ctx, podReqs, w.node); err != nil {
			c.Trace("syncPods: %v", err)
		}
	default:
		c.Inconclusive("unknown entry " + s.Entry)
	}
	calls := w.cloud.TakeLog()
	for _, cl := range calls {
		if cl.Mutating() {
			c.Trace("cloud %s", cl)
		}
	}
	after := w.node.Status.NetworkInterfaces

	// 2. safety: nothing bound is reclaimed unless the gate of the statement is open
	touches := c03cloud.Touches(before, after, calls)
	for _, tch := range touches {
		ok, why := c03cloud.MayReclaim(tch.PodID, tch.PodUID, w.pods, w.rt)
		if !ok {
			c.Fatalf("entry %s reclaimed a bound address: %s -- but %s", s.Entry, tch, why)
		}
	}

	// 3. classes + converse (release paths): pod gone and teardown reported => free
	bound, goneBound := 0, 0
	for id, b := range before {
		for fam, m := range map[string]map[string]*networkv1beta1.IP{"v4": b.IPv4, "v6": b.IPv6} {
			for k, ip := range m {
				if ip.PodID == "" {
					continue
				}
				bound++
				nameThere := c03cloud.NameStillThere(ip.PodID, w.pods)
				cls := "bound:"
				switch {
				case c03cloud.PodStillThere(ip.PodID, ip.PodUID, w.pods):
					cls += "pod-present"
				case nameThere:
					cls += "name-present-other-uid"
				default:
					goneBound++
					if p, ok := w.pods[ip.PodID]; ok && p.Exited {
						cls += "pod-exited"
					} else {
						cls += "pod-gone"
					}
				}
				switch {
				case ip.PodUID == "":
					cls += "/no-uid"
				case w.rt == nil:
					cls += "/no-runtime-object"
				default:
					e := w.rt.Status.Pods[ip.PodUID]
					if e == nil {
						cls += "/no-entry"
					} else if fs, ok := c03cloud.RefFinal(e.Status); ok {
						cls += "/final-" + string(fs)
					} else {
						cls += "/empty-entry"
					}
				}
				c.Label(cls)
				if (s.Entry == "release" || s.Entry == "sync" || s.Entry == "sync2") && !nameThere && ip.PodUID != "" && c03cloud.TeardownReported(ip.PodUID, w.rt) {
					var now *networkv1beta1.IP
					if a := after[id]; a != nil {
						if fam == "v4" {
							now = a.IPv4[k]
						} else {
							now = a.IPv6[k]
						}
					}
					if now != nil && now.PodID == ip.PodID {
						c.Fatalf("entry %s: %s %s is still bound to %s/%s although the pod is gone and its final runtime status is deleted",
							s.Entry, fam, k, ip.PodID, ip.PodUID)
					}
					c.Label("freed:gone+deleted")
				}
			}
		}
	}
	if len(touches) > 0 {
		c.Label("touched-with-open-gate")
	}
	if len(w.takeover) > 0 {
		for _, a := range after {
			for _, m := range []map[string]*networkv1beta1.IP{a.IPv4, a.IPv6} {
				for _, ip := range m {
					for _, p := range w.takeover {
						if ip.PodID == p && (s.Entry == "sync" || s.Entry == "sync2") {
							c.Label("take-over:address-linked-to-reporting-pod")
						}
					}
				}
			}
		}
	}

	// 4. second pass (entry sync2): some pod objects vanish before the next pass. The
	// reclaims of that pass are judged against the ground-truth owner of each binding:
	// a binding the first pass created or took over belongs to the pod object (UID) that
	// existed then, whatever UID the record carries.
	if s.Entry == "sync2" {
		owners := c03cloud.SeedOwners(before)
		c03cloud.TrackOwners(owners, before, after, w.pods)
		before2 := c03cloud.WithTruth(after, owners)
		pods2 := map[string]c03cloud.PodView{}
		for k, v := range w.pods {
			pods2[k] = v
		}
		for i, p := range s.Pods {
			if p.Present && p.Vanish {
				pod := &corev1.Pod{ObjectMeta: metav1.ObjectMeta{Namespace: "ns", Name: fmt.Sprintf("p%d", i)}}
				if err := w.cl.Delete(ctx, pod); err != nil {
					c.Inconclusive("delete pod: " + err.Error())
				}
				delete(pods2, c03fPodID(i))
				for _, t := range w.takeover {
					if t == c03fPodID(i) {
						c.Label("take-over:pod-vanishes-before-next-pass")
					}
				}
			}
		}
		w.cloud.SetFaults(nil)
		podReqs2, err := n.getPods(ctx, w.node)
		if err != nil {
			c.Fatalf("getPods: %v", err)
		}
		if err := n.syncPods(ctx, podReqs2, w.node); err != nil {
			c.Trace("syncPods (2): %v", err)
		}
		calls2 := w.cloud.TakeLog()
		for _, tch := range c03cloud.Touches(before2, w.node.Status.NetworkInterfaces, calls2) {
			ok, why := c03cloud.MayReclaim(tch.PodID, tch.PodUID, pods2, w.rt)
			if !ok {
				c.Fatalf("entry sync2, second pass reclaimed a bound address: %s -- but %s (UID is the ground truth: the pod object the binding was made for)", tch, why)
			}
		}
	}
	switch s.Entry {
	case "release":
		if goneBound > 0 {
			c.NonTrivial()
		}
	default:
		if bound > 0 {
			c.NonTrivial()
		}
	}
	marked := 0
	for id, a := range after {
		if b := before[id]; b != nil && b.Status == aliyunClient.ENIStatusInUse && a.Status == aliyunClient.ENIStatusDeleting {
			marked++
		}
	}
	if marked > 0 {
		c.Label("trim:interface-marked")
	}
	for _, cl := range calls {
		if cl.Op == "UnAssignV4" || cl.Op == "UnAssignV6" || cl.Op == "Delete" {
			c.Label("cloud:" + cl.Op)
		}
		if cl.Op == "AssignV4(replay)" || cl.Op == "AssignV6(replay)" {
			bound := false
			for _, e := range before {
				for _, m := range []map[string]*networkv1beta1.IP{e.IPv4, e.IPv6} {
					for _, x := range cl.IPs {
						if ip := m[x]; ip != nil && ip.PodID != "" {
							bound = true
						}
					}
				}
			}
			if bound {
				c.Label("cloud:assign-replayed-a-bound-address")
			} else {
				c.Label("cloud:assign-replayed-idle-addresses")
			}
		}
	}
}

func c03fShowStatus(m map[networkv1beta1.CNIStatus]*networkv1beta1.CNIStatusInfo) string {
	keys := make([]string, 0, len(m))
	for k := range m {
		keys = append(keys, string(k))
	}
	sort.Strings(keys)
	out := "{"
	for _, k := range keys {
		v := m[networkv1beta1.CNIStatus(k)]
		if v == nil {
			out += k + ":nil "
		} else {
			out += fmt.Sprintf("%s:+%ds ", k, int(v.LastUpdateTime.Sub(c03fBase).Seconds()))
		}
	}
	return out + "}"
}

func TestVerifC03Functions(t *testing.T) { vt.Run(t, c03fGen, c03fRun) }
