package node

import (
	"testing"

	"github.com/AliyunContainerService/terway/zz_verif/vt"
)

// TestVerifC02Loop: generated histories over the closed loop; the C02 binding invariants
// are asserted on every persisted Node CR.
func TestVerifC02Loop(t *testing.T) { vt.Run(t, c02GenLoop("C02"), c02RunLoop) }
