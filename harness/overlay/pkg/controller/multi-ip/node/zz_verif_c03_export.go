package node

import (
	"context"
	"sync/atomic"
	"time"

	"go.opentelemetry.io/otel/trace/noop"
	"k8s.io/apimachinery/pkg/runtime"
	"k8s.io/apimachinery/pkg/types"
	"k8s.io/client-go/tools/record"
	"sigs.k8s.io/controller-runtime/pkg/client"
	"sigs.k8s.io/controller-runtime/pkg/reconcile"

	register "github.com/AliyunContainerService/terway/pkg/controller"
	"github.com/AliyunContainerService/terway/pkg/vswitch"
)

// Export shim for the C03 closed-loop harness (daemon package): assembles a
// ReconcileNode the way init() does, from parts the harness supplies, and exposes the
// per-node bookkeeping a history needs to steer (reconcile throttle, GC period,
// forced full sync). No logic of its own.

type C03Reconciler struct{ R *ReconcileNode }

func C03NewReconciler(c client.Client, scheme *runtime.Scheme, aliyun register.Interface,
	vsw *vswitch.SwitchPool, rec record.EventRecorder, gcPeriod time.Duration) *C03Reconciler {
	return &C03Reconciler{R: &ReconcileNode{
		client:             c,
		scheme:             scheme,
		record:             rec,
		aliyun:             aliyun,
		vswpool:            vsw,
		fullSyncNodePeriod: 24 * time.Hour,
		gcPeriod:           gcPeriod,
		tracer:             noop.NewTracerProvider().Tracer(""),
		eniBatchSize:       5,
	}}
}

func (r *C03Reconciler) Reconcile(ctx context.Context, name string) (reconcile.Result, error) {
	return r.R.Reconcile(ctx, reconcile.Request{NamespacedName: types.NamespacedName{Name: name}})
}

func (r *C03Reconciler) status(name string) *NodeStatus {
	v, ok := r.R.cache.Load(name)
	if !ok {
		st := &NodeStatus{NeedSyncOpenAPI: &atomic.Bool{}, StatusChanged: &atomic.Bool{}}
		r.R.cache.Store(name, st)
		return st
	}
	return v.(*NodeStatus)
}

// Unthrottle clears the "reconciled less than a second ago" guard.
func (r *C03Reconciler) Unthrottle(name string) { r.status(name).LastReconcileTime = time.Time{} }

// GCDue makes the pool adjustment due at the next reconcile.
func (r *C03Reconciler) GCDue(name string) { r.status(name).LastGCTime = time.Time{} }

// ForceFullSync asks for a sync with the cloud at the next reconcile.
func (r *C03Reconciler) ForceFullSync(name string) { r.status(name).NeedSyncOpenAPI.Store(true) }

// Restart forgets all per-node controller state (new process).
func (r *C03Reconciler) Restart(name string) { r.R.cache.Delete(name) }
