package node

import "time"

// VerifSleepDivisor scales the hard-coded waits in pool.go (3 s after attach, 1 s
// waitTime) when the verification driver has rewritten them into
// `time.Sleep(verifScale(...))` (see /verif/bin/check SLEEP_TRANSFORMS). 1 = unchanged.
var VerifSleepDivisor int64 = 1

func verifScale(d time.Duration) time.Duration {
	if VerifSleepDivisor <= 1 {
		return d
	}
	return d / time.Duration(VerifSleepDivisor)
}
