package link

import (
	"testing"

	"github.com/AliyunContainerService/terway/zz_verif/vt"
	"pgregory.net/rapid"
)

// C14 (d): the host-side interface name of a pod is a function of (namespace, name,
// interface, prefix) only, is at most 15 bytes long (IFNAMSIZ-1) for the prefixes the
// callers use ("cali"; anything up to 4 bytes is accepted here), treats "eth0" and ""
// as the same interface and differs between the interfaces of one pod.

type vfC14VethScenario struct {
	Name      string   `json:"name"`
	Namespace string   `json:"namespace"`
	Prefix    string   `json:"prefix"`
	IfNames   []string `json:"if_names"` // <= 8
}

// vfC14DNSName draws a DNS-1123 style name of exactly n bytes (n >= 1).
func vfC14DNSName(t *rapid.T, n int, label string) string {
	const alnum = "abcdefghijklmnopqrstuvwxyz0123456789"
	var b []byte
	switch rapid.IntRange(0, 2).Draw(t, label+"-shape") {
	case 0:
		// one repeated character: names that differ from a neighbour only in length / tail
		ch := alnum[rapid.IntRange(0, len(alnum)-1).Draw(t, label+"-ch")]
		b = make([]byte, n)
		for i := range b {
			b[i] = ch
		}
	default:
		rs := rapid.SliceOfN(rapid.SampledFrom([]byte(alnum+"--.")), n, n).Draw(t, label+"-body")
		b = append(b, rs...)
	}
	for _, i := range []int{0, n - 1} {
		if b[i] == '-' || b[i] == '.' {
			b[i] = 'x'
		}
	}
	return string(b)
}

func vfC14GenVeth(t *rapid.T) vfC14VethScenario {
	// a namespace is a DNS label (<= 63 bytes), a pod name a DNS subdomain (<= 253 bytes);
	// lengths around 63, around 140 (= 63+1+63+15 and neighbours) and at the upper limit are
	// over-represented next to ordinary short names
	nsLen := rapid.OneOf(rapid.IntRange(1, 16), rapid.IntRange(55, 63), rapid.IntRange(1, 63))
	nameLen := rapid.OneOf(rapid.IntRange(1, 40), rapid.IntRange(56, 66), rapid.IntRange(110, 160),
		rapid.IntRange(245, 253), rapid.IntRange(1, 253))
	anyStr := rapid.StringN(0, 40, 120)
	var name, namespace string
	if rapid.IntRange(0, 7).Draw(t, "arbitrary") == 0 {
		name, namespace = anyStr.Draw(t, "name"), anyStr.Draw(t, "namespace")
	} else {
		namespace = vfC14DNSName(t, nsLen.Draw(t, "nslen"), "ns")
		name = vfC14DNSName(t, nameLen.Draw(t, "namelen"), "name")
	}
	ifName := rapid.OneOf(
		rapid.SampledFrom([]string{"", "eth0", "eth1", "eth2", "net1", "eth00", "eth", "0", "eth0 ", "ETH0"}),
		rapid.StringMatching(`[a-z]{1,5}[0-9]{0,3}`),
		rapid.StringN(0, 15, 15),
	)
	s := vfC14VethScenario{
		Name:      name,
		Namespace: namespace,
		Prefix: rapid.OneOf(
			rapid.Just("cali"), // plugin/terway defaultVethPrefix and both daemon callers
			rapid.StringMatching(`[a-z]{0,4}`),
		).Draw(t, "prefix"),
		IfNames: rapid.SliceOfN(ifName, 1, 8).Draw(t, "ifnames"),
	}
	return s
}

func vfC14Canon(ifn string) string {
	if ifn == "eth0" {
		return ""
	}
	return ifn
}

func vfC14RunVeth(c *vt.Ctx, s vfC14VethScenario) {
	if len(s.Prefix) > 4 || len(s.IfNames) > 8 {
		c.Inconclusive("scenario outside the generated domain")
	}
	call := func(ifn string) string {
		got, err := VethNameForPod(s.Name, s.Namespace, ifn, s.Prefix)
		if err != nil {
			c.Fatalf("VethNameForPod(%q, %q, %q, %q) failed: %v", s.Name, s.Namespace, ifn, s.Prefix, err)
		}
		c.Trace("VethNameForPod(%q, %q, %q, %q) = %q", s.Name, s.Namespace, ifn, s.Prefix, got)
		return got
	}

	first := map[string]string{} // interface name -> host-side name (first pass)
	for _, ifn := range s.IfNames {
		got := call(ifn)
		if len(got) > 15 {
			c.Fatalf("VethNameForPod(%q, %q, %q, %q) = %q is %d bytes long, more than an interface name may have (15)",
				s.Name, s.Namespace, ifn, s.Prefix, got, len(got))
		}
		if prev, ok := first[ifn]; ok && prev != got {
			c.Fatalf("VethNameForPod(%q, %q, %q, %q) = %q, earlier %q", s.Name, s.Namespace, ifn, s.Prefix, got, prev)
		}
		first[ifn] = got
	}
	// second pass in reverse order: same answers (no dependence on call history)
	for i := len(s.IfNames) - 1; i >= 0; i-- {
		ifn := s.IfNames[i]
		if got := call(ifn); got != first[ifn] {
			c.Fatalf("VethNameForPod(%q, %q, %q, %q) = %q on the second call, %q on the first", s.Name, s.Namespace, ifn, s.Prefix, got, first[ifn])
		}
	}
	// "eth0" is the default interface
	if a, b := call("eth0"), call(""); a != b {
		c.Fatalf("VethNameForPod(%q, %q, \"eth0\", %q) = %q but with interface \"\" it is %q", s.Name, s.Namespace, s.Prefix, a, b)
	}
	// distinct interfaces of the pod get distinct host-side names
	owner := map[string]string{} // host-side name -> canonical interface name
	for _, ifn := range s.IfNames {
		cn := vfC14Canon(ifn)
		if prev, ok := owner[first[ifn]]; ok && prev != cn {
			c.Fatalf("pod %q/%q: interfaces %q and %q both get host-side name %q", s.Namespace, s.Name, prev, cn, first[ifn])
		}
		owner[first[ifn]] = cn
	}

	canon := map[string]bool{}
	for _, ifn := range s.IfNames {
		canon[vfC14Canon(ifn)] = true
	}
	c.Labelf("distinct-interfaces=%d", len(canon))
	c.Labelf("prefix-len=%d", len(s.Prefix))
	switch kl := len(s.Namespace) + 1 + len(s.Name); {
	case kl < 64:
		c.Label("ns+name<64 bytes")
	case kl < 128:
		c.Label("ns+name 64..127 bytes")
	case kl < 160:
		c.Label("ns+name 128..159 bytes")
	default:
		c.Label("ns+name>=160 bytes")
	}
	if s.Prefix == "cali" {
		c.Label("prefix=cali")
	}
	if len(canon) >= 2 {
		c.NonTrivial()
	}
}

func TestVerifC14VethName(t *testing.T) {
	vt.Run(t, vfC14GenVeth, vfC14RunVeth)
}
