package eni

import (
	"context"
	"encoding/json"
	"testing"

	corev1 "k8s.io/api/core/v1"
	metav1 "k8s.io/apimachinery/pkg/apis/meta/v1"
	"k8s.io/apimachinery/pkg/runtime"
	k8stypes "k8s.io/apimachinery/pkg/types"
	"pgregory.net/rapid"
	"sigs.k8s.io/controller-runtime/pkg/client"
	"sigs.k8s.io/controller-runtime/pkg/client/fake"
	"sigs.k8s.io/controller-runtime/pkg/reconcile"

	networkv1beta1 "github.com/AliyunContainerService/terway/pkg/apis/network.alibabacloud.com/v1beta1"
	"github.com/AliyunContainerService/terway/pkg/utils/nodecap"
	terwayTypes "github.com/AliyunContainerService/terway/types"
	"github.com/AliyunContainerService/terway/zz_verif/vt"
)

// C19 (daemon-side Node CR reconcile): the ENISpec feature flags, the interface flavor
// and the pool watermarks nodeReconcile writes into the Node CR never exceed the
// capabilities recorded in the same CR (NodeCap).
//
//	slots = NodeCap.Adapters-1
//	every flavor count >= 0;  sum of counts <= slots;  trunk count <= 1 and only on a
//	type with member interfaces;  RDMA count <= EriQuantity
//	EnableIPv6 off when IPv6PerAdapter = 0 or < IPv4PerAdapter;  EnableTrunk off when
//	MemberAdapterLimit = 0;  EnableERDMA off when EriQuantity = 0
//	pool: 0 <= MinPoolSize <= MaxPoolSize <= (standard+trunk slots) x IPv4PerAdapter

const (
	c19NodeName = "node-c19"
	c19Zone     = "cn-hangzhou-k"
)

// c19Conf is the eni_conf of the eni-config ConfigMap.
type c19Conf struct {
	Stack    string `json:"ip_stack"` // "" = key absent (default ipv4)
	Trunking bool   `json:"enable_eni_trunking"`
	ERDMA    bool   `json:"enable_erdma"`
	MaxPool  int    `json:"max_pool_size"`
	MinPool  int    `json:"min_pool_size"`
}

func c19GenConf(t *rapid.T, capacity int) c19Conf {
	cf := c19Conf{}
	cf.Stack = rapid.SampledFrom([]string{"", "ipv4", "dual", "dual", "dual", "ipv6"}).Draw(t, "stack")
	cf.Trunking = rapid.Bool().Draw(t, "trunking")
	cf.ERDMA = rapid.Bool().Draw(t, "erdma")
	switch rapid.IntRange(0, 3).Draw(t, "maxPoolClass") {
	case 0:
		cf.MaxPool = 0
	case 1:
		cf.MaxPool = rapid.IntRange(0, capacity).Draw(t, "maxPool")
	case 2:
		cf.MaxPool = capacity + rapid.IntRange(1, 5).Draw(t, "maxPoolOver")
	default:
		cf.MaxPool = rapid.IntRange(0, 10).Draw(t, "maxPoolSmall")
	}
	switch rapid.IntRange(0, 3).Draw(t, "minPoolClass") {
	case 0:
		cf.MinPool = 0
	case 1:
		cf.MinPool = rapid.IntRange(0, cf.MaxPool).Draw(t, "minPool")
	case 2:
		cf.MinPool = cf.MaxPool + rapid.IntRange(1, 5).Draw(t, "minPoolOver")
	default:
		cf.MinPool = rapid.IntRange(0, 10).Draw(t, "minPoolSmall")
	}
	return cf
}

func (cf c19Conf) configMap(c *vt.Ctx) *corev1.ConfigMap {
	m := map[string]any{
		"version":             "1",
		"vswitches":           map[string][]string{c19Zone: {"vsw-c19"}},
		"security_group":      "sg-c19",
		"max_pool_size":       cf.MaxPool,
		"min_pool_size":       cf.MinPool,
		"enable_eni_trunking": cf.Trunking,
		"enable_erdma":        cf.ERDMA,
	}
	if cf.Stack != "" {
		m["ip_stack"] = cf.Stack
	}
	raw, err := json.Marshal(m)
	if err != nil {
		c.Fatalf("marshal eni_conf: %v", err)
	}
	return &corev1.ConfigMap{
		ObjectMeta: metav1.ObjectMeta{Name: "eni-config", Namespace: "kube-system"},
		Data:       map[string]string{"eni_conf": string(raw)},
	}
}

// c19Recorder drops events (record.FakeRecorder blocks when its buffer is full).
type c19Recorder struct{}

func (c19Recorder) Event(runtime.Object, string, string, string)                  {}
func (c19Recorder) Eventf(runtime.Object, string, string, string, ...interface{}) {}
func (c19Recorder) AnnotatedEventf(runtime.Object, map[string]string, string, string, string, ...interface{}) {
}

func c19SetOSERDMA(on bool) {
	if on {
		nodecap.SetNodeCapabilities(nodecap.NodeCapabilityERDMA, "true")
	} else {
		nodecap.SetNodeCapabilities(nodecap.NodeCapabilityERDMA, "")
	}
}

// c19NewDaemonReconciler builds the daemon-side reconciler the way NewCRDV2 does; the
// sync.Once guarding the ERDMA device plugin is spent so that no plugin server (unix
// socket, kubelet registration loop) is started from a test.
func c19NewDaemonReconciler(cl client.Client) *nodeReconcile {
	r := &nodeReconcile{client: cl, nodeName: c19NodeName, record: c19Recorder{}}
	r.once.Do(func() {})
	return r
}

// c19Caps is what the instance can deliver, in the units the oracle needs.
type c19Caps struct {
	Slots  int // attachable secondary interfaces
	V4, V6 int
	Member int // member interfaces (0 = trunking unsupported)
	Eri    int // RDMA-capable interfaces
}

type c19FlavorSum struct {
	Trunk, Rdma, Std int
}

// c19CheckCR checks ENISpec / Flavor of a Node CR against caps.
// lingjun: the node is a LingJun node (no IPv6, trunk or ERDMA at all).
func c19CheckCR(c *vt.Ctx, where string, cr *networkv1beta1.Node, caps c19Caps, exclusive, lingjun bool) c19FlavorSum {
	sum := c19FlavorSum{}
	spec := cr.Spec.ENISpec
	if spec == nil {
		c.Fatalf("%s: Node CR has no ENISpec", where)
	}
	for _, f := range cr.Spec.Flavor {
		if f.Count < 0 {
			c.Fatalf("%s: flavor %+v has a negative count (flavor %+v)", where, f, cr.Spec.Flavor)
		}
		switch {
		case f.NetworkInterfaceType == networkv1beta1.ENITypeTrunk:
			sum.Trunk += f.Count
		case f.NetworkInterfaceType == networkv1beta1.ENITypeSecondary && f.NetworkInterfaceTrafficMode == networkv1beta1.NetworkInterfaceTrafficModeHighPerformance:
			sum.Rdma += f.Count
		case f.NetworkInterfaceType == networkv1beta1.ENITypeSecondary && f.NetworkInterfaceTrafficMode == networkv1beta1.NetworkInterfaceTrafficModeStandard:
			sum.Std += f.Count
		default:
			c.Fatalf("%s: unexpected flavor entry %+v", where, f)
		}
	}
	if total := sum.Trunk + sum.Rdma + sum.Std; total > caps.Slots {
		c.Fatalf("%s: flavor %+v asks for %d interfaces, the instance can attach %d secondary interfaces", where, cr.Spec.Flavor, total, caps.Slots)
	}
	if sum.Trunk > 1 {
		c.Fatalf("%s: flavor %+v has %d trunk interfaces", where, cr.Spec.Flavor, sum.Trunk)
	}
	if sum.Trunk > 0 && (caps.Member == 0 || lingjun) {
		c.Fatalf("%s: flavor %+v has a trunk interface (member limit %d, lingjun %v)", where, cr.Spec.Flavor, caps.Member, lingjun)
	}
	if sum.Trunk > 0 && exclusive {
		c.Label("flavor:trunk-on-exclusive-node") // not an instance limit; visible in the evidence
	}
	if sum.Rdma > caps.Eri {
		c.Fatalf("%s: flavor %+v has %d RDMA interfaces, the instance type has %d", where, cr.Spec.Flavor, sum.Rdma, caps.Eri)
	}
	if spec.EnableTrunk && (caps.Member == 0 || lingjun) {
		c.Fatalf("%s: EnableTrunk on an instance type with member limit %d (lingjun %v)", where, caps.Member, lingjun)
	}
	if spec.EnableERDMA && (caps.Eri == 0 || lingjun) {
		c.Fatalf("%s: EnableERDMA on an instance type with %d RDMA interfaces (lingjun %v)", where, caps.Eri, lingjun)
	}
	if spec.EnableIPv6 && lingjun {
		c.Fatalf("%s: EnableIPv6 on a LingJun node", where)
	}
	if spec.EnableIPv6 && caps.V6 == 0 {
		if c19Known("C19-ipv6-only-unsupported") && !spec.EnableIPv4 {
			c.Label("known:C19-ipv6-only-unsupported")
		} else {
			c.Fatalf("%s: EnableIPv6 (EnableIPv4 %v) on an instance type without IPv6 addresses", where, spec.EnableIPv4)
		}
	} else if spec.EnableIPv6 && caps.V6 < caps.V4 {
		if c19Known("C19-ipv6-only-unsupported") && !spec.EnableIPv4 {
			c.Label("known:C19-ipv6-only-unsupported")
		} else {
			c.Fatalf("%s: EnableIPv6 (EnableIPv4 %v) with %d IPv6 < %d IPv4 addresses per interface: every slot is advertised with %d addresses", where, spec.EnableIPv4, caps.V6, caps.V4, caps.V4)
		}
	}
	if !spec.EnableIPv4 && !spec.EnableIPv6 {
		c.Label("out:no-stack")
	}
	if p := cr.Spec.Pool; p != nil {
		capacity := (sum.Std + sum.Trunk) * caps.V4
		if !(0 <= p.MinPoolSize && p.MinPoolSize <= p.MaxPoolSize && p.MaxPoolSize <= capacity) {
			if c19Known("C19-crd-pool-unclamped") {
				c.Label("known:C19-crd-pool-unclamped")
			} else {
				c.Fatalf("%s: pool watermarks min %d, max %d violate 0 <= min <= max <= capacity %d (%d slots x %d)", where, p.MinPoolSize, p.MaxPoolSize, capacity, sum.Std+sum.Trunk, caps.V4)
			}
		}
	}
	if spec.EnableIPv6 {
		c.Label("out:ipv6")
	}
	if spec.EnableTrunk {
		c.Label("out:trunk")
	}
	if spec.EnableERDMA {
		c.Label("out:erdma")
	}
	if sum.Rdma > 0 {
		c.Label("flavor:rdma")
	}
	if sum.Trunk > 0 {
		c.Label("flavor:trunk")
	}
	return sum
}

// c19Classify labels what was asked for against what the instance has; returns the
// non-trivial verdict (>= 1 requested feature the instance lacks or a pool size above
// the capacity).
func c19Classify(c *vt.Ctx, cf c19Conf, caps c19Caps, exclusive, osERDMA bool) bool {
	nt := false
	wantV6 := cf.Stack == "dual" || cf.Stack == "ipv6"
	switch {
	case wantV6 && caps.V6 == 0:
		c.Labelf("ask-%s:unsupported", cf.Stack)
		nt = true
	case wantV6 && caps.V6 != caps.V4:
		c.Labelf("ask-%s:unequal", cf.Stack)
		nt = true
	case wantV6:
		c.Labelf("ask-%s:ok", cf.Stack)
	}
	switch {
	case cf.Trunking && caps.Member == 0:
		c.Label("ask-trunk:unsupported")
		nt = true
	case cf.Trunking && exclusive:
		c.Label("ask-trunk:exclusive-node")
		nt = true
	case cf.Trunking:
		c.Label("ask-trunk:ok")
	}
	switch {
	case cf.ERDMA && caps.Eri == 0:
		c.Label("ask-erdma:unsupported")
		nt = true
	case cf.ERDMA && !osERDMA:
		c.Label("ask-erdma:os-lacks")
	case cf.ERDMA:
		c.Label("ask-erdma:ok")
	}
	if cf.MaxPool > caps.Slots*caps.V4 {
		c.Label("max_pool>limit")
		nt = true
	}
	if cf.MinPool > cf.MaxPool {
		c.Label("min>max")
		nt = true
	}
	if caps.Slots == 0 {
		c.Label("primary-only")
		nt = true
	}
	if exclusive {
		c.Label("mode:exclusive")
	}
	return nt
}

// ---------------------------------------------------------------- standalone reconcile

type c19NRScenario struct {
	// NodeCap as recorded in the CR
	Adapters int `json:"adapters"`
	V4       int `json:"ipv4_per_adapter"`
	V6       int `json:"ipv6_per_adapter"`
	Member   int `json:"member_adapter_limit"`
	Eri      int `json:"eri_quantity"`

	LinJun    bool    `json:"lingjun"`
	Exclusive string  `json:"exclusive_label"` // label on the CR ("" = absent)
	Conf      c19Conf `json:"conf"`
	OSERDMA   bool    `json:"os_erdma"`
	Prior     bool    `json:"prior"` // CR already carries a (larger) ENISpec/flavor from an earlier configuration
	Twice     bool    `json:"twice"`
}

func c19GenNR(t *rapid.T) c19NRScenario {
	s := c19NRScenario{}
	s.Adapters = rapid.OneOf(rapid.IntRange(1, 4), rapid.IntRange(1, vt.Scale(32, 64))).Draw(t, "adapters")
	s.V4 = rapid.IntRange(1, 50).Draw(t, "v4")
	switch rapid.IntRange(0, 9).Draw(t, "v6Class") {
	case 0, 1, 2:
		s.V6 = 0
	case 3, 4, 5, 6:
		s.V6 = s.V4
	default:
		s.V6 = rapid.IntRange(1, 50).Draw(t, "v6")
	}
	if rapid.IntRange(0, 2).Draw(t, "hasMember") > 0 {
		s.Member = rapid.IntRange(1, 120).Draw(t, "member")
	}
	s.Eri = rapid.SampledFrom([]int{0, 0, 1, 1, 2, 4}).Draw(t, "eri")
	s.LinJun = rapid.IntRange(0, 9).Draw(t, "lingjun") == 9
	s.Exclusive = rapid.SampledFrom([]string{"", "", "", "default", "eniOnly", "ENIONLY"}).Draw(t, "exclusive")
	s.Conf = c19GenConf(t, (s.Adapters-1)*s.V4)
	s.OSERDMA = rapid.IntRange(0, 3).Draw(t, "osERDMA") > 0
	s.Prior = rapid.IntRange(0, 2).Draw(t, "prior") == 2
	s.Twice = rapid.Bool().Draw(t, "twice")
	return s
}

func c19RunNR(c *vt.Ctx, s c19NRScenario) {
	ctx := context.Background()
	c19SetOSERDMA(s.OSERDMA)
	defer c19SetOSERDMA(false)

	k8sNode := &corev1.Node{ObjectMeta: metav1.ObjectMeta{Name: c19NodeName, Labels: map[string]string{}}}
	cr := &networkv1beta1.Node{
		ObjectMeta: metav1.ObjectMeta{Name: c19NodeName, Labels: map[string]string{}},
		Spec: networkv1beta1.NodeSpec{
			NodeMetadata: networkv1beta1.NodeMetadata{RegionID: "cn-hangzhou", InstanceID: "i-c19", InstanceType: "ecs.c19.large", ZoneID: c19Zone},
			NodeCap: networkv1beta1.NodeCap{
				Adapters: s.Adapters, TotalAdapters: s.Adapters + s.Member, IPv4PerAdapter: s.V4, IPv6PerAdapter: s.V6,
				MemberAdapterLimit: s.Member, MaxMemberAdapterLimit: s.Member, EriQuantity: s.Eri,
			},
		},
	}
	if s.LinJun {
		k8sNode.Labels[terwayTypes.LinJunNodeLabelKey] = "true"
		cr.Labels[terwayTypes.LinJunNodeLabelKey] = "true"
	}
	if s.Exclusive != "" {
		k8sNode.Labels[terwayTypes.ExclusiveENIModeLabel] = s.Exclusive
		cr.Labels[terwayTypes.ExclusiveENIModeLabel] = s.Exclusive
	}
	if s.Prior {
		cr.Spec.ENISpec = &networkv1beta1.ENISpec{EnableIPv4: true, EnableIPv6: true, EnableTrunk: true, EnableERDMA: true,
			VSwitchOptions: []string{"vsw-old"}, SecurityGroupIDs: []string{"sg-old"}}
		cr.Spec.Flavor = []networkv1beta1.Flavor{
			{NetworkInterfaceType: networkv1beta1.ENITypeTrunk, NetworkInterfaceTrafficMode: networkv1beta1.NetworkInterfaceTrafficModeStandard, Count: 1},
			{NetworkInterfaceType: networkv1beta1.ENITypeSecondary, NetworkInterfaceTrafficMode: networkv1beta1.NetworkInterfaceTrafficModeHighPerformance, Count: 2},
			{NetworkInterfaceType: networkv1beta1.ENITypeSecondary, NetworkInterfaceTrafficMode: networkv1beta1.NetworkInterfaceTrafficModeStandard, Count: 70},
		}
		cr.Spec.Pool = &networkv1beta1.PoolSpec{MaxPoolSize: 5000, MinPoolSize: 4000}
		c.Label("prior-spec")
	}
	cl := fake.NewClientBuilder().WithScheme(terwayTypes.Scheme).
		WithStatusSubresource(&networkv1beta1.Node{}).
		WithObjects(k8sNode, cr, s.Conf.configMap(c)).Build()
	r := c19NewDaemonReconciler(cl)
	req := reconcile.Request{NamespacedName: k8stypes.NamespacedName{Name: c19NodeName}}

	caps := c19Caps{Slots: s.Adapters - 1, V4: s.V4, V6: s.V6, Member: s.Member, Eri: s.Eri}
	exclusive := terwayTypes.NodeExclusiveENIMode(cr.Labels) == terwayTypes.ExclusiveENIOnly
	if s.LinJun {
		c.Label("lingjun")
	}
	if c19Classify(c, s.Conf, caps, exclusive, s.OSERDMA) {
		c.NonTrivial()
	}

	rounds := 1
	if s.Twice {
		rounds = 2
	}
	for i := 0; i < rounds; i++ {
		if _, err := r.Reconcile(ctx, req); err != nil {
			// refusing a configuration is allowed; nothing is advertised then
			c.Trace("daemon-side Reconcile #%d failed: %v", i+1, err)
			c.Inconclusive("daemon-side reconcile refused")
		}
		got := &networkv1beta1.Node{}
		if err := cl.Get(ctx, client.ObjectKey{Name: c19NodeName}, got); err != nil {
			c.Fatalf("get Node CR: %v", err)
		}
		c.Trace("after reconcile #%d: eni=%+v flavor=%+v pool=%+v", i+1, got.Spec.ENISpec, got.Spec.Flavor, got.Spec.Pool)
		c19CheckCR(c, "daemon-side reconcile", got, caps, exclusive, s.LinJun)
		if spec := got.Spec.ENISpec; spec != nil {
			// enabling something that was not asked for is not an instance-limit
			// violation; only made visible
			if (spec.EnableTrunk && !s.Conf.Trunking) || (spec.EnableERDMA && !s.Conf.ERDMA) ||
				(spec.EnableIPv6 && s.Conf.Stack != "dual" && s.Conf.Stack != "ipv6") {
				c.Label("out:enabled-unasked")
			}
		}
	}
}

func TestVerifC19NodeReconcile(t *testing.T) {
	vt.Run(t, c19GenNR, c19RunNR)
}

// c19WitnessMode switches the known-finding guards off so that a witness shows whether
// the listed defect is still there.
var c19WitnessMode bool

func c19Known(id string) bool { return !c19WitnessMode && vt.Known(id) }

// Witness of C19-ipv6-only-unsupported: ip_stack "ipv6" on an instance type without
// IPv6 addresses still yields EnableIPv6 in the Node CR (only "dual" is checked).
func TestVerifC19KnownWitnessIPv6Only(t *testing.T) {
	c19WitnessMode = true
	defer func() { c19WitnessMode = false }()
	s := c19NRScenario{Adapters: 3, V4: 10, V6: 0, Conf: c19Conf{Stack: "ipv6", MaxPool: 5}}
	vt.Witness(t, "C19", "C19-ipv6-only-unsupported",
		"ip_stack ipv6 in CRD mode: nodeReconcile sets EnableIPv6 on an instance type with 0 (or fewer than IPv4) IPv6 addresses per interface",
		s, c19RunNR)
}

// Witness of C19-crd-pool-unclamped: the Node CR carries min_pool_size/max_pool_size
// verbatim (min > max, max > capacity) whereas the legacy pool config clamps them.
func TestVerifC19KnownWitnessCRDPool(t *testing.T) {
	c19WitnessMode = true
	defer func() { c19WitnessMode = false }()
	s := c19NRScenario{Adapters: 3, V4: 10, V6: 0, Conf: c19Conf{Stack: "ipv4", MaxPool: 1, MinPool: 5}}
	vt.Witness(t, "C19", "C19-crd-pool-unclamped",
		"CRD mode: Node CR pool watermarks are the raw min_pool_size/max_pool_size (here min 5 > max 1); 0 <= min <= max <= capacity not enforced",
		s, c19RunNR)
}
